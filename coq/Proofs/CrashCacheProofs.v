(* C05 — the caches a crash leaves behind (second invariant, over the full sidecars).
   A full sidecar that ContinuityStreamCache::try_replay accepts is, at EVERY instruction boundary of any
   history, after restart and after any further operations, a PREFIX of the thread's stream in the truth log:
   stale at worst, never inconsistent.  Everything else try_replay refuses (the store falls back to the log). *)
From RipV Require Import Base.Prelude Model.Crash Proofs.CrashProofs.

(* ================================================================ vocabulary *)
(* ch is a chunk-prefix of the perfect sidecar of stream S *)
Definition Good (ch : list chunk) (S : list frame) : Prop := exists rest, ch ++ rest = enc S.
(* try_replay can never accept ch, and no later appended line changes that *)
Definition Bad (ch : list chunk) : Prop :=
  match parse ch with None => True | Some evs => seqs_from 0 evs = false end.
Definition GB (ch : list chunk) (S : list frame) : Prop := Good ch S \/ Bad ch.
(* every full sidecar on disk is Good or Bad w.r.t. its thread's stream in the truth log on disk *)
Definition SOK (s : st) : Prop :=
  forall c ch, In (c, ch) (sides s) -> GB ch (stream (2 * c) (frames_of (truth s))).

(* ================================================================ lists, lines *)
Lemma stream_app sid a b : stream sid (a ++ b) = stream sid a ++ stream sid b.
Proof. unfold stream. apply filter_app. Qed.

Lemma In_put {V} c (ch : V) k v m : In (c, ch) (put k v m) -> (c = k /\ ch = v) \/ In (c, ch) m.
Proof.
  induction m as [|[k' v'] m IH]; cbn [put In].
  - intros [E|[]]. injection E as <- <-. left. split; reflexivity.
  - destruct (k =? k') eqn:E; cbn [In].
    + intros [H|H]; [injection H as <- <-; left; split; reflexivity | right; right; exact H].
    + intros [H|H]; [right; left; exact H|]. destruct (IH H) as [H'|H']; [left; exact H' | right; right; exact H'].
Qed.
Lemma In_del {V} (x : N * V) k m : In x (del k m) -> In x m.
Proof.
  induction m as [|[k' v'] m IH]; cbn [del In]; [tauto|].
  destruct (k =? k'); cbn [In]; [intros H; right; exact H|]. intros [H|H]; [left; exact H | right; exact (IH H)].
Qed.
Lemma get_In {V} c (ch : V) m : get c m = Some ch -> In (c, ch) m.
Proof.
  induction m as [|[k' v'] m IH]; cbn [get In]; [discriminate|].
  destruct (c =? k') eqn:E.
  - intros H. injection H as <-. apply N.eqb_eq in E. subst k'. left. reflexivity.
  - intros H. right. exact (IH H).
Qed.

(* complete lines and the pending (unterminated) line *)
Fixpoint lp (cur : list frame) (ch : list chunk) : list (list frame) * list frame :=
  match ch with
  | [] => ([], cur)
  | Body f :: r => lp (cur ++ [f]) r
  | NL :: r => let p := lp [] r in (cur :: fst p, snd p)
  end.
Definition pend (p : list frame) : list (list frame) := match p with [] => [] | _ => [p] end.

Lemma lines_acc_lp ch : forall cur, lines_acc cur ch = fst (lp cur ch) ++ pend (snd (lp cur ch)).
Proof.
  induction ch as [|[f|] ch IH]; intros cur; cbn [lines_acc lp fst snd app].
  - destruct cur; reflexivity.
  - apply IH.
  - rewrite IH. reflexivity.
Qed.
Lemma lines_acc_lp_line ch g : forall cur,
  lines_acc cur (ch ++ [Body g; NL]) = fst (lp cur ch) ++ [snd (lp cur ch) ++ [g]].
Proof.
  induction ch as [|[f|] ch IH]; intros cur; cbn [lines_acc lp fst snd app].
  - reflexivity.
  - apply IH.
  - rewrite IH. reflexivity.
Qed.

Lemma parse_lines_snoc ls l :
  parse_lines (ls ++ [l]) =
  match parse_lines ls with
  | Some a => match l with [x] => Some (a ++ [x]) | _ => None end
  | None => None
  end.
Proof.
  induction ls as [|[|y [|z t]] ls IH]; cbn [app parse_lines].
  - destruct l as [|x [|x' t]]; reflexivity.
  - reflexivity.
  - rewrite IH. destruct (parse_lines ls); cbn [option_map]; [|reflexivity].
    destruct l as [|x [|x' t]]; reflexivity.
  - reflexivity.
Qed.

(* normal forms of parse on ch and on ch + one more whole line *)
Lemma parse_nf ch :
  parse ch = match parse_lines (fst (lp [] ch)) with
             | None => None
             | Some a => match snd (lp [] ch) with [] => Some a | [x] => Some (a ++ [x]) | _ => None end
             end.
Proof.
  unfold parse, lines. rewrite lines_acc_lp.
  destruct (snd (lp [] ch)) as [|x [|y t]] eqn:E; cbn [pend].
  - rewrite app_nil_r. destruct (parse_lines (fst (lp [] ch))); reflexivity.
  - rewrite parse_lines_snoc. reflexivity.
  - rewrite parse_lines_snoc. destruct (parse_lines (fst (lp [] ch))); reflexivity.
Qed.
Lemma parse_line_nf ch g :
  parse (ch ++ [Body g; NL]) = match parse_lines (fst (lp [] ch)) with
                               | None => None
                               | Some a => match snd (lp [] ch) with [] => Some (a ++ [g]) | _ => None end
                               end.
Proof.
  unfold parse, lines. rewrite lines_acc_lp_line, parse_lines_snoc.
  destruct (parse_lines (fst (lp [] ch))); [|reflexivity].
  destruct (snd (lp [] ch)) as [|x [|y t]]; reflexivity.
Qed.

Lemma seqs_from_snoc a g : forall n, seqs_from n (a ++ [g]) = seqs_from n a && (f_seq g =? n + nlen a).
Proof.
  induction a as [|f a IH]; intros n; cbn [app seqs_from].
  - unfold nlen. cbn [length N.of_nat]. rewrite N.add_0_r, andb_true_r. reflexivity.
  - rewrite IH, nlen_cons. rewrite <- andb_assoc. f_equal. f_equal. f_equal. lia.
Qed.

(* a refused sidecar stays refused when a whole line is appended *)
Lemma Bad_line ch g : Bad ch -> Bad (ch ++ [Body g; NL]).
Proof.
  unfold Bad. rewrite parse_nf, parse_line_nf.
  destruct (parse_lines (fst (lp [] ch))) as [a|]; [|tauto].
  destruct (snd (lp [] ch)) as [|x [|y t]]; try tauto.
  intros H. rewrite seqs_from_snoc, H. reflexivity.
Qed.

(* ================================================================ Good: chunk-prefixes of a perfect sidecar *)
Lemma Good_mono ch S S' : Good ch S -> Good ch (S ++ S').
Proof. intros [r E]. exists (r ++ enc S'). rewrite app_assoc, E, enc_app. reflexivity. Qed.
Lemma GB_mono ch S S' : GB ch S -> GB ch (S ++ S').
Proof. intros [H|H]; [left; apply Good_mono; exact H | right; exact H]. Qed.
Lemma Good_nil S : Good [] S.
Proof. exists (enc S). reflexivity. Qed.

(* a chunk-prefix ends after a whole line or after a body *)
Lemma prefix_shape S : forall ch rest, ch ++ rest = enc S ->
  exists A B, S = A ++ B /\ (ch = enc A \/ exists x B', B = x :: B' /\ ch = enc A ++ [Body x]).
Proof.
  induction S as [|f S IH]; intros ch rest E.
  - cbn [enc flat_map] in E. apply app_eq_nil in E. destruct E as [-> _].
    exists [], []. split; [reflexivity | left; reflexivity].
  - change (enc (f :: S)) with (Body f :: NL :: enc S) in E.
    destruct ch as [|x ch]; [exists [], (f :: S); split; [reflexivity | left; reflexivity]|].
    cbn [app] in E. injection E as -> E.
    destruct ch as [|y ch].
    + exists [], (f :: S). split; [reflexivity|]. right. exists f, S. split; reflexivity.
    + cbn [app] in E. injection E as -> E.
      destruct (IH ch rest E) as (A & B & -> & H).
      exists (f :: A), B. split; [reflexivity|].
      destruct H as [->|(x & B' & -> & ->)]; [left; reflexivity|].
      right. exists x, B'. split; reflexivity.
Qed.

Lemma lp_enc A : forall tl, lp [] (enc A ++ tl) = (map (fun f => [f]) A ++ fst (lp [] tl), snd (lp [] tl)).
Proof.
  induction A as [|f A IH]; intros tl.
  - cbn [enc flat_map app map]. destruct (lp [] tl); reflexivity.
  - change (enc (f :: A) ++ tl) with (Body f :: NL :: (enc A ++ tl)). cbn [lp app]. rewrite IH. reflexivity.
Qed.

(* what try_replay can read from a chunk-prefix is a prefix of the stream *)
Lemma Good_parse_prefix ch S evs : Good ch S -> parse ch = Some evs -> exists r, S = evs ++ r.
Proof.
  intros [rest E] P. destruct (prefix_shape S ch rest E) as (A & B & -> & H).
  destruct H as [->|(x & B' & -> & ->)].
  - rewrite parse_enc in P. injection P as <-. exists B. reflexivity.
  - rewrite parse_nf, lp_enc in P. cbn [lp fst snd app] in P. rewrite app_nil_r, parse_lines_single in P.
    injection P as <-. exists B'. rewrite <- app_assoc. reflexivity.
Qed.

Lemma app_eq_len {A} (a a' b b' : list A) : length a = length a' -> a ++ b = a' ++ b' -> a = a' /\ b = b'.
Proof.
  revert a'. induction a as [|x a IH]; intros [|x' a'] L E; try discriminate L.
  - split; [reflexivity | exact E].
  - cbn [app] in E. injection E as -> E. cbn [length] in L. injection L as L.
    destruct (IH a' L E) as [-> ->]. split; reflexivity.
Qed.

(* the thread's stream in a validated log is numbered 0,1,2,.. *)
Lemma stream_numbered fs sid : validate fs = true -> seqs_from 0 (stream sid fs) = true.
Proof.
  induction fs as [|g fs IH] using rev_ind; intros Hv; [reflexivity|].
  rewrite validate_snoc in Hv. apply andb_true_iff in Hv. destruct Hv as [Hv Hg].
  rewrite stream_app. unfold stream at 2. cbn [filter].
  destruct (f_sid g =? sid) eqn:E; [|rewrite app_nil_r; exact (IH Hv)].
  rewrite seqs_from_snoc, (IH Hv). apply N.eqb_eq in E, Hg. subst sid. rewrite Hg. unfold cnt.
  rewrite N.add_0_l, N.eqb_refl. reflexivity.
Qed.
Lemma seqs_from_prefix a b : forall n, seqs_from n (a ++ b) = true -> seqs_from n a = true.
Proof.
  induction a as [|f a IH]; intros n H; [reflexivity|].
  cbn [app seqs_from] in *. apply andb_true_iff in H. destruct H as [H1 H2]. rewrite H1. exact (IH _ H2).
Qed.

(* THE step: the sidecar line of the stream's newest frame g is appended to a Good-or-Bad sidecar *)
Lemma GB_line ch S0 g : seqs_from 0 (S0 ++ [g]) = true -> GB ch (S0 ++ [g]) -> GB (ch ++ [Body g; NL]) (S0 ++ [g]).
Proof.
  intros Hn [[rest E]|HB]; [|right; apply Bad_line; exact HB].
  assert (Hg : f_seq g = nlen S0).
  { rewrite seqs_from_snoc in Hn. apply andb_true_iff in Hn. destruct Hn as [_ Hn]. apply N.eqb_eq in Hn. lia. }
  destruct (prefix_shape _ ch rest E) as (A & B & EAB & H).
  destruct H as [->|(x & B' & -> & ->)].
  - destruct (N.eq_dec (nlen A) (nlen S0)) as [L|L].
    + assert (L' : length A = length S0) by (unfold nlen in L; lia).
      symmetry in EAB. destruct (app_eq_len A S0 B [g] L' EAB) as [-> _].
      left. exists []. rewrite app_nil_r, enc_app. reflexivity.
    + right. unfold Bad. change (enc A ++ [Body g; NL]) with (enc A ++ enc [g]). rewrite <- enc_app, parse_enc.
      rewrite seqs_from_snoc. rewrite Hg, N.add_0_l.
      destruct (nlen S0 =? nlen A) eqn:Q; [apply N.eqb_eq in Q; congruence | apply andb_false_r].
  - right. unfold Bad. rewrite <- app_assoc. cbn [app]. rewrite parse_nf, lp_enc. cbn [lp fst snd app].
    rewrite parse_lines_snoc, parse_lines_single. exact I.
Qed.

(* what SOK is for: an accepted sidecar is a prefix of the thread's stream *)
Lemma GB_accept ch S evs : GB ch S -> parse ch = Some evs -> seqs_from 0 evs = true -> exists r, S = evs ++ r.
Proof.
  intros [HG|HB] P Q; [exact (Good_parse_prefix ch S evs HG P)|].
  unfold Bad in HB. rewrite P, Q in HB. discriminate HB.
Qed.

(* ================================================================ the BufWriter never reorders, files only grow *)
Lemma bw_write_inv file w cs len :
  fst (bw_write file w cs len) ++ bw_buf (snd (bw_write file w cs len)) = file ++ bw_buf w ++ cs
  /\ exists x, fst (bw_write file w cs len) = file ++ x.
Proof.
  unfold bw_write. destruct (len <? CAP - bw_len w); cbn [fst snd bw_buf].
  - split; [reflexivity | exists []; rewrite app_nil_r; reflexivity].
  - destruct (CAP <=? len); cbn [fst snd bw_buf bw_empty].
    + split; [rewrite app_nil_r; reflexivity | exists (bw_buf w ++ cs); reflexivity].
    + destruct (CAP - bw_len w <? len); cbn [fst snd bw_buf].
      * split; [rewrite <- app_assoc; reflexivity | exists (bw_buf w); reflexivity].
      * split; [reflexivity | exists []; rewrite app_nil_r; reflexivity].
Qed.

Lemma truth_grows s i : exists x, truth (exec s i) = truth s ++ x.
Proof.
  destruct i; cbn [exec upd_truth upd_sides upd_nexts upd_idx upd_arts upd_acks truth];
    try (exists []; rewrite app_nil_r; reflexivity).
  - exact (proj2 (bw_write_inv (truth s) (tw s) cs (clen cs))).
  - exists (bw_buf (tw s)). reflexivity.
  - destruct (idx_tmp s); cbn [upd_idx truth]; exists []; rewrite app_nil_r; reflexivity.
Qed.

(* ================================================================ instructions that do not write a sidecar *)
Definition nosw (i : instr) : bool := match i with ISideWrite _ _ | ISideFlush _ | ISideRename _ _ => false | _ => true end.

Lemma SOK_grow s s' : (exists x, truth s' = truth s ++ x) ->
  (forall c ch, In (c, ch) (sides s') -> In (c, ch) (sides s) \/ ch = []) -> SOK s -> SOK s'.
Proof.
  intros [x Ht] Hs H c ch Hi. rewrite Ht, frames_of_app, stream_app.
  destruct (Hs c ch Hi) as [Hi'| ->]; [apply GB_mono; exact (H c ch Hi') | left; apply Good_nil].
Qed.

Lemma SOK_exec s i : nosw i = true -> SOK s -> SOK (exec s i).
Proof.
  intros Hn H. apply (SOK_grow s); [apply truth_grows | | exact H].
  intros c ch. destruct i; try discriminate Hn;
    cbn [exec upd_truth upd_sides upd_nexts upd_idx upd_arts upd_acks sides]; try (intros Hi; left; exact Hi).
  - (* ISideOpen *) intros Hi. apply In_put in Hi. destruct Hi as [[-> ->]|Hi]; [|left; exact Hi].
    unfold side_of. destruct (get c0 (sides s)) as [ch0|] eqn:G; [left; exact (get_In _ _ _ G) | right; reflexivity].
  - (* ISideCreate *) intros Hi. apply In_put in Hi. destruct Hi as [[-> ->]|Hi]; [right; reflexivity | left; exact Hi].
  - (* ISideRemove *) intros Hi. left. exact (In_del _ _ _ Hi).
  - destruct (idx_tmp s); cbn [upd_idx sides]; intros Hi; left; exact Hi.
Qed.

(* SOK at every instruction boundary of a program, and at its end *)
Definition S2 (s : st) (is : list instr) : Prop := AllPre SOK s is /\ SOK (run_instrs s is).

Lemma S2_app s a b : S2 s a -> S2 (run_instrs s a) b -> S2 s (a ++ b).
Proof. intros [A1 E1] [A2 E2]. split; [apply AllPre_app; assumption | rewrite run_app; exact E2]. Qed.
Lemma S2_nil s : SOK s -> S2 s [].
Proof. intros H. split; [apply AllPre_nil; exact H | exact H]. Qed.
Lemma S2_nosw is : forall s, forallb nosw is = true -> SOK s -> S2 s is.
Proof.
  induction is as [|i is IH]; intros s Hf H; [apply S2_nil; exact H|].
  cbn [forallb] in Hf. apply andb_true_iff in Hf. destruct Hf as [Hi Hf].
  destruct (IH (exec s i) Hf (SOK_exec s i Hi H)) as [A E].
  split; [apply AllPre_cons; assumption | exact E].
Qed.

(* SOK only looks at the truth log and the sidecars; programs only look at (truth, tw, sides, sw) to change them *)
Definition core2 (s : st) := (truth s, tw s, sides s, sw s).
Lemma exec_core2_congr s s' i : core2 s = core2 s' -> core2 (exec s i) = core2 (exec s' i).
Proof.
  unfold core2. intros E. injection E as Et Ew Es Esw.
  destruct i; cbn [exec upd_truth upd_sides upd_nexts upd_idx upd_arts upd_acks truth tw sides sw side_of];
    unfold side_of; try (rewrite ?Et, ?Ew, ?Es, ?Esw; reflexivity).
  destruct (idx_tmp s), (idx_tmp s'); cbn [upd_idx truth tw sides sw]; rewrite ?Et, ?Ew, ?Es, ?Esw; reflexivity.
Qed.
Lemma run_core2_congr is : forall s s', core2 s = core2 s' -> core2 (run_instrs s is) = core2 (run_instrs s' is).
Proof.
  unfold run_instrs. induction is as [|i is IH]; intros s s' E; [exact E|].
  cbn [fold_left]. apply IH. apply exec_core2_congr. exact E.
Qed.
Lemma SOK_core2 s s' : core2 s = core2 s' -> SOK s -> SOK s'.
Proof. unfold core2, SOK. intros E. injection E as Et _ Es _. rewrite Et, Es. tauto. Qed.
Lemma S2_core2 s s' is : core2 s = core2 s' -> S2 s is -> S2 s' is.
Proof.
  intros E [A F]. split.
  - intros p r Q. apply (SOK_core2 (run_instrs s p)); [apply run_core2_congr; exact E | exact (A p r Q)].
  - apply (SOK_core2 (run_instrs s is)); [apply run_core2_congr; exact E | exact F].
Qed.

(* ================================================================ the sidecar line of one frame (append_best_effort) *)
Lemma SOK_put s s' c X : truth s' = truth s -> sides s' = put c X (sides s) -> SOK s ->
  GB X (stream (2 * c) (frames_of (truth s))) -> SOK s'.
Proof.
  intros Ht Hs H HX c' ch Hi. rewrite Ht. rewrite Hs in Hi. apply In_put in Hi.
  destruct Hi as [[-> ->]|Hi]; [exact HX | exact (H c' ch Hi)].
Qed.
Lemma side_of_GB s c : SOK s -> GB (side_of s c) (stream (2 * c) (frames_of (truth s))).
Proof.
  intros H. unfold side_of. destruct (get c (sides s)) eqn:G; [exact (H _ _ (get_In _ _ _ G)) | left; apply Good_nil].
Qed.
Lemma side_of_put s c X w : side_of (upd_sides s (put c X (sides s)) w) c = X.
Proof. unfold side_of. cbn [upd_sides sides]. rewrite get_put_eq. reflexivity. Qed.

Lemma S2_side_append s c g S0 : SOK s -> stream (2 * c) (frames_of (truth s)) = S0 ++ [g] ->
  seqs_from 0 (S0 ++ [g]) = true -> S2 s (side_append c g).
Proof.
  intros H ES Hn. set (base := side_of s c). set (line := [Body g; NL]).
  assert (HB : GB base (stream (2 * c) (frames_of (truth s)))) by (apply side_of_GB; exact H).
  assert (HL : GB (base ++ line) (stream (2 * c) (frames_of (truth s)))).
  { rewrite ES in *. apply GB_line; assumption. }
  set (s1 := exec s (ISideOpen c)).
  assert (H1 : SOK s1) by (apply (SOK_put s s1 c base); [reflexivity | reflexivity | exact H | exact HB]).
  assert (B1 : side_of s1 c = base) by apply side_of_put.
  assert (T1 : truth s1 = truth s) by reflexivity.
  set (r := bw_write base bw_empty line (clen line)).
  assert (Hr : (fst r = base /\ bw_buf (snd r) = line) \/ (fst r = base ++ line /\ bw_buf (snd r) = [])).
  { unfold r. rewrite bw_write_empty. destruct (clen line <? CAP); cbn [fst snd bw_buf bw_empty]; auto. }
  set (s2 := exec s1 (ISideWrite c line)).
  assert (E2 : s2 = upd_sides s1 (put c (fst r) (sides s1)) (snd r)).
  { unfold s2. cbn [exec]. rewrite B1. reflexivity. }
  assert (H2 : SOK s2).
  { apply (SOK_put s1 s2 c (fst r)); [rewrite E2; reflexivity | rewrite E2; reflexivity | exact H1|].
    rewrite T1. destruct Hr as [[-> _]|[-> _]]; assumption. }
  set (s3 := exec s2 (ISideFlush c)).
  assert (H3 : SOK s3).
  { apply (SOK_put s2 s3 c (base ++ line)); [reflexivity | | exact H2 | rewrite E2; cbn [upd_sides truth]; rewrite T1; exact HL].
    unfold s3. cbn [exec bw_flush fst snd upd_sides sides]. rewrite E2 at 1 2. rewrite side_of_put. cbn [upd_sides sw].
    destruct Hr as [[-> ->]|[-> ->]]; rewrite ?app_nil_r; reflexivity. }
  unfold S2, side_append. fold line. split.
  - apply AllPre_cons; [exact H|]. fold s1. apply AllPre_cons; [exact H1|]. cbn [exec].
    apply AllPre_cons; [exact H1|]. fold s2. apply AllPre_cons; [exact H2|]. cbn [exec].
    apply AllPre_cons; [exact H2|]. cbn [exec]. apply AllPre_cons; [exact H2|]. fold s3.
    apply AllPre_cons; [exact H3|]. cbn [exec]. apply AllPre_nil. exact H3.
  - exact H3.
Qed.

(* ================================================================ rebuild_best_effort: many lines through one BufWriter *)
(* W = everything written to the new file so far (on disk ++ still buffered) *)
Definition RI (s0 : st) (c : N) (s' : st) (W : list chunk) : Prop :=
  truth s' = truth s0 /\ side_of s' c ++ bw_buf (sw s') = W
  /\ forall c' ch, In (c', ch) (sides s') -> In (c', ch) (sides s0) \/ (c' = c /\ exists r, ch ++ r = W).

Lemma RI_SOK s0 c s' W S : S = stream (2 * c) (frames_of (truth s0)) -> SOK s0 -> RI s0 c s' W ->
  (exists r, W ++ r = enc S) -> SOK s'.
Proof.
  intros -> H (Ht & _ & He) [r Er] c' ch Hi. rewrite Ht.
  destruct (He c' ch Hi) as [Hi'|[-> [r' Er']]]; [exact (H c' ch Hi')|].
  left. exists (r' ++ r). rewrite app_assoc, Er', Er. reflexivity.
Qed.
Lemma RI_create s0 c : RI s0 c (exec s0 (ISideCreate c)) [].
Proof.
  unfold RI. cbn [exec]. rewrite side_of_put. cbn [upd_sides truth sw sides bw_buf bw_empty]. repeat split.
  intros c' ch Hi. apply In_put in Hi. destruct Hi as [[-> ->]|Hi]; [right; split; [reflexivity | exists []; reflexivity] | left; exact Hi].
Qed.
Lemma RI_write s0 c s' W cs : RI s0 c s' W -> RI s0 c (exec s' (ISideWrite c cs)) (W ++ cs).
Proof.
  intros (Ht & Hw & He). unfold RI. cbn [exec]. rewrite side_of_put. cbn [upd_sides truth sw sides].
  destruct (bw_write_inv (side_of s' c) (sw s') cs (clen cs)) as [Hinv _].
  split; [exact Ht|]. split; [rewrite Hinv, <- Hw, <- app_assoc; reflexivity|].
  intros c' ch Hi. apply In_put in Hi. destruct Hi as [[-> ->]|Hi].
  - right. split; [reflexivity|]. exists (bw_buf (snd (bw_write (side_of s' c) (sw s') cs (clen cs)))).
    rewrite Hinv, <- Hw, <- app_assoc. reflexivity.
  - destruct (He c' ch Hi) as [Hi'|[-> [r Er]]]; [left; exact Hi'|].
    right. split; [reflexivity|]. exists (r ++ cs). rewrite app_assoc, Er. reflexivity.
Qed.
Lemma RI_flush s0 c s' W : RI s0 c s' W -> RI s0 c (exec s' (ISideFlush c)) W.
Proof.
  intros (Ht & Hw & He). unfold RI. cbn [exec bw_flush fst snd]. rewrite side_of_put.
  cbn [upd_sides truth sw sides bw_buf bw_empty]. rewrite app_nil_r.
  split; [exact Ht|]. split; [exact Hw|].
  intros c' ch Hi. apply In_put in Hi. destruct Hi as [[-> ->]|Hi]; [|exact (He c' ch Hi)].
  right. split; [reflexivity|]. exists []. rewrite app_nil_r. exact Hw.
Qed.

Definition RIp (s0 : st) (c : N) (E : list chunk) (x : st) : Prop := exists W r, RI s0 c x W /\ W ++ r = E.

Lemma rebuild_loop s0 c evs : forall done s', RI s0 c s' (enc done) ->
  let P := flat_map (fun f => [ISideWrite c [Body f]; IPt 62; ISideWrite c [NL]; IPt 63]) evs in
  AllPre (RIp s0 c (enc (done ++ evs))) s' P /\ RI s0 c (run_instrs s' P) (enc (done ++ evs)).
Proof.
  induction evs as [|f evs IH]; intros done s' HR P.
  - unfold P. cbn [flat_map]. rewrite app_nil_r. split; [|exact HR].
    apply AllPre_nil. exists (enc done), []. split; [exact HR | apply app_nil_r].
  - unfold P. cbn [flat_map app].
    set (s1 := exec s' (ISideWrite c [Body f])).
    assert (R1 : RI s0 c s1 (enc done ++ [Body f])) by (apply RI_write; exact HR).
    set (s2 := exec s1 (ISideWrite c [NL])).
    assert (R2 : RI s0 c s2 (enc (done ++ [f]))).
    { rewrite enc_app. cbn [enc flat_map app]. replace (enc done ++ [Body f; NL]) with ((enc done ++ [Body f]) ++ [NL])
        by (rewrite <- app_assoc; reflexivity). apply RI_write. exact R1. }
    assert (EE : enc (done ++ f :: evs) = enc (done ++ [f]) ++ enc evs).
    { rewrite <- enc_app, <- app_assoc. reflexivity. }
    destruct (IH (done ++ [f]) s2 R2) as [A E]. rewrite <- app_assoc in A, E. cbn [app] in A, E.
    split.
    + apply AllPre_cons; [exists (enc done), (enc (f :: evs)); split; [exact HR | rewrite <- enc_app; reflexivity]|]. fold s1.
      assert (P1 : RIp s0 c (enc (done ++ f :: evs)) s1).
      { exists (enc done ++ [Body f]), (NL :: enc evs). split; [exact R1|].
        rewrite enc_app, <- app_assoc. reflexivity. }
      apply AllPre_cons; [exact P1|]. cbn [exec]. apply AllPre_cons; [exact P1|]. fold s2.
      apply AllPre_cons; [exists (enc (done ++ [f])), (enc evs); split; [exact R2 | symmetry; exact EE]|]. cbn [exec].
      exact A.
    + change (run_instrs s' (ISideWrite c [Body f] :: IPt 62 :: ISideWrite c [NL] :: IPt 63 :: flat_map (fun f0 => [ISideWrite c [Body f0]; IPt 62; ISideWrite c [NL]; IPt 63]) evs))
        with (run_instrs s2 (flat_map (fun f0 => [ISideWrite c [Body f0]; IPt 62; ISideWrite c [NL]; IPt 63]) evs)).
      exact E.
Qed.

(* the rebuild before the S3-live repair (in place): every prefix of the rewrite is a prefix of the stream *)
Lemma S2_rebuild_in_place s c : SOK s -> S2 s (rebuild_in_place c (stream (2 * c) (frames_of (truth s)))).
Proof.
  intros H. set (S := stream (2 * c) (frames_of (truth s))).
  assert (HP : forall x, RIp s c (enc S) x -> SOK x).
  { intros x (W & r & HR & E). apply (RI_SOK s c x W S); [reflexivity | exact H | exact HR | exists r; exact E]. }
  unfold rebuild_in_place.
  set (s1 := exec s (ISideCreate c)).
  assert (R1 : RI s c s1 (enc [])) by apply RI_create.
  destruct (rebuild_loop s c S [] s1 R1) as [A E]. cbn [app] in A, E.
  set (L := flat_map (fun f => [ISideWrite c [Body f]; IPt 62; ISideWrite c [NL]; IPt 63]) S) in *.
  set (s2 := run_instrs s1 L) in *.
  assert (R3 : RI s c (exec s2 (ISideFlush c)) (enc S)) by (apply RI_flush; exact E).
  assert (K1 : SOK s1) by (apply HP; exists (enc []), (enc S); split; [exact R1 | reflexivity]).
  assert (K2 : SOK s2) by (apply HP; exists (enc S), []; split; [exact E | apply app_nil_r]).
  assert (K3 : SOK (exec s2 (ISideFlush c))) by (apply HP; exists (enc S), []; split; [exact R3 | apply app_nil_r]).
  assert (Hrun : run_instrs s ([ISideCreate c; IPt 61] ++ L ++ [ISideFlush c; IPt 64]) = exec s2 (ISideFlush c)).
  { rewrite run_app. change (run_instrs s [ISideCreate c; IPt 61]) with s1. rewrite run_app. fold s2. reflexivity. }
  split; [|rewrite Hrun; exact K3].
  change ([ISideCreate c; IPt 61] ++ L ++ [ISideFlush c; IPt 64]) with (ISideCreate c :: IPt 61 :: (L ++ [ISideFlush c; IPt 64])).
  apply AllPre_cons; [exact H|]. fold s1. apply AllPre_cons; [exact K1|]. cbn [exec].
  apply AllPre_app; [apply (AllPre_mono (RIp s c (enc S))); [exact HP | exact A]|]. fold s2.
  apply AllPre_cons; [exact K2|]. apply AllPre_cons; [exact K3|]. cbn [exec]. apply AllPre_nil. exact K3.
Qed.
(* the repaired rebuild: the sidecar is untouched until the rename puts the whole rewritten file in its place *)
Definition tmp_only (i : instr) : bool :=
  match i with ITmpCreate _ | ITmpWrite _ _ | ITmpFlush _ | IPt _ => true | _ => false end.
Lemma tmp_only_run is : forall s, forallb tmp_only is = true -> run_instrs s is = s.
Proof.
  unfold run_instrs. induction is as [|i is IH]; intros s H; [reflexivity|].
  cbn [forallb] in H. apply andb_true_iff in H. destruct H as [Hi H]. cbn [fold_left].
  destruct i; try discriminate Hi; cbn [exec]; apply IH; exact H.
Qed.
Lemma tmp_only_nosw is : forallb tmp_only is = true -> forallb nosw is = true.
Proof.
  induction is as [|i is IH]; [reflexivity|]. cbn [forallb]. intros H. apply andb_true_iff in H.
  destruct H as [Hi H]. rewrite (IH H), andb_true_r. destruct i; try discriminate Hi; reflexivity.
Qed.
Lemma tmp_lines_only c evs :
  forallb tmp_only (flat_map (fun f => [ITmpWrite c [Body f]; IPt 62; ITmpWrite c [NL]; IPt 63]) evs) = true.
Proof. induction evs as [|f evs IH]; [reflexivity|]. cbn [flat_map app forallb tmp_only andb]. exact IH. Qed.

Lemma S2_rebuild s c : SOK s -> S2 s (rebuild c (stream (2 * c) (frames_of (truth s)))).
Proof.
  intros H. set (S := stream (2 * c) (frames_of (truth s))).
  unfold rebuild. fold (enc S).
  set (L := flat_map (fun f => [ITmpWrite c [Body f]; IPt 62; ITmpWrite c [NL]; IPt 63]) S).
  set (P0 := [ITmpCreate c; IPt 61] ++ L ++ [ITmpFlush c; IPt 64]).
  assert (T : forallb tmp_only P0 = true).
  { unfold P0, L. rewrite !forallb_app, tmp_lines_only. reflexivity. }
  assert (E : [ITmpCreate c; IPt 61] ++ L ++ [ITmpFlush c; IPt 64; ISideRename c (enc S)] = P0 ++ [ISideRename c (enc S)]).
  { unfold P0. rewrite <- !app_assoc. reflexivity. }
  rewrite E. apply S2_app; [apply S2_nosw; [apply tmp_only_nosw; exact T | exact H]|].
  rewrite (tmp_only_run P0 s T).
  assert (K : SOK (exec s (ISideRename c (enc S)))).
  { apply (SOK_put s _ c (enc S)); [reflexivity | reflexivity | exact H | left; exists []; apply app_nil_r]. }
  split; [apply AllPre_cons; [exact H | apply AllPre_nil; exact K] | exact K].
Qed.
Lemma S2_rebuild_nonempty s c : SOK s -> S2 s (rebuild_nonempty c (stream (2 * c) (frames_of (truth s)))).
Proof.
  intros H. unfold rebuild_nonempty. destruct (stream (2 * c) (frames_of (truth s))) eqn:E; [apply S2_nil; exact H|].
  rewrite <- E. apply S2_rebuild. exact H.
Qed.

(* ================================================================ composing the blocks of an operation *)
Definition tneutral (i : instr) : bool := match i with ITruthWrite _ | ITruthFlush => false | _ => true end.
Lemma tneutral_run a : forall s, forallb tneutral a = true -> truth (run_instrs s a) = truth s /\ tw (run_instrs s a) = tw s.
Proof.
  unfold run_instrs. induction a as [|i a IH]; intros s H; [split; reflexivity|].
  cbn [forallb] in H. apply andb_true_iff in H. destruct H as [Hi H]. cbn [fold_left].
  destruct (IH (exec s i) H) as [E1 E2]. rewrite E1, E2.
  destruct i; try discriminate Hi; cbn [exec upd_truth upd_sides upd_nexts upd_idx upd_arts upd_acks truth tw]; try (split; reflexivity).
  destruct (idx_tmp s); split; reflexivity.
Qed.

(* truth log = whole lines of X, nothing buffered, sidecars fine *)
Definition TS (s : st) (X : list frame) : Prop := truth s = enc X /\ tw s = bw_empty /\ SOK s.

Lemma step_neutral s X a rest : TS s X -> forallb nosw a = true -> forallb tneutral a = true ->
  (forall s', TS s' X -> S2 s' rest) -> S2 s (a ++ rest).
Proof.
  intros (Ht & Hw & H) Hn Hu K. destruct (S2_nosw a s Hn H) as [A E].
  apply S2_app; [split; assumption|]. apply K. destruct (tneutral_run a s Hu) as [E1 E2].
  split; [rewrite E1; exact Ht | split; [rewrite E2; exact Hw | exact E]].
Qed.
Lemma fin_neutral s X a : TS s X -> forallb nosw a = true -> S2 s a.
Proof. intros (_ & _ & H) Hn. exact (S2_nosw a s Hn H). Qed.

Lemma truth_append_run s f : tw s = bw_empty ->
  truth (run_instrs s (truth_append fixed f)) = truth s ++ [Body f; NL]
  /\ tw (run_instrs s (truth_append fixed f)) = bw_empty
  /\ sides (run_instrs s (truth_append fixed f)) = sides s.
Proof.
  intros Hw. unfold truth_append, truth_append_gen, run_instrs. cbn [fixed fw app fold_left exec].
  cbn [upd_truth truth tw sides]. rewrite Hw, bw_write_empty.
  destruct (clen [Body f; NL] <? CAP); cbn [fst snd bw_flush bw_buf bw_empty]; rewrite ?app_nil_r; auto.
Qed.

Lemma stream_one sid f : f_sid f = sid -> stream sid [f] = [f].
Proof. intros E. unfold stream. cbn [filter]. rewrite E, N.eqb_refl. reflexivity. Qed.

Lemma step_frame s X f c rest : TS s X -> validate (X ++ [f]) = true -> f_sid f = 2 * c ->
  (forall s', TS s' (X ++ [f]) -> S2 s' rest) ->
  S2 s (truth_append fixed f ++ [IPt 13] ++ side_append c f ++ rest).
Proof.
  intros (Ht & Hw & H) Hv Hf K.
  destruct (truth_append_run s f Hw) as (T1 & W1 & _).
  assert (N1 : forallb nosw (truth_append fixed f) = true) by reflexivity.
  destruct (S2_nosw _ s N1 H) as [A1 E1].
  apply S2_app; [split; assumption|]. set (s1 := run_instrs s (truth_append fixed f)) in *.
  assert (T1' : truth s1 = enc (X ++ [f])) by (rewrite T1, Ht, enc_app; reflexivity).
  change ([IPt 13] ++ side_append c f ++ rest) with (IPt 13 :: (side_append c f ++ rest)).
  assert (SA : S2 s1 (side_append c f)).
  { apply (S2_side_append s1 c f (stream (2 * c) X)); [exact E1 | |].
    - rewrite T1', frames_of_enc, stream_app, (stream_one _ _ Hf). reflexivity.
    - rewrite <- (stream_one (2 * c) f Hf), <- stream_app. apply stream_numbered. exact Hv. }
  split.
  - apply AllPre_cons; [exact E1|]. cbn [exec]. apply AllPre_app; [exact (proj1 SA)|].
    apply K. assert (U : forallb tneutral (side_append c f) = true) by reflexivity.
    destruct (tneutral_run _ s1 U) as [E2 E3].
    split; [rewrite E2; exact T1' | split; [rewrite E3; exact W1 | exact (proj2 SA)]].
  - change (run_instrs s1 (IPt 13 :: side_append c f ++ rest)) with (run_instrs s1 (side_append c f ++ rest)).
    rewrite run_app. apply K. assert (U : forallb tneutral (side_append c f) = true) by reflexivity.
    destruct (tneutral_run _ s1 U) as [E2 E3].
    split; [rewrite E2; exact T1' | split; [rewrite E3; exact W1 | exact (proj2 SA)]].
Qed.

Lemma step_rebuild s X c rest : TS s X -> (forall s', TS s' X -> S2 s' rest) ->
  S2 s (rebuild_nonempty c (stream (2 * c) X) ++ rest).
Proof.
  intros (Ht & Hw & H) K.
  assert (R : S2 s (rebuild_nonempty c (stream (2 * c) X))).
  { pose proof (S2_rebuild_nonempty s c H) as R. rewrite Ht, frames_of_enc in R. exact R. }
  apply S2_app; [exact R|]. apply K.
  pose proof (core_neutral s _ (filter_rebuild_nonempty c (stream (2 * c) X))) as C.
  unfold core in C. injection C as C1 C2 _ _.
  split; [rewrite C1; exact Ht | split; [rewrite C2; exact Hw | exact (proj2 R)]].
Qed.

(* ================================================================ every operation keeps the sidecars Good-or-Bad *)
Lemma J_TS b s fs : J b s fs -> SOK s -> TS s fs.
Proof. intros (Ht & Hw & _) H. split; [exact Ht | split; [exact Hw | exact H]]. Qed.
Lemma J_valid b s fs : J b s fs -> validate fs = true.
Proof. intros (_ & _ & Hv & _). exact Hv. Qed.

Lemma resolve_fst b s fs c : J b s fs ->
  fst (resolve fixed s c) = [] \/ fst (resolve fixed s c) = rebuild_nonempty c (stream (2 * c) fs).
Proof.
  intros HJ. pose proof (J_replay _ _ _ HJ) as R. destruct HJ as (Ht & Hw & Hv & Hn & _). unfold resolve.
  destruct (get (2 * c) (nexts s)); [left; reflexivity|]. cbn [fr fixed]. unfold load_next_fixed, truth_last.
  rewrite Ht, lines_enc. pose proof (scan_last_valid fs Hv (2 * c)) as L.
  destruct (scan_last (2 * c) (rev (map (fun f => [f]) fs))) as [| |q0]; [contradiction | left; reflexivity|].
  destruct (match side_tail_seq s c with Some q' => q' =? q0 | None => false end); [left; reflexivity|].
  rewrite R. right. reflexivity.
Qed.
Lemma replay_fst b s fs c : J b s fs ->
  fst (replay_events s c) = [] \/ fst (replay_events s c) = rebuild_nonempty c (stream (2 * c) fs).
Proof.
  intros HJ. unfold replay_events. destruct (try_replay s c); [left; reflexivity|].
  rewrite (J_replay _ _ _ HJ). right. reflexivity.
Qed.

Lemma S2_locked b s fs c fid len art : J b s fs -> SOK s -> S2 s (locked_append fixed s c fid len art).
Proof.
  intros HJ H. pose proof (J_TS _ _ _ HJ H) as T. unfold locked_append. cbv zeta.
  apply (step_neutral s fs [IPt 11; IPt 12]); [exact T | reflexivity | reflexivity|]. intros s1 T1.
  assert (K : forall s', TS s' fs -> S2 s'
            match snd (resolve fixed s c) with
            | None => []
            | Some seq => truth_append fixed (mkf (2 * c) seq fid len art) ++ [IPt 13]
                          ++ side_append c (mkf (2 * c) seq fid len art)
                          ++ [IPt 14; IPt 15; ISetNext (2 * c) (seq + 1); IPt 16; IAck fid; IOk]
            end).
  { intros s' T'. destruct (snd (resolve fixed s c)) as [q|] eqn:R; [|apply (fin_neutral s' fs); [exact T' | reflexivity]].
    pose proof (resolve_seq b s fs c q HJ R) as ->.
    apply (step_frame s' fs _ c); [exact T' | apply validate_next; [exact (J_valid _ _ _ HJ) | reflexivity] | reflexivity|].
    intros s'' T''. apply (fin_neutral s'' _ _ T''). reflexivity. }
  destruct (resolve_fst b s fs c HJ) as [E|E]; rewrite E.
  - cbn [app]. apply K. exact T1.
  - apply step_rebuild; [exact T1 | exact K].
Qed.

Lemma S2_create_then s fs c fid len d rest : TS s fs -> validate fs = true -> cnt (2 * c) fs = 0 ->
  (forall s', TS s' (fs ++ [mkf (2 * c) 0 fid len None]) -> S2 s' rest) ->
  S2 s (create fixed c fid len d ++ rest).
Proof.
  intros T Hv H0 K. unfold create. rewrite <- !app_assoc.
  apply (step_neutral s fs [IPt 11; IPt 12]); [exact T | reflexivity | reflexivity|]. intros s1 T1.
  apply (step_frame s1 fs _ c); [exact T1 | apply validate_next; [exact Hv | symmetry; exact H0] | reflexivity|].
  intros s2 T2. rewrite !app_assoc. apply (step_neutral s2 (fs ++ [mkf (2 * c) 0 fid len None]) _ rest T2); [reflexivity | reflexivity | exact K].
Qed.

Lemma S2_child s fs c i len0 len1 art : TS s fs -> validate fs = true -> cnt (2 * c) fs = 0 ->
  S2 s (child fixed c i len0 len1 [] art).
Proof.
  intros T Hv H0. unfold child.
  apply (S2_create_then s fs); [exact T | exact Hv | exact H0|]. intros s1 T1. cbn [app].
  set (f0 := mkf (2 * c) 0 (4 * i) len0 None) in *.
  assert (Hv1 : validate (fs ++ [f0]) = true) by (apply validate_next; [exact Hv | symmetry; exact H0]).
  apply (step_frame s1 (fs ++ [f0]) _ c); [exact T1 | | reflexivity|].
  - apply validate_next; [exact Hv1|]. cbn [mkf f_seq f_sid]. rewrite cnt_app, cnt_one, H0. cbn [f0 mkf f_sid].
    rewrite N.eqb_refl. reflexivity.
  - intros s2 T2. apply (fin_neutral s2 _ _ T2). reflexivity.
Qed.

Lemma core2_blob s a : core2 (run_instrs s (write_blob a)) = core2 s.
Proof. reflexivity. Qed.

Lemma S2_replay_fst b s fs c : J b s fs -> SOK s -> S2 s (fst (replay_events s c)).
Proof.
  intros HJ H. destruct (replay_fst b s fs c HJ) as [E|E]; rewrite E; [apply S2_nil; exact H|].
  pose proof (S2_rebuild_nonempty s c H) as R. destruct HJ as (Ht & _). rewrite Ht, frames_of_enc in R. exact R.
Qed.
Lemma J_replay_fst b s fs c : J b s fs -> J b (run_instrs s (fst (replay_events s c))) fs.
Proof. intros HJ. apply (J_core _ s); [symmetry; apply core_neutral, filter_replay_events | exact HJ]. Qed.

Lemma op_S2 i s fs o : J (4 * i) s fs -> env_okb s o = true -> SOK s -> S2 s (compile fixed s i o).
Proof.
  intros HJ He H. pose proof (J_TS _ _ _ HJ H) as T. pose proof (J_valid _ _ _ HJ) as Hv.
  assert (Ht : truth s = enc fs) by (destruct HJ as (Ht & _); exact Ht).
  destruct o as [c len | c len | x len | c a has_msg len | p c len0 len1 | p c a len0 len1 | c]; cbn [compile].
  - (* ensure_default *)
    destruct (ix_default (midx s)); [apply (fin_neutral s fs _ T); reflexivity|].
    destruct (replay_validated s) as [fs0|]; [|apply S2_nil; exact H].
    destruct (latest_created fs0); [apply (fin_neutral s fs _ T); reflexivity|].
    apply (S2_create_then s fs); [exact T | exact Hv | exact (env_fresh s fs _ Ht He)|].
    intros s1 T1. apply (fin_neutral s1 _ _ T1). reflexivity.
  - (* locked append *) exact (S2_locked _ s fs c _ len None HJ H).
  - (* session frame *) apply (fin_neutral s fs _ T). reflexivity.
  - (* checkpoint *)
    pose proof (S2_replay_fst _ s fs c HJ H) as R. pose proof (J_replay_fst _ s fs c HJ) as HJ1.
    apply S2_app; [exact R|]. set (s1 := run_instrs s (fst (replay_events s c))) in *.
    destruct (snd (replay_events s c)) as [[|e evs]|]; try (apply S2_nil; exact (proj2 R)).
    destruct has_msg; [|apply S2_nil; exact (proj2 R)].
    apply S2_app; [apply S2_nosw; [reflexivity | exact (proj2 R)]|].
    apply (S2_core2 s1); [symmetry; apply core2_blob|].
    exact (S2_locked _ s1 fs c _ len (Some a) HJ1 (proj2 R)).
  - (* branch *)
    pose proof (S2_replay_fst _ s fs p HJ H) as R. pose proof (J_replay_fst _ s fs p HJ) as HJ1.
    apply S2_app; [exact R|]. set (s1 := run_instrs s (fst (replay_events s p))) in *.
    destruct (snd (replay_events s p)) as [[|e evs]|]; try (apply S2_nil; exact (proj2 R)).
    apply (S2_child s1 fs); [exact (J_TS _ _ _ HJ1 (proj2 R)) | exact Hv | exact (env_fresh s fs _ Ht He)].
  - (* handoff *)
    pose proof (S2_replay_fst _ s fs p HJ H) as R. pose proof (J_replay_fst _ s fs p HJ) as HJ1.
    apply S2_app; [exact R|]. set (s1 := run_instrs s (fst (replay_events s p))) in *.
    destruct (snd (replay_events s p)) as [[|e evs]|]; try (apply S2_nil; exact (proj2 R)).
    apply (step_neutral s1 fs (write_blob a)); [exact (J_TS _ _ _ HJ1 (proj2 R)) | reflexivity | reflexivity|].
    intros s2 T2. apply (S2_child s2 fs); [exact T2 | exact Hv | exact (env_fresh s fs _ Ht He)].
  - (* cache loss + read *)
    set (s1 := exec s (ISideRemove c)).
    assert (H1 : SOK s1) by (apply SOK_exec; [reflexivity | exact H]).
    assert (HJ1 : J (4 * i) s1 fs) by (apply (J_core _ s); [symmetry; apply exec_core_neutral; reflexivity | exact HJ]).
    destruct (S2_replay_fst _ s1 fs c HJ1 H1) as [A E].
    split; [apply AllPre_cons; [exact H | exact A] | exact E].
Qed.

(* ================================================================ histories, crash, restart, further operations *)
Lemma SOK_init : SOK init.
Proof. intros c ch []. Qed.
Lemma SOK_recover s : SOK s -> SOK (recover s).
Proof. intros H. exact H. Qed.

Lemma run_ops_SOK ops : forall s i fs, J (4 * i) s fs -> env_runb fixed s i ops = true -> SOK s ->
  SOK (run_ops fixed s i ops).
Proof.
  induction ops as [|o ops IH]; intros s i fs HJ He H; [exact H|].
  cbn [env_runb] in He. apply andb_true_iff in He. destruct He as [He1 He2].
  destruct (op_safe i s fs o HJ He1) as [_ [fs1 HJ1]].
  cbn [run_ops]. exact (IH _ (i + 1) fs1 HJ1 He2 (proj2 (op_S2 i s fs o HJ He1 H))).
Qed.
Lemma run_k_SOK ops : forall k s i fs, J (4 * i) s fs -> env_runb fixed s i ops = true -> SOK s ->
  SOK (run_k fixed k s i ops).
Proof.
  induction ops as [|o ops IH]; intros k s i fs HJ He H; [exact H|].
  cbn [env_runb] in He. apply andb_true_iff in He. destruct He as [He1 He2].
  destruct (op_safe i s fs o HJ He1) as [_ [fs1 HJ1]].
  destruct (op_S2 i s fs o HJ He1 H) as [A E].
  cbn [run_k]. destruct (Nat.leb k (length (compile fixed s i o))).
  - apply (A (firstn k (compile fixed s i o)) (skipn k (compile fixed s i o))). symmetry. apply firstn_skipn.
  - exact (IH _ _ (i + 1) fs1 HJ1 He2 E).
Qed.

Lemma try_replay_accept s c evs : try_replay s c = Some evs ->
  exists ch, In (c, ch) (sides s) /\ parse ch = Some evs /\ seqs_from 0 evs = true.
Proof.
  unfold try_replay. destruct (get c (sides s)) as [ch|] eqn:G; [|discriminate].
  destruct (parse ch) as [[|f r]|] eqn:P; try discriminate.
  destruct (seqs_from 0 (f :: r)) eqn:Q; [|discriminate]. intros E. injection E as <-.
  exists ch. split; [exact (get_In _ _ _ G) | split; [exact P | exact Q]].
Qed.

(* the recovered store, after any further operations: boundary invariant + sidecar invariant *)
Lemma crash_recover_J_SOK hist k base more :
  env_runb fixed init 0 hist = true -> nlen hist <= base ->
  env_runb fixed (crash fixed k hist) base more = true ->
  exists fs, J (4 * (base + nlen more)) (run_ops fixed (crash fixed k hist) base more) fs
             /\ SOK (run_ops fixed (crash fixed k hist) base more).
Proof.
  intros Hh Hb Hm.
  assert (HD : D (4 * (0 + nlen hist)) (run_k fixed k init 0 hist)).
  { apply (run_k_D hist k init 0 []); [exact J_init | exact Hh]. }
  assert (HS : SOK (run_k fixed k init 0 hist)) by (apply (run_k_SOK hist k init 0 []); [exact J_init | exact Hh | exact SOK_init]).
  apply (D_mono _ (4 * base)) in HD; [|lia].
  destruct (D_recover _ _ HD) as [fs0 HJ0].
  destruct (run_ops_J more _ base fs0 HJ0 Hm) as [fs HJ]. exists fs. split; [exact HJ|].
  exact (run_ops_SOK more _ base fs0 HJ0 Hm (SOK_recover _ HS)).
Qed.

(* a full sidecar that try_replay accepts after ANY crash point, restart and ANY further operations is a
   PREFIX of the thread's stream in the truth log *)
Theorem caches_after_crash hist k base more c evs :
  env_runb fixed init 0 hist = true -> nlen hist <= base ->
  env_runb fixed (crash fixed k hist) base more = true ->
  try_replay (run_ops fixed (crash fixed k hist) base more) c = Some evs ->
  exists fs rest, replay_validated (run_ops fixed (crash fixed k hist) base more) = Some fs
                  /\ stream (2 * c) fs = evs ++ rest.
Proof.
  intros Hh Hb Hm Htr. destruct (crash_recover_J_SOK hist k base more Hh Hb Hm) as (fs & HJ & HS).
  destruct (try_replay_accept _ _ _ Htr) as (ch & Hi & P & Q).
  pose proof (HS c ch Hi) as G. destruct HJ as (Ht & Hrest). rewrite Ht, frames_of_enc in G.
  destruct (GB_accept ch _ evs G P Q) as [rest E]. exists fs, rest.
  split; [exact (J_replay _ _ _ (conj Ht Hrest)) | exact E].
Qed.

(* "reconciled or ignored" for ContinuityStore::replay_events on the recovered store: the answer is a prefix of
   the thread's stream (the sidecar as found, possibly stale), and when try_replay refuses the sidecar it is
   the stream itself, read from the truth log *)
Theorem replay_events_after_crash hist k base more c :
  env_runb fixed init 0 hist = true -> nlen hist <= base ->
  env_runb fixed (crash fixed k hist) base more = true ->
  exists fs evs rest, replay_validated (run_ops fixed (crash fixed k hist) base more) = Some fs
    /\ snd (replay_events (run_ops fixed (crash fixed k hist) base more) c) = Some evs
    /\ stream (2 * c) fs = evs ++ rest
    /\ (try_replay (run_ops fixed (crash fixed k hist) base more) c = None -> rest = []).
Proof.
  intros Hh Hb Hm. destruct (crash_recover_J_SOK hist k base more Hh Hb Hm) as (fs & HJ & HS).
  pose proof (J_replay _ _ _ HJ) as R. unfold replay_events.
  destruct (try_replay (run_ops fixed (crash fixed k hist) base more) c) as [evs|] eqn:Htr.
  - destruct (caches_after_crash hist k base more c evs Hh Hb Hm Htr) as (fs' & rest & R' & E).
    rewrite R in R'. injection R' as <-. exists fs, evs, rest. repeat split; auto. discriminate.
  - rewrite R. exists fs, (stream (2 * c) fs), []. cbn [snd]. rewrite app_nil_r. repeat split; auto.
Qed.

(* non-vacuity: the stale sidecar of the open finding is accepted and is a proper prefix *)
Lemma stale_is_prefix :
  env_runb fixed init 0 stale_hist = true /\ nlen stale_hist <= 2 /\ env_runb fixed (crash fixed 43 stale_hist) 2 [] = true
  /\ try_replay (run_ops fixed (crash fixed 43 stale_hist) 2 []) 0 = Some [mkf 0 0 0 300 None].
Proof. vm_compute. repeat split; try reflexivity. discriminate. Qed.
