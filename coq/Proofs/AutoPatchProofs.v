(* C14: the automatic checkpoint of apply_patch.  The tool's file-system behaviour is the model of C12
   (Model/Patch.v, builder ws12: exec / run / apply_ops, validated against the real Workspace::apply_patch by C12's
   correspondence); here: what it changes lies at its affected paths, so the checkpoint of Patch::affected_paths undoes
   it - for every patch in which no affected path lies below another affected path; and the refutation without that
   hypothesis (finding S10j). *)
From RipV Require Import Base.Prelude Base.Fs Model.Paths Model.Checkpoint Proofs.PathsProofs Proofs.CheckpointProofs
  Proofs.AutoCoverProofs.
From RipV Require Model.Patch.

Definition pk (p : list N) : path := comps p.

Lemma tg_base p : t_base (Patch.tg [] p) = [].
Proof. reflexivity. Qed.
Lemma tg_path p : t_path (Patch.tg [] p) = pk p.
Proof. reflexivity. Qed.

Section PatchGood.
  Variable f : fs.
  Variable K : path -> Prop.
  Hypothesis sane0 : sane f.

  Lemma good_parents_t g t g1 er : t_base t = [] -> Good f K g -> safe_parents f K (t_path t) ->
    mk_parent_dirs g t = (g1, er) -> Good f K g1.
  Proof.
    intros Hb G Hs H. unfold mk_parent_dirs in H. unfold t_path in Hs. rewrite Hb in *. cbn [app] in Hs.
    destruct (comps_nul (removelast (t_comps t))).
    - inversion H; subst g1; exact G.
    - eapply good_mkdir; [exact G|exact Hs|exact H].
  Qed.

  Lemma record_undo_fs s p s1 : Patch.record_undo [] s p = Ok s1 -> Patch.s_fs s1 = Patch.s_fs s.
  Proof.
    unfold Patch.record_undo. destruct (Patch.seen (Patch.s_undo s) (comps p)); [intros H; inversion H; reflexivity|].
    destruct (os_exists (Patch.s_fs s) (Patch.tg [] p)).
    - destruct (os_read (Patch.s_fs s) (Patch.tg [] p)); [|discriminate]. intros H; inversion H; reflexivity.
    - intros H; inversion H; reflexivity.
  Qed.

  (* one operation of a patch, successful or not, stays inside the invariant *)
  Lemma exec_good s o s' r : Good f K (Patch.s_fs s) ->
    (forall p, In p (Patch.op_paths o) -> K (pk p) /\ safe_parents f K (pk p)) ->
    Patch.exec [] s o = (s', r) -> Good f K (Patch.s_fs s').
  Proof.
    intros G HK H. destruct o as [p content|p|p mv hs]; unfold Patch.exec in H.
    - destruct (HK p (or_introl eq_refl)) as [Kp Sp].
      destruct (os_exists (Patch.s_fs s) (Patch.tg [] p)); [inversion H; subst s'; exact G|].
      destruct (Patch.record_undo [] s p) as [s1|e] eqn:Eu; [|inversion H; subst s'; exact G].
      pose proof (record_undo_fs _ _ _ Eu) as E1.
      destruct (mk_parent_dirs (Patch.s_fs s1) (Patch.tg [] p)) as [f2 er] eqn:Em.
      assert (G2 : Good f K f2).
      { rewrite E1 in Em. eapply good_parents_t; [apply tg_base|exact G| |exact Em]. rewrite tg_path. exact Sp. }
      destruct er as [e|]; [inversion H; subst s'; exact G2|].
      destruct (os_write f2 (Patch.tg [] p) content) as [f3|e] eqn:Ew; inversion H; subst s'; cbn [Patch.with_fs Patch.s_fs]; [|exact G2].
      eapply (good_write f K f2 (Patch.tg [] p) content f3); [apply tg_base|exact G2|rewrite tg_path; exact Kp|exact Ew].
    - destruct (HK p (or_introl eq_refl)) as [Kp Sp].
      destruct (negb (os_exists (Patch.s_fs s) (Patch.tg [] p))); [inversion H; subst s'; exact G|].
      destruct (Patch.record_undo [] s p) as [s1|e] eqn:Eu; [|inversion H; subst s'; exact G].
      pose proof (record_undo_fs _ _ _ Eu) as E1.
      destruct (os_remove_file (Patch.s_fs s1) (Patch.tg [] p)) as [f2|e] eqn:Er; inversion H; subst s'; cbn [Patch.with_fs Patch.s_fs].
      + rewrite E1 in Er. eapply (good_remove f K _ (Patch.tg [] p) f2); [exact G|rewrite tg_path; exact Kp|exact Er].
      + rewrite E1. exact G.
    - assert (HKp : K (pk p) /\ safe_parents f K (pk p)) by (apply HK; destruct mv; left; reflexivity).
      destruct HKp as [Kp Sp].
      destruct (negb (os_exists (Patch.s_fs s) (Patch.tg [] p))); [inversion H; subst s'; exact G|].
      destruct (Patch.record_undo [] s p) as [s1|e] eqn:Eu; [|inversion H; subst s'; exact G].
      pose proof (record_undo_fs _ _ _ Eu) as E1. assert (G1 : Good f K (Patch.s_fs s1)) by (rewrite E1; exact G).
      destruct (os_read (Patch.s_fs s1) (Patch.tg [] p)) as [b|e]; [|inversion H; subst s'; exact G1].
      destruct (negb (utf8_ok b)); [inversion H; subst s'; exact G1|].
      destruct (Patch.apply_hunks_to_text b hs) as [b'|]; [|inversion H; subst s'; exact G1].
      destruct (os_write (Patch.s_fs s1) (Patch.tg [] p) b') as [f2|e] eqn:Ew; [|inversion H; subst s'; exact G1].
      assert (G2 : Good f K f2).
      { eapply (good_write f K _ (Patch.tg [] p) b' f2); [apply tg_base|exact G1|rewrite tg_path; exact Kp|exact Ew]. }
      destruct mv as [q|]; [|inversion H; subst s'; exact G2].
      destruct (HK q (or_intror (or_introl eq_refl))) as [Kq Sq].
      cbn [Patch.with_fs Patch.s_fs] in H.
      destruct (os_exists f2 (Patch.tg [] q)); [inversion H; subst s'; exact G2|].
      destruct (Patch.record_undo [] (Patch.with_fs s1 f2) q) as [s3|e] eqn:Eu3; [|inversion H; subst s'; exact G2].
      pose proof (record_undo_fs _ _ _ Eu3) as E3. cbn [Patch.with_fs Patch.s_fs] in E3.
      destruct (mk_parent_dirs (Patch.s_fs s3) (Patch.tg [] q)) as [f4 er] eqn:Em.
      assert (G4 : Good f K f4).
      { rewrite E3 in Em. eapply good_parents_t; [apply tg_base|exact G2| |exact Em]. rewrite tg_path. exact Sq. }
      destruct er as [e|]; [inversion H; subst s'; exact G4|].
      destruct (os_rename_file f4 (Patch.tg [] p) (Patch.tg [] q)) as [f5|e] eqn:En; inversion H; subst s'; cbn [Patch.with_fs Patch.s_fs]; [|exact G4].
      eapply (good_rename f K f4 (Patch.tg [] p) (Patch.tg [] q) f5); [apply tg_base|exact G4|rewrite tg_path; exact Kp|rewrite tg_path; exact Kq|exact En].
  Qed.

  Lemma run_good : forall ops s s' r, Good f K (Patch.s_fs s) ->
    (forall p, In p (Patch.affected_paths ops) -> K (pk p) /\ safe_parents f K (pk p)) ->
    Patch.run [] s ops = (s', r) -> Good f K (Patch.s_fs s').
  Proof.
    induction ops as [|o ops IH]; intros s s' r G HK H; cbn [Patch.run] in H.
    - inversion H; subst s'; exact G.
    - destruct (Patch.exec [] s o) as [s1 [e|]] eqn:E.
      + inversion H; subst s'. eapply exec_good; [exact G| |exact E].
        intros p Hp. apply HK. unfold Patch.affected_paths. cbn [flat_map]. apply in_or_app. left; exact Hp.
      + eapply IH; [| |exact H].
        * eapply exec_good; [exact G| |exact E].
          intros p Hp. apply HK. unfold Patch.affected_paths. cbn [flat_map]. apply in_or_app. left; exact Hp.
        * intros p Hp. apply HK. unfold Patch.affected_paths. cbn [flat_map]. apply in_or_app. right; exact Hp.
  Qed.
End PatchGood.

(* no affected path lies strictly below another affected path - unless that one is a directory of the workspace
   (then the operation naming it fails anyway) *)
Definition nested_free (f : fs) (ps : list (list N)) : Prop :=
  forall p q, In p ps -> In q ps -> strict_prefix (pk p) (pk q) -> lookup f (pk p) = Some Dir.

Theorem auto_patch_undone f root ops g c ck :
  is_absolute root = true -> tree f -> nonul f ->
  (forall p, In p (Patch.affected_paths ops) -> is_absolute p = false /\ has_parent p = false) ->
  nested_free f (Patch.affected_paths ops) ->
  create f root (Patch.affected_paths ops) = Ok ck ->
  Patch.apply_ops true [] f ops = Patch.Applied g c ->
  exists f2, rewind g ck = (f2, None) /\ forall q, file_at f2 q = file_at f q.
Proof.
  intros Hroot Ht Hnul Hrel Hnest Hc Ha.
  set (K := fun q : path => exists p, In p (Patch.affected_paths ops) /\ pk p = q).
  pose proof (tree_sane _ Ht) as Hs.
  assert (G : Good f K g).
  { unfold Patch.apply_ops in Ha. destruct (Patch.run [] _ ops) as [s [e|]] eqn:Er; [discriminate|]. inversion Ha; subst g.
    eapply (run_good f K ops {| Patch.s_fs := f; Patch.s_undo := [] |} s None); [cbn [Patch.s_fs]; apply good_init; exact Hs| |exact Er].
    intros p Hp. split; [exists p; split; [exact Hp|reflexivity]|].
    intros r Hsp (p0 & Hp0 & E0). subst r. exact (Hnest p0 p Hp0 Hp Hsp). }
  assert (Hkey : forall e, In e ck -> exists raw, In raw (Patch.affected_paths ops) /\ key (fst e) = pk raw).
  { intros e Hin. destruct (create_entries _ _ _ _ Hc e Hin) as [(raw & Hraw & Et) _].
    exists raw. split; [exact Hraw|]. destruct (Hrel raw Hraw) as [Ha0 Hp0].
    destruct (proj2 (to_relative_relative root raw Hroot Ha0) Hp0) as (rel & Et' & Er). rewrite Et in Et'. inversion Et'; subst rel.
    unfold key, pk. rewrite Er. reflexivity. }
  apply (covered_edit_undone f root (Patch.affected_paths ops) ck g Hc Ht Hnul (g_sane _ _ _ G) (g_mono _ _ _ G)).
  - intros e Hin Hd. destruct (Hkey e Hin) as (raw & Hraw & Ek).
    assert (Hd0 : lookup f (key (fst e)) = Some Dir).
    { apply (g_nodir _ _ _ G); [exists raw; split; [exact Hraw|symmetry; exact Ek]|exact Hd]. }
    destruct (create_entries _ _ _ _ Hc e Hin) as [_ S]. rewrite (save_one_dir_err _ _ Ht Hd0) in S. discriminate.
  - intros q Hq. apply (g_out _ _ _ G). intros (p & Hp & Ep).
    destruct (create_covers _ _ _ _ Hc p Hp) as (rel & saved & Et & Hin).
    destruct (Hkey _ Hin) as (raw & _ & _). apply (Hq (rel, saved) Hin). cbn [fst].
    destruct (Hrel p Hp) as [Ha0 Hp0].
    destruct (proj2 (to_relative_relative root p Hroot Ha0) Hp0) as (rel' & Et' & Er). rewrite Et in Et'. inversion Et'; subst rel'.
    unfold key. rewrite Er. exact Ep.
Qed.

Theorem auto_patch_undone_b f root ops g c ck :
  is_absolute root = true -> tree_b f = true -> nonul_b f = true ->
  (forall p, In p (Patch.affected_paths ops) -> is_absolute p = false /\ has_parent p = false) ->
  (forall p q, In p (Patch.affected_paths ops) -> In q (Patch.affected_paths ops) ->
     (exists s, comps q = comps p ++ s /\ comps p <> [] /\ s <> []) -> lookup f (comps p) = Some Dir) ->
  create f root (Patch.affected_paths ops) = Ok ck ->
  Patch.apply_ops true [] f ops = Patch.Applied g c ->
  exists f2, rewind g ck = (f2, None) /\ forall q, file_at f2 q = file_at f q.
Proof.
  intros Hr Ht Hn Hrel Hnest. apply (auto_patch_undone f root ops g c ck Hr (tree_b_sound _ Ht) (nonul_b_sound _ Hn) Hrel).
  intros p q Hp Hq Hsp. exact (Hnest p q Hp Hq Hsp).
Qed.

(* ---------- finding S10j: a patch that deletes a file and adds one below its name ---------- *)
Require Import Coq.Strings.String.
Definition j_root : str := bs "/r/ws"%string.
Definition j_a : list N := bs "a.txt"%string.
Definition j_ax : list N := bs "a.txt/x.txt"%string.
Definition j_ws : fs := [([j_a], File (bs "one"%string))].
Definition j_ops : list Patch.op := [Patch.Del j_a; Patch.Add j_ax (bs "inner"%string ++ [10])%list].
Definition j_text : list N :=
  (bs "*** Begin Patch"%string ++ [10] ++ bs "*** Delete File: a.txt"%string ++ [10] ++ bs "*** Add File: a.txt/x.txt"%string ++ [10]
   ++ bs "+inner"%string ++ [10] ++ bs "*** End Patch"%string)%list.
Definition j_after : fs := [([j_a; bs "x.txt"%string], File (bs "inner"%string ++ [10])); ([j_a], Dir)].
Definition j_ck : list entry := [(j_a, Some (bs "one"%string)); (j_ax, None)].
Lemma patch_dir_at_covered_file :
  tree_b j_ws = true /\ nonul_b j_ws = true
  /\ Patch.affected_paths j_ops = [j_a; j_ax]
  /\ create j_ws j_root (Patch.affected_paths j_ops) = Ok j_ck
  /\ (exists c, Patch.apply_patch true [] j_ws j_text = Patch.Applied j_after c)
  /\ rewind j_after j_ck = (j_after, Some EISDIR).
Proof. repeat split; try (vm_compute; reflexivity). eexists. vm_compute. reflexivity. Qed.

Lemma auto_patch_dir_refuted :
  exists f root text g c ck e,
    tree_b f = true /\ nonul_b f = true
    /\ Patch.apply_patch true [] f text = Patch.Applied g c
    /\ (exists ops, Patch.parse_patch text = Some ops /\ create f root (Patch.affected_paths ops) = Ok ck)
    /\ rewind g ck = (g, Some e) /\ g <> f.
Proof.
  destruct patch_dir_at_covered_file as (A & B & _ & D & (c & E) & F).
  exists j_ws, j_root, j_text, j_after, c, j_ck, EISDIR. repeat split; try assumption.
  - exists j_ops. split; [vm_compute; reflexivity|exact D].
  - discriminate.
Qed.

(* non-vacuity of auto_patch_undone: update + move, add under a new directory, delete *)
Definition k_b : list N := bs "b.txt"%string.
Definition k_new : list N := bs "q/r/new.txt"%string.
Definition k_ws : fs := [([j_a], File (bs "one"%string)); ([k_b], File (bs "bee"%string))].
Definition k_ops : list Patch.op := [Patch.Add k_new (bs "n"%string); Patch.Del k_b].
Lemma ex_auto_patch_undone :
  tree_b k_ws = true /\ nonul_b k_ws = true
  /\ exists ck g c f2, create k_ws j_root (Patch.affected_paths k_ops) = Ok ck
       /\ Patch.apply_ops true [] k_ws k_ops = Patch.Applied g c
       /\ file_at g [k_b] = None /\ rewind g ck = (f2, None) /\ file_at f2 [k_b] = Some (bs "bee"%string).
Proof. split; [vm_compute; reflexivity|]. split; [vm_compute; reflexivity|]. do 4 eexists. vm_compute. repeat split. Qed.

(* ---------- every path of a parsed patch passed parse_rel_path: relative, no `..` ---------- *)
Definition okp (p : list N) : Prop := is_absolute p = false /\ has_parent p = false.
Definition okops (ops : list Patch.op) : Prop := forall p, In p (Patch.affected_paths ops) -> okp p.

Lemma parse_rel_ok r p : Patch.parse_rel_path r = Some p -> okp p.
Proof.
  unfold Patch.parse_rel_path. destruct (Patch.trim r) as [|c t] eqn:E; [discriminate|].
  destruct (starts_slash (c :: t)) eqn:Ea; [discriminate|]. destruct (has_parent_dir (c :: t)) eqn:Eh; [discriminate|].
  intros H; inversion H; subst p. split; [exact Ea|exact Eh].
Qed.

Lemma okops_snoc ops o : okops ops -> (forall p, In p (Patch.op_paths o) -> okp p) -> okops (ops ++ [o]).
Proof.
  intros H1 H2 p Hp. unfold Patch.affected_paths in Hp. rewrite flat_map_app in Hp. apply in_app_or in Hp.
  destruct Hp as [Hp|Hp]; [apply H1; exact Hp|]. cbn [flat_map] in Hp. rewrite app_nil_r in Hp. apply H2; exact Hp.
Qed.

Definition pinv (s : Patch.pstate) : Prop :=
  match s with
  | Patch.PTop ops | Patch.PDone ops => okops ops
  | Patch.PAdd ops p _ | Patch.PUpd0 ops p => okops ops /\ okp p
  | Patch.PUpd ops p mv _ _ => okops ops /\ okp p /\ (forall q, mv = Some q -> okp q)
  | Patch.PErr => True
  end.

Lemma step_top_inv ops l : okops ops -> pinv (Patch.step_top ops l).
Proof.
  intros H. unfold Patch.step_top. destruct (lN_eqb l Patch.H_END); [exact H|].
  destruct (Patch.strip_prefix Patch.H_ADD l) as [r|].
  { destruct (Patch.parse_rel_path r) as [p|] eqn:E; [|exact I]. split; [exact H|eapply parse_rel_ok; exact E]. }
  destruct (Patch.strip_prefix Patch.H_DEL l) as [r|].
  { destruct (Patch.parse_rel_path r) as [p|] eqn:E; [|exact I]. apply okops_snoc; [exact H|].
    intros q [<-|[]]. eapply parse_rel_ok; exact E. }
  destruct (Patch.strip_prefix Patch.H_UPD l) as [r|]; [|exact I].
  destruct (Patch.parse_rel_path r) as [p|] eqn:E; [|exact I]. split; [exact H|eapply parse_rel_ok; exact E].
Qed.

Lemma upd_paths_ok p mv hs : okp p -> (forall q, mv = Some q -> okp q) -> forall x, In x (Patch.op_paths (Patch.Upd p mv hs)) -> okp x.
Proof.
  intros Hp Hm x Hx. destruct mv as [q|]; cbn [Patch.op_paths] in Hx.
  - destruct Hx as [<-|[<-|[]]]; [exact Hp|apply Hm; reflexivity].
  - destruct Hx as [<-|[]]; exact Hp.
Qed.

Lemma step_upd_inv ops p mv hs cur l : okops ops -> okp p -> (forall q, mv = Some q -> okp q) ->
  pinv (Patch.step_upd ops p mv hs cur l).
Proof.
  intros H Hp Hm. unfold Patch.step_upd. destruct (Patch.starts_with Patch.H_STARS l).
  - destruct (Patch.flush_cur hs cur) as [|h hs']; [exact I|]. apply step_top_inv. apply okops_snoc; [exact H|].
    apply upd_paths_ok; assumption.
  - destruct (Patch.starts_with [64; 64] l); [split; [exact H|split; [exact Hp|exact Hm]]|].
    destruct l as [|c rest]; [exact I|]. destruct ((c =? 32) || (c =? 43) || (c =? 45)); [split; [exact H|split; [exact Hp|exact Hm]]|exact I].
Qed.

Lemma n43 (c : N) : c <> 43 -> forall (A : Type) (x y : A), match c with 43 => x | _ => y end = y.
Proof.
  intros H A x y. destruct c as [|q]; [reflexivity|].
  destruct q as [q|q|]; try reflexivity. destruct q as [q|q|]; try reflexivity. destruct q as [q|q|]; try reflexivity.
  destruct q as [q|q|]; try reflexivity. destruct q as [q|q|]; try reflexivity. destruct q as [q|q|]; try reflexivity.
  exfalso; apply H; reflexivity.
Qed.

Lemma pstep_inv s l : pinv s -> pinv (Patch.pstep s l).
Proof.
  destruct s as [ops|ops p content|ops p|ops p mv hs cur|ops|]; cbn [pinv Patch.pstep]; intros H.
  - apply step_top_inv; exact H.
  - destruct H as [H Hp]. destruct (Patch.starts_with Patch.H_STARS l).
    + apply step_top_inv. apply okops_snoc; [exact H|]. intros q [<-|[]]. exact Hp.
    + destruct l as [|c rest]; [exact I|].
      destruct (N.eq_dec c 43) as [->|E]; [split; assumption|]. rewrite (n43 c E). exact I.
  - destruct H as [H Hp]. destruct (Patch.strip_prefix Patch.H_MOVE l) as [d|].
    + destruct (Patch.parse_rel_path d) as [q|] eqn:E; [|exact I]. split; [exact H|]. split; [exact Hp|].
      intros q' Hq. inversion Hq; subst q'. eapply parse_rel_ok; exact E.
    + apply step_upd_inv; [exact H|exact Hp|intros q Hq; discriminate].
  - destruct H as (H & Hp & Hm). apply step_upd_inv; assumption.
  - exact H.
  - exact I.
Qed.

Lemma fold_pstep_inv : forall ls s, pinv s -> pinv (fold_left Patch.pstep ls s).
Proof. induction ls as [|l ls IH]; intros s H; [exact H|]. cbn [fold_left]. apply IH. apply pstep_inv. exact H. Qed.

Lemma parse_patch_ok text ops : Patch.parse_patch text = Some ops -> okops ops.
Proof.
  unfold Patch.parse_patch. destruct (Patch.str_lines text) as [|l0 rest]; [discriminate|].
  destruct (lN_eqb l0 Patch.H_BEGIN); [|discriminate].
  pose proof (fold_pstep_inv rest (Patch.PTop []) (fun p Hp => match Hp with end)) as H.
  destruct (fold_left Patch.pstep rest (Patch.PTop [])) as [o|o p c|o p|o p mv hs cur|o|]; try discriminate.
  intros E; inversion E; subst o. exact H.
Qed.

(* the same for a patch TEXT: whatever the parser accepts *)
Theorem auto_patch_text_undone f root text g c ck :
  is_absolute root = true -> tree_b f = true -> nonul_b f = true ->
  forall ops, Patch.parse_patch text = Some ops ->
  (forall p q, In p (Patch.affected_paths ops) -> In q (Patch.affected_paths ops) ->
     (exists s, comps q = comps p ++ s /\ comps p <> [] /\ s <> []) -> lookup f (comps p) = Some Dir) ->
  create f root (Patch.affected_paths ops) = Ok ck ->
  Patch.apply_patch true [] f text = Patch.Applied g c ->
  exists f2, rewind g ck = (f2, None) /\ forall q, file_at f2 q = file_at f q.
Proof.
  intros Hr Ht Hn ops Hp Hnest Hc Ha. unfold Patch.apply_patch in Ha. rewrite Hp in Ha.
  apply (auto_patch_undone_b f root ops g c ck Hr Ht Hn); try assumption.
  exact (parse_patch_ok text ops Hp).
Qed.

(* ====================================================================================== *)
(* the other half: when the checkpoint of the affected paths cannot be taken, the patch does not apply *)
(* ====================================================================================== *)
From RipV Require Proofs.FsProofs Proofs.PatchAtomic.

Lemma map_res_err {A B} (g : A -> res B) : forall l e, map_res g l = Err e -> exists x e', In x l /\ g x = Err e'.
Proof.
  induction l as [|x l IH]; intros e H; cbn [map_res] in H; [discriminate|].
  destruct (g x) as [y|e0] eqn:Ex; [|exists x, e0; split; [left; reflexivity|exact Ex]].
  destruct (map_res g l) as [ys|e1] eqn:El; [discriminate|].
  destruct (IH e1 eq_refl) as (x' & e' & Hin & Hx). exists x', e'. split; [right; exact Hin|exact Hx].
Qed.

(* create can only fail, for paths the parser accepts, because an affected path is a (reachable) directory *)
Lemma create_err_dir f root raws e : is_absolute root = true -> (forall p, In p raws -> okp p) ->
  create f root raws = Err e -> exists p, In p raws /\ lookup f (pk p) = Some Dir /\ dirs_ok f [] (pk p) = None.
Proof.
  intros Hr Hok H. unfold create in H.
  destruct (map_res (to_relative root) raws) as [rels|e0] eqn:Er.
  - destruct (map_res_err _ _ _ H) as (rel & e' & Hin & Hs).
    destruct (map_res_in _ _ _ Er rel Hin) as (raw & Hraw & Et).
    destruct (Hok raw Hraw) as [Ha Hp].
    destruct (proj2 (to_relative_relative root raw Hr Ha) Hp) as (rel' & Et' & Ereal). rewrite Et in Et'. inversion Et'; subst rel'.
    exists raw. split; [exact Hraw|].
    assert (Ek : key rel = pk raw) by (unfold key, pk; rewrite Ereal; reflexivity).
    rewrite <- Ek. split; [eapply save_one_err_dir; exact Hs|].
    unfold save_one in Hs. destruct (os_exists f (tgt_of rel)) eqn:Ex; [|discriminate].
    unfold os_exists, pre_err in Ex. cbn [tgt_of t_nul t_base t_comps] in Ex. change (real_segs rel) with (key rel) in Ex.
    destruct (dirs_ok f [] (key rel)); [discriminate|reflexivity].
  - exfalso. destruct (map_res_err _ _ _ Er) as (raw & e' & Hin & Ht).
    destruct (Hok raw Hin) as [Ha Hp].
    destruct (proj2 (to_relative_relative root raw Hr Ha) Hp) as (rel & Et & _). rewrite Et in Ht. discriminate.
Qed.

(* a reachable directory at k *)
Definition dir_at (g : fs) (k : path) : Prop := lookup g k = Some Dir /\ dirs_ok g [] k = None.

Lemma dir_at_mono g g' k : FsProofs.dirs_le g g' -> dir_at g k -> dir_at g' k.
Proof. intros D [L O]. split; [apply D; exact L|]. eapply dirs_ok_mono; [exact D|exact O]. Qed.

Lemma dir_at_set_file g k kp b : dir_at g k -> lookup g kp <> Some Dir -> dir_at (set g kp (File b)) k.
Proof.
  intros [L O] Hn. assert (Hne : kp <> k) by (intros ->; contradiction). split.
  - rewrite lookup_set_other by exact Hne. exact L.
  - rewrite <- O. apply dirs_ok_ext. intros pre suf E Hp Hs. cbn [app]. apply lookup_set_other. intros ->.
    pose proof (dirs_ok_none_prefix g k [] O pre suf E Hp Hs) as LD. cbn [app] in LD. contradiction.
Qed.

Lemma tg_pre_err g p : pre_err g (Patch.tg [] p) = if has_nul p then Some EINVAL else dirs_ok g [] (pk p).
Proof. reflexivity. Qed.

Lemma dir_exists g p : dir_at g (pk p) -> has_nul p = false -> os_exists g (Patch.tg [] p) = true.
Proof.
  intros [L O] Hn. unfold os_exists. rewrite tg_pre_err, Hn, O. rewrite tg_path, L. reflexivity.
Qed.
Lemma nul_not_exists g p : has_nul p = true -> os_exists g (Patch.tg [] p) = false.
Proof. intros Hn. unfold os_exists. rewrite tg_pre_err, Hn. reflexivity. Qed.
Lemma dir_read g p : dir_at g (pk p) -> exists e, os_read g (Patch.tg [] p) = Err e.
Proof.
  intros [L O]. unfold os_read. rewrite tg_pre_err. destruct (has_nul p); [eexists; reflexivity|].
  rewrite O, tg_path, L. eexists; reflexivity.
Qed.
Lemma dir_remove g p : dir_at g (pk p) -> exists e, os_remove_file g (Patch.tg [] p) = Err e.
Proof.
  intros [L O]. unfold os_remove_file. rewrite tg_pre_err. destruct (has_nul p); [eexists; reflexivity|].
  rewrite O, tg_path, L. eexists; reflexivity.
Qed.
Lemma dir_write g p d : dir_at g (pk p) -> exists e, os_write g (Patch.tg [] p) d = Err e.
Proof.
  intros [L O]. unfold os_write. rewrite tg_pre_err. destruct (has_nul p); [eexists; reflexivity|].
  rewrite O, tg_path, L. eexists; reflexivity.
Qed.
Lemma dir_rename_dst g src p : dir_at g (pk p) -> exists e, os_rename_file g src (Patch.tg [] p) = Err e.
Proof.
  intros [L O]. unfold os_rename_file. destruct (pre_err g src); [eexists; reflexivity|].
  destruct (lookup g (t_path src)) as [[b|]|]; try (eexists; reflexivity).
  destruct (t_trail src); try (eexists; reflexivity).
  rewrite tg_pre_err. destruct (has_nul p); [eexists; reflexivity|]. rewrite O, tg_path, L. eexists; reflexivity.
Qed.

Lemma mkpar_dir_at g t g1 er k : mk_parent_dirs g t = (g1, er) -> dir_at g k -> dir_at g1 k.
Proof.
  intros H D. apply (dir_at_mono g g1 k); [|exact D]. unfold mk_parent_dirs in H.
  destruct (comps_nul (removelast (t_comps t))); [inversion H; subst g1; intros q Hq; exact Hq|].
  intros q Hq. destruct (mkdir_all_lookup _ _ _ _ _ H q) as [E|[E1 _]]; [rewrite E; exact Hq|rewrite Hq in E1; discriminate].
Qed.

(* an operation that names a path at which a directory stands fails *)
Lemma exec_dir_fails s o s' r p : In p (Patch.op_paths o) -> dir_at (Patch.s_fs s) (pk p) ->
  Patch.exec [] s o = (s', r) -> r <> None.
Proof.
  intros Hin D H Hr. subst r. destruct o as [p0 content|p0|p0 mv hs]; unfold Patch.exec in H.
  - destruct Hin as [<-|[]].
    destruct (os_exists (Patch.s_fs s) (Patch.tg [] p0)) eqn:Ex; [discriminate|].
    destruct (Patch.record_undo [] s p0) as [s1|e] eqn:Eu; [|discriminate].
    pose proof (record_undo_fs _ _ _ Eu) as E1.
    destruct (mk_parent_dirs (Patch.s_fs s1) (Patch.tg [] p0)) as [f2 [e|]] eqn:Em; [discriminate|].
    rewrite E1 in Em. destruct (dir_write f2 p0 content (mkpar_dir_at _ _ _ _ _ Em D)) as [e Ew]. rewrite Ew in H. discriminate.
  - destruct Hin as [<-|[]].
    destruct (negb (os_exists (Patch.s_fs s) (Patch.tg [] p0))); [discriminate|].
    destruct (Patch.record_undo [] s p0) as [s1|e] eqn:Eu; [|discriminate].
    pose proof (record_undo_fs _ _ _ Eu) as E1.
    rewrite E1 in H. destruct (dir_remove _ p0 D) as [e Er]. rewrite Er in H. discriminate.
  - destruct (negb (os_exists (Patch.s_fs s) (Patch.tg [] p0))); [discriminate|].
    destruct (Patch.record_undo [] s p0) as [s1|e] eqn:Eu; [|discriminate].
    pose proof (record_undo_fs _ _ _ Eu) as E1. rewrite E1 in H.
    destruct (os_read (Patch.s_fs s) (Patch.tg [] p0)) as [b|e] eqn:Erd; [|discriminate].
    assert (Hp0 : p <> p0 \/ False).
    { left. intros ->. destruct (dir_read _ p0 D) as [e Ee]. rewrite Ee in Erd. discriminate. }
    destruct (negb (utf8_ok b)); [discriminate|].
    destruct (Patch.apply_hunks_to_text b hs) as [b'|]; [|discriminate].
    destruct (os_write (Patch.s_fs s) (Patch.tg [] p0) b') as [f2|e] eqn:Ew; [|discriminate].
    destruct mv as [q|].
    2:{ destruct Hin as [<-|[]]. destruct Hp0 as [X|[]]. apply X; reflexivity. }
    destruct Hin as [<-|[<-|[]]]; [destruct Hp0 as [X|[]]; apply X; reflexivity|].
    destruct (os_write_ok _ _ _ _ Ew) as (E2 & _ & Hnd). rewrite tg_path in E2, Hnd.
    assert (D2 : dir_at f2 (pk q)) by (rewrite E2; apply dir_at_set_file; assumption).
    cbn [Patch.with_fs Patch.s_fs] in H.
    destruct (os_exists f2 (Patch.tg [] q)) eqn:Ex; [discriminate|].
    destruct (Patch.record_undo [] (Patch.with_fs s1 f2) q) as [s3|e] eqn:Eu3; [|discriminate].
    pose proof (record_undo_fs _ _ _ Eu3) as E3. cbn [Patch.with_fs Patch.s_fs] in E3.
    destruct (mk_parent_dirs (Patch.s_fs s3) (Patch.tg [] q)) as [f4 [e|]] eqn:Em; [discriminate|].
    rewrite E3 in Em. destruct (dir_rename_dst f4 (Patch.tg [] p0) q (mkpar_dir_at _ _ _ _ _ Em D2)) as [e En].
    rewrite En in H. discriminate.
Qed.

Lemma run_dir_fails : forall ops s s' r p, FsProofs.fs_wf (Patch.s_fs s) -> In p (Patch.affected_paths ops) ->
  dir_at (Patch.s_fs s) (pk p) -> Patch.run [] s ops = (s', r) -> r <> None.
Proof.
  induction ops as [|o ops IH]; intros s s' r p W Hin D H; [destruct Hin|].
  cbn [Patch.run] in H. unfold Patch.affected_paths in Hin. cbn [flat_map] in Hin. apply in_app_or in Hin.
  destruct (Patch.exec [] s o) as [s1 [e|]] eqn:E; [inversion H; discriminate|].
  destruct Hin as [Hin|Hin].
  - exfalso. exact (exec_dir_fails _ _ _ _ _ Hin D E eq_refl).
  - destruct s as [f0 u0]. cbn [Patch.s_fs] in *.
    destruct (PatchAtomic.exec_shape _ _ _ _ _ W E) as (W1 & D1 & _).
    eapply (IH s1 s' r p W1 Hin); [|exact H]. eapply dir_at_mono; [exact D1|exact D].
Qed.

(* no checkpoint of the affected paths (one of them is a directory) => the patch does not apply, and a patch that
   does not apply changes no file (C12's atomicity) *)
Theorem auto_patch_no_checkpoint f root ops e :
  is_absolute root = true -> FsProofs.fs_wf f -> okops ops ->
  create f root (Patch.affected_paths ops) = Err e ->
  exists g e', Patch.apply_ops true [] f ops = Patch.Failed g e' /\ forall q, file_at g q = file_at f q.
Proof.
  intros Hr W Hok Hc. destruct (create_err_dir f root _ e Hr Hok Hc) as (p & Hin & L & O).
  destruct (Patch.apply_ops true [] f ops) as [g c|g e'] eqn:Ea.
  - exfalso. unfold Patch.apply_ops in Ea. destruct (Patch.run [] _ ops) as [s [x|]] eqn:Er; [discriminate|].
    exact (run_dir_fails ops {| Patch.s_fs := f; Patch.s_undo := [] |} s None p W Hin (conj L O) Er eq_refl).
  - exists g, e'. split; [reflexivity|]. exact (PatchAtomic.apply_ops_atomic f ops g e' W Ea).
Qed.

Theorem auto_patch_text_no_checkpoint f root text ops e :
  is_absolute root = true -> Patch.wf_fsb f = true -> Patch.parse_patch text = Some ops ->
  create f root (Patch.affected_paths ops) = Err e ->
  exists g e', Patch.apply_patch true [] f text = Patch.Failed g e' /\ forall q, file_at g q = file_at f q.
Proof.
  intros Hr W Hp Hc. unfold Patch.apply_patch. rewrite Hp.
  exact (auto_patch_no_checkpoint f root ops e Hr (PatchAtomic.wf_fsb_sound f W) (parse_patch_ok text ops Hp) Hc).
Qed.
