(* C10 - proofs about Model/Lineage.v *)
From RipV Require Import Base.Prelude Model.Frames Model.Log Proofs.LogProofs Model.Lineage.

(* ---------- small list facts ---------- *)
Lemma find_app' {A} (p : A -> bool) a b :
  find p (a ++ b) = match find p a with Some x => Some x | None => find p b end.
Proof. induction a as [|x a IH]; cbn [app find]; [reflexivity|]. destruct (p x); [reflexivity|exact IH]. Qed.

Lemma find_rev_none {A} (p : A -> bool) fs :
  find p (rev fs) = None -> forall g, In g fs -> p g = false.
Proof. intros H g Hg. apply (find_none p (rev fs) H). apply in_rev in Hg. exact Hg. Qed.

Lemma find_rev_some {A} (p : A -> bool) fs f :
  find p (rev fs) = Some f ->
  exists pre post, fs = pre ++ f :: post /\ p f = true /\ forall g, In g post -> p g = false.
Proof.
  revert f; induction fs as [|a fs IH]; intros f H; [discriminate|].
  cbn [rev] in H. rewrite find_app' in H. destruct (find p (rev fs)) as [x|] eqn:E.
  - inversion H; subst x. destruct (IH f eq_refl) as (pre & post & -> & Hp & Hpost).
    exists (a :: pre), post. split; [reflexivity|]. split; assumption.
  - cbn [find] in H. destruct (p a) eqn:Ea; [|discriminate]. inversion H; subst a.
    exists [], fs. split; [reflexivity|]. split; [exact Ea|]. apply find_rev_none. exact E.
Qed.

Lemma app_eq_len {A} (a c b d : list A) : length a = length c -> a ++ b = c ++ d -> a = c /\ b = d.
Proof.
  revert c; induction a as [|x a IH]; intros [|y c] Hl H; cbn in Hl; try discriminate.
  - split; [reflexivity|exact H].
  - cbn [app] in H. inversion H; subst. destruct (IH c) as [-> ->]; [lia|assumption|]. split; reflexivity.
Qed.

Lemma nseq_app st a b : nseq st (a + b) = nseq st a ++ nseq (st + N.of_nat a) b.
Proof.
  revert st; induction a as [|a IH]; intros st.
  - cbn [Nat.add nseq app]. f_equal. lia.
  - cbn [Nat.add nseq app]. rewrite IH. do 3 f_equal. lia.
Qed.

(* ---------- maxl ---------- *)
Lemma maxl_app x a b : maxl x (a ++ b) = maxl (maxl x a) b.
Proof. unfold maxl. apply fold_left_app. Qed.
Lemma maxl_ge x l : x <= maxl x l.
Proof. revert x; induction l as [|y l IH]; intros x; cbn [maxl fold_left]; [lia|]. specialize (IH (N.max x y)). unfold maxl in IH. lia. Qed.
Lemma maxl_all_le x l : (forall y, In y l -> y <= x) -> maxl x l = x.
Proof.
  induction l as [|y l IH]; intros H; [reflexivity|]. cbn [maxl fold_left].
  replace (N.max x y) with x by (specialize (H y (or_introl eq_refl)); lia).
  apply IH. intros z Hz. apply H. right. exact Hz.
Qed.
Lemma maxl_bound x l H : x <= H -> (forall y, In y l -> y <= H) -> maxl x l <= H.
Proof.
  revert x; induction l as [|y l IH]; intros x Hx Hl; [exact Hx|]. cbn [maxl fold_left].
  apply IH; [specialize (Hl y (or_introl eq_refl)); lia|]. intros z Hz. apply Hl. right. exact Hz.
Qed.
(* the maximum is attained *)
Lemma maxl_in x l : maxl x l = x \/ In (maxl x l) l.
Proof.
  revert x; induction l as [|y l IH]; intros x; [left; reflexivity|]. cbn [maxl fold_left].
  destruct (IH (N.max x y)) as [E|E]; unfold maxl in *.
  - rewrite E. destruct (N.max_spec x y) as [[_ ->]|[_ ->]]; [right; left; reflexivity|left; reflexivity].
  - right. right. exact E.
Qed.

(* ---------- head_seq / Consecutive ---------- *)
Lemma head_seq_snoc fs x : head_seq (fs ++ [x]) = seq x.
Proof. unfold head_seq. rewrite rev_app_distr. reflexivity. Qed.

Lemma consecutive_split pre f post :
  Consecutive (pre ++ f :: post) ->
  map seq pre = nseq 0 (length pre) /\ seq f = N.of_nat (length pre).
Proof.
  unfold Consecutive. intros H. rewrite map_app, app_length in H. cbn [map length] in H.
  rewrite nseq_app in H. cbn [nseq] in H.
  apply app_eq_len in H; [|rewrite map_length, nseq_length; reflexivity].
  destruct H as [H1 H2]. split; [exact H1|]. inversion H2. lia.
Qed.

Lemma consecutive_before pre f post g :
  Consecutive (pre ++ f :: post) -> In g pre -> seq g < seq f.
Proof.
  intros H Hg. destruct (consecutive_split _ _ _ H) as [H1 H2].
  apply (in_map seq) in Hg. rewrite H1, nseq_In in Hg. lia.
Qed.

Lemma consecutive_below_head fs : Consecutive fs -> SeqsBelowHead fs.
Proof.
  intros H f Hf. destruct fs as [|x r] using rev_ind; [destruct Hf|]. clear IHr.
  rewrite head_seq_snoc. apply in_app_or in Hf. destruct Hf as [Hf|[<-|[]]]; [|lia].
  pose proof (consecutive_before r x [] f H Hf). lia.
Qed.

Lemma valid_stream_consecutive l k s : Valid l -> Consecutive (stream k s l).
Proof. intros H. exact (H k s). Qed.

Lemma valid_stream_below_head l k s : Valid l -> SeqsBelowHead (stream k s l).
Proof. intros H. apply consecutive_below_head. apply valid_stream_consecutive. exact H. Qed.

(* ---------- appended frames belong to the child ---------- *)
Lemma stream_app_others k s l ext :
  (forall f, In f ext -> (fkind f, sid f) <> (k, s)) -> stream k s (l ++ ext) = stream k s l.
Proof.
  intros H. rewrite stream_app. replace (stream k s ext) with (@nil frame); [apply app_nil_r|].
  induction ext as [|x ext IH]; [reflexivity|]. unfold stream. cbn [filter].
  rewrite in_stream_other by (apply H; left; reflexivity).
  apply IH. intros f Hf. apply H. right. exact Hf.
Qed.

Lemma created_key c e : (fkind (created_frame c e), sid (created_frame c e)) = (KContinuity, c).
Proof. reflexivity. Qed.
Lemma branched_key c e p cut om : (fkind (branched_frame c e p cut om), sid (branched_frame c e p cut om)) = (KContinuity, c).
Proof. reflexivity. Qed.
Lemma handoff_key c e p cut om oa md : (fkind (handoff_frame c e p cut om oa md), sid (handoff_frame c e p cut om oa md)) = (KContinuity, c).
Proof. reflexivity. Qed.

(* every outcome of branch / handoff is the old log plus frames of the child stream *)
Lemma branch_shape view l parent sel fr :
  exists ext, fst (branch_view view l parent sel fr) = l ++ ext
    /\ (forall f, In f ext -> (fkind f, sid f) = (KContinuity, f_child fr)).
Proof.
  unfold branch_view. destruct (resolve_cut sel view) as [[cut om]|e]; cbn [fst].
  - eexists. split; [reflexivity|]. intros f [<-|[<-|[]]]; reflexivity.
  - exists []. split; [symmetry; apply app_nil_r|]. intros f [].
Qed.

(* every way a handoff can end *)
Inductive hcase (chk bf : bool) (view : list frame) (l : log) (arts : astore) (parent : N) (sel : selector)
  (md : bool) (art : option N) (bok : bool) (fr : fresh) : log * astore * result resp -> Prop :=
| HNoSummary : md = false -> art = None -> hcase chk bf view l arts parent sel md art bok fr (l, arts, Err ENoSummary)
| HNoArtifact a : art = Some a -> chk = true -> art_has a arts = false ->
    hcase chk bf view l arts parent sel md art bok fr (l, arts, Err ENoArtifact)
| HCutErr e : resolve_cut sel view = Err e -> hcase chk bf view l arts parent sel md art bok fr (l, arts, Err e)
| HGiven cut om a : resolve_cut sel view = Ok (cut, om) -> art = Some a -> (chk = true -> art_has a arts = true) ->
    hcase chk bf view l arts parent sel md art bok fr
      (l ++ [created_frame (f_child fr) (f_e0 fr); handoff_frame (f_child fr) (f_e1 fr) parent cut om (Some a) md],
       arts, Ok (f_child fr, cut, om))
| HBundle cut om : resolve_cut sel view = Ok (cut, om) -> art = None -> md = true -> bok = true ->
    hcase chk bf view l arts parent sel md art bok fr
      (l ++ [created_frame (f_child fr) (f_e0 fr); handoff_frame (f_child fr) (f_e1 fr) parent cut om (Some (f_art fr)) md],
       (f_art fr, [parent; cut; opt om]) :: arts, Ok (f_child fr, cut, om))
| HBundleFail cut om : resolve_cut sel view = Ok (cut, om) -> art = None -> md = true -> bok = false ->
    hcase chk bf view l arts parent sel md art bok fr
      ((if bf then l else l ++ [created_frame (f_child fr) (f_e0 fr)]), arts, Err EBundle).

Lemma handoff_cases chk bf view l arts parent sel md art bok fr :
  hcase chk bf view l arts parent sel md art bok fr (handoff_gen chk bf view l arts parent sel md art bok fr).
Proof.
  unfold handoff_gen.
  assert (Given : forall a, art = Some a -> forall md0, md = md0 ->
    hcase chk bf view l arts parent sel md0 (Some a) bok fr
      (if chk && negb (art_has a arts) then (l, arts, Err ENoArtifact)
       else match resolve_cut sel view with
            | Ok (cut, om) =>
              (l ++ [created_frame (f_child fr) (f_e0 fr); handoff_frame (f_child fr) (f_e1 fr) parent cut om (Some a) md0],
               arts, Ok (f_child fr, cut, om))
            | Err e => (l, arts, Err e)
            end)).
  { intros a _ md0 _. destruct (chk && negb (art_has a arts)) eqn:Ec.
    - apply andb_true_iff in Ec. destruct Ec as [Ec Ea]. apply negb_true_iff in Ea.
      eapply HNoArtifact; [reflexivity|exact Ec|exact Ea].
    - destruct (resolve_cut sel view) as [[cut om]|e] eqn:Er.
      + eapply HGiven; [exact Er|reflexivity|]. intros Hc. rewrite Hc in Ec. cbn [andb] in Ec.
        apply negb_false_iff in Ec. exact Ec.
      + apply HCutErr. exact Er. }
  destruct md, art as [a|]; cbv beta iota.
  - apply (Given a eq_refl true eq_refl).
  - destruct (resolve_cut sel view) as [[cut om]|e] eqn:Er; [|apply HCutErr; exact Er].
    destruct bok eqn:Eb.
    + apply HBundle; try reflexivity. exact Er.
    + eapply HBundleFail; try reflexivity. exact Er.
  - apply (Given a eq_refl false eq_refl).
  - apply HNoSummary; reflexivity.
Qed.

Lemma handoff_shape chk bf view l arts parent sel md art bok fr :
  exists ext, fst (fst (handoff_gen chk bf view l arts parent sel md art bok fr)) = l ++ ext
    /\ (forall f, In f ext -> (fkind f, sid f) = (KContinuity, f_child fr)).
Proof.
  assert (Hnil : exists ext, l = l ++ ext /\ (forall f, In f ext -> (fkind f, sid f) = (KContinuity, f_child fr))).
  { exists []. split; [symmetry; apply app_nil_r|]. intros f []. }
  pose proof (handoff_cases chk bf view l arts parent sel md art bok fr) as HC.
  remember (handoff_gen chk bf view l arts parent sel md art bok fr) as R eqn:ER. clear ER.
  destruct HC; cbn [fst]; try exact Hnil.
  - eexists. split; [reflexivity|]. intros f [<-|[<-|[]]]; reflexivity.
  - eexists. split; [reflexivity|]. intros f [<-|[<-|[]]]; reflexivity.
  - destruct bf; [exact Hnil|]. eexists. split; [reflexivity|]. intros f [<-|[]]; reflexivity.
Qed.

Theorem branch_other_streams_untouched view l parent sel fr k s :
  (k, s) <> (KContinuity, f_child fr) ->
  stream k s (fst (branch_view view l parent sel fr)) = stream k s l.
Proof.
  intros H. destruct (branch_shape view l parent sel fr) as (ext & -> & Hext).
  apply stream_app_others. intros f Hf E. rewrite (Hext f Hf) in E. apply H. symmetry. exact E.
Qed.

Theorem handoff_other_streams_untouched chk bf view l arts parent sel md art bok fr k s :
  (k, s) <> (KContinuity, f_child fr) ->
  stream k s (fst (fst (handoff_gen chk bf view l arts parent sel md art bok fr))) = stream k s l.
Proof.
  intros H. destruct (handoff_shape chk bf view l arts parent sel md art bok fr) as (ext & -> & Hext).
  apply stream_app_others. intros f Hf E. rewrite (Hext f Hf) in E. apply H. symmetry. exact E.
Qed.

(* the parent (every thread other than the fresh child), whatever the outcome *)
Theorem parent_untouched view l arts parent sel fr t :
  t <> f_child fr ->
  cstream t (fst (branch_view view l parent sel fr)) = cstream t l
  /\ forall chk bf md art bok,
     cstream t (fst (fst (handoff_gen chk bf view l arts parent sel md art bok fr))) = cstream t l.
Proof.
  intros H. assert (Hk : (KContinuity, t) <> (KContinuity, f_child fr)) by congruence. split.
  - apply branch_other_streams_untouched. exact Hk.
  - intros. apply handoff_other_streams_untouched. exact Hk.
Qed.

(* the old log is a prefix of the new one, always *)
Theorem log_prefix view l arts parent sel fr :
  (exists ext, fst (branch_view view l parent sel fr) = l ++ ext)
  /\ forall chk bf md art bok, exists ext, fst (fst (handoff_gen chk bf view l arts parent sel md art bok fr)) = l ++ ext.
Proof.
  split.
  - destruct (branch_shape view l parent sel fr) as (ext & H & _). exists ext. exact H.
  - intros. destruct (handoff_shape chk bf view l arts parent sel md art bok fr) as (ext & H & _). exists ext. exact H.
Qed.

(* ---------- child prefix ---------- *)
Lemma cstream_two c l a b :
  cstream c l = [] -> (fkind a, sid a) = (KContinuity, c) -> (fkind b, sid b) = (KContinuity, c) ->
  cstream c (l ++ [a; b]) = [a; b].
Proof.
  intros Hl Ha Hb. unfold cstream in *. rewrite stream_app, Hl. unfold stream. cbn [filter app].
  assert (Ha1 : fkind a = KContinuity) by congruence. assert (Ha2 : sid a = c) by congruence.
  assert (Hb1 : fkind b = KContinuity) by congruence. assert (Hb2 : sid b = c) by congruence.
  assert (Ea : in_stream KContinuity c a = true) by (apply in_stream_true; split; assumption).
  assert (Eb : in_stream KContinuity c b = true) by (apply in_stream_true; split; assumption).
  rewrite Ea, Eb. reflexivity.
Qed.

Theorem branch_child_prefix view l parent sel fr l' c cut om :
  cstream (f_child fr) l = [] ->
  branch_view view l parent sel fr = (l', Ok (c, cut, om)) ->
  c = f_child fr /\ resolve_cut sel view = Ok (cut, om)
  /\ cstream c l' = [created_frame c (f_e0 fr); branched_frame c (f_e1 fr) parent cut om].
Proof.
  intros Hf H. unfold branch_view in H. destruct (resolve_cut sel view) as [[cut' om']|e]; [|discriminate].
  inversion H; subst. split; [reflexivity|]. split; [reflexivity|].
  apply cstream_two; [exact Hf|reflexivity|reflexivity].
Qed.

Theorem handoff_child_prefix chk bf view l arts parent sel md art bok fr l' arts' c cut om :
  cstream (f_child fr) l = [] ->
  handoff_gen chk bf view l arts parent sel md art bok fr = (l', arts', Ok (c, cut, om)) ->
  c = f_child fr /\ resolve_cut sel view = Ok (cut, om)
  /\ exists a, cstream c l' = [created_frame c (f_e0 fr); handoff_frame c (f_e1 fr) parent cut om (Some a) md]
     /\ ((art = Some a /\ arts' = arts /\ (chk = true -> art_has a arts' = true))
         \/ (art = None /\ md = true /\ bok = true /\ a = f_art fr
             /\ arts' = (a, [parent; cut; opt om]) :: arts)).
Proof.
  intros Hf H. pose proof (handoff_cases chk bf view l arts parent sel md art bok fr) as HC.
  rewrite H in HC. inversion HC; subst.
  - split; [reflexivity|]. split; [assumption|]. exists a.
    split; [apply cstream_two; [exact Hf|reflexivity|reflexivity]|].
    left. split; [reflexivity|]. split; [reflexivity|assumption].
  - split; [reflexivity|]. split; [assumption|]. exists (f_art fr).
    split; [apply cstream_two; [exact Hf|reflexivity|reflexivity]|].
    right. repeat split; reflexivity.
Qed.

(* ---------- Valid is preserved (sequentially) ---------- *)
Lemma valid_add_first l c e : Valid l -> cstream c l = [] -> Valid (l ++ [created_frame c e]).
Proof.
  intros Hv Hf. apply Valid_snoc. split; [exact Hv|].
  change (fkind (created_frame c e)) with KContinuity. change (sid (created_frame c e)) with c.
  unfold next_of. unfold cstream in Hf. rewrite Hf. reflexivity.
Qed.

Lemma valid_add_two l c a b :
  Valid l -> cstream c l = [] ->
  (fkind a, sid a) = (KContinuity, c) -> seq a = 0 ->
  (fkind b, sid b) = (KContinuity, c) -> seq b = 1 ->
  Valid (l ++ [a; b]).
Proof.
  intros Hv Hf Ha Sa Hb Sb.
  assert (Ha1 : fkind a = KContinuity) by congruence. assert (Ha2 : sid a = c) by congruence.
  assert (Hb1 : fkind b = KContinuity) by congruence. assert (Hb2 : sid b = c) by congruence.
  change (l ++ [a; b]) with (l ++ [a] ++ [b]). rewrite app_assoc.
  apply Valid_snoc. split.
  - apply Valid_snoc. split; [exact Hv|]. rewrite Ha1, Ha2. unfold next_of.
    unfold cstream in Hf. rewrite Hf, Sa. reflexivity.
  - rewrite Hb1, Hb2, Sb. unfold next_of. rewrite <- Ha1 at 1. rewrite <- Ha2 at 1.
    rewrite stream_snoc_same. rewrite Ha1, Ha2. unfold cstream in Hf. rewrite Hf. reflexivity.
Qed.

Theorem branch_valid_preserved view l parent sel fr :
  Valid l -> cstream (f_child fr) l = [] -> Valid (fst (branch_view view l parent sel fr)).
Proof.
  intros Hv Hf. unfold branch_view. destruct (resolve_cut sel view) as [[cut om]|e]; cbn [fst]; [|exact Hv].
  apply (valid_add_two l (f_child fr)); try assumption; reflexivity.
Qed.

Theorem handoff_valid_preserved chk bf view l arts parent sel md art bok fr :
  Valid l -> cstream (f_child fr) l = [] ->
  Valid (fst (fst (handoff_gen chk bf view l arts parent sel md art bok fr))).
Proof.
  intros Hv Hf. pose proof (handoff_cases chk bf view l arts parent sel md art bok fr) as HC.
  remember (handoff_gen chk bf view l arts parent sel md art bok fr) as R eqn:ER. clear ER.
  destruct HC; cbn [fst]; try exact Hv.
  - apply (valid_add_two l (f_child fr)); try assumption; reflexivity.
  - apply (valid_add_two l (f_child fr)); try assumption; reflexivity.
  - destruct bf; [exact Hv|]. apply valid_add_first; assumption.
Qed.

(* ---------- the scan of from_message_id ---------- *)
Lemma is_msg_not_run f : is_msg f = true -> is_run f = false.
Proof.
  unfold is_msg, is_run, is_etype, etype_eqb. intros H. apply N.eqb_eq in H. rewrite H. reflexivity.
Qed.

Lemma scan_no_msg m fs st :
  fst st = None -> (forall g, In g fs -> is_msg_id m g = false) ->
  fst (fold_left (scan_step m) fs st) = None.
Proof.
  revert st; induction fs as [|g fs IH]; intros st Hs Hn; [exact Hs|]. cbn [fold_left]. apply IH.
  - unfold scan_step. rewrite (Hn g (or_introl eq_refl)). destruct (is_run_of m g); exact Hs.
  - intros h Hh. apply Hn. right. exact Hh.
Qed.

Lemma scan_after_msg m post s x :
  (forall g, In g post -> is_msg_id m g = false) ->
  fold_left (scan_step m) post (Some s, Some x)
  = (Some s, Some (maxl x (map seq (filter (is_run_of m) post)))).
Proof.
  revert x; induction post as [|g post IH]; intros x Hn; [reflexivity|]. cbn [fold_left].
  unfold scan_step at 2. rewrite (Hn g (or_introl eq_refl)). cbn [filter].
  destruct (is_run_of m g) eqn:Er.
  - cbn [fst snd unwrap0 map]. rewrite IH by (intros h Hh; apply Hn; right; exact Hh). reflexivity.
  - apply IH. intros h Hh. apply Hn. right. exact Hh.
Qed.

Lemma scan_split m pre f post :
  is_msg_id m f = true -> (forall g, In g post -> is_msg_id m g = false) ->
  scan m (pre ++ f :: post) = (Some (seq f), Some (maxl (seq f) (map seq (filter (is_run_of m) post)))).
Proof.
  intros Hf Hpost. unfold scan. rewrite fold_left_app. cbn [fold_left].
  unfold scan_step at 2. rewrite Hf. apply scan_after_msg. exact Hpost.
Qed.

(* from_message_id: the cut is the largest seq among the LAST message frame carrying the id and the
   run frames naming it that come AFTER that frame in the stream.  No hypothesis on the stream. *)
Theorem from_message_cut m fs cut om :
  resolve_cut (SelMsg m) fs = Ok (cut, om) ->
  om = Some m /\ exists pre f post,
    fs = pre ++ f :: post /\ is_msg f = true /\ fid f = m
    /\ (forall g, In g post -> is_msg_id m g = false)
    /\ cut = maxl (seq f) (map seq (filter (is_run_of m) post)).
Proof.
  intros H. unfold resolve_cut in H. destruct fs as [|x r]; [discriminate|].
  set (fs := x :: r) in *. cbv zeta in H.
  destruct (find (is_msg_id m) (rev fs)) as [f|] eqn:Ef.
  - destruct (find_rev_some _ _ _ Ef) as (pre & post & E & Hf & Hpost).
    rewrite E in H. rewrite (scan_split m pre f post Hf Hpost) in H. cbn [fst snd unwrap0] in H.
    inversion H; subst cut om. split; [reflexivity|]. exists pre, f, post.
    unfold is_msg_id in Hf. apply andb_true_iff in Hf. destruct Hf as [Hf1 Hf2]. apply N.eqb_eq in Hf2.
    repeat split; assumption.
  - pose proof (find_rev_none _ _ Ef) as Hn.
    pose proof (scan_no_msg m fs (None, None) eq_refl Hn) as Hs. fold (scan m fs) in Hs.
    rewrite Hs in H. discriminate.
Qed.

(* on a stream whose seqs are 0,1,2,.. the frames before the message cannot carry a larger seq, so the
   cut is the largest seq among the message and ALL run frames naming it (before or after) *)
Theorem from_message_cut_all_related m fs cut om :
  Consecutive fs -> resolve_cut (SelMsg m) fs = Ok (cut, om) ->
  exists f, In f fs /\ is_msg f = true /\ fid f = m
    /\ cut = maxl (seq f) (map seq (filter (is_run_of m) fs)).
Proof.
  intros Hc H. destruct (from_message_cut m fs cut om H) as (_ & pre & f & post & E & Hm & Hid & Hpost & Hcut).
  exists f. subst fs. split; [apply in_or_app; right; left; reflexivity|]. split; [exact Hm|]. split; [exact Hid|].
  rewrite filter_app. cbn [filter]. unfold is_run_of at 2. rewrite (is_msg_not_run f Hm). cbn [andb].
  rewrite map_app, maxl_app. rewrite (maxl_all_le (seq f) (map seq (filter (is_run_of m) pre))); [exact Hcut|].
  intros y Hy. apply in_map_iff in Hy. destruct Hy as (g & <- & Hg). apply filter_In in Hg. destruct Hg as [Hg _].
  pose proof (consecutive_before pre f post g Hc Hg). lia.
Qed.

(* ---------- cut in range ---------- *)
Theorem cut_in_range sel fs cut om :
  SeqsBelowHead fs -> resolve_cut sel fs = Ok (cut, om) -> cut <= head_seq fs.
Proof.
  intros Hb H. destruct sel as [|n|m|m n].
  - unfold resolve_cut in H. destruct fs as [|x r]; [discriminate|]. inversion H. lia.
  - unfold resolve_cut in H. destruct fs as [|x r]; [discriminate|]. cbv zeta in H.
    destruct (head_seq (x :: r) <? n) eqn:E; [discriminate|]. inversion H; subst. lia.
  - destruct (from_message_cut m fs cut om H) as (_ & pre & f & post & E & _ & _ & _ & Hcut).
    subst cut. apply maxl_bound.
    + apply Hb. subst fs. apply in_or_app. right. left. reflexivity.
    + intros y Hy. apply in_map_iff in Hy. destruct Hy as (g & <- & Hg). apply filter_In in Hg.
      apply Hb. subst fs. apply in_or_app. right. right. apply Hg.
  - discriminate.
Qed.

(* the cut is a seq that occurs in the stream whenever it is computed (none / from_message_id) *)
Theorem cut_is_a_frame_seq sel fs cut om :
  (forall n, sel <> SelSeq n) -> resolve_cut sel fs = Ok (cut, om) -> exists f, In f fs /\ seq f = cut.
Proof.
  intros Hn H. destruct sel as [|n|m|m n].
  - unfold resolve_cut in H. destruct fs as [|x r] eqn:Efs; [discriminate|]. rewrite <- Efs in *.
    assert (Hne : fs <> []) by (rewrite Efs; discriminate). clear Efs.
    destruct fs as [|y fs'] using rev_ind; [congruence|]. clear IHfs'.
    destruct (fs' ++ [y]) eqn:E2; [destruct fs'; discriminate|]. rewrite <- E2 in *.
    inversion H. exists y. split; [apply in_or_app; right; left; reflexivity|].
    rewrite head_seq_snoc. reflexivity.
  - exfalso. apply (Hn n). reflexivity.
  - destruct (from_message_cut m fs cut om H) as (_ & pre & f & post & E & _ & _ & _ & Hcut).
    destruct (maxl_in (seq f) (map seq (filter (is_run_of m) post))) as [Em|Em].
    + exists f. split; [subst fs; apply in_or_app; right; left; reflexivity|]. congruence.
    + rewrite <- Hcut in Em. apply in_map_iff in Em. destruct Em as (g & Eg & Hg). apply filter_In in Hg.
      exists g. split; [subst fs; apply in_or_app; right; right; apply Hg|exact Eg].
  - discriminate.
Qed.

(* ---------- last message at or before the cut ---------- *)
Theorem cut_names_last_message sel fs cut om :
  (forall m, sel <> SelMsg m) -> SeqsBelowHead fs ->
  resolve_cut sel fs = Ok (cut, om) -> LastMsgAtOrBefore cut fs om.
Proof.
  intros Hsel Hb H. destruct sel as [|n|m|m n].
  - unfold resolve_cut in H. destruct fs as [|x r] eqn:Efs; [discriminate|]. rewrite <- Efs in *.
    inversion H; subst cut om. clear H. unfold last_msg, LastMsgAtOrBefore.
    destruct (find is_msg (rev fs)) as [f|] eqn:Ef; cbn [option_map].
    + destruct (find_rev_some _ _ _ Ef) as (pre & post & E & Hf & Hpost).
      exists pre, f, post. split; [exact E|]. split; [exact Hf|]. split; [reflexivity|].
      split; [apply Hb; rewrite E; apply in_or_app; right; left; reflexivity|].
      intros g Hg Hm. rewrite (Hpost g Hg) in Hm. discriminate.
    + intros g Hg Hm. rewrite (find_rev_none _ _ Ef g Hg) in Hm. discriminate.
  - unfold resolve_cut in H. destruct fs as [|x r] eqn:Efs; [discriminate|]. rewrite <- Efs in *. cbv zeta in H.
    destruct (head_seq fs <? n) eqn:E; [discriminate|]. inversion H; subst cut om. clear H.
    unfold last_msg_upto, LastMsgAtOrBefore.
    destruct (find (fun f => (seq f <=? n) && is_msg f) (rev fs)) as [f|] eqn:Ef; cbn [option_map].
    + destruct (find_rev_some _ _ _ Ef) as (pre & post & E' & Hf & Hpost). cbv beta in Hf, Hpost.
      apply andb_true_iff in Hf. destruct Hf as [Hf1 Hf2].
      exists pre, f, post. split; [exact E'|]. split; [exact Hf2|]. split; [reflexivity|]. split; [lia|].
      intros g Hg Hm. specialize (Hpost g Hg). cbv beta in Hpost. rewrite Hm in Hpost. lia.
    + intros g Hg Hm. pose proof (find_rev_none _ _ Ef g Hg) as Hp. cbv beta in Hp. rewrite Hm in Hp. lia.
  - exfalso. apply (Hsel m). reflexivity.
  - discriminate.
Qed.

(* on a consecutive stream "positionally last" is "largest seq": no message frame with seq <= cut
   lies above the named one *)
Theorem last_message_is_max cut fs m :
  Consecutive fs -> LastMsgAtOrBefore cut fs (Some m) ->
  exists f, In f fs /\ is_msg f = true /\ fid f = m /\ seq f <= cut
    /\ forall g, In g fs -> is_msg g = true -> seq g <= cut -> seq g <= seq f.
Proof.
  intros Hc (pre & f & post & E & Hm & Hid & Hle & Hpost). exists f. subst fs.
  split; [apply in_or_app; right; left; reflexivity|]. repeat (split; [assumption|]).
  intros g Hg Hgm Hgc. apply in_app_or in Hg. destruct Hg as [Hg|[<-|Hg]].
  - pose proof (consecutive_before pre f post g Hc Hg). lia.
  - lia.
  - specialize (Hpost g Hg Hgm). lia.
Qed.

(* ---------- selector errors ---------- *)
Theorem sel_both_err m n fs : resolve_cut (SelBoth m n) fs = Err EBoth.
Proof. reflexivity. Qed.

Theorem sel_empty_parent sel :
  resolve_cut sel [] = Err (match sel with SelBoth _ _ => EBoth | _ => ENoParent end).
Proof. destruct sel; reflexivity. Qed.

Theorem sel_seq_out_of_range n fs : fs <> [] -> head_seq fs < n -> resolve_cut (SelSeq n) fs = Err EOutOfRange.
Proof.
  intros Hne Hlt. unfold resolve_cut. destruct fs as [|x r]; [congruence|]. cbv zeta.
  destruct (head_seq (x :: r) <? n) eqn:E; [reflexivity|lia].
Qed.

(* unknown id, or the id of a frame that is not a message *)
Theorem sel_msg_not_found m fs :
  fs <> [] -> (forall f, In f fs -> is_msg f = true -> fid f <> m) -> resolve_cut (SelMsg m) fs = Err ENotFound.
Proof.
  intros Hne Hn. unfold resolve_cut. destruct fs as [|x r] eqn:Efs; [congruence|]. rewrite <- Efs in *. cbv zeta.
  assert (Hs : fst (scan m fs) = None).
  { apply scan_no_msg; [reflexivity|]. intros g Hg. unfold is_msg_id. destruct (is_msg g) eqn:Em; [|reflexivity].
    cbn [andb]. apply N.eqb_neq. apply Hn; assumption. }
  rewrite Hs. reflexivity.
Qed.

Theorem selector_errors (fs : list frame) :
  (forall m n, resolve_cut (SelBoth m n) fs = Err EBoth)
  /\ (forall sel, resolve_cut sel [] = Err (match sel with SelBoth _ _ => EBoth | _ => ENoParent end))
  /\ (forall n, fs <> [] -> head_seq fs < n -> resolve_cut (SelSeq n) fs = Err EOutOfRange)
  /\ (forall m, fs <> [] -> (forall f, In f fs -> is_msg f = true -> fid f <> m) ->
        resolve_cut (SelMsg m) fs = Err ENotFound).
Proof.
  split; [intros m n; apply sel_both_err|]. split; [apply sel_empty_parent|].
  split; [intros n; apply sel_seq_out_of_range|intros m; apply sel_msg_not_found].
Qed.

(* exactly when resolution succeeds *)
Theorem resolve_ok_iff sel fs :
  (exists r, resolve_cut sel fs = Ok r) <->
  fs <> [] /\ match sel with
              | SelNone => True
              | SelSeq n => n <= head_seq fs
              | SelMsg m => exists f, In f fs /\ is_msg f = true /\ fid f = m
              | SelBoth _ _ => False
              end.
Proof.
  split.
  - intros [[cut om] H]. destruct fs as [|x r] eqn:Efs.
    + rewrite sel_empty_parent in H. discriminate.
    + rewrite <- Efs in *. split; [rewrite Efs; discriminate|]. destruct sel as [|n|m|m n]; [exact I| | |discriminate].
      * destruct (N.le_gt_cases n (head_seq fs)) as [Hle|Hgt]; [exact Hle|].
        rewrite sel_seq_out_of_range in H; [discriminate|rewrite Efs; discriminate|exact Hgt].
      * destruct (from_message_cut m fs cut om H) as (_ & pre & f & post & E & Hm & Hid & _).
        exists f. split; [rewrite E; apply in_or_app; right; left; reflexivity|]. split; assumption.
  - intros [Hne Hs]. destruct fs as [|x r] eqn:Efs; [congruence|]. rewrite <- Efs in *.
    destruct sel as [|n|m|m n]; [| | |destruct Hs].
    + unfold resolve_cut. rewrite Efs. eexists. reflexivity.
    + unfold resolve_cut. rewrite Efs. rewrite <- Efs. cbv zeta.
      destruct (head_seq fs <? n) eqn:E; [lia|]. eexists. reflexivity.
    + destruct (resolve_cut (SelMsg m) fs) as [r0|e] eqn:Er; [exists r0; reflexivity|]. exfalso.
      destruct Hs as (f & Hf & Hm & Hid).
      unfold resolve_cut in Er. rewrite Efs in Er. rewrite <- Efs in Er. cbv zeta in Er.
      destruct (find (is_msg_id m) (rev fs)) as [f'|] eqn:Ef.
      * destruct (find_rev_some _ _ _ Ef) as (pre & post & E & Hf' & Hpost).
        rewrite E in Er. rewrite (scan_split m pre f' post Hf' Hpost) in Er. discriminate.
      * pose proof (find_rev_none _ _ Ef f Hf) as Hx. unfold is_msg_id in Hx. rewrite Hm in Hx.
        cbn [andb] in Hx. apply N.eqb_neq in Hx. congruence.
Qed.

Lemma resolve_err_kinds sel fs e :
  resolve_cut sel fs = Err e -> e = EBoth \/ e = ENoParent \/ e = EOutOfRange \/ e = ENotFound.
Proof.
  unfold resolve_cut. destruct sel as [|n|m|m n]; destruct fs as [|x r]; cbv zeta; intros H; try (inversion H; tauto).
  - destruct (head_seq (x :: r) <? n); inversion H; tauto.
  - destruct (fst (scan m (x :: r))); inversion H; tauto.
Qed.

(* a failing call writes nothing - except a handoff whose bundle write fails *)
Theorem branch_err_unchanged view l parent sel fr l' e :
  branch_view view l parent sel fr = (l', Err e) -> l' = l /\ resolve_cut sel view = Err e.
Proof.
  unfold branch_view. destruct (resolve_cut sel view) as [[cut om]|e']; intros H; inversion H. split; reflexivity.
Qed.

Theorem handoff_err_unchanged chk bf view l arts parent sel md art bok fr l' arts' e :
  handoff_gen chk bf view l arts parent sel md art bok fr = (l', arts', Err e) ->
  arts' = arts /\ (e <> EBundle \/ bf = true -> l' = l)
  /\ (e = EBundle -> md = true /\ art = None /\ bok = false
                     /\ l' = if bf then l else l ++ [created_frame (f_child fr) (f_e0 fr)]).
Proof.
  intros H. pose proof (handoff_cases chk bf view l arts parent sel md art bok fr) as HC.
  rewrite H in HC. inversion HC; subst; (split; [reflexivity|]).
  - split; [reflexivity|discriminate].
  - split; [reflexivity|discriminate].
  - split; [reflexivity|]. intros ->.
    match goal with Hr : resolve_cut _ _ = Err EBundle |- _ =>
      destruct (resolve_err_kinds _ _ _ Hr) as [E|[E|[E|E]]]; discriminate E end.
  - split.
    + intros [Hne|Hb]; [congruence|]. rewrite Hb. reflexivity.
    + intros _. repeat split; reflexivity.
Qed.

(* the repaired handoff: a failing call writes nothing at all *)
Theorem handoff_fixed_err_unchanged chk view l arts parent sel md art bok fr l' arts' e :
  handoff_gen chk true view l arts parent sel md art bok fr = (l', arts', Err e) -> l' = l /\ arts' = arts.
Proof.
  intros H. destruct (handoff_err_unchanged _ _ _ _ _ _ _ _ _ _ _ _ _ _ H) as (Ha & Hl & _).
  split; [apply Hl; right; reflexivity|exact Ha].
Qed.

Theorem handoff_no_summary chk bf view l arts parent sel bok fr :
  handoff_gen chk bf view l arts parent sel false None bok fr = (l, arts, Err ENoSummary).
Proof. reflexivity. Qed.

(* the repaired handoff: whatever summary class was accepted, the recorded artifact id is in the store when the
   lineage frame is written *)
Theorem handoff_summary_resolvable bf view l arts parent sel md art bok fr l' arts' c cut om :
  handoff_gen true bf view l arts parent sel md art bok fr = (l', arts', Ok (c, cut, om)) ->
  exists a, l' = l ++ [created_frame c (f_e0 fr); handoff_frame c (f_e1 fr) parent cut om (Some a) md]
    /\ art_has a arts' = true /\ (art = None -> md = true /\ art_get a arts' = Some [parent; cut; opt om]).
Proof.
  intros H. pose proof (handoff_cases true bf view l arts parent sel md art bok fr) as HC.
  rewrite H in HC. inversion HC; subst.
  - exists a. split; [reflexivity|]. split; [auto|discriminate].
  - exists (f_art fr). split; [reflexivity|].
    assert (G : art_get (f_art fr) ((f_art fr, [parent; cut; opt om]) :: arts) = Some [parent; cut; opt om]).
    { unfold art_get. cbn [find fst]. rewrite N.eqb_refl. reflexivity. }
    split; [unfold art_has; rewrite G; reflexivity|]. intros _. split; [reflexivity|exact G].
Qed.

(* the bundle written for a markdown-only handoff records the same cut as the lineage frame *)
Theorem handoff_bundle_matches chk bf view l arts parent sel bok fr l' arts' c cut om :
  handoff_gen chk bf view l arts parent sel true None bok fr = (l', arts', Ok (c, cut, om)) ->
  art_get (f_art fr) arts' = Some [parent; cut; opt om]
  /\ l' = l ++ [created_frame c (f_e0 fr); handoff_frame c (f_e1 fr) parent cut om (Some (f_art fr)) true].
Proof.
  intros H. pose proof (handoff_cases chk bf view l arts parent sel true None bok fr) as HC.
  rewrite H in HC. inversion HC; subst; try discriminate. split; [|reflexivity].
  unfold art_get. cbn [find fst]. rewrite N.eqb_refl. reflexivity.
Qed.

(* ---------- witnesses ---------- *)
Definition mk (i s q : N) (t : etype) (a : list N) : frame := {| fid := i; sid := s; seq := q; ety := t; args := a |}.
(* parent thread 0: created, m1(id 11), run_spawned(m1), m2(id 13), run_ended(m1), m3(id 15), tool side effects *)
Definition demo_parent : list frame :=
  [ mk 10 0 0 EContinuityCreated [];
    mk 11 0 1 EContinuityMessageAppended [];
    mk 12 0 2 EContinuityRunSpawned [11];
    mk 13 0 3 EContinuityMessageAppended [];
    mk 14 0 4 EContinuityRunEnded [11];
    mk 15 0 5 EContinuityMessageAppended [];
    mk 16 0 6 EContinuityToolSideEffects [] ].
(* a session frame of another stream interleaved *)
Definition demo_log : log := mk 90 7 0 ESessionStarted [] :: demo_parent.
Definition demo_fresh : fresh := {| f_child := 1; f_e0 := 20; f_e1 := 21; f_art := 30 |}.

Lemma demo_valid : Valid demo_log.
Proof. apply validate_spec. vm_compute. reflexivity. Qed.
Lemma demo_consecutive : Consecutive demo_parent.
Proof. vm_compute. reflexivity. Qed.
Lemma demo_child_fresh : cstream (f_child demo_fresh) demo_log = [].
Proof. vm_compute. reflexivity. Qed.
Lemma demo_view : cstream 0 demo_log = demo_parent.
Proof. vm_compute. reflexivity. Qed.

Lemma demo_hypotheses :
  Valid demo_log /\ Consecutive demo_parent /\ cstream (f_child demo_fresh) demo_log = []
  /\ cstream 0 demo_log = demo_parent.
Proof. exact (conj demo_valid (conj demo_consecutive (conj demo_child_fresh demo_view))). Qed.

Lemma demo_cuts :
  resolve_cut SelNone demo_parent = Ok (6, Some 15)
  /\ resolve_cut (SelSeq 4) demo_parent = Ok (4, Some 13)
  /\ resolve_cut (SelSeq 0) demo_parent = Ok (0, None)
  /\ resolve_cut (SelSeq 7) demo_parent = Err EOutOfRange
  /\ resolve_cut (SelMsg 11) demo_parent = Ok (4, Some 11)
  /\ resolve_cut (SelMsg 13) demo_parent = Ok (3, Some 13)
  /\ resolve_cut (SelMsg 12) demo_parent = Err ENotFound
  /\ resolve_cut (SelMsg 77) demo_parent = Err ENotFound
  /\ resolve_cut (SelBoth 11 1) demo_parent = Err EBoth.
Proof. vm_compute. repeat split; reflexivity. Qed.

Definition demo_branch_result := branch_op demo_log 0 (SelMsg 11) demo_fresh.
Lemma demo_branch :
  demo_branch_result
  = (demo_log ++ [created_frame 1 20; branched_frame 1 21 0 4 (Some 11)], Ok (1, 4, Some 11)).
Proof. vm_compute. reflexivity. Qed.

Definition demo_handoff_md := handoff_op demo_log [] 0 SelNone true None true demo_fresh.
Lemma demo_handoff :
  demo_handoff_md
  = (demo_log ++ [created_frame 1 20; handoff_frame 1 21 0 6 (Some 15) (Some 30) true],
     [(30, [0; 6; 16])], Ok (1, 6, Some 15)).
Proof. vm_compute. reflexivity. Qed.

(* a run frame naming the message but standing BEFORE it (impossible on a stream written by ripd:
   run frames are appended after their message) is forgotten by the scan even when its seq is larger *)
Definition odd_parent : list frame :=
  [ mk 10 0 0 EContinuityCreated [];
    mk 12 0 9 EContinuityRunEnded [11];
    mk 11 0 1 EContinuityMessageAppended [] ].
Lemma odd_cut : resolve_cut (SelMsg 11) odd_parent = Ok (1, Some 11)
  /\ maxl 1 (map seq (filter (is_run_of 11) odd_parent)) = 9.
Proof. vm_compute. split; reflexivity. Qed.

Lemma from_message_ignores_earlier_runs_unsorted :
  exists fs m cut om f, resolve_cut (SelMsg m) fs = Ok (cut, om) /\ In f fs /\ is_msg f = true /\ fid f = m
    /\ cut <> maxl (seq f) (map seq (filter (is_run_of m) fs)).
Proof.
  exists odd_parent, 11, 1, (Some 11), (mk 11 0 1 EContinuityMessageAppended []).
  split; [apply odd_cut|]. split; [right; right; left; reflexivity|]. split; [reflexivity|]. split; [reflexivity|].
  vm_compute. discriminate.
Qed.

(* the code as found records a caller-given artifact id that names nothing *)
Definition dangling_result := handoff_op_unfixed demo_log [] 0 SelNone false (Some 55) true demo_fresh.
Lemma dangling_eq :
  dangling_result
  = (demo_log ++ [created_frame 1 20; handoff_frame 1 21 0 6 (Some 15) (Some 55) false], [], Ok (1, 6, Some 15)).
Proof. vm_compute. reflexivity. Qed.

Lemma handoff_unchecked_artifact_refuted :
  exists l arts parent sel a fr l' arts' r,
    handoff_op_unfixed l arts parent sel false (Some a) true fr = (l', arts', Ok r)
    /\ art_has a arts' = false
    /\ exists c e cut om, In (handoff_frame c e parent cut om (Some a) false) l'.
Proof.
  exists demo_log, [], 0, SelNone, 55, demo_fresh.
  eexists. eexists. eexists. split; [exact dangling_eq|]. split; [reflexivity|].
  exists 1, 21, 6, (Some 15). apply in_or_app. right. right. left. reflexivity.
Qed.

(* a handoff whose bundle write fails leaves a child that has a creation frame and no lineage *)
Definition orphan_result := handoff_op_unfixed demo_log [] 0 SelNone true None false demo_fresh.
Lemma orphan_eq : orphan_result = (demo_log ++ [created_frame 1 20], [], Err EBundle).
Proof. vm_compute. reflexivity. Qed.

Lemma handoff_orphan_child_unfixed_refuted :
  exists l arts parent sel md art bok fr l' arts' e,
    handoff_op_unfixed l arts parent sel md art bok fr = (l', arts', Err e) /\ l' <> l
    /\ cstream (f_child fr) l = [] /\ cstream (f_child fr) l' = [created_frame (f_child fr) (f_e0 fr)].
Proof.
  exists demo_log, [], 0, SelNone, true, None, false, demo_fresh. eexists. eexists. eexists.
  split; [exact orphan_eq|]. split; [vm_compute; discriminate|]. split; vm_compute; reflexivity.
Qed.

(* the repaired code on the same two inputs *)
Definition dangling_fixed := handoff_op demo_log [] 0 SelNone false (Some 55) true demo_fresh.
Definition orphan_fixed := handoff_op demo_log [] 0 SelNone true None false demo_fresh.
Lemma fixed_eq : dangling_fixed = (demo_log, [], Err ENoArtifact) /\ orphan_fixed = (demo_log, [], Err EBundle).
Proof. vm_compute. split; reflexivity. Qed.

(* ---------- the HTTP layer ---------- *)
Lemma http_status_created_iff (r : result resp) : http_status r = 201 <-> exists x, r = Ok x.
Proof.
  split.
  - destruct r as [x|e]; [intros _; exists x; reflexivity|]. destruct e; cbn [http_status]; intros H; discriminate H.
  - intros [x ->]. reflexivity.
Qed.
Lemma http_status_classes (r : result resp) :
  http_status r = 201 \/ http_status r = 400 \/ http_status r = 404 \/ http_status r = 500.
Proof. destruct r as [x|e]; [left; reflexivity|]. destruct e; cbn [http_status]; tauto. Qed.
