(* C04 — the theorems of TailLoopProofs / CacheProofs instantiated with what tools/gen/tail_loops.py
   read from /repo's current source (Gen/TailLoops.v is regenerated on every ./check run; its
   obligation gen_tail_loops_wf is what makes these instances go through). *)
From RipV Require Import Base.Prelude Model.TailLoop Model.Cache Proofs.TailLoopProofs Proofs.CacheProofs Gen.TailLoops.

Definition k_gen : consts :=
  {| k_loops := gen_loops; k_max_keys := gen_cursor_max_keys;
     k_inflight_events := gen_inflight_events; k_inflight_bytes := gen_inflight_bytes;
     k_ckpt_events := gen_ckpt_events; k_ckpt_bytes := gen_ckpt_bytes |}.

Lemma k_gen_wf : consts_wf k_gen.
Proof. exact gen_tail_loops_wf. Qed.

Lemma gen_loop_parts c : In c gen_loops -> l_cap_break c = true /\ 0 < l_initial c.
Proof.
  intros Hin. pose proof gen_tail_loops_wf as H. rewrite forallb_forall in H. specialize (H c Hin).
  unfold loop_wf in H.
  apply andb_true_iff in H; destruct H as [H _].
  apply andb_true_iff in H; destruct H as [H _].
  apply andb_true_iff in H; destruct H as [H H3].
  apply andb_true_iff in H; destruct H as [H _].
  apply andb_true_iff in H; destruct H as [H1 _].
  apply N.ltb_lt in H1. split; assumption.
Qed.

(* every tail-doubling loop of the current source leaves, whatever the sidecar holds *)
Theorem gen_loops_terminate :
  forall c, In c gen_loops ->
  forall (E A : Type) (scan : N -> N -> sres E) (acc0 : A) (examine : A -> list E -> A) (done : A -> bool),
  exists fin, run_loop c scan acc0 examine done = Some fin.
Proof.
  intros c Hin E A scan acc0 examine done. destruct (gen_loop_parts c Hin) as [Hc Hp].
  exact (run_loop_some c scan acc0 examine done Hc Hp).
Qed.

Theorem gen_loops_rounds :
  forall c, In c gen_loops -> (rounds_bound c (l_initial c) <= 6)%nat.
Proof.
  intros c Hin. cbn [gen_loops In] in Hin.
  repeat (destruct Hin as [<-|Hin]; [vm_compute; lia|]). destruct Hin.
Qed.

Theorem gen_full_sidecar_transparent l s q a :
  valid_log l = true -> FullFaithful l s -> q <> QInflight ->
  q_fast k_gen s l q = Some a -> a = q_truth k_gen l q.
Proof. exact (fun Hv Hff Hq H => full_sidecar_transparent k_gen l s q a k_gen_wf Hv Hff Hq H). Qed.
