(* C01 - proofs about the started-guard of SessionEngine::spawn_session (Model/SessGuard.v) and its
   composition with the store's transition system: with an atomic read-modify-write guard at most one
   of any number of concurrent inputs to a session is accepted, under every schedule, so the session
   stream has one writer and c01_valid_all_schedules applies; with check-then-set two are accepted and
   the stream reads 0,0,1,1,2,2. *)
From RipV Require Import Base.Prelude Model.Frames Model.Log Model.ContStore Model.ContInv Model.SessGuard
  Proofs.LogProofs Proofs.ContStoreProofs Proofs.ContOrderProofs.

Lemma gset_accepted l : forall a v, nth_error l a = Some GInit ->
  accepted_n (gset l a v) = (accepted_n l + (if gpc_accepted v then 1 else 0))%nat.
Proof.
  unfold accepted_n.
  induction l as [|x r IH]; intros [|a] v H; cbn [nth_error] in H; try discriminate.
  - inversion H; subst x. cbn [gset filter gpc_accepted]. destruct (gpc_accepted v); cbn [length]; lia.
  - cbn [gset filter]. destruct (gpc_accepted x); cbn [length]; rewrite (IH a v H); lia.
Qed.

Lemma gset_nopassed l : forall a v, existsb gpc_passed l = false -> gpc_passed v = false ->
  existsb gpc_passed (gset l a v) = false.
Proof.
  induction l as [|x r IH]; intros [|a] v H Hv; cbn [gset existsb] in *; try reflexivity.
  - apply orb_false_iff in H. destruct H as [_ H]. rewrite Hv, H. reflexivity.
  - apply orb_false_iff in H. destruct H as [Hx H]. rewrite Hx, (IH a v H Hv). reflexivity.
Qed.

Lemma nth_passed l : forall a, nth_error l a = Some GPassed -> existsb gpc_passed l = true.
Proof.
  induction l as [|x r IH]; intros [|a] H; cbn [nth_error] in H; try discriminate.
  - inversion H; subst x. reflexivity.
  - cbn [existsb]. rewrite (IH a H). apply orb_true_r.
Qed.

Lemma nth_repeat_init n : forall a, (a < n)%nat -> nth_error (repeat GInit n) a = Some GInit.
Proof.
  induction n as [|n IH]; intros a H; [lia|]. destruct a as [|a]; cbn [repeat nth_error]; [reflexivity|].
  apply IH. lia.
Qed.

Lemma accepted_repeat_init n : accepted_n (repeat GInit n) = 0%nat.
Proof. unfold accepted_n. induction n as [|n IH]; cbn [repeat filter gpc_accepted]; [reflexivity|exact IH]. Qed.

Lemma nopassed_repeat_init n : existsb gpc_passed (repeat GInit n) = false.
Proof. induction n as [|n IH]; cbn [repeat existsb gpc_passed]; [reflexivity|exact IH]. Qed.

(* invariant of the atomic guard: the flag says whether an input has been accepted, nobody stands
   between test and set, and as long as the flag is down nobody has moved *)
Definition GInvA (n : nat) (st : bool * list gpc) : Prop :=
  accepted_n (snd st) = (if fst st then 1 else 0)%nat
  /\ existsb gpc_passed (snd st) = false
  /\ (fst st = false -> snd st = repeat GInit n).

Lemma ginva_init n : GInvA n (false, repeat GInit n).
Proof.
  unfold GInvA. cbn [fst snd]. split; [apply accepted_repeat_init|]. split; [apply nopassed_repeat_init|reflexivity].
Qed.

Lemma ginva_step gk n st a : sg_atomic gk = true -> GInvA n st -> GInvA n (gstep gk st a).
Proof.
  intros Hk [Hacc [Hnp Hdown]]. destruct gk; [|discriminate Hk]. unfold gstep.
  destruct (nth_error (snd st) a) as [pc|] eqn:En; [|repeat split; assumption].
  destruct pc; try (repeat split; assumption).
  - (* GInit *) destruct (fst st) eqn:Ef; unfold GInvA; cbn [fst snd].
    + split; [rewrite (gset_accepted _ _ _ En); cbn [gpc_accepted]; lia|].
      split; [apply gset_nopassed; [exact Hnp|reflexivity]|discriminate].
    + split; [rewrite (gset_accepted _ _ _ En); cbn [gpc_accepted]; lia|].
      split; [apply gset_nopassed; [exact Hnp|reflexivity]|discriminate].
  - (* GPassed: excluded *) rewrite (nth_passed _ _ En) in Hnp. discriminate.
Qed.

Lemma ginva_run gk n : sg_atomic gk = true -> forall sched st, GInvA n st -> GInvA n (fold_left (gstep gk) sched st).
Proof.
  intros Hk sched. induction sched as [|a r IH]; intros st H; cbn [fold_left]; [exact H|].
  apply IH. apply ginva_step; assumption.
Qed.

(* at most one of the concurrent inputs is accepted: any number of callers, any schedule *)
Theorem atomic_at_most_one gk n sched : sg_atomic gk = true -> (accepted_n (snd (grun gk n sched)) <= 1)%nat.
Proof.
  intros Hk. destruct (ginva_run gk n Hk sched _ (ginva_init n)) as [Hacc _]. unfold grun.
  rewrite Hacc. destruct (fst _); lia.
Qed.

Lemma flag_stays gk st a : fst st = true -> fst (gstep gk st a) = true.
Proof.
  intros Hf. unfold gstep. destruct (nth_error (snd st) a) as [pc|]; [|exact Hf].
  destruct pc; try exact Hf; try reflexivity. destruct gk; rewrite Hf; reflexivity.
Qed.

Lemma flag_stays_run gk : forall sched st, fst st = true -> fst (fold_left (gstep gk) sched st) = true.
Proof.
  induction sched as [|a r IH]; intros st H; cbn [fold_left]; [exact H|]. apply IH. apply flag_stays. exact H.
Qed.

Lemma atomic_flag_up gk n a : sg_atomic gk = true -> (a < n)%nat ->
  forall sched st, GInvA n st -> In a sched -> fst (fold_left (gstep gk) sched st) = true.
Proof.
  intros Hk Ha sched. induction sched as [|b r IH]; intros st Hi Hin; [destruct Hin|].
  cbn [fold_left]. destruct Hin as [->|Hin].
  - apply flag_stays_run. destruct (fst st) eqn:Ef; [apply flag_stays; exact Ef|].
    destruct Hi as [_ [_ Hdown]]. destruct gk; [|discriminate Hk]. unfold gstep.
    rewrite (Hdown Ef), (nth_repeat_init n a Ha), Ef. reflexivity.
  - apply IH; [apply ginva_step; assumption|exact Hin].
Qed.

(* ... and exactly one as soon as one caller takes a step *)
Theorem atomic_exactly_one gk n sched a : sg_atomic gk = true -> (a < n)%nat -> In a sched ->
  accepted_n (snd (grun gk n sched)) = 1%nat.
Proof.
  intros Hk Ha Hin. destruct (ginva_run gk n Hk sched _ (ginva_init n)) as [Hacc _]. unfold grun. rewrite Hacc.
  rewrite (atomic_flag_up gk n a Hk Ha sched _ (ginva_init n) Hin). reflexivity.
Qed.

(* THE composition: any number of clients post input to session `sid` at the same time (any schedule of
   their guard steps), next to any other well-formed actors (appends, branches, other runs, task pumps)
   on any store satisfying the store invariant; whatever the accepted runs and the others do, under any
   schedule, every stream stays 0,1,2,.. - provided the guard is an atomic read-modify-write. *)
Theorem session_single_writer gk n gsched sid ts others sched st :
  sg_atomic gk = true ->
  SInv st -> forallb is_sess ts = true -> progs_wf others ->
  sess_fresh st ((session_prog ts, sid) :: others) -> sess_distinct ((session_prog ts, sid) :: others) ->
  Valid (s_log (run sched (spawn (session_actors gk n gsched sid ts ++ others) st))).
Proof.
  intros Hk S Hts Hwf Hsf Hsd. unfold session_actors.
  pose proof (atomic_at_most_one gk n gsched Hk) as Hle.
  destruct (accepted_n (snd (grun gk n gsched))) as [|[|k]]; [| |lia]; cbn [runs_of repeat app].
  - apply valid_all_schedules; [exact S|exact Hwf| |].
    + unfold sess_fresh in *. apply (Forall_inv_tail Hsf).
    + cbn [sess_distinct] in Hsd. apply (proj2 Hsd).
  - apply valid_all_schedules; [exact S| |exact Hsf|exact Hsd].
    unfold progs_wf. constructor; [cbn [fst]; apply wf_session; exact Hts|exact Hwf].
Qed.

Theorem session_single_writer_validates gk n gsched sid ts others sched st :
  sg_atomic gk = true ->
  SInv st -> forallb is_sess ts = true -> progs_wf others ->
  sess_fresh st ((session_prog ts, sid) :: others) -> sess_distinct ((session_prog ts, sid) :: others) ->
  validate (s_log (run sched (spawn (session_actors gk n gsched sid ts ++ others) st))) = true.
Proof. intros. apply validate_spec. apply session_single_writer; assumption. Qed.

(* ---------- check-then-set: two callers, load / load / spawn+store / spawn+store ---------- *)
Definition w_cts_gsched : list nat := [0; 1; 0; 1]%nat.
Definition w_cts_run : list etype := [ESessionStarted; EOutputTextDelta; ESessionEnded].
Definition w_cts_actors : list (list mstep * N) := session_actors SgCheckThenSet 2 w_cts_gsched 7 w_cts_run.
Definition w_cts_sched : list N := [0; 1; 0; 1; 0; 1].
Definition w_cts_log : log := s_log (run w_cts_sched (spawn w_cts_actors empty_state)).

Lemma w_cts_accepts_two : accepted_n (snd (grun SgCheckThenSet 2 w_cts_gsched)) = 2%nat.
Proof. vm_compute. reflexivity. Qed.
Lemma w_cts_invalid : validate w_cts_log = false.
Proof. vm_compute. reflexivity. Qed.
Lemma w_cts_seqs : map seq w_cts_log = [0; 0; 1; 1; 2; 2].
Proof. vm_compute. reflexivity. Qed.
(* every other hypothesis of session_single_writer holds of the witness *)
Lemma w_cts_hyps : SInv empty_state /\ forallb is_sess w_cts_run = true
  /\ sess_fresh empty_state [(session_prog w_cts_run, 7)] /\ sess_distinct [(session_prog w_cts_run, 7)].
Proof.
  split; [apply empty_sinv|]. split; [reflexivity|]. split.
  - unfold sess_fresh. constructor; [|constructor]. intros _. reflexivity.
  - cbn [sess_distinct]. split; [intros _; constructor|exact I].
Qed.
(* the same two callers, the same schedule, the atomic guard: one run, the stream validates *)
Lemma w_cts_atomic_valid :
  accepted_n (snd (grun SgAtomicRmw 2 w_cts_gsched)) = 1%nat
  /\ validate (s_log (run w_cts_sched (spawn (session_actors SgAtomicRmw 2 w_cts_gsched 7 w_cts_run) empty_state))) = true.
Proof. split; vm_compute; reflexivity. Qed.

(* non-vacuity of session_single_writer: four clients, a thread being created and a task pump next to them *)
Definition w_sg_others : list (list mstep * N) :=
  [(create_prog [], 0); (session_prog [ESessionStarted; ESessionEnded], 9); (task_emit EToolTaskOutputDelta, 5)].
Lemma w_sg_hyps : SInv empty_state /\ forallb is_sess w_cts_run = true /\ progs_wf w_sg_others
  /\ sess_fresh empty_state ((session_prog w_cts_run, 7) :: w_sg_others)
  /\ sess_distinct ((session_prog w_cts_run, 7) :: w_sg_others).
Proof.
  split; [apply empty_sinv|]. split; [reflexivity|]. split.
  - unfold progs_wf, w_sg_others. repeat constructor.
  - split.
    + unfold sess_fresh, w_sg_others. repeat constructor.
    + cbn [sess_distinct w_sg_others]. repeat split; try (intros _); repeat constructor; try (intros _; discriminate);
        try (intros H; discriminate H).
Qed.
Lemma w_sg_log :
  canon_log (s_log (run [0; 1; 1; 2; 0; 3; 3; 3; 3; 3; 0; 2; 1; 1; 1; 1; 1; 1]
                        (spawn (session_actors SESS_GUARD 4 [2; 0; 3; 1; 2]%nat 7 w_cts_run ++ w_sg_others) empty_state)))
  = [0; 0; 0;  1; 0; 0;  0; 1; 1;  2; 0; 34;  0; 2; 2;  1; 1; 2;  3; 0; 3].
Proof. vm_compute. reflexivity. Qed.

(* ---------- the run-local counter ---------- *)
Lemma run_frames_valid_from sid : forall sites l cnt,
  forallb is_sess (map fst sites) = true -> Forall (fun s => snd s = 1) sites ->
  Valid l -> cnt = next_of KSession sid l -> Valid (l ++ run_frames sid cnt sites).
Proof.
  induction sites as [|[t k] r IH]; intros l cnt Hs Hk Hv Hc; cbn [run_frames].
  - rewrite app_nil_r. exact Hv.
  - cbn [map fst forallb] in Hs. apply andb_true_iff in Hs. destruct Hs as [Ht Hs].
    inversion Hk as [|x y Hk1 Hk2]; subst x y. cbn [snd] in Hk1. subst k.
    set (f := {| fid := 0; sid := sid; seq := cnt; ety := t; args := [] |}).
    assert (Hfk : fkind f = KSession) by (apply is_sess_kind; exact Ht).
    replace (l ++ f :: run_frames sid (cnt + 1) r) with ((l ++ [f]) ++ run_frames sid (cnt + 1) r)
      by (rewrite <- app_assoc; reflexivity).
    apply IH; [exact Hs|exact Hk2| |].
    + apply Valid_snoc. split; [exact Hv|]. rewrite Hfk. exact Hc.
    + unfold next_of, nlen in *. rewrite <- Hfk at 1.
      change sid with (Frames.sid f) at 1. rewrite stream_snoc_same, app_length. cbn [length].
      rewrite Hfk. cbn [Frames.sid f]. lia.
Qed.

(* every site increments exactly once => the run's stream is 0,1,2,.. (on a fresh stream, and appended
   to any valid log in which the stream has `cnt` frames) *)
Theorem run_counter_valid sid sites :
  forallb is_sess (map fst sites) = true -> Forall (fun s => snd s = 1) sites ->
  Valid (run_frames sid 0 sites).
Proof.
  intros Hs Hk. apply (run_frames_valid_from sid sites [] 0 Hs Hk Valid_nil). reflexivity.
Qed.

(* ... in particular when every dynamic emission happens at one of the static sites the extractor
   found and all of those increment once *)
Theorem run_counter_valid_static (static : list (N * N)) sid (run : list (etype * N)) :
  sites_ok static = true ->
  forallb is_sess (map fst run) = true ->
  Forall (fun s => In (snd s) (map snd static)) run ->
  Valid (run_frames sid 0 run).
Proof.
  intros Hok Hs Hin. apply run_counter_valid; [exact Hs|].
  unfold sites_ok in Hok. apply andb_true_iff in Hok. destruct Hok as [_ Hall].
  rewrite forallb_forall in Hall. rewrite Forall_forall in *. intros x Hx.
  specialize (Hin x Hx). apply in_map_iff in Hin. destruct Hin as [s [Hs1 Hs2]].
  specialize (Hall s Hs2). apply N.eqb_eq in Hall. congruence.
Qed.

(* all-ones run = the session actor of Model/ContStore.v (MSessEmit: frame at the counter, counter + 1) *)
Lemma run_frames_seqs sid : forall ts cnt,
  map seq (run_frames sid cnt (map (fun t => (t, 1)) ts)) = nseq cnt (length ts).
Proof.
  induction ts as [|t r IH]; intros cnt; cbn [map run_frames nseq length]; [reflexivity|].
  rewrite IH. reflexivity.
Qed.

(* a site without its increment (seeded change C01-3: the provider_event frame of a request that fails
   local validation, then the run's closing frame) *)
Definition w_noinc_run : list (etype * N) := [(ESessionStarted, 1); (EProviderEvent, 0); (ESessionEnded, 1)].
Lemma w_noinc_invalid : validate (run_frames 7 0 w_noinc_run) = false /\ map seq (run_frames 7 0 w_noinc_run) = [0; 1; 1].
Proof. split; vm_compute; reflexivity. Qed.
Lemma w_noinc_fixed_valid : validate (run_frames 7 0 [(ESessionStarted, 1); (EProviderEvent, 1); (ESessionEnded, 1)]) = true.
Proof. vm_compute. reflexivity. Qed.

(* ---------- the actors of every mixed correspondence case meet the hypotheses of the theorem ---------- *)
Lemma wf_prog_of_mop l o : mop_ok cop_ok o = true -> wf_prog (prog_of_mop l o) = true.
Proof.
  destruct o as [c|ts [th|]|th ts]; cbn [mop_ok prog_of_mop]; intros H.
  - apply wf_prog_of_cop. exact H.
  - apply wf_prog_app; [apply wf_session; exact H|apply wf_locked_call; reflexivity].
  - apply wf_session. exact H.
  - apply wf_prog_concat. induction ts as [|t r IH]; cbn [map]; constructor.
    + cbn [forallb] in H. apply andb_true_iff in H. apply wf_locked_call. tauto.
    + apply IH. cbn [forallb] in H. apply andb_true_iff in H. tauto.
Qed.

Lemma mix_from_wf l : forall acts i,
  forallb (forallb (mop_ok cop_ok)) acts = true -> progs_wf (mix_from i l acts).
Proof.
  unfold progs_wf. induction acts as [|ops r IH]; intros i H; cbn [mix_from]; constructor.
  - cbn [forallb] in H. apply andb_true_iff in H. destruct H as [H _]. cbn [fst].
    apply wf_prog_concat. induction ops as [|o os IHo]; cbn [map]; constructor.
    + cbn [forallb] in H. apply andb_true_iff in H. apply wf_prog_of_mop. tauto.
    + apply IHo. cbn [forallb] in H. apply andb_true_iff in H. tauto.
  - apply IH. cbn [forallb] in H. apply andb_true_iff in H. tauto.
Qed.

Lemma mix_from_ge l : forall acts i y, In y (mix_from i l acts) -> MIX_SESS_BASE + i <= snd y.
Proof.
  induction acts as [|ops r IH]; intros i y H; cbn [mix_from] in H; [destruct H|].
  destruct H as [<-|H]; [cbn [snd]; lia|]. apply IH in H. lia.
Qed.

Lemma mix_from_distinct l : forall acts i, sess_distinct (mix_from i l acts).
Proof.
  induction acts as [|ops r IH]; intros i; cbn [mix_from sess_distinct]; [exact I|].
  split; [|apply IH]. intros _. apply Forall_forall. intros y Hy _. apply mix_from_ge in Hy. lia.
Qed.

Theorem mix_actors_ok l acts :
  forallb (forallb (mop_ok cop_ok)) acts = true ->
  progs_wf (mix_actors l acts) /\ sess_distinct (mix_actors l acts).
Proof. intros H. split; [apply mix_from_wf; exact H|apply mix_from_distinct]. Qed.

(* ---------- any number of sessions ---------- *)
Inductive Sub {A} : list A -> list A -> Prop :=
| sub_nil : Sub [] []
| sub_skip a b x : Sub a b -> Sub a (x :: b)
| sub_keep a b x : Sub a b -> Sub (x :: a) (x :: b).

Lemma sub_refl {A} (l : list A) : Sub l l.
Proof. induction l as [|x r IH]; [constructor|apply sub_keep; exact IH]. Qed.

Lemma sub_app {A} (a b c d : list A) : Sub a b -> Sub c d -> Sub (a ++ c) (b ++ d).
Proof.
  intros H1 H2. induction H1 as [|a b x H IH|a b x H IH]; cbn [app];
    [exact H2|apply sub_skip; exact IH|apply sub_keep; exact IH].
Qed.

Lemma sub_forall {A} (P : A -> Prop) (a b : list A) : Sub a b -> Forall P b -> Forall P a.
Proof.
  intros H. induction H as [|a b x H IH|a b x H IH]; intros Hb; [constructor| |].
  - apply IH. apply (Forall_inv_tail Hb).
  - constructor; [apply (Forall_inv Hb)|apply IH; apply (Forall_inv_tail Hb)].
Qed.

Lemma sub_distinct (a b : list (list mstep * N)) : Sub a b -> sess_distinct b -> sess_distinct a.
Proof.
  intros H. induction H as [|a b x H IH|a b x H IH]; intros Hb; [exact I| |].
  - destruct x as [prog s]. cbn [sess_distinct] in Hb. apply IH. apply (proj2 Hb).
  - destruct x as [prog s]. cbn [sess_distinct] in *. destruct Hb as [H1 H2]. split; [|apply IH; exact H2].
    intros Hu. apply (sub_forall _ _ _ H). apply H1. exact Hu.
Qed.

Lemma sessions_sub gk qs : sg_atomic gk = true -> Sub (sessions_actors gk qs) (one_run_each qs).
Proof.
  intros Hk. unfold sessions_actors, one_run_each. induction qs as [|q r IH]; cbn [map concat]; [constructor|].
  unfold session_actors at 1.
  pose proof (atomic_at_most_one gk (sq_n q) (sq_gsched q) Hk) as Hle.
  destruct (accepted_n (snd (grun gk (sq_n q) (sq_gsched q)))) as [|[|k]]; [| |lia]; cbn [runs_of repeat app].
  - apply sub_skip. exact IH.
  - apply sub_keep. exact IH.
Qed.

(* any number of sessions, any number of clients posting input to each of them at the same time, any schedule
   of all guard steps (per session - the flags are independent), next to any other well-formed actors: as
   long as ONE run per session would be fine (fresh, pairwise distinct session streams), whatever is accepted
   keeps every stream in order *)
Theorem sessions_single_writer gk qs others sched st :
  sg_atomic gk = true ->
  SInv st -> Forall (fun q => forallb is_sess (sq_ts q) = true) qs -> progs_wf others ->
  sess_fresh st (one_run_each qs ++ others) -> sess_distinct (one_run_each qs ++ others) ->
  Valid (s_log (run sched (spawn (sessions_actors gk qs ++ others) st))).
Proof.
  intros Hk S Hts Hwf Hsf Hsd.
  assert (Hsub : Sub (sessions_actors gk qs ++ others) (one_run_each qs ++ others))
    by (apply sub_app; [apply sessions_sub; exact Hk|apply sub_refl]).
  apply valid_all_schedules; [exact S| | |].
  - unfold progs_wf. apply (sub_forall _ _ _ Hsub). apply Forall_app. split; [|exact Hwf].
    unfold one_run_each. apply Forall_map. apply (Forall_impl _ (fun q Hq => wf_session (sq_ts q) Hq) Hts).
  - unfold sess_fresh in *. apply (sub_forall _ _ _ Hsub). exact Hsf.
  - apply (sub_distinct _ _ Hsub Hsd).
Qed.

(* non-vacuity: two sessions (3 and 2 clients) next to a thread creation *)
Definition w_qs : list sess_req :=
  [{| sq_sid := 7; sq_ts := w_cts_run; sq_n := 3; sq_gsched := [2; 0; 1; 2]%nat |};
   {| sq_sid := 8; sq_ts := [ESessionStarted; ESessionEnded]; sq_n := 2; sq_gsched := [1; 0]%nat |}].
Lemma w_qs_hyps : SInv empty_state /\ Forall (fun q => forallb is_sess (sq_ts q) = true) w_qs
  /\ progs_wf [(create_prog [], 0)]
  /\ sess_fresh empty_state (one_run_each w_qs ++ [(create_prog [], 0)])
  /\ sess_distinct (one_run_each w_qs ++ [(create_prog [], 0)]).
Proof.
  split; [apply empty_sinv|]. split; [repeat constructor|]. split; [repeat constructor|]. split.
  - unfold sess_fresh. repeat constructor.
  - cbn [sess_distinct one_run_each w_qs map app sq_ts sq_sid]. repeat split; try (intros _); repeat constructor;
      try (intros _; discriminate); try (intros H; discriminate H).
Qed.
Lemma w_qs_log :
  canon_log (s_log (run [0; 1; 0; 1; 0] (spawn (sessions_actors SESS_GUARD w_qs ++ [(create_prog [], 0)]) empty_state)))
  = [0; 0; 0;  1; 0; 0;  0; 1; 1;  1; 1; 2;  0; 2; 2].
Proof. vm_compute. reflexivity. Qed.
