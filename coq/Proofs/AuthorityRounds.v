(* C18 — recovery under a FAIR schedule of several contenders: rounds.
   A round is a piece of schedule in which EVERY contender takes at least one step (any order, any multiplicity).  From every
   all-dead leftover, any number of server loops, every calm schedule (crash-free, dead endpoint unreachable, deadlines not
   passed, 1 s timer expired) made of 16 rounds contains a point at which an authority holds the store.
   Proof: a rank (the minimum, over the contenders, of the number of own steps a contender still needs to reach the next
   event that changes the phase: rename of the leftover lock, exclusive create, record write) that no step increases and every
   round decreases. *)
From RipV Require Import Base.Prelude Model.Authority Proofs.AuthorityInv Proofs.AuthorityLive Proofs.AuthorityFair.

(* ------------------------------------------------------------------ phases and distances *)
Definition meta_is (m : metaf) (p : pid) : bool := match m with MRec x => x =? p | MAbsent => false end.
(* program counters possible while the dead leftover lock l is still at the path *)
Definition phase_pc (l : lockf) (m : metaf) (k : pc) : bool :=
  match l with
  | LRec d => match k with
              | AcqCreate | RdMeta | Ping _ | RdLock => true
              | Live p | StExists p | StReread p | StRename p => p =? d
              | _ => false
              end
  | LHalf _ => match k with
               | AcqCreate | RdMeta | Ping _ | RdLock | CoExists | CoMetaExists | CoRename => true
               | CoRdMeta => match m with MRec _ => true | MAbsent => false end
               | CoLive p => meta_is m p
               | _ => false
               end
  | LAbsent => false
  end.

Definition d_abs (k : pc) : nat :=
  match k with
  | AcqCreate => 0 | RdLock => 1 | Ping _ => 2 | RdMeta => 3 | StMetaRename _ => 1 | StRdMeta _ => 2
  | CoExists => 1 | CoRename => 1 | CoLive _ => 2 | CoRdMeta => 3 | CoMetaExists => 4 | _ => 50
  end.
Definition d_rec (k : pc) : nat :=
  match k with
  | StRename _ => 0 | StReread _ => 1 | StExists _ => 2 | Live _ => 3 | RdLock => 4 | Ping _ => 5 | RdMeta => 6
  | AcqCreate => 7 | _ => 50
  end.
Definition d_half (k : pc) : nat :=
  match k with
  | CoRename => 0 | CoLive _ => 1 | CoRdMeta => 2 | CoMetaExists => 3 | CoExists => 4 | RdLock => 5 | Ping _ => 6
  | RdMeta => 7 | AcqCreate => 8 | _ => 50
  end.
(* own steps to the next phase-changing event; a contender between create and write is one step from the guard *)
Definition rk (l : lockf) (k : pc) : nat :=
  match k with
  | AcqWrite => 0
  | _ => match l with LAbsent => 1 + d_abs k | LRec _ => 6 + d_rec k | LHalf _ => 6 + d_half k end
  end.

Fixpoint minl (l : list nat) : nat :=
  match l with [] => 1000 | x :: r => Nat.min x (minl r) end.
Definition rank (s : state) : nat := minl (map (fun q => rk (s_lock s) (p_pc q)) (s_procs s)).

Definition Ph (s : state) : Prop :=
  lock_free (s_procs s) (s_lock s) -> s_lock s <> LAbsent ->
  forall q, In q (s_procs s) -> phase_pc (s_lock s) (s_meta s) (p_pc q) = true.

(* calm + the 1 s timer has expired *)
Definition fair_ev (e : event) : bool :=
  match e with Step _ o => negb (o_reach o) && negb (o_deadline o) && o_grace o | Crash _ => false end.

(* ------------------------------------------------------------------ one step, the stepping process *)
Lemma micro_phase s o q s' q' :
  plocal q -> o_reach o = false -> o_deadline o = false -> o_grace o = true ->
  lock_free (s_procs s) (s_lock s) -> meta_free (s_procs s) (s_meta s) -> s_lock s <> LAbsent ->
  phase_pc (s_lock s) (s_meta s) (p_pc q) = true ->
  micro true s o q = (s', q') ->
  (s_lock s' = s_lock s /\ s_meta s' = s_meta s /\ phase_pc (s_lock s) (s_meta s) (p_pc q') = true
   /\ (rk (s_lock s) (p_pc q') < rk (s_lock s) (p_pc q))%nat)
  \/ (s_lock s' = LAbsent /\ (rk LAbsent (p_pc q') <= 3)%nat).
Proof.
  intros [Ha Hg Hd Hp] Hr Hdl Hgr Hlf Hmf Hne Hph H.
  destruct s as [l m t ps tl tm]. unfold micro in H. cbn [s_lock s_meta s_tmp s_procs] in *.
  unfold ret, goto, set_files in H. rewrite Hd in H. cbn [s_lock s_meta s_tmp s_procs s_took_lock s_took_meta] in H.
  unfold lock_free, meta_free in *.
  destruct l as [|c|c]; [congruence| |]; pose proof (Hlf c eq_refl) as Hc; cbn [lock_pid] in Hc;
    (destruct m as [|mp]; [|pose proof (Hmf mp eq_refl) as Hmp; cbn [meta_pid] in Hmp]);
    destruct (p_pc q) eqn:Hpc; cbn [phase_pc meta_is] in Hph; try discriminate; eqbs;
    cbn [server_next] in H; unfold grace_fires in H; rewrite ?Hr, ?Hdl, ?Hgr, ?Hc, ?Hmp, ?N.eqb_refl in H;
    cbn [andb orb negb] in H;
    repeat match type of H with context [if ?c then _ else _] => destruct c eqn:? end;
    inversion H; subst; clear H; cbn [s_lock s_meta p_pc];
    first [ left; split; [reflexivity|]; split; [reflexivity|]; split;
            [cbn [phase_pc meta_is]; rewrite ?N.eqb_refl; reflexivity | cbn [rk d_rec d_half]; lia]
          | right; split; [reflexivity | cbn [rk d_abs]; lia] ].
Qed.

Lemma micro_abs s o q s' q' :
  plocal q -> p_pc q <> AcqWrite -> o_reach o = false -> o_deadline o = false -> s_lock s = LAbsent ->
  micro true s o q = (s', q') ->
  (s_lock s' = LAbsent /\ (rk LAbsent (p_pc q') <= rk LAbsent (p_pc q))%nat
   /\ (good_absent (p_pc q) = true -> (rk LAbsent (p_pc q') < rk LAbsent (p_pc q))%nat))
  \/ p_pc q' = AcqWrite.
Proof.
  intros [Ha Hg Hd Hp] Hnw Hr Hdl Hl H.
  destruct s as [l m t ps tl tm]. unfold micro in H. cbn [s_lock s_meta s_tmp s_procs] in *. subst l.
  unfold ret, goto, set_files in H. rewrite Hd in H. cbn [s_lock s_meta s_tmp s_procs s_took_lock s_took_meta] in H.
  destruct (p_pc q) eqn:Hpc; cbn [pre_pc] in Hp; try discriminate; try congruence;
    destruct m as [|mp]; cbn [server_next] in H; rewrite ?Hr, ?Hdl in H;
    repeat match type of H with context [if ?c then _ else _] => destruct c eqn:? end;
    inversion H; subst; clear H; cbn [s_lock p_pc]; rewrite ?Hpc;
    first [ right; reflexivity
          | left; split; [reflexivity|]; split; [cbn [rk d_abs]; lia | cbn [good_absent rk d_abs]; intros; first [lia | discriminate]] ].
Qed.

(* ------------------------------------------------------------------ minima *)
Lemma minl_le_in f (ps : list proc) x : In x ps -> (minl (map f ps) <= f x)%nat.
Proof.
  induction ps as [|y r IH]; intros Hin; [contradiction|]. cbn [map minl].
  destruct Hin as [->|Hin]; [lia|]. specialize (IH Hin). lia.
Qed.
Lemma minl_ge f (ps : list proc) m : (m <= 1000)%nat -> (forall x, In x ps -> (m <= f x)%nat) -> (m <= minl (map f ps))%nat.
Proof.
  intros Hm. induction ps as [|y r IH]; intros H; cbn [map minl]; [exact Hm|].
  pose proof (H y (or_introl eq_refl)). assert (m <= minl (map f r))%nat by (apply IH; intros x Hx; apply H; right; exact Hx). lia.
Qed.
Lemma minl_attained f (ps : list proc) :
  (forall x, (f x <= 1000)%nat) -> ps <> [] -> exists i x, nth_error ps i = Some x /\ f x = minl (map f ps).
Proof.
  intros Hb. induction ps as [|y r IH]; intros Hne; [congruence|]. cbn [map minl].
  destruct r as [|z r'].
  - exists 0%nat, y. split; [reflexivity|]. cbn [map minl]. pose proof (Hb y). lia.
  - destruct (IH ltac:(discriminate)) as [i [x [Hi Hx]]].
    destruct (Nat.le_gt_cases (f y) (minl (map f (z :: r')))) as [Hle|Hgt].
    + exists 0%nat, y. split; [reflexivity|]. lia.
    + exists (S i), x. split; [exact Hi|]. lia.
Qed.

Lemma minl_upd_le f (ps : list proc) i q q' :
  nth_error ps i = Some q -> (f q' <= f q)%nat -> (minl (map f (upd ps i q')) <= minl (map f ps))%nat.
Proof.
  revert i. induction ps as [|y r IH]; intros [|i] Hn Hle; cbn in Hn; try discriminate; cbn [upd map minl].
  - inversion Hn; subst. lia.
  - specialize (IH i Hn Hle). lia.
Qed.

Lemma rk_bound l k : (rk l k <= 1000)%nat.
Proof. destruct k, l; cbn; lia. Qed.
Lemma rk_zero l k : rk l k = 0%nat -> k = AcqWrite.
Proof. destruct k; try reflexivity; destruct l; cbn; lia. Qed.
Lemma rk_pos l k : k <> AcqWrite -> (1 <= rk l k)%nat.
Proof. intros H. destruct k; try congruence; destruct l; cbn; lia. Qed.
Lemma rk_leftover l k : l <> LAbsent -> k <> AcqWrite -> (6 <= rk l k)%nat.
Proof. intros Hl Hk. destruct k; try congruence; destruct l; try congruence; cbn; lia. Qed.
Lemma rk_good k : k <> AcqWrite -> (rk LAbsent k < 50)%nat -> good_absent k = true.
Proof. intros Hk. destruct k; try congruence; cbn; intros; first [reflexivity | lia]. Qed.
Lemma phase_not_write l m k : phase_pc l m k = true -> k <> AcqWrite.
Proof. intros H ->. destruct l; cbn in H; discriminate. Qed.

Lemma micro_create s o q s' q' :
  plocal q -> p_pc q <> AcqWrite -> micro true s o q = (s', q') -> p_pc q' = AcqWrite ->
  s_lock s' = LHalf (p_pid q).
Proof.
  intros [Ha Hg Hd Hp] Hnw H Hw.
  destruct s as [l m t ps tl tm]. unfold micro in H. cbn [s_lock s_meta s_tmp s_procs] in *.
  unfold ret, goto, set_files in H. rewrite Hd in H. cbn [s_lock s_meta s_tmp s_procs s_took_lock s_took_meta] in H.
  destruct (p_pc q) eqn:Hpc; cbn [pre_pc] in Hp; try discriminate; try congruence;
    destruct l as [|c|c]; destruct m as [|mp]; cbn [server_next] in H;
    repeat match type of H with context [if ?c then _ else _] => destruct c eqn:? end;
    inversion H; subst; clear H; cbn [p_pc s_lock] in *; try discriminate; try congruence; reflexivity.
Qed.

Definition K (s : state) : Prop := J s /\ Ph s.

Lemma rank_le_in s x : In x (s_procs s) -> (rank s <= rk (s_lock s) (p_pc x))%nat.
Proof. intros H. unfold rank. apply (minl_le_in (fun q => rk (s_lock s) (p_pc q))). exact H. Qed.

(* ------------------------------------------------------------------ one step of the system *)
Lemma step_K s i o q :
  K s -> o_reach o = false -> o_deadline o = false -> o_grace o = true ->
  nth_error (s_procs s) i = Some q ->
  holders (step true s (Step i o)) <> []
  \/ (K (step true s (Step i o))
      /\ (rank (step true s (Step i o)) <= rank s)%nat
      /\ ((rk (s_lock s) (p_pc q) < 50)%nat -> (rank (step true s (Step i o)) < rk (s_lock s) (p_pc q))%nat)
      /\ (rank s = 0%nat \/ (rank (step true s (Step i o)) < rank s)%nat
          \/ s_lock (step true s (Step i o)) = s_lock s)
      /\ (forall j x, j <> i -> nth_error (s_procs s) j = Some x ->
            nth_error (s_procs (step true s (Step i o))) j = Some x)).
Proof.
  intros [Hj Hph] Hr Hdl Hgr Hq.
  destruct (step_J s i o Hj Hr Hdl) as [Hj'|Hh]; [|left; exact Hh].
  assert (Hinq : In q (s_procs s)) by (eapply nth_error_In; exact Hq).
  pose proof (J_procs _ Hj q Hinq) as Hpl.
  destruct (pc_eq_dec_acqwrite (p_pc q)) as [Hw|Hnw].
  { (* cannot happen on this branch: the step of a process at AcqWrite produces a holder; redo it *)
    left. cbn [step]. rewrite Hq, (PL_alive _ Hpl).
    destruct (micro true s o q) as [s1 q1] eqn:HM.
    unfold micro in HM. rewrite Hw in HM. unfold ret in HM. rewrite (PL_drv _ Hpl) in HM.
    inversion HM; subst q1. eapply holders_guard.
    - cbn [with_procs s_procs]. eapply in_upd_self. exact Hq.
    - cbn [p_alive]. apply (PL_alive _ Hpl).
    - reflexivity. }
  right.
  revert Hj'. cbn [step]. rewrite Hq, (PL_alive _ Hpl).
  destruct (micro true s o q) as [s1 q1] eqn:HM. intros Hj'.
  destruct (micro_basic _ _ _ _ _ _ HM) as [Epid [Eal Eps]].
  destruct (micro_pre s o q s1 q1 Hpl Hnw Hr Hdl HM) as [Hpl1 [Hmeta [Hlock _]]].
  set (s' := with_procs s1 (upd (s_procs s) i q1)) in *.
  assert (Hps' : s_procs s' = upd (s_procs s) i q1) by reflexivity.
  assert (Hl' : s_lock s' = s_lock s1) by reflexivity.
  assert (Hm' : s_meta s' = s_meta s1) by reflexivity.
  assert (Hq1 : In q1 (s_procs s')) by (rewrite Hps'; eapply in_upd_self; exact Hq).
  assert (Hal : forall p, pid_alive (s_procs s') p = pid_alive (s_procs s) p).
  { intros p. rewrite Hps'. apply (pid_alive_upd_eq _ _ _ _ _ Hq Epid Eal). }
  assert (Hoth : forall j x, j <> i -> nth_error (s_procs s) j = Some x -> nth_error (s_procs s') j = Some x).
  { intros j x Hne Hx. rewrite Hps', upd_nth. destruct (Nat.eqb i j) eqn:E; [apply Nat.eqb_eq in E; congruence | exact Hx]. }
  assert (Hrk0 : (1 <= rk (s_lock s) (p_pc q))%nat) by (apply rk_pos; exact Hnw).
  (* the phase invariant is kept *)
  assert (HPh' : Ph s').
  { intros Hlf' Hne' x Hx.
    destruct Hlock as [Hsame | [[Habs Hcw] | [_ [Hnew _]]]].
    - rewrite Hl', Hsame in *. 
      assert (Hlf : lock_free (s_procs s) (s_lock s)) by (intros p Hp; rewrite <- Hal; apply Hlf'; exact Hp).
      pose proof (Hph Hlf Hne') as Hall.
      destruct (micro_phase s o q s1 q1 Hpl Hr Hdl Hgr Hlf (J_meta _ Hj) Hne' (Hall q Hinq) HM)
        as [[_ [Hms [Hp1 _]]] | [Habs _]]; [|congruence].
      rewrite Hm', Hms. rewrite Hps' in Hx. destruct (in_upd_cases _ _ _ _ _ Hq Hx) as [->|Hin]; [exact Hp1 | apply Hall; exact Hin].
    - exfalso. rewrite Hl', (micro_create s o q s1 q1 Hpl Hnw HM Hcw) in Hlf'.
      specialize (Hlf' (p_pid q) eq_refl). rewrite Hal in Hlf'.
      rewrite (pid_alive_self _ q Hinq (PL_alive _ Hpl)) in Hlf'. discriminate.
    - congruence. }
  split; [split; assumption|].
  destruct (Nat.eq_dec (rank s) 0) as [Hz|Hnz].
  - (* somebody is between create and write, and it is not the stepping process: it stays there *)
    assert (Hne : s_procs s <> []) by (intros E; rewrite E in Hinq; contradiction).
    destruct (minl_attained (fun x => rk (s_lock s) (p_pc x)) (s_procs s) (fun x => rk_bound _ _) Hne) as [j [x [Hx Hmin]]].
    fold (rank s) in Hmin. rewrite Hz in Hmin. apply rk_zero in Hmin.
    assert (Hji : j <> i) by (intros ->; congruence).
    assert (Hx' : In x (s_procs s')) by (eapply nth_error_In; apply (Hoth j x Hji Hx)).
    assert (Hr0 : rank s' = 0%nat).
    { pose proof (rank_le_in s' x Hx') as Hle. rewrite Hmin in Hle. cbn [rk] in Hle. lia. }
    split; [lia|]. split; [intros _; lia|]. split; [left; exact Hz | exact Hoth].
  - (* nobody is between create and write *)
    assert (HnoW : forall x, In x (s_procs s) -> p_pc x <> AcqWrite).
    { intros x Hx Hw. pose proof (rank_le_in s x Hx) as Hle. rewrite Hw in Hle. cbn [rk] in Hle. lia. }
    destruct (J_good _ Hj) as [[w [Hw Hwpc]] | [[Hlf [Hne [Hnn _]]] | [Hla _]]].
    + exfalso. exact (HnoW w Hw Hwpc).
    + (* the dead leftover is at the path *)
      pose proof (Hph Hlf Hne) as Hall.
      assert (Hr6 : (6 <= rank s)%nat).
      { unfold rank. apply minl_ge; [lia|]. intros x Hx. apply rk_leftover; [exact Hne | apply HnoW; exact Hx]. }
      destruct (micro_phase s o q s1 q1 Hpl Hr Hdl Hgr Hlf (J_meta _ Hj) Hne (Hall q Hinq) HM)
        as [[Hls [Hms [Hp1 Hlt]]] | [Habs Hle3]].
      * assert (Hle : (rank s' <= rank s)%nat).
        { unfold rank. rewrite Hl', Hls, Hps'. apply (minl_upd_le (fun x => rk (s_lock s) (p_pc x)) _ _ q q1 Hq). lia. }
        split; [exact Hle|]. split.
        -- intros _. pose proof (rank_le_in s' q1 Hq1) as H1. rewrite Hl', Hls in H1. lia.
        -- split; [right; right; rewrite Hl'; exact Hls | exact Hoth].
      * pose proof (rank_le_in s' q1 Hq1) as H1. rewrite Hl', Habs in H1.
        pose proof (rk_leftover (s_lock s) (p_pc q) Hne Hnw).
        split; [lia|]. split; [intros _; lia|]. split; [right; left; lia | exact Hoth].
    + (* no lock at the path *)
      destruct (micro_abs s o q s1 q1 Hpl Hnw Hr Hdl Hla HM) as [[Hls [Hle Hlt]] | Hcw].
      * assert (Hle' : (rank s' <= rank s)%nat).
        { unfold rank. rewrite Hl', Hls, Hla, Hps'. apply (minl_upd_le (fun x => rk LAbsent (p_pc x)) _ _ q q1 Hq). exact Hle. }
        split; [exact Hle'|]. split.
        -- rewrite Hla. intros H50. pose proof (rank_le_in s' q1 Hq1) as H1. rewrite Hl', Hls in H1.
           specialize (Hlt (rk_good _ Hnw H50)). lia.
        -- split; [right; right; rewrite Hl', Hls, Hla; reflexivity | exact Hoth].
      * pose proof (rank_le_in s' q1 Hq1) as H1. rewrite Hcw in H1. cbn [rk] in H1.
        split; [lia|]. split; [intros _; lia|]. split; [right; left; lia | exact Hoth].
Qed.

(* ------------------------------------------------------------------ schedules *)
Definition fair (r : list event) : bool := forallb fair_ev r.

Lemma fair_ev_bits e : fair_ev e = true ->
  exists i o, e = Step i o /\ o_reach o = false /\ o_deadline o = false /\ o_grace o = true.
Proof.
  destruct e as [i o|i]; cbn [fair_ev]; [|discriminate]. intros H.
  apply andb_true_iff in H. destruct H as [H Hg]. apply andb_true_iff in H. destruct H as [Hr Hd].
  apply negb_true_iff in Hr, Hd. exists i, o. auto.
Qed.

Lemma step_none s i o : nth_error (s_procs s) i = None -> step true s (Step i o) = s.
Proof. intros H. cbn [step]. rewrite H. reflexivity. Qed.

Lemma run_cons ag s e r : run ag s (e :: r) = run ag (step ag s e) r.
Proof. reflexivity. Qed.

Lemma prefix_cons {A} (e : A) (r r1 r2 : list A) : r = r1 ++ r2 -> e :: r = (e :: r1) ++ r2.
Proof. intros ->. reflexivity. Qed.

(* no step increases the rank *)
Lemma mono r : forall s, K s -> fair r = true ->
  (exists r1 r2, r = r1 ++ r2 /\ holders (run true s r1) <> [])
  \/ (K (run true s r) /\ (rank (run true s r) <= rank s)%nat).
Proof.
  induction r as [|e r IH]; intros s Hk Hf; [right; split; [exact Hk | cbn; lia]|].
  cbn [fair forallb] in Hf. apply andb_true_iff in Hf. destruct Hf as [He Hf].
  destruct (fair_ev_bits e He) as [i [o [-> [Hr [Hd Hg]]]]]. rewrite run_cons.
  destruct (nth_error (s_procs s) i) as [q|] eqn:Hq.
  - destruct (step_K s i o q Hk Hr Hd Hg Hq) as [Hh | [Hk' [Hle _]]].
    + left. exists [Step i o], r. split; [reflexivity | exact Hh].
    + destruct (IH _ Hk' Hf) as [[r1 [r2 [E Hh]]] | [Hk2 Hle2]].
      * left. exists (Step i o :: r1), r2. split; [apply prefix_cons; exact E | exact Hh].
      * right. split; [exact Hk2 | lia].
  - rewrite (step_none s i o Hq). destruct (IH _ Hk Hf) as [[r1 [r2 [E Hh]]] | H]; [|right; exact H].
    left. exists (Step i o :: r1), r2. split; [apply prefix_cons; exact E|].
    rewrite run_cons, (step_none s i o Hq). exact Hh.
Qed.

(* follow one contender through a piece of schedule *)
Lemma track r : forall s, K s -> forall i0 x0 r0,
  nth_error (s_procs s) i0 = Some x0 -> (rk (s_lock s) (p_pc x0) <= r0)%nat -> (r0 < 50)%nat -> (rank s <= r0)%nat ->
  fair r = true ->
  (exists r1 r2, r = r1 ++ r2 /\ holders (run true s r1) <> [])
  \/ (K (run true s r) /\ (rank (run true s r) <= r0)%nat
      /\ ((rank (run true s r) < r0)%nat \/ (forall o, ~ In (Step i0 o) r))).
Proof.
  induction r as [|e r IH]; intros s Hk i0 x0 r0 Hx Hv H50 Hrk Hf.
  { right. split; [exact Hk|]. split; [exact Hrk|]. right. intros o []. }
  cbn [fair forallb] in Hf. apply andb_true_iff in Hf. destruct Hf as [He Hf].
  destruct (fair_ev_bits e He) as [i [o [-> [Hr [Hd Hg]]]]]. rewrite run_cons.
  destruct (nth_error (s_procs s) i) as [q|] eqn:Hq.
  - destruct (step_K s i o q Hk Hr Hd Hg Hq) as [Hh | [Hk' [Hle [Hown [Ht2 Hoth]]]]].
    { left. exists [Step i o], r. split; [reflexivity | exact Hh]. }
    set (s' := step true s (Step i o)) in *.
    assert (Hstrict : (rank s' < r0)%nat ->
              (exists r1 r2, Step i o :: r = r1 ++ r2 /\ holders (run true s r1) <> [])
              \/ (K (run true s' r) /\ (rank (run true s' r) <= r0)%nat
                  /\ ((rank (run true s' r) < r0)%nat \/ (forall o', ~ In (Step i0 o') (Step i o :: r))))).
    { intros Hlt. destruct (mono r s' Hk' Hf) as [[r1 [r2 [E Hh]]] | [Hk2 Hle2]].
      - left. exists (Step i o :: r1), r2. split; [apply prefix_cons; exact E | exact Hh].
      - right. split; [exact Hk2|]. split; [lia | left; lia]. }
    destruct (Nat.eq_dec i i0) as [->|Hne].
    + (* the followed contender steps *)
      rewrite Hx in Hq. inversion Hq; subst q. apply Hstrict. specialize (Hown ltac:(lia)). lia.
    + pose proof (Hoth i0 x0 ltac:(congruence) Hx) as Hx'.
      destruct (Nat.eq_dec r0 0) as [Hz|Hnz].
      * (* it is between create and write: one step from the guard whatever the others do *)
        assert (Hw : p_pc x0 = AcqWrite) by (apply (rk_zero (s_lock s)); lia).
        destruct (IH s' Hk' i0 x0 r0 Hx' ltac:(rewrite Hw; cbn [rk]; lia) H50 ltac:(lia) Hf)
          as [[r1 [r2 [E Hh]]] | [Hk2 [Hle2 Hor]]].
        -- left. exists (Step i o :: r1), r2. split; [apply prefix_cons; exact E | exact Hh].
        -- right. split; [exact Hk2|]. split; [exact Hle2|].
           destruct Hor as [Hlt|Hnot]; [left; exact Hlt|]. right. intros o' [E|Hin]; [inversion E; congruence | exact (Hnot o' Hin)].
      * destruct Ht2 as [Hz | [Hlt | Hsame]].
        -- apply Hstrict. lia.
        -- apply Hstrict. lia.
        -- destruct (IH s' Hk' i0 x0 r0 Hx' ltac:(rewrite Hsame; exact Hv) H50 ltac:(lia) Hf)
             as [[r1 [r2 [E Hh]]] | [Hk2 [Hle2 Hor]]].
           ++ left. exists (Step i o :: r1), r2. split; [apply prefix_cons; exact E | exact Hh].
           ++ right. split; [exact Hk2|]. split; [exact Hle2|].
              destruct Hor as [Hlt|Hnot]; [left; exact Hlt|]. right. intros o' [E|Hin]; [inversion E; congruence | exact (Hnot o' Hin)].
  - rewrite (step_none s i o Hq).
    destruct (IH s Hk i0 x0 r0 Hx Hv H50 Hrk Hf) as [[r1 [r2 [E Hh]]] | [Hk2 [Hle2 Hor]]].
    + left. exists (Step i o :: r1), r2. split; [apply prefix_cons; exact E|]. rewrite run_cons, (step_none s i o Hq). exact Hh.
    + right. split; [exact Hk2|]. split; [exact Hle2|].
      destruct Hor as [Hlt|Hnot]; [left; exact Hlt|]. right. intros o' [E|Hin]; [|exact (Hnot o' Hin)].
      inversion E; subst. congruence.
Qed.

(* every contender steps at least once *)
Definition covers (n : nat) (r : list event) : Prop := forall j, (j < n)%nat -> exists o, In (Step j o) r.

Lemma K_rank_small s : K s -> (rank s < 50)%nat.
Proof.
  intros [Hj Hph]. destruct (J_good _ Hj) as [[w [Hw Hwpc]] | [[Hlf [Hne [Hnn _]]] | [Hla [w [Hw Hg]]]]].
  - pose proof (rank_le_in s w Hw) as H. rewrite Hwpc in H. cbn [rk] in H. lia.
  - destruct (s_procs s) as [|w r] eqn:E; [congruence|].
    assert (Hw : In w (s_procs s)) by (rewrite E; left; reflexivity).
    pose proof (rank_le_in s w Hw) as H.
    assert (Hp : phase_pc (s_lock s) (s_meta s) (p_pc w) = true) by (apply Hph; [rewrite E; exact Hlf | exact Hne | exact Hw]).
    revert H Hp. destruct (s_lock s); destruct (p_pc w); cbn; intros; try discriminate; lia.
  - pose proof (rank_le_in s w Hw) as H. rewrite Hla in H. revert H Hg. destruct (p_pc w); cbn; intros; try discriminate; lia.
Qed.

Lemma step_length s e : length (s_procs (step true s e)) = length (s_procs s).
Proof.
  assert (Hu : forall (l : list proc) i x, length (upd l i x) = length l).
  { induction l as [|y l IH]; intros [|i] x; cbn; auto. }
  destruct e as [i o|i]; cbn [step]; destruct (nth_error (s_procs s) i) as [q|]; try reflexivity.
  - destruct (p_alive q); [|reflexivity]. destruct (micro true s o q) as [s1 q1] eqn:HM.
    destruct (micro_basic _ _ _ _ _ _ HM) as [_ [_ E]]. cbn [with_procs s_procs]. apply Hu.
  - cbn [with_procs s_procs]. apply Hu.
Qed.
Lemma run_length r : forall s, length (s_procs (run true s r)) = length (s_procs s).
Proof. induction r as [|e r IH]; intros s; [reflexivity|]. rewrite run_cons, IH. apply step_length. Qed.

(* a round decreases the rank *)
Lemma round_progress s r :
  K s -> fair r = true -> covers (length (s_procs s)) r ->
  (exists r1 r2, r = r1 ++ r2 /\ holders (run true s r1) <> [])
  \/ (K (run true s r) /\ (rank (run true s r) < rank s)%nat).
Proof.
  intros Hk Hf Hc.
  assert (Hne : s_procs s <> []).
  { destruct Hk as [Hj _]. destruct (J_good _ Hj) as [[w [Hw _]] | [[_ [_ [Hnn _]]] | [_ [w [Hw _]]]]]; try exact Hnn;
      intros E; rewrite E in Hw; contradiction. }
  destruct (minl_attained (fun x => rk (s_lock s) (p_pc x)) (s_procs s) (fun x => rk_bound _ _) Hne) as [i0 [x0 [Hx Hmin]]].
  fold (rank s) in Hmin.
  destruct (track r s Hk i0 x0 (rank s) Hx ltac:(lia) (K_rank_small s Hk) ltac:(lia) Hf)
    as [H | [Hk' [Hle [Hlt | Hnot]]]]; [left; exact H | right; split; assumption |].
  exfalso. assert (Hi : (i0 < length (s_procs s))%nat) by (apply nth_error_Some; congruence).
  destruct (Hc i0 Hi) as [o Ho]. exact (Hnot o Ho).
Qed.

Inductive rounds_of (n : nat) : list (list event) -> Prop :=
 | rounds_nil : rounds_of n []
 | rounds_cons r rs : fair r = true -> covers n r -> rounds_of n rs -> rounds_of n (r :: rs).

Lemma rounds_progress rs : forall s,
  K s -> rounds_of (length (s_procs s)) rs ->
  (exists r1 r2, concat rs = r1 ++ r2 /\ holders (run true s r1) <> [])
  \/ (K (run true s (concat rs)) /\ (rank (run true s (concat rs)) + length rs <= rank s)%nat).
Proof.
  induction rs as [|r rs IH]; intros s Hk Hrs; [right; split; [exact Hk | cbn; lia]|].
  inversion Hrs as [|r' rs' Hf Hc Hrest]; subst. cbn [concat]. rewrite run_app.
  destruct (round_progress s r Hk Hf Hc) as [[r1 [r2 [E Hh]]] | [Hk' Hlt]].
  - left. exists r1, (r2 ++ concat rs). split; [rewrite E, app_assoc; reflexivity | exact Hh].
  - destruct (IH (run true s r) Hk' ltac:(rewrite run_length; exact Hrest)) as [[r1 [r2 [E Hh]]] | [Hk2 Hle]].
    + left. exists (r ++ r1), r2. split; [rewrite E, app_assoc; reflexivity | rewrite run_app; exact Hh].
    + right. split; [exact Hk2 | cbn [length]; lia].
Qed.

Lemma init_K l m ps : servers ps -> dead_leftover ps l m -> K (init l m ps) /\ (rank (init l m ps) <= 14)%nat.
Proof.
  intros [Hne Hall] Hd. split; [split|].
  - apply init_J; assumption.
  - intros _ Hnz q Hq. cbn [init s_procs s_lock s_meta] in *. rewrite (Hall q Hq).
    destruct l; [congruence | reflexivity | reflexivity].
  - destruct ps as [|q0 r]; [congruence|].
    pose proof (rank_le_in (init l m (q0 :: r)) q0 (or_introl eq_refl)) as H.
    assert (Hpc : p_pc q0 = AcqCreate) by (rewrite (Hall q0 (or_introl eq_refl)); reflexivity).
    cbn [init s_lock] in H. rewrite Hpc in H. revert H. destruct l; cbn [rk d_abs d_rec d_half]; lia.
Qed.

(* ---- the fairness theorem: 15 rounds suffice *)
Theorem recovers_under_fair_rounds l m ps rs :
  servers ps -> dead_leftover ps l m -> rounds_of (length ps) rs -> (15 <= length rs)%nat ->
  exists es1 es2, concat rs = es1 ++ es2 /\ holders (run true (init l m ps) es1) <> [].
Proof.
  intros Hs Hd Hrs Hlen. destruct (init_K l m ps Hs Hd) as [Hk H14].
  destruct (rounds_progress rs (init l m ps) Hk Hrs) as [H | [_ Hle]]; [exact H | lia].
Qed.

(* non-vacuity (and how tight 15 is): two server loops in strict round robin from the stale lock + stale meta of a dead
   authority: 15 rounds are a fair schedule; no authority after 11 rounds, one after 12 *)
Definition rr_round : list event := [Step 0%nat 2; Step 1%nat 2].
Lemma fair_rounds_example :
  servers fair_two /\ dead_leftover fair_two (LRec 900) (MRec 900)
  /\ rounds_of (length fair_two) (repeat rr_round 15) /\ (15 <= length (repeat rr_round 15))%nat
  /\ holders (run true (init (LRec 900) (MRec 900) fair_two) (concat (repeat rr_round 11))) = []
  /\ holders (run true (init (LRec 900) (MRec 900) fair_two) (concat (repeat rr_round 12))) = [1].
Proof.
  split; [split; [discriminate | intros q [<-|[<-|[]]]; reflexivity]|].
  split; [split; intros p Hp; inversion Hp; subst; vm_compute; reflexivity|].
  split.
  - assert (Hr : fair rr_round = true /\ covers 2 rr_round).
    { split; [vm_compute; reflexivity|]. intros j Hj. exists 2.
      destruct j as [|[|j]]; [left; reflexivity | right; left; reflexivity | lia]. }
    destruct Hr as [Hf Hc]. cbn [length fair_two repeat].
    repeat (apply rounds_cons; [exact Hf | exact Hc |]). apply rounds_nil.
  - split; [cbn; lia|]. split; vm_compute; reflexivity.
Qed.
