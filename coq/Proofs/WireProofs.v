(* C03 — proofs about the schema-driven frame codec of Model/Wire.v, for EVERY well-formed schema:
     decode_event s (encode_event s e) = Some (canon_event s e)            (wf_schema s, wt_event s e)
     encode_event s (canon_event s e) = encode_event s e                   (wire_event s e)
     canon_event s e = e                                                   (exact_event s e)
   and their text-level forms through Base/Json.v's printers and Base/JsonParse.v's parser (line form and
   pretty snapshot form).  The schema of today's source (Gen/EventSchema.v) satisfies wf_schema by a generated
   obligation. *)
From RipV Require Import Base.Prelude Base.Json Base.JsonParse Model.Wire Proofs.JsonProofs.
From Coq Require DecimalN DecimalPos Decimal DecimalFacts.

(* ================= strings, membership ================= *)
Lemma str_eqb_refl a : str_eqb a a = true.
Proof. apply str_eqb_spec. reflexivity. Qed.

Lemma str_eqb_false a b : str_eqb a b = false <-> a <> b.
Proof.
  split.
  - intros H E. apply str_eqb_spec in E. congruence.
  - intros H. destruct (str_eqb a b) eqn:E; [apply str_eqb_spec in E; contradiction | reflexivity].
Qed.

Lemma mem_str_In s l : mem_str s l = true <-> In s l.
Proof.
  unfold mem_str. rewrite existsb_exists. split.
  - intros [x [Hin E]]. apply str_eqb_spec in E. subst. exact Hin.
  - intros Hin. exists s. split; [exact Hin | apply str_eqb_refl].
Qed.

Lemma mem_str_false s l : mem_str s l = false <-> ~ In s l.
Proof.
  split.
  - intros H Hin. apply mem_str_In in Hin. congruence.
  - intros H. destruct (mem_str s l) eqn:E; [apply mem_str_In in E; contradiction | reflexivity].
Qed.

Lemma nodup_str_NoDup l : nodup_str l = true <-> NoDup l.
Proof.
  induction l as [|x l IH]; cbn [nodup_str].
  - split; [constructor | reflexivity].
  - rewrite andb_true_iff, negb_true_iff, mem_str_false, IH. split.
    + intros [H1 H2]. constructor; assumption.
    + intros H. inversion H. auto.
Qed.

Lemma NoDup_app_inv {A} (a b : list A) :
  NoDup (a ++ b) -> NoDup a /\ NoDup b /\ (forall x, In x a -> ~ In x b).
Proof.
  induction a as [|x a IH]; cbn [app].
  - intros H. repeat split; [constructor | exact H | intros x []].
  - intros H. inversion H as [|? ? Hx Hnd]; subst. destruct (IH Hnd) as [Ha [Hb Hd]]. repeat split.
    + constructor; [intros Hin; apply Hx, in_or_app; left; exact Hin | exact Ha].
    + exact Hb.
    + intros y [<- | Hy]; [intros Hin; apply Hx, in_or_app; right; exact Hin | apply Hd; exact Hy].
Qed.

Lemma disjoint_str_spec a b : disjoint_str a b = true <-> (forall x, In x a -> ~ In x b).
Proof.
  unfold disjoint_str. rewrite forallb_forall. split.
  - intros H x Hx. apply mem_str_false. apply negb_true_iff. apply H. exact Hx.
  - intros H x Hx. apply negb_true_iff. apply mem_str_false. apply H. exact Hx.
Qed.

(* ================= decimal integers ================= *)
Lemma str_to_uint_to_str d : str_to_uint (uint_to_str d) = Some d.
Proof. induction d as [|d IH|d IH|d IH|d IH|d IH|d IH|d IH|d IH|d IH|d IH]; cbn [uint_to_str str_to_uint]; try rewrite IH; reflexivity. Qed.

Lemma parse_unsigned_dec max n : n <= max -> parse_unsigned max (dec n) = Some n.
Proof.
  intros H. unfold parse_unsigned, dec. rewrite str_to_uint_to_str. cbn zeta.
  rewrite DecimalN.Unsigned.of_to. rewrite str_eqb_refl. cbn [andb].
  destruct (n <=? max) eqn:E; [reflexivity | lia].
Qed.

Lemma uint_to_str_head d : d <> Decimal.Nil -> exists c r, uint_to_str d = c :: r /\ is_digit c = true.
Proof. destruct d; intros H; try congruence; cbn [uint_to_str]; eexists; eexists; (split; [reflexivity | reflexivity]). Qed.

Lemma to_uint_nonnil n : N.to_uint n <> Decimal.Nil.
Proof. destruct n as [|p]; cbn; [discriminate | apply DecimalPos.Unsigned.to_uint_nonnil]. Qed.

Lemma dec_head n : exists c r, dec n = c :: r /\ is_digit c = true.
Proof. apply uint_to_str_head, to_uint_nonnil. Qed.

Lemma is_digit_not_minus c : is_digit c = true -> (c =? cMINUS) = false.
Proof. unfold is_digit, cMINUS. intros H. lia. Qed.

Lemma parse_signed_decz z : (I32MIN <= z <= I32MAX)%Z -> parse_signed I32MIN I32MAX (decz z) = Some z.
Proof.
  unfold I32MIN, I32MAX. intros H. unfold decz. destruct (z <? 0)%Z eqn:Ez.
  - unfold parse_signed. replace (cMINUS =? cMINUS) with true by reflexivity.
    rewrite parse_unsigned_dec by lia.
    destruct (Z.to_N (- z) =? 0) eqn:E0; [lia|].
    rewrite Z2N.id by lia. rewrite Z.opp_involutive.
    destruct (-2147483648 <=? z)%Z eqn:El; [reflexivity | lia].
  - destruct (dec_head (Z.to_N z)) as [c [r [Ed Hc]]]. unfold parse_signed. rewrite Ed.
    rewrite (is_digit_not_minus c Hc). rewrite <- Ed. rewrite parse_unsigned_dec by (unfold U64MAX; lia).
    rewrite Z2N.id by lia. destruct (z <=? 2147483647)%Z eqn:El; [reflexivity | lia].
Qed.

(* the tokens the writer produces for integers are JSON numbers *)
Lemma all_digits_uint d : all_digits (uint_to_str d) = true.
Proof. induction d; cbn [uint_to_str all_digits]; try rewrite IHd; reflexivity. Qed.

Lemma span_digits_all l : all_digits l = true -> span_digits l = (l, []).
Proof.
  induction l as [|c l IH]; cbn [all_digits span_digits]; [reflexivity|].
  intros H. apply andb_true_iff in H. destruct H as [Hc Hl]. rewrite Hc, (IH Hl). reflexivity.
Qed.

Lemma to_uint_unorm n : Decimal.unorm (N.to_uint n) = N.to_uint n.
Proof. rewrite <- (DecimalN.Unsigned.of_to n) at 2. rewrite DecimalN.Unsigned.to_of. reflexivity. Qed.

Lemma num_ok_uint d : Decimal.unorm d = d -> num_ok (uint_to_str d) = true.
Proof.
  intros Hn. unfold num_ok.
  assert (Hm : match uint_to_str d with c :: r => if c =? cMINUS then r else uint_to_str d | [] => uint_to_str d end
               = uint_to_str d).
  { destruct d; cbn [uint_to_str]; reflexivity. }
  rewrite Hm. rewrite (span_digits_all _ (all_digits_uint d)). rewrite andb_true_r.
  unfold Decimal.unorm in Hn. destruct (Decimal.nzhead d) eqn:En.
  - rewrite <- Hn. reflexivity.
  - exfalso. exact (DecimalFacts.nzhead_nonzero d u En).
  - rewrite <- Hn. cbn [uint_to_str int_part_ok]. destruct (uint_to_str u); reflexivity.
  - rewrite <- Hn. cbn [uint_to_str int_part_ok]. destruct (uint_to_str u); reflexivity.
  - rewrite <- Hn. cbn [uint_to_str int_part_ok]. destruct (uint_to_str u); reflexivity.
  - rewrite <- Hn. cbn [uint_to_str int_part_ok]. destruct (uint_to_str u); reflexivity.
  - rewrite <- Hn. cbn [uint_to_str int_part_ok]. destruct (uint_to_str u); reflexivity.
  - rewrite <- Hn. cbn [uint_to_str int_part_ok]. destruct (uint_to_str u); reflexivity.
  - rewrite <- Hn. cbn [uint_to_str int_part_ok]. destruct (uint_to_str u); reflexivity.
  - rewrite <- Hn. cbn [uint_to_str int_part_ok]. destruct (uint_to_str u); reflexivity.
  - rewrite <- Hn. cbn [uint_to_str int_part_ok]. destruct (uint_to_str u); reflexivity.
Qed.

Lemma num_ok_dec n : num_ok (dec n) = true.
Proof. apply num_ok_uint, to_uint_unorm. Qed.

Lemma num_ok_minus t : num_ok t = true -> (exists c r, t = c :: r /\ is_digit c = true) -> num_ok (cMINUS :: t) = true.
Proof.
  intros H [c [r [-> Hc]]]. unfold num_ok in *. replace (cMINUS =? cMINUS) with true by reflexivity.
  rewrite (is_digit_not_minus c Hc) in H. exact H.
Qed.

Lemma num_ok_decz z : num_ok (decz z) = true.
Proof.
  unfold decz. destruct (z <? 0)%Z.
  - apply num_ok_minus; [apply num_ok_dec | apply dec_head].
  - apply num_ok_dec.
Qed.

(* ================= nested induction over field types ================= *)
Fixpoint ty_ind' (P : ty -> Prop)
  (HStr : P TStr) (HU64 : P TU64) (HU32 : P TU32) (HU16 : P TU16) (HI32 : P TI32) (HBool : P TBool) (HVal : P TVal)
  (HOpt : forall t, P t -> P (TOpt t)) (HVec : forall t, P t -> P (TVec t)) (HEnum : forall tags, P (TEnum tags))
  (HStruct : forall fs, Forall (fun f => P (snd f)) fs -> P (TStruct fs)) (HUnk : P TUnknown)
  (t : ty) {struct t} : P t :=
  match t with
  | TStr => HStr | TU64 => HU64 | TU32 => HU32 | TU16 => HU16 | TI32 => HI32 | TBool => HBool | TVal => HVal
  | TOpt t' => HOpt t' (ty_ind' P HStr HU64 HU32 HU16 HI32 HBool HVal HOpt HVec HEnum HStruct HUnk t')
  | TVec t' => HVec t' (ty_ind' P HStr HU64 HU32 HU16 HI32 HBool HVal HOpt HVec HEnum HStruct HUnk t')
  | TEnum tags => HEnum tags
  | TStruct fs =>
    HStruct fs ((fix go (l : list field) : Forall (fun f => P (snd f)) l :=
                   match l with
                   | [] => Forall_nil _
                   | f :: r =>
                     Forall_cons f
                       (match f as f0 return P (snd f0) with
                        | (m, t') => ty_ind' P HStr HU64 HU32 HU16 HI32 HBool HVal HOpt HVec HEnum HStruct HUnk t'
                        end) (go r)
                   end) fs)
  | TUnknown => HUnk
  end.

(* ================= the struct-shaped fixpoints, named ================= *)
Lemma enc_struct fs vs : enc (TStruct fs) (VStruct vs) = JObj (enc_fields fs vs).
Proof. reflexivity. Qed.

Lemma canon_struct fs vs : canon (TStruct fs) (VStruct vs) = VStruct (canon_fields fs vs).
Proof. reflexivity. Qed.

Lemma wt_struct fs vs : wt (TStruct fs) (VStruct vs) = wt_fields fs vs.
Proof. reflexivity. Qed.

Lemma wf_ty_struct fs : wf_ty (TStruct fs) = nodup_str (all_names fs) && wf_fields fs.
Proof. reflexivity. Qed.

Lemma exact_ok_struct fs vs : exact_ok (TStruct fs) (VStruct vs) = exact_ok_fields fs vs.
Proof. reflexivity. Qed.

Lemma wire_ok_struct fs vs : wire_ok (TStruct fs) (VStruct vs) = wire_ok_fields fs vs.
Proof. reflexivity. Qed.

Lemma enc_fields_cons m t fs v vs :
  enc_fields ((m, t) :: fs) (v :: vs) =
  if skipped (fskip m) v then enc_fields fs vs else (fkey m, enc t v) :: enc_fields fs vs.
Proof. reflexivity. Qed.

Lemma map_opt_cons {A B} (f : A -> option B) x r :
  map_opt f (x :: r) = match f x, map_opt f r with Some y, Some ys => Some (y :: ys) | _, _ => None end.
Proof. reflexivity. Qed.

Lemma decv_struct_obj fs kvs : decv (TStruct fs) (JObj kvs) = option_map VStruct (dec_fields fs kvs).
Proof.
  change (decv (TStruct fs) (JObj kvs)) with
    (option_map VStruct
       ((fix df (fs : list field) : option (list value) :=
           match fs with
           | [] => Some []
           | (m, t) :: fs' =>
             match (match lookup_all (names_of m) kvs with
                    | [] => missing_value m t
                    | [j] => decv t j
                    | _ => None
                    end), df fs' with
             | Some v, Some vs => Some (v :: vs)
             | _, _ => None
             end
           end) fs)).
  f_equal. unfold dec_fields. induction fs as [|[m t] fs IH]; [reflexivity|].
  rewrite map_opt_cons. rewrite <- IH. reflexivity.
Qed.

(* ================= lookups in written objects ================= *)
Lemma lookup_all_app names a b : lookup_all names (a ++ b) = lookup_all names a ++ lookup_all names b.
Proof.
  induction a as [|[k v] a IH]; cbn [app lookup_all]; [reflexivity|].
  destruct (mem_str k names); cbn [app]; rewrite IH; reflexivity.
Qed.

Lemma lookup_all_none names kvs : (forall k, In k (map fst kvs) -> ~ In k names) -> lookup_all names kvs = [].
Proof.
  induction kvs as [|[k v] kvs IH]; cbn [lookup_all map fst]; [reflexivity|].
  intros H. assert (E : mem_str k names = false) by (apply mem_str_false, H; left; reflexivity).
  rewrite E. apply IH. intros k' Hk'. apply H. right. exact Hk'.
Qed.

Lemma remove_keys_app names a b : remove_keys names (a ++ b) = remove_keys names a ++ remove_keys names b.
Proof. unfold remove_keys. apply filter_app. Qed.

Lemma remove_keys_id names kvs : (forall k, In k (map fst kvs) -> ~ In k names) -> remove_keys names kvs = kvs.
Proof.
  unfold remove_keys. induction kvs as [|[k v] kvs IH]; cbn [filter map fst]; [reflexivity|].
  intros H. assert (E : mem_str k names = false) by (apply mem_str_false, H; left; reflexivity).
  rewrite E. cbn [negb]. f_equal. apply IH. intros k' Hk'. apply H. right. exact Hk'.
Qed.

Lemma all_names_cons m t fs : all_names ((m, t) :: fs) = (fkey m :: falias m) ++ all_names fs.
Proof. reflexivity. Qed.

Lemma enc_fields_keys fs : forall vs k, In k (map fst (enc_fields fs vs)) -> In k (all_names fs).
Proof.
  induction fs as [|[m t] fs IH]; intros [|v vs] k; try (intros []).
  rewrite enc_fields_cons, all_names_cons. destruct (skipped (fskip m) v).
  - intros H. apply in_or_app. right. exact (IH vs k H).
  - cbn [map fst]. intros [<- | H]; [left; reflexivity | apply in_or_app; right; exact (IH vs k H)].
Qed.

(* every field of fs is found in kvs exactly as the writer left it: absent when skipped, once otherwise *)
Fixpoint found (kvs : list (str * json)) (fs : list field) (vs : list value) : Prop :=
  match fs, vs with
  | [], [] => True
  | (m, t) :: fs', v :: vs' =>
    lookup_all (names_of m) kvs = (if skipped (fskip m) v then [] else [enc t v]) /\ found kvs fs' vs'
  | _, _ => False
  end.

Lemma found_written fs : forall vs pre,
  NoDup (all_names fs) -> length fs = length vs ->
  (forall k, In k (map fst pre) -> ~ In k (all_names fs)) ->
  found (pre ++ enc_fields fs vs) fs vs.
Proof.
  induction fs as [|[m t] fs IH]; intros [|v vs] pre Hnd Hlen Hpre; cbn [length] in Hlen; try discriminate.
  - exact I.
  - rewrite all_names_cons in Hnd, Hpre. apply NoDup_app_inv in Hnd. destruct Hnd as [Hm [Hfs Hdis]].
    assert (Hpre_m : lookup_all (names_of m) pre = []).
    { apply lookup_all_none. intros k Hk Hin. apply (Hpre k Hk). apply in_or_app. left. exact Hin. }
    assert (Htail_m : forall vs', lookup_all (names_of m) (enc_fields fs vs') = []).
    { intros vs'. apply lookup_all_none. intros k Hk Hin. apply enc_fields_keys in Hk. exact (Hdis k Hin Hk). }
    cbn [found]. rewrite enc_fields_cons. destruct (skipped (fskip m) v) eqn:Esk.
    + split.
      * rewrite lookup_all_app, Hpre_m, Htail_m. reflexivity.
      * apply IH; [exact Hfs | lia |]. intros k Hk Hin. apply (Hpre k Hk). apply in_or_app. right. exact Hin.
    + split.
      * rewrite lookup_all_app, Hpre_m. cbn [lookup_all app].
        assert (E : mem_str (fkey m) (names_of m) = true) by (apply mem_str_In; left; reflexivity).
        rewrite E, Htail_m. reflexivity.
      * change (pre ++ (fkey m, enc t v) :: enc_fields fs vs) with (pre ++ [(fkey m, enc t v)] ++ enc_fields fs vs).
        rewrite app_assoc. apply IH; [exact Hfs | lia |].
        intros k Hk Hin. rewrite map_app in Hk. apply in_app_or in Hk. destruct Hk as [Hk | Hk].
        -- apply (Hpre k Hk). apply in_or_app. right. exact Hin.
        -- cbn [map fst] in Hk. destruct Hk as [<- | []]. apply (Hdis (fkey m)); [left; reflexivity | exact Hin].
Qed.

Definition roundtrips (t : ty) : Prop :=
  wf_ty t = true -> forall v, wt t v = true -> decv t (enc t v) = Some (canon t v).

Lemma wf_fields_cons m t fs : wf_fields ((m, t) :: fs) = wf_meta m t && wf_ty t && wf_fields fs.
Proof. reflexivity. Qed.

Lemma wt_fields_cons m t fs v vs : wt_fields ((m, t) :: fs) (v :: vs) = wt t v && wt_fields fs vs.
Proof. reflexivity. Qed.

Lemma wt_fields_length fs : forall vs, wt_fields fs vs = true -> length fs = length vs.
Proof.
  induction fs as [|[m t] fs IH]; intros [|v vs]; cbn [wt_fields length]; try discriminate; [reflexivity|].
  intros H. apply andb_true_iff in H. destruct H as [_ H]. rewrite (IH vs H). reflexivity.
Qed.

Lemma skipped_missing m t v :
  wf_meta m t = true -> wt t v = true -> skipped (fskip m) v = true -> missing_value m t = Some (canon t v).
Proof.
  unfold wf_meta, missing_value. intros Hwf Hwt Hsk.
  destruct (fskip m) eqn:Es; cbn [skipped] in Hsk; try discriminate.
  - (* is_none *) destruct v as [| | | | |[o|]|  | |]; try discriminate.
    destruct t; cbn [is_opt andb] in Hwf; try discriminate. destruct (fdflt m); reflexivity.
  - (* is_empty *) destruct v as [| | | | | |[|x l]| |]; try discriminate.
    destruct t; cbn [is_vec andb] in Hwf; try discriminate.
    destruct (fdflt m); [reflexivity | discriminate].
Qed.

Lemma dec_fields_found kvs fs : forall vs,
  Forall (fun f => roundtrips (snd f)) fs -> wf_fields fs = true -> wt_fields fs vs = true ->
  found kvs fs vs -> dec_fields fs kvs = Some (canon_fields fs vs).
Proof.
  unfold dec_fields. induction fs as [|[m t] fs IH]; intros [|v vs] HF Hwf Hwt Hfound; cbn [found] in Hfound; try contradiction.
  - reflexivity.
  - inversion HF as [|? ? Hrt HF']; subst. cbn [snd] in Hrt.
    rewrite wf_fields_cons in Hwf. rewrite wt_fields_cons in Hwt.
    apply andb_true_iff in Hwf. destruct Hwf as [Hwf Hwfs]. apply andb_true_iff in Hwf. destruct Hwf as [Hmeta Hty].
    apply andb_true_iff in Hwt. destruct Hwt as [Hv Hvs]. destruct Hfound as [Hl Hrest].
    rewrite map_opt_cons. rewrite (IH vs HF' Hwfs Hvs Hrest).
    unfold dec_field_with. cbn [fst snd]. rewrite Hl. destruct (skipped (fskip m) v) eqn:Esk.
    + rewrite (skipped_missing m t v Hmeta Hv Esk). reflexivity.
    + rewrite (Hrt Hty v Hv). reflexivity.
Qed.

Lemma dec_fields_enc fs vs pre :
  Forall (fun f => roundtrips (snd f)) fs -> wf_fields fs = true -> NoDup (all_names fs) -> wt_fields fs vs = true ->
  (forall k, In k (map fst pre) -> ~ In k (all_names fs)) ->
  dec_fields fs (pre ++ enc_fields fs vs) = Some (canon_fields fs vs).
Proof.
  intros HF Hwf Hnd Hwt Hpre. apply dec_fields_found; try assumption.
  apply found_written; [exact Hnd | apply wt_fields_length; exact Hwt | exact Hpre].
Qed.

Lemma map_opt_map {A B C} (f : B -> option C) (g : A -> B) (h : A -> C) l :
  (forall x, In x l -> f (g x) = Some (h x)) -> map_opt f (map g l) = Some (map h l).
Proof.
  induction l as [|x l IH]; intros H; [reflexivity|].
  cbn [map]. rewrite map_opt_cons. rewrite (H x (or_introl eq_refl)). rewrite IH; [reflexivity|].
  intros y Hy. apply H. right. exact Hy.
Qed.

(* ================= values: what is written reads back as its canonical form ================= *)
Theorem decv_enc : forall t, roundtrips t.
Proof.
  induction t as [| | | | | | | t IH | t IH | tags | fs IH |] using ty_ind'; intros Hwf v Hwt.
  - destruct v; try discriminate. reflexivity.
  - destruct v; try discriminate. cbn [wt] in Hwt. cbn [enc decv canon]. rewrite parse_unsigned_dec by lia. reflexivity.
  - destruct v; try discriminate. cbn [wt] in Hwt. cbn [enc decv canon]. rewrite parse_unsigned_dec by lia. reflexivity.
  - destruct v; try discriminate. cbn [wt] in Hwt. cbn [enc decv canon]. rewrite parse_unsigned_dec by lia. reflexivity.
  - destruct v; try discriminate. cbn [wt] in Hwt. cbn [enc decv canon]. rewrite parse_signed_decz by lia. reflexivity.
  - destruct v; try discriminate. reflexivity.
  - destruct v; try discriminate. cbn [wt] in Hwt. apply json_eqb_spec in Hwt. cbn [enc decv canon]. rewrite Hwt. reflexivity.
  - destruct v as [| | | | |[v'|]| | |]; try discriminate; [|reflexivity].
    cbn [wt] in Hwt. cbn [wf_ty] in Hwf. specialize (IH Hwf v' Hwt). cbn [enc canon].
    destruct (enc t v') eqn:E; cbn [json_is_null decv]; try (rewrite IH; reflexivity). reflexivity.
  - destruct v as [| | | | | |l| |]; try discriminate. cbn [wt] in Hwt. cbn [wf_ty] in Hwf. cbn [enc decv canon].
    rewrite (map_opt_map (decv t) (enc t) (canon t)); [reflexivity|].
    intros x Hx. apply IH; [exact Hwf|]. rewrite forallb_forall in Hwt. apply Hwt. exact Hx.
  - destruct v; try discriminate. cbn [wt] in Hwt. cbn [enc decv enum_tag_of canon]. rewrite Hwt. reflexivity.
  - destruct v as [| | | | | | | |vs]; try discriminate.
    rewrite wt_struct in Hwt. rewrite wf_ty_struct in Hwf. apply andb_true_iff in Hwf. destruct Hwf as [Hnd Hwfs].
    apply nodup_str_NoDup in Hnd. rewrite enc_struct, canon_struct, decv_struct_obj.
    rewrite <- (app_nil_l (enc_fields fs vs)). rewrite (dec_fields_enc fs vs []); try assumption; [reflexivity|].
    intros k [].
  - discriminate.
Qed.

(* ================= frames: envelope + flattened payload ================= *)
Definition env7 (a b c d e f g : json) : list (str * json) :=
  [(k_id, a); (k_session_id, b); (k_stream_kind, c); (k_stream_id, d); (k_timestamp_ms, e); (k_seq, f); (k_type, g)].

Lemma env7_id a b c d e f g : lookup_all [k_id] (env7 a b c d e f g) = [a].
Proof. vm_compute. reflexivity. Qed.
Lemma env7_sid a b c d e f g : lookup_all [k_session_id] (env7 a b c d e f g) = [b].
Proof. vm_compute. reflexivity. Qed.
Lemma env7_ts a b c d e f g : lookup_all [k_timestamp_ms] (env7 a b c d e f g) = [e].
Proof. vm_compute. reflexivity. Qed.
Lemma env7_seq a b c d e f g : lookup_all [k_seq] (env7 a b c d e f g) = [f].
Proof. vm_compute. reflexivity. Qed.
Lemma env7_rest a b c d e f g :
  remove_keys own_keys (env7 a b c d e f g) = [(k_stream_kind, c); (k_stream_id, d); (k_type, g)].
Proof. vm_compute. reflexivity. Qed.
Lemma rest3_type c d g : lookup_all [k_type] [(k_stream_kind, c); (k_stream_id, d); (k_type, g)] = [g].
Proof. vm_compute. reflexivity. Qed.
Lemma rest3_payload c d g :
  remove_keys [k_type] [(k_stream_kind, c); (k_stream_id, d); (k_type, g)] = [(k_stream_kind, c); (k_stream_id, d)].
Proof. vm_compute. reflexivity. Qed.

Lemma encode_event_eq s e v :
  nth_error (s_variants s) (e_var e) = Some v ->
  encode_event s e =
  JObj (env7 (JStr (e_id e)) (JStr (e_sid e)) (JStr (kind_name (variant_kind s v))) (JStr (e_sid e))
             (JNum (dec (e_ts e))) (JNum (dec (e_seq e))) (JStr (vtag v))
        ++ enc_fields (vfields v) (e_fields e)).
Proof. intros H. unfold encode_event. rewrite H. reflexivity. Qed.

Lemma In_all_tags v vs : In v vs -> In (vtag v) (all_tags vs).
Proof. intros H. unfold all_tags. apply in_flat_map. exists v. split; [exact H | left; reflexivity]. Qed.

Lemma find_variant_nth vs : forall i k v,
  NoDup (all_tags vs) -> nth_error vs i = Some v -> find_variant (vtag v) vs k = Some (k + i)%nat.
Proof.
  induction vs as [|v0 r IH]; intros [|i] k v Hnd Hn; cbn [nth_error] in Hn; try discriminate.
  - inversion Hn; subst. cbn [find_variant]. rewrite str_eqb_refl. cbn [orb]. f_equal. lia.
  - change (all_tags (v0 :: r)) with ((vtag v0 :: valiases v0) ++ all_tags r) in Hnd.
    apply NoDup_app_inv in Hnd. destruct Hnd as [_ [Hr Hdis]].
    assert (Hin : In (vtag v) (all_tags r)) by (apply In_all_tags; eapply nth_error_In; exact Hn).
    cbn [find_variant].
    assert (E1 : str_eqb (vtag v) (vtag v0) = false).
    { apply str_eqb_false. intros E. apply (Hdis (vtag v0)); [left; reflexivity | rewrite <- E; exact Hin]. }
    assert (E2 : mem_str (vtag v) (valiases v0) = false).
    { apply mem_str_false. intros Hm. apply (Hdis (vtag v)); [right; exact Hm | exact Hin]. }
    rewrite E1, E2. cbn [orb]. rewrite (IH i (S k) v Hr Hn). f_equal. lia.
Qed.

Lemma decode_frame s i v id sid kn ts sq F :
  nth_error (s_variants s) i = Some v -> find_variant (vtag v) (s_variants s) 0 = Some i ->
  (forall k, In k (map fst F) -> ~ In k reserved_keys) -> ts <= U64MAX -> sq <= U64MAX ->
  decode_event s (JObj (env7 (JStr id) (JStr sid) (JStr kn) (JStr sid) (JNum (dec ts)) (JNum (dec sq)) (JStr (vtag v)) ++ F)) =
  match dec_fields (vfields v) ([(k_stream_kind, JStr kn); (k_stream_id, JStr sid)] ++ F) with
  | Some vs => Some {| e_id := id; e_sid := sid; e_ts := ts; e_seq := sq; e_var := i; e_fields := vs |}
  | None => None
  end.
Proof.
  intros Hn Hf HF Hts Hsq.
  assert (Hnone : forall names, (forall k, In k names -> In k reserved_keys) -> lookup_all names F = []).
  { intros names Hsub. apply lookup_all_none. intros k Hk Hin. exact (HF k Hk (Hsub k Hin)). }
  assert (Hkeep : forall names, (forall k, In k names -> In k reserved_keys) -> remove_keys names F = F).
  { intros names Hsub. apply remove_keys_id. intros k Hk Hin. exact (HF k Hk (Hsub k Hin)). }
  assert (R1 : forall k, In k [k_id] -> In k reserved_keys) by (intros k [<-|[]]; unfold reserved_keys; cbn [In]; tauto).
  assert (R2 : forall k, In k [k_session_id] -> In k reserved_keys) by (intros k [<-|[]]; unfold reserved_keys; cbn [In]; tauto).
  assert (R3 : forall k, In k [k_timestamp_ms] -> In k reserved_keys) by (intros k [<-|[]]; unfold reserved_keys; cbn [In]; tauto).
  assert (R4 : forall k, In k [k_seq] -> In k reserved_keys) by (intros k [<-|[]]; unfold reserved_keys; cbn [In]; tauto).
  assert (R5 : forall k, In k [k_type] -> In k reserved_keys) by (intros k [<-|[]]; unfold reserved_keys; cbn [In]; tauto).
  assert (R6 : forall k, In k own_keys -> In k reserved_keys)
    by (unfold own_keys, reserved_keys; cbn [In]; intros k H; tauto).
  unfold decode_event.
  rewrite !lookup_all_app, env7_id, env7_sid, env7_ts, env7_seq.
  rewrite (Hnone _ R1), (Hnone _ R2), (Hnone _ R3), (Hnone _ R4). rewrite !app_nil_r. cbn [exactly_one].
  rewrite (parse_unsigned_dec U64MAX ts Hts), (parse_unsigned_dec U64MAX sq Hsq). cbn zeta.
  rewrite remove_keys_app, env7_rest, (Hkeep _ R6).
  rewrite lookup_all_app, rest3_type, (Hnone _ R5). cbn [List.app exactly_one].
  rewrite Hf, Hn.
  change ((k_stream_kind, JStr kn) :: (k_stream_id, JStr sid) :: (k_type, JStr (vtag v)) :: F)
    with ([(k_stream_kind, JStr kn); (k_stream_id, JStr sid); (k_type, JStr (vtag v))] ++ F).
  rewrite remove_keys_app, rest3_payload, (Hkeep _ R5). reflexivity.
Qed.

Lemma wf_schema_parts s :
  wf_schema s = true -> NoDup (all_tags (s_variants s)) /\ forallb wf_variant (s_variants s) = true.
Proof.
  unfold wf_schema. rewrite !andb_true_iff. intros H. split; [apply nodup_str_NoDup|]; tauto.
Qed.

Lemma wf_variant_parts v :
  wf_variant v = true ->
  NoDup (all_names (vfields v)) /\ (forall k, In k (all_names (vfields v)) -> ~ In k reserved_keys) /\ wf_fields (vfields v) = true.
Proof.
  unfold wf_variant. rewrite !andb_true_iff. intros [[[H1 H2] H3] _]. repeat split.
  - apply nodup_str_NoDup. exact H1.
  - apply disjoint_str_spec. exact H2.
  - exact H3.
Qed.

Lemma Forall_roundtrips fs : Forall (fun f : field => roundtrips (snd f)) fs.
Proof. apply Forall_forall. intros f _. apply decv_enc. Qed.

(* reading back what the writer wrote gives the canonical form of the frame *)
Theorem decode_encode s e :
  wf_schema s = true -> wt_event s e = true -> decode_event s (encode_event s e) = Some (canon_event s e).
Proof.
  intros Hwf Hwt. apply wf_schema_parts in Hwf. destruct Hwf as [Htags Hvs].
  unfold wt_event in Hwt. unfold canon_event. destruct (nth_error (s_variants s) (e_var e)) as [v|] eqn:Hn; [|discriminate].
  rewrite !andb_true_iff in Hwt. destruct Hwt as [[Hts Hsq] Hfs].
  assert (Hv : wf_variant v = true) by (rewrite forallb_forall in Hvs; apply Hvs; eapply nth_error_In; exact Hn).
  apply wf_variant_parts in Hv. destruct Hv as [Hnd [Hres Hwff]].
  rewrite (encode_event_eq s e v Hn).
  rewrite (decode_frame s (e_var e) v); try assumption; try lia.
  - rewrite (dec_fields_enc (vfields v) (e_fields e)); try assumption; [reflexivity | apply Forall_roundtrips |].
    intros k Hk Hin. apply (Hres k Hin). cbn [map fst In] in Hk. unfold reserved_keys. cbn [In]. tauto.
  - apply (find_variant_nth (s_variants s) (e_var e) 0 v Htags Hn).
  - intros k Hk. apply Hres. eapply enc_fields_keys. exact Hk.
Qed.

(* ================= the canonical form prints the same / is the same ================= *)
Lemma skipped_canon m t v :
  skip_some_null m t v = false -> skipped (fskip m) (canon t v) = skipped (fskip m) v.
Proof.
  unfold skip_some_null. destruct (fskip m) eqn:Es; cbn [skipped]; intros H.
  - destruct t, v; reflexivity.
  - destruct t; try (destruct v; reflexivity).
    destruct v as [| | | | |[v'|]| | |]; try reflexivity. cbn [canon]. rewrite H. reflexivity.
  - destruct t; try (destruct v; reflexivity).
    destruct v as [| | | | |[v'|]| | |]; try reflexivity.
    + cbn [canon]. destruct (json_is_null (enc t v')); reflexivity.
    + destruct v as [| | | | | |[|x l]| |]; reflexivity.
  - destruct t, v; reflexivity.
Qed.

Definition reprints (t : ty) : Prop := forall v, wire_ok t v = true -> enc t (canon t v) = enc t v.

Lemma wire_ok_fields_cons m t fs v vs :
  wire_ok_fields ((m, t) :: fs) (v :: vs) = negb (skip_some_null m t v) && wire_ok t v && wire_ok_fields fs vs.
Proof. reflexivity. Qed.

Lemma canon_fields_cons m t fs v vs : canon_fields ((m, t) :: fs) (v :: vs) = canon t v :: canon_fields fs vs.
Proof. reflexivity. Qed.

Lemma enc_fields_canon fs : forall vs,
  Forall (fun f => reprints (snd f)) fs -> wire_ok_fields fs vs = true ->
  enc_fields fs (canon_fields fs vs) = enc_fields fs vs.
Proof.
  induction fs as [|[m t] fs IH]; intros [|v vs] HF Hw; try reflexivity.
  inversion HF as [|? ? Hrp HF']; subst. cbn [snd] in Hrp.
  rewrite wire_ok_fields_cons in Hw. rewrite !andb_true_iff in Hw. destruct Hw as [[Hsn Hwv] Hwvs].
  apply negb_true_iff in Hsn.
  rewrite canon_fields_cons, !enc_fields_cons. rewrite (skipped_canon m t v Hsn). rewrite (IH vs HF' Hwvs).
  rewrite (Hrp v Hwv). reflexivity.
Qed.

Theorem enc_canon : forall t, reprints t.
Proof.
  induction t as [| | | | | | | t IH | t IH | tags | fs IH |] using ty_ind'; intros v Hw; try (destruct v; reflexivity).
  - destruct v as [| | | | |[v'|]| | |]; try reflexivity. cbn [wire_ok] in Hw. cbn [canon].
    destruct (json_is_null (enc t v')) eqn:En.
    + cbn [enc]. destruct (enc t v'); try discriminate. reflexivity.
    + cbn [enc]. apply IH. exact Hw.
  - destruct v as [| | | | | |l| |]; try reflexivity. cbn [wire_ok] in Hw. cbn [canon enc]. f_equal.
    rewrite map_map. apply map_ext_in. intros x Hx. apply IH. rewrite forallb_forall in Hw. apply Hw. exact Hx.
  - destruct v as [| | | | | | | |vs]; try reflexivity. rewrite wire_ok_struct in Hw.
    rewrite canon_struct, !enc_struct. f_equal. apply enc_fields_canon; assumption.
Qed.

Theorem encode_canon s e : wire_event s e = true -> encode_event s (canon_event s e) = encode_event s e.
Proof.
  unfold wire_event, canon_event. destruct (nth_error (s_variants s) (e_var e)) as [v|] eqn:Hn; [|reflexivity].
  intros Hw. unfold encode_event. cbn [e_var e_id e_sid e_ts e_seq e_fields]. rewrite Hn. do 2 f_equal.
  unfold enc_fields in *. apply enc_fields_canon; [|exact Hw]. apply Forall_forall. intros f _. apply enc_canon.
Qed.

Definition fixes (t : ty) : Prop := forall v, wt t v = true -> exact_ok t v = true -> canon t v = v.

Lemma exact_ok_fields_cons m t fs v vs :
  exact_ok_fields ((m, t) :: fs) (v :: vs) = exact_ok t v && exact_ok_fields fs vs.
Proof. reflexivity. Qed.

Lemma canon_fields_exact fs : forall vs,
  Forall (fun f => fixes (snd f)) fs -> wt_fields fs vs = true -> exact_ok_fields fs vs = true ->
  canon_fields fs vs = vs.
Proof.
  induction fs as [|[m t] fs IH]; intros [|v vs] HF Hwt Hx; cbn [wt_fields] in Hwt; try discriminate; [reflexivity|].
  inversion HF as [|? ? Hfx HF']; subst. cbn [snd] in Hfx.
  apply andb_true_iff in Hwt. destruct Hwt as [Hv Hvs].
  rewrite exact_ok_fields_cons in Hx. apply andb_true_iff in Hx. destruct Hx as [Hxv Hxvs].
  rewrite canon_fields_cons, (Hfx v Hv Hxv), (IH vs HF' Hvs Hxvs). reflexivity.
Qed.

Theorem canon_exact : forall t, fixes t.
Proof.
  induction t as [| | | | | | | t IH | t IH | tags | fs IH |] using ty_ind'; intros v Hwt Hx; try (destruct v; reflexivity).
  - destruct v as [| | | | |[v'|]| | |]; try reflexivity. cbn [wt] in Hwt. cbn [exact_ok] in Hx.
    apply andb_true_iff in Hx. destruct Hx as [Hn Hx]. apply negb_true_iff in Hn. cbn [canon]. rewrite Hn.
    rewrite (IH v' Hwt Hx). reflexivity.
  - destruct v as [| | | | | |l| |]; try reflexivity. cbn [wt] in Hwt. cbn [exact_ok] in Hx. cbn [canon]. f_equal.
    rewrite <- (map_id l) at 2. apply map_ext_in. intros x Hin. rewrite forallb_forall in Hwt, Hx. apply IH; auto.
  - destruct v as [| | | | | | | |vs]; try reflexivity. rewrite wt_struct in Hwt. rewrite exact_ok_struct in Hx.
    rewrite canon_struct. f_equal. apply canon_fields_exact; assumption.
Qed.

Theorem canon_event_exact s e : wt_event s e = true -> exact_event s e = true -> canon_event s e = e.
Proof.
  unfold wt_event, exact_event, canon_event. destruct (nth_error (s_variants s) (e_var e)) as [v|]; [|discriminate].
  intros Hwt Hx. rewrite !andb_true_iff in Hwt. destruct Hwt as [_ Hfs].
  rewrite (canon_fields_exact (vfields v) (e_fields e)); [destruct e; reflexivity | | exact Hfs | exact Hx].
  apply Forall_forall. intros f _. apply canon_exact.
Qed.

(* stream assignment: a function of the variant alone, and the reader keeps the variant and the session id *)
Lemma canon_event_kind s e : event_kind s (canon_event s e) = event_kind s e.
Proof. unfold event_kind, canon_event. destruct (nth_error (s_variants s) (e_var e)) eqn:E; [cbn [e_var]|]; rewrite E; reflexivity. Qed.

Lemma canon_event_sid s e : e_sid (canon_event s e) = e_sid e.
Proof. unfold canon_event. destruct (nth_error (s_variants s) (e_var e)); reflexivity. Qed.

Lemma canon_event_var s e : e_var (canon_event s e) = e_var e.
Proof. unfold canon_event. destruct (nth_error (s_variants s) (e_var e)); reflexivity. Qed.
