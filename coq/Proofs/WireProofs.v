(* C03 — proofs about the schema-driven frame codec of Model/Wire.v, for EVERY well-formed schema:
     decode_event s (encode_event s e) = Some (canon_event s e)            (wf_schema s, wt_event s e)
     encode_event s (canon_event s e) = encode_event s e                   (wire_event s e)
     canon_event s e = e                                                   (exact_event s e)
   and their text-level forms through Base/Json.v's printers and Base/JsonParse.v's parser (line form and
   pretty snapshot form).  The schema of today's source (Gen/EventSchema.v) satisfies wf_schema by a generated
   obligation. *)
From RipV Require Import Base.Prelude Base.Json Base.JsonParse Model.Wire Proofs.JsonProofs.
From Coq Require DecimalN DecimalPos Decimal DecimalFacts.

(* ================= strings, membership ================= *)
Lemma str_eqb_refl a : str_eqb a a = true.
Proof. apply str_eqb_spec. reflexivity. Qed.

Lemma str_eqb_false a b : str_eqb a b = false <-> a <> b.
Proof.
  split.
  - intros H E. apply str_eqb_spec in E. congruence.
  - intros H. destruct (str_eqb a b) eqn:E; [apply str_eqb_spec in E; contradiction | reflexivity].
Qed.

Lemma mem_str_In s l : mem_str s l = true <-> In s l.
Proof.
  unfold mem_str. rewrite existsb_exists. split.
  - intros [x [Hin E]]. apply str_eqb_spec in E. subst. exact Hin.
  - intros Hin. exists s. split; [exact Hin | apply str_eqb_refl].
Qed.

Lemma mem_str_false s l : mem_str s l = false <-> ~ In s l.
Proof.
  split.
  - intros H Hin. apply mem_str_In in Hin. congruence.
  - intros H. destruct (mem_str s l) eqn:E; [apply mem_str_In in E; contradiction | reflexivity].
Qed.

Lemma nodup_str_NoDup l : nodup_str l = true <-> NoDup l.
Proof.
  induction l as [|x l IH]; cbn [nodup_str].
  - split; [constructor | reflexivity].
  - rewrite andb_true_iff, negb_true_iff, mem_str_false, IH. split.
    + intros [H1 H2]. constructor; assumption.
    + intros H. inversion H. auto.
Qed.

Lemma NoDup_app_inv {A} (a b : list A) :
  NoDup (a ++ b) -> NoDup a /\ NoDup b /\ (forall x, In x a -> ~ In x b).
Proof.
  induction a as [|x a IH]; cbn [app].
  - intros H. repeat split; [constructor | exact H | intros x []].
  - intros H. inversion H as [|? ? Hx Hnd]; subst. destruct (IH Hnd) as [Ha [Hb Hd]]. repeat split.
    + constructor; [intros Hin; apply Hx, in_or_app; left; exact Hin | exact Ha].
    + exact Hb.
    + intros y [<- | Hy]; [intros Hin; apply Hx, in_or_app; right; exact Hin | apply Hd; exact Hy].
Qed.

Lemma disjoint_str_spec a b : disjoint_str a b = true <-> (forall x, In x a -> ~ In x b).
Proof.
  unfold disjoint_str. rewrite forallb_forall. split.
  - intros H x Hx. apply mem_str_false. apply negb_true_iff. apply H. exact Hx.
  - intros H x Hx. apply negb_true_iff. apply mem_str_false. apply H. exact Hx.
Qed.

(* ================= decimal integers ================= *)
Lemma str_to_uint_to_str d : str_to_uint (uint_to_str d) = Some d.
Proof. induction d as [|d IH|d IH|d IH|d IH|d IH|d IH|d IH|d IH|d IH|d IH]; cbn [uint_to_str str_to_uint]; try rewrite IH; reflexivity. Qed.

Lemma parse_unsigned_dec max n : n <= max -> parse_unsigned max (dec n) = Some n.
Proof.
  intros H. unfold parse_unsigned, dec. rewrite str_to_uint_to_str. cbn zeta.
  rewrite DecimalN.Unsigned.of_to. rewrite str_eqb_refl. cbn [andb].
  destruct (n <=? max) eqn:E; [reflexivity | lia].
Qed.

Lemma uint_to_str_head d : d <> Decimal.Nil -> exists c r, uint_to_str d = c :: r /\ is_digit c = true.
Proof. destruct d; intros H; try congruence; cbn [uint_to_str]; eexists; eexists; (split; [reflexivity | reflexivity]). Qed.

Lemma to_uint_nonnil n : N.to_uint n <> Decimal.Nil.
Proof. destruct n as [|p]; cbn; [discriminate | apply DecimalPos.Unsigned.to_uint_nonnil]. Qed.

Lemma dec_head n : exists c r, dec n = c :: r /\ is_digit c = true.
Proof. apply uint_to_str_head, to_uint_nonnil. Qed.

Lemma is_digit_not_minus c : is_digit c = true -> (c =? cMINUS) = false.
Proof. unfold is_digit, cMINUS. intros H. lia. Qed.

Lemma parse_signed_decz z : (I32MIN <= z <= I32MAX)%Z -> parse_signed I32MIN I32MAX (decz z) = Some z.
Proof.
  unfold I32MIN, I32MAX. intros H. unfold decz. destruct (z <? 0)%Z eqn:Ez.
  - unfold parse_signed. replace (cMINUS =? cMINUS) with true by reflexivity.
    rewrite parse_unsigned_dec by lia.
    destruct (Z.to_N (- z) =? 0) eqn:E0; [lia|].
    rewrite Z2N.id by lia. rewrite Z.opp_involutive.
    destruct (-2147483648 <=? z)%Z eqn:El; [reflexivity | lia].
  - destruct (dec_head (Z.to_N z)) as [c [r [Ed Hc]]]. unfold parse_signed. rewrite Ed.
    rewrite (is_digit_not_minus c Hc). rewrite <- Ed. rewrite parse_unsigned_dec by (unfold U64MAX; lia).
    rewrite Z2N.id by lia. destruct (z <=? 2147483647)%Z eqn:El; [reflexivity | lia].
Qed.

(* the tokens the writer produces for integers are JSON numbers *)
Lemma all_digits_uint d : all_digits (uint_to_str d) = true.
Proof. induction d; cbn [uint_to_str all_digits]; try rewrite IHd; reflexivity. Qed.

Lemma span_digits_all l : all_digits l = true -> span_digits l = (l, []).
Proof.
  induction l as [|c l IH]; cbn [all_digits span_digits]; [reflexivity|].
  intros H. apply andb_true_iff in H. destruct H as [Hc Hl]. rewrite Hc, (IH Hl). reflexivity.
Qed.

Lemma to_uint_unorm n : Decimal.unorm (N.to_uint n) = N.to_uint n.
Proof. rewrite <- (DecimalN.Unsigned.of_to n) at 2. rewrite DecimalN.Unsigned.to_of. reflexivity. Qed.

Lemma num_ok_uint d : Decimal.unorm d = d -> num_ok (uint_to_str d) = true.
Proof.
  intros Hn. unfold num_ok.
  assert (Hm : match uint_to_str d with c :: r => if c =? cMINUS then r else uint_to_str d | [] => uint_to_str d end
               = uint_to_str d).
  { destruct d; cbn [uint_to_str]; reflexivity. }
  rewrite Hm. rewrite (span_digits_all _ (all_digits_uint d)). rewrite andb_true_r.
  unfold Decimal.unorm in Hn. destruct (Decimal.nzhead d) eqn:En.
  - rewrite <- Hn. reflexivity.
  - exfalso. exact (DecimalFacts.nzhead_nonzero d u En).
  - rewrite <- Hn. cbn [uint_to_str int_part_ok]. destruct (uint_to_str u); reflexivity.
  - rewrite <- Hn. cbn [uint_to_str int_part_ok]. destruct (uint_to_str u); reflexivity.
  - rewrite <- Hn. cbn [uint_to_str int_part_ok]. destruct (uint_to_str u); reflexivity.
  - rewrite <- Hn. cbn [uint_to_str int_part_ok]. destruct (uint_to_str u); reflexivity.
  - rewrite <- Hn. cbn [uint_to_str int_part_ok]. destruct (uint_to_str u); reflexivity.
  - rewrite <- Hn. cbn [uint_to_str int_part_ok]. destruct (uint_to_str u); reflexivity.
  - rewrite <- Hn. cbn [uint_to_str int_part_ok]. destruct (uint_to_str u); reflexivity.
  - rewrite <- Hn. cbn [uint_to_str int_part_ok]. destruct (uint_to_str u); reflexivity.
  - rewrite <- Hn. cbn [uint_to_str int_part_ok]. destruct (uint_to_str u); reflexivity.
Qed.

Lemma num_ok_dec n : num_ok (dec n) = true.
Proof. apply num_ok_uint, to_uint_unorm. Qed.

Lemma num_ok_minus t : num_ok t = true -> (exists c r, t = c :: r /\ is_digit c = true) -> num_ok (cMINUS :: t) = true.
Proof.
  intros H [c [r [-> Hc]]]. unfold num_ok in *. replace (cMINUS =? cMINUS) with true by reflexivity.
  rewrite (is_digit_not_minus c Hc) in H. exact H.
Qed.

Lemma num_ok_decz z : num_ok (decz z) = true.
Proof.
  unfold decz. destruct (z <? 0)%Z.
  - apply num_ok_minus; [apply num_ok_dec | apply dec_head].
  - apply num_ok_dec.
Qed.

(* ================= nested induction over field types ================= *)
Fixpoint ty_ind' (P : ty -> Prop)
  (HStr : P TStr) (HU64 : P TU64) (HU32 : P TU32) (HU16 : P TU16) (HI32 : P TI32) (HBool : P TBool) (HVal : P TVal)
  (HOpt : forall t, P t -> P (TOpt t)) (HVec : forall t, P t -> P (TVec t)) (HEnum : forall tags, P (TEnum tags))
  (HStruct : forall fs, Forall (fun f => P (snd f)) fs -> P (TStruct fs)) (HUnk : P TUnknown)
  (t : ty) {struct t} : P t :=
  match t with
  | TStr => HStr | TU64 => HU64 | TU32 => HU32 | TU16 => HU16 | TI32 => HI32 | TBool => HBool | TVal => HVal
  | TOpt t' => HOpt t' (ty_ind' P HStr HU64 HU32 HU16 HI32 HBool HVal HOpt HVec HEnum HStruct HUnk t')
  | TVec t' => HVec t' (ty_ind' P HStr HU64 HU32 HU16 HI32 HBool HVal HOpt HVec HEnum HStruct HUnk t')
  | TEnum tags => HEnum tags
  | TStruct fs =>
    HStruct fs ((fix go (l : list field) : Forall (fun f => P (snd f)) l :=
                   match l with
                   | [] => Forall_nil _
                   | f :: r =>
                     Forall_cons f
                       (match f as f0 return P (snd f0) with
                        | (m, t') => ty_ind' P HStr HU64 HU32 HU16 HI32 HBool HVal HOpt HVec HEnum HStruct HUnk t'
                        end) (go r)
                   end) fs)
  | TUnknown => HUnk
  end.

(* ================= the struct-shaped fixpoints, named ================= *)
Lemma enc_struct fs vs : enc (TStruct fs) (VStruct vs) = JObj (enc_fields fs vs).
Proof. reflexivity. Qed.

Lemma canon_struct fs vs : canon (TStruct fs) (VStruct vs) = VStruct (canon_fields fs vs).
Proof. reflexivity. Qed.

Lemma wt_struct fs vs : wt (TStruct fs) (VStruct vs) = wt_fields fs vs.
Proof. reflexivity. Qed.

Lemma wf_ty_struct fs : wf_ty (TStruct fs) = nodup_str (all_names fs) && wf_fields fs.
Proof. reflexivity. Qed.

Lemma exact_ok_struct fs vs : exact_ok (TStruct fs) (VStruct vs) = exact_ok_fields fs vs.
Proof. reflexivity. Qed.

Lemma wire_ok_struct fs vs : wire_ok (TStruct fs) (VStruct vs) = wire_ok_fields fs vs.
Proof. reflexivity. Qed.

Lemma enc_fields_cons m t fs v vs :
  enc_fields ((m, t) :: fs) (v :: vs) =
  if skipped (fskip m) v then enc_fields fs vs else (fkey m, enc t v) :: enc_fields fs vs.
Proof. reflexivity. Qed.

Lemma map_opt_cons {A B} (f : A -> option B) x r :
  map_opt f (x :: r) = match f x, map_opt f r with Some y, Some ys => Some (y :: ys) | _, _ => None end.
Proof. reflexivity. Qed.

Lemma decv_struct_obj fs kvs : decv (TStruct fs) (JObj kvs) = option_map VStruct (dec_fields fs kvs).
Proof.
  change (decv (TStruct fs) (JObj kvs)) with
    (option_map VStruct
       ((fix df (fs : list field) : option (list value) :=
           match fs with
           | [] => Some []
           | (m, t) :: fs' =>
             match (match lookup_all (names_of m) kvs with
                    | [] => missing_value m t
                    | [j] => decv t j
                    | _ => None
                    end), df fs' with
             | Some v, Some vs => Some (v :: vs)
             | _, _ => None
             end
           end) fs)).
  f_equal. unfold dec_fields. induction fs as [|[m t] fs IH]; [reflexivity|].
  rewrite map_opt_cons. rewrite <- IH. reflexivity.
Qed.

(* ================= lookups in written objects ================= *)
Lemma lookup_all_app names a b : lookup_all names (a ++ b) = lookup_all names a ++ lookup_all names b.
Proof.
  induction a as [|[k v] a IH]; cbn [app lookup_all]; [reflexivity|].
  destruct (mem_str k names); cbn [app]; rewrite IH; reflexivity.
Qed.

Lemma lookup_all_none names kvs : (forall k, In k (map fst kvs) -> ~ In k names) -> lookup_all names kvs = [].
Proof.
  induction kvs as [|[k v] kvs IH]; cbn [lookup_all map fst]; [reflexivity|].
  intros H. assert (E : mem_str k names = false) by (apply mem_str_false, H; left; reflexivity).
  rewrite E. apply IH. intros k' Hk'. apply H. right. exact Hk'.
Qed.

Lemma remove_keys_app names a b : remove_keys names (a ++ b) = remove_keys names a ++ remove_keys names b.
Proof. unfold remove_keys. apply filter_app. Qed.

Lemma remove_keys_id names kvs : (forall k, In k (map fst kvs) -> ~ In k names) -> remove_keys names kvs = kvs.
Proof.
  unfold remove_keys. induction kvs as [|[k v] kvs IH]; cbn [filter map fst]; [reflexivity|].
  intros H. assert (E : mem_str k names = false) by (apply mem_str_false, H; left; reflexivity).
  rewrite E. cbn [negb]. f_equal. apply IH. intros k' Hk'. apply H. right. exact Hk'.
Qed.

Lemma all_names_cons m t fs : all_names ((m, t) :: fs) = (fkey m :: falias m) ++ all_names fs.
Proof. reflexivity. Qed.

Lemma enc_fields_keys fs : forall vs k, In k (map fst (enc_fields fs vs)) -> In k (all_names fs).
Proof.
  induction fs as [|[m t] fs IH]; intros [|v vs] k; try (intros []).
  rewrite enc_fields_cons, all_names_cons. destruct (skipped (fskip m) v).
  - intros H. apply in_or_app. right. exact (IH vs k H).
  - cbn [map fst]. intros [<- | H]; [left; reflexivity | apply in_or_app; right; exact (IH vs k H)].
Qed.

(* every field of fs is found in kvs exactly as the writer left it: absent when skipped, once otherwise *)
Fixpoint found (kvs : list (str * json)) (fs : list field) (vs : list value) : Prop :=
  match fs, vs with
  | [], [] => True
  | (m, t) :: fs', v :: vs' =>
    lookup_all (names_of m) kvs = (if skipped (fskip m) v then [] else [enc t v]) /\ found kvs fs' vs'
  | _, _ => False
  end.

Lemma found_written fs : forall vs pre,
  NoDup (all_names fs) -> length fs = length vs ->
  (forall k, In k (map fst pre) -> ~ In k (all_names fs)) ->
  found (pre ++ enc_fields fs vs) fs vs.
Proof.
  induction fs as [|[m t] fs IH]; intros [|v vs] pre Hnd Hlen Hpre; cbn [length] in Hlen; try discriminate.
  - exact I.
  - rewrite all_names_cons in Hnd, Hpre. apply NoDup_app_inv in Hnd. destruct Hnd as [Hm [Hfs Hdis]].
    assert (Hpre_m : lookup_all (names_of m) pre = []).
    { apply lookup_all_none. intros k Hk Hin. apply (Hpre k Hk). apply in_or_app. left. exact Hin. }
    assert (Htail_m : forall vs', lookup_all (names_of m) (enc_fields fs vs') = []).
    { intros vs'. apply lookup_all_none. intros k Hk Hin. apply enc_fields_keys in Hk. exact (Hdis k Hin Hk). }
    cbn [found]. rewrite enc_fields_cons. destruct (skipped (fskip m) v) eqn:Esk.
    + split.
      * rewrite lookup_all_app, Hpre_m, Htail_m. reflexivity.
      * apply IH; [exact Hfs | lia |]. intros k Hk Hin. apply (Hpre k Hk). apply in_or_app. right. exact Hin.
    + split.
      * rewrite lookup_all_app, Hpre_m. cbn [lookup_all app].
        assert (E : mem_str (fkey m) (names_of m) = true) by (apply mem_str_In; left; reflexivity).
        rewrite E, Htail_m. reflexivity.
      * change (pre ++ (fkey m, enc t v) :: enc_fields fs vs) with (pre ++ [(fkey m, enc t v)] ++ enc_fields fs vs).
        rewrite app_assoc. apply IH; [exact Hfs | lia |].
        intros k Hk Hin. rewrite map_app in Hk. apply in_app_or in Hk. destruct Hk as [Hk | Hk].
        -- apply (Hpre k Hk). apply in_or_app. right. exact Hin.
        -- cbn [map fst] in Hk. destruct Hk as [<- | []]. apply (Hdis (fkey m)); [left; reflexivity | exact Hin].
Qed.

Definition roundtrips (t : ty) : Prop :=
  wf_ty t = true -> forall v, wt t v = true -> decv t (enc t v) = Some (canon t v).

Lemma wf_fields_cons m t fs : wf_fields ((m, t) :: fs) = wf_meta m t && wf_ty t && wf_fields fs.
Proof. reflexivity. Qed.

Lemma wt_fields_cons m t fs v vs : wt_fields ((m, t) :: fs) (v :: vs) = wt t v && wt_fields fs vs.
Proof. reflexivity. Qed.

Lemma wt_fields_length fs : forall vs, wt_fields fs vs = true -> length fs = length vs.
Proof.
  induction fs as [|[m t] fs IH]; intros [|v vs]; cbn [wt_fields length]; try discriminate; [reflexivity|].
  intros H. apply andb_true_iff in H. destruct H as [_ H]. rewrite (IH vs H). reflexivity.
Qed.

Lemma skipped_missing m t v :
  wf_meta m t = true -> wt t v = true -> skipped (fskip m) v = true -> missing_value m t = Some (canon t v).
Proof.
  unfold wf_meta, missing_value. intros Hwf Hwt Hsk.
  destruct (fskip m) eqn:Es; cbn [skipped] in Hsk; try discriminate.
  - (* is_none *) destruct v as [| | | | |[o|]|  | |]; try discriminate.
    destruct t; cbn [is_opt andb] in Hwf; try discriminate. destruct (fdflt m); reflexivity.
  - (* is_empty *) destruct v as [| | | | | |[|x l]| |]; try discriminate.
    destruct t; cbn [is_vec andb] in Hwf; try discriminate.
    destruct (fdflt m); [reflexivity | discriminate].
Qed.

Lemma dec_fields_found kvs fs : forall vs,
  Forall (fun f => roundtrips (snd f)) fs -> wf_fields fs = true -> wt_fields fs vs = true ->
  found kvs fs vs -> dec_fields fs kvs = Some (canon_fields fs vs).
Proof.
  unfold dec_fields. induction fs as [|[m t] fs IH]; intros [|v vs] HF Hwf Hwt Hfound; cbn [found] in Hfound; try contradiction.
  - reflexivity.
  - inversion HF as [|? ? Hrt HF']; subst. cbn [snd] in Hrt.
    rewrite wf_fields_cons in Hwf. rewrite wt_fields_cons in Hwt.
    apply andb_true_iff in Hwf. destruct Hwf as [Hwf Hwfs]. apply andb_true_iff in Hwf. destruct Hwf as [Hmeta Hty].
    apply andb_true_iff in Hwt. destruct Hwt as [Hv Hvs]. destruct Hfound as [Hl Hrest].
    rewrite map_opt_cons. rewrite (IH vs HF' Hwfs Hvs Hrest).
    unfold dec_field_with. cbn [fst snd]. rewrite Hl. destruct (skipped (fskip m) v) eqn:Esk.
    + rewrite (skipped_missing m t v Hmeta Hv Esk). reflexivity.
    + rewrite (Hrt Hty v Hv). reflexivity.
Qed.

Lemma dec_fields_enc fs vs pre :
  Forall (fun f => roundtrips (snd f)) fs -> wf_fields fs = true -> NoDup (all_names fs) -> wt_fields fs vs = true ->
  (forall k, In k (map fst pre) -> ~ In k (all_names fs)) ->
  dec_fields fs (pre ++ enc_fields fs vs) = Some (canon_fields fs vs).
Proof.
  intros HF Hwf Hnd Hwt Hpre. apply dec_fields_found; try assumption.
  apply found_written; [exact Hnd | apply wt_fields_length; exact Hwt | exact Hpre].
Qed.

Lemma map_opt_map {A B C} (f : B -> option C) (g : A -> B) (h : A -> C) l :
  (forall x, In x l -> f (g x) = Some (h x)) -> map_opt f (map g l) = Some (map h l).
Proof.
  induction l as [|x l IH]; intros H; [reflexivity|].
  cbn [map]. rewrite map_opt_cons. rewrite (H x (or_introl eq_refl)). rewrite IH; [reflexivity|].
  intros y Hy. apply H. right. exact Hy.
Qed.

(* ================= values: what is written reads back as its canonical form ================= *)
Theorem decv_enc : forall t, roundtrips t.
Proof.
  induction t as [| | | | | | | t IH | t IH | tags | fs IH |] using ty_ind'; intros Hwf v Hwt.
  - destruct v; try discriminate. reflexivity.
  - destruct v; try discriminate. cbn [wt] in Hwt. cbn [enc decv canon]. rewrite parse_unsigned_dec by lia. reflexivity.
  - destruct v; try discriminate. cbn [wt] in Hwt. cbn [enc decv canon]. rewrite parse_unsigned_dec by lia. reflexivity.
  - destruct v; try discriminate. cbn [wt] in Hwt. cbn [enc decv canon]. rewrite parse_unsigned_dec by lia. reflexivity.
  - destruct v; try discriminate. cbn [wt] in Hwt. cbn [enc decv canon]. rewrite parse_signed_decz by lia. reflexivity.
  - destruct v; try discriminate. reflexivity.
  - destruct v; try discriminate. cbn [wt] in Hwt. apply json_eqb_spec in Hwt. cbn [enc decv canon]. rewrite Hwt. reflexivity.
  - destruct v as [| | | | |[v'|]| | |]; try discriminate; [|reflexivity].
    cbn [wt] in Hwt. cbn [wf_ty] in Hwf. specialize (IH Hwf v' Hwt). cbn [enc canon].
    destruct (enc t v') eqn:E; cbn [json_is_null decv]; try (rewrite IH; reflexivity). reflexivity.
  - destruct v as [| | | | | |l| |]; try discriminate. cbn [wt] in Hwt. cbn [wf_ty] in Hwf. cbn [enc decv canon].
    rewrite (map_opt_map (decv t) (enc t) (canon t)); [reflexivity|].
    intros x Hx. apply IH; [exact Hwf|]. rewrite forallb_forall in Hwt. apply Hwt. exact Hx.
  - destruct v; try discriminate. cbn [wt] in Hwt. cbn [enc decv enum_tag_of canon]. rewrite Hwt. reflexivity.
  - destruct v as [| | | | | | | |vs]; try discriminate.
    rewrite wt_struct in Hwt. rewrite wf_ty_struct in Hwf. apply andb_true_iff in Hwf. destruct Hwf as [Hnd Hwfs].
    apply nodup_str_NoDup in Hnd. rewrite enc_struct, canon_struct, decv_struct_obj.
    rewrite <- (app_nil_l (enc_fields fs vs)). rewrite (dec_fields_enc fs vs []); try assumption; [reflexivity|].
    intros k [].
  - discriminate.
Qed.

(* ================= frames: envelope + flattened payload ================= *)
Definition env7 (a b c d e f g : json) : list (str * json) :=
  [(k_id, a); (k_session_id, b); (k_stream_kind, c); (k_stream_id, d); (k_timestamp_ms, e); (k_seq, f); (k_type, g)].

Lemma env7_id a b c d e f g : lookup_all [k_id] (env7 a b c d e f g) = [a].
Proof. vm_compute. reflexivity. Qed.
Lemma env7_sid a b c d e f g : lookup_all [k_session_id] (env7 a b c d e f g) = [b].
Proof. vm_compute. reflexivity. Qed.
Lemma env7_ts a b c d e f g : lookup_all [k_timestamp_ms] (env7 a b c d e f g) = [e].
Proof. vm_compute. reflexivity. Qed.
Lemma env7_seq a b c d e f g : lookup_all [k_seq] (env7 a b c d e f g) = [f].
Proof. vm_compute. reflexivity. Qed.
Lemma env7_rest a b c d e f g :
  remove_keys own_keys (env7 a b c d e f g) = [(k_stream_kind, c); (k_stream_id, d); (k_type, g)].
Proof. vm_compute. reflexivity. Qed.
Lemma rest3_type c d g : lookup_all [k_type] [(k_stream_kind, c); (k_stream_id, d); (k_type, g)] = [g].
Proof. vm_compute. reflexivity. Qed.
Lemma rest3_payload c d g :
  remove_keys [k_type] [(k_stream_kind, c); (k_stream_id, d); (k_type, g)] = [(k_stream_kind, c); (k_stream_id, d)].
Proof. vm_compute. reflexivity. Qed.

Lemma encode_event_eq s e v :
  nth_error (s_variants s) (e_var e) = Some v ->
  encode_event s e =
  JObj (env7 (JStr (e_id e)) (JStr (e_sid e)) (JStr (kind_name (variant_kind s v))) (JStr (e_sid e))
             (JNum (dec (e_ts e))) (JNum (dec (e_seq e))) (JStr (vtag v))
        ++ enc_fields (vfields v) (e_fields e)).
Proof. intros H. unfold encode_event. rewrite H. reflexivity. Qed.

Lemma In_all_tags v vs : In v vs -> In (vtag v) (all_tags vs).
Proof. intros H. unfold all_tags. apply in_flat_map. exists v. split; [exact H | left; reflexivity]. Qed.

Lemma find_variant_nth vs : forall i k v,
  NoDup (all_tags vs) -> nth_error vs i = Some v -> find_variant (vtag v) vs k = Some (k + i)%nat.
Proof.
  induction vs as [|v0 r IH]; intros [|i] k v Hnd Hn; cbn [nth_error] in Hn; try discriminate.
  - inversion Hn; subst. cbn [find_variant]. rewrite str_eqb_refl. cbn [orb]. f_equal. lia.
  - change (all_tags (v0 :: r)) with ((vtag v0 :: valiases v0) ++ all_tags r) in Hnd.
    apply NoDup_app_inv in Hnd. destruct Hnd as [_ [Hr Hdis]].
    assert (Hin : In (vtag v) (all_tags r)) by (apply In_all_tags; eapply nth_error_In; exact Hn).
    cbn [find_variant].
    assert (E1 : str_eqb (vtag v) (vtag v0) = false).
    { apply str_eqb_false. intros E. apply (Hdis (vtag v0)); [left; reflexivity | rewrite <- E; exact Hin]. }
    assert (E2 : mem_str (vtag v) (valiases v0) = false).
    { apply mem_str_false. intros Hm. apply (Hdis (vtag v)); [right; exact Hm | exact Hin]. }
    rewrite E1, E2. cbn [orb]. rewrite (IH i (S k) v Hr Hn). f_equal. lia.
Qed.

Lemma decode_frame s i v id sid kn ts sq F :
  nth_error (s_variants s) i = Some v -> find_variant (vtag v) (s_variants s) 0 = Some i ->
  (forall k, In k (map fst F) -> ~ In k reserved_keys) -> ts <= U64MAX -> sq <= U64MAX ->
  decode_event s (JObj (env7 (JStr id) (JStr sid) (JStr kn) (JStr sid) (JNum (dec ts)) (JNum (dec sq)) (JStr (vtag v)) ++ F)) =
  match dec_fields (vfields v) ([(k_stream_kind, JStr kn); (k_stream_id, JStr sid)] ++ F) with
  | Some vs => Some {| e_id := id; e_sid := sid; e_ts := ts; e_seq := sq; e_var := i; e_fields := vs |}
  | None => None
  end.
Proof.
  intros Hn Hf HF Hts Hsq.
  assert (Hnone : forall names, (forall k, In k names -> In k reserved_keys) -> lookup_all names F = []).
  { intros names Hsub. apply lookup_all_none. intros k Hk Hin. exact (HF k Hk (Hsub k Hin)). }
  assert (Hkeep : forall names, (forall k, In k names -> In k reserved_keys) -> remove_keys names F = F).
  { intros names Hsub. apply remove_keys_id. intros k Hk Hin. exact (HF k Hk (Hsub k Hin)). }
  assert (R1 : forall k, In k [k_id] -> In k reserved_keys) by (intros k [<-|[]]; unfold reserved_keys; cbn [In]; tauto).
  assert (R2 : forall k, In k [k_session_id] -> In k reserved_keys) by (intros k [<-|[]]; unfold reserved_keys; cbn [In]; tauto).
  assert (R3 : forall k, In k [k_timestamp_ms] -> In k reserved_keys) by (intros k [<-|[]]; unfold reserved_keys; cbn [In]; tauto).
  assert (R4 : forall k, In k [k_seq] -> In k reserved_keys) by (intros k [<-|[]]; unfold reserved_keys; cbn [In]; tauto).
  assert (R5 : forall k, In k [k_type] -> In k reserved_keys) by (intros k [<-|[]]; unfold reserved_keys; cbn [In]; tauto).
  assert (R6 : forall k, In k own_keys -> In k reserved_keys)
    by (unfold own_keys, reserved_keys; cbn [In]; intros k H; tauto).
  unfold decode_event.
  rewrite !lookup_all_app, env7_id, env7_sid, env7_ts, env7_seq.
  rewrite (Hnone _ R1), (Hnone _ R2), (Hnone _ R3), (Hnone _ R4). rewrite !app_nil_r. cbn [exactly_one].
  rewrite (parse_unsigned_dec U64MAX ts Hts), (parse_unsigned_dec U64MAX sq Hsq). cbn zeta.
  rewrite remove_keys_app, env7_rest, (Hkeep _ R6).
  rewrite lookup_all_app, rest3_type, (Hnone _ R5). cbn [List.app exactly_one].
  rewrite Hf, Hn.
  change ((k_stream_kind, JStr kn) :: (k_stream_id, JStr sid) :: (k_type, JStr (vtag v)) :: F)
    with ([(k_stream_kind, JStr kn); (k_stream_id, JStr sid); (k_type, JStr (vtag v))] ++ F).
  rewrite remove_keys_app, rest3_payload, (Hkeep _ R5). reflexivity.
Qed.

Lemma wf_schema_parts s :
  wf_schema s = true -> NoDup (all_tags (s_variants s)) /\ forallb wf_variant (s_variants s) = true.
Proof.
  unfold wf_schema. rewrite !andb_true_iff. intros H. split; [apply nodup_str_NoDup|]; tauto.
Qed.

Lemma wf_variant_parts v :
  wf_variant v = true ->
  NoDup (all_names (vfields v)) /\ (forall k, In k (all_names (vfields v)) -> ~ In k reserved_keys) /\ wf_fields (vfields v) = true.
Proof.
  unfold wf_variant. rewrite !andb_true_iff. intros [[[H1 H2] H3] _]. repeat split.
  - apply nodup_str_NoDup. exact H1.
  - apply disjoint_str_spec. exact H2.
  - exact H3.
Qed.

Lemma Forall_roundtrips fs : Forall (fun f : field => roundtrips (snd f)) fs.
Proof. apply Forall_forall. intros f _. apply decv_enc. Qed.

(* reading back what the writer wrote gives the canonical form of the frame *)
Theorem decode_encode s e :
  wf_schema s = true -> wt_event s e = true -> decode_event s (encode_event s e) = Some (canon_event s e).
Proof.
  intros Hwf Hwt. apply wf_schema_parts in Hwf. destruct Hwf as [Htags Hvs].
  unfold wt_event in Hwt. unfold canon_event. destruct (nth_error (s_variants s) (e_var e)) as [v|] eqn:Hn; [|discriminate].
  rewrite !andb_true_iff in Hwt. destruct Hwt as [[Hts Hsq] Hfs].
  assert (Hv : wf_variant v = true) by (rewrite forallb_forall in Hvs; apply Hvs; eapply nth_error_In; exact Hn).
  apply wf_variant_parts in Hv. destruct Hv as [Hnd [Hres Hwff]].
  rewrite (encode_event_eq s e v Hn).
  rewrite (decode_frame s (e_var e) v); try assumption; try lia.
  - rewrite (dec_fields_enc (vfields v) (e_fields e)); try assumption; [reflexivity | apply Forall_roundtrips |].
    intros k Hk Hin. apply (Hres k Hin). cbn [map fst In] in Hk. unfold reserved_keys. cbn [In]. tauto.
  - apply (find_variant_nth (s_variants s) (e_var e) 0 v Htags Hn).
  - intros k Hk. apply Hres. eapply enc_fields_keys. exact Hk.
Qed.

(* ================= the canonical form prints the same / is the same ================= *)
Lemma skipped_canon m t v :
  skip_some_null m t v = false -> skipped (fskip m) (canon t v) = skipped (fskip m) v.
Proof.
  unfold skip_some_null. destruct (fskip m) eqn:Es; cbn [skipped]; intros H.
  - destruct t, v; reflexivity.
  - destruct t; try (destruct v; reflexivity).
    destruct v as [| | | | |[v'|]| | |]; try reflexivity. cbn [canon]. rewrite H. reflexivity.
  - destruct t; try (destruct v; reflexivity).
    destruct v as [| | | | |[v'|]| | |]; try reflexivity.
    + cbn [canon]. destruct (json_is_null (enc t v')); reflexivity.
    + destruct v as [| | | | | |[|x l]| |]; reflexivity.
  - destruct t, v; reflexivity.
Qed.

Definition reprints (t : ty) : Prop := forall v, wire_ok t v = true -> enc t (canon t v) = enc t v.

Lemma wire_ok_fields_cons m t fs v vs :
  wire_ok_fields ((m, t) :: fs) (v :: vs) = negb (skip_some_null m t v) && wire_ok t v && wire_ok_fields fs vs.
Proof. reflexivity. Qed.

Lemma canon_fields_cons m t fs v vs : canon_fields ((m, t) :: fs) (v :: vs) = canon t v :: canon_fields fs vs.
Proof. reflexivity. Qed.

Lemma enc_fields_canon fs : forall vs,
  Forall (fun f => reprints (snd f)) fs -> wire_ok_fields fs vs = true ->
  enc_fields fs (canon_fields fs vs) = enc_fields fs vs.
Proof.
  induction fs as [|[m t] fs IH]; intros [|v vs] HF Hw; try reflexivity.
  inversion HF as [|? ? Hrp HF']; subst. cbn [snd] in Hrp.
  rewrite wire_ok_fields_cons in Hw. rewrite !andb_true_iff in Hw. destruct Hw as [[Hsn Hwv] Hwvs].
  apply negb_true_iff in Hsn.
  rewrite canon_fields_cons, !enc_fields_cons. rewrite (skipped_canon m t v Hsn). rewrite (IH vs HF' Hwvs).
  rewrite (Hrp v Hwv). reflexivity.
Qed.

Theorem enc_canon : forall t, reprints t.
Proof.
  induction t as [| | | | | | | t IH | t IH | tags | fs IH |] using ty_ind'; intros v Hw; try (destruct v; reflexivity).
  - destruct v as [| | | | |[v'|]| | |]; try reflexivity. cbn [wire_ok] in Hw. cbn [canon].
    destruct (json_is_null (enc t v')) eqn:En.
    + cbn [enc]. destruct (enc t v'); try discriminate. reflexivity.
    + cbn [enc]. apply IH. exact Hw.
  - destruct v as [| | | | | |l| |]; try reflexivity. cbn [wire_ok] in Hw. cbn [canon enc]. f_equal.
    rewrite map_map. apply map_ext_in. intros x Hx. apply IH. rewrite forallb_forall in Hw. apply Hw. exact Hx.
  - destruct v as [| | | | | | | |vs]; try reflexivity. rewrite wire_ok_struct in Hw.
    rewrite canon_struct, !enc_struct. f_equal. apply enc_fields_canon; assumption.
Qed.

Theorem encode_canon s e : wire_event s e = true -> encode_event s (canon_event s e) = encode_event s e.
Proof.
  unfold wire_event, canon_event. destruct (nth_error (s_variants s) (e_var e)) as [v|] eqn:Hn; [|reflexivity].
  intros Hw. unfold encode_event. cbn [e_var e_id e_sid e_ts e_seq e_fields]. rewrite Hn. do 2 f_equal.
  unfold enc_fields in *. apply enc_fields_canon; [|exact Hw]. apply Forall_forall. intros f _. apply enc_canon.
Qed.

Definition fixes (t : ty) : Prop := forall v, wt t v = true -> exact_ok t v = true -> canon t v = v.

Lemma exact_ok_fields_cons m t fs v vs :
  exact_ok_fields ((m, t) :: fs) (v :: vs) = exact_ok t v && exact_ok_fields fs vs.
Proof. reflexivity. Qed.

Lemma canon_fields_exact fs : forall vs,
  Forall (fun f => fixes (snd f)) fs -> wt_fields fs vs = true -> exact_ok_fields fs vs = true ->
  canon_fields fs vs = vs.
Proof.
  induction fs as [|[m t] fs IH]; intros [|v vs] HF Hwt Hx; cbn [wt_fields] in Hwt; try discriminate; [reflexivity|].
  inversion HF as [|? ? Hfx HF']; subst. cbn [snd] in Hfx.
  apply andb_true_iff in Hwt. destruct Hwt as [Hv Hvs].
  rewrite exact_ok_fields_cons in Hx. apply andb_true_iff in Hx. destruct Hx as [Hxv Hxvs].
  rewrite canon_fields_cons, (Hfx v Hv Hxv), (IH vs HF' Hvs Hxvs). reflexivity.
Qed.

Theorem canon_exact : forall t, fixes t.
Proof.
  induction t as [| | | | | | | t IH | t IH | tags | fs IH |] using ty_ind'; intros v Hwt Hx; try (destruct v; reflexivity).
  - destruct v as [| | | | |[v'|]| | |]; try reflexivity. cbn [wt] in Hwt. cbn [exact_ok] in Hx.
    apply andb_true_iff in Hx. destruct Hx as [Hn Hx]. apply negb_true_iff in Hn. cbn [canon]. rewrite Hn.
    rewrite (IH v' Hwt Hx). reflexivity.
  - destruct v as [| | | | | |l| |]; try reflexivity. cbn [wt] in Hwt. cbn [exact_ok] in Hx. cbn [canon]. f_equal.
    rewrite <- (map_id l) at 2. apply map_ext_in. intros x Hin. rewrite forallb_forall in Hwt, Hx. apply IH; auto.
  - destruct v as [| | | | | | | |vs]; try reflexivity. rewrite wt_struct in Hwt. rewrite exact_ok_struct in Hx.
    rewrite canon_struct. f_equal. apply canon_fields_exact; assumption.
Qed.

Theorem canon_event_exact s e : wt_event s e = true -> exact_event s e = true -> canon_event s e = e.
Proof.
  unfold wt_event, exact_event, canon_event. destruct (nth_error (s_variants s) (e_var e)) as [v|]; [|discriminate].
  intros Hwt Hx. rewrite !andb_true_iff in Hwt. destruct Hwt as [_ Hfs].
  rewrite (canon_fields_exact (vfields v) (e_fields e)); [destruct e; reflexivity | | exact Hfs | exact Hx].
  apply Forall_forall. intros f _. apply canon_exact.
Qed.

(* stream assignment: a function of the variant alone, and the reader keeps the variant and the session id *)
Lemma canon_event_kind s e : event_kind s (canon_event s e) = event_kind s e.
Proof. unfold event_kind, canon_event. destruct (nth_error (s_variants s) (e_var e)) eqn:E; [cbn [e_var]|]; rewrite E; reflexivity. Qed.

Lemma canon_event_sid s e : e_sid (canon_event s e) = e_sid e.
Proof. unfold canon_event. destruct (nth_error (s_variants s) (e_var e)); reflexivity. Qed.

Lemma canon_event_var s e : e_var (canon_event s e) = e_var e.
Proof. unfold canon_event. destruct (nth_error (s_variants s) (e_var e)); reflexivity. Qed.

(* ================= text level: the written document is well-formed JSON ================= *)
Definition prints_ok (t : ty) : Prop :=
  wf_ty t = true -> forall v, wt t v = true -> txt_ok t v = true -> json_ok (enc t v) = true.

Lemma txt_ok_struct fs vs : txt_ok (TStruct fs) (VStruct vs) = txt_ok_fields fs vs.
Proof. reflexivity. Qed.

Lemma txt_ok_fields_cons m t fs v vs : txt_ok_fields ((m, t) :: fs) (v :: vs) = txt_ok t v && txt_ok_fields fs vs.
Proof. reflexivity. Qed.

Definition kv_ok (kv : str * json) : bool := str_ok (fst kv) && json_ok (snd kv).

Lemma json_ok_obj kvs : json_ok (JObj kvs) = forallb kv_ok kvs.
Proof. reflexivity. Qed.

Lemma wf_meta_key m t : wf_meta m t = true -> str_ok (fkey m) = true.
Proof. unfold wf_meta. rewrite !andb_true_iff. tauto. Qed.

Lemma enc_fields_ok fs : forall vs,
  Forall (fun f => prints_ok (snd f)) fs -> wf_fields fs = true -> wt_fields fs vs = true -> txt_ok_fields fs vs = true ->
  forallb kv_ok (enc_fields fs vs) = true.
Proof.
  induction fs as [|[m t] fs IH]; intros [|v vs] HF Hwf Hwt Htx; try reflexivity.
  inversion HF as [|? ? Hp HF']; subst. cbn [snd] in Hp.
  rewrite wf_fields_cons in Hwf. rewrite wt_fields_cons in Hwt. rewrite txt_ok_fields_cons in Htx.
  rewrite !andb_true_iff in Hwf. destruct Hwf as [[Hmeta Hty] Hwfs].
  apply andb_true_iff in Hwt. destruct Hwt as [Hv Hvs]. apply andb_true_iff in Htx. destruct Htx as [Hx Hxs].
  rewrite enc_fields_cons. destruct (skipped (fskip m) v); [apply IH; assumption|].
  cbn [forallb]. rewrite (IH vs HF' Hwfs Hvs Hxs). unfold kv_ok. cbn [fst snd].
  rewrite (wf_meta_key m t Hmeta), (Hp Hty v Hv Hx). reflexivity.
Qed.

Theorem json_ok_enc : forall t, prints_ok t.
Proof.
  induction t as [| | | | | | | t IH | t IH | tags | fs IH |] using ty_ind'; intros Hwf v Hwt Htx.
  - destruct v; try discriminate. exact Htx.
  - destruct v; try discriminate. apply num_ok_dec.
  - destruct v; try discriminate. apply num_ok_dec.
  - destruct v; try discriminate. apply num_ok_dec.
  - destruct v; try discriminate. apply num_ok_decz.
  - destruct v; try discriminate. reflexivity.
  - destruct v; try discriminate. exact Htx.
  - destruct v as [| | | | |[v'|]| | |]; try discriminate; [|reflexivity]. apply IH; assumption.
  - destruct v as [| | | | | |l| |]; try discriminate. cbn [wt] in Hwt. cbn [txt_ok] in Htx. cbn [wf_ty] in Hwf.
    cbn [enc json_ok]. rewrite forallb_forall in *. intros j Hj. apply in_map_iff in Hj. destruct Hj as [x [<- Hx]].
    apply IH; auto.
  - destruct v; try discriminate. cbn [wt] in Hwt. cbn [wf_ty] in Hwf. apply andb_true_iff in Hwf. destruct Hwf as [_ Hok].
    cbn [enc json_ok]. apply mem_str_In in Hwt. rewrite forallb_forall in Hok. apply Hok. exact Hwt.
  - destruct v as [| | | | | | | |vs]; try discriminate. rewrite wt_struct in Hwt. rewrite txt_ok_struct in Htx.
    rewrite wf_ty_struct in Hwf. apply andb_true_iff in Hwf. destruct Hwf as [_ Hwfs].
    rewrite enc_struct, json_ok_obj. apply enc_fields_ok; assumption.
  - discriminate.
Qed.

Lemma kind_name_ok k : str_ok (kind_name k) = true.
Proof. destruct k; vm_compute; reflexivity. Qed.

Lemma env7_ok a b c d e f g :
  json_ok a = true -> json_ok b = true -> json_ok c = true -> json_ok d = true -> json_ok e = true -> json_ok f = true ->
  json_ok g = true -> forallb kv_ok (env7 a b c d e f g) = true.
Proof.
  intros Ha Hb Hc Hd He Hf Hg. unfold env7. cbn [forallb]. unfold kv_ok. cbn [fst snd].
  rewrite Ha, Hb, Hc, Hd, He, Hf, Hg. vm_compute. reflexivity.
Qed.

Theorem json_ok_encode s e :
  wf_schema s = true -> frame_ok s e = true -> json_ok (encode_event s e) = true.
Proof.
  intros Hwf Hok. apply wf_schema_parts in Hwf. destruct Hwf as [_ Hvs].
  unfold frame_ok, wt_event, txt_event in Hok.
  destruct (nth_error (s_variants s) (e_var e)) as [v|] eqn:Hn; [|discriminate].
  rewrite !andb_true_iff in Hok. destruct Hok as [[[Hts Hsq] Hfs] [[Hid Hsid] Htx]].
  assert (Hv : wf_variant v = true) by (rewrite forallb_forall in Hvs; apply Hvs; eapply nth_error_In; exact Hn).
  assert (Htag : str_ok (vtag v) = true) by (unfold wf_variant in Hv; rewrite !andb_true_iff in Hv; tauto).
  apply wf_variant_parts in Hv. destruct Hv as [_ [_ Hwff]].
  rewrite (encode_event_eq s e v Hn), json_ok_obj, forallb_app. apply andb_true_iff. split.
  - apply env7_ok; cbn [json_ok]; auto using kind_name_ok, num_ok_dec.
  - apply enc_fields_ok; try assumption. apply Forall_forall. intros f _. apply json_ok_enc.
Qed.

(* ================= one line: what is appended to events.jsonl / a sidecar reads back ================= *)
Theorem read_write_line s e :
  wf_schema s = true -> frame_ok s e = true -> depth_ok s e = true ->
  read_line s (write_line s e) = Some (canon_event s e).
Proof.
  intros Hwf Hok Hd. unfold read_line, write_line.
  rewrite parse_print; [| apply json_ok_encode; assumption | apply Nat.ltb_lt; exact Hd].
  apply decode_encode; [exact Hwf|]. unfold frame_ok in Hok. apply andb_true_iff in Hok. tauto.
Qed.

(* ================= one snapshot file ================= *)
Lemma fold_max_lt (l : list nat) n : (0 < n)%nat -> Forall (fun d => (d < n)%nat) l -> (fold_right Nat.max 0%nat l < n)%nat.
Proof. intros Hn H. induction H as [|d l Hd _ IH]; cbn [fold_right]; [exact Hn | lia]. Qed.

Theorem read_write_snapshot s es :
  wf_schema s = true ->
  Forall (fun e => frame_ok s e = true /\ snapshot_depth_ok s e = true) es ->
  read_snapshot s (write_snapshot s es) = Some (map (canon_event s) es).
Proof.
  intros Hwf HF. unfold read_snapshot, write_snapshot. rewrite parse_print_pretty.
  - apply map_opt_map. intros e He. rewrite Forall_forall in HF. destruct (HF e He) as [Hok _].
    apply decode_encode; [exact Hwf|]. unfold frame_ok in Hok. apply andb_true_iff in Hok. tauto.
  - cbn [json_ok]. rewrite forallb_forall. intros j Hj. apply in_map_iff in Hj. destruct Hj as [e [<- He]].
    rewrite Forall_forall in HF. destruct (HF e He) as [Hok _]. apply json_ok_encode; assumption.
  - cbn [json_depth]. apply (proj1 (Nat.succ_lt_mono _ _)). apply fold_max_lt; [lia|].
    rewrite map_map. apply Forall_forall. intros d Hd. apply in_map_iff in Hd. destruct Hd as [e [<- He]].
    rewrite Forall_forall in HF. destruct (HF e He) as [_ Hdp]. apply Nat.ltb_lt. exact Hdp.
Qed.

(* ================= the four views of a stream ================= *)
Lemma stream_key_canon s e : stream_key s (canon_event s e) = stream_key s e.
Proof. unfold stream_key. rewrite canon_event_kind, canon_event_sid. reflexivity. Qed.

Lemma of_stream_canon s key es : of_stream s key (map (canon_event s) es) = map (canon_event s) (of_stream s key es).
Proof.
  unfold of_stream. induction es as [|e es IH]; [reflexivity|].
  cbn [map filter]. rewrite stream_key_canon. destruct (key_eqb (stream_key s e) key); cbn [map]; rewrite IH; reflexivity.
Qed.

Lemma run_emits_from s es : forall k,
  fold_left (emit s) es k =
  {| k_log := k_log k ++ map (write_line s) es;
     k_sidecar := k_sidecar k ++ map (fun e => (fst (stream_key s e), snd (stream_key s e), write_line s e)) es;
     k_buffer := k_buffer k ++ es;
     k_live := k_live k ++ es |}.
Proof.
  induction es as [|e es IH]; intros k; cbn [fold_left map].
  - rewrite !app_nil_r. destruct k; reflexivity.
  - rewrite IH. unfold emit. cbn [k_log k_sidecar k_buffer k_live]. rewrite <- !app_assoc. reflexivity.
Qed.

Lemma run_emits_eq s es :
  run_emits s es =
  {| k_log := map (write_line s) es;
     k_sidecar := map (fun e => (fst (stream_key s e), snd (stream_key s e), write_line s e)) es;
     k_buffer := es; k_live := es |}.
Proof. unfold run_emits. rewrite run_emits_from. reflexivity. Qed.

Definition all_ok (s : schema) (es : list event) : Prop :=
  Forall (fun e => frame_ok s e = true /\ snapshot_depth_ok s e = true) es.

Lemma snapshot_depth_depth s e : snapshot_depth_ok s e = true -> depth_ok s e = true.
Proof. unfold snapshot_depth_ok, depth_ok. rewrite !Nat.ltb_lt. lia. Qed.

Lemma read_lines s es :
  wf_schema s = true -> all_ok s es -> map_opt (read_line s) (map (write_line s) es) = Some (map (canon_event s) es).
Proof.
  intros Hwf HF. apply map_opt_map. intros e He. unfold all_ok in HF. rewrite Forall_forall in HF.
  destruct (HF e He) as [Hok Hd]. apply read_write_line; auto using snapshot_depth_depth.
Qed.

Lemma all_ok_filter s p es : all_ok s es -> all_ok s (filter p es).
Proof.
  unfold all_ok. rewrite !Forall_forall. intros H e He. apply filter_In in He. apply H. tauto.
Qed.

Lemma key_pair (x : N * str) : (fst x, snd x) = x.
Proof. destruct x; reflexivity. Qed.

Theorem views_agree s es key :
  wf_schema s = true -> all_ok s es ->
  let k := run_emits s es in
  view_log s key k = Some (map (canon_event s) (view_live s key k))
  /\ view_sidecar s key k = Some (map (canon_event s) (view_live s key k))
  /\ view_snapshot s key k = Some (map (canon_event s) (view_live s key k)).
Proof.
  intros Hwf HF k. subst k. rewrite run_emits_eq.
  unfold view_log, view_sidecar, view_snapshot, view_live. cbn [k_log k_sidecar k_buffer k_live]. repeat split.
  - rewrite (read_lines s es Hwf HF). cbn [option_map]. rewrite of_stream_canon. reflexivity.
  - assert (E : map (fun x : N * str * str => snd x)
                  (filter (fun x => key_eqb (fst (fst x), snd (fst x)) key)
                     (map (fun e => (fst (stream_key s e), snd (stream_key s e), write_line s e)) es))
                = map (write_line s) (of_stream s key es)).
    { unfold of_stream. clear HF. induction es as [|e es IH]; [reflexivity|].
      cbn [map filter fst snd]. rewrite key_pair. destruct (key_eqb (stream_key s e) key); cbn [map snd]; rewrite IH; reflexivity. }
    rewrite E. apply read_lines; [exact Hwf | apply all_ok_filter; exact HF].
  - apply read_write_snapshot; [exact Hwf | apply all_ok_filter; exact HF].
Qed.

(* nothing appears in a view that is not in the log *)
Theorem views_within_log s es key e :
  wf_schema s = true -> all_ok s es ->
  let k := run_emits s es in
  (forall v, (view_sidecar s key k = Some v \/ view_snapshot s key k = Some v \/ v = map (canon_event s) (view_live s key k)) ->
             In e v -> exists all, map_opt (read_line s) (k_log k) = Some all /\ In e all).
Proof.
  intros Hwf HF k v Hv Hin. destruct (views_agree s es key Hwf HF) as [_ [H2 H3]]. fold k in H2, H3.
  assert (Ev : v = map (canon_event s) (view_live s key k)).
  { destruct Hv as [Hv | [Hv | Hv]]; [rewrite H2 in Hv | rewrite H3 in Hv | exact Hv]; congruence. }
  subst v. exists (map (canon_event s) es). split.
  - subst k. rewrite run_emits_eq. cbn [k_log]. apply read_lines; assumption.
  - apply in_map_iff in Hin. destruct Hin as [x [<- Hx]]. apply in_map. subst k. rewrite run_emits_eq in Hx.
    unfold view_live, of_stream in Hx. cbn [k_live] in Hx. apply filter_In in Hx. tauto.
Qed.

(* when no Some(x) prints as null, the views are the live frames themselves *)
Lemma map_canon_exact s es :
  Forall (fun e => wt_event s e = true /\ exact_event s e = true) es -> map (canon_event s) es = es.
Proof.
  intros H. induction H as [|e es [Hw Hx] _ IH]; [reflexivity|]. cbn [map]. rewrite IH, (canon_event_exact s e Hw Hx). reflexivity.
Qed.

Theorem views_exact s es key :
  wf_schema s = true -> all_ok s es -> Forall (fun e => exact_event s e = true) es ->
  let k := run_emits s es in
  view_log s key k = Some (view_live s key k)
  /\ view_sidecar s key k = Some (view_live s key k)
  /\ view_snapshot s key k = Some (view_live s key k).
Proof.
  intros Hwf HF Hx k. destruct (views_agree s es key Hwf HF) as [H1 [H2 H3]]. fold k in H1, H2, H3.
  assert (E : map (canon_event s) (view_live s key k) = view_live s key k).
  { apply map_canon_exact. subst k. rewrite run_emits_eq. unfold view_live, of_stream. cbn [k_live].
    apply Forall_forall. intros e He. apply filter_In in He. destruct He as [He _].
    unfold all_ok in HF. rewrite Forall_forall in HF, Hx. destruct (HF e He) as [Hok _].
    unfold frame_ok in Hok. apply andb_true_iff in Hok. split; [tauto | apply Hx; exact He]. }
  rewrite E in H1, H2, H3. auto.
Qed.

(* ================= the statements of Props/C03.v ================= *)
Theorem roundtrip_wire s e :
  wf_schema s = true -> frame_ok s e = true -> depth_ok s e = true -> wire_event s e = true ->
  exists e', read_line s (write_line s e) = Some e' /\ write_line s e' = write_line s e
             /\ event_kind s e' = event_kind s e /\ e_sid e' = e_sid e /\ e_var e' = e_var e.
Proof.
  intros Hwf Hok Hd Hw. exists (canon_event s e). split; [apply read_write_line; assumption|].
  split; [unfold write_line; rewrite encode_canon by exact Hw; reflexivity|].
  split; [apply canon_event_kind|]. split; [apply canon_event_sid | apply canon_event_var].
Qed.

Theorem roundtrip_exact s e :
  wf_schema s = true -> frame_ok s e = true -> depth_ok s e = true -> exact_event s e = true ->
  read_line s (write_line s e) = Some e.
Proof.
  intros Hwf Hok Hd Hx. rewrite read_write_line by assumption. f_equal. apply canon_event_exact; [|exact Hx].
  unfold frame_ok in Hok. apply andb_true_iff in Hok. tauto.
Qed.

Theorem stream_preserved s e :
  wf_schema s = true -> frame_ok s e = true -> depth_ok s e = true ->
  exists e', read_line s (write_line s e) = Some e' /\ stream_key s e' = stream_key s e.
Proof.
  intros Hwf Hok Hd. exists (canon_event s e). split; [apply read_write_line; assumption | apply stream_key_canon].
Qed.

Theorem kind_of_variant_only s e e' : e_var e = e_var e' -> event_kind s e = event_kind s e'.
Proof. unfold event_kind. intros ->. reflexivity. Qed.

Theorem snapshot_exact s es :
  wf_schema s = true -> all_ok s es -> Forall (fun e => exact_event s e = true) es ->
  read_snapshot s (write_snapshot s es) = Some es.
Proof.
  intros Hwf HF Hx. rewrite read_write_snapshot by assumption. f_equal. apply map_canon_exact.
  apply Forall_forall. intros e He. unfold all_ok in HF. rewrite Forall_forall in HF, Hx. destruct (HF e He) as [Hok _].
  unfold frame_ok in Hok. apply andb_true_iff in Hok. split; [tauto | apply Hx; exact He].
Qed.

(* ================= witnesses: a small well-formed schema and frames over it ================= *)
Definition demo_variant : variant :=
  {| vname := [86]; vtag := [118]; valiases := [[119]];
     vfields := [ (mkF [97] false [] SkipNever, TVal);                       (* a: Value *)
                  (mkF [114] true [] SkipIsNone, TOpt TVal);                 (* r: Option<Value>, default, skipped if None *)
                  (mkF [111] false [[112]] SkipNever, TOpt TVal);            (* o: Option<Value>, alias p *)
                  (mkF [108] true [] SkipIsEmpty, TVec TStr);                (* l: Vec<String>, default, skipped if empty *)
                  (mkF [110] false [] SkipNever, TI32) ] |}.                 (* n: i32 *)

Definition schema_with (vs : list variant) : schema :=
  {| s_variants := vs; s_arms := []; s_default_kind := KSession; s_default_guard := false;
     s_wire := expected_wire; s_wire_flatten := (k_kind, x_self_kind);
     s_event := expected_event; s_event_flatten := (k_kind, t_EventKind);
     s_stream_id_body := x_self_session_id; s_tag_key := k_type; s_supported := true |}.

Definition demo_schema : schema := schema_with [demo_variant].

Definition demo_event (fields : list value) : event :=
  {| e_id := [105]; e_sid := [115; 233; 128512]; e_ts := 1758000000000; e_seq := 7; e_var := 0; e_fields := fields |}.

Definition ev_plain : event :=
  demo_event [VVal (JObj [([107], JArr [JNum [49; 46; 53]; JNull])]); VOpt None; VOpt (Some (VVal (JStr [120]))); VVec []; VInt (-15)%Z].
Definition ev_some_null_skipped : event :=
  demo_event [VVal JNull; VOpt (Some (VVal JNull)); VOpt None; VVec [VStr [104; 105]]; VInt 0%Z].
Definition ev_some_null_kept : event :=
  demo_event [VVal JNull; VOpt None; VOpt (Some (VVal JNull)); VVec []; VInt 2147483647%Z].
Definition ev_deep : event :=
  demo_event [VVal (nested_arrays 126); VOpt None; VOpt None; VVec []; VInt 0%Z].

Lemma demo_schema_wf : wf_schema demo_schema = true.
Proof. vm_compute. reflexivity. Qed.

Lemma ev_plain_ok :
  frame_ok demo_schema ev_plain = true /\ depth_ok demo_schema ev_plain = true /\ snapshot_depth_ok demo_schema ev_plain = true
  /\ wire_event demo_schema ev_plain = true /\ exact_event demo_schema ev_plain = true.
Proof. vm_compute. repeat split; reflexivity. Qed.

Lemma ev_plain_all_ok : all_ok demo_schema [ev_plain; ev_some_null_kept].
Proof. repeat constructor; vm_compute; reflexivity. Qed.

(* Some(null) in a skipped-when-None field: written as "r":null, read back as None, written again without
   the key — the wire guard of roundtrip_wire is necessary *)
Lemma some_null_skipped_witness :
  wf_schema demo_schema = true /\ frame_ok demo_schema ev_some_null_skipped = true /\ depth_ok demo_schema ev_some_null_skipped = true
  /\ exists e', read_line demo_schema (write_line demo_schema ev_some_null_skipped) = Some e'
                /\ write_line demo_schema e' <> write_line demo_schema ev_some_null_skipped.
Proof.
  split; [vm_compute; reflexivity|]. split; [vm_compute; reflexivity|]. split; [vm_compute; reflexivity|].
  exists (canon_event demo_schema ev_some_null_skipped). split; [vm_compute; reflexivity | vm_compute; discriminate].
Qed.

Theorem some_null_skipped_refuted :
  exists s e, wf_schema s = true /\ frame_ok s e = true /\ depth_ok s e = true
              /\ exists e', read_line s (write_line s e) = Some e' /\ write_line s e' <> write_line s e.
Proof. exists demo_schema, ev_some_null_skipped. exact some_null_skipped_witness. Qed.

(* Some(null) in an always-written Option field: the wire form is unchanged, the value is not *)
Lemma some_null_kept_witness :
  wf_schema demo_schema = true /\ frame_ok demo_schema ev_some_null_kept = true /\ depth_ok demo_schema ev_some_null_kept = true
  /\ wire_event demo_schema ev_some_null_kept = true
  /\ exists e', read_line demo_schema (write_line demo_schema ev_some_null_kept) = Some e' /\ e' <> ev_some_null_kept
                /\ write_line demo_schema e' = write_line demo_schema ev_some_null_kept.
Proof.
  split; [vm_compute; reflexivity|]. split; [vm_compute; reflexivity|]. split; [vm_compute; reflexivity|].
  split; [vm_compute; reflexivity|].
  exists (canon_event demo_schema ev_some_null_kept). split; [vm_compute; reflexivity|]. split; [vm_compute; discriminate | vm_compute; reflexivity].
Qed.

Theorem exact_needs_guard_refuted :
  exists s e, wf_schema s = true /\ frame_ok s e = true /\ depth_ok s e = true /\ wire_event s e = true
              /\ exists e', read_line s (write_line s e) = Some e' /\ e' <> e /\ write_line s e' = write_line s e.
Proof. exists demo_schema, ev_some_null_kept. exact some_null_kept_witness. Qed.

(* serde_json's recursion limit: a payload nested 127 deep sits 128 deep inside its frame; the writer writes
   it, the reader refuses it — the depth guard is necessary *)
Lemma depth_limit_witness :
  wf_schema demo_schema = true /\ frame_ok demo_schema ev_deep = true /\ wire_event demo_schema ev_deep = true
  /\ exact_event demo_schema ev_deep = true /\ read_line demo_schema (write_line demo_schema ev_deep) = None.
Proof. repeat split; vm_compute; reflexivity. Qed.

Theorem depth_limit_refuted :
  exists s e, wf_schema s = true /\ frame_ok s e = true /\ wire_event s e = true /\ exact_event s e = true
              /\ read_line s (write_line s e) = None.
Proof. exists demo_schema, ev_deep. exact depth_limit_witness. Qed.

(* the schema conditions are needed: `skip_serializing_if` on a field that is neither `default` nor Option *)
Definition bad_variant : variant :=
  {| vname := [86]; vtag := [118]; valiases := [];
     vfields := [ (mkF [108] false [] SkipIsEmpty, TVec TStr) ] |}.
Definition bad_schema : schema := schema_with [bad_variant].
Definition ev_empty_vec : event := demo_event [VVec []].

Lemma skip_without_default_witness :
  wf_schema bad_schema = false /\ frame_ok bad_schema ev_empty_vec = true /\ depth_ok bad_schema ev_empty_vec = true
  /\ exact_event bad_schema ev_empty_vec = true /\ read_line bad_schema (write_line bad_schema ev_empty_vec) = None.
Proof. repeat split; vm_compute; reflexivity. Qed.

Theorem skip_without_default_refuted :
  exists s e, wf_schema s = false /\ frame_ok s e = true /\ depth_ok s e = true /\ exact_event s e = true
              /\ read_line s (write_line s e) = None.
Proof. exists bad_schema, ev_empty_vec. exact skip_without_default_witness. Qed.

(* a renamed field whose old key is not kept as an alias: old lines no longer read (what `alias` is for) *)
Definition old_variant : variant :=
  {| vname := [86]; vtag := [118]; valiases := []; vfields := [ (mkF [97] false [] SkipNever, TStr) ] |}.
Definition new_variant_no_alias : variant :=
  {| vname := [86]; vtag := [118]; valiases := []; vfields := [ (mkF [98] false [] SkipNever, TStr) ] |}.
Definition new_variant_alias : variant :=
  {| vname := [86]; vtag := [118]; valiases := []; vfields := [ (mkF [98] false [[97]] SkipNever, TStr) ] |}.
Definition ev_str : event := demo_event [VStr [120]].

Lemma rename_witness :
  read_line (schema_with [new_variant_no_alias]) (write_line (schema_with [old_variant]) ev_str) = None
  /\ read_line (schema_with [new_variant_alias]) (write_line (schema_with [old_variant]) ev_str) = Some ev_str.
Proof. split; vm_compute; reflexivity. Qed.

(* ================= the sidecar as a cache that can be lost while the store lives =================
   After ANY history of emits, sidecar losses (one stream / the directory) and replays, replay_events of a stream
   returns the frames of the log for that stream = the frames the live subscriber received (canonical form),
   provided the replay check is the one of today's source (wf_replay_check: first line seq 0, successor seqs, empty
   refused, log fallback) and the store numbers every stream 0,1,2,...  Dropping "first line seq 0" breaks it. *)
Lemma key_eqb_spec a b : key_eqb a b = true <-> a = b.
Proof.
  unfold key_eqb. rewrite andb_true_iff, N.eqb_eq, str_eqb_spec. destruct a as [a1 a2], b as [b1 b2]. cbn [fst snd].
  split; [intros [-> ->]; reflexivity | intros H; inversion H; auto].
Qed.

Lemma key_eqb_refl a : key_eqb a a = true.
Proof. apply key_eqb_spec. reflexivity. Qed.

Lemma side_of_app key a b : side_of key (a ++ b) = side_of key a ++ side_of key b.
Proof. unfold side_of. rewrite filter_app, map_app. reflexivity. Qed.

Lemma side_of_drop_same key sd : side_of key (drop_key key sd) = [].
Proof.
  unfold side_of, drop_key. induction sd as [|x sd IH]; [reflexivity|]. cbn [filter].
  destruct (key_eqb (side_key x) key) eqn:E; cbn [negb filter]; [exact IH | rewrite E; exact IH].
Qed.

Lemma side_of_drop_other key key0 sd : key_eqb key key0 = false -> side_of key (drop_key key0 sd) = side_of key sd.
Proof.
  intros Hne. unfold side_of, drop_key. induction sd as [|x sd IH]; [reflexivity|]. cbn [filter].
  destruct (key_eqb (side_key x) key0) eqn:E0; cbn [negb filter].
  - destruct (key_eqb (side_key x) key) eqn:E1; [|exact IH].
    apply key_eqb_spec in E0, E1. rewrite <- E1, E0, key_eqb_refl in Hne. discriminate.
  - destruct (key_eqb (side_key x) key) eqn:E1; cbn [map]; rewrite IH; reflexivity.
Qed.

Lemma side_of_rebuilt (f : event -> str) key key0 es :
  side_of key (map (fun e => (fst key0, snd key0, f e)) es) = if key_eqb key0 key then map f es else [].
Proof.
  unfold side_of, side_key. destruct key0 as [a b]. cbn [fst snd].
  induction es as [|e es IH]; [destruct (key_eqb (a, b) key); reflexivity|].
  cbn [map filter fst snd]. destruct (key_eqb (a, b) key) eqn:E; cbn [map snd]; rewrite IH; reflexivity.
Qed.

Lemma of_stream_app s key a b : of_stream s key (a ++ b) = of_stream s key a ++ of_stream s key b.
Proof. unfold of_stream. apply filter_app. Qed.

Lemma skipn_app_le {A} n (l l2 : list A) : (n <= length l)%nat -> skipn n (l ++ l2) = skipn n l ++ l2.
Proof.
  revert l. induction n as [|n IH]; intros l Hn; [reflexivity|].
  destruct l as [|x l]; cbn [length] in Hn; [lia|]. cbn [app skipn]. apply IH. lia.
Qed.

Lemma skipn_length_nil {A} (l : list A) : skipn (length l) l = [].
Proof. induction l as [|x l IH]; [reflexivity | exact IH]. Qed.

Definition side_inv (s : schema) (es : list event) (sd : list (N * str * str)) : Prop :=
  forall key, exists n, (n <= length (of_stream s key es))%nat
                        /\ side_of key sd = map (write_line s) (skipn n (of_stream s key es)).

Definition hist_inv (s : schema) (es : list event) (k : sinks) : Prop :=
  k_log k = map (write_line s) es /\ k_live k = es /\ k_buffer k = es /\ side_inv s es (k_sidecar k).

Lemma hist_inv0 s : hist_inv s [] sinks0.
Proof. repeat split. intros key. exists 0%nat. split; [cbn; lia | reflexivity]. Qed.

Lemma hist_inv_emit s es k e : hist_inv s es k -> hist_inv s (es ++ [e]) (emit s k e).
Proof.
  intros [Hl [Hv [Hb Hs]]]. unfold emit. repeat split; cbn [k_log k_live k_buffer k_sidecar].
  - rewrite Hl, map_app. reflexivity.
  - rewrite Hv. reflexivity.
  - rewrite Hb. reflexivity.
  - intros key. destruct (Hs key) as [n [Hn Hk]]. exists n. rewrite of_stream_app, side_of_app, Hk. split.
    + rewrite app_length. lia.
    + rewrite skipn_app_le by exact Hn. rewrite map_app. f_equal.
      unfold side_of, of_stream. cbn [filter]. unfold side_key. cbn [fst snd]. rewrite key_pair.
      destruct (key_eqb (stream_key s e) key); reflexivity.
Qed.

Lemma hist_inv_lose s es k key0 : hist_inv s es k -> hist_inv s es (with_sidecar k (drop_key key0 (k_sidecar k))).
Proof.
  intros [Hl [Hv [Hb Hs]]]. repeat split; cbn [with_sidecar k_log k_live k_buffer k_sidecar]; try assumption.
  intros key. destruct (key_eqb key key0) eqn:E.
  - apply key_eqb_spec in E. subst key0. exists (length (of_stream s key es)). split; [lia|].
    rewrite side_of_drop_same, skipn_length_nil. reflexivity.
  - destruct (Hs key) as [n [Hn Hk]]. exists n. split; [exact Hn|]. rewrite side_of_drop_other by exact E. exact Hk.
Qed.

Lemma hist_inv_lose_all s es k : hist_inv s es k -> hist_inv s es (with_sidecar k []).
Proof.
  intros [Hl [Hv [Hb Hs]]]. repeat split; cbn [with_sidecar k_log k_live k_buffer k_sidecar]; try assumption.
  intros key. exists (length (of_stream s key es)). split; [lia|]. rewrite skipn_length_nil. reflexivity.
Qed.

Definition wire_ok (s : schema) (es : list event) : Prop := Forall (fun e => wire_event s e = true) es.

Lemma write_line_canon s e : wire_event s e = true -> write_line s (canon_event s e) = write_line s e.
Proof. intros H. unfold write_line. rewrite encode_canon by exact H. reflexivity. Qed.

Lemma view_log_inv s es k key :
  wf_schema s = true -> all_ok s es -> hist_inv s es k ->
  view_log s key k = Some (map (canon_event s) (of_stream s key es)).
Proof.
  intros Hwf Hok [Hl _]. unfold view_log. rewrite Hl, (read_lines s es Hwf Hok). cbn [option_map].
  rewrite of_stream_canon. reflexivity.
Qed.

Lemma wire_ok_filter s p es : wire_ok s es -> wire_ok s (filter p es).
Proof. unfold wire_ok. rewrite !Forall_forall. intros H e He. apply filter_In in He. apply H. tauto. Qed.

Lemma map_write_canon s es : wire_ok s es -> map (write_line s) (map (canon_event s) es) = map (write_line s) es.
Proof.
  intros H. induction H as [|e es He _ IH]; [reflexivity|]. cbn [map]. rewrite IH, write_line_canon by exact He. reflexivity.
Qed.

Lemma hist_inv_replay rc s es k key0 :
  wf_schema s = true -> all_ok s es -> wire_ok s es -> hist_inv s es k ->
  hist_inv s es (snd (replay_events rc s key0 k)).
Proof.
  intros Hwf Hok Hw Hinv. unfold replay_events.
  destruct (try_replay rc s key0 (k_sidecar k)); [exact Hinv|].
  destruct (rc_fallback_log rc); [|exact Hinv].
  rewrite (view_log_inv s es k key0 Hwf Hok Hinv). cbn [snd].
  destruct (map (canon_event s) (of_stream s key0 es)) as [|c cs] eqn:Ec; [exact Hinv|]. rewrite <- Ec. clear c cs Ec.
  destruct Hinv as [Hl [Hv [Hb Hs]]]. repeat split; cbn [with_sidecar k_log k_live k_buffer k_sidecar]; try assumption.
  intros key. rewrite side_of_app, side_of_rebuilt. destruct (key_eqb key key0) eqn:E.
  - apply key_eqb_spec in E. subst key0. rewrite key_eqb_refl, side_of_drop_same. exists 0%nat. split; [lia|].
    cbn [app skipn]. apply map_write_canon. apply wire_ok_filter. exact Hw.
  - assert (E' : key_eqb key0 key = false).
    { destruct (key_eqb key0 key) eqn:E2; [|reflexivity]. apply key_eqb_spec in E2. subst key0. rewrite key_eqb_refl in E. discriminate. }
    rewrite E', app_nil_r, side_of_drop_other by exact E. apply Hs.
Qed.

Lemma run_hist_inv rc s hs :
  wf_schema s = true -> all_ok s (emitted hs) -> wire_ok s (emitted hs) ->
  hist_inv s (emitted hs) (run_hist rc s hs).
Proof.
  intros Hwf. unfold run_hist.
  assert (G : forall hs es k, hist_inv s es k -> all_ok s (es ++ emitted hs) -> wire_ok s (es ++ emitted hs) ->
                              hist_inv s (es ++ emitted hs) (fold_left (hstep_run rc s) hs k)).
  { clear hs. induction hs as [|h hs IH]; intros es k Hinv Hok Hw; cbn [fold_left emitted flat_map].
    - rewrite app_nil_r. exact Hinv.
    - fold (emitted hs). fold (emitted hs) in Hok, Hw. cbn [emitted flat_map] in Hok, Hw. fold (emitted hs) in Hok, Hw.
      destruct h as [e | key0 | | key0]; cbn [hstep_run app] in *.
      + change (e :: emitted hs) with ([e] ++ emitted hs) in *. rewrite app_assoc in *. apply IH; try assumption.
        apply hist_inv_emit. exact Hinv.
      + apply IH; try assumption. apply hist_inv_lose. exact Hinv.
      + apply IH; try assumption. apply hist_inv_lose_all. exact Hinv.
      + apply IH; try assumption. apply hist_inv_replay; try assumption.
        * unfold all_ok in *. apply Forall_app in Hok. tauto.
        * unfold wire_ok in *. apply Forall_app in Hw. tauto. }
  intros Hok Hw. apply (G hs [] sinks0 (hist_inv0 s)); assumption.
Qed.

Lemma canon_event_seq s e : e_seq (canon_event s e) = e_seq e.
Proof. unfold canon_event. destruct (nth_error (s_variants s) (e_var e)); reflexivity. Qed.

Lemma seqs_from_skipn n : forall m (l : list event) e r,
  seqs_from m l = true -> skipn n l = e :: r -> e_seq e = (m + N.of_nat n)%N.
Proof.
  induction n as [|n IH]; intros m l e r Hs Hk.
  - cbn [skipn] in Hk. subst l. cbn [seqs_from] in Hs. apply andb_true_iff in Hs. destruct Hs as [Hs _].
    apply N.eqb_eq in Hs. lia.
  - destruct l as [|x l]; cbn [skipn] in Hk; [discriminate|]. cbn [seqs_from] in Hs. apply andb_true_iff in Hs.
    destruct Hs as [_ Hs]. rewrite (IH _ _ _ _ Hs Hk). lia.
Qed.

Lemma all_ok_skipn s n es : all_ok s es -> all_ok s (skipn n es).
Proof.
  unfold all_ok. rewrite !Forall_forall. intros H e He. apply H. rewrite <- (firstn_skipn n es). apply in_or_app. right. exact He.
Qed.

(* the central statement: on an invariant state the store's replay of a stream is the log's view of it *)
Lemma replay_events_inv rc s es k key :
  wf_schema s = true -> wf_replay_check rc = true -> all_ok s es -> hist_inv s es k ->
  seqs_from 0 (of_stream s key es) = true ->
  fst (replay_events rc s key k) = Some (map (canon_event s) (of_stream s key es)).
Proof.
  intros Hwf Hrc Hok Hinv Hseq. unfold wf_replay_check in Hrc. rewrite !andb_true_iff in Hrc.
  destruct Hrc as [[[Hz Hsu] Hem] Hfb].
  pose proof (view_log_inv s es k key Hwf Hok Hinv) as Hlog.
  unfold replay_events. rewrite Hfb, Hlog.
  assert (Hfall : forall o : option (list event),
            (forall v, o = Some v -> v = map (canon_event s) (of_stream s key es)) ->
            fst match o with
                | Some es0 => (Some es0, k)
                | None => (Some (map (canon_event s) (of_stream s key es)),
                           match map (canon_event s) (of_stream s key es) with
                           | [] => k
                           | _ :: _ => with_sidecar k (drop_key key (k_sidecar k) ++
                                         map (fun e => (fst key, snd key, write_line s e)) (map (canon_event s) (of_stream s key es)))
                           end)
                end = Some (map (canon_event s) (of_stream s key es))).
  { intros [v|] Hv; cbn [fst]; [rewrite (Hv v eq_refl)|]; reflexivity. }
  apply Hfall. intros v Hv. destruct Hinv as [_ [_ [_ Hs]]]. destruct (Hs key) as [n [Hn Hk]].
  unfold try_replay in Hv. rewrite Hk, Hz, Hsu, Hem in Hv. cbn [negb orb] in Hv.
  destruct (skipn n (of_stream s key es)) as [|e r] eqn:Esk; cbn [map] in Hv; [discriminate|].
  change (write_line s e :: map (write_line s) r) with (map (write_line s) (e :: r)) in Hv.
  assert (Hok' : all_ok s (e :: r)). { rewrite <- Esk. apply all_ok_skipn, all_ok_filter. exact Hok. }
  rewrite (read_lines s (e :: r) Hwf Hok') in Hv.
  destruct (first_zero (map (canon_event s) (e :: r)) && follows (map (canon_event s) (e :: r))) eqn:Echk; [|discriminate].
  inversion Hv; subst v. apply andb_true_iff in Echk. destruct Echk as [Hfz _].
  cbn [map first_zero] in Hfz. rewrite canon_event_seq in Hfz. apply N.eqb_eq in Hfz.
  pose proof (seqs_from_skipn n 0 _ e r Hseq Esk) as Hse. assert (n = 0%nat) by lia. subst n.
  cbn [skipn] in Esk. rewrite Esk. reflexivity.
Qed.

Theorem replay_after_loss rc s hs key :
  wf_schema s = true -> wf_replay_check rc = true ->
  all_ok s (emitted hs) -> wire_ok s (emitted hs) ->
  seqs_from 0 (of_stream s key (emitted hs)) = true ->
  let k := run_hist rc s hs in
  fst (replay_events rc s key k) = Some (map (canon_event s) (view_live s key k))
  /\ view_log s key k = Some (map (canon_event s) (view_live s key k))
  /\ k_live k = emitted hs.
Proof.
  intros Hwf Hrc Hok Hw Hseq k. pose proof (run_hist_inv rc s hs Hwf Hok Hw) as Hinv. fold k in Hinv.
  assert (Hlive : k_live k = emitted hs) by (destruct Hinv as [_ [H _]]; exact H).
  unfold view_live. rewrite Hlive. split; [|split; [|reflexivity]].
  - apply replay_events_inv; assumption.
  - apply view_log_inv; assumption.
Qed.

(* the check of the seeded change C03-2: "each frame follows the frame before it", first line free *)
Definition rc_no_first_zero : replay_check :=
  {| rc_first_zero := false; rc_successor := true; rc_empty_refused := true; rc_fallback_log := true |}.
Definition demo_seq (n : N) : event :=
  {| e_id := [105; n + 48]; e_sid := [116]; e_ts := 1758000000000; e_seq := n; e_var := 0;
     e_fields := [VVal JNull; VOpt None; VOpt None; VVec []; VInt 0%Z] |}.
Definition demo_key : N * str := stream_key demo_schema (demo_seq 0).
Definition demo_loss_history : list hstep :=
  [HEmit (demo_seq 0); HEmit (demo_seq 1); HLoseAll; HEmit (demo_seq 2); HEmit (demo_seq 3); HReplay demo_key].

Lemma demo_loss_history_ok :
  wf_schema demo_schema = true /\ all_ok demo_schema (emitted demo_loss_history) /\ wire_ok demo_schema (emitted demo_loss_history)
  /\ seqs_from 0 (of_stream demo_schema demo_key (emitted demo_loss_history)) = true
  /\ length (of_stream demo_schema demo_key (emitted demo_loss_history)) = 4%nat.
Proof.
  split; [vm_compute; reflexivity|]. split; [repeat constructor; vm_compute; reflexivity|].
  split; [repeat constructor; vm_compute; reflexivity|]. split; vm_compute; reflexivity.
Qed.

Lemma replay_suffix_witness :
  fst (replay_events rc_no_first_zero demo_schema demo_key (run_hist rc_no_first_zero demo_schema demo_loss_history))
  = Some [demo_seq 2; demo_seq 3].
Proof. vm_compute. reflexivity. Qed.

Theorem replay_needs_first_zero_refuted :
  exists rc s hs key,
    rc_successor rc = true /\ rc_empty_refused rc = true /\ rc_fallback_log rc = true
    /\ wf_schema s = true /\ all_ok s (emitted hs) /\ wire_ok s (emitted hs)
    /\ seqs_from 0 (of_stream s key (emitted hs)) = true
    /\ fst (replay_events rc s key (run_hist rc s hs)) <> Some (map (canon_event s) (view_live s key (run_hist rc s hs))).
Proof.
  exists rc_no_first_zero, demo_schema, demo_loss_history, demo_key.
  destruct demo_loss_history_ok as [H1 [H2 [H3 [H4 _]]]].
  repeat split; try assumption. rewrite replay_suffix_witness. vm_compute. discriminate.
Qed.

Lemma rc_code_wf : wf_replay_check rc_code = true.
Proof. reflexivity. Qed.
