(* C04 — the compile-input theorem instantiated with what tools/gen/compile_consts.py (builder compile / compile2, property
   C08) reads from /repo's current source on every run: the message limit, the number of summary refs, the checkpoint
   visibility rule and WHAT the acceptance test of an incomplete tail counts (`let message_count = …` of
   load_context_compile_input_recent_messages_v1 -> gen_tail_count, obligation gen_tail_count_ok). *)
From RipV Require Import Base.Prelude Model.Compile Proofs.CompileProofs Model.CacheCompile Proofs.CacheCompileProofs
  Gen.CompileConsts.

Definition p_gen : params := code_params gen_recent_limit gen_max_refs gen_ckpt_frame_rule.

Theorem gen_compile_input_transparent (texts : N -> N) (l : log) (a : N) (ks : list nat) (mr full : cfile)
        (window : option (log * N)) :
  incr l -> wf_refs l = true ->
  MrFaithful l mr full -> HeadFaithful l full -> WindowSpec (p_limit p_gen) l a window ->
  compile_fast gen_tail_count p_gen texts ks mr full window l a = compile p_gen texts l a.
Proof. exact (compile_input_transparent_stmt gen_tail_count p_gen texts l a ks mr full window gen_tail_count_ok). Qed.

Theorem gen_compile_cached_transparent (texts : N -> N) (l : log) (a : N) (ks : list nat) (me : nat)
        (mr full comp idx : cfile) (window : option (log * N)) :
  incr l -> wf_refs l = true ->
  MrFaithful l mr full -> HeadFaithful l full -> WindowSpec (p_limit p_gen) l a window ->
  CompFaithfulC l comp full -> IdxFaithful l idx ->
  compile_cached gen_tail_count p_gen texts ks me mr full comp idx window l a = compile p_gen texts l a.
Proof. exact (compile_cached_transparent gen_tail_count p_gen texts l a ks me mr full comp idx window gen_tail_count_ok). Qed.
