(* C01 — proofs for Model/SeqCreate.v.
   (1) the general fact behind the seeded change C01-10: whatever the log, a second frame that carries a number its stream
       has already written makes the log invalid - for EVERY log, EVERY frame (Valid_snoc both ways);
   (2) a creation whose index save failed leaves ONE frame (seq 0, a stream nobody has written) in the log: the log stays
       valid, and the retry as built - ensure_default, in the same process, after a restart, with ANY index file - appends
       nothing and answers that thread (log02c's `ensure`, Proofs/C02DecideProofs.v);
   (3) witnesses on the model's own creation (exec of create_save_failed): ensure_default's failed creation, the retry
       as built, the retry with the same id. *)
From RipV Require Import Base.Prelude Model.Frames Model.Log Model.ContStore Model.C02Decide Model.SeqCreate
  Model.ContInv Proofs.LogProofs Proofs.ContStoreProofs Proofs.ContOrderProofs Proofs.C02DecideProofs.

(* ---------- (1) ---------- *)
Theorem second_frame_same_number_invalid (l : log) (f f' : frame) :
  fkind f' = fkind f -> sid f' = sid f -> seq f' = seq f -> ~ Valid ((l ++ [f]) ++ [f']).
Proof.
  intros Hk Hs Hq H. apply Valid_snoc in H. destruct H as [H1 H2]. apply Valid_snoc in H1. destruct H1 as [_ H1].
  rewrite Hk, Hs in H2. unfold next_of in *. rewrite stream_snoc_same in H2. unfold nlen in *.
  rewrite app_length in H2. cbn [length] in H2. lia.
Qed.

Corollary second_frame_same_number_rejected (l : log) (f f' : frame) :
  fkind f' = fkind f -> sid f' = sid f -> seq f' = seq f -> validate ((l ++ [f]) ++ [f']) = false.
Proof.
  intros Hk Hs Hq. destruct (validate ((l ++ [f]) ++ [f'])) eqn:E; [|reflexivity].
  apply validate_spec in E. exfalso. exact (second_frame_same_number_invalid l f f' Hk Hs Hq E).
Qed.

(* ---------- (2) ---------- *)
Lemma created_kind f ws : created_in ws f = true -> fkind f = KContinuity.
Proof.
  unfold created_in, is_etype. intro H. apply andb_true_iff in H. destruct H as [H _].
  unfold fkind. destruct (ety f); try discriminate H; reflexivity.
Qed.

Lemma log_has_ws_snoc ws l f : created_in ws f = true -> log_has_ws ws (l ++ [f]) = true.
Proof. intro H. unfold log_has_ws. rewrite existsb_app. cbn [existsb]. rewrite H. rewrite orb_true_r. reflexivity. Qed.

(* the state a failed index save leaves, at the level of the log: one more frame, a `continuity_created` of the store's
   workspace with seq 0 on a stream that had no frame *)
Definition FailedSaveCreation (d d1 : dstate) (f : frame) : Prop :=
  d_ws d1 = d_ws d /\ s_log (d_st d1) = s_log (d_st d) ++ [f]
  /\ created_in (d_ws d) f = true /\ seq f = 0 /\ cstream (sid f) (s_log (d_st d)) = [].

Theorem failed_save_then_retry_as_built d d1 f :
  Valid (s_log (d_st d)) -> FailedSaveCreation d d1 f ->
  Valid (s_log (d_st d1))
  /\ s_log (d_st (fst (ensure false d1))) = s_log (d_st d1)
  /\ (forall file mem, s_log (d_st (fst (ensure false (reopen {| d_st := d_st d1; d_ws := d_ws d1; d_file := file; d_mem := mem |} (d_ws d1))))) = s_log (d_st d1))
  /\ (MemSound d1 -> answer_code (d_ws d1) (s_log (d_st (fst (ensure false d1)))) (snd (ensure false d1)) = 1).
Proof.
  intros Hv (Hws & Hl & Hc & Hq & Hfresh).
  assert (Hk : fkind f = KContinuity) by exact (created_kind f _ Hc).
  assert (V1 : Valid (s_log (d_st d1))).
  { rewrite Hl. apply Valid_snoc. split; [exact Hv|]. rewrite Hq, Hk. unfold next_of. unfold cstream in Hfresh. rewrite Hfresh. reflexivity. }
  assert (Hh : log_has_ws (d_ws d1) (s_log (d_st d1)) = true) by (rewrite Hl, Hws; apply log_has_ws_snoc; exact Hc).
  split; [exact V1|]. split; [apply ensure_thread_in_the_log_adds_nothing; exact Hh|].
  split.
  - intros file mem. apply (ensure_after_restart_any_index_file {| d_st := d_st d1; d_ws := d_ws d1; d_file := file; d_mem := mem |} file (d_ws d1)). exact Hh.
  - intro HM. apply ensure_answers_from_the_log; [exact HM | exact Hh | apply validate_spec; exact V1].
Qed.

(* the retry with the same id after the frame was logged: for EVERY store the log is invalid from then on *)
Theorem failed_save_then_retry_same_id d d1 f :
  FailedSaveCreation d d1 f ->
  validate (s_log (retry_same_id (d_st d1) (sid f) (d_ws d))) = false.
Proof.
  intros (_ & Hl & Hc & Hq & _). unfold retry_same_id. cbn [s_log set_store]. rewrite Hl.
  apply second_frame_same_number_rejected; cbn [mk_frame fkind sid seq ety]; [|reflexivity|symmetry; exact Hq].
  rewrite (created_kind f _ Hc). reflexivity.
Qed.

(* ---------- (3) the model's own creation ---------- *)
Definition w_d1 : dstate := fst (ensure_sf dstate0).
Definition w_f : frame := {| fid := 1; sid := 0; seq := 0; ety := EContinuityCreated; args := [0] |}.

Lemma w_failed_save : FailedSaveCreation dstate0 w_d1 w_f /\ snd (ensure_sf dstate0) = None /\ Valid (s_log (d_st dstate0))
  /\ d_file w_d1 = IAbsent /\ s_next (d_st w_d1) 0 = None /\ ws_lookup (ix_ws (d_mem w_d1)) 0 = Some 0.
Proof.
  split; [repeat split; vm_compute; reflexivity|]. split; [vm_compute; reflexivity|]. split; [apply Valid_nil|].
  repeat split; vm_compute; reflexivity.
Qed.

(* a longer history: a default thread with a message, a branch whose child's save fails, the retry, messages everywhere,
   restart with index.json lost and unwritable, ensure_default, the save works again *)
Definition w_calls : list swcall :=
  [SwEnsure false; SwEnsure false; SwEnsure true; SwMsg 0; SwLineage EContinuityBranched 0 2; SwLineage EContinuityBranched 0 1;
   SwMsg 0; SwMsg 1; SwMsg 2; SwDropIndex; SwRestart; SwEnsure false; SwEnsure true; SwMsg 0; SwMsg 1].
Lemma w_history :
  validate (s_log (d_st (snd (run_sw dstate0 w_calls)))) = true
  /\ fst (run_sw dstate0 w_calls) = [1; 2; 1; 1; 1; 1; 2; 9; 3; 2; 5; 1; 6; 9; 7; 9; 8; 9; 8; 9; 8; 9; 8; 1; 8; 1; 9; 9; 10; 9].
Proof. split; vm_compute; reflexivity. Qed.

Theorem retry_same_id_refuted :
  exists d d1 f,
    Valid (s_log (d_st d)) /\ FailedSaveCreation d d1 f /\ d1 = fst (ensure_sf d) /\ snd (ensure_sf d) = None
    /\ validate (s_log (retry_same_id (d_st d1) (sid f) (d_ws d))) = false
    /\ map seq (cstream (sid f) (s_log (retry_same_id (d_st d1) (sid f) (d_ws d)))) = [0; 0]
    /\ s_log (d_st (fst (ensure false d1))) = s_log (d_st d1) /\ snd (ensure false d1) = Some (sid f)
    /\ validate (s_log (d_st (fst (ensure false d1)))) = true.
Proof.
  exists dstate0, w_d1, w_f. destruct w_failed_save as (H1 & H2 & H3 & _).
  split; [exact H3|]. split; [exact H1|]. split; [reflexivity|]. split; [exact H2|].
  split; [exact (failed_save_then_retry_same_id dstate0 w_d1 w_f H1)|].
  repeat split; vm_compute; reflexivity.
Qed.

(* ---------- (4) the micro-step program, for EVERY store: what `create_continuity` cut at the failing save leaves ---------- *)
Lemma step0 st p m r : s_procs st 0 = Some p -> p_rem p = m :: r -> step_gen load_next st 0 = exec_m_gen load_next st 0 p m r.
Proof. intros H1 H2. unfold step_gen. rewrite H1, H2. reflexivity. Qed.
Lemma run_cons ld a r st : run_gen ld (a :: r) st = run_gen ld r (step_gen ld st a).
Proof. reflexivity. Qed.
Ltac stp := rewrite run_cons; erewrite step0; [| cbn [spawn set_proc set_store s_procs procs_of]; apply upd_same | reflexivity]; cbn [exec_m_gen].

Definition created_frame (st : state) (ar : list N) : frame :=
  {| fid := s_fresh st + 1; sid := s_fresh st; seq := 0; ety := EContinuityCreated; args := ar |}.

Lemma exec_create_save_failed st ar : s_mu st = None ->
  s_log (exec (create_save_failed ar) st) = s_log st ++ [created_frame st ar]
  /\ s_next (exec (create_save_failed ar) st) = s_next st
  /\ s_mu (exec (create_save_failed ar) st) = None
  /\ s_fresh (exec (create_save_failed ar) st) = s_fresh st + 1 + 1
  /\ s_tcnt (exec (create_save_failed ar) st) = s_tcnt st
  /\ s_tmu (exec (create_save_failed ar) st) = s_tmu st.
Proof.
  intro Hmu. unfold exec, create_save_failed, run. cbn [length repeat].
  stp. cbn [spawn s_mu]. rewrite Hmu.
  stp. stp. cbn [pop p_child new_proc pop_same].
  stp. cbn [pop p_last]. stp. stp. cbn [pop pop_same p_child]. stp.
  cbn [run_gen set_proc set_store s_log s_next s_mu s_tcnt s_tmu mk_frame s_fresh spawn].
  split; [reflexivity|]. split; [reflexivity|]. split; [unfold release; rewrite N.eqb_refl; reflexivity|].
  repeat split; reflexivity.
Qed.

Lemma exec_lineage_save_failed_full st c ar : s_mu st = None ->
  s_log (exec ([MTarget c; MRead] ++ create_save_failed ar) st) = s_log st ++ [created_frame st ar]
  /\ s_next (exec ([MTarget c; MRead] ++ create_save_failed ar) st) = s_next st
  /\ s_mu (exec ([MTarget c; MRead] ++ create_save_failed ar) st) = None
  /\ s_fresh (exec ([MTarget c; MRead] ++ create_save_failed ar) st) = s_fresh st + 1 + 1
  /\ s_tcnt (exec ([MTarget c; MRead] ++ create_save_failed ar) st) = s_tcnt st
  /\ s_tmu (exec ([MTarget c; MRead] ++ create_save_failed ar) st) = s_tmu st.
Proof.
  intro Hmu. unfold exec, create_save_failed, run. cbn [length repeat app].
  stp. stp. cbn [pop p_cid].
  destruct (replay_events _ c) as [res sd] eqn:Er.
  assert (K : forall st1, s_log st1 = s_log st -> s_fresh st1 = s_fresh st -> s_mu st1 = None -> s_next st1 = s_next st ->
     s_tcnt st1 = s_tcnt st -> s_tmu st1 = s_tmu st ->
     forall p1, p_rem p1 = [MLock; MAlloc; MLogAppendFixed 0 EContinuityCreated ar; MSidecar; MBcast; MIndexInsert; MUnlock] ->
     let fin := run_gen load_next [0;0;0;0;0;0;0] (set_proc st1 0 p1) in
     s_log fin = s_log st ++ [created_frame st ar] /\ s_next fin = s_next st /\ s_mu fin = None
     /\ s_fresh fin = s_fresh st + 1 + 1 /\ s_tcnt fin = s_tcnt st /\ s_tmu fin = s_tmu st).
  { intros st1 Hl Hf Hm Hn Htc Htm p1 Hp fin. subst fin.
    rewrite run_cons. erewrite step0; [| cbn [set_proc s_procs]; apply upd_same | exact Hp]. cbn [exec_m_gen set_proc s_mu]. rewrite Hm.
    stp. stp. cbn [pop p_child pop_same].
    stp. cbn [pop p_last]. stp. stp. cbn [pop pop_same p_child]. stp.
    cbn [run_gen set_proc set_store s_log s_next s_mu s_tcnt s_tmu mk_frame s_fresh]. rewrite Hl, Hf, Hn, Htc, Htm.
    split; [reflexivity|]. split; [reflexivity|]. split; [unfold release; rewrite N.eqb_refl; reflexivity|].
    repeat split; reflexivity. }
  destruct res; apply K; try reflexivity; try exact Hmu.
Qed.

Lemma exec_lineage_save_failed st c ar : s_mu st = None ->
  s_log (exec ([MTarget c; MRead] ++ create_save_failed ar) st) = s_log st ++ [created_frame st ar].
Proof. intro H. exact (proj1 (exec_lineage_save_failed_full st c ar H)). Qed.

Lemma skipn_length_app {A} (l x : list A) : skipn (length l) (l ++ x) = x.
Proof. induction l as [|a l IH]; [reflexivity|]. cbn [length app skipn]. exact IH. Qed.

Lemma nlen_zero_nil {A} (l : list A) : nlen l = 0 -> l = [].
Proof. unfold nlen. destruct l; [reflexivity|]. cbn [length]. lia. Qed.

Lemma created_frame_props st ws : created_in ws (created_frame st [ws]) = true /\ fkind (created_frame st [ws]) = KContinuity.
Proof. unfold created_in, is_etype, created_frame. cbn. rewrite N.eqb_refl. split; reflexivity. Qed.

(* the store invariant holds again after the failed call: every theorem about what runs afterwards (c01_valid_all_schedules,
   c01_restart, ..) applies to the store a failed index save leaves *)
Lemma sinv_after_one_created_frame st st' ar :
  SInv st ->
  s_log st' = s_log st ++ [created_frame st ar] -> s_next st' = s_next st -> s_fresh st' = s_fresh st + 1 + 1 ->
  s_tcnt st' = s_tcnt st -> s_tmu st' = s_tmu st -> SInv st'.
Proof.
  intros [Hv Hn Hf Ht] El En Ef Etc Etm.
  assert (Hk : fkind (created_frame st ar) = KContinuity) by reflexivity.
  destruct (Hf (s_fresh st) ltac:(lia)) as [Hc0 Hn0].
  assert (Hother : forall k s, (k, s) <> (KContinuity, s_fresh st) -> next_of k s (s_log st ++ [created_frame st ar]) = next_of k s (s_log st)).
  { intros k s Hne. unfold next_of. rewrite stream_snoc_other; [reflexivity|]. rewrite Hk. cbn [sid created_frame]. congruence. }
  constructor.
  - rewrite El. apply Valid_snoc. split; [exact Hv|]. rewrite Hk. cbn [seq sid created_frame]. unfold cnext in Hc0. rewrite Hc0. reflexivity.
  - intros c n Hs. rewrite En in Hs. unfold cnext. rewrite El.
    destruct (N.eq_dec c (s_fresh st)) as [->|Hne]; [congruence|].
    rewrite Hother by congruence. apply Hn. exact Hs.
  - intros c Hc. rewrite Ef in Hc. unfold cnext. rewrite El, En. rewrite Hother by (intro E; inversion E; lia).
    apply Hf. lia.
  - intros t Htm. rewrite Etm in Htm. rewrite Etc. unfold tnext. rewrite El, Hother by discriminate. apply Ht. exact Htm.
Qed.

Theorem sinv_after_create_save_failed st ar :
  SInv st -> s_mu st = None -> SInv (exec (create_save_failed ar) st).
Proof.
  intros HS Hmu. destruct (exec_create_save_failed st ar Hmu) as (El & En & _ & Ef & Etc & Etm).
  exact (sinv_after_one_created_frame st _ ar HS El En Ef Etc Etm).
Qed.

(* branch / handoff of ANY thread c (known or not, sidecar in any condition) whose child's creation cannot save the index *)
Theorem sinv_after_lineage_save_failed st c ar :
  SInv st -> s_mu st = None ->
  SInv (exec ([MTarget c; MRead] ++ create_save_failed ar) st)
  /\ s_log (exec ([MTarget c; MRead] ++ create_save_failed ar) st) = s_log st ++ [created_frame st ar]
  /\ s_mu (exec ([MTarget c; MRead] ++ create_save_failed ar) st) = None.
Proof.
  intros HS Hmu. destruct (exec_lineage_save_failed_full st c ar Hmu) as (El & En & Em & Ef & Etc & Etm).
  split; [exact (sinv_after_one_created_frame st _ ar HS El En Ef Etc Etm)|]. split; assumption.
Qed.

(* ensure_default on a store that knows no thread of its workspace (not in memory, not in the log), index.json unwritable:
   Err is answered and the state is a FailedSaveCreation *)
Theorem ensure_sf_creates d :
  SInv (d_st d) -> s_mu (d_st d) = None ->
  ws_lookup (ix_ws (d_mem d)) (d_ws d) = None -> find_default (d_ws d) (s_log (d_st d)) = None ->
  snd (ensure_sf d) = None
  /\ FailedSaveCreation d (fst (ensure_sf d)) (created_frame (d_st d) [d_ws d])
  /\ SInv (d_st (fst (ensure_sf d))).
Proof.
  intros HS Hmu Hl Hfd. pose proof (sinv_after_create_save_failed (d_st d) [d_ws d] HS Hmu) as HS'.
  destruct (exec_create_save_failed (d_st d) [d_ws d] Hmu) as (El & _).
  assert (Hv : validate (s_log (d_st d)) = true) by (apply validate_spec; apply (si_valid _ HS)).
  unfold ensure_sf. rewrite Hl, Hv, Hfd. unfold new_frames. rewrite El, skipn_length_app. cbn [fst snd mem_only d_st d_ws].
  split; [reflexivity|]. split; [|exact HS'].
  destruct (created_frame_props (d_st d) (d_ws d)) as [Hc _].
  repeat split; try assumption; try reflexivity.
  apply nlen_zero_nil. destruct (si_fresh _ HS (s_fresh (d_st d)) ltac:(lia)) as [H0 _]. exact H0.
Qed.

(* .. hence, for EVERY such store: the failed call, then the retry as built (same process / after a restart with any
   index file) appends nothing and the log stays valid; a same-id retry makes it invalid *)
Theorem ensure_default_failed_index_save d :
  SInv (d_st d) -> s_mu (d_st d) = None ->
  ws_lookup (ix_ws (d_mem d)) (d_ws d) = None -> find_default (d_ws d) (s_log (d_st d)) = None ->
  snd (ensure_sf d) = None
  /\ s_log (d_st (fst (ensure_sf d))) = s_log (d_st d) ++ [created_frame (d_st d) [d_ws d]]
  /\ Valid (s_log (d_st (fst (ensure_sf d))))
  /\ SInv (d_st (fst (ensure_sf d)))
  /\ s_log (d_st (fst (ensure false (fst (ensure_sf d))))) = s_log (d_st (fst (ensure_sf d)))
  /\ snd (ensure false (fst (ensure_sf d))) = Some (s_fresh (d_st d))
  /\ (forall file mem, s_log (d_st (fst (ensure false (reopen {| d_st := d_st (fst (ensure_sf d)); d_ws := d_ws d; d_file := file; d_mem := mem |} (d_ws d))))) = s_log (d_st (fst (ensure_sf d))))
  /\ validate (s_log (retry_same_id (d_st (fst (ensure_sf d))) (s_fresh (d_st d)) (d_ws d))) = false.
Proof.
  intros HS Hmu Hl Hfd. destruct (ensure_sf_creates d HS Hmu Hl Hfd) as (Ha & HF & HS').
  pose proof (failed_save_then_retry_as_built d _ _ (si_valid _ HS) HF) as (V1 & R1 & R2 & _).
  pose proof (failed_save_then_retry_same_id d _ _ HF) as X.
  destruct HF as (Hws & Hlog & _).
  split; [exact Ha|]. split; [exact Hlog|]. split; [exact V1|]. split; [exact HS'|]. split; [exact R1|].
  split.
  - (* the in-memory index answers *)
    assert (Hv : validate (s_log (d_st d)) = true) by (apply validate_spec; apply (si_valid _ HS)).
    destruct (exec_create_save_failed (d_st d) [d_ws d] Hmu) as (El & _).
    unfold ensure_sf. rewrite Hl, Hv, Hfd. unfold new_frames. rewrite El, skipn_length_app. cbn [fst].
    unfold ensure, ws_lookup. cbn [mem_only d_mem d_ws ix_ws find fst snd created_frame sid option_map].
    rewrite (N.eqb_refl (d_ws d)). reflexivity.
  - split; [|exact X]. intros file mem. rewrite Hws in R2. apply R2.
Qed.

(* ---------- (5) the cut programs are well-formed: the schedule theorems cover them ---------- *)
Lemma fail_save_create ar : fail_save (create_prog ar) = create_save_failed ar.
Proof. reflexivity. Qed.
Lemma fail_save_lineage t a1 a2 : fail_save (lineage_prog t a1 a2) = create_save_failed a1.
Proof. reflexivity. Qed.

Theorem failed_save_skeletons_wf ar t a1 a2 c :
  wf_prog (fail_save (create_prog ar)) = true
  /\ wf_prog (MTarget c :: MRead :: fail_save (lineage_prog t a1 a2)) = true.
Proof. split; reflexivity. Qed.

(* two authorities' worth of actors on the empty store: one whose first ensure_default cannot save the index and who then
   posts to the newest listed thread, one creating a thread and posting to it, one posting to the newest listed thread *)
Definition w_sf_actors : list (list mstep * N) :=
  [(create_save_failed [0] ++ MPickNewest :: locked_append EContinuityMessageAppended [], 0);
   (create_prog [0] ++ MPickNewest :: locked_append EContinuityMessageAppended [], 0);
   (MPickNewest :: locked_append EContinuityRunSpawned [], 0)].
(* actor 1 tries to lock inside actor 0's failed creation (blocked); actor 2 looks for the newest listed thread before the index insert (none: its call ends); 4 frames *)
Definition w_sf_sched : list N := [0; 0; 1; 0; 1; 0; 0; 2; 0; 0] ++ repeat 0 10 ++ repeat 1 18 ++ repeat 2 10.

Lemma w_sf_hyps : SInv empty_state /\ progs_wf w_sf_actors /\ sess_fresh empty_state w_sf_actors /\ sess_distinct w_sf_actors.
Proof.
  split; [exact empty_sinv|]. split; [repeat constructor|]. split; [repeat constructor; discriminate|].
  cbn. repeat split; try (intros H; discriminate H); repeat constructor.
Qed.
Lemma w_sf_log :
  validate (s_log (run w_sf_sched (spawn w_sf_actors empty_state))) = true
  /\ nlen (s_log (run w_sf_sched (spawn w_sf_actors empty_state))) = 4.
Proof. split; vm_compute; reflexivity. Qed.
