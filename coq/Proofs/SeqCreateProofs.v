(* C01 — proofs for Model/SeqCreate.v.
   (1) the general fact behind the seeded change C01-10: whatever the log, a second frame that carries a number its stream
       has already written makes the log invalid - for EVERY log, EVERY frame (Valid_snoc both ways);
   (2) a creation whose index save failed leaves ONE frame (seq 0, a stream nobody has written) in the log: the log stays
       valid, and the retry as built - ensure_default, in the same process, after a restart, with ANY index file - appends
       nothing and answers that thread (log02c's `ensure`, Proofs/C02DecideProofs.v);
   (3) witnesses on the model's own creation (exec of create_save_failed): ensure_default's failed creation, the retry
       as built, the retry with the same id. *)
From RipV Require Import Base.Prelude Model.Frames Model.Log Model.ContStore Model.C02Decide Model.SeqCreate
  Proofs.LogProofs Proofs.C02DecideProofs.

(* ---------- (1) ---------- *)
Theorem second_frame_same_number_invalid (l : log) (f f' : frame) :
  fkind f' = fkind f -> sid f' = sid f -> seq f' = seq f -> ~ Valid ((l ++ [f]) ++ [f']).
Proof.
  intros Hk Hs Hq H. apply Valid_snoc in H. destruct H as [H1 H2]. apply Valid_snoc in H1. destruct H1 as [_ H1].
  rewrite Hk, Hs in H2. unfold next_of in *. rewrite stream_snoc_same in H2. unfold nlen in *.
  rewrite app_length in H2. cbn [length] in H2. lia.
Qed.

Corollary second_frame_same_number_rejected (l : log) (f f' : frame) :
  fkind f' = fkind f -> sid f' = sid f -> seq f' = seq f -> validate ((l ++ [f]) ++ [f']) = false.
Proof.
  intros Hk Hs Hq. destruct (validate ((l ++ [f]) ++ [f'])) eqn:E; [|reflexivity].
  apply validate_spec in E. exfalso. exact (second_frame_same_number_invalid l f f' Hk Hs Hq E).
Qed.

(* ---------- (2) ---------- *)
Lemma created_kind f ws : created_in ws f = true -> fkind f = KContinuity.
Proof.
  unfold created_in, is_etype. intro H. apply andb_true_iff in H. destruct H as [H _].
  unfold fkind. destruct (ety f); try discriminate H; reflexivity.
Qed.

Lemma log_has_ws_snoc ws l f : created_in ws f = true -> log_has_ws ws (l ++ [f]) = true.
Proof. intro H. unfold log_has_ws. rewrite existsb_app. cbn [existsb]. rewrite H. rewrite orb_true_r. reflexivity. Qed.

(* the state a failed index save leaves, at the level of the log: one more frame, a `continuity_created` of the store's
   workspace with seq 0 on a stream that had no frame *)
Definition FailedSaveCreation (d d1 : dstate) (f : frame) : Prop :=
  d_ws d1 = d_ws d /\ s_log (d_st d1) = s_log (d_st d) ++ [f]
  /\ created_in (d_ws d) f = true /\ seq f = 0 /\ cstream (sid f) (s_log (d_st d)) = [].

Theorem failed_save_then_retry_as_built d d1 f :
  Valid (s_log (d_st d)) -> FailedSaveCreation d d1 f ->
  Valid (s_log (d_st d1))
  /\ s_log (d_st (fst (ensure false d1))) = s_log (d_st d1)
  /\ (forall file mem, s_log (d_st (fst (ensure false (reopen {| d_st := d_st d1; d_ws := d_ws d1; d_file := file; d_mem := mem |} (d_ws d1))))) = s_log (d_st d1))
  /\ (MemSound d1 -> answer_code (d_ws d1) (s_log (d_st (fst (ensure false d1)))) (snd (ensure false d1)) = 1).
Proof.
  intros Hv (Hws & Hl & Hc & Hq & Hfresh).
  assert (Hk : fkind f = KContinuity) by exact (created_kind f _ Hc).
  assert (V1 : Valid (s_log (d_st d1))).
  { rewrite Hl. apply Valid_snoc. split; [exact Hv|]. rewrite Hq, Hk. unfold next_of. unfold cstream in Hfresh. rewrite Hfresh. reflexivity. }
  assert (Hh : log_has_ws (d_ws d1) (s_log (d_st d1)) = true) by (rewrite Hl, Hws; apply log_has_ws_snoc; exact Hc).
  split; [exact V1|]. split; [apply ensure_thread_in_the_log_adds_nothing; exact Hh|].
  split.
  - intros file mem. apply (ensure_after_restart_any_index_file {| d_st := d_st d1; d_ws := d_ws d1; d_file := file; d_mem := mem |} file (d_ws d1)). exact Hh.
  - intro HM. apply ensure_answers_from_the_log; [exact HM | exact Hh | apply validate_spec; exact V1].
Qed.

(* the retry with the same id after the frame was logged: for EVERY store the log is invalid from then on *)
Theorem failed_save_then_retry_same_id d d1 f :
  FailedSaveCreation d d1 f ->
  validate (s_log (retry_same_id (d_st d1) (sid f) (d_ws d))) = false.
Proof.
  intros (_ & Hl & Hc & Hq & _). unfold retry_same_id. cbn [s_log set_store]. rewrite Hl.
  apply second_frame_same_number_rejected; cbn [mk_frame fkind sid seq ety]; [|reflexivity|symmetry; exact Hq].
  rewrite (created_kind f _ Hc). reflexivity.
Qed.

(* ---------- (3) the model's own creation ---------- *)
Definition w_d1 : dstate := fst (ensure_sf dstate0).
Definition w_f : frame := {| fid := 1; sid := 0; seq := 0; ety := EContinuityCreated; args := [0] |}.

Lemma w_failed_save : FailedSaveCreation dstate0 w_d1 w_f /\ snd (ensure_sf dstate0) = None /\ Valid (s_log (d_st dstate0))
  /\ d_file w_d1 = IAbsent /\ s_next (d_st w_d1) 0 = None /\ ws_lookup (ix_ws (d_mem w_d1)) 0 = Some 0.
Proof.
  split; [repeat split; vm_compute; reflexivity|]. split; [vm_compute; reflexivity|]. split; [apply Valid_nil|].
  repeat split; vm_compute; reflexivity.
Qed.

(* a longer history: a default thread with a message, a branch whose child's save fails, the retry, messages everywhere,
   restart with index.json lost and unwritable, ensure_default, the save works again *)
Definition w_calls : list swcall :=
  [SwEnsure false; SwEnsure false; SwEnsure true; SwMsg 0; SwLineage EContinuityBranched 0 2; SwLineage EContinuityBranched 0 1;
   SwMsg 0; SwMsg 1; SwMsg 2; SwDropIndex; SwRestart; SwEnsure false; SwEnsure true; SwMsg 0; SwMsg 1].
Lemma w_history :
  validate (s_log (d_st (snd (run_sw dstate0 w_calls)))) = true
  /\ fst (run_sw dstate0 w_calls) = [1; 2; 1; 1; 1; 1; 2; 9; 3; 2; 5; 1; 6; 9; 7; 9; 8; 9; 8; 9; 8; 9; 8; 1; 8; 1; 9; 9; 10; 9].
Proof. split; vm_compute; reflexivity. Qed.

Theorem retry_same_id_refuted :
  exists d d1 f,
    Valid (s_log (d_st d)) /\ FailedSaveCreation d d1 f /\ d1 = fst (ensure_sf d) /\ snd (ensure_sf d) = None
    /\ validate (s_log (retry_same_id (d_st d1) (sid f) (d_ws d))) = false
    /\ map seq (cstream (sid f) (s_log (retry_same_id (d_st d1) (sid f) (d_ws d)))) = [0; 0]
    /\ s_log (d_st (fst (ensure false d1))) = s_log (d_st d1) /\ snd (ensure false d1) = Some (sid f)
    /\ validate (s_log (d_st (fst (ensure false d1)))) = true.
Proof.
  exists dstate0, w_d1, w_f. destruct w_failed_save as (H1 & H2 & H3 & _).
  split; [exact H3|]. split; [exact H1|]. split; [reflexivity|]. split; [exact H2|].
  split; [exact (failed_save_then_retry_same_id dstate0 w_d1 w_f H1)|].
  repeat split; vm_compute; reflexivity.
Qed.
