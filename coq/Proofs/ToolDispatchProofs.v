(* C14: name resolution.  Every invocation that edits - under ANY name the registry resolves, aliases included - is
   preceded by a checkpoint the rewind to which restores every file: registry_wf (a decidable condition on the two
   tables, discharged for this run's /repo by Gen/ToolNames.v) + the per-tool theorems auto_write_undone_b /
   auto_patch_text_undone / auto_patch_text_no_checkpoint / C12's atomicity.  Refutation: the aliased registry of the
   seeded change C14-9. *)
From RipV Require Import Base.Prelude Base.Fs Model.Paths Model.Checkpoint Model.ToolDispatch Proofs.PathsProofs
  Proofs.CheckpointProofs Proofs.AutoCoverProofs Proofs.AutoPatchProofs.
From RipV Require Model.Patch Proofs.FsProofs Proofs.PatchAtomic.
Require Import Coq.Strings.String.

Lemma assoc_in {A} (k : str) : forall (l : list (str * A)) v, assoc k l = Some v -> In k (map fst l).
Proof.
  induction l as [|[k' v'] l IH]; intros v H; cbn [assoc] in H; [discriminate|].
  destruct (lN_eqb k' k) eqn:E.
  - apply lN_eqb_spec in E. subst k'. left. reflexivity.
  - right. exact (IH v H).
Qed.

Lemma hm_get_in {A} (k : str) (l : list (str * A)) v : hm_get k l = Some v -> In k (map fst l).
Proof.
  unfold hm_get. intros H. apply assoc_in in H. rewrite map_rev in H. apply in_rev in H. exact H.
Qed.

(* a name that reaches a handler is one of the registry's names *)
Lemma handler_name r name k : handler_of r name = Some k -> In name (names_of r).
Proof.
  unfold handler_of, names_of. intros H. apply in_or_app.
  destruct (hm_get name (r_tools r)) as [k0|] eqn:E1.
  - left. exact (hm_get_in _ _ _ E1).
  - destruct (hm_get name (r_aliases r)) as [t|] eqn:E2; [|discriminate]. right. exact (hm_get_in _ _ _ E2).
Qed.

(* the dispatch-level statement: under a well-formed registry, every name that reaches an editing handler reaches the
   checkpoint arm of that handler *)
Theorem editing_name_has_arm r name k :
  registry_wf r = true -> handler_of r name = Some k ->
  known_kind k = true /\ (edits k = true -> arm_of r name = Some k).
Proof.
  intros W H. unfold registry_wf in W. rewrite forallb_forall in W.
  pose proof (W name (handler_name r name k H)) as Hn. unfold name_ok in Hn. rewrite H in Hn.
  apply andb_true_iff in Hn. destruct Hn as [Hk He]. split; [exact Hk|]. intros E. rewrite E in He.
  unfold option_eqb in He. destruct (arm_of r name) as [ak|]; [|discriminate].
  apply N.eqb_eq in He. subst ak. reflexivity.
Qed.

Lemma known_cases k : known_kind k = true -> k = K_READ \/ k = K_PROCESS \/ k = K_WRITE \/ k = K_PATCH.
Proof.
  unfold known_kind. rewrite !orb_true_iff, !N.eqb_eq. tauto.
Qed.

Theorem every_name_checkpointed (r : registry) (found : bool) (ts as_ : list N) (tk : N) (prog : list (N * N)) :
  registry_wf r = true -> cover_wf found ts as_ tk prog = true ->
  forall (f : fs) (root name : str) (a : targ) (ck : option (list entry)) (f' : fs),
  is_absolute root = true -> tree_b f = true -> nonul_b f = true -> Patch.wf_fsb f = true ->
  arg_ok ts f a -> handler_of r name <> Some K_PROCESS ->
  run_tool r ts as_ f root name a = (ck, f') ->
  forall q, file_at f' q <> file_at f q ->
  exists c f2, ck = Some c /\ rewind f' c = (f2, None) /\ forall q', file_at f2 q' = file_at f q'.
Proof.
  intros W C f root name a ck f' Hr Ht Hn Hw Ha Hp Hrun q Hq.
  unfold run_tool in Hrun. inversion Hrun as [[Hck Hf']]. clear Hrun. subst ck f'.
  destruct (handler_of r name) as [k|] eqn:Hh; [|exfalso; apply Hq; reflexivity].
  destruct (editing_name_has_arm r name k W Hh) as [Hk Harm].
  destruct (known_cases k Hk) as [E|[E|[E|E]]]; subst k.
  - (* a reading handler *)
    exfalso. apply Hq. destruct a; reflexivity.
  - exfalso. apply Hp. reflexivity.
  - (* the write handler *)
    rewrite (Harm eq_refl). destruct a as [raw ext mode data|text].
    + cbn [handler_run arm_checkpoint]. change (K_WRITE =? K_WRITE) with true. cbn iota.
      cbn [handler_run] in Hq. change (K_WRITE =? K_WRITE) with true in Hq. cbn iota in Hq.
      destruct (write_tool ts f raw ext mode data) as [g er] eqn:Ew. cbn [fst] in *.
      pose proof (auto_write_undone_b found ts as_ tk prog C f root raw ext mode data g er Hr Ht Hn Ha Ew) as U.
      destruct (auto_checkpoint as_ f root raw) as [c|].
      * destruct U as (f2 & R & A). exists c, f2. split; [reflexivity|]. split; assumption.
      * exfalso. apply Hq. apply U.
    + exfalso. apply Hq. reflexivity.
  - (* apply_patch *)
    rewrite (Harm eq_refl). destruct a as [raw ext mode data|text].
    + exfalso. apply Hq. reflexivity.
    + cbn [handler_run arm_checkpoint]. change (K_PATCH =? K_PATCH) with true. cbn iota.
      cbn [handler_run] in Hq. change (K_PATCH =? K_PATCH) with true in Hq. cbn iota in Hq.
      pose proof (PatchAtomic.wf_fsb_sound f Hw) as Wf.
      destruct (Patch.apply_patch true [] f text) as [g c|g e] eqn:Ea; cbn [Patch.out_fs] in *.
      * destruct (Patch.parse_patch text) as [ops|] eqn:Ep.
        2:{ unfold Patch.apply_patch in Ea. rewrite Ep in Ea. discriminate. }
        destruct (create f root (Patch.affected_paths ops)) as [c0|e0] eqn:Ec.
        -- destruct (auto_patch_text_undone f root text g c c0 Hr Ht Hn ops Ep (Ha ops Ep) Ec Ea) as (f2 & R & A).
           exists c0, f2. split; [reflexivity|]. split; assumption.
        -- destruct (auto_patch_text_no_checkpoint f root text ops e0 Hr Hw Ep Ec) as (g' & e' & F & _).
           rewrite F in Ea. discriminate.
      * exfalso. apply Hq. exact (PatchAtomic.apply_patch_atomic f text g e Wf Ea q).
Qed.

Lemma dispatch_wf_registry found r : dispatch_wf found r = true -> registry_wf r = true.
Proof. unfold dispatch_wf. intros H. apply andb_true_iff in H. exact (proj2 H). Qed.

Theorem editing_name_has_arm_d dfound r name k :
  dispatch_wf dfound r = true -> handler_of r name = Some k ->
  known_kind k = true /\ (edits k = true -> arm_of r name = Some k).
Proof. intros W. exact (editing_name_has_arm r name k (dispatch_wf_registry dfound r W)). Qed.

Theorem every_name_checkpointed_d (dfound : bool) (r : registry) (found : bool) (ts as_ : list N) (tk : N) (prog : list (N * N)) :
  dispatch_wf dfound r = true -> cover_wf found ts as_ tk prog = true ->
  forall (f : fs) (root name : str) (a : targ) (ck : option (list entry)) (f' : fs),
  is_absolute root = true -> tree_b f = true -> nonul_b f = true -> Patch.wf_fsb f = true ->
  arg_ok ts f a -> handler_of r name <> Some K_PROCESS ->
  run_tool r ts as_ f root name a = (ck, f') ->
  forall q, file_at f' q <> file_at f q ->
  exists c f2, ck = Some c /\ rewind f' c = (f2, None) /\ forall q', file_at f2 q' = file_at f q'.
Proof. intros W. exact (every_name_checkpointed r found ts as_ tk prog (dispatch_wf_registry dfound r W)). Qed.

(* ---------- examples / refutation ---------- *)
Lemma small_registry_wf : registry_wf small_registry = true.
Proof. vm_compute. reflexivity. Qed.
Lemma aliased_registry_not_wf : registry_wf aliased_registry = false.
Proof. vm_compute. reflexivity. Qed.
Lemma aliased_arms_registry_wf : registry_wf aliased_arms_registry = true.
Proof. vm_compute. reflexivity. Qed.
Lemma aliased_resolved_registry_wf : registry_wf aliased_resolved_registry = true.
Proof. vm_compute. reflexivity. Qed.

Definition d_root : str := bs "/r/ws"%string.
Definition d_a : str := bs "a.txt"%string.
Definition d_ws : fs := [([d_a], File (bs "one"%string))].
Definition d_data : bytes := bs "two"%string.
Definition d_after : fs := [([d_a], File (bs "two"%string))].
Definition d_ck : list entry := [(d_a, Some (bs "one"%string))].

(* the seeded change C14-9 on the model: `write_file` reaches the write handler, not the write arm - the call edits
   a.txt and no checkpoint was taken *)
Lemma alias_unchecked_refuted :
  exists name a,
    handler_of aliased_registry name = Some K_WRITE /\ arm_of aliased_registry name = None
    /\ tree_b d_ws = true /\ nonul_b d_ws = true /\ Patch.wf_fsb d_ws = true
    /\ run_tool aliased_registry expected_tool_steps expected_auto_steps d_ws d_root name a = (None, d_after)
    /\ file_at d_after [d_a] <> file_at d_ws [d_a].
Proof.
  exists n_write_file, (AWrite d_a corr_ext 0 d_data).
  split; [vm_compute; reflexivity|]. split; [vm_compute; reflexivity|]. split; [vm_compute; reflexivity|].
  split; [vm_compute; reflexivity|]. split; [vm_compute; reflexivity|]. split; [vm_compute; reflexivity|].
  vm_compute. discriminate.
Qed.

(* the same call under the registered name, and under the alias once the arms cover it: checkpointed and undone *)
Lemma ex_named_write_undone :
  run_tool small_registry expected_tool_steps expected_auto_steps d_ws d_root n_write (AWrite d_a corr_ext 0 d_data) = (Some d_ck, d_after)
  /\ run_tool aliased_arms_registry expected_tool_steps expected_auto_steps d_ws d_root n_write_file (AWrite d_a corr_ext 0 d_data) = (Some d_ck, d_after)
  /\ run_tool aliased_resolved_registry expected_tool_steps expected_auto_steps d_ws d_root n_write_file (AWrite d_a corr_ext 0 d_data) = (Some d_ck, d_after)
  /\ rewind d_after d_ck = (d_ws, None)
  /\ arg_ok expected_tool_steps d_ws (AWrite d_a corr_ext 0 d_data)
  /\ handler_of small_registry n_write <> Some K_PROCESS.
Proof.
  split; [vm_compute; reflexivity|]. split; [vm_compute; reflexivity|]. split; [vm_compute; reflexivity|].
  split; [vm_compute; reflexivity|]. split.
  - cbn [arg_ok]. intros _ x Hx. vm_compute in Hx. inversion Hx; subst x. vm_compute. reflexivity.
  - vm_compute. discriminate.
Qed.

Lemma ex_registries_wf :
  registry_wf small_registry = true /\ registry_wf aliased_registry = false
  /\ registry_wf aliased_arms_registry = true /\ registry_wf aliased_resolved_registry = true.
Proof.
  split; [exact small_registry_wf|]. split; [exact aliased_registry_not_wf|].
  split; [exact aliased_arms_registry_wf|exact aliased_resolved_registry_wf].
Qed.
