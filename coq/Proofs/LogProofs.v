(* Lemmas about the shared log model: the validator decides `Valid`, appending one frame, byte view. *)
From RipV Require Import Base.Prelude Model.Frames Model.Log.

Lemma skind_eqb_spec a b : skind_eqb a b = true <-> a = b.
Proof. destruct a, b; cbn; split; intros H; try reflexivity; try discriminate. Qed.

Lemma skind_eqb_refl a : skind_eqb a a = true.
Proof. destruct a; reflexivity. Qed.

Lemma in_stream_self f : in_stream (fkind f) (sid f) f = true.
Proof. unfold in_stream. rewrite skind_eqb_refl, N.eqb_refl. reflexivity. Qed.

Lemma in_stream_true k s f : in_stream k s f = true <-> fkind f = k /\ sid f = s.
Proof. unfold in_stream. rewrite andb_true_iff, skind_eqb_spec, N.eqb_eq. tauto. Qed.

Lemma in_stream_other k s f : (fkind f, sid f) <> (k, s) -> in_stream k s f = false.
Proof.
  intros H. destruct (in_stream k s f) eqn:E; [|reflexivity].
  apply in_stream_true in E. destruct E as [<- <-]. congruence.
Qed.

Lemma stream_app k s a b : stream k s (a ++ b) = stream k s a ++ stream k s b.
Proof. unfold stream. apply filter_app. Qed.

Lemma stream_snoc_same f l : stream (fkind f) (sid f) (l ++ [f]) = stream (fkind f) (sid f) l ++ [f].
Proof. rewrite stream_app. unfold stream at 2. cbn [filter]. rewrite in_stream_self. reflexivity. Qed.

Lemma stream_snoc_other k s f l :
  (fkind f, sid f) <> (k, s) -> stream k s (l ++ [f]) = stream k s l.
Proof.
  intros H. rewrite stream_app. unfold stream at 2. cbn [filter].
  rewrite in_stream_other by exact H. apply app_nil_r.
Qed.

Lemma stream_In k s l f : In f (stream k s l) <-> In f l /\ fkind f = k /\ sid f = s.
Proof. unfold stream. rewrite filter_In, in_stream_true. tauto. Qed.

(* ---------- nseq ---------- *)
Lemma nseq_length st n : length (nseq st n) = n.
Proof. revert st; induction n as [|n IH]; intros st; cbn [nseq length]; [reflexivity|]. rewrite IH. reflexivity. Qed.

Lemma nseq_snoc st n : nseq st (S n) = nseq st n ++ [st + N.of_nat n].
Proof.
  revert st; induction n as [|n IH]; intros st.
  - cbn [nseq app]. f_equal. lia.
  - change (nseq st (S (S n))) with (st :: nseq (st + 1) (S n)). rewrite IH.
    cbn [nseq app]. do 2 f_equal. f_equal. lia.
Qed.

Lemma nseq_nth st n i : (i < n)%nat -> nth_error (nseq st n) i = Some (st + N.of_nat i).
Proof.
  revert st i; induction n as [|n IH]; intros st i Hi; [lia|].
  destruct i as [|i]; cbn [nseq nth_error].
  - f_equal. lia.
  - rewrite IH by lia. f_equal. lia.
Qed.

Lemma nseq_In st n x : In x (nseq st n) <-> st <= x < st + N.of_nat n.
Proof.
  revert st; induction n as [|n IH]; intros st; cbn [nseq In].
  - split; [tauto|lia].
  - rewrite IH. lia.
Qed.

Lemma nseq_NoDup st n : NoDup (nseq st n).
Proof.
  revert st; induction n as [|n IH]; intros st; cbn [nseq]; constructor.
  - rewrite nseq_In. lia.
  - apply IH.
Qed.

(* ---------- the validator decides Valid ---------- *)
Lemma validate_from_spec l : forall m,
  validate_from m l = true <->
  (forall k s, map seq (stream k s l) = nseq (m k s) (length (stream k s l))).
Proof.
  induction l as [|f r IH]; intros m.
  - cbn. split; [intros _ k s; reflexivity | reflexivity].
  - cbn [validate_from]. destruct (seq f =? m (fkind f) (sid f)) eqn:E.
    + apply N.eqb_eq in E. rewrite IH. split.
      * intros H k s. unfold stream. cbn [filter].
        destruct (in_stream k s f) eqn:Ei.
        -- apply in_stream_true in Ei. destruct Ei as [<- <-].
           cbn [map length nseq]. rewrite E. f_equal.
           specialize (H (fkind f) (sid f)). unfold exp_bump in H.
           rewrite skind_eqb_refl, N.eqb_refl in H. cbn [andb] in H. exact H.
        -- specialize (H k s). unfold exp_bump in H.
           unfold in_stream in Ei. rewrite Ei in H. exact H.
      * intros H k s. specialize (H k s). unfold stream in H. cbn [filter] in H.
        unfold exp_bump. destruct (in_stream k s f) eqn:Ei.
        -- pose proof Ei as Ei'. apply in_stream_true in Ei'. destruct Ei' as [<- <-].
           rewrite skind_eqb_refl, N.eqb_refl. cbn [andb].
           cbn [map length nseq] in H. inversion H as [[H0 H1]]. exact H1.
        -- unfold in_stream in Ei. rewrite Ei. exact H.
    + split; [discriminate|]. intros H. exfalso.
      specialize (H (fkind f) (sid f)). unfold stream in H. cbn [filter] in H.
      rewrite in_stream_self in H. cbn [map length nseq] in H. inversion H as [[H0 H1]].
      apply N.eqb_neq in E. congruence.
Qed.

Theorem validate_spec l : validate l = true <-> Valid l.
Proof. unfold validate, Valid. rewrite validate_from_spec. unfold exp0. reflexivity. Qed.

Lemma Valid_nil : Valid [].
Proof. intros k s. reflexivity. Qed.

(* appending one frame at the end of the file keeps every stream gap-free iff the frame carries
   the number of frames its own stream already has *)
Lemma Valid_snoc l f :
  Valid (l ++ [f]) <-> Valid l /\ seq f = next_of (fkind f) (sid f) l.
Proof.
  unfold Valid, next_of, nlen. split.
  - intros H. split.
    + intros k s. destruct (in_stream k s f) eqn:Ei.
      * apply in_stream_true in Ei. destruct Ei as [<- <-].
        specialize (H (fkind f) (sid f)). rewrite stream_snoc_same in H.
        rewrite map_app, app_length in H. cbn [map length] in H.
        rewrite Nat.add_1_r, nseq_snoc in H. apply app_inj_tail in H. tauto.
      * specialize (H k s). rewrite stream_snoc_other in H; [exact H|].
        intros E. inversion E; subst. rewrite in_stream_self in Ei. discriminate.
    + specialize (H (fkind f) (sid f)). rewrite stream_snoc_same in H.
      rewrite map_app, app_length in H. cbn [map length] in H.
      rewrite Nat.add_1_r, nseq_snoc in H. apply app_inj_tail in H. destruct H as [_ H].
      rewrite H. lia.
  - intros [H Hs] k s. destruct (in_stream k s f) eqn:Ei.
    + apply in_stream_true in Ei. destruct Ei as [<- <-].
      rewrite stream_snoc_same, map_app, app_length. cbn [map length].
      rewrite Nat.add_1_r, nseq_snoc, H, Hs. repeat f_equal; lia.
    + rewrite stream_snoc_other; [apply H|].
      intros E. inversion E; subst. rewrite in_stream_self in Ei. discriminate.
Qed.

Lemma Valid_stream_nth l k s i f :
  Valid l -> nth_error (stream k s l) i = Some f -> seq f = N.of_nat i.
Proof.
  intros H Hn. pose proof (map_nth_error seq _ _ Hn) as Hm. rewrite (H k s) in Hm.
  assert (Hi : (i < length (stream k s l))%nat) by (apply nth_error_Some; congruence).
  rewrite nseq_nth in Hm by exact Hi. inversion Hm. lia.
Qed.

Lemma Valid_seq_lt l k s f : Valid l -> In f (stream k s l) -> seq f < next_of k s l.
Proof.
  intros H Hin. apply (in_map seq) in Hin. rewrite (H k s), nseq_In in Hin.
  unfold next_of, nlen. lia.
Qed.

Lemma Valid_no_duplicate l k s : Valid l -> NoDup (map seq (stream k s l)).
Proof. intros H. rewrite (H k s). apply nseq_NoDup. Qed.

Lemma last_seq_snoc fs f : last_seq (fs ++ [f]) = Some (seq f).
Proof. unfold last_seq. rewrite rev_app_distr. reflexivity. Qed.

Lemma last_seq_nil : last_seq [] = None.
Proof. reflexivity. Qed.

(* on a valid log the tail of a non-empty stream names the next seq *)
Lemma Valid_last_seq l k s q :
  Valid l -> last_seq (stream k s l) = Some q -> q + 1 = next_of k s l.
Proof.
  intros H Hl. unfold next_of, nlen.
  destruct (stream k s l) as [|x r] eqn:E using rev_ind; [discriminate|].
  rewrite last_seq_snoc in Hl. inversion Hl; subst q.
  specialize (H k s). rewrite E, map_app, app_length in H. cbn [map length] in H.
  rewrite Nat.add_1_r, nseq_snoc in H. apply app_inj_tail in H. destruct H as [_ H].
  rewrite app_length. cbn [length]. lia.
Qed.

Lemma last_seq_none_iff fs : last_seq fs = None <-> fs = [].
Proof.
  destruct fs as [|x r] using rev_ind; [split; reflexivity|].
  rewrite last_seq_snoc. split; [discriminate|]. intros E. destruct r; discriminate.
Qed.

(* ---------- byte view ---------- *)
Lemma log_bytes_app enc a b : log_bytes enc (a ++ b) = log_bytes enc a ++ log_bytes enc b.
Proof. unfold log_bytes. rewrite map_app, concat_app. reflexivity. Qed.

Lemma log_bytes_prefix enc a b : is_prefix_of (log_bytes enc a) (log_bytes enc (a ++ b)).
Proof. exists (log_bytes enc b). apply log_bytes_app. Qed.

Lemma split_lines_aux_line cur ln rest :
  ~ In 10 ln ->
  split_lines_aux cur (ln ++ 10 :: rest) =
  let '(ls, t) := split_lines_aux [] rest in ((rev cur ++ ln) :: ls, t).
Proof.
  revert cur; induction ln as [|x ln IH]; intros cur Hn.
  - cbn [app split_lines_aux]. rewrite N.eqb_refl. rewrite app_nil_r. reflexivity.
  - cbn [app split_lines_aux]. destruct (x =? 10) eqn:E.
    + apply N.eqb_eq in E. subst. exfalso. apply Hn. left. reflexivity.
    + rewrite IH by (intros Hin; apply Hn; right; exact Hin).
      cbn [rev]. rewrite <- app_assoc. reflexivity.
Qed.

(* the file splits back into exactly the printed frames, nothing left over: every line of the
   log is a whole, newline-terminated frame *)
Lemma split_lines_log_bytes enc l :
  (forall f, ~ In 10 (enc f)) -> split_lines (log_bytes enc l) = (map enc l, []).
Proof.
  intros Hn. unfold split_lines. induction l as [|f r IH]; [reflexivity|].
  unfold log_bytes. cbn [map concat]. unfold encode_line at 1. rewrite <- app_assoc.
  cbn [app]. rewrite split_lines_aux_line by apply Hn.
  change (concat (map (encode_line enc) r)) with (log_bytes enc r). rewrite IH. reflexivity.
Qed.
