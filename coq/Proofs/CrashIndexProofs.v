(* C05 — the thread index (continuities/index.json) across a crash: temp + rename leaves the OLD or the NEW index,
   never none; what a completed operation left in the index is never lost; refuted for "unlink, then rename".
   Everything here holds for EVERY code version `v` and EVERY history (no environment hypothesis): the index part
   of the state does not depend on the log. *)
From RipV Require Import Base.Prelude Model.Crash Proofs.CrashProofs.

(* ================================================================ the part of the state the index depends on *)
Definition icore (s : st) : option idxv * option idxv * idxv := (idx s, idx_tmp s, midx s).
Definition irel (i : instr) : bool :=
  match i with IIdxMem _ _ | IIdxTmp | IIdxRename | IIdxRemove => true | _ => false end.

Lemma exec_icore_congr s s' i : icore s = icore s' -> icore (exec s i) = icore (exec s' i).
Proof.
  unfold icore. intros E. injection E as Ei Et Em.
  destruct i; cbn [exec upd_truth upd_sides upd_nexts upd_idx upd_arts upd_acks idx idx_tmp midx];
    try (rewrite ?Ei, ?Et, ?Em; reflexivity).
  rewrite Et. destruct (idx_tmp s') eqn:Et'; cbn [upd_idx idx idx_tmp midx]; rewrite ?Ei, ?Et, ?Et', ?Em; reflexivity.
Qed.
Lemma exec_icore_neutral s i : irel i = false -> icore (exec s i) = icore s.
Proof.
  unfold icore. destruct i; cbn [irel]; intros H; try discriminate H;
    cbn [exec upd_truth upd_sides upd_nexts upd_idx upd_arts upd_acks idx idx_tmp midx]; reflexivity.
Qed.
Lemma run_icore_congr is : forall s s', icore s = icore s' -> icore (run_instrs s is) = icore (run_instrs s' is).
Proof.
  unfold run_instrs. induction is as [|i is IH]; intros s s' E; [exact E|].
  cbn [fold_left]. apply IH. apply exec_icore_congr. exact E.
Qed.
Lemma run_icore_filter is : forall s, icore (run_instrs s is) = icore (run_instrs s (filter irel is)).
Proof.
  unfold run_instrs. induction is as [|i is IH]; intros s; [reflexivity|].
  cbn [fold_left filter]. destruct (irel i) eqn:R.
  - cbn [fold_left]. apply IH.
  - rewrite IH. apply (run_icore_congr (filter irel is)). apply exec_icore_neutral. exact R.
Qed.
Lemma icore_idx s s' : icore s = icore s' -> idx s = idx s'.
Proof. unfold icore. intros E. injection E as Ei _ _. exact Ei. Qed.
Lemma icore_midx s s' : icore s = icore s' -> midx s = midx s'.
Proof. unfold icore. intros E. injection E as _ _ Em. exact Em. Qed.

(* ================================================================ the index instructions of every program *)
Lemma fi_app a b : filter irel (a ++ b) = filter irel a ++ filter irel b.
Proof. apply filter_app. Qed.
Lemma fi_truth_append_gen a b f : filter irel (truth_append_gen a b f) = [].
Proof. destruct a, b; reflexivity. Qed.
Lemma fi_truth_append v f : filter irel (truth_append v f) = [].
Proof. apply fi_truth_append_gen. Qed.
Lemma fi_sess_append v f : filter irel (sess_append v f) = [].
Proof. apply fi_truth_append_gen. Qed.
Lemma fi_side_append c f : filter irel (side_append c f) = [].
Proof. reflexivity. Qed.
Lemma fi_save_index : filter irel save_index = [IIdxTmp; IIdxRename].
Proof. reflexivity. Qed.
Lemma fi_write_blob a : filter irel (write_blob a) = [].
Proof. reflexivity. Qed.
Lemma fi_rebuild c evs : filter irel (rebuild c evs) = [].
Proof.
  unfold rebuild. rewrite !fi_app. cbn [filter irel app].
  induction evs as [|f evs IH]; [reflexivity|]. cbn [flat_map]. rewrite fi_app. cbn [filter irel app]. exact IH.
Qed.
Lemma fi_rebuild_nonempty c evs : filter irel (rebuild_nonempty c evs) = [].
Proof. destruct evs; [reflexivity | apply fi_rebuild]. Qed.
Lemma fi_replay_events s c : filter irel (fst (replay_events s c)) = [].
Proof.
  unfold replay_events. destruct (try_replay s c); [reflexivity|].
  destruct (replay_validated s); [apply fi_rebuild_nonempty | reflexivity].
Qed.
Lemma fi_load_next_unfixed s c : filter irel (fst (load_next_unfixed s c)) = [].
Proof.
  unfold load_next_unfixed. destruct (side_tail_seq s c); [reflexivity|].
  pose proof (fi_replay_events s c) as H. destruct (replay_events s c) as [is [evs|]]; cbn [fst snd] in *;
    [destruct (last_opt evs)|]; exact H.
Qed.
Lemma fi_load_next_fixed s c : filter irel (fst (load_next_fixed s c)) = [].
Proof.
  unfold load_next_fixed. destruct (truth_last s (2 * c)); [apply fi_load_next_unfixed | reflexivity |].
  destruct (match side_tail_seq s c with Some q' => q' =? q | None => false end); [reflexivity|].
  destruct (replay_validated s); [apply fi_rebuild_nonempty | reflexivity].
Qed.
Lemma fi_resolve v s c : filter irel (fst (resolve v s c)) = [].
Proof.
  unfold resolve. destruct (get (2 * c) (nexts s)); [reflexivity|].
  destruct (fr v); [apply fi_load_next_fixed | apply fi_load_next_unfixed].
Qed.
Lemma fi_locked_append v s c fid len art : filter irel (locked_append v s c fid len art) = [].
Proof.
  unfold locked_append. rewrite !fi_app, fi_resolve.
  destruct (snd (resolve v s c)); [|reflexivity].
  rewrite !fi_app, fi_truth_append, fi_side_append. reflexivity.
Qed.
Lemma fi_create v c fid len d :
  filter irel (create v c fid len d) = [IIdxMem (if d then Some c else None) (Some c); IIdxTmp; IIdxRename].
Proof. unfold create. rewrite !fi_app, fi_truth_append, fi_side_append, fi_save_index. reflexivity. Qed.
Lemma fi_child v c i len0 len1 blob art : filter irel blob = [] ->
  filter irel (child v c i len0 len1 blob art) = [IIdxMem None (Some c); IIdxTmp; IIdxRename].
Proof.
  intros Hb. unfold child. rewrite !fi_app, fi_create, Hb, fi_truth_append, fi_side_append. reflexivity.
Qed.

(* the index instructions of an operation, as a function of the state it starts in *)
Definition parent_ok (s : st) (p : N) : bool :=
  match snd (replay_events s p) with Some (_ :: _) => true | _ => false end.
Definition idx_prog (s : st) (o : op) : list instr :=
  match o with
  | OEnsure c _ =>
    match ix_default (midx s) with
    | Some _ => []
    | None =>
      match replay_validated s with
      | None => []
      | Some fs =>
        match latest_created fs with
        | Some d => [IIdxMem (Some d) None; IIdxTmp; IIdxRename]
        | None => [IIdxMem (Some c) (Some c); IIdxTmp; IIdxRename]
        end
      end
    end
  | OBranch p c _ _ | OHandoff p c _ _ _ => if parent_ok s p then [IIdxMem None (Some c); IIdxTmp; IIdxRename] else []
  | _ => []
  end.

Lemma fi_compile v s i o : filter irel (compile v s i o) = idx_prog s o.
Proof.
  destruct o as [c len | c len | x len | c a has_msg len | p c len0 len1 | p c a len0 len1 | c]; cbn [compile idx_prog].
  - destruct (ix_default (midx s)); [reflexivity|].
    destruct (replay_validated s) as [fs|]; [|reflexivity].
    destruct (latest_created fs); [reflexivity|]. rewrite fi_app, fi_create. reflexivity.
  - apply fi_locked_append.
  - rewrite fi_app, fi_sess_append. reflexivity.
  - rewrite fi_app, fi_replay_events. cbn [app].
    destruct (snd (replay_events s c)) as [[|e evs]|]; [reflexivity | | reflexivity].
    destruct has_msg; [|reflexivity]. rewrite fi_app, fi_write_blob, fi_locked_append. reflexivity.
  - rewrite fi_app, fi_replay_events. cbn [app]. unfold parent_ok.
    destruct (snd (replay_events s p)) as [[|e evs]|]; [reflexivity | | reflexivity].
    apply fi_child. reflexivity.
  - rewrite fi_app, fi_replay_events. cbn [app]. unfold parent_ok.
    destruct (snd (replay_events s p)) as [[|e evs]|]; [reflexivity | | reflexivity].
    rewrite fi_app, fi_write_blob. cbn [app]. apply fi_child. reflexivity.
  - cbn [filter irel]. apply fi_replay_events.
Qed.

(* every operation has no index instruction, or exactly one save: update in memory, write the temp file, rename *)
Definition upd_mem (m : idxv) (d a : option N) : idxv :=
  {| ix_default := match d with Some x => Some x | None => ix_default m end;
     ix_known := match a with Some x => ix_known m ++ [x] | None => ix_known m end |}.
Lemma idx_prog_shape s o : idx_prog s o = [] \/ exists d a, idx_prog s o = [IIdxMem d a; IIdxTmp; IIdxRename].
Proof.
  destruct o; cbn [idx_prog]; try (left; reflexivity).
  - destruct (ix_default (midx s)); [left; reflexivity|]. destruct (replay_validated s) as [fs|]; [|left; reflexivity].
    destruct (latest_created fs); right; eauto.
  - destruct (parent_ok s p); [right; eauto | left; reflexivity].
  - destruct (parent_ok s p); [right; eauto | left; reflexivity].
Qed.

(* ================================================================ one operation: OLD or NEW at every instruction *)
Lemma idx_filter s p : idx (run_instrs s p) = idx (run_instrs s (filter irel p)).
Proof. apply icore_idx, run_icore_filter. Qed.
Lemma midx_filter s p : midx (run_instrs s p) = midx (run_instrs s (filter irel p)).
Proof. apply icore_midx, run_icore_filter. Qed.

Lemma save_result s d a :
  idx (run_instrs s [IIdxMem d a; IIdxTmp; IIdxRename]) = Some (upd_mem (midx s) d a)
  /\ midx (run_instrs s [IIdxMem d a; IIdxTmp; IIdxRename]) = upd_mem (midx s) d a.
Proof. split; reflexivity. Qed.

(* the index on disk after ANY prefix of an operation's program is the index the operation found (OLD) or the index
   the complete operation leaves (NEW) *)
Theorem op_views v s i o p r : compile v s i o = p ++ r ->
  idx (run_instrs s p) = idx s \/ idx (run_instrs s p) = idx (run_instrs s (compile v s i o)).
Proof.
  intros E. rewrite (idx_filter s p), (idx_filter s (compile v s i o)).
  pose proof (fi_compile v s i o) as F. rewrite E, fi_app in F. rewrite E, fi_app, F.
  destruct (idx_prog_shape s o) as [H | (d & a & H)]; rewrite H in F |- *.
  - apply app_eq_nil in F. destruct F as [-> _]. left. reflexivity.
  - destruct (filter irel p) as [|x [|y [|z [|w l]]]]; cbn [app] in F.
    + left. reflexivity.
    + injection F as -> _. left. reflexivity.
    + injection F as -> -> _. left. reflexivity.
    + injection F as -> -> -> _. right. reflexivity.
    + exfalso. injection F as _ _ _ F. discriminate F.
Qed.

(* ================================================================ histories: a crash leaves a boundary's index *)
Lemma run_ops_one v s i o : run_ops v s i [o] = run_instrs s (compile v s i o).
Proof. reflexivity. Qed.

(* c05_rename_atomic_views: with n = the number of operations complete after the first k instructions, the index on
   disk is the one the clean run of the first n operations leaves (OLD) or the one the first n+1 leave (NEW) *)
Theorem atomic_views v ops : forall k s i,
  idx (run_k v k s i ops) = idx (run_ops v s i (firstn (done_ops v k s i ops) ops))
  \/ idx (run_k v k s i ops) = idx (run_ops v s i (firstn (S (done_ops v k s i ops)) ops)).
Proof.
  induction ops as [|o ops IH]; intros k s i.
  - left. reflexivity.
  - cbn [run_k done_ops]. destruct (Nat.leb k (length (compile v s i o))).
    + cbn [firstn run_ops].
      destruct (op_views v s i o (firstn k (compile v s i o)) (skipn k (compile v s i o))) as [H|H];
        [symmetry; apply firstn_skipn | left; exact H | right; exact H].
    + cbn [firstn run_ops]. apply IH.
Qed.

Corollary crash_atomic_views v hist k :
  idx (crash v k hist) = idx (run_ops v init 0 (firstn (done_ops v k init 0 hist) hist))
  \/ idx (crash v k hist) = idx (run_ops v init 0 (firstn (S (done_ops v k init 0 hist)) hist)).
Proof. unfold crash. cbn [recover idx]. apply atomic_views. Qed.

(* ================================================================ at operation boundaries *)
(* memory index = disk index (what a restarted store loads is what the running store had) *)
Definition K (s : st) : Prop := midx s = match idx s with Some x => x | None => idx_empty end.
Lemma K_init : K init.
Proof. reflexivity. Qed.
Lemma K_recover s : K (recover s).
Proof. reflexivity. Qed.

(* b extends a: no thread leaves the index, a default once set is kept *)
Definition idx_ext (a b : option idxv) : Prop :=
  match a with
  | None => True
  | Some x => exists y, b = Some y
                        /\ (ix_default x = None \/ ix_default y = ix_default x)
                        /\ exists l, ix_known y = ix_known x ++ l
  end.
Lemma idx_ext_refl a : idx_ext a a.
Proof. destruct a as [x|]; [|exact I]. exists x. split; [reflexivity|]. split; [right; reflexivity|]. exists []. symmetry. apply app_nil_r. Qed.
Lemma idx_ext_trans a b c : idx_ext a b -> idx_ext b c -> idx_ext a c.
Proof.
  destruct a as [x|]; [|intros _ _; exact I]. intros (y & -> & Hd & l & Hl). cbn [idx_ext].
  intros (z & -> & Hd' & l' & Hl'). exists z. split; [reflexivity|]. split.
  - destruct Hd as [Hd|Hd]; [left; exact Hd|]. destruct Hd' as [Hd'|Hd'].
    + rewrite Hd' in Hd. left. symmetry. exact Hd.
    + right. rewrite Hd'. exact Hd.
  - exists (l ++ l'). rewrite Hl', Hl. symmetry. apply app_assoc.
Qed.

Lemma op_boundary v s i o : K s ->
  K (run_instrs s (compile v s i o)) /\ idx_ext (idx s) (idx (run_instrs s (compile v s i o))).
Proof.
  intros HK. unfold K. rewrite (idx_filter s (compile v s i o)), (midx_filter s (compile v s i o)), fi_compile.
  assert (Hnil : K (run_instrs s []) /\ idx_ext (idx s) (idx (run_instrs s [])))
    by (split; [exact HK | apply idx_ext_refl]).
  assert (Hsave : forall d a, (d <> None -> ix_default (midx s) = None) ->
            K (run_instrs s [IIdxMem d a; IIdxTmp; IIdxRename])
            /\ idx_ext (idx s) (idx (run_instrs s [IIdxMem d a; IIdxTmp; IIdxRename]))).
  { intros d a Hd. destruct (save_result s d a) as [E1 E2]. unfold K. rewrite E1, E2. split; [reflexivity|].
    unfold K in HK. destruct (idx s) as [x|] eqn:Ex; [|exact I]. cbn [idx_ext].
    exists (upd_mem (midx s) d a). split; [reflexivity|]. rewrite HK. unfold upd_mem. cbn [ix_default ix_known]. split.
    - destruct d as [d|]; [left; rewrite <- HK; apply Hd; discriminate | right; reflexivity].
    - destruct a as [a|]; [exists [a]; reflexivity | exists []; symmetry; apply app_nil_r]. }
  unfold K in Hnil.
  destruct o as [c len | c len | x len | c a has_msg len | p c len0 len1 | p c a len0 len1 | c]; cbn [idx_prog]; try exact Hnil.
  - destruct (ix_default (midx s)) eqn:Ed; [exact Hnil|].
    destruct (replay_validated s) as [fs|]; [|exact Hnil].
    destruct (latest_created fs); apply Hsave; intros _; reflexivity.
  - destruct (parent_ok s p); [|exact Hnil]. apply Hsave. intros H. contradiction H. reflexivity.
  - destruct (parent_ok s p); [|exact Hnil]. apply Hsave. intros H. contradiction H. reflexivity.
Qed.

Lemma run_ops_boundary v ops : forall s i, K s -> K (run_ops v s i ops) /\ idx_ext (idx s) (idx (run_ops v s i ops)).
Proof.
  induction ops as [|o ops IH]; intros s i HK; [split; [exact HK | apply idx_ext_refl]|].
  cbn [run_ops]. destruct (op_boundary v s i o HK) as [HK1 He1]. destruct (IH _ (i + 1) HK1) as [HK2 He2].
  split; [exact HK2 | exact (idx_ext_trans _ _ _ He1 He2)].
Qed.

Lemma run_ops_app v a : forall b s i, run_ops v s i (a ++ b) = run_ops v (run_ops v s i a) (i + nlen a) b.
Proof.
  induction a as [|o a IH]; intros b s i.
  - cbn [app run_ops]. unfold nlen. cbn [length N.of_nat]. rewrite N.add_0_r. reflexivity.
  - cbn [app run_ops]. rewrite IH, nlen_cons. f_equal. lia.
Qed.

Lemma firstn_le_split {A} (j n : nat) (l : list A) : (j <= n)%nat -> exists t, firstn n l = firstn j l ++ t.
Proof.
  revert n l. induction j as [|j IH]; intros n l Hle; [exists (firstn n l); reflexivity|].
  destruct n as [|n]; [lia|]. destruct l as [|x l]; [exists []; reflexivity|].
  destruct (IH n l) as [t Ht]; [lia|]. exists t. cbn [firstn app]. rewrite Ht. reflexivity.
Qed.

Lemma boundaries_ext v ops s i j n : K s -> (j <= n)%nat ->
  idx_ext (idx (run_ops v s i (firstn j ops))) (idx (run_ops v s i (firstn n ops))).
Proof.
  intros HK Hle. destruct (firstn_le_split j n ops Hle) as [t Ht]. rewrite Ht, run_ops_app.
  apply run_ops_boundary. apply run_ops_boundary. exact HK.
Qed.

(* what ANY completed operation left in the index is still there after a crash at ANY later instruction, restart and
   ANY further operations: no listed thread is lost, the default thread is kept *)
Theorem index_never_loses v hist k j base more : (j <= done_ops v k init 0 hist)%nat ->
  idx_ext (idx (run_ops v init 0 (firstn j hist))) (idx (run_ops v (crash v k hist) base more)).
Proof.
  intros Hj. apply (idx_ext_trans _ (idx (crash v k hist))).
  - unfold crash. cbn [recover idx].
    destruct (atomic_views v hist k init 0) as [E|E]; rewrite E; apply boundaries_ext; try exact K_init; lia.
  - apply run_ops_boundary. apply K_recover.
Qed.

(* the restarted store's in-memory index is the disk index: a default thread that a completed operation had on disk
   is the default the restarted store answers ensure_default with (no log scan, no new thread) *)
Theorem default_survives v hist k j x d c len : (j <= done_ops v k init 0 hist)%nat ->
  idx (run_ops v init 0 (firstn j hist)) = Some x -> ix_default x = Some d ->
  ix_default (midx (crash v k hist)) = Some d /\ compile v (crash v k hist) (nlen hist) (OEnsure c len) = [IOk].
Proof.
  intros Hj Ex Ed. pose proof (index_never_loses v hist k j 0 [] Hj) as H. rewrite Ex in H. cbn [run_ops idx_ext] in H.
  destruct H as (y & Ey & Hd & _). destruct Hd as [Hd|Hd]; [rewrite Hd in Ed; discriminate Ed|].
  assert (Hm : ix_default (midx (crash v k hist)) = Some d).
  { pose proof (K_recover (run_k v k init 0 hist)) as HK. fold (crash v k hist) in HK. unfold K in HK.
    rewrite HK, Ey, Hd. exact Ed. }
  split; [exact Hm|]. cbn [compile]. rewrite Hm. reflexivity.
Qed.

(* a branch / handoff that returns Ok has its child in the index on disk; an ensure_default that returns Ok has the
   default on disk (the index is saved BEFORE the call returns) *)
Lemma has_ok_app a b : has_ok (a ++ b) = has_ok a || has_ok b.
Proof. unfold has_ok. apply existsb_app. Qed.
Lemma has_ok_rebuild c evs : has_ok (rebuild c evs) = false.
Proof.
  unfold rebuild. rewrite !has_ok_app. cbn [has_ok existsb orb].
  induction evs as [|f evs IH]; [reflexivity|]. cbn [flat_map]. rewrite has_ok_app. cbn [has_ok existsb orb]. exact IH.
Qed.
Lemma has_ok_replay_events s c : has_ok (fst (replay_events s c)) = false.
Proof.
  unfold replay_events. destruct (try_replay s c); [reflexivity|]. destruct (replay_validated s) as [fs|]; [|reflexivity].
  cbn [fst]. unfold rebuild_nonempty. destruct (stream (2 * c) fs); [reflexivity | apply has_ok_rebuild].
Qed.

Theorem created_listed v s i o p c : K s ->
  (exists l0 l1, o = OBranch p c l0 l1) \/ (exists a l0 l1, o = OHandoff p c a l0 l1) ->
  has_ok (compile v s i o) = true ->
  exists x, idx (run_instrs s (compile v s i o)) = Some x /\ In c (ix_known x).
Proof.
  intros HK Ho Hok.
  assert (Hp : parent_ok s p = true).
  { destruct Ho as [(l0 & l1 & ->) | (a & l0 & l1 & ->)]; cbn [compile] in Hok; rewrite has_ok_app, has_ok_replay_events in Hok;
      cbn [orb] in Hok; unfold parent_ok; destruct (snd (replay_events s p)) as [[|e evs]|]; try reflexivity; discriminate Hok. }
  rewrite (idx_filter s (compile v s i o)), fi_compile.
  assert (E : idx_prog s o = [IIdxMem None (Some c); IIdxTmp; IIdxRename])
    by (destruct Ho as [(l0 & l1 & ->) | (a & l0 & l1 & ->)]; cbn [idx_prog]; rewrite Hp; reflexivity).
  rewrite E. destruct (save_result s None (Some c)) as [E1 _]. rewrite E1.
  eexists. split; [reflexivity|]. unfold upd_mem. cbn [ix_known]. apply in_or_app. right. left. reflexivity.
Qed.

Theorem ensured_default_on_disk v s i c len : K s -> has_ok (compile v s i (OEnsure c len)) = true ->
  exists x d, idx (run_instrs s (compile v s i (OEnsure c len))) = Some x /\ ix_default x = Some d
              /\ ix_default (midx (run_instrs s (compile v s i (OEnsure c len)))) = Some d.
Proof.
  intros HK Hok. unfold K in HK.
  rewrite (idx_filter s (compile v s i (OEnsure c len))), (midx_filter s (compile v s i (OEnsure c len))), fi_compile.
  cbn [compile idx_prog] in *. destruct (ix_default (midx s)) as [d|] eqn:Ed.
  - destruct (idx s) as [x|] eqn:Ex; [|rewrite HK in Ed; discriminate Ed].
    exists x, d. cbn. rewrite Ex. split; [reflexivity|]. rewrite <- HK. split; exact Ed.
  - destruct (replay_validated s) as [fs|]; [|discriminate Hok].
    destruct (latest_created fs) as [d|].
    + destruct (save_result s (Some d) None) as [E1 E2]. rewrite E1, E2. eexists. exists d. repeat split.
    + destruct (save_result s (Some c) (Some c)) as [E1 E2]. rewrite E1, E2. eexists. exists c. repeat split.
Qed.

(* ================================================================ refuted for "unlink, then rename" *)
(* default thread 0 + a message (both acknowledged), then a branch; the process dies inside the branch's index save,
   between fs::remove_file(index.json) and fs::rename(tmp, index.json) *)
Definition ul_hist : list op := [OEnsure 0 300; OAppend 0 10; OBranch 0 1 300 300].
(* 32 + 23 instructions of the two completed operations, 24 of the branch: the last one executed is IIdxRemove *)
Definition ul_k : nat := 79.
(* the same boundary in rip's program (no IIdxRemove): temp file written, rename not yet issued *)
Definition ul_k_fixed : nat := 77.
Lemma ul_witness :
  (* the two completed operations left thread 0 listed and default; their frames (ids 0 and 4) are acknowledged *)
  idx (run_ops fixed init 0 (firstn 2 ul_hist)) = Some {| ix_default := Some 0; ix_known := [0] |}
  /\ In 0 (acks (crashx unlink_first fixed ul_k ul_hist)) /\ In 4 (acks (crashx unlink_first fixed ul_k ul_hist))
  (* the log is intact (so nothing that only replays the log notices) and holds the half-created child 1 *)
  /\ option_map (map (fun f => (f_sid f, f_seq f))) (replay_validated (crashx unlink_first fixed ul_k ul_hist))
     = Some [(0, 0); (0, 1); (2, 0)]
  (* but there is NO index: the restarted store lists nothing *)
  /\ idx (crashx unlink_first fixed ul_k ul_hist) = None
  /\ ix_known (midx (crashx unlink_first fixed ul_k ul_hist)) = []
  (* and ensure_default adopts the half-created child as the workspace's default thread *)
  /\ compile fixed (crashx unlink_first fixed ul_k ul_hist) 3 (OEnsure 9 300) = [IIdxMem (Some 1) None] ++ save_index ++ [IOk]
  (* with rip's save_index the same crash point leaves the old index *)
  /\ idx (crash fixed ul_k_fixed ul_hist) = Some {| ix_default := Some 0; ix_known := [0] |}
  /\ idx_tmp (crash fixed ul_k_fixed ul_hist) = Some {| ix_default := Some 0; ix_known := [0; 1] |}.
Proof. vm_compute. repeat split; auto. Qed.

(* non-vacuity of index_never_loses / default_survives: a crash inside the third operation of ul_hist *)
Lemma ul_example :
  (2 <= done_ops fixed 70 init 0 ul_hist)%nat
  /\ idx (run_ops fixed init 0 (firstn 2 ul_hist)) = Some {| ix_default := Some 0; ix_known := [0] |}
  /\ idx (crash fixed 70 ul_hist) = Some {| ix_default := Some 0; ix_known := [0] |}
  /\ idx (crash fixed 200 ul_hist) = Some {| ix_default := Some 0; ix_known := [0; 1] |}.
Proof. vm_compute. repeat split; auto. Qed.
