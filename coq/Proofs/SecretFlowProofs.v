(* C19 — proofs about Model/SecretFlow.v.

   Shape of the argument:
   (A) everything a run stores or shows (`persisted`) is a function of the LOW projection of the
       provider configuration (`low_or`: key value and header values erased, names kept): the key
       and the header values are read by `mk_sent` only, whose result goes to `out_sent` only;
   (B) resolution commutes with erasure: resolving the erased world (`low_world`: inline keys,
       header values and non-public environment values replaced by a token that only keeps
       blank/non-blank) gives the erasure of what resolving the real world gives;
   (C) hence two worlds with the same low projection produce the same frames (both streams, incl.
       request dumps and error frames) and the same doctor summary, for every script (provider,
       validator, tools) and every fuel. *)
From Coq Require Import Strings.String Strings.Ascii.
From RipV Require Import Base.Prelude Model.SecretFlow.

Local Open Scope N_scope.

(* ---- erasure on the resolved records --------------------------------------------------------- *)
Definition hide_vals (hs : list (str * str)) : list (str * str) := map (fun kv => (fst kv, @nil N)) hs.
Definition low_resolved (r : resolved) : resolved :=
  mkResolved (r_provider_id r) (r_route r) (r_endpoint r) (r_model r) (hide_vals (r_headers r))
             (option_map mask (r_key r)) (r_key_source r) (r_stateless r) (r_parallel r) (r_followup r).
Definition low_or (c : orcfg) : orcfg :=
  mkOr (oc_endpoint c) (option_map mask (oc_key c)) (oc_model c) (hide_vals (oc_headers c))
       (oc_tool_choice c) (oc_followup c) (oc_stateless c) (oc_parallel c).
Definition low_config (c : config) : config :=
  mkConfig (map (fun kp => (fst kp, low_patch (snd kp))) (c_providers c))
           (c_model c) (c_primary c) (c_stateless c) (c_parallel c) (c_followup c).
(* what lowering does to the value of environment variable [k] *)
Definition lowv (k v : str) : str := if is_public_env k then v else mask v.

(* ---- small facts ------------------------------------------------------------------------------ *)
Lemma str_eqb_eq a b : str_eqb a b = true <-> a = b.
Proof. apply lN_eqb_spec. Qed.

Lemma blank_mask v : blank (mask v) = blank v.
Proof. unfold mask. destruct (blank v) eqn:E; [reflexivity|]. vm_compute. reflexivity. Qed.

Lemma mask_mask v : mask (mask v) = mask v.
Proof. unfold mask at 1. rewrite blank_mask. unfold mask. destruct (blank v); reflexivity. Qed.

Lemma blank_lowv k v : blank (lowv k v) = blank v.
Proof. unfold lowv. destruct (is_public_env k); [reflexivity | apply blank_mask]. Qed.

Lemma mask_lowv k v : mask (lowv k v) = mask v.
Proof. unfold lowv. destruct (is_public_env k); [reflexivity | apply mask_mask]. Qed.

Lemma hide_hide h : hide_vals (hide_vals h) = hide_vals h.
Proof. unfold hide_vals. rewrite map_map. reflexivity. Qed.

Lemma names_hide h : map fst (hide_vals h) = map fst h.
Proof. unfold hide_vals. rewrite map_map. reflexivity. Qed.

Lemma over_map {A B} (g : A -> B) (a b : option A) :
  option_map g (over a b) = over (option_map g a) (option_map g b).
Proof. destruct a; reflexivity. Qed.

(* ---- (B1) environment ------------------------------------------------------------------------- *)
Lemma getenv_low e k : getenv (low_env e) k = option_map (lowv k) (getenv e k).
Proof.
  induction e as [|[n v] e IH]; [reflexivity|].
  cbn [low_env map getenv fst snd]. fold (low_env e).
  destruct (str_eqb n k) eqn:E.
  - apply str_eqb_eq in E. subst n. reflexivity.
  - exact IH.
Qed.

Lemma getenv_low_public e k : is_public_env k = true -> getenv (low_env e) k = getenv e k.
Proof.
  intros P. rewrite getenv_low. unfold lowv. rewrite P. destruct (getenv e k); reflexivity.
Qed.

Lemma nonblank_low e k :
  nonblank_opt (getenv (low_env e) k) = option_map (lowv k) (nonblank_opt (getenv e k)).
Proof.
  rewrite getenv_low. destruct (getenv e k) as [v|]; [|reflexivity].
  cbn [option_map nonblank_opt]. rewrite blank_lowv. destruct (blank v); reflexivity.
Qed.

Lemma mask_nonblank_low e k :
  option_map mask (nonblank_opt (getenv (low_env e) k)) = option_map mask (nonblank_opt (getenv e k)).
Proof.
  rewrite nonblank_low. destruct (nonblank_opt (getenv e k)) as [v|]; [|reflexivity].
  cbn [option_map]. rewrite mask_lowv. reflexivity.
Qed.

Lemma env_bool_low e k : is_public_env k = true -> env_bool (low_env e) k = env_bool e k.
Proof. intros P. unfold env_bool. rewrite getenv_low_public by exact P. reflexivity. Qed.

Lemma pub_endpoint : is_public_env E_ENDPOINT = true. Proof. vm_compute. reflexivity. Qed.
Lemma pub_model : is_public_env E_MODEL = true. Proof. vm_compute. reflexivity. Qed.
Lemma pub_stateless : is_public_env E_STATELESS = true. Proof. vm_compute. reflexivity. Qed.
Lemma pub_parallel : is_public_env E_PARALLEL = true. Proof. vm_compute. reflexivity. Qed.
Lemma pub_followup : is_public_env E_FOLLOWUP = true. Proof. vm_compute. reflexivity. Qed.
Lemma pub_dump : is_public_env E_DUMP = true. Proof. vm_compute. reflexivity. Qed.
Lemma pub_tool_choice : is_public_env E_TOOL_CHOICE = true. Proof. vm_compute. reflexivity. Qed.

(* ---- (B2) merging layers commutes with erasure ------------------------------------------------ *)
Lemma upsert_map {A B} (g : A -> B) (k : str) (f : option A -> A) (f' : option B -> B) :
  (forall o, f' (option_map g o) = g (f o)) ->
  forall m, upsert k f' (map (fun kv => (fst kv, g (snd kv))) m)
            = map (fun kv => (fst kv, g (snd kv))) (upsert k f m).
Proof.
  intros H m. induction m as [|[k' v] m IH].
  - cbn [map upsert fst snd]. rewrite <- (H None). reflexivity.
  - cbn [map upsert fst snd].
    destruct (str_eqb k k') eqn:E1.
    + cbn [map fst snd]. rewrite <- (H (Some v)). reflexivity.
    + destruct (str_ltb k k') eqn:E2.
      * cbn [map fst snd]. rewrite <- (H None). reflexivity.
      * cbn [map fst snd]. rewrite IH. reflexivity.
Qed.

Lemma fold_left_commute {S S' X X'} (F : S -> X -> S) (F' : S' -> X' -> S') (gs : S -> S') (gx : X -> X') :
  (forall s x, F' (gs s) (gx x) = gs (F s x)) ->
  forall l s, fold_left F' (map gx l) (gs s) = gs (fold_left F l s).
Proof.
  intros H l. induction l as [|x l IH]; intros s; [reflexivity|].
  cbn [map fold_left]. rewrite H. apply IH.
Qed.

Lemma lookup_map {A B} (g : A -> B) k (m : list (str * A)) :
  lookup k (map (fun kv => (fst kv, g (snd kv))) m) = option_map g (lookup k m).
Proof.
  induction m as [|[k' v] m IH]; [reflexivity|].
  cbn [map lookup fst snd]. destruct (str_eqb k k'); [reflexivity | exact IH].
Qed.

Lemma low_empty_patch : low_patch empty_patch = empty_patch.
Proof. reflexivity. Qed.

Lemma headers_merge_low (new old : list (str * str)) :
  fold_left (fun hs kv => upsert (fst kv) (fun _ => snd kv) hs) (hide_vals new) (hide_vals old)
  = hide_vals (fold_left (fun hs kv => upsert (fst kv) (fun _ => snd kv) hs) new old).
Proof.
  unfold hide_vals at 1.
  apply (fold_left_commute
           (fun hs (kv : str * str) => upsert (fst kv) (fun _ => snd kv) hs)
           (fun hs (kv : str * str) => upsert (fst kv) (fun _ => snd kv) hs)
           hide_vals (fun kv : str * str => (fst kv, @nil N))).
  intros s x. cbn [fst snd]. unfold hide_vals.
  apply (upsert_map (fun _ : str => @nil N) (fst x) (fun _ => snd x) (fun _ => @nil N)).
  intros o. reflexivity.
Qed.

Lemma merge_patch_low new old :
  merge_patch (low_patch new) (option_map low_patch old) = low_patch (merge_patch new old).
Proof.
  unfold merge_patch.
  replace (match option_map low_patch old with Some p => p | None => empty_patch end)
    with (low_patch (match old with Some p => p | None => empty_patch end))
    by (destruct old; reflexivity).
  set (o := match old with Some p => p | None => empty_patch end).
  unfold low_patch at 3. cbn [pa_endpoint pa_key pa_headers].
  unfold low_patch at 1 2 3 4 5 6. cbn [pa_endpoint pa_key pa_headers].
  rewrite over_map.
  fold (hide_vals (pa_headers new)). fold (hide_vals (pa_headers o)).
  rewrite headers_merge_low. reflexivity.
Qed.

Lemma merge_layer_low c l : merge_layer (low_config c) (low_layer l) = low_config (merge_layer c l).
Proof.
  unfold merge_layer, low_config at 2. cbn [c_providers c_model c_primary c_stateless c_parallel c_followup].
  unfold low_layer. cbn [l_providers l_model l_primary l_stateless l_parallel l_followup].
  unfold low_config. cbn [c_providers c_model c_primary c_stateless c_parallel c_followup].
  f_equal.
  apply (fold_left_commute
           (fun ps (kp : str * patch) => upsert (fst kp) (merge_patch (snd kp)) ps)
           (fun ps (kp : str * patch) => upsert (fst kp) (merge_patch (snd kp)) ps)
           (map (fun kp : str * patch => (fst kp, low_patch (snd kp))))
           (fun kp : str * patch => (fst kp, low_patch (snd kp)))).
  intros s x. cbn [fst snd].
  apply (upsert_map low_patch (fst x) (merge_patch (snd x)) (merge_patch (low_patch (snd x)))).
  intros o. apply merge_patch_low.
Qed.

Lemma merge_layers_low ls : merge_layers (map low_layer ls) = low_config (merge_layers ls).
Proof.
  unfold merge_layers.
  change empty_config with (low_config empty_config) at 1.
  apply (fold_left_commute merge_layer merge_layer low_config low_layer).
  intros s x. apply merge_layer_low.
Qed.

(* ---- (B3) resolution commutes with erasure ---------------------------------------------------- *)
Definition low_pm (pm : option (str * patch)) : option (str * patch) :=
  option_map (fun ip => (fst ip, low_patch (snd ip))) pm.

Lemma find_by_endpoint_low ps ep :
  find_by_endpoint (map (fun kp => (fst kp, low_patch (snd kp))) ps) ep = low_pm (find_by_endpoint ps ep).
Proof.
  induction ps as [|[id p] ps IH]; [reflexivity|].
  cbn [map find_by_endpoint fst snd]. unfold low_patch at 1. cbn [pa_endpoint].
  destruct (pa_endpoint p) as [e|]; [|exact IH].
  destruct (str_eqb (trim e) (trim ep)); [reflexivity | exact IH].
Qed.

Lemma parsed_route_low c : parsed_route (low_config c) = parsed_route c.
Proof. reflexivity. Qed.

Lemma provider_match_low c ep : provider_match (low_config c) ep = low_pm (provider_match c ep).
Proof.
  unfold provider_match. rewrite parsed_route_low.
  destruct (parsed_route c) as [[pid m]|].
  - unfold low_config. cbn [c_providers]. rewrite lookup_map.
    destruct (lookup pid (c_providers c)); reflexivity.
  - unfold low_config. cbn [c_providers]. apply find_by_endpoint_low.
Qed.

Lemma resolve_endpoint_low c e o : resolve_endpoint (low_config c) (low_env e) o = resolve_endpoint c e o.
Proof.
  unfold resolve_endpoint. rewrite parsed_route_low.
  rewrite (getenv_low_public e E_ENDPOINT pub_endpoint).
  destruct (parsed_route c) as [[pid m]|]; [|reflexivity].
  unfold low_config. cbn [c_providers]. rewrite lookup_map.
  destruct (lookup pid (c_providers c)); reflexivity.
Qed.

Lemma resolve_key_low e k :
  option_map mask (resolve_key (low_env e) (low_keysrc k)) = option_map mask (resolve_key e k).
Proof.
  destruct k as [v|n]; cbn [low_keysrc resolve_key].
  - rewrite blank_mask. destruct (blank v); [reflexivity|]. cbn [option_map]. rewrite mask_mask. reflexivity.
  - apply mask_nonblank_low.
Qed.

Lemma describe_key_low k : describe_key (low_keysrc k) = describe_key k.
Proof. destruct k; reflexivity. Qed.

Lemma provider_key_low e pm :
  option_map mask (fst (provider_key (low_env e) (low_pm pm))) = option_map mask (fst (provider_key e pm))
  /\ snd (provider_key (low_env e) (low_pm pm)) = snd (provider_key e pm).
Proof.
  destruct pm as [[id p]|]; [|split; reflexivity].
  cbn [low_pm option_map provider_key fst snd]. unfold low_patch. cbn [pa_key].
  destruct (pa_key p) as [k|]; [|split; reflexivity].
  cbn [option_map fst snd]. rewrite resolve_key_low, describe_key_low. split; reflexivity.
Qed.

Lemma key_from_env_low e ep :
  option_map mask (fst (key_from_env (low_env e) ep)) = option_map mask (fst (key_from_env e ep))
  /\ snd (key_from_env (low_env e) ep) = snd (key_from_env e ep).
Proof.
  unfold key_from_env.
  rewrite (nonblank_low e E_API_KEY).
  destruct (nonblank_opt (getenv e E_API_KEY)) as [v|].
  - cbn [option_map fst snd]. rewrite mask_lowv. split; reflexivity.
  - cbn [option_map].
    destruct (contains (lit "openai.com") ep).
    + cbn [fst snd]. rewrite mask_nonblank_low. split; reflexivity.
    + destruct (contains (lit "openrouter.ai") ep).
      * cbn [fst snd]. rewrite mask_nonblank_low. split; reflexivity.
      * split; reflexivity.
Qed.

Lemma mask_none_iff (a b : option str) :
  option_map mask a = option_map mask b -> (a = None <-> b = None).
Proof. destruct a, b; cbn [option_map]; intros H; split; intros X; congruence. Qed.

Lemma resolve_keys_low e pm ep :
  option_map mask (fst (resolve_keys (low_env e) (low_pm pm) ep)) = option_map mask (fst (resolve_keys e pm ep))
  /\ snd (resolve_keys (low_env e) (low_pm pm) ep) = snd (resolve_keys e pm ep).
Proof.
  unfold resolve_keys.
  destruct (provider_key_low e pm) as [K S].
  pose proof (mask_none_iff _ _ K) as N.
  destruct (fst (provider_key (low_env e) (low_pm pm))) as [v'|] eqn:E';
    destruct (fst (provider_key e pm)) as [v|] eqn:E.
  - rewrite E', E. split; [exact K | exact S].
  - exfalso. destruct N as [_ N2]. specialize (N2 eq_refl). discriminate.
  - exfalso. destruct N as [N1 _]. specialize (N1 eq_refl). discriminate.
  - apply key_from_env_low.
Qed.

Lemma trimmed_getenv_low e k : is_public_env k = true ->
  trimmed_nonempty (getenv (low_env e) k) = trimmed_nonempty (getenv e k).
Proof. intros P. rewrite getenv_low_public by exact P. reflexivity. Qed.

Lemma resolve_low c e o :
  option_map low_resolved (resolve (low_config c) (low_env e) o) = option_map low_resolved (resolve c e o).
Proof.
  unfold resolve. rewrite resolve_endpoint_low.
  destruct (resolve_endpoint c e o) as [ep|]; [|reflexivity].
  cbn [option_map]. f_equal.
  rewrite provider_match_low.
  destruct (resolve_keys_low e (provider_match c ep) ep) as [K S].
  unfold low_resolved.
  cbn [r_provider_id r_route r_endpoint r_model r_headers r_key r_key_source r_stateless r_parallel r_followup].
  rewrite K, S.
  unfold resolve_model, resolve_stateless, resolve_parallel, resolve_followup.
  rewrite parsed_route_low.
  rewrite (trimmed_getenv_low e E_MODEL pub_model), (trimmed_getenv_low e E_FOLLOWUP pub_followup).
  rewrite (env_bool_low e E_STATELESS pub_stateless), (env_bool_low e E_PARALLEL pub_parallel).
  replace (default_route (low_config c)) with (default_route c) by reflexivity.
  replace (c_stateless (low_config c)) with (c_stateless c) by reflexivity.
  replace (c_parallel (low_config c)) with (c_parallel c) by reflexivity.
  replace (c_followup (low_config c)) with (c_followup c) by reflexivity.
  f_equal.
  - destruct (provider_match c ep) as [[id p]|]; reflexivity.
  - destruct (provider_match c ep) as [[id p]|]; [|reflexivity].
    cbn [low_pm option_map snd]. unfold low_patch. cbn [pa_headers].
    fold (hide_vals (pa_headers p)). apply hide_hide.
Qed.

Lemma resolve_world_low w o :
  option_map low_resolved (resolve_world (low_world w) o) = option_map low_resolved (resolve_world w o).
Proof.
  unfold resolve_world, load_config, low_world. cbn [w_layers w_env w_misfit].
  destruct (w_misfit w) as [q|]; cbn [option_map].
  - (* the merged document does not fit the schema: both sides work with the default configuration *)
    change empty_config with (low_config empty_config) at 1. apply resolve_low.
  - rewrite merge_layers_low. apply resolve_low.
Qed.

(* ---- (B4) the start-up configuration read from the environment -------------------------------- *)
Lemma from_env_low e : option_map low_or (from_env (low_env e)) = option_map low_or (from_env e).
Proof.
  unfold from_env.
  rewrite (getenv_low_public e E_ENDPOINT pub_endpoint), (getenv_low_public e E_MODEL pub_model),
    (getenv_low_public e E_TOOL_CHOICE pub_tool_choice), (getenv_low_public e E_FOLLOWUP pub_followup),
    (getenv_low_public e E_STATELESS pub_stateless), (getenv_low_public e E_PARALLEL pub_parallel).
  destruct (getenv e E_ENDPOINT) as [ep|]; [|reflexivity].
  cbn [option_map]. f_equal. unfold low_or.
  cbn [oc_endpoint oc_key oc_model oc_headers oc_tool_choice oc_followup oc_stateless oc_parallel].
  f_equal. rewrite getenv_low. destruct (getenv e E_API_KEY) as [v|]; [|reflexivity].
  cbn [option_map]. rewrite mask_lowv. reflexivity.
Qed.

Lemma of_resolved_low r : low_or (of_resolved r) = of_resolved (low_resolved r).
Proof. reflexivity. Qed.

Lemma thread_cfg_low w : option_map low_or (thread_cfg (low_world w)) = option_map low_or (thread_cfg w).
Proof.
  unfold thread_cfg.
  pose proof (resolve_world_low w (w_ovr w)) as R.
  replace (w_ovr (low_world w)) with (w_ovr w) by reflexivity.
  replace (w_env (low_world w)) with (low_env (w_env w)) by reflexivity.
  destruct (resolve_world (low_world w) (w_ovr w)) as [r'|]; destruct (resolve_world w (w_ovr w)) as [r|];
    cbn [option_map] in R; try discriminate.
  - cbn [option_map]. rewrite !of_resolved_low. congruence.
  - apply from_env_low.
Qed.

Lemma dump_enabled_low e : dump_enabled (low_env e) = dump_enabled e.
Proof. unfold dump_enabled. rewrite (getenv_low_public e E_DUMP pub_dump). reflexivity. Qed.

(* ---- (A) a run's frames are a function of the low configuration ------------------------------- *)
Definition lo_pub (r : lout) : list frame * N * option str := (lo_frames r, lo_reason r, lo_last r).

Lemma agent_loop_low fuel dump sc c prompt : forall st,
  lo_pub (agent_loop fuel dump sc (low_or c) prompt st) = lo_pub (agent_loop fuel dump sc c prompt st).
Proof.
  induction fuel as [|f IH]; intros st; [reflexivity|].
  cbn [agent_loop].
  destruct (MAX_TOOL_CALLS <=? ls_count st); [reflexivity|].
  change (choose_payload (low_or c) prompt st) with (choose_payload c prompt st).
  destruct (choose_payload c prompt st) as [[b kind]|]; [|reflexivity].
  change (sr_frames dump sc (low_or c) (ls_idx st) kind b) with (sr_frames dump sc c (ls_idx st) kind b).
  change (sr_result sc (low_or c) (ls_idx st) b) with (sr_result sc c (ls_idx st) b).
  destruct (sr_result sc c (ls_idx st) b) as [reason | rid calls]; [reflexivity|].
  destruct calls as [|c0 calls]; [reflexivity|].
  change (oc_stateless (low_or c)) with (oc_stateless c).
  assert (STEP : forall prev hist2 t,
    lo_pub (let r := agent_loop f dump sc (low_or c) prompt (mkL prev (Some (to_outs t)) (to_count t) (ls_idx st + 1) hist2 None) in
            mkLO (sr_frames dump sc c (ls_idx st) kind b ++ to_frames t ++ lo_frames r)
                 (sr_sent sc (low_or c) b ++ lo_sent r) (lo_reason r) (lo_last r))
    = lo_pub (let r := agent_loop f dump sc c prompt (mkL prev (Some (to_outs t)) (to_count t) (ls_idx st + 1) hist2 None) in
            mkLO (sr_frames dump sc c (ls_idx st) kind b ++ to_frames t ++ lo_frames r)
                 (sr_sent sc c b ++ lo_sent r) (lo_reason r) (lo_last r))).
  { intros prev hist2 t. cbv zeta.
    pose proof (IH (mkL prev (Some (to_outs t)) (to_count t) (ls_idx st + 1) hist2 None)) as E.
    unfold lo_pub in *. cbn [lo_frames lo_reason lo_last]. inversion E as [[E1 E2 E3]].
    rewrite E1, E2, E3. reflexivity. }
  destruct (over rid (ls_prev st)) as [p|]; destruct (oc_stateless c);
    try reflexivity;
    match goal with |- context [to_exceeded ?t] => destruct (to_exceeded t) end;
    try reflexivity; apply STEP.
Qed.

Lemma run_cfg_low fuel dump sc thread oc prompt initial :
  persisted (run_cfg fuel dump sc thread (option_map low_or oc) prompt initial)
  = persisted (run_cfg fuel dump sc thread oc prompt initial).
Proof.
  destruct oc as [c|]; [|reflexivity].
  cbn [option_map run_cfg].
  change (init_state (low_or c) prompt initial) with (init_state c prompt initial).
  pose proof (agent_loop_low fuel dump sc c prompt (init_state c prompt initial)) as E.
  unfold lo_pub in E. inversion E as [[E1 E2 E3]].
  unfold persisted. cbn [out_session out_thread].
  rewrite E1, E2, E3. reflexivity.
Qed.

(* ---- (C) noninterference ---------------------------------------------------------------------- *)
Lemma run_low fuel sc thread w prompt initial :
  persisted (run fuel sc thread (low_world w) prompt initial) = persisted (run fuel sc thread w prompt initial).
Proof.
  unfold run.
  replace (w_env (low_world w)) with (low_env (w_env w)) by reflexivity.
  rewrite dump_enabled_low.
  rewrite <- (run_cfg_low fuel (dump_enabled (w_env w)) sc thread
                (if thread then thread_cfg (low_world w) else session_cfg (low_world w))).
  rewrite <- (run_cfg_low fuel (dump_enabled (w_env w)) sc thread
                (if thread then thread_cfg w else session_cfg w)).
  f_equal. f_equal.
  destruct thread; [apply thread_cfg_low | apply from_env_low].
Qed.

Lemma doctor_of_low r : doctor_of (low_resolved r) = doctor_of r.
Proof.
  unfold doctor_of, low_resolved.
  cbn [r_provider_id r_route r_endpoint r_model r_headers r_key r_key_source r_stateless r_parallel r_followup].
  rewrite names_hide.
  destruct (r_key r) as [v|]; [|reflexivity]. cbn [option_map]. rewrite blank_mask. reflexivity.
Qed.

Lemma doctor_low w : doctor (low_world w) = doctor w.
Proof.
  unfold doctor.
  pose proof (resolve_world_low w no_ovr) as R.
  destruct (resolve_world (low_world w) no_ovr) as [r'|]; destruct (resolve_world w no_ovr) as [r|];
    cbn [option_map] in *; try discriminate; [|reflexivity].
  rewrite <- (doctor_of_low r'), <- (doctor_of_low r). congruence.
Qed.

(* THE theorem: whatever is stored or shown depends on the world only through its low projection —
   for every fuel, script (provider answers as a function of index, endpoint and request BODY;
   validator; tools), both entry points, any prompt and initial items *)
Theorem noninterference : forall fuel sc thread w1 w2 prompt initial,
  low_world w1 = low_world w2 ->
  persisted (run fuel sc thread w1 prompt initial) = persisted (run fuel sc thread w2 prompt initial)
  /\ doctor w1 = doctor w2.
Proof.
  intros fuel sc thread w1 w2 prompt initial L. split.
  - rewrite <- (run_low fuel sc thread w1), <- (run_low fuel sc thread w2), L. reflexivity.
  - rewrite <- (doctor_low w1), <- (doctor_low w2), L. reflexivity.
Qed.

Theorem sinks_factor_through_low : forall fuel sc thread w prompt initial,
  persisted (run fuel sc thread w prompt initial) = persisted (run fuel sc thread (low_world w) prompt initial)
  /\ doctor w = doctor (low_world w).
Proof.
  intros. split; [symmetry; apply run_low | symmetry; apply doctor_low].
Qed.

(* ---- rip-cli's --provider derivation commutes with erasure ------------------------------------------ *)
Lemma low_env_setenv_public e k v : is_public_env k = true -> low_env (setenv e k v) = setenv (low_env e) k v.
Proof. intros P. unfold setenv, low_env. cbn [map fst snd]. rewrite P. reflexivity. Qed.
Lemma low_env_setenv_opt_public e k v : is_public_env k = true -> low_env (setenv_opt e k v) = setenv_opt (low_env e) k v.
Proof. intros P. destruct v; [apply low_env_setenv_public; exact P | reflexivity]. Qed.
Lemma cli_public_env_low f e : low_env (cli_public_env f e) = cli_public_env f (low_env e).
Proof.
  unfold cli_public_env.
  rewrite (low_env_setenv_opt_public _ E_FOLLOWUP _ pub_followup).
  destruct (f_parallel f); destruct (f_stateless f);
    repeat first [ rewrite (low_env_setenv_public _ E_PARALLEL _ pub_parallel)
                 | rewrite (low_env_setenv_public _ E_STATELESS _ pub_stateless)
                 | rewrite (low_env_setenv_opt_public _ E_MODEL _ pub_model)
                 | rewrite (low_env_setenv_public _ E_ENDPOINT _ pub_endpoint) ];
    reflexivity.
Qed.
Lemma provider_key_var_secret p : is_public_env (provider_key_var p) = false.
Proof. destruct p; vm_compute; reflexivity. Qed.
Lemma api_key_var_secret : is_public_env E_API_KEY = false.
Proof. vm_compute. reflexivity. Qed.
Lemma low_env_setenv e k v : low_env (setenv e k v) = setenv (low_env e) k (lowv k v).
Proof. reflexivity. Qed.
Lemma cli_env_low f e : cli_env f (low_env e) = option_map low_env (cli_env f e).
Proof.
  unfold cli_env. rewrite !getenv_low. unfold lowv at 1 2. rewrite provider_key_var_secret, api_key_var_secret.
  destruct (getenv e (provider_key_var (f_provider f))) as [k|]; cbn [option_map over].
  - rewrite low_env_setenv, cli_public_env_low. unfold lowv. rewrite api_key_var_secret. reflexivity.
  - destruct (getenv e E_API_KEY) as [k|]; cbn [option_map over]; [|reflexivity].
    rewrite low_env_setenv, cli_public_env_low. unfold lowv. rewrite api_key_var_secret. reflexivity.
Qed.
Lemma cli_world_low f w : cli_world f (low_world w) = option_map low_world (cli_world f w).
Proof.
  unfold cli_world, low_world. cbn [w_env w_layers w_misfit w_ovr]. rewrite cli_env_low.
  destruct (cli_env f (w_env w)); reflexivity.
Qed.
(* `rip run --provider ..` in two worlds that differ only in secret values: both bail out, or both go on in worlds that
   again differ only in secret values - so everything above applies to what the spawned authority stores and shows *)
Theorem cli_provider_flags_preserve_low : forall f w1 w2,
  low_world w1 = low_world w2 ->
  option_map low_world (cli_world f w1) = option_map low_world (cli_world f w2).
Proof. intros f w1 w2 L. rewrite <- !cli_world_low, L. reflexivity. Qed.
(* the key goes from the provider's variable into the authority's RIP_OPENRESPONSES_API_KEY - and nowhere else *)
Lemma cli_env_example :
  cli_env (mkFlags POpenai None false false None) [(E_OPENAI, lit "sk-AAAA")]
  = Some [(E_API_KEY, lit "sk-AAAA"); (E_ENDPOINT, lit "https://api.openai.com/v1/responses"); (E_OPENAI, lit "sk-AAAA")]
  /\ cli_env (mkFlags POpenrouter None false false None) [(E_OPENAI, lit "sk-AAAA")] = None.
Proof. vm_compute. split; reflexivity. Qed.

(* ---- process output at start-up is a function of public variables ------------------------------ *)
Lemma startup_warnings_low e : startup_warnings (low_env e) = startup_warnings e.
Proof.
  unfold startup_warnings. rewrite (getenv_low_public e E_ENDPOINT pub_endpoint), (getenv_low_public e E_TOOL_CHOICE pub_tool_choice).
  reflexivity.
Qed.
Theorem startup_output_noninterference : forall w1 w2,
  low_world w1 = low_world w2 -> startup_warnings (w_env w1) = startup_warnings (w_env w2).
Proof.
  intros w1 w2 L. rewrite <- (startup_warnings_low (w_env w1)), <- (startup_warnings_low (w_env w2)).
  change (low_env (w_env w1)) with (w_env (low_world w1)). change (low_env (w_env w2)) with (w_env (low_world w2)).
  rewrite L. reflexivity.
Qed.
Lemma startup_warning_example :
  startup_warnings [(E_ENDPOINT, lit "localhost/v1/responses"); (E_API_KEY, lit "sk-AAAA"); (E_TOOL_CHOICE, lit "bogus")]
  = [lit "invalid RIP_OPENRESPONSES_TOOL_CHOICE=""bogus"": unsupported value (expected auto|none|required|function:<name>|json:<tool_choice_json>); defaulting to auto"].
Proof. vm_compute. reflexivity. Qed.

(* ---- the schema stage: a merged document that does not fit the typed schema ------------------- *)
(* the whole diagnostic report (per-source error texts + summary) is a function of the low projection - for worlds whose
   merged document misfits too, whatever scalar sits at the offending position *)
Theorem doctor_report_low w : doctor_report (low_world w) = doctor_report w.
Proof. unfold doctor_report, source_errors. rewrite doctor_low. reflexivity. Qed.

Theorem doctor_report_noninterference : forall w1 w2,
  low_world w1 = low_world w2 -> doctor_report w1 = doctor_report w2.
Proof. intros w1 w2 L. rewrite <- (doctor_report_low w1), <- (doctor_report_low w2), L. reflexivity. Qed.

(* a misfit drops EVERY layer: the summary is the one of the layer-less world *)
Lemma misfit_drops_layers ls e o q : doctor (mkWorld ls e o (Some q)) = doctor (mkWorld [] e o None).
Proof. reflexivity. Qed.

(* two worlds that differ only in the secret written at the mis-shaped position (`"headers": "X-Api-Key: <secret>"`) *)
Definition misfit_world (q : str) : world :=
  mkWorld [mkLayer [(lit "acme", mkPatch (Some (lit "http://127.0.0.1:9/v1/responses")) (Some (KInline (lit "sk-inline"))) [])]
                   (Some (lit "acme/m1")) None None None None]
          [(E_ENDPOINT, lit "http://127.0.0.1:9/v1/responses")] no_ovr (Some q).
Definition misfit_q1 : str := lit "X-Api-Key: tok-AAAA".
Definition misfit_q2 : str := lit "X-Api-Key: tok-BBBB".
Lemma misfit_low_equal : low_world (misfit_world misfit_q1) = low_world (misfit_world misfit_q2).
Proof. vm_compute. reflexivity. Qed.
Lemma misfit_doctor :
  doctor_report (misfit_world misfit_q1)
  = ([], Some (mkDoctor None None (lit "http://127.0.0.1:9/v1/responses") None false None [] false false None)).
Proof. vm_compute. reflexivity. Qed.
(* had the schema error been surfaced through the per-source report (the idiom of the neighbouring parse-error branch),
   the diagnostic would depend on the secret: that flow must stay closed (T1: an error produced by deserialising
   secret-bearing configuration is itself secret-tainted) *)
Definition surfaced_noninterference : Prop :=
  forall w1 w2, low_world w1 = low_world w2 -> source_errors_surfaced w1 = source_errors_surfaced w2.
Theorem surfaced_noninterference_refuted : ~ surfaced_noninterference.
Proof.
  intro H. specialize (H _ _ misfit_low_equal). vm_compute in H. discriminate H.
Qed.
Lemma surfaced_quotes_the_scalar q w : w_misfit w = Some q ->
  exists a b, source_errors_surfaced w = [a ++ q ++ b].
Proof.
  intro M. unfold source_errors_surfaced, serde_type_error. rewrite M.
  exists (lit "invalid type: string """), (lit """, expected a map"). reflexivity.
Qed.

(* the low projection really forgets the secrets: replacing every inline key, every header value
   and every non-public environment value by ANY other values of the same blankness is invisible *)
Definition same_blank (a b : str) : Prop := blank a = blank b.
Lemma mask_same_blank a b : same_blank a b -> mask a = mask b.
Proof. unfold same_blank, mask. intros ->. reflexivity. Qed.

(* ---- the doctor summary ------------------------------------------------------------------------ *)
Definition source_shape (s : option str) : Prop :=
  s = None \/ s = Some (lit "inline") \/ exists n, s = Some (lit "env:" ++ n).

Lemma resolve_key_nonblank e k v : resolve_key e k = Some v -> blank v = false.
Proof.
  destruct k as [x|n]; cbn [resolve_key].
  - destruct (blank x) eqn:E; [discriminate|]. intros H; inversion H; subst; exact E.
  - destruct (getenv e n) as [x|]; cbn [nonblank_opt]; [|discriminate].
    destruct (blank x) eqn:E; [discriminate|]. intros H; inversion H; subst; exact E.
Qed.

Lemma nonblank_opt_nonblank o v : nonblank_opt o = Some v -> blank v = false.
Proof.
  destruct o as [x|]; cbn [nonblank_opt]; [|discriminate].
  destruct (blank x) eqn:E; [discriminate|]. intros H; inversion H; subst; exact E.
Qed.

Lemma resolve_keys_facts e pm ep :
  (forall v, fst (resolve_keys e pm ep) = Some v -> blank v = false)
  /\ source_shape (snd (resolve_keys e pm ep)).
Proof.
  unfold resolve_keys.
  destruct (fst (provider_key e pm)) as [v0|] eqn:E.
  - destruct pm as [[id p]|]; [|discriminate].
    cbn [provider_key] in *. destruct (pa_key p) as [k|]; [|discriminate].
    cbn [fst snd] in *. split.
    + intros v H. rewrite E in H. inversion H; subst. eapply resolve_key_nonblank; exact E.
    + destruct k as [x|n]; [right; left; reflexivity | right; right; exists n; reflexivity].
  - unfold key_from_env.
    destruct (nonblank_opt (getenv e E_API_KEY)) as [v|] eqn:K.
    + cbn [fst snd]. split.
      * intros v' H; inversion H; subst. eapply nonblank_opt_nonblank; exact K.
      * right; right; exists E_API_KEY; reflexivity.
    + destruct (contains (lit "openai.com") ep).
      * cbn [fst snd]. split; [intros v H; eapply nonblank_opt_nonblank; exact H |].
        right; right; exists E_OPENAI; reflexivity.
      * destruct (contains (lit "openrouter.ai") ep).
        -- cbn [fst snd]. split; [intros v H; eapply nonblank_opt_nonblank; exact H |].
           right; right; exists E_OPENROUTER; reflexivity.
        -- cbn [fst snd]. split; [discriminate | left; reflexivity].
Qed.

Definition is_some {A} (o : option A) : bool := match o with Some _ => true | None => false end.

(* the summary is: public resolution results + PRESENCE of the key + its SOURCE label + header NAMES *)
Theorem doctor_presence_and_source_only : forall w d,
  doctor w = Some d ->
  exists r, resolve_world w no_ovr = Some r
    /\ d_has_key d = is_some (r_key r)
    /\ d_key_source d = r_key_source r
    /\ source_shape (d_key_source d)
    /\ d_header_names d = map fst (r_headers r)
    /\ d_provider_id d = r_provider_id r /\ d_route d = r_route r /\ d_endpoint d = r_endpoint r
    /\ d_model d = r_model r /\ d_stateless d = r_stateless r /\ d_parallel d = r_parallel r
    /\ d_followup d = r_followup r.
Proof.
  intros w d H. unfold doctor in H.
  destruct (resolve_world w no_ovr) as [r|] eqn:R; [|discriminate].
  cbn [option_map] in H. inversion H; subst d. clear H.
  exists r. split; [reflexivity|].
  unfold resolve_world, resolve in R.
  destruct (resolve_endpoint (load_config w) (w_env w) no_ovr) as [ep|]; [|discriminate].
  inversion R; subst r. clear R.
  cbn [doctor_of d_has_key d_key_source d_header_names d_provider_id d_route d_endpoint d_model d_stateless
       d_parallel d_followup r_provider_id r_route r_endpoint r_model r_headers r_key r_key_source r_stateless
       r_parallel r_followup].
  destruct (resolve_keys_facts (w_env w) (provider_match (load_config w) ep) ep) as [NB SH].
  repeat split; try exact SH.
  destruct (fst (resolve_keys (w_env w) (provider_match (load_config w) ep) ep)) as [v|] eqn:K;
    [|reflexivity].
  cbn [is_some]. rewrite (NB v eq_refl). reflexivity.
Qed.

(* ---- non-vacuity: a world where the secret DOES leave the process (to the provider only) ------- *)
Definition ex_patch (key hdr : str) : patch :=
  mkPatch (Some (lit "http://127.0.0.1:9/v1/responses")) (Some (KInline key)) [(lit "X-Api-Key", hdr)].
Definition ex_world (key hdr envkey : str) : world :=
  mkWorld [mkLayer [(lit "acme", ex_patch key hdr)] (Some (lit "acme/m1")) None None None None]
          [(E_DUMP, lit "1"); (lit "OPENROUTER_API_KEY", envkey)] no_ovr None.
Definition ex_script : script := outcome_script 7.
Definition ex_run (key hdr envkey : str) : outputs :=
  run 40 ex_script true (ex_world key hdr envkey) (lit "hi") [IUser (lit "hi")].

Lemma ex_low_equal :
  low_world (ex_world (lit "sk-AAAA") (lit "tok-1") (lit "zz")) = low_world (ex_world (lit "sk-BBBBBBBB") (lit "tok-22") (lit "y")).
Proof. vm_compute. reflexivity. Qed.

Lemma ex_sent_differ :
  map s_auth (out_sent (ex_run (lit "sk-AAAA") (lit "tok-1") (lit "zz"))) = [Some (lit "sk-AAAA"); Some (lit "sk-AAAA")]
  /\ map s_auth (out_sent (ex_run (lit "sk-BBBBBBBB") (lit "tok-22") (lit "y"))) = [Some (lit "sk-BBBBBBBB"); Some (lit "sk-BBBBBBBB")]
  /\ map s_headers (out_sent (ex_run (lit "sk-AAAA") (lit "tok-1") (lit "zz"))) = [[(lit "X-Api-Key", lit "tok-1")]; [(lit "X-Api-Key", lit "tok-1")]].
Proof. vm_compute. repeat split; reflexivity. Qed.

Lemma ex_frames_nontrivial :
  (length (fst (persisted (ex_run (lit "sk-AAAA") (lit "tok-1") (lit "zz")))) = 12)%nat
  /\ doctor (ex_world (lit "sk-AAAA") (lit "tok-1") (lit "zz"))
     = Some (mkDoctor (Some (lit "acme")) (Some (lit "acme/m1")) (lit "http://127.0.0.1:9/v1/responses") (Some (lit "m1"))
                      true (Some (lit "inline")) [lit "X-Api-Key"] false false None).
Proof. vm_compute. split; reflexivity. Qed.

(* ---- T1 obligations' meaning: the allowed set is exactly the model's flows --------------------- *)
Lemma allowed_use_spec k : allowed_use (use_kind_code k) = true <->
  k <> UFormat /\ k <> USerialize /\ k <> UOther.
Proof.
  destruct k; vm_compute; split; intros H; try reflexivity; try discriminate;
    try (repeat split; discriminate); destruct H as (A & B & C); congruence.
Qed.

Lemma allowed_use_sound k : allowed_use k = true ->
  exists u, use_kind_code u = k /\ u <> UFormat /\ u <> USerialize /\ u <> UOther.
Proof.
  unfold allowed_use. intros H. apply orb_true_iff in H. rewrite N.leb_le, N.eqb_eq in H.
  assert (C : k = 0 \/ k = 1 \/ k = 2 \/ k = 3 \/ k = 4 \/ k = 5 \/ k = 6 \/ k = 7 \/ k = 8 \/ k = 9 \/ k = 13) by lia.
  destruct C as [-> | [-> | [-> | [-> | [-> | [-> | [-> | [-> | [-> | [-> | ->]]]]]]]]]];
    [exists UDecl | exists UMove | exists UResolve | exists UPresence | exists UBearerAuth | exists URequestHeader
     | exists UNameProjection | exists UEnvRead | exists UEnvSet | exists UTestOnly | exists UDeserErrDropped];
    (split; [reflexivity | repeat split; discriminate]).
Qed.

Lemma derive_allowed_sound d : derive_allowed d = true -> In d allowed_derives.
Proof.
  unfold derive_allowed. intros H. apply existsb_exists in H. destruct H as [a [I E]].
  apply andb_true_iff in E. destruct E as [E1 E2].
  apply str_eqb_eq in E1. apply N.eqb_eq in E2.
  destruct a as [a1 a2], d as [d1 d2]. cbn [fst snd] in *. subst. exact I.
Qed.

(* what the generated obligation `uses_wf .. = true` (Gen/SecretUses.v) means *)
Lemma uses_wf_sound uses derives found :
  uses_wf uses derives found = true ->
  found = true
  /\ Forall (fun k => exists u, use_kind_code u = k /\ u <> UFormat /\ u <> USerialize /\ u <> UOther) uses
  /\ Forall (fun d => In d allowed_derives) derives.
Proof.
  unfold uses_wf. intros H.
  apply andb_true_iff in H. destruct H as [H D]. apply andb_true_iff in H. destruct H as [F U].
  split; [exact F|]. split.
  - apply Forall_forall. intros k I. apply allowed_use_sound. rewrite forallb_forall in U. apply U. exact I.
  - apply Forall_forall. intros d I. apply derive_allowed_sound. rewrite forallb_forall in D. apply D. exact I.
Qed.

(* ---- where the secret DOES go: every outgoing request carries exactly the configured key and headers,
        to the configured endpoint, and nothing else of the configuration ---------------------------------- *)
Definition sent_ok (c : orcfg) (s : sent) : Prop :=
  s_url s = oc_endpoint c /\ s_auth s = oc_key c /\ s_headers s = oc_headers c.

Lemma sr_sent_ok sc c b : Forall (sent_ok c) (sr_sent sc c b).
Proof.
  unfold sr_sent. destruct (e_validate sc b); [|constructor].
  constructor; [|constructor]. unfold sent_ok, mk_sent. cbn [s_url s_auth s_headers]. repeat split.
Qed.

Lemma agent_loop_sent_ok fuel dump sc c prompt : forall st,
  Forall (sent_ok c) (lo_sent (agent_loop fuel dump sc c prompt st)).
Proof.
  induction fuel as [|f IH]; intros st; [constructor|].
  cbn [agent_loop].
  destruct (MAX_TOOL_CALLS <=? ls_count st); [constructor|].
  destruct (choose_payload c prompt st) as [[b kind]|]; [|constructor].
  pose proof (sr_sent_ok sc c b) as S0.
  destruct (sr_result sc c (ls_idx st) b) as [reason | rid calls]; [exact S0|].
  destruct calls as [|c0 calls]; [exact S0|].
  destruct (over rid (ls_prev st)) as [p|]; destruct (oc_stateless c);
    try exact S0;
    match goal with |- context [to_exceeded ?t] => destruct (to_exceeded t) end;
    try exact S0; cbn [lo_sent]; apply Forall_app; split; try exact S0; apply IH.
Qed.

Theorem secret_attached_to_requests_only : forall fuel sc (thread : bool) w prompt initial c,
  (if thread then thread_cfg w else session_cfg w) = Some c ->
  Forall (sent_ok c) (out_sent (run fuel sc thread w prompt initial)).
Proof.
  intros fuel sc thread w prompt initial c H. unfold run. rewrite H. cbn [run_cfg out_sent].
  apply agent_loop_sent_ok.
Qed.

(* ---- tools that see the world (inherited environment, readable config files) -------------------- *)
Lemma run_calls_ext sc sc' :
  (forall c, e_tools sc c = e_tools sc' c) ->
  forall calls count, run_calls sc count calls = run_calls sc' count calls.
Proof.
  intros T calls. induction calls as [|c r IH]; intros count; [reflexivity|].
  cbn [run_calls]. destruct (MAX_TOOL_CALLS <=? count); [reflexivity|].
  rewrite (IH (count + 1)), (T c). reflexivity.
Qed.

Lemma agent_loop_tools_ext fuel dump sc t' c prompt :
  (forall x, e_tools sc x = t' x) ->
  forall st, agent_loop fuel dump sc c prompt st
             = agent_loop fuel dump (mkScript (e_validate sc) (e_prov sc) t') c prompt st.
Proof.
  intros T. induction fuel as [|f IH]; intros st; [reflexivity|].
  cbn [agent_loop].
  destruct (MAX_TOOL_CALLS <=? ls_count st); [reflexivity|].
  destruct (choose_payload c prompt st) as [[b kind]|]; [|reflexivity].
  change (sr_frames dump (mkScript (e_validate sc) (e_prov sc) t') c (ls_idx st) kind b)
    with (sr_frames dump sc c (ls_idx st) kind b).
  change (sr_sent (mkScript (e_validate sc) (e_prov sc) t') c b) with (sr_sent sc c b).
  change (sr_result (mkScript (e_validate sc) (e_prov sc) t') c (ls_idx st) b) with (sr_result sc c (ls_idx st) b).
  destruct (sr_result sc c (ls_idx st) b) as [reason | rid calls]; [reflexivity|].
  destruct calls as [|c0 calls]; [reflexivity|].
  rewrite <- (run_calls_ext sc (mkScript (e_validate sc) (e_prov sc) t') T (c0 :: calls) (ls_count st)).
  destruct (over rid (ls_prev st)) as [p|]; destruct (oc_stateless c); try reflexivity;
    destruct (to_exceeded (run_calls sc (ls_count st) (c0 :: calls))); try reflexivity;
    rewrite IH; reflexivity.
Qed.

Lemma run_tools_ext fuel sc t' thread w prompt initial :
  (forall x, e_tools sc x = t' x) ->
  run fuel sc thread w prompt initial = run fuel (mkScript (e_validate sc) (e_prov sc) t') thread w prompt initial.
Proof.
  intros T. unfold run, run_cfg.
  destruct (if thread then thread_cfg w else session_cfg w) as [c|]; [|reflexivity].
  rewrite <- (agent_loop_tools_ext fuel (dump_enabled (w_env w)) sc t' c prompt T). reflexivity.
Qed.

Lemma run_w_low fuel ws thread w prompt initial :
  tools_blind ws ->
  persisted (run_w fuel ws thread w prompt initial) = persisted (run_w fuel ws thread (low_world w) prompt initial).
Proof.
  intros B. unfold run_w.
  rewrite (run_tools_ext fuel (inst ws w) (ws_tools ws (low_world w)) thread w prompt initial)
    by (intros x; apply B).
  change (mkScript (e_validate (inst ws w)) (e_prov (inst ws w)) (ws_tools ws (low_world w))) with (inst ws (low_world w)).
  symmetry. apply run_low.
Qed.

(* the theorem under the hypothesis that tool output does not depend on secret values *)
Theorem noninterference_blind_tools : forall fuel ws thread w1 w2 prompt initial,
  tools_blind ws ->
  low_world w1 = low_world w2 ->
  persisted (run_w fuel ws thread w1 prompt initial) = persisted (run_w fuel ws thread w2 prompt initial)
  /\ doctor w1 = doctor w2.
Proof.
  intros fuel ws thread w1 w2 prompt initial B L. split.
  - rewrite (run_w_low fuel ws thread w1 prompt initial B), (run_w_low fuel ws thread w2 prompt initial B), L. reflexivity.
  - rewrite <- (doctor_low w1), <- (doctor_low w2), L. reflexivity.
Qed.

(* the full-strength statement: ALL tool behaviours, including tools that print the environment they inherited *)
Definition noninterference_full : Prop :=
  forall fuel ws thread w1 w2 prompt initial,
    low_world w1 = low_world w2 ->
    persisted (run_w fuel ws thread w1 prompt initial) = persisted (run_w fuel ws thread w2 prompt initial)
    /\ doctor w1 = doctor w2.

(* witness: start-up configuration from the environment, the provider asks the shell tool for the key variable *)
Definition leak_world (key : str) : world :=
  mkWorld [] [(E_ENDPOINT, lit "http://127.0.0.1:9/v1/responses"); (E_API_KEY, key)] no_ovr None.
Definition leak_call : tcall := mkCall (lit "call_p") (lit "bash") (lit "{""command"":""printenv RIP_OPENRESPONSES_API_KEY""}").
Definition leak_script : wscript :=
  mkWScript (fun _ => [])
            (fun idx _ _ => if idx =? 0 then PStream hd200 [SCreated (lit "resp_p1"); SCall leak_call] EDone
                            else PStream hd200 [SCreated (lit "resp_p2"); SText (lit "done")] EDone)
            printenv_tool.
Definition leak_run (key : str) : outputs := run_w 10 leak_script false (leak_world key) (lit "probe") [].

Lemma leak_low_equal : low_world (leak_world (lit "sk-AAAA")) = low_world (leak_world (lit "sk-BBBB")).
Proof. vm_compute. reflexivity. Qed.

Lemma leak_tool_events :
  tool_events (fst (persisted (leak_run (lit "sk-AAAA")))) = [[lit "sk-AAAA"]]
  /\ tool_events (fst (persisted (leak_run (lit "sk-BBBB")))) = [[lit "sk-BBBB"]].
Proof. vm_compute. split; reflexivity. Qed.

Theorem noninterference_full_refuted : ~ noninterference_full.
Proof.
  intros H.
  destruct (H 10%nat leak_script false (leak_world (lit "sk-AAAA")) (leak_world (lit "sk-BBBB")) (lit "probe") []
              leak_low_equal) as [P _].
  fold (leak_run (lit "sk-AAAA")) in P. fold (leak_run (lit "sk-BBBB")) in P.
  apply (f_equal (fun p => tool_events (fst p))) in P.
  destruct leak_tool_events as [A B]. rewrite A, B in P. vm_compute in P. discriminate.
Qed.

(* the printing tool is indeed not blind, and every world-independent tool is *)
Lemma printenv_not_blind : ~ tools_blind leak_script.
Proof.
  intros B. specialize (B (leak_world (lit "sk-AAAA")) leak_call). vm_compute in B. discriminate.
Qed.
Lemma const_tools_blind v p t : tools_blind (mkWScript v p (fun _ => t)).
Proof. intros w c. reflexivity. Qed.

(* ---- after the fix: what rip hands to tool subprocesses holds no credential variable --------------------------- *)
Lemma str_eqb_refl a : str_eqb a a = true.
Proof. apply str_eqb_eq. reflexivity. Qed.

Lemma getenv_filter_out (P : str -> bool) e k :
  P k = false -> getenv (filter (fun kv => P (fst kv)) e) k = None.
Proof.
  intros PK. induction e as [|[n v] e IH]; [reflexivity|].
  cbn [filter fst]. destruct (P n) eqn:PN; [|exact IH].
  cbn [getenv]. destruct (str_eqb n k) eqn:E; [|exact IH].
  apply str_eqb_eq in E. subst n. congruence.
Qed.

Theorem tool_env_has_no_credential_variable : forall w k,
  In k (secret_env_names w) -> getenv (tool_env w) k = None.
Proof.
  intros w k I. unfold tool_env. apply (getenv_filter_out (fun n => negb (is_secret_env w n))).
  unfold is_secret_env. apply negb_false_iff. apply existsb_exists. exists k. split; [exact I | apply str_eqb_refl].
Qed.

Lemma envref_in_secret_names w id p n :
  In (id, p) (c_providers (load_config w)) -> pa_key p = Some (KEnvRef n) -> In n (secret_env_names w).
Proof.
  intros I K. unfold secret_env_names. apply in_or_app. right. unfold envref_names. apply in_flat_map.
  exists (id, p). split; [exact I|]. cbn [snd]. rewrite K. left. reflexivity.
Qed.

(* tools that are functions of the call and of the environment rip hands them: worlds that differ only in secret values
   (inline keys, header values, the values of credential variables) store and show the same *)
Theorem noninterference_env_tools : forall fuel v p (t : env -> tcall -> list str * str) thread w1 w2 prompt initial,
  low_world w1 = low_world w2 ->
  tool_env w1 = tool_env w2 ->
  persisted (run_w fuel (mkWScript v p (fun w => t (tool_env w))) thread w1 prompt initial)
  = persisted (run_w fuel (mkWScript v p (fun w => t (tool_env w))) thread w2 prompt initial)
  /\ doctor w1 = doctor w2.
Proof.
  intros fuel v p t thread w1 w2 prompt initial L T.
  unfold run_w, inst. cbn [ws_validate ws_prov ws_tools]. rewrite T.
  apply noninterference. exact L.
Qed.

(* non-vacuity: the B1 witness worlds get the same tool environment, and `printenv RIP_OPENRESPONSES_API_KEY` prints nothing;
   a `{ "env": NAME }` key source is removed too *)
Lemma leak_world_tool_env :
  tool_env (leak_world (lit "sk-AAAA")) = tool_env (leak_world (lit "sk-BBBB"))
  /\ tool_env (leak_world (lit "sk-AAAA")) = [(E_ENDPOINT, lit "http://127.0.0.1:9/v1/responses")].
Proof. vm_compute. split; reflexivity. Qed.
Definition fixed_script : wscript :=
  mkWScript (ws_validate leak_script) (ws_prov leak_script) (fun w => printenv_tool_fixed (tool_env w)).
Lemma fixed_tool_events :
  tool_events (fst (persisted (run_w 10 fixed_script false (leak_world (lit "sk-AAAA")) (lit "probe") []))) = [[]].
Proof. vm_compute. reflexivity. Qed.
Definition envref_world (key : str) : world :=
  mkWorld [mkLayer [(lit "acme", mkPatch (Some (lit "http://127.0.0.1:9/v1/responses")) (Some (KEnvRef (lit "MY_PROVIDER_KEY"))) [])]
                   (Some (lit "acme/m1")) None None None None]
          [(lit "HOME", lit "/home/u"); (lit "MY_PROVIDER_KEY", key)] no_ovr None.
Lemma envref_world_tool_env : tool_env (envref_world (lit "sk-AAAA")) = [(lit "HOME", lit "/home/u")].
Proof. vm_compute. reflexivity. Qed.


(* ==== the JSON stage: erasure commutes with merging the files, with the schema decision and with the typed view ==== *)
Lemma mask_nil : mask [] = [].
Proof. reflexivity. Qed.

Lemma merge_opt_map {A} (g : A -> A) (f : A -> A -> A) :
  (forall a b, f (g a) (g b) = g (f a b)) ->
  forall o n, merge_opt f (option_map g o) (option_map g n) = option_map g (merge_opt f o n).
Proof. intros H [a|] [b|]; cbn [merge_opt option_map]; try reflexivity. rewrite H. reflexivity. Qed.

Lemma merge_hdrs_low a b : merge_hdrs (low_hdrs a) (low_hdrs b) = low_hdrs (merge_hdrs a b).
Proof.
  destruct a as [ma|qa|], b as [mb|qb|]; try reflexivity.
  cbn [low_hdrs merge_hdrs]. f_equal.
  apply (fold_left_commute
           (fun hs (kv : str * hval) => upsert (fst kv) (fun _ => snd kv) hs)
           (fun hs (kv : str * hval) => upsert (fst kv) (fun _ => snd kv) hs)
           (map (fun kv : str * hval => (fst kv, low_hval (snd kv))))
           (fun kv : str * hval => (fst kv, low_hval (snd kv)))).
  intros m x. cbn [fst snd].
  apply (upsert_map low_hval (fst x) (fun _ => snd x) (fun _ => low_hval (snd x))).
  intros o. reflexivity.
Qed.

Lemma merge_kval_low a b : merge_kval (low_kval a) (low_kval b) = low_kval (merge_kval a b).
Proof.
  destruct a as [[v|n]| |], b as [[v'|n']| |]; reflexivity.
Qed.

Lemma merge_pval_low a b : merge_pval (low_pval a) (low_pval b) = low_pval (merge_pval a b).
Proof.
  destruct a as [e k h|q|], b as [e' k' h'|q'|]; try reflexivity.
  cbn [low_pval merge_pval].
  rewrite (merge_opt_map low_kval merge_kval merge_kval_low), (merge_opt_map low_hdrs merge_hdrs merge_hdrs_low).
  reflexivity.
Qed.

Lemma merge_provs_low a b : merge_provs (low_provs a) (low_provs b) = low_provs (merge_provs a b).
Proof.
  destruct a as [ma|qa|], b as [mb|qb|]; try reflexivity.
  cbn [low_provs merge_provs]. f_equal.
  apply (fold_left_commute
           (fun m (kp : str * pval) => upsert (fst kp) (fun o => match o with Some x => merge_pval x (snd kp) | None => snd kp end) m)
           (fun m (kp : str * pval) => upsert (fst kp) (fun o => match o with Some x => merge_pval x (snd kp) | None => snd kp end) m)
           (map (fun kp : str * pval => (fst kp, low_pval (snd kp))))
           (fun kp : str * pval => (fst kp, low_pval (snd kp)))).
  intros m x. cbn [fst snd].
  apply (upsert_map low_pval (fst x)
           (fun o => match o with Some y => merge_pval y (snd x) | None => snd x end)
           (fun o => match o with Some y => merge_pval y (low_pval (snd x)) | None => low_pval (snd x) end)).
  intros [y|]; cbn [option_map]; [apply merge_pval_low | reflexivity].
Qed.

Lemma merge_doc_low a b : merge_doc (low_doc a) (low_doc b) = low_doc (merge_doc a b).
Proof.
  destruct a as [ps m p st pa f|q|], b as [ps' m' p' st' pa' f'|q'|]; try reflexivity.
  cbn [low_doc merge_doc]. rewrite (merge_opt_map low_provs merge_provs merge_provs_low). reflexivity.
Qed.

Lemma merge_docs_low ds : merge_docs (map low_doc ds) = low_doc (merge_docs ds).
Proof.
  unfold merge_docs. change empty_doc with (low_doc empty_doc) at 1.
  apply (fold_left_commute merge_doc merge_doc low_doc low_doc). intros a b. apply merge_doc_low.
Qed.

(* the schema decision and the quoted scalar *)
Lemma first_some_map {A B} (g : A -> B) (l : list (option A)) :
  first_some (map (option_map g) l) = option_map g (first_some l).
Proof. induction l as [|[a|] l IH]; [reflexivity | reflexivity | exact IH]. Qed.

Lemma hval_error_low v : hval_error (low_hval v) = option_map mask (hval_error v).
Proof. destruct v; reflexivity. Qed.
Lemma hdrs_error_low h : hdrs_error (low_hdrs h) = option_map mask (hdrs_error h).
Proof.
  destruct h as [m|q|]; try reflexivity.
  cbn [low_hdrs hdrs_error]. rewrite map_map. cbn [snd].
  rewrite <- (first_some_map mask). rewrite map_map. f_equal.
  apply map_ext. intros kv. apply hval_error_low.
Qed.
Lemma pval_error_low p : pval_error (low_pval p) = option_map mask (pval_error p).
Proof.
  destruct p as [e k h|q|]; try reflexivity.
  cbn [low_pval pval_error].
  destruct k as [[ks| |]|]; cbn [option_map low_kval]; try reflexivity;
    (destruct h as [hs|]; cbn [option_map]; [apply hdrs_error_low | reflexivity]).
Qed.
Lemma provs_error_low ps : provs_error (low_provs ps) = option_map mask (provs_error ps).
Proof.
  destruct ps as [m|q|]; try reflexivity.
  cbn [low_provs provs_error]. rewrite map_map. cbn [snd].
  rewrite <- (first_some_map mask). rewrite map_map. f_equal.
  apply map_ext. intros kp. apply pval_error_low.
Qed.
Lemma doc_error_low d : doc_error (low_doc d) = option_map mask (doc_error d).
Proof.
  destruct d as [[ps|] m p st pa f|q|]; try reflexivity.
  cbn [low_doc option_map doc_error]. apply provs_error_low.
Qed.

(* the typed view *)
Lemma to_headers_low h : to_headers (option_map low_hdrs h) = hide_vals (to_headers h).
Proof.
  destruct h as [[m|q|]|]; try reflexivity.
  cbn [option_map low_hdrs to_headers]. unfold hide_vals. rewrite !map_map. apply map_ext.
  intros [n v]. cbn [fst snd]. destruct v; reflexivity.
Qed.
Lemma to_patch_low p : to_patch (low_pval p) = low_patch (to_patch p).
Proof.
  destruct p as [e k h|q|]; try reflexivity.
  cbn [low_pval to_patch]. unfold low_patch. cbn [pa_endpoint pa_key pa_headers].
  rewrite to_headers_low. f_equal.
  destruct k as [[ks| |]|]; reflexivity.
Qed.
Lemma to_layer_low d : to_layer (low_doc d) = low_layer (to_layer d).
Proof.
  destruct d as [ps m p st pa f|q|]; try reflexivity.
  cbn [low_doc to_layer]. unfold low_layer. cbn [l_providers l_model l_primary l_stateless l_parallel l_followup].
  f_equal. destruct ps as [[l|q|]|]; try reflexivity.
  cbn [option_map low_provs]. rewrite !map_map. apply map_ext. intros [id pv]. cbn [fst snd]. rewrite to_patch_low. reflexivity.
Qed.

(* worlds given by their files: erasing the files and then typing = typing and then erasing *)
Theorem world_of_low j : world_of (low_jworld j) = low_world (world_of j).
Proof.
  unfold world_of, low_jworld, low_world. cbn [jw_docs jw_env jw_ovr w_layers w_env w_ovr w_misfit map].
  rewrite merge_docs_low, to_layer_low, doc_error_low. reflexivity.
Qed.
Theorem jworld_low_equal : forall j1 j2, low_jworld j1 = low_jworld j2 -> low_world (world_of j1) = low_world (world_of j2).
Proof. intros j1 j2 L. rewrite <- !world_of_low, L. reflexivity. Qed.

(* everything proved about typed worlds holds for worlds given by their (possibly mis-shaped) files *)
Theorem files_noninterference : forall fuel sc thread j1 j2 prompt initial,
  low_jworld j1 = low_jworld j2 ->
  persisted (run fuel sc thread (world_of j1) prompt initial) = persisted (run fuel sc thread (world_of j2) prompt initial)
  /\ doctor_report (world_of j1) = doctor_report (world_of j2)
  /\ startup_warnings (jw_env j1) = startup_warnings (jw_env j2).
Proof.
  intros fuel sc thread j1 j2 prompt initial L. pose proof (jworld_low_equal j1 j2 L) as L'. repeat split.
  - apply (noninterference fuel sc thread _ _ prompt initial L').
  - apply doctor_report_noninterference. exact L'.
  - apply (startup_output_noninterference _ _ L').
Qed.

(* examples: the curl-style header string of a project file survives the merge (a non-object replaces the map of the
   global file) and makes the whole configuration misfit; a still higher file with a header map repairs it *)
Definition ex_global : doc :=
  DObj (Some (PMap [(lit "acme", PObj (Some (lit "http://127.0.0.1:9/v1/responses")) (Some (KV (KInline (lit "sk-inline"))))
                                      (Some (HMap [(lit "X-Lower", HStr (lit "low"))])))]))
       (Some (lit "acme/m1")) None None None None.
Definition ex_bad (secret : str) : doc :=
  DObj (Some (PMap [(lit "acme", PObj None None (Some (HScalar (lit "X-Api-Key: " ++ secret))))])) None None None None None.
Definition ex_repair : doc :=
  DObj (Some (PMap [(lit "acme", PObj None None (Some (HMap [(lit "X-Api-Key", HStr (lit "tok"))])))])) None None None None None.
Definition ex_jworld (ds : list doc) : jworld := mkJWorld ds [(E_ENDPOINT, lit "http://127.0.0.1:9/v1/responses")] no_ovr.
Lemma ex_files_misfit :
  w_misfit (world_of (ex_jworld [ex_global; ex_bad (lit "tok-AAAA")])) = Some (lit "X-Api-Key: tok-AAAA")
  /\ low_jworld (ex_jworld [ex_global; ex_bad (lit "tok-AAAA")]) = low_jworld (ex_jworld [ex_global; ex_bad (lit "tok-BBBB")])
  /\ doctor_report (world_of (ex_jworld [ex_global; ex_bad (lit "tok-AAAA")]))
     = ([], Some (mkDoctor None None (lit "http://127.0.0.1:9/v1/responses") None false None [] false false None)).
Proof. vm_compute. repeat split; reflexivity. Qed.
Lemma ex_files_repaired :
  w_misfit (world_of (ex_jworld [ex_global; ex_bad (lit "tok-AAAA"); ex_repair])) = None
  /\ option_map d_header_names (doctor (world_of (ex_jworld [ex_global; ex_bad (lit "tok-AAAA"); ex_repair]))) = Some [lit "X-Api-Key"].
Proof. vm_compute. split; reflexivity. Qed.

(* rip-cli: everything above applies to what the authority spawned by `rip run --provider ..` stores and shows *)
Theorem cli_run_noninterference : forall f fuel sc w1 w2 w1' w2' prompt initial,
  low_world w1 = low_world w2 ->
  cli_world f w1 = Some w1' -> cli_world f w2 = Some w2' ->
  persisted (run fuel sc true w1' prompt initial) = persisted (run fuel sc true w2' prompt initial)
  /\ doctor_report w1' = doctor_report w2'
  /\ startup_warnings (w_env w1') = startup_warnings (w_env w2').
Proof.
  intros f fuel sc w1 w2 w1' w2' prompt initial L C1 C2.
  pose proof (cli_provider_flags_preserve_low f w1 w2 L) as P. rewrite C1, C2 in P. cbn [option_map] in P.
  assert (L' : low_world w1' = low_world w2') by congruence. clear P. repeat split.
  - apply (noninterference fuel sc true w1' w2' prompt initial L').
  - apply doctor_report_noninterference. exact L'.
  - apply startup_output_noninterference. exact L'.
Qed.

(* ==== the authority over TIME: the credential variables follow the configuration loaded at spawn time ============== *)
Lemma load_config_low w : load_config (low_world w) = low_config (load_config w).
Proof.
  unfold load_config, low_world. cbn [w_layers w_misfit].
  destruct (w_misfit w) as [q|]; cbn [option_map]; [reflexivity | apply merge_layers_low].
Qed.

Lemma envref_names_low ps : envref_names (map (fun kp => (fst kp, low_patch (snd kp))) ps) = envref_names ps.
Proof.
  induction ps as [|[id p] ps IH]; [reflexivity|].
  change (envref_names ((id, low_patch p) :: map (fun kp => (fst kp, low_patch (snd kp))) ps) = envref_names ((id, p) :: ps)).
  unfold envref_names in *. cbn [flat_map snd]. rewrite IH. f_equal.
  unfold low_patch. cbn [pa_key]. destruct (pa_key p) as [[v|n]|]; reflexivity.
Qed.

(* the NAMES a configuration registers are public: erasure keeps them *)
Lemma reg_load_low r w : reg_load r (low_world w) = reg_load r w.
Proof.
  unfold reg_load. rewrite load_config_low. unfold low_config. cbn [c_providers]. rewrite envref_names_low. reflexivity.
Qed.
Lemma reg_load_low_eq r w1 w2 : low_world w1 = low_world w2 -> reg_load r w1 = reg_load r w2.
Proof. intros L. rewrite <- (reg_load_low r w1), <- (reg_load_low r w2), L. reflexivity. Qed.
Lemma secret_env_names_low w : secret_env_names (low_world w) = secret_env_names w.
Proof.
  unfold secret_env_names. rewrite load_config_low. unfold low_config. cbn [c_providers]. rewrite envref_names_low. reflexivity.
Qed.

Lemma spawn_env_no_stripped r e k : In k (stripped_names r) -> getenv (spawn_env r e) k = None.
Proof.
  intros I. unfold spawn_env. apply (getenv_filter_out (fun n => negb (existsb (str_eqb n) (stripped_names r)))).
  apply negb_false_iff. apply existsb_exists. exists k. split; [exact I | apply str_eqb_refl].
Qed.

(* the registry only grows *)
Lemma stripped_mono r w k : In k (stripped_names r) -> In k (stripped_names (reg_load r w)).
Proof.
  unfold stripped_names, reg_load. intros I. apply in_app_or in I. apply in_or_app.
  destruct I as [I|I]; [left; exact I | right; apply in_or_app; left; exact I].
Qed.
Lemma loaded_names_stripped r w k : In k (secret_env_names w) -> In k (stripped_names (reg_load r w)).
Proof.
  unfold secret_env_names, stripped_names, reg_load. intros I. apply in_app_or in I. apply in_or_app.
  destruct I as [I|I]; [left; exact I | right; apply in_or_app; right; exact I].
Qed.

Lemma spawn_envs_strip evs : forall r e k,
  In k (stripped_names r) -> Forall (fun env => getenv env k = None) (spawn_envs r e evs).
Proof.
  induction evs as [|[w|] evs IH]; intros r e k I; cbn [spawn_envs].
  - constructor.
  - apply IH. apply stripped_mono. exact I.
  - constructor; [apply spawn_env_no_stripped; exact I | apply IH; exact I].
Qed.

Fixpoint reg_events (r : registry) (evs : list aevent) : registry :=
  match evs with
  | [] => r
  | ALoad w :: rest => reg_events (reg_load r w) rest
  | ASpawn :: rest => reg_events r rest
  end.
Lemma spawn_envs_app pre : forall r e rest,
  spawn_envs r e (pre ++ rest) = spawn_envs r e pre ++ spawn_envs (reg_events r pre) e rest.
Proof.
  induction pre as [|[w|] pre IH]; intros r e rest; cbn [app spawn_envs reg_events].
  - reflexivity.
  - apply IH.
  - rewrite IH. reflexivity.
Qed.

(* EVERY subprocess spawned after configuration w was loaded - whatever the process loaded or spawned before (pre, r0)
   and whatever it loads or spawns afterwards (rest) - is handed an environment without the credential variables of w *)
Theorem tool_env_follows_the_loaded_configuration : forall (r0 : registry) (pre rest : list aevent) (w : world) (e : env) (k : str),
  In k (secret_env_names w) ->
  Forall (fun env => getenv env k = None)
         (skipn (length (spawn_envs r0 e pre)) (spawn_envs r0 e (pre ++ ALoad w :: rest))).
Proof.
  intros r0 pre rest w e k I. rewrite spawn_envs_app. rewrite skipn_app, skipn_all, Nat.sub_diag.
  cbn [skipn app spawn_envs]. apply spawn_envs_strip. apply loaded_names_stripped. exact I.
Qed.

(* one load, one spawn: the environment of the earlier theorems *)
Lemma tool_env_at_single w : tool_env_at [w] (w_env w) = tool_env w.
Proof. reflexivity. Qed.

(* the seeded behaviour (merged list memoised at the first spawn) does not have the property *)
Definition memoised_list_follows_configuration : Prop :=
  forall (pre rest : list aevent) (w : world) (e : env) (k : str),
    In k (secret_env_names w) ->
    Forall (fun env => getenv env k = None)
           (skipn (length (spawn_envs_memo [] None e pre)) (spawn_envs_memo [] None e (pre ++ ALoad w :: rest))).
Definition memo_env : env := [(lit "ACME_LLM_TOKEN", lit "sk-AAAA"); (lit "HOME", lit "/home/u")].
Definition memo_world_before : world := mkWorld [] memo_env no_ovr None.
Definition memo_world_after : world :=
  mkWorld [mkLayer [(lit "acme", mkPatch (Some (lit "http://127.0.0.1:9/v1/responses")) (Some (KEnvRef (lit "ACME_LLM_TOKEN"))) [])]
                   (Some (lit "acme/m1")) None None None None]
          memo_env no_ovr None.
Lemma memo_name_is_credential : In (lit "ACME_LLM_TOKEN") (secret_env_names memo_world_after).
Proof. vm_compute. do 3 right. left. reflexivity. Qed.
Lemma memo_probe_sees_the_key :
  spawn_envs_memo [] None memo_env [ALoad memo_world_before; ASpawn; ALoad memo_world_after; ASpawn]
  = [memo_env; memo_env].
Proof. vm_compute. reflexivity. Qed.
Lemma faithful_probe_does_not :
  spawn_envs [] memo_env [ALoad memo_world_before; ASpawn; ALoad memo_world_after; ASpawn]
  = [memo_env; [(lit "HOME", lit "/home/u")]].
Proof. vm_compute. reflexivity. Qed.
Theorem memoised_list_refuted : ~ memoised_list_follows_configuration.
Proof.
  intros H.
  specialize (H [ALoad memo_world_before; ASpawn] [ASpawn] memo_world_after memo_env (lit "ACME_LLM_TOKEN") memo_name_is_credential).
  change ([ALoad memo_world_before; ASpawn] ++ ALoad memo_world_after :: [ASpawn])
    with [ALoad memo_world_before; ASpawn; ALoad memo_world_after; ASpawn] in H.
  rewrite memo_probe_sees_the_key in H.
  assert (P : spawn_envs_memo [] None memo_env [ALoad memo_world_before; ASpawn] = [memo_env]) by (vm_compute; reflexivity).
  rewrite P in H. cbn [length skipn] in H.
  inversion H as [|x l Hx Hl]. vm_compute in Hx. discriminate.
Qed.

(* noninterference for whole HISTORIES of one authority process *)
Lemma process_runs_agree fuel v p t : forall o1 o2 r,
  ops_agree r o1 o2 -> process_runs fuel v p t r o1 = process_runs fuel v p t r o2.
Proof.
  induction o1 as [|[w1|th1 w1 p1 i1] o1 IH]; intros [|[w2|th2 w2 p2 i2] o2] r A; cbn [ops_agree] in A; try contradiction.
  - reflexivity.
  - destruct A as [L A]. cbn [process_runs]. rewrite <- (reg_load_low_eq r w1 w2 L). apply IH. exact A.
  - destruct A as [E1 [E2 [E3 [L [S A]]]]]. subst th2 p2 i2. cbn [process_runs].
    assert (R : (if th1 then reg_load r w2 else r) = (if th1 then reg_load r w1 else r))
      by (destruct th1; [symmetry; apply reg_load_low_eq; exact L | reflexivity]).
    rewrite R. rewrite <- S. f_equal.
    + exact (proj1 (noninterference fuel _ th1 w1 w2 p1 i1 L)).
    + apply IH. exact A.
Qed.
Theorem process_noninterference : forall fuel v p (t : env -> tcall -> list str * str) o1 o2,
  ops_agree [] o1 o2 -> process_runs fuel v p t [] o1 = process_runs fuel v p t [] o2.
Proof. intros. apply process_runs_agree. assumption. Qed.

(* non-vacuity: the C19-4 sequence - start, a tool run on the session path, the file appears, doctor, a thread run whose
   provider asks the shell for the variable - with two different keys behind ACME_LLM_TOKEN *)
Definition hist_env (key : str) : env :=
  [(E_ENDPOINT, lit "http://127.0.0.1:9/v1/responses"); (lit "ACME_LLM_TOKEN", key); (lit "HOME", lit "/home/u")].
Definition hist_before (key : str) : world := mkWorld [] (hist_env key) no_ovr None.
Definition hist_after (key : str) : world :=
  mkWorld [mkLayer [(lit "acme", mkPatch (Some (lit "http://127.0.0.1:9/v1/responses")) (Some (KEnvRef (lit "ACME_LLM_TOKEN"))) [])]
                   (Some (lit "acme/m1")) None None None None]
          (hist_env key) no_ovr None.
Definition hist_ops (key : str) : list aop :=
  [OLoad (hist_before key); ORun true (hist_before key) (lit "warm up") [];
   OLoad (hist_after key); ORun true (hist_after key) (lit "probe") []].
Definition printenv_acme (e : env) (c : tcall) : list str * str :=
  match getenv e (lit "ACME_LLM_TOKEN") with Some v => ([v], v) | None => ([], []) end.
Lemma hist_second_run_hides_the_key :
  map (fun p => tool_events (fst p))
      (process_runs 10 (ws_validate leak_script) (ws_prov leak_script) printenv_acme [] (hist_ops (lit "sk-AAAA")))
  = [[[lit "sk-AAAA"]]; [[]]].
Proof. vm_compute. reflexivity. Qed.
Lemma hist_tail_agrees :
  ops_agree [] [OLoad (hist_after (lit "sk-AAAA")); ORun true (hist_after (lit "sk-AAAA")) (lit "probe") []]
               [OLoad (hist_after (lit "sk-BBBB")); ORun true (hist_after (lit "sk-BBBB")) (lit "probe") []].
Proof. vm_compute. repeat split; reflexivity. Qed.

(* T1: what the generated obligation about the spawn path says *)
Lemma spawn_facts_wf_sound f : spawn_facts_wf f = true ->
  sf_fixed_names f = [E_API_KEY; E_OPENAI; E_OPENROUTER]
  /\ sf_names_fresh f = true /\ sf_registry_grows_only f = true /\ sf_load_registers f = true /\ sf_loaders_found f = true
  /\ 1 <= sf_spawn_sites f /\ sf_spawn_sites f = sf_spawn_sites_stripping f /\ sf_unlisted_key_vars f = 0.
Proof.
  unfold spawn_facts_wf. intros H.
  apply andb_true_iff in H; destruct H as [H G8]. apply N.eqb_eq in G8.
  apply andb_true_iff in H; destruct H as [H G7].
  apply andb_true_iff in H; destruct H as [H G6].
  apply andb_true_iff in H; destruct H as [H G5].
  apply andb_true_iff in H; destruct H as [H G4].
  apply andb_true_iff in H; destruct H as [H G3].
  apply andb_true_iff in H; destruct H as [H G2].
  apply (proj1 (list_eqb_spec str_eqb str_eqb_eq _ _)) in H. apply N.eqb_eq in G7. apply N.leb_le in G6.
  repeat split; assumption.
Qed.

(* ---- the SPAWN PATH: mode x cwd x the call's own env ------------------------------------------------------------------ *)
Lemma filter_filter {A} (f g : A -> bool) l : filter f (filter g l) = filter (fun x => g x && f x) l.
Proof.
  induction l as [|x l IH]; [reflexivity|]. cbn [filter]. destruct (g x) eqn:G; cbn [filter andb]; [|exact IH].
  destruct (f x); [f_equal|]; exact IH.
Qed.
Lemma filter_ext_eq {A} (f g : A -> bool) l : (forall x, f x = g x) -> filter f l = filter g l.
Proof. intros H. induction l as [|x l IH]; [reflexivity|]. cbn [filter]. rewrite H, IH. reflexivity. Qed.

Lemma cm_env_fold_remove names : forall c,
  cm_env (fold_left cmd_env_remove names c) = filter (fun kv => negb (existsb (str_eqb (fst kv)) names)) (cm_env c).
Proof.
  induction names as [|n ns IH]; intros c; cbn [fold_left].
  - cbn [existsb negb]. symmetry. induction (cm_env c) as [|x l IHl]; [reflexivity|]. cbn [filter]. f_equal. exact IHl.
  - rewrite IH. unfold cmd_env_remove at 1. cbn [cm_env]. unfold env_remove. rewrite filter_filter.
    apply filter_ext_eq. intros kv. cbn [existsb]. rewrite negb_orb. reflexivity.
Qed.
Lemma cm_env_fold_set ov : forall c, cm_env (fold_left cmd_env_set ov c) = fold_left env_set ov (cm_env c).
Proof. induction ov as [|kv ov IH]; intros c; cbn [fold_left]; [reflexivity|]. rewrite IH. reflexivity. Qed.

(* the removal loop over secret_env_names() makes the environment of the command the stripped environment *)
Lemma strip_loop_is_spawn_env r e d :
  cm_env (fold_left cmd_env_remove (stripped_names r) (cmd_dir (cmd_new e) d)) = spawn_env r e.
Proof. rewrite cm_env_fold_remove. reflexivity. Qed.

Lemma getenv_env_remove_other e k' k : str_eqb k' k = false -> getenv (env_remove e k') k = getenv e k.
Proof.
  intros NE. unfold env_remove. induction e as [|[n v] e IH]; [reflexivity|]. cbn [filter fst].
  destruct (str_eqb n k') eqn:E1; cbn [negb getenv].
  - apply str_eqb_eq in E1. subst n. rewrite NE. exact IH.
  - destruct (str_eqb n k); [reflexivity | exact IH].
Qed.
(* the call's own `env`: the last pair naming k decides, otherwise the variable is what it was *)
Lemma getenv_fold_set ov : forall base k,
  getenv (fold_left env_set ov base) k = match getenv (rev ov) k with Some v => Some v | None => getenv base k end.
Proof.
  induction ov as [|kv ov IH] using rev_ind; intros base k; [reflexivity|].
  rewrite fold_left_app. cbn [fold_left]. rewrite rev_app_distr. cbn [rev app]. destruct kv as [k' v']. unfold env_set at 1.
  cbn [getenv fst]. destruct (str_eqb k' k) eqn:E; [reflexivity|].
  rewrite getenv_env_remove_other by exact E. apply IH.
Qed.

(* every site: the child's environment is a function of the STRIPPED environment and of the request *)
Lemma site_cmd_env m r e q : m = missing_dir_fails (site_of (sp_via q)) ->
  option_map cm_env (site_cmd true m r e q) = child_env_of (spawn_env r e) q.
Proof.
  intros ->. unfold site_cmd, child_env_of. destruct (sp_cwd q) as [raw|].
  - destruct (cwd_refused raw); [reflexivity|].
    destruct (sp_dir_exists q || negb (missing_dir_fails (site_of (sp_via q)))); [|reflexivity].
    cbn [option_map]. rewrite cm_env_fold_set, strip_loop_is_spawn_env. reflexivity.
  - cbn [option_map]. rewrite cm_env_fold_set, strip_loop_is_spawn_env. reflexivity.
Qed.
Theorem child_env_factors_through_the_stripped_environment : forall r e q,
  child_env r e q = child_env_of (spawn_env r e) q.
Proof.
  intros r e q. unfold child_env, spawn_cmd, tool_cmd, pipes_cmd, pty_cmd.
  destruct (site_of (sp_via q)) eqn:S; apply site_cmd_env; rewrite S; reflexivity.
Qed.

Lemma child_env_of_getenv base q ce k :
  child_env_of base q = Some ce ->
  getenv ce k = match getenv (rev (req_env q)) k with Some v => Some v | None => getenv base k end.
Proof.
  unfold child_env_of. intros H.
  assert (G : Some ce = Some (fold_left env_set (req_env q) base)).
  { destruct (sp_cwd q) as [raw|]; [|symmetry; exact H].
    destruct (cwd_refused raw); [discriminate|].
    destruct (sp_dir_exists q || negb (missing_dir_fails (site_of (sp_via q)))); [symmetry; exact H | discriminate]. }
  injection G as ->. apply getenv_fold_set.
Qed.

(* EVERY way of spawning (tool / pipes task / pty task; execution_mode given or absent), EVERY `cwd` argument (absent, below the
   root, the root, missing, refused), EVERY `env` argument, every title: a credential variable is in the child's environment only
   with the value the call itself supplied *)
Theorem every_spawn_path_strips : spawn_path_strips spawn_cmd.
Proof.
  intros r e q c k H I.
  assert (C : child_env r e q = Some (cm_env c)) by (unfold child_env; rewrite H; reflexivity).
  rewrite child_env_factors_through_the_stripped_environment in C.
  rewrite (child_env_of_getenv _ _ _ k C). rewrite (spawn_env_no_stripped r e k I).
  destruct (getenv (rev (req_env q)) k); reflexivity.
Qed.
Corollary child_without_own_env_sees_no_credential : forall r e q ce k,
  child_env r e q = Some ce -> In k (stripped_names r) -> sp_env q = None -> getenv ce k = None.
Proof.
  intros r e q ce k H I N. unfold child_env in H. destruct (spawn_cmd r e q) as [c|] eqn:S; [|discriminate].
  injection H as <-. rewrite (every_spawn_path_strips r e q c k S I). unfold req_env. rewrite N. reflexivity.
Qed.

(* two environments of the authority that differ only in credential variables give every child the same environment, however
   it is spawned *)
Theorem child_env_noninterference : forall r e1 e2 q,
  spawn_env r e1 = spawn_env r e2 -> child_env r e1 q = child_env r e2 q.
Proof. intros r e1 e2 q H. rewrite !child_env_factors_through_the_stripped_environment, H. reflexivity. Qed.

(* over TIME: a configuration loaded at any earlier moment of the process has its credential variables removed from every child *)
Lemma stripped_mono_fold hist : forall r k, In k (stripped_names r) -> In k (stripped_names (fold_left reg_load hist r)).
Proof.
  induction hist as [|x xs IH]; intros r k I; cbn [fold_left]; [exact I|]. apply IH. apply stripped_mono. exact I.
Qed.
Lemma loaded_in_history hist : forall r w k,
  In w hist -> In k (secret_env_names w) -> In k (stripped_names (fold_left reg_load hist r)).
Proof.
  induction hist as [|x xs IH]; intros r w k Iw Ik; [destruct Iw|]. cbn [fold_left]. destruct Iw as [->|Iw].
  - apply stripped_mono_fold. apply loaded_names_stripped. exact Ik.
  - apply (IH _ w); assumption.
Qed.
Theorem child_env_follows_the_loaded_configurations : forall hist w e q ce k,
  In w hist -> In k (secret_env_names w) ->
  child_env (reg_after hist) e q = Some ce ->
  getenv ce k = getenv (rev (req_env q)) k.
Proof.
  intros hist w e q ce k Iw Ik H. unfold child_env in H. destruct (spawn_cmd (reg_after hist) e q) as [c|] eqn:S; [|discriminate].
  injection H as <-. apply (every_spawn_path_strips _ _ _ _ _ S). unfold reg_after. apply (loaded_in_history hist [] w k Iw Ik).
Qed.

(* the seeded behaviour (C19-8: removal loop only on the branch without `cwd`, in run_pipes_task) does not have the property *)
Definition cwdleak_env : env := [(E_API_KEY, lit "sk-AAAA"); (lit "HOME", lit "/home/u")].
Definition cwdleak_req (cwd : option str) : spawn_req := mkSpawn (VTask None) cwd true None None.
Lemma cwd_unstripped_pipes_task_with_cwd_sees_the_key :
  option_map cm_env (spawn_cmd_cwd_unstripped [] cwdleak_env (cwdleak_req (Some (lit "sub")))) = Some cwdleak_env.
Proof. vm_compute. reflexivity. Qed.
Lemma cwd_unstripped_pipes_task_without_cwd_does_not :
  option_map cm_env (spawn_cmd_cwd_unstripped [] cwdleak_env (cwdleak_req None)) = Some [(lit "HOME", lit "/home/u")].
Proof. vm_compute. reflexivity. Qed.
Lemma faithful_pipes_task_with_cwd_does_not :
  child_env [] cwdleak_env (cwdleak_req (Some (lit "sub"))) = Some [(lit "HOME", lit "/home/u")].
Proof. vm_compute. reflexivity. Qed.
Theorem strip_only_without_cwd_refuted : ~ spawn_path_strips spawn_cmd_cwd_unstripped.
Proof.
  intros H.
  destruct (spawn_cmd_cwd_unstripped [] cwdleak_env (cwdleak_req (Some (lit "sub")))) as [c|] eqn:S; [|vm_compute in S; discriminate].
  assert (G := H [] cwdleak_env (cwdleak_req (Some (lit "sub"))) c E_API_KEY S (or_introl eq_refl)).
  assert (C : option_map cm_env (Some c) = Some cwdleak_env) by (rewrite <- S; exact cwd_unstripped_pipes_task_with_cwd_sees_the_key).
  cbn [option_map] in C. injection C as C. rewrite C in G. vm_compute in G. discriminate.
Qed.

(* non-vacuity: the call's own `env` reaches the child (also when it names a credential variable: the call's value, not the
   authority's), a refused / missing directory spawns nothing, the three sites are reached *)
Lemma call_env_reaches_the_child :
  child_env [lit "ACME_LLM_TOKEN"] ((lit "ACME_LLM_TOKEN", lit "sk-BBBB") :: cwdleak_env)
            (mkSpawn (VTask (Some XPty)) (Some (lit "./sub/")) true
                     (Some [(E_API_KEY, lit "from-the-call"); (lit "EXTRA", lit "1")]) (Some (lit "t")))
  = Some [(lit "EXTRA", lit "1"); (E_API_KEY, lit "from-the-call"); (lit "HOME", lit "/home/u")].
Proof. vm_compute. reflexivity. Qed.
Lemma refused_and_missing_directories_spawn_nothing :
  child_env [] cwdleak_env (mkSpawn VTool (Some (lit "../outside")) false None None) = None
  /\ child_env [] cwdleak_env (mkSpawn VTool (Some (lit "/usr")) true None None) = None
  /\ child_env [] cwdleak_env (mkSpawn (VTask (Some XPipes)) (Some (lit "a/../b")) true None None) = None
  /\ child_env [] cwdleak_env (mkSpawn (VTask (Some XPipes)) (Some (lit "nope/missing")) false None None) = None
  /\ child_env [] cwdleak_env (mkSpawn (VTask (Some XPipes)) (Some (lit "..hidden/x..")) true None None) = Some [(lit "HOME", lit "/home/u")]
  /\ child_env [] cwdleak_env (mkSpawn (VTask (Some XPty)) (Some (lit "nope/missing")) false None None) = Some [(lit "HOME", lit "/home/u")].
Proof. vm_compute. repeat split; reflexivity. Qed.

(* T1: a site whose steps are the modelled ones IS the model's site; the step list the extractor reads off the seeded change
   C19-8 is the site that does not strip when `cwd` is given *)
Lemma sstep_code_inj a b : sstep_code a = sstep_code b -> a = b.
Proof. destruct a, b; cbn; intros H; try reflexivity; discriminate. Qed.
Lemma map_sstep_code_inj p : forall p', map sstep_code p = map sstep_code p' -> p = p'.
Proof.
  induction p as [|a p IH]; intros [|b p'] H; try discriminate; [reflexivity|].
  cbn [map] in H. injection H as H1 H2. apply sstep_code_inj in H1. subst b. f_equal. apply IH. exact H2.
Qed.
Lemma steps_as_modelled_sound p : steps_as_modelled p = true -> p = modelled_steps.
Proof. unfold steps_as_modelled. intros H. apply lN_eqb_spec in H. apply map_sstep_code_inj. exact H. Qed.
Lemma modelled_steps_run m r e q : run_steps modelled_steps m r q (cmd_new e) = site_cmd true m r e q.
Proof.
  unfold modelled_steps, site_cmd, strip_cmd. cbn [run_steps]. destruct (sp_cwd q) as [raw|]; [|reflexivity].
  destruct (cwd_refused raw); reflexivity.
Qed.
Lemma cwd_else_strip_steps_run m r e q :
  run_steps [SCwd; SStripIfNoCwd; SOwnEnv; SSpawn] m r q (cmd_new e) = site_cmd false m r e q.
Proof.
  unfold site_cmd, strip_cmd. cbn [run_steps]. destruct (sp_cwd q) as [raw|]; [|reflexivity].
  destruct (cwd_refused raw); reflexivity.
Qed.
Lemma site_steps_wf_sound g : site_steps_wf g = true ->
  map fst g = modelled_spawn_sites
  /\ Forall (fun s => forall m r e q, run_steps (snd s) m r q (cmd_new e) = site_cmd true m r e q) g.
Proof.
  unfold site_steps_wf. intros H. apply andb_true_iff in H. destruct H as [H1 H2]. split.
  - refine (proj1 (list_eqb_spec (fun a b : str * str => str_eqb (fst a) (fst b) && str_eqb (snd a) (snd b)) _ _ _) H1).
    intros [a1 a2] [b1 b2]. cbn [fst snd]. rewrite andb_true_iff, !str_eqb_eq.
    split; [intros [-> ->]; reflexivity | intros E; injection E as -> ->; split; reflexivity].
  - apply Forall_forall. intros s I m r e q. rewrite forallb_forall in H2. rewrite (steps_as_modelled_sound _ (H2 s I)).
    apply modelled_steps_run.
Qed.

(* EVERY safe step order - not only the one the code has today - keeps the authority's credential variables from the child: a
   credential variable in the child's environment was put there by the call's own env *)
Lemma getenv_In e k v : getenv e k = Some v -> In (k, v) e.
Proof.
  induction e as [|[n x] e IH]; cbn [getenv]; [discriminate|]. destruct (str_eqb n k) eqn:E.
  - intros H. injection H as ->. apply str_eqb_eq in E. subst n. left. reflexivity.
  - intros H. right. apply IH. exact H.
Qed.
Definition only_from_call (r : registry) (q : spawn_req) (c : cmd) : Prop :=
  forall k v, In k (stripped_names r) -> getenv (cm_env c) k = Some v -> In (k, v) (req_env q).
Definition stripped_for (sc sn : bool) (q : spawn_req) : bool := match sp_cwd q with Some _ => sc | None => sn end.
Lemma strip_cmd_only_from_call r q c : only_from_call r q (strip_cmd r c).
Proof.
  intros k v I H. unfold strip_cmd in H. rewrite cm_env_fold_remove in H.
  rewrite (getenv_filter_out (fun n => negb (existsb (str_eqb n) (stripped_names r)))) in H; [discriminate|].
  apply negb_false_iff. apply existsb_exists. exists k. split; [exact I | apply str_eqb_refl].
Qed.
Lemma own_env_only_from_call r q c : only_from_call r q c -> only_from_call r q (fold_left cmd_env_set (req_env q) c).
Proof.
  intros H k v I G. rewrite cm_env_fold_set, getenv_fold_set in G.
  destruct (getenv (rev (req_env q)) k) as [x|] eqn:E.
  - injection G as ->. apply getenv_In in E. apply in_rev. exact E.
  - apply (H k v I G).
Qed.
Lemma own_env_keeps_env_otherwise c ov : cm_dir (fold_left cmd_env_set ov c) = cm_dir c.
Proof. revert c. induction ov as [|kv ov IH]; intros c; cbn [fold_left]; [reflexivity|]. rewrite IH. reflexivity. Qed.
Lemma safe_steps_run p : forall sc sn m r q c0 c,
  steps_safe_from sc sn p = true ->
  (stripped_for sc sn q = true -> only_from_call r q c0) ->
  run_steps p m r q c0 = Some c -> only_from_call r q c.
Proof.
  induction p as [|st p IH]; intros sc sn m r q c0 c S Inv R; [discriminate|].
  destruct st; cbn [run_steps steps_safe_from] in R, S.
  - (* SCwd *) destruct (sp_cwd q) as [raw|] eqn:CW.
    + destruct (cwd_refused raw); [discriminate|]. eapply (IH sc sn m r q _ c S); [|exact R].
      intros T. unfold stripped_for in T, Inv. rewrite CW in T, Inv. exact (Inv T).
    + eapply (IH sc sn m r q _ c S); [|exact R].
      intros T. unfold stripped_for in T, Inv. rewrite CW in T, Inv. exact (Inv T).
  - (* SStrip *) eapply (IH true true m r q _ c S); [|exact R]. intros _. apply strip_cmd_only_from_call.
  - (* SStripIfNoCwd *) eapply (IH sc true m r q _ c S); [|exact R]. unfold stripped_for in *.
    destruct (sp_cwd q); [exact Inv | intros _; apply strip_cmd_only_from_call].
  - (* SStripIfCwd *) eapply (IH true sn m r q _ c S); [|exact R]. unfold stripped_for in *.
    destruct (sp_cwd q); [intros _; apply strip_cmd_only_from_call | exact Inv].
  - (* SStripCond *) eapply (IH sc sn m r q _ c S Inv R).
  - (* SOwnEnv *) eapply (IH sc sn m r q _ c S); [|exact R]. intros T. apply own_env_only_from_call. exact (Inv T).
  - (* SSpawn *) apply andb_true_iff in S. destruct S as [S1 S2]. subst sc sn.
    assert (E : c = c0).
    { destruct (sp_cwd q); [destruct (sp_dir_exists q || negb m); [|discriminate]|]; injection R as <-; reflexivity. }
    subst c. apply Inv. unfold stripped_for. destruct (sp_cwd q); reflexivity.
Qed.
Theorem any_safe_step_order_strips : forall (p : list sstep) (m : bool) (r : registry) (e : env) (q : spawn_req) (c : cmd) (k v : str),
  steps_safe p = true ->
  run_steps p m r q (cmd_new e) = Some c ->
  In k (stripped_names r) -> getenv (cm_env c) k = Some v -> In (k, v) (req_env q).
Proof.
  intros p m r e q c k v S R I G. unfold steps_safe in S.
  refine (safe_steps_run p false false m r q (cmd_new e) c S _ R k v I G).
  unfold stripped_for. destruct (sp_cwd q); discriminate.
Qed.
Lemma step_orders_safe_or_not :
  steps_safe modelled_steps = true
  /\ steps_safe [SCwd; SStripIfNoCwd; SOwnEnv; SSpawn] = false          (* seeded C19-8 *)
  /\ steps_safe [SCwd; SOwnEnv; SStripCond; SSpawn] = false             (* removal only when the call brings no env *)
  /\ steps_safe [SCwd; SOwnEnv; SSpawn] = false
  /\ steps_safe [SCwd; SStripIfCwd; SStripIfNoCwd; SOwnEnv; SSpawn] = true   (* a loop in each branch would do *)
  /\ steps_safe [SOwnEnv; SStrip; SCwd; SSpawn] = true.
Proof. vm_compute. repeat split; reflexivity. Qed.
