(* C20 — proofs about Model/Tui.v *)
From Coq Require Import Sorting.Sorted.
From RipV Require Import Base.Prelude Model.Tui.

(* ---------- frame window bound ---------- *)
Lemma tl_length {A} (l : list A) : length (tl l) = (length l - 1)%nat.
Proof. destruct l; cbn; lia. Qed.

Lemma fs_push_maxf s f : maxf (fs_push s f) = maxf s.
Proof. unfold fs_push. destruct (Nat.leb _ _); reflexivity. Qed.

Lemma fs_push_len s f :
  (1 <= maxf s)%nat -> (length (frames s) <= maxf s)%nat ->
  (length (frames (fs_push s f)) <= maxf s)%nat.
Proof.
  intros Hm Hl. unfold fs_push.
  destruct (Nat.leb (maxf s) (length (frames s))) eqn:E; cbn [frames];
    rewrite app_length, ?tl_length; cbn [length]; lia.
Qed.

Definition FsInv (s : fstore) : Prop := (1 <= maxf s)%nat /\ (length (frames s) <= maxf s)%nat.

Lemma fs_new_inv m : FsInv (fs_new m).
Proof. unfold FsInv, fs_new; cbn. lia. Qed.

Lemma fs_push_inv s f : FsInv s -> FsInv (fs_push s f).
Proof. intros [H1 H2]. split; rewrite fs_push_maxf; [exact H1 | apply fs_push_len; assumption]. Qed.

Lemma fs_pushes_inv fs s : FsInv s -> FsInv (fold_left fs_push fs s).
Proof. revert s; induction fs as [|f fs IH]; cbn [fold_left]; intros s H; [exact H|]. apply IH, fs_push_inv, H. Qed.

Lemma fs_pushes_maxf fs s : maxf (fold_left fs_push fs s) = maxf s.
Proof. revert s; induction fs as [|f fs IH]; cbn [fold_left]; intros s; [reflexivity|]. rewrite IH. apply fs_push_maxf. Qed.

Theorem frames_bounded m fs :
  (length (frames (fold_left fs_push fs (fs_new m))) <= Nat.max m 1)%nat.
Proof.
  pose proof (fs_pushes_inv fs (fs_new m) (fs_new_inv m)) as [_ H].
  rewrite fs_pushes_maxf in H. exact H.
Qed.

(* ---------- lookup soundness ---------- *)
Theorem index_lookup_sound s q i :
  fs_index_of_seq s q = Some i -> exists f, nth_error (frames s) i = Some f /\ fseq f = q.
Proof.
  unfold fs_index_of_seq. destruct (fs_slot_of_seq s q) as [j|]; [|discriminate].
  destruct (nth_error (frames s) j) as [g|] eqn:En; [|discriminate].
  destruct (fseq g =? q) eqn:Eq; [|discriminate].
  intros H; inversion H; subst j. exists g. split; [exact En | apply N.eqb_eq, Eq].
Qed.

Theorem lookup_sound s q f :
  fs_get_by_seq s q = Some f -> fseq f = q /\ In f (frames s).
Proof.
  unfold fs_get_by_seq. destruct (fs_index_of_seq s q) as [i|] eqn:Ei; [|discriminate].
  destruct (index_lookup_sound _ _ _ Ei) as [g [Hg Hq]]. rewrite Hg. intros H; inversion H; subst g.
  split; [exact Hq | eapply nth_error_In, Hg].
Qed.

(* the slot arithmetic alone points at a frame with another seq on a reachable store *)
Lemma slot_lookup_refuted :
  exists fs m q i f, fs_slot_of_seq (fold_left fs_push fs (fs_new m)) q = Some i
    /\ nth_error (frames (fold_left fs_push fs (fs_new m))) i = Some f /\ fseq f <> q.
Proof.
  exists [ {| fseq := 0; fid := 100 |}; {| fseq := 5; fid := 105 |} ], 10%nat, 1, 1%nat, {| fseq := 5; fid := 105 |}.
  split; [vm_compute; reflexivity|]. split; [vm_compute; reflexivity | cbn; lia].
Qed.

(* the unrepaired lookup returns a different frame on a reachable store (S14) *)
Definition s14_store : fstore :=
  fold_left fs_push [ {| fseq := 0; fid := 100 |}; {| fseq := 5; fid := 105 |} ] (fs_new 10).

Lemma lookup_unchecked_refuted :
  exists fs m q f, fs_get_by_seq_unchecked (fold_left fs_push fs (fs_new m)) q = Some f /\ fseq f <> q.
Proof.
  exists [ {| fseq := 0; fid := 100 |}; {| fseq := 5; fid := 105 |} ], 10%nat, 1, {| fseq := 5; fid := 105 |}.
  split; [vm_compute; reflexivity | cbn; lia].
Qed.

(* completeness on consecutive streams: frames carry base, base+1, ... *)
Fixpoint consec (b : N) (l : list frame) : Prop :=
  match l with [] => True | f :: r => fseq f = b /\ consec (b + 1) r end.

Definition Consec (s : fstore) : Prop := consec (base s) (frames s).

Lemma consec_app b l f :
  consec b l -> fseq f = b + nlen l -> consec b (l ++ [f]).
Proof.
  revert b; induction l as [|g l IH]; intros b H Hf; cbn [consec app] in *.
  - unfold nlen in Hf; cbn in Hf. split; [lia | exact I].
  - destruct H as [Hg Hr]. split; [exact Hg|]. apply IH; [exact Hr|].
    unfold nlen in *; cbn [length] in Hf. lia.
Qed.

Lemma consec_nth b l i f :
  consec b l -> nth_error l i = Some f -> fseq f = b + N.of_nat i.
Proof.
  revert b i; induction l as [|g l IH]; intros b i H Hn; [destruct i; discriminate|].
  destruct H as [Hg Hr]. destruct i as [|i]; cbn [nth_error] in Hn.
  - inversion Hn; subst; lia.
  - rewrite (IH _ _ Hr Hn). lia.
Qed.

Lemma consec_tl b g l : consec b (g :: l) -> consec (b + 1) l.
Proof. intros [_ H]; exact H. Qed.

Theorem push_consec s f :
  Consec s -> (1 <= maxf s)%nat ->
  (frames s = [] \/ fseq f = base s + nlen (frames s)) -> base s + nlen (frames s) < U64MAX ->
  Consec (fs_push s f).
Proof.
  unfold Consec, fs_push. intros Hc Hm Hf Hov.
  destruct (frames s) as [|g l] eqn:Efr.
  - destruct (Nat.leb (maxf s) (length (@nil frame))) eqn:E; [apply Nat.leb_le in E; cbn in E; lia|].
    cbn [base frames app consec]. split; [reflexivity | exact I].
  - destruct Hf as [Hf|Hf]; [discriminate|].
    destruct (Nat.leb (maxf s) (length (g :: l))) eqn:E; cbn [base frames tl].
    + unfold sat_add64. rewrite N.min_l by (unfold nlen in Hov; cbn [length] in Hov; lia).
      apply consec_app; [eapply consec_tl, Hc|].
      unfold nlen in *; cbn [length] in Hf. lia.
    + apply consec_app; [exact Hc | exact Hf].
Qed.

Theorem index_complete_consecutive s i f :
  Consec s -> nth_error (frames s) i = Some f -> fs_index_of_seq s (fseq f) = Some i.
Proof.
  unfold Consec. intros Hc Hn.
  pose proof (consec_nth _ _ _ _ Hc Hn) as Hs.
  assert (Hi : (i < length (frames s))%nat) by (apply nth_error_Some; congruence).
  unfold fs_index_of_seq, fs_slot_of_seq.
  destruct (frames s) as [|g l] eqn:Efr; [destruct i; discriminate|].
  rewrite <- Efr in *.
  destruct (fseq f <? base s) eqn:E1; [lia|].
  destruct (nlen (frames s) <=? fseq f - base s) eqn:E2; [unfold nlen in E2; lia|].
  replace (N.to_nat (fseq f - base s)) with i by lia.
  rewrite Hn, N.eqb_refl. reflexivity.
Qed.

Theorem lookup_complete_consecutive s i f :
  Consec s -> nth_error (frames s) i = Some f ->
  fs_get_by_seq s (fseq f) = Some f.
Proof.
  intros Hc Hn. unfold fs_get_by_seq. rewrite (index_complete_consecutive s i f Hc Hn). exact Hn.
Qed.

Lemma nlen_cons_tui {A} (x : A) l : nlen (x :: l) = 1 + nlen l.
Proof. unfold nlen. cbn [length]. lia. Qed.

(* ---------- bounded text ---------- *)
Lemma blen_app a b : blen (a ++ b) = blen a + blen b.
Proof. unfold blen. rewrite map_app, sumN_app. reflexivity. Qed.

Lemma cpw_pos c : 1 <= cpw c <= 4.
Proof. unfold cpw. destruct (c <? 128), (c <? 2048), (c <? 65536); lia. Qed.

(* the cut is a suffix that starts on a character boundary at or after the requested offset *)
Lemma drop_to_suffix k s :
  exists pre, s = pre ++ drop_to k s /\ (k <= blen s -> k <= blen pre) /\ (blen s < k -> drop_to k s = []).
Proof.
  revert k; induction s as [|c r IH]; intros k; cbn [drop_to].
  - exists []. cbn. repeat split; auto; unfold blen; cbn; lia.
  - destruct (k =? 0) eqn:E.
    + apply N.eqb_eq in E; subst k. exists []. cbn [app]. split; [reflexivity|].
      split; intros H; [unfold blen; cbn; lia | lia].
    + destruct (IH (k - cpw c)) as [pre [Hs [Hk Hlt]]].
      exists (c :: pre). cbn [app]. split; [f_equal; exact Hs|].
      unfold blen in *; cbn [map sumN]. pose proof (cpw_pos c) as Hw. split; intros Hle; [|apply Hlt; lia].
      destruct (N.le_gt_cases (cpw c) k) as [Hck|Hck].
      * assert (Hr : k - cpw c <= sumN (map cpw r)) by lia. specialize (Hk Hr). lia.
      * lia.
Qed.

Lemma drop_to_blen k s : blen (drop_to k s) <= blen s - k.
Proof.
  destruct (drop_to_suffix k s) as [pre [Hs [Hk Hlt]]].
  destruct (N.le_gt_cases k (blen s)) as [H|H].
  - specialize (Hk H). rewrite Hs at 2. rewrite blen_app. lia.
  - rewrite (Hlt H). unfold blen; cbn. lia.
Qed.

Theorem push_bounded_le maxb t c :
  blen t <= maxb -> blen (fst (push_bounded maxb t c)) <= maxb.
Proof.
  intros H. unfold push_bounded. destruct c as [|x c]; [exact H|].
  set (t' := t ++ x :: c).
  destruct (blen t' <=? maxb) eqn:E; cbn [fst]; [lia|].
  pose proof (drop_to_blen (blen t' - maxb / 2) t'). lia.
Qed.

(* the truncated text is always a suffix of (old ++ chunk): nothing is invented or reordered,
   and the Rust slice `s[start..]` is taken at a character boundary (it cannot panic) *)
Theorem push_bounded_suffix maxb t c :
  exists pre, t ++ c = pre ++ fst (push_bounded maxb t c).
Proof.
  unfold push_bounded. destruct c as [|x c].
  - exists []. cbn [fst app]. apply app_nil_r.
  - destruct (blen (t ++ x :: c) <=? maxb); cbn [fst].
    + exists []. reflexivity.
    + destruct (drop_to_suffix (blen (t ++ x :: c) - maxb / 2) (t ++ x :: c)) as [pre [Hs _]].
      exists pre. exact Hs.
Qed.

(* ---------- state invariant over the whole fold ---------- *)
Definition all_tools_le (mp : N) (m : list (N * tool)) : Prop :=
  Forall (fun kt => blen (t_out (snd kt)) <= mp /\ blen (t_err (snd kt)) <= mp) m.
Definition all_tasks_le (mp : N) (m : list (N * task)) : Prop :=
  Forall (fun kt => blen (k_out (snd kt)) <= mp /\ blen (k_err (snd kt)) <= mp /\ blen (k_pty (snd kt)) <= mp) m.

Definition TuiInv (s : tui) : Prop :=
  FsInv (st_frames s) /\ blen (st_output s) <= st_max_out s
  /\ all_tools_le (st_max_prev s) (st_tools s) /\ all_tasks_le (st_max_prev s) (st_tasks s).

Lemma map_put_Forall {V} (P : N * V -> Prop) k v m :
  Forall P m -> P (k, v) -> Forall P (map_put k v m).
Proof.
  intros Hm Hv. induction m as [|[k' v'] r IH]; cbn [map_put]; [constructor; auto|].
  inversion Hm; subst.
  destruct (k <? k'); [constructor; auto|].
  destruct (k =? k'); constructor; auto.
Qed.

Lemma map_get_Forall {V} (P : N * V -> Prop) k v m :
  Forall P m -> map_get k m = Some v -> exists k', P (k', v).
Proof.
  intros Hm. induction m as [|[k' v'] r IH]; cbn [map_get]; [discriminate|].
  inversion Hm; subst. destruct (k =? k'); [intros E; inversion E; subst; eauto | auto].
Qed.

Lemma out_push_le maxb ot d : blen (fst ot) <= maxb -> blen (fst (out_push maxb ot d)) <= maxb.
Proof.
  intros H. unfold out_push. pose proof (push_bounded_le maxb (fst ot) d H).
  destruct (push_bounded maxb (fst ot) d); exact H0.
Qed.

Lemma prompt_le maxb ot i : blen (fst ot) <= maxb -> blen (fst (push_user_prompt maxb ot i)) <= maxb.
Proof.
  intros H. unfold push_user_prompt. destruct (forallb is_ws i); [exact H|].
  repeat apply out_push_le. exact H.
Qed.

Lemma prev_push_le mp p c : blen p <= mp -> blen (prev_push mp p c) <= mp.
Proof. apply push_bounded_le. Qed.

Lemma upd_tools_inv s k : all_tools_le (st_max_prev s) (st_tools s) -> all_tools_le (st_max_prev s) (upd_tools s k).
Proof.
  intros H. unfold upd_tools, all_tools_le in *.
  destruct k; try exact H;
    try (destruct (map_get id (st_tools s)) as [t|] eqn:Eg; [|exact H];
         destruct (map_get_Forall _ _ _ _ H Eg) as [k' [Ho He]]; cbn [snd] in *;
         apply map_put_Forall; [exact H|]; cbn [snd t_out t_err]; split;
         try assumption; apply prev_push_le; assumption).
  apply map_put_Forall; [exact H|]. cbn. unfold blen; cbn. lia.
Qed.

Lemma upd_tasks_inv s k : all_tasks_le (st_max_prev s) (st_tasks s) -> all_tasks_le (st_max_prev s) (upd_tasks s k).
Proof.
  intros H. unfold upd_tasks, all_tasks_le in *.
  destruct k; try exact H.
  - apply map_put_Forall; [exact H|]. cbn. unfold blen; cbn. lia.
  - destruct (map_get id (st_tasks s)) as [t|] eqn:Eg.
    + destruct (map_get_Forall _ _ _ _ H Eg) as [k' [Ho [He Hp]]]; cbn [snd] in *.
      apply map_put_Forall; [exact H|]. cbn. auto.
    + apply map_put_Forall; [exact H|]. cbn. unfold blen; cbn. lia.
  - destruct (map_get id (st_tasks s)) as [t|] eqn:Eg; [|exact H].
    destruct (map_get_Forall _ _ _ _ H Eg) as [k' [Ho [He Hp]]]; cbn [snd] in *.
    destruct (stream =? 0); [|destruct (stream =? 1)];
      (apply map_put_Forall; [exact H|]); cbn [snd k_out k_err k_pty];
      repeat split; try assumption; apply prev_push_le; assumption.
Qed.

Lemma update_inv s e : TuiInv s -> TuiInv (update s e).
Proof.
  intros [Hf [Ho [Ht Hk]]]. unfold TuiInv, update; cbn [st_frames st_output st_max_out st_max_prev st_tools st_tasks].
  split; [apply fs_push_inv, Hf|]. split.
  - destruct (ekd e); cbn [fst]; try exact Ho; [apply prompt_le | apply out_push_le]; exact Ho.
  - split; [apply upd_tools_inv, Ht | apply upd_tasks_inv, Hk].
Qed.

Lemma tui_new_inv m mo af : TuiInv (tui_new m mo af).
Proof.
  unfold TuiInv, tui_new; cbn. split; [apply fs_new_inv|].
  split; [unfold blen; cbn; lia|]. split; constructor.
Qed.

Lemma update_consts s e : st_max_out (update s e) = st_max_out s /\ st_max_prev (update s e) = st_max_prev s
  /\ maxf (st_frames (update s e)) = maxf (st_frames s).
Proof. unfold update; cbn. repeat split. apply fs_push_maxf. Qed.

Lemma run_inv evs s : TuiInv s ->
  TuiInv (fold_left update evs s) /\ st_max_out (fold_left update evs s) = st_max_out s
  /\ st_max_prev (fold_left update evs s) = st_max_prev s
  /\ maxf (st_frames (fold_left update evs s)) = maxf (st_frames s).
Proof.
  revert s; induction evs as [|e evs IH]; cbn [fold_left]; intros s H; [auto|].
  destruct (IH _ (update_inv s e H)) as [A [B [C D]]].
  destruct (update_consts s e) as [B' [C' D']]. rewrite B, C, D. auto.
Qed.

Theorem tui_bounds m mo af evs :
  let s := run_tui m mo af evs in
  (length (frames (st_frames s)) <= Nat.max m 1)%nat
  /\ blen (st_output s) <= N.max mo 1
  /\ all_tools_le 8192 (st_tools s) /\ all_tasks_le 8192 (st_tasks s).
Proof.
  unfold run_tui.
  destruct (run_inv evs _ (tui_new_inv m mo af)) as [[[_ Hf] [Ho [Ht Hk]]] [B [C D]]].
  rewrite B in Ho. rewrite C in Ht, Hk. rewrite D in Hf. cbn in *. auto.
Qed.

(* ---------- the id-keyed maps: one entry per distinct id seen, bounded previews per entry ---------- *)
Definition keys {V} (m : list (N * V)) : list N := map fst m.

Definition tool_ids_of (k : ekind) : list N := match k with KToolStarted id => [id] | _ => [] end.
Definition task_ids_of (k : ekind) : list N :=
  match k with KTaskSpawned id _ => [id] | KTaskStatus id _ _ => [id] | _ => [] end.
Definition job_ids_of (k : ekind) : list N :=
  match k with KJobSpawned id => [id] | KJobEnded id => [id] | _ => [] end.
(* artifact ids a frame carries *)
Definition art_ids_of (k : ekind) : list N :=
  match k with
  | KToolEnded _ a => a | KTaskSpawned _ a => a | KTaskStatus _ _ a => a | KTaskDelta _ _ _ a => a
  | KContextCompiled x => [x] | KCkptCreated x => [x] | KOrRequest x => [x]
  | _ => []
  end.
(* the ids for which a frame that creates an entry was seen *)
Definition tool_ids (evs : list ev) : list N := flat_map (fun e => tool_ids_of (ekd e)) evs.
Definition task_ids (evs : list ev) : list N := flat_map (fun e => task_ids_of (ekd e)) evs.
Definition job_ids (evs : list ev) : list N := flat_map (fun e => job_ids_of (ekd e)) evs.
Definition art_ids (evs : list ev) : list N := flat_map (fun e => art_ids_of (ekd e)) evs.
Definition distinct (l : list N) : N := nlen (nodup N.eq_dec l).

Lemma map_put_keys {V} k (v : V) m :
  StronglySorted N.lt (keys m) ->
  StronglySorted N.lt (keys (map_put k v m))
  /\ (forall x, In x (keys (map_put k v m)) <-> x = k \/ In x (keys m)).
Proof.
  unfold keys. induction m as [|[k' v'] r IH]; cbn [map_put map fst]; intros Hs.
  - split; [repeat constructor|]. intros x; cbn; intuition.
  - apply StronglySorted_inv in Hs. destruct Hs as [Hr Hall]. specialize (IH Hr). destruct IH as [IHs IHi].
    destruct (k <? k') eqn:E1; cbn [map fst].
    + split.
      * constructor; [constructor; assumption|]. constructor; [lia|].
        eapply Forall_impl; [|exact Hall]. cbn. intros a Ha. lia.
      * intros x; cbn; intuition.
    + destruct (k =? k') eqn:E2; cbn [map fst].
      * apply N.eqb_eq in E2. subst k'. split; [constructor; assumption|]. intros x; cbn; intuition.
      * split.
        -- constructor; [exact IHs|]. apply Forall_forall. intros x Hx. apply IHi in Hx.
           destruct Hx as [->|Hx]; [lia|]. rewrite Forall_forall in Hall. apply Hall, Hx.
        -- intros x; cbn. rewrite IHi. intuition.
Qed.

Lemma map_get_in_keys {V} k (v : V) m : map_get k m = Some v -> In k (keys m).
Proof.
  unfold keys. induction m as [|[k' v'] r IH]; cbn [map_get map fst]; [discriminate|].
  destruct (k =? k') eqn:E; [apply N.eqb_eq in E; subst; intros _; left; reflexivity | intros H; right; auto].
Qed.

Lemma ssorted_nodup l : StronglySorted N.lt l -> NoDup l.
Proof.
  induction 1 as [|x r Hs IH Hall]; constructor; [|exact IH].
  intros Hin. rewrite Forall_forall in Hall. specialize (Hall _ Hin). lia.
Qed.

(* a put either replaces the entry of a key that is already there or adds the key *)
Lemma put_existing_keys {V} k (v w : V) m x :
  StronglySorted N.lt (keys m) -> map_get k m = Some w ->
  In x (keys (map_put k v m)) -> In x (keys m).
Proof.
  intros Hs Hg Hx. apply (proj2 (map_put_keys k v m Hs)) in Hx.
  destruct Hx as [->|Hx]; [eapply map_get_in_keys, Hg | exact Hx].
Qed.

Definition KInv {V} (m : list (N * V)) (ids : list N) : Prop :=
  StronglySorted N.lt (keys m) /\ incl (keys m) ids.

Lemma KInv_put_new {V} k (v : V) m ids : KInv m ids -> KInv (map_put k v m) (ids ++ [k]).
Proof.
  intros [Hs Hi]. destruct (map_put_keys k v m Hs) as [Hs' Hk]. split; [exact Hs'|].
  intros x Hx. apply Hk in Hx. apply in_or_app. destruct Hx as [->|Hx]; [right; left; reflexivity | left; apply Hi, Hx].
Qed.
Lemma KInv_put_existing {V} k (v w : V) m ids extra :
  KInv m ids -> map_get k m = Some w -> KInv (map_put k v m) (ids ++ extra).
Proof.
  intros [Hs Hi] Hg. split; [apply map_put_keys, Hs|].
  intros x Hx. apply in_or_app. left. apply Hi. eapply put_existing_keys; eauto.
Qed.
Lemma KInv_weaken {V} (m : list (N * V)) ids extra : KInv m ids -> KInv m (ids ++ extra).
Proof. intros [Hs Hi]. split; [exact Hs|]. intros x Hx. apply in_or_app. left. apply Hi, Hx. Qed.

Lemma upd_tools_keys s k ids :
  KInv (st_tools s) ids -> KInv (upd_tools s k) (ids ++ tool_ids_of k).
Proof.
  intros H. unfold upd_tools.
  destruct k; cbn [tool_ids_of]; try (apply KInv_weaken; exact H);
    try (destruct (map_get id (st_tools s)) as [t|] eqn:Eg; [eapply KInv_put_existing; eauto | apply KInv_weaken; exact H]).
  apply KInv_put_new, H.
Qed.

Lemma upd_tasks_keys s k ids :
  KInv (st_tasks s) ids -> KInv (upd_tasks s k) (ids ++ task_ids_of k).
Proof.
  intros H. unfold upd_tasks.
  destruct k; cbn [task_ids_of]; try (apply KInv_weaken; exact H).
  - apply KInv_put_new, H.
  - destruct (map_get id (st_tasks s)) as [t|] eqn:Eg; apply KInv_put_new, H.
  - destruct (map_get id (st_tasks s)) as [t|] eqn:Eg; [|apply KInv_weaken; exact H].
    destruct (stream =? 0); [|destruct (stream =? 1)]; eapply KInv_put_existing; eauto.
Qed.

Lemma upd_jobs_keys s k ids :
  KInv (st_jobs s) ids -> KInv (upd_jobs s k) (ids ++ job_ids_of k).
Proof.
  intros H. unfold upd_jobs.
  destruct k; cbn [job_ids_of]; try (apply KInv_weaken; exact H); apply KInv_put_new, H.
Qed.

Lemma set_add_all_keys xs : forall (m : idset) ids, KInv m ids -> KInv (set_add_all xs m) (ids ++ xs).
Proof.
  unfold set_add_all. induction xs as [|x xs IH]; intros m ids H; cbn [fold_left]; [rewrite app_nil_r; exact H|].
  replace (ids ++ x :: xs) with ((ids ++ [x]) ++ xs) by (rewrite <- app_assoc; reflexivity).
  apply IH, KInv_put_new, H.
Qed.

Lemma upd_artifacts_keys s k ids :
  KInv (st_artifacts s) ids -> KInv (upd_artifacts s k) (ids ++ art_ids_of k).
Proof.
  intros H. unfold upd_artifacts.
  destruct k; cbn [art_ids_of]; try (apply KInv_weaken; exact H); try (apply KInv_put_new, H);
    try (apply set_add_all_keys, H).
  - destruct (map_get id (st_tools s)); [apply set_add_all_keys, H | apply KInv_weaken, H].
  - destruct (map_get id (st_tasks s)); [apply set_add_all_keys, H | apply KInv_weaken, H].
Qed.

Definition MapsInv (s : tui) (seen : list ev) : Prop :=
  KInv (st_tools s) (tool_ids seen) /\ KInv (st_tasks s) (task_ids seen) /\ KInv (st_jobs s) (job_ids seen)
  /\ KInv (st_artifacts s) (art_ids seen).

Lemma update_maps s e seen : MapsInv s seen -> MapsInv (update s e) (seen ++ [e]).
Proof.
  intros [Ht [Hk [Hj Ha]]]. unfold MapsInv, tool_ids, task_ids, job_ids, art_ids.
  rewrite !flat_map_app. cbn [flat_map]. rewrite !app_nil_r.
  unfold update; cbn [st_tools st_tasks st_jobs st_artifacts].
  split; [apply upd_tools_keys, Ht|]. split; [apply upd_tasks_keys, Hk |].
  split; [apply upd_jobs_keys, Hj | apply upd_artifacts_keys, Ha].
Qed.

Lemma run_maps evs s seen : MapsInv s seen -> MapsInv (fold_left update evs s) (seen ++ evs).
Proof.
  revert s seen; induction evs as [|e evs IH]; cbn [fold_left]; intros s seen H; [rewrite app_nil_r; exact H|].
  replace (seen ++ e :: evs) with ((seen ++ [e]) ++ evs) by (rewrite <- app_assoc; reflexivity).
  apply IH, update_maps, H.
Qed.

Lemma KInv_count {V} (m : list (N * V)) ids : KInv m ids -> NoDup (keys m) /\ nlen m <= distinct ids.
Proof.
  intros [Hs Hi]. pose proof (ssorted_nodup _ Hs) as Hn. split; [exact Hn|].
  unfold distinct, nlen.
  assert (length (keys m) <= length (nodup N.eq_dec ids))%nat.
  { apply NoDup_incl_length; [exact Hn|]. intros x Hx. apply nodup_In, Hi, Hx. }
  unfold keys in H. rewrite map_length in H. lia.
Qed.

(* bytes held by the previews of the maps *)
Definition tool_bytes (t : tool) : N := blen (t_out t) + blen (t_err t).
Definition task_bytes (t : task) : N := blen (k_out t) + blen (k_err t) + blen (k_pty t).
Definition tools_bytes (m : list (N * tool)) : N := sumN (map (fun kt => tool_bytes (snd kt)) m).
Definition tasks_bytes (m : list (N * task)) : N := sumN (map (fun kt => task_bytes (snd kt)) m).

Lemma tools_bytes_le mp m : all_tools_le mp m -> tools_bytes m <= 2 * mp * nlen m.
Proof.
  unfold all_tools_le, tools_bytes. induction 1 as [|kt r [H1 H2] Hr IH]; cbn [map sumN]; [unfold nlen; cbn; lia|].
  rewrite nlen_cons_tui. unfold tool_bytes in *. rewrite N.mul_add_distr_l.
  set (p := 2 * mp * nlen r) in *. clearbody p. lia.
Qed.
Lemma tasks_bytes_le mp m : all_tasks_le mp m -> tasks_bytes m <= 3 * mp * nlen m.
Proof.
  unfold all_tasks_le, tasks_bytes. induction 1 as [|kt r [H1 [H2 H3]] Hr IH]; cbn [map sumN]; [unfold nlen; cbn; lia|].
  rewrite nlen_cons_tui. unfold task_bytes in *. rewrite N.mul_add_distr_l.
  set (p := 3 * mp * nlen r) in *. clearbody p. lia.
Qed.

(* everything the state holds that grows with the stream, in bytes of text *)
Definition held_bytes (s : tui) : N := blen (st_output s) + tools_bytes (st_tools s) + tasks_bytes (st_tasks s).

(* The tool / task / job maps are unbounded by design (one entry per id); the bound that does hold: at most one
   entry per DISTINCT id for which a creating frame was seen, every entry's previews within max_preview, hence the
   text held is bounded by the output cap plus 8192 bytes per preview slot of the distinct ids. *)
Theorem tui_maps_bounded m mo af evs :
  let s := run_tui m mo af evs in
  (nlen (st_tools s) <= distinct (tool_ids evs) /\ NoDup (keys (st_tools s)))
  /\ (nlen (st_tasks s) <= distinct (task_ids evs) /\ NoDup (keys (st_tasks s)))
  /\ (nlen (st_jobs s) <= distinct (job_ids evs) /\ NoDup (keys (st_jobs s)))
  /\ (nlen (st_artifacts s) <= distinct (art_ids evs) /\ NoDup (keys (st_artifacts s)))
  /\ held_bytes s <= N.max mo 1 + 8192 * (2 * distinct (tool_ids evs) + 3 * distinct (task_ids evs)).
Proof.
  cbv zeta. unfold run_tui.
  assert (H0 : MapsInv (tui_new m mo af) []) by (unfold MapsInv, KInv, tui_new; cbn; repeat split; try constructor; intros x []).
  pose proof (run_maps evs _ _ H0) as [Ht [Hk [Hj Ha]]]. cbn [app] in *.
  destruct (KInv_count _ _ Ha) as [Na Ca].
  destruct (KInv_count _ _ Ht) as [Nt Ct]. destruct (KInv_count _ _ Hk) as [Nk Ck]. destruct (KInv_count _ _ Hj) as [Nj Cj].
  pose proof (tui_bounds m mo af evs) as Hb. cbv zeta in Hb. unfold run_tui in Hb.
  destruct Hb as [_ [Ho [Hto Hta]]].
  repeat split; try assumption.
  unfold held_bytes. pose proof (tools_bytes_le _ _ Hto) as B1. pose proof (tasks_bytes_le _ _ Hta) as B2.
  set (nt := nlen (st_tools _)) in *. set (nk := nlen (st_tasks _)) in *.
  set (dt := distinct (tool_ids evs)) in *. set (dk := distinct (task_ids evs)) in *.
  assert (2 * 8192 * nt <= 2 * 8192 * dt) by (apply N.mul_le_mono_l; exact Ct).
  assert (3 * 8192 * nk <= 3 * 8192 * dk) by (apply N.mul_le_mono_l; exact Ck).
  lia.
Qed.

(* the count bound is tight and the maps really are unbounded in the number of ids *)
Definition started (i : nat) : ev := {| eseq := 0; ets := 0; ekd := KToolStarted (N.of_nat i); eident := 0 |}.
Definition fresh_tool : tool := {| t_out := []; t_err := []; t_status := 0; t_arts := [] |}.
Lemma st_tools_started s i : st_tools (update s (started i)) = map_put (N.of_nat i) fresh_tool (st_tools s).
Proof. reflexivity. Qed.
Lemma map_put_above_len k (m : list (N * tool)) :
  (forall x, In x (keys m) -> x < k) -> length (map_put k fresh_tool m) = S (length m).
Proof.
  induction m as [|[k' v'] r IHm]; intros Hm; cbn [map_put length]; [reflexivity|].
  assert (k' < k) by (apply Hm; left; reflexivity).
  destruct (k <? k') eqn:E1; [lia|]. destruct (k =? k') eqn:E2; [lia|].
  cbn [length]. rewrite IHm; [reflexivity|]. intros x Hx. apply Hm. right. exact Hx.
Qed.
Lemma starts_grow n : forall k (s : tui),
  (forall x, In x (keys (st_tools s)) -> x < N.of_nat k) -> StronglySorted N.lt (keys (st_tools s)) ->
  length (st_tools (fold_left update (map started (seq k n)) s)) = (length (st_tools s) + n)%nat.
Proof.
  induction n as [|n IH]; intros k s Hlt Hs; cbn [seq map fold_left]; [lia|].
  rewrite (IH (S k)).
  - rewrite st_tools_started, map_put_above_len by exact Hlt. lia.
  - intros x Hx. rewrite st_tools_started in Hx.
    apply (proj2 (map_put_keys _ _ _ Hs)) in Hx. destruct Hx as [->|Hx]; [lia|]. specialize (Hlt _ Hx). lia.
  - rewrite st_tools_started. apply map_put_keys, Hs.
Qed.
Lemma tui_maps_grow_with_ids :
  forall n : nat, exists evs, length (st_tools (run_tui 1 1 true evs)) = n.
Proof.
  intros n. exists (map started (seq 0 n)). unfold run_tui.
  rewrite starts_grow; cbn; try constructor. intros x [].
Qed.

(* selected_event never shows a frame other than the selected seq *)
Theorem selected_event_sound s f :
  selected_event s = Some f -> st_selected s = Some (fseq f).
Proof.
  unfold selected_event. destruct (st_selected s) as [q|]; [|discriminate].
  intros H. apply lookup_sound in H. destruct H as [H _]. congruence.
Qed.

(* non-vacuity: a reachable state with gaps, repeats, eviction and truncation *)
Definition demo_evs : list ev :=
  [ {| eseq := 7; ets := 1; ekd := KSessionStarted [104; 105]; eident := 0 |};
    {| eseq := 7; ets := 2; ekd := KOutputDelta [8364; 8364; 8364; 8364; 8364]; eident := 1 |};
    {| eseq := 3; ets := 3; ekd := KToolStarted 1; eident := 2 |};
    {| eseq := 100; ets := 4; ekd := KToolStdout 1 [120]; eident := 3 |} ].

Example demo_state_nontrivial :
  let s := run_tui 3 10 true demo_evs in
  length (frames (st_frames s)) = 3%nat /\ st_truncated s = true /\ st_output s = [8364]
  /\ fs_get_by_seq (st_frames s) 8 = None /\ fs_get_by_seq_unchecked (st_frames s) 8 <> None.
Proof. vm_compute. repeat split; discriminate. Qed.
