(* C20 — proofs about Model/Tui.v *)
From RipV Require Import Base.Prelude Model.Tui.

(* ---------- frame window bound ---------- *)
Lemma tl_length {A} (l : list A) : length (tl l) = (length l - 1)%nat.
Proof. destruct l; cbn; lia. Qed.

Lemma fs_push_maxf s f : maxf (fs_push s f) = maxf s.
Proof. unfold fs_push. destruct (Nat.leb _ _); reflexivity. Qed.

Lemma fs_push_len s f :
  (1 <= maxf s)%nat -> (length (frames s) <= maxf s)%nat ->
  (length (frames (fs_push s f)) <= maxf s)%nat.
Proof.
  intros Hm Hl. unfold fs_push.
  destruct (Nat.leb (maxf s) (length (frames s))) eqn:E; cbn [frames];
    rewrite app_length, ?tl_length; cbn [length]; lia.
Qed.

Definition FsInv (s : fstore) : Prop := (1 <= maxf s)%nat /\ (length (frames s) <= maxf s)%nat.

Lemma fs_new_inv m : FsInv (fs_new m).
Proof. unfold FsInv, fs_new; cbn. lia. Qed.

Lemma fs_push_inv s f : FsInv s -> FsInv (fs_push s f).
Proof. intros [H1 H2]. split; rewrite fs_push_maxf; [exact H1 | apply fs_push_len; assumption]. Qed.

Lemma fs_pushes_inv fs s : FsInv s -> FsInv (fold_left fs_push fs s).
Proof. revert s; induction fs as [|f fs IH]; cbn [fold_left]; intros s H; [exact H|]. apply IH, fs_push_inv, H. Qed.

Lemma fs_pushes_maxf fs s : maxf (fold_left fs_push fs s) = maxf s.
Proof. revert s; induction fs as [|f fs IH]; cbn [fold_left]; intros s; [reflexivity|]. rewrite IH. apply fs_push_maxf. Qed.

Theorem frames_bounded m fs :
  (length (frames (fold_left fs_push fs (fs_new m))) <= Nat.max m 1)%nat.
Proof.
  pose proof (fs_pushes_inv fs (fs_new m) (fs_new_inv m)) as [_ H].
  rewrite fs_pushes_maxf in H. exact H.
Qed.

(* ---------- lookup soundness ---------- *)
Theorem lookup_sound s q f :
  fs_get_by_seq s q = Some f -> fseq f = q /\ In f (frames s).
Proof.
  unfold fs_get_by_seq. destruct (fs_index_of_seq s q) as [i|]; [|discriminate].
  destruct (nth_error (frames s) i) as [g|] eqn:En; [|discriminate].
  destruct (fseq g =? q) eqn:Eq; [|discriminate].
  intros H; inversion H; subst g. split; [apply N.eqb_eq, Eq | eapply nth_error_In, En].
Qed.

(* the unrepaired lookup returns a different frame on a reachable store (S14) *)
Definition s14_store : fstore :=
  fold_left fs_push [ {| fseq := 0; fid := 100 |}; {| fseq := 5; fid := 105 |} ] (fs_new 10).

Lemma lookup_unchecked_refuted :
  exists fs m q f, fs_get_by_seq_unchecked (fold_left fs_push fs (fs_new m)) q = Some f /\ fseq f <> q.
Proof.
  exists [ {| fseq := 0; fid := 100 |}; {| fseq := 5; fid := 105 |} ], 10%nat, 1, {| fseq := 5; fid := 105 |}.
  split; [vm_compute; reflexivity | cbn; lia].
Qed.

(* completeness on consecutive streams: frames carry base, base+1, ... *)
Fixpoint consec (b : N) (l : list frame) : Prop :=
  match l with [] => True | f :: r => fseq f = b /\ consec (b + 1) r end.

Definition Consec (s : fstore) : Prop := consec (base s) (frames s).

Lemma consec_app b l f :
  consec b l -> fseq f = b + nlen l -> consec b (l ++ [f]).
Proof.
  revert b; induction l as [|g l IH]; intros b H Hf; cbn [consec app] in *.
  - unfold nlen in Hf; cbn in Hf. split; [lia | exact I].
  - destruct H as [Hg Hr]. split; [exact Hg|]. apply IH; [exact Hr|].
    unfold nlen in *; cbn [length] in Hf. lia.
Qed.

Lemma consec_nth b l i f :
  consec b l -> nth_error l i = Some f -> fseq f = b + N.of_nat i.
Proof.
  revert b i; induction l as [|g l IH]; intros b i H Hn; [destruct i; discriminate|].
  destruct H as [Hg Hr]. destruct i as [|i]; cbn [nth_error] in Hn.
  - inversion Hn; subst; lia.
  - rewrite (IH _ _ Hr Hn). lia.
Qed.

Lemma consec_tl b g l : consec b (g :: l) -> consec (b + 1) l.
Proof. intros [_ H]; exact H. Qed.

Theorem push_consec s f :
  Consec s -> (1 <= maxf s)%nat ->
  (frames s = [] \/ fseq f = base s + nlen (frames s)) -> base s + nlen (frames s) < U64MAX ->
  Consec (fs_push s f).
Proof.
  unfold Consec, fs_push. intros Hc Hm Hf Hov.
  destruct (frames s) as [|g l] eqn:Efr.
  - destruct (Nat.leb (maxf s) (length (@nil frame))) eqn:E; [apply Nat.leb_le in E; cbn in E; lia|].
    cbn [base frames app consec]. split; [reflexivity | exact I].
  - destruct Hf as [Hf|Hf]; [discriminate|].
    destruct (Nat.leb (maxf s) (length (g :: l))) eqn:E; cbn [base frames tl].
    + unfold sat_add64. rewrite N.min_l by (unfold nlen in Hov; cbn [length] in Hov; lia).
      apply consec_app; [eapply consec_tl, Hc|].
      unfold nlen in *; cbn [length] in Hf. lia.
    + apply consec_app; [exact Hc | exact Hf].
Qed.

Theorem lookup_complete_consecutive s i f :
  Consec s -> nth_error (frames s) i = Some f ->
  fs_get_by_seq s (fseq f) = Some f.
Proof.
  unfold Consec. intros Hc Hn.
  pose proof (consec_nth _ _ _ _ Hc Hn) as Hs.
  assert (Hi : (i < length (frames s))%nat) by (apply nth_error_Some; congruence).
  unfold fs_get_by_seq, fs_index_of_seq.
  destruct (frames s) as [|g l] eqn:Efr; [destruct i; discriminate|].
  rewrite <- Efr in *.
  destruct (fseq f <? base s) eqn:E1; [lia|].
  destruct (nlen (frames s) <=? fseq f - base s) eqn:E2; [unfold nlen in E2; lia|].
  replace (N.to_nat (fseq f - base s)) with i by lia.
  rewrite Hn, N.eqb_refl. reflexivity.
Qed.

(* ---------- bounded text ---------- *)
Lemma blen_app a b : blen (a ++ b) = blen a + blen b.
Proof. unfold blen. rewrite map_app, sumN_app. reflexivity. Qed.

Lemma cpw_pos c : 1 <= cpw c <= 4.
Proof. unfold cpw. destruct (c <? 128), (c <? 2048), (c <? 65536); lia. Qed.

(* the cut is a suffix that starts on a character boundary at or after the requested offset *)
Lemma drop_to_suffix k s :
  exists pre, s = pre ++ drop_to k s /\ (k <= blen s -> k <= blen pre) /\ (blen s < k -> drop_to k s = []).
Proof.
  revert k; induction s as [|c r IH]; intros k; cbn [drop_to].
  - exists []. cbn. repeat split; auto; unfold blen; cbn; lia.
  - destruct (k =? 0) eqn:E.
    + apply N.eqb_eq in E; subst k. exists []. cbn [app]. split; [reflexivity|].
      split; intros H; [unfold blen; cbn; lia | lia].
    + destruct (IH (k - cpw c)) as [pre [Hs [Hk Hlt]]].
      exists (c :: pre). cbn [app]. split; [f_equal; exact Hs|].
      unfold blen in *; cbn [map sumN]. pose proof (cpw_pos c) as Hw. split; intros Hle; [|apply Hlt; lia].
      destruct (N.le_gt_cases (cpw c) k) as [Hck|Hck].
      * assert (Hr : k - cpw c <= sumN (map cpw r)) by lia. specialize (Hk Hr). lia.
      * lia.
Qed.

Lemma drop_to_blen k s : blen (drop_to k s) <= blen s - k.
Proof.
  destruct (drop_to_suffix k s) as [pre [Hs [Hk Hlt]]].
  destruct (N.le_gt_cases k (blen s)) as [H|H].
  - specialize (Hk H). rewrite Hs at 2. rewrite blen_app. lia.
  - rewrite (Hlt H). unfold blen; cbn. lia.
Qed.

Theorem push_bounded_le maxb t c :
  blen t <= maxb -> blen (fst (push_bounded maxb t c)) <= maxb.
Proof.
  intros H. unfold push_bounded. destruct c as [|x c]; [exact H|].
  set (t' := t ++ x :: c).
  destruct (blen t' <=? maxb) eqn:E; cbn [fst]; [lia|].
  pose proof (drop_to_blen (blen t' - maxb / 2) t'). lia.
Qed.

(* the truncated text is always a suffix of (old ++ chunk): nothing is invented or reordered,
   and the Rust slice `s[start..]` is taken at a character boundary (it cannot panic) *)
Theorem push_bounded_suffix maxb t c :
  exists pre, t ++ c = pre ++ fst (push_bounded maxb t c).
Proof.
  unfold push_bounded. destruct c as [|x c].
  - exists []. cbn [fst app]. apply app_nil_r.
  - destruct (blen (t ++ x :: c) <=? maxb); cbn [fst].
    + exists []. reflexivity.
    + destruct (drop_to_suffix (blen (t ++ x :: c) - maxb / 2) (t ++ x :: c)) as [pre [Hs _]].
      exists pre. exact Hs.
Qed.

(* ---------- state invariant over the whole fold ---------- *)
Definition all_tools_le (mp : N) (m : list (N * tool)) : Prop :=
  Forall (fun kt => blen (t_out (snd kt)) <= mp /\ blen (t_err (snd kt)) <= mp) m.
Definition all_tasks_le (mp : N) (m : list (N * task)) : Prop :=
  Forall (fun kt => blen (k_out (snd kt)) <= mp /\ blen (k_err (snd kt)) <= mp /\ blen (k_pty (snd kt)) <= mp) m.

Definition TuiInv (s : tui) : Prop :=
  FsInv (st_frames s) /\ blen (st_output s) <= st_max_out s
  /\ all_tools_le (st_max_prev s) (st_tools s) /\ all_tasks_le (st_max_prev s) (st_tasks s).

Lemma map_put_Forall {V} (P : N * V -> Prop) k v m :
  Forall P m -> P (k, v) -> Forall P (map_put k v m).
Proof.
  intros Hm Hv. induction m as [|[k' v'] r IH]; cbn [map_put]; [constructor; auto|].
  inversion Hm; subst.
  destruct (k <? k'); [constructor; auto|].
  destruct (k =? k'); constructor; auto.
Qed.

Lemma map_get_Forall {V} (P : N * V -> Prop) k v m :
  Forall P m -> map_get k m = Some v -> exists k', P (k', v).
Proof.
  intros Hm. induction m as [|[k' v'] r IH]; cbn [map_get]; [discriminate|].
  inversion Hm; subst. destruct (k =? k'); [intros E; inversion E; subst; eauto | auto].
Qed.

Lemma out_push_le maxb ot d : blen (fst ot) <= maxb -> blen (fst (out_push maxb ot d)) <= maxb.
Proof.
  intros H. unfold out_push. pose proof (push_bounded_le maxb (fst ot) d H).
  destruct (push_bounded maxb (fst ot) d); exact H0.
Qed.

Lemma prompt_le maxb ot i : blen (fst ot) <= maxb -> blen (fst (push_user_prompt maxb ot i)) <= maxb.
Proof.
  intros H. unfold push_user_prompt. destruct (forallb is_ws i); [exact H|].
  repeat apply out_push_le. exact H.
Qed.

Lemma prev_push_le mp p c : blen p <= mp -> blen (prev_push mp p c) <= mp.
Proof. apply push_bounded_le. Qed.

Lemma upd_tools_inv s k : all_tools_le (st_max_prev s) (st_tools s) -> all_tools_le (st_max_prev s) (upd_tools s k).
Proof.
  intros H. unfold upd_tools, all_tools_le in *.
  destruct k; try exact H;
    try (destruct (map_get id (st_tools s)) as [t|] eqn:Eg; [|exact H];
         destruct (map_get_Forall _ _ _ _ H Eg) as [k' [Ho He]]; cbn [snd] in *;
         apply map_put_Forall; [exact H|]; cbn [snd t_out t_err]; split;
         try assumption; apply prev_push_le; assumption).
  apply map_put_Forall; [exact H|]. cbn. unfold blen; cbn. lia.
Qed.

Lemma upd_tasks_inv s k : all_tasks_le (st_max_prev s) (st_tasks s) -> all_tasks_le (st_max_prev s) (upd_tasks s k).
Proof.
  intros H. unfold upd_tasks, all_tasks_le in *.
  destruct k; try exact H.
  - apply map_put_Forall; [exact H|]. cbn. unfold blen; cbn. lia.
  - destruct (map_get id (st_tasks s)) as [t|] eqn:Eg.
    + destruct (map_get_Forall _ _ _ _ H Eg) as [k' [Ho [He Hp]]]; cbn [snd] in *.
      apply map_put_Forall; [exact H|]. cbn. auto.
    + apply map_put_Forall; [exact H|]. cbn. unfold blen; cbn. lia.
  - destruct (map_get id (st_tasks s)) as [t|] eqn:Eg; [|exact H].
    destruct (map_get_Forall _ _ _ _ H Eg) as [k' [Ho [He Hp]]]; cbn [snd] in *.
    destruct (stream =? 0); [|destruct (stream =? 1)];
      (apply map_put_Forall; [exact H|]); cbn [snd k_out k_err k_pty];
      repeat split; try assumption; apply prev_push_le; assumption.
Qed.

Lemma update_inv s e : TuiInv s -> TuiInv (update s e).
Proof.
  intros [Hf [Ho [Ht Hk]]]. unfold TuiInv, update; cbn [st_frames st_output st_max_out st_max_prev st_tools st_tasks].
  split; [apply fs_push_inv, Hf|]. split.
  - destruct (ekd e); cbn [fst]; try exact Ho; [apply prompt_le | apply out_push_le]; exact Ho.
  - split; [apply upd_tools_inv, Ht | apply upd_tasks_inv, Hk].
Qed.

Lemma tui_new_inv m mo af : TuiInv (tui_new m mo af).
Proof.
  unfold TuiInv, tui_new; cbn. split; [apply fs_new_inv|].
  split; [unfold blen; cbn; lia|]. split; constructor.
Qed.

Lemma update_consts s e : st_max_out (update s e) = st_max_out s /\ st_max_prev (update s e) = st_max_prev s
  /\ maxf (st_frames (update s e)) = maxf (st_frames s).
Proof. unfold update; cbn. repeat split. apply fs_push_maxf. Qed.

Lemma run_inv evs s : TuiInv s ->
  TuiInv (fold_left update evs s) /\ st_max_out (fold_left update evs s) = st_max_out s
  /\ st_max_prev (fold_left update evs s) = st_max_prev s
  /\ maxf (st_frames (fold_left update evs s)) = maxf (st_frames s).
Proof.
  revert s; induction evs as [|e evs IH]; cbn [fold_left]; intros s H; [auto|].
  destruct (IH _ (update_inv s e H)) as [A [B [C D]]].
  destruct (update_consts s e) as [B' [C' D']]. rewrite B, C, D. auto.
Qed.

Theorem tui_bounds m mo af evs :
  let s := run_tui m mo af evs in
  (length (frames (st_frames s)) <= Nat.max m 1)%nat
  /\ blen (st_output s) <= N.max mo 1
  /\ all_tools_le 8192 (st_tools s) /\ all_tasks_le 8192 (st_tasks s).
Proof.
  unfold run_tui.
  destruct (run_inv evs _ (tui_new_inv m mo af)) as [[[_ Hf] [Ho [Ht Hk]]] [B [C D]]].
  rewrite B in Ho. rewrite C in Ht, Hk. rewrite D in Hf. cbn in *. auto.
Qed.

(* selected_event never shows a frame other than the selected seq *)
Theorem selected_event_sound s f :
  selected_event s = Some f -> st_selected s = Some (fseq f).
Proof.
  unfold selected_event. destruct (st_selected s) as [q|]; [|discriminate].
  intros H. apply lookup_sound in H. destruct H as [H _]. congruence.
Qed.

(* non-vacuity: a reachable state with gaps, repeats, eviction and truncation *)
Definition demo_evs : list ev :=
  [ {| eseq := 7; ets := 1; ekd := KSessionStarted [104; 105]; eident := 0 |};
    {| eseq := 7; ets := 2; ekd := KOutputDelta [8364; 8364; 8364; 8364; 8364]; eident := 1 |};
    {| eseq := 3; ets := 3; ekd := KToolStarted 1; eident := 2 |};
    {| eseq := 100; ets := 4; ekd := KToolStdout 1 [120]; eident := 3 |} ].

Example demo_state_nontrivial :
  let s := run_tui 3 10 true demo_evs in
  length (frames (st_frames s)) = 3%nat /\ st_truncated s = true /\ st_output s = [8364]
  /\ fs_get_by_seq (st_frames s) 8 = None /\ fs_get_by_seq_unchecked (st_frames s) 8 <> None.
Proof. vm_compute. repeat split; discriminate. Qed.
