(* C05 — the theorems over the code version read from the source (Gen/CrashEffects.v, tie T1). *)
From RipV Require Import Base.Prelude Model.CrashCold Model.Crash Proofs.CrashProofs Proofs.CrashCacheProofs Proofs.CrashColdProofs Gen.CrashEffects.

Lemma ver_eqb_eq a b : ver_eqb a b = true -> a = b.
Proof.
  destruct a as [a1 a2 a3], b as [b1 b2 b3]. unfold ver_eqb. cbn [fw fr ff]. intros H.
  apply andb_true_iff in H. destruct H as [H H3]. apply andb_true_iff in H. destruct H as [H1 H2].
  apply Bool.eqb_prop in H1, H2, H3. subst. reflexivity.
Qed.

(* the theorems hold for EVERY code version that passes the generated check, in particular for the one read
   from the source in this run *)
Theorem recover_valid_ver v hist k base more : ver_eqb v fixed = true ->
  env_runb v init 0 hist = true -> nlen hist <= base ->
  env_runb v (crash v k hist) base more = true ->
  exists fs, replay_validated (run_ops v (crash v k hist) base more) = Some fs
             /\ Numbered fs
             /\ truth (run_ops v (crash v k hist) base more) = enc fs
             /\ (forall fid, In fid (acks (crash v k hist)) \/ In fid (acks (run_ops v (crash v k hist) base more)) ->
                             cfid fid fs = 1)
             /\ (forall c evs, try_replay (run_ops v (crash v k hist) base more) c = Some evs ->
                               exists rest, stream (2 * c) fs = evs ++ rest).
Proof.
  intros Hv. apply ver_eqb_eq in Hv. subst v. intros Hh Hb Hm.
  destruct (recover_valid hist k base more Hh Hb Hm) as (fs & R & Hn & Ht).
  exists fs. repeat split; auto.
  - destruct (acked_exactly_once hist k base more Hh Hb Hm) as (fs' & R' & Ha). rewrite R in R'. injection R' as <-. exact Ha.
  - intros c evs Htr. destruct (caches_after_crash hist k base more c evs Hh Hb Hm Htr) as (fs' & rest & R' & E).
    rewrite R in R'. injection R' as <-. exists rest. exact E.
Qed.

Theorem recover_valid_generated hist k base more :
  env_runb gen_ver init 0 hist = true -> nlen hist <= base ->
  env_runb gen_ver (crash gen_ver k hist) base more = true ->
  exists fs, replay_validated (run_ops gen_ver (crash gen_ver k hist) base more) = Some fs
             /\ Numbered fs
             /\ truth (run_ops gen_ver (crash gen_ver k hist) base more) = enc fs
             /\ (forall fid, In fid (acks (crash gen_ver k hist)) \/ In fid (acks (run_ops gen_ver (crash gen_ver k hist) base more)) ->
                             cfid fid fs = 1)
             /\ (forall c evs, try_replay (run_ops gen_ver (crash gen_ver k hist) base more) c = Some evs ->
                               exists rest, stream (2 * c) fs = evs ++ rest).
Proof. exact (recover_valid_ver gen_ver hist k base more gen_ver_ok). Qed.

Lemma effects_tied : gen_crash_effects_ok_b = true /\ gen_ver = fixed.
Proof. split; [exact gen_crash_effects_ok | exact (ver_eqb_eq _ _ gen_ver_ok)]. Qed.

(* the cold-start theorem over the per-writer sources read from the code (gen_cold_start: one entry per locked append) *)
Lemma cold_start_generated : forall es : list ev,
  (forall w, In w (writers es) -> (w < 11)%nat) ->
  numbered_b (c_log (CrashCold.run (srcs_of gen_cold_start) created es)) = true.
Proof.
  intros es Hw. pose proof gen_cold_start_ok as H. apply andb_true_iff in H. destruct H as [Hl Ha].
  apply Nat.eqb_eq in Hl. apply cold_start_numbered_gen; [exact Ha|]. rewrite Hl. exact Hw.
Qed.
