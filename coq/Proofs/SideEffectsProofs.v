(* C11 — the side-effects frame of a mutating tool call lists the files the call changed.
   Built on the theorems the workspace properties already have for the same models:
   C12 apply_patch_atomic / success_effects (Model/Patch.v), C14 write_tool_effect (Model/Checkpoint.v). *)
From RipV Require Import Base.Prelude Base.Fs Model.Paths Model.Checkpoint Model.Patch Model.SideEffects.
From RipV Require Import Proofs.FsProofs Proofs.PatchProofs Proofs.PatchAtomic Proofs.PatchEffects.
From RipV Require Proofs.PathsProofs Proofs.CheckpointProofs Proofs.AutoCoverProofs.
Open Scope N_scope.
Open Scope list_scope.

(* ---------- normalisation, sorting ---------- *)
Lemma normalize_rel_idem p : normalize_rel (normalize_rel p) = normalize_rel p.
Proof.
  unfold normalize_rel. rewrite map_map. apply map_ext. intros c.
  destruct (c =? 92) eqn:E; [reflexivity|rewrite E; reflexivity].
Qed.

Lemma norm_all_in l y : In y (norm_all l) <-> exists p, In p l /\ y = normalize_rel p.
Proof.
  unfold norm_all. rewrite sort_dedup_in, in_map_iff. split; intros [p [A B]]; exists p; auto.
Qed.

Lemma reported_both ops : reported MvBoth ops = changed_files ops.
Proof.
  unfold reported, changed_files, affected_paths. f_equal. f_equal.
  induction ops as [|o r IH]; cbn [flat_map]; [reflexivity|]. rewrite IH. f_equal.
  destruct o as [p c|p|p [q|] hs]; reflexivity.
Qed.

Lemma reported_in m ops y : In y (reported m ops) <-> exists o p, In o ops /\ In p (op_reported m o) /\ y = normalize_rel p.
Proof.
  unfold reported. rewrite sort_dedup_in, in_map_iff. split.
  - intros [p [E I]]. apply in_flat_map in I. destruct I as [o [Io Ip]]. exists o, p. auto.
  - intros [o [p [Io [Ip E]]]]. exists p. split; [auto|]. apply in_flat_map. exists o. auto.
Qed.

(* ---------- apply_patch: what a successful apply changes is named by an operation ---------- *)
Lemma obytes_dec (a b : option bytes) : {a = b} + {a <> b}.
Proof. decide equality. apply list_eq_dec. apply N.eq_dec. Qed.

Lemma upd_other m k v q : path_eqb k q = false -> upd m k v q = m q.
Proof. intros E. unfold upd. rewrite E. reflexivity. Qed.

Lemma op_effect_changed m m1 o q : op_effect m m1 o -> m1 q <> m q -> exists p, In p (op_paths o) /\ comps p = q.
Proof.
  destruct o as [p c|p|p [t|] hs]; cbn [op_effect op_paths].
  - intros [_ H] N. rewrite H in N. destruct (path_eqb (comps p) q) eqn:E.
    + apply path_eqb_eq in E. exists p. split; [left; reflexivity|exact E].
    + rewrite upd_other in N by exact E. congruence.
  - intros [_ H] N. rewrite H in N. destruct (path_eqb (comps p) q) eqn:E.
    + apply path_eqb_eq in E. exists p. split; [left; reflexivity|exact E].
    + rewrite upd_other in N by exact E. congruence.
  - intros [b [b' [_ [_ [_ [_ [_ H]]]]]]] N. rewrite H in N.
    destruct (path_eqb (comps t) q) eqn:Et.
    + apply path_eqb_eq in Et. exists t. split; [right; left; reflexivity|exact Et].
    + rewrite upd_other in N by exact Et. destruct (path_eqb (comps p) q) eqn:Ep.
      * apply path_eqb_eq in Ep. exists p. split; [left; reflexivity|exact Ep].
      * rewrite upd_other in N by exact Ep. congruence.
  - intros [b [b' [_ [_ [_ H]]]]] N. rewrite H in N. destruct (path_eqb (comps p) q) eqn:E.
    + apply path_eqb_eq in E. exists p. split; [left; reflexivity|exact E].
    + rewrite upd_other in N by exact E. congruence.
Qed.

Lemma effects_changed : forall ops m m' q, effects m ops m' -> m' q <> m q ->
  exists p, In p (affected_paths ops) /\ comps p = q.
Proof.
  induction ops as [|o r IH]; intros m m' q; cbn [effects].
  - intros H N. rewrite H in N. congruence.
  - intros [m1 [E1 E2]] N. unfold affected_paths. cbn [flat_map].
    destruct (obytes_dec (m1 q) (m q)) as [S|D].
    + rewrite <- S in N. destruct (IH _ _ _ E2 N) as [p [I C]]. exists p. split; [apply in_or_app; right; exact I|exact C].
    + destruct (op_effect_changed _ _ _ _ E1 D) as [p [I C]]. exists p. split; [apply in_or_app; left; exact I|exact C].
Qed.

(* [listed l q]: the list names the file at component path q *)
Definition listed (l : list str) (q : path) : Prop := exists p, In (normalize_rel p) l /\ comps p = q.

Theorem patch_frame_lists_changed root f input f' fr :
  fs_wf f -> run_call root f (CPatch input) = (f', fr) ->
  match fr with
  | Some l => forall q, file_at f' q <> file_at f q -> listed l q
  | None => forall q, file_at f' q = file_at f q
  end.
Proof.
  intros W. unfold run_call, run_call_gen.
  destruct (apply_patch true [] f input) as [g ch|g e] eqn:AP.
  - unfold apply_patch in AP. destruct (parse_patch input) as [ops|] eqn:PP; [|discriminate].
    intros H. inversion H; subst g fr. clear H. cbn [summarize option_map].
    destruct (success_effects _ _ _ _ W AP) as [EF _].
    intros q N. destruct (effects_changed _ _ _ _ EF N) as [p [I C]].
    exists p. split; [|exact C]. apply norm_all_in. exists (normalize_rel p). split.
    + rewrite reported_both. unfold changed_files. apply sort_dedup_in. apply in_map. exact I.
    + symmetry. apply normalize_rel_idem.
  - intros H. inversion H; subst g fr. clear H.
    pose proof (apply_patch_atomic _ _ _ _ W AP) as AT.
    destruct (summarize None _); [intros q N; elim N; apply AT|exact AT].
Qed.

(* a successful apply lists nothing but paths an operation names *)
Theorem patch_frame_lists_only_named root f input f' ch l :
  apply_patch true [] f input = Applied f' ch ->
  snd (run_call root f (CPatch input)) = Some l ->
  forall y, In y l -> exists ops p, parse_patch input = Some ops /\ In p (affected_paths ops) /\ y = normalize_rel p.
Proof.
  intros AP. unfold run_call, run_call_gen. rewrite AP. unfold apply_patch in AP.
  destruct (parse_patch input) as [ops|] eqn:PP; [|discriminate]. cbn [snd summarize option_map].
  intros H y I. inversion H; subst l. apply norm_all_in in I. destruct I as [p0 [I ->]].
  rewrite reported_both in I. unfold changed_files in I. apply sort_dedup_in, in_map_iff in I.
  destruct I as [p [<- I]]. exists ops, p. split; [reflexivity|]. split; [exact I|apply normalize_rel_idem].
Qed.

(* both ends of a move are listed *)
Theorem move_lists_both_ends root f input f' ch ops p q hs :
  apply_patch true [] f input = Applied f' ch -> parse_patch input = Some ops -> In (Upd p (Some q) hs) ops ->
  exists l, snd (run_call root f (CPatch input)) = Some l /\ In (normalize_rel p) l /\ In (normalize_rel q) l.
Proof.
  intros AP PP I. unfold run_call, run_call_gen. rewrite AP, PP. cbn [snd summarize option_map].
  eexists. split; [reflexivity|].
  assert (forall x, In x [p; q] -> In (normalize_rel x) (norm_all (reported MvBoth ops))) as K.
  { intros x Ix. apply norm_all_in. exists (normalize_rel x). split; [|symmetry; apply normalize_rel_idem].
    apply reported_in. exists (Upd p (Some q) hs), x. split; [exact I|]. split; [exact Ix|reflexivity]. }
  split; apply K; cbn [In]; auto.
Qed.

(* ---------- write ---------- *)
Definition tmp_free (f : fs) (c : call) : Prop :=
  match c with
  | CWrite raw mode data ext => mode = 0 -> lookup f (AutoCoverProofs.wkt raw ext) = None
  | _ => True
  end.

Theorem write_frame_lists_changed root f raw mode data ext f' fr :
  CheckpointProofs.sane f -> tmp_free f (CWrite raw mode data ext) ->
  run_call root f (CWrite raw mode data ext) = (f', fr) ->
  (forall q, file_at f' q <> file_at f q -> q = comps raw)
  /\ (write_ok f (CWrite raw mode data ext) = true -> fr = Some [normalize_rel raw]).
Proof.
  intros S T. unfold run_call, run_call_gen, write_ok. cbn [tmp_free] in T.
  destruct (write_tool expected_tool_steps f raw ext mode data) as [g er] eqn:WT. cbn [snd].
  intros H. inversion H; subst g fr. clear H. split.
  - intros q N. destruct (AutoCoverProofs.write_tool_effect _ _ _ _ _ _ _ WT S T) as [_ [_ [_ O]]].
    destruct (CheckpointProofs.path_dec q (AutoCoverProofs.wk raw)) as [E|D]; [exact E|elim N; apply O; exact D].
  - destruct er; [discriminate|]. intros _. reflexivity.
Qed.

(* ---------- every call ---------- *)
Theorem frame_lists_changed_paths root f c f' fr :
  fs_wf f -> CheckpointProofs.sane f -> tmp_free f c -> write_ok f c = true ->
  run_call root f c = (f', fr) ->
  match fr with
  | Some l => forall q, file_at f' q <> file_at f q -> listed l q
  | None => is_shell c = true \/ forall q, file_at f' q = file_at f q
  end.
Proof.
  intros W S T K H. destruct c as [raw mode data ext|input|after].
  - destruct (write_frame_lists_changed _ _ _ _ _ _ _ _ S T H) as [A B]. rewrite (B K).
    intros q N. exists raw. split; [left; reflexivity|symmetry; exact (A q N)].
  - pose proof (patch_frame_lists_changed _ _ _ _ _ W H) as P. destruct fr; [exact P|right; exact P].
  - unfold run_call, run_call_gen in H. inversion H; subst. left. reflexivity.
Qed.

(* ---------- a write that fails ---------- *)
Lemma arg_auto_tool raw :
  match arg_interp expected_auto_steps raw with
  | Ok a => a = raw /\ is_absolute raw = false /\ has_parent raw = false
  | Err e => arg_interp expected_tool_steps raw = Err e
  end.
Proof.
  unfold expected_auto_steps, expected_tool_steps. cbn [arg_interp].
  destruct (is_absolute raw); [reflexivity|]. destruct (has_parent raw); [reflexivity|]. auto.
Qed.

Lemma exists_unreadable_is_dir f rel e :
  os_exists f (tgt_of rel) = true -> os_read f (tgt_of rel) = Err e -> lookup f (real_segs rel) = Some Dir.
Proof.
  unfold os_exists, os_read. destruct (pre_err f (tgt_of rel)); [discriminate|].
  cbn [tgt_of t_path t_base t_comps t_trail app].
  destruct (lookup f (real_segs rel)) as [[b|]|]; [discriminate|reflexivity|discriminate].
Qed.

Lemma write_refused ts f raw ext mode data e : arg_interp ts raw = Err e -> write_tool ts f raw ext mode data = (f, Some e).
Proof. intros H. unfold write_tool. rewrite H. reflexivity. Qed.

Lemma wk_comps raw : AutoCoverProofs.wk raw = comps raw.
Proof. reflexivity. Qed.

Theorem write_frame_any_outcome root f raw mode data ext f' fr :
  is_absolute root = true -> CheckpointProofs.sane f -> tmp_free f (CWrite raw mode data ext) ->
  run_call root f (CWrite raw mode data ext) = (f', fr) ->
  match fr with
  | Some l => forall q, file_at f' q <> file_at f q -> listed l q
  | None => forall q, file_at f' q = file_at f q
  end.
Proof.
  intros HR S T H. pose proof H as H0. unfold run_call, run_call_gen in H. cbn [tmp_free] in T.
  destruct (write_tool expected_tool_steps f raw ext mode data) as [g er] eqn:WT.
  destruct (AutoCoverProofs.write_tool_effect _ _ _ _ _ _ _ WT S T) as [_ [DM [_ O]]].
  destruct er as [e|].
  2:{ destruct (write_frame_lists_changed _ _ _ _ _ _ _ _ S T H0) as [A B].
      assert (K : write_ok f (CWrite raw mode data ext) = true) by (unfold write_ok; rewrite WT; reflexivity).
      rewrite (B K). intros q N. exists raw. split; [left; reflexivity|symmetry; exact (A q N)]. }
  injection H as E1 E2. subst g. rewrite <- E2. clear E2 H0. cbn [summarize].
  assert (AIe : arg_interp expected_auto_steps raw = (if is_absolute raw then Err V_ABS else if has_parent raw then Err V_PARENT else Ok raw)) by reflexivity.
  rewrite <- AIe. clear AIe.
  pose proof (arg_auto_tool raw) as AT. destruct (arg_interp expected_auto_steps raw) as [a|e0] eqn:AI.
  - destruct AT as [-> [NA NP]].
    destruct (PathsProofs.to_relative_relative root raw HR NA) as [_ TR]. destruct (TR NP) as [rel [ER SG]].
    unfold ck_files, create. cbn [map_res]. rewrite ER. cbn [map_res].
    unfold save_one. destruct (os_exists f (tgt_of rel)) eqn:EX.
    + destruct (os_read f (tgt_of rel)) as [b|e1] eqn:RD; cbn [option_map map fst].
      * intros q N. exists rel. split; [apply (proj2 (norm_all_in _ _)); exists rel; split; [left; reflexivity|reflexivity]|].
        destruct (CheckpointProofs.path_dec q (AutoCoverProofs.wk raw)) as [E|D]; [|elim N; apply O; exact D].
        subst q. exact SG.
      * intros q. destruct (CheckpointProofs.path_dec q (AutoCoverProofs.wk raw)) as [E|D]; [|apply O; exact D].
        pose proof (exists_unreadable_is_dir _ _ _ EX RD) as LD. change (real_segs rel) with (comps rel) in LD.
        change (comps rel) with (real_segs rel) in LD. rewrite SG in LD. change (real_segs raw) with (AutoCoverProofs.wk raw) in LD.
        subst q. unfold file_at. rewrite (DM _ LD), LD. reflexivity.
    + cbn [option_map map fst]. intros q N. exists rel. split; [apply (proj2 (norm_all_in _ _)); exists rel; split; [left; reflexivity|reflexivity]|].
      destruct (CheckpointProofs.path_dec q (AutoCoverProofs.wk raw)) as [E|D]; [|elim N; apply O; exact D].
      subst q. exact SG.
  - cbn [ck_files option_map summarize]. rewrite (write_refused _ _ _ _ _ _ _ AT) in WT. inversion WT; subst. reflexivity.
Qed.

(* every mutating tool call, whatever its outcome *)
Theorem frame_lists_changed_paths_full root f c f' fr :
  is_absolute root = true -> fs_wf f -> CheckpointProofs.sane f -> tmp_free f c ->
  run_call root f c = (f', fr) ->
  match fr with
  | Some l => forall q, file_at f' q <> file_at f q -> listed l q
  | None => is_shell c = true \/ forall q, file_at f' q = file_at f q
  end.
Proof.
  intros HR W S T H. destruct c as [raw mode data ext|input|after].
  - pose proof (write_frame_any_outcome _ _ _ _ _ _ _ _ HR S T H) as P. destruct fr; [exact P|right; exact P].
  - pose proof (patch_frame_lists_changed _ _ _ _ _ W H) as P. destruct fr; [exact P|right; exact P].
  - unfold run_call, run_call_gen in H. inversion H; subst. left. reflexivity.
Qed.

(* ---------- tie T1: a source that passes report_wf reports what the model reports ---------- *)
Theorem reported_as_built c ops : report_wf c = true -> reported_by c ops = changed_files ops.
Proof.
  unfold report_wf. intros H. repeat (apply andb_true_iff in H; destruct H as [H ?]).
  unfold reported_by, changed_files, affected_paths.
  replace (r_lib_sorted c) with true by congruence. f_equal. f_equal.
  induction ops as [|o r IH]; cbn [flat_map]; [reflexivity|]. rewrite IH. f_equal.
  destruct o as [p d|p|p [q|] hs]; cbn [pushed_by op_paths].
  - replace (r_add c) with true by congruence. reflexivity.
  - replace (r_del c) with true by congruence. reflexivity.
  - replace (r_upd_moved_src c) with true by congruence. replace (r_upd_moved_dst c) with true by congruence. reflexivity.
  - replace (r_upd_plain c) with true by congruence. reflexivity.
Qed.

(* the seeded shape: the updated path is pushed only when the operation does not move *)
Definition report_target_only : report_cfg :=
  {| r_add := true; r_del := true; r_upd_plain := true; r_upd_moved_src := false; r_upd_moved_dst := true; r_lib_sorted := true;
     r_tool_patch := true; r_tool_write := true; r_sum_changed := true; r_sum_path := true; r_sum_ck_only_when_none := true; r_sum_sorted := true |}.
Lemma report_target_only_rejected : report_wf report_target_only = false /\ forall ops, reported_by report_target_only ops = reported MvTargetOnly ops.
Proof.
  split; [reflexivity|]. intros ops. unfold reported_by, reported. cbn [r_lib_sorted report_target_only]. f_equal. f_equal.
  induction ops as [|o r IH]; cbn [flat_map]; [reflexivity|]. rewrite IH. f_equal.
  destruct o as [p d|p|p [q|] hs]; reflexivity.
Qed.

(* ---------- witnesses (named constants; every equation by vm_compute) ---------- *)
Require Import Coq.Strings.String.
Definition s (x : string) : list N := bs x.
Definition nl (x : string) : list N := bs x ++ [10].
Definition ws0 : fs := [([s "a.txt"], File (nl "one")); ([s "b.txt"], File (nl "two"))].
Definition root0 : str := s "/ws".

(* the list is no exact diff — (1) a write of the content the file already has lists the file *)
Definition call_same : call := CWrite (s "a.txt") 0 (nl "one") (s "tmp-0").
Lemma write_same_listed_unchanged :
  snd (run_call root0 ws0 call_same) = Some [s "a.txt"] /\ same_listing (fst (run_call root0 ws0 call_same)) ws0 = true.
Proof. split; vm_compute; reflexivity. Qed.

(* (2) a patch that fails (move onto an existing file) changes nothing; its frame lists the files of the auto
   checkpoint, i.e. every path the patch names *)
Definition patch_onto : list N :=
  nl "*** Begin Patch" ++ nl "*** Update File: a.txt" ++ nl "*** Move to: b.txt" ++ nl "@@" ++ nl "-one" ++ nl "+uno" ++ nl "*** End Patch".
Lemma failed_patch_listed_unchanged :
  snd (run_call root0 ws0 (CPatch patch_onto)) = Some [s "a.txt"; s "b.txt"]
  /\ same_listing (fst (run_call root0 ws0 (CPatch patch_onto))) ws0 = true.
Proof. split; vm_compute; reflexivity. Qed.

(* (3) add and delete of the same file in one patch: nothing changed, the file is listed *)
Definition patch_add_del : list N :=
  nl "*** Begin Patch" ++ nl "*** Add File: n.txt" ++ nl "+x" ++ nl "*** Delete File: n.txt" ++ nl "*** End Patch".
Lemma add_delete_listed_unchanged :
  snd (run_call root0 ws0 (CPatch patch_add_del)) = Some [s "n.txt"]
  /\ same_listing (fst (run_call root0 ws0 (CPatch patch_add_del))) ws0 = true.
Proof. split; vm_compute; reflexivity. Qed.

(* a rename: update a.txt, move it to n.txt *)
Definition patch_move : list N :=
  nl "*** Begin Patch" ++ nl "*** Update File: a.txt" ++ nl "*** Move to: n.txt" ++ nl "@@" ++ nl "-one" ++ nl "+uno" ++ nl "*** End Patch".
Definition ws0_moved : fs := [([s "n.txt"], File (nl "uno")); ([s "b.txt"], File (nl "two"))].
Lemma move_demo :
  snd (run_call root0 ws0 (CPatch patch_move)) = Some [s "a.txt"; s "n.txt"]
  /\ same_listing (fst (run_call root0 ws0 (CPatch patch_move))) ws0_moved = true
  /\ fs_wf ws0 /\ CheckpointProofs.sane ws0.
Proof.
  split; [vm_compute; reflexivity|]. split; [vm_compute; reflexivity|].
  split; [apply wf_fsb_sound; vm_compute; reflexivity|apply CheckpointProofs.sane_b_sound; vm_compute; reflexivity].
Qed.

(* the same call when a move reports only its target: the deleted a.txt is not in the list *)
Lemma move_source_unlisted :
  exists l f', run_call_gen MvTargetOnly root0 ws0 (CPatch patch_move) = (f', Some l)
    /\ file_at f' (comps (s "a.txt")) <> file_at ws0 (comps (s "a.txt"))
    /\ ~ In (normalize_rel (s "a.txt")) l.
Proof.
  eexists. eexists. split; [vm_compute; reflexivity|]. split; [vm_compute; discriminate|].
  vm_compute. intros [H|[]]. discriminate.
Qed.

(* a shell command: the frame carries no list whatever the command did *)
Lemma shell_frame_has_no_list root f after : run_call root f (CShell after) = (after, None).
Proof. reflexivity. Qed.
