(* Lemmas about Model/Checkpoint.v (C14): a successful rewind re-establishes, on every covered path,
   the file content recorded by create — from ANY later state of the workspace. *)
From RipV Require Import Base.Prelude Base.Fs Model.Paths Model.Checkpoint Proofs.PathsProofs.

(* ---------- finite-map facts about Base/Fs.v ---------- *)
Lemma path_eqb_eq p q : path_eqb p q = true <-> p = q.
Proof. apply list_eqb_spec. intros; apply lN_eqb_spec. Qed.
Lemma path_eqb_refl p : path_eqb p p = true.
Proof. apply path_eqb_eq; reflexivity. Qed.
Lemma path_eqb_neq p q : p <> q -> path_eqb p q = false.
Proof. intros H. destruct (path_eqb p q) eqn:E; [apply path_eqb_eq in E; contradiction|reflexivity]. Qed.
Lemma path_dec (p q : path) : {p = q} + {p <> q}.
Proof. apply list_eq_dec. apply list_eq_dec. apply N.eq_dec. Qed.

Lemma assoc_remove_other k f q : k <> q -> assoc (remove_key k f) q = assoc f q.
Proof.
  intros H. induction f as [|[p n] f IH]; cbn [remove_key assoc]; [reflexivity|].
  destruct (path_eqb p k) eqn:E.
  - apply path_eqb_eq in E; subst p. rewrite (path_eqb_neq k q H). exact IH.
  - cbn [assoc]. destruct (path_eqb p q); [reflexivity|exact IH].
Qed.
Lemma assoc_remove_same k f : assoc (remove_key k f) k = None.
Proof.
  induction f as [|[p n] f IH]; cbn [remove_key assoc]; [reflexivity|].
  destruct (path_eqb p k) eqn:E; [exact IH|]. cbn [assoc]. rewrite E. exact IH.
Qed.
Lemma assoc_in f p n : assoc f p = Some n -> In (p, n) f.
Proof.
  induction f as [|[q m] f IH]; cbn [assoc]; [discriminate|].
  destruct (path_eqb q p) eqn:E.
  - intros H; inversion H; subst m. apply path_eqb_eq in E; subst q. left; reflexivity.
  - intros H. right. apply IH; exact H.
Qed.

Lemma lookup_set_same f k n : k <> [] -> lookup (set f k n) k = Some n.
Proof. intros H. destruct k as [|c k]; [congruence|]. unfold lookup, set. cbn [assoc]. rewrite path_eqb_refl. reflexivity. Qed.
Lemma lookup_set_other f k n q : k <> q -> lookup (set f k n) q = lookup f q.
Proof.
  intros H. destruct q as [|c q]; [reflexivity|]. unfold lookup, set. cbn [assoc].
  rewrite (path_eqb_neq _ _ H). apply assoc_remove_other; exact H.
Qed.
Lemma lookup_unset_same f k : k <> [] -> lookup (unset f k) k = None.
Proof. intros H. destruct k as [|c k]; [congruence|]. unfold lookup, unset. apply assoc_remove_same. Qed.
Lemma lookup_unset_other f k q : k <> q -> lookup (unset f k) q = lookup f q.
Proof. intros H. destruct q as [|c q]; [reflexivity|]. unfold lookup, unset. apply assoc_remove_other; exact H. Qed.

(* ---------- dirs_ok ---------- *)
Lemma dirs_ok_ext f f' : forall rest cur,
  (forall pre suf, rest = pre ++ suf -> pre <> [] -> suf <> [] -> lookup f' (cur ++ pre) = lookup f (cur ++ pre)) ->
  dirs_ok f' cur rest = dirs_ok f cur rest.
Proof.
  induction rest as [|c r IH]; intros cur H; [reflexivity|].
  destruct r as [|c2 r2]; [reflexivity|].
  change (dirs_ok f' cur (c :: c2 :: r2)) with
    (if 255 <? nlen c then Some ENAMETOOLONG else
     match lookup f' (cur ++ [c]) with
     | Some Dir => dirs_ok f' (cur ++ [c]) (c2 :: r2) | Some (File _) => Some ENOTDIR | None => Some ENOENT end).
  change (dirs_ok f cur (c :: c2 :: r2)) with
    (if 255 <? nlen c then Some ENAMETOOLONG else
     match lookup f (cur ++ [c]) with
     | Some Dir => dirs_ok f (cur ++ [c]) (c2 :: r2) | Some (File _) => Some ENOTDIR | None => Some ENOENT end).
  destruct (255 <? nlen c); [reflexivity|].
  rewrite (H [c] (c2 :: r2) eq_refl) by discriminate.
  destruct (lookup f (cur ++ [c])) as [[b|]|]; try reflexivity.
  apply IH. intros pre suf E Hp Hs. rewrite <- !app_assoc. cbn [app].
  apply (H (c :: pre) suf); [cbn [app]; rewrite E; reflexivity|discriminate|exact Hs].
Qed.

Lemma dirs_ok_none_prefix f : forall rest cur, dirs_ok f cur rest = None ->
  forall pre suf, rest = pre ++ suf -> pre <> [] -> suf <> [] -> lookup f (cur ++ pre) = Some Dir.
Proof.
  induction rest as [|c r IH]; intros cur H pre suf E Hp Hs.
  - destruct pre; [congruence|discriminate].
  - destruct pre as [|x pre]; [congruence|]. cbn [app] in E. inversion E as [[Ex Er]]. subst x.
    destruct r as [|c2 r2].
    + symmetry in Er. apply app_eq_nil in Er. destruct Er as [_ Er]. congruence.
    + change (dirs_ok f cur (c :: c2 :: r2)) with
        (if 255 <? nlen c then Some ENAMETOOLONG else
         match lookup f (cur ++ [c]) with
         | Some Dir => dirs_ok f (cur ++ [c]) (c2 :: r2) | Some (File _) => Some ENOTDIR | None => Some ENOENT end) in H.
      destruct (255 <? nlen c); [discriminate|].
      destruct (lookup f (cur ++ [c])) as [[b|]|] eqn:L; try discriminate.
      destruct pre as [|y pre]; [exact L|].
      change (cur ++ c :: y :: pre) with (cur ++ [c] ++ (y :: pre)). rewrite app_assoc.
      apply (IH (cur ++ [c]) H (y :: pre) suf); [exact Er|discriminate|exact Hs].
Qed.

(* ---------- mkdir_all ---------- *)
Lemma app_one_ne_nil {A} (l : list A) x : l ++ [x] <> [].
Proof. destruct l; discriminate. Qed.

Lemma mkdir_all_lookup : forall cs f cur f' er, mkdir_all f cur cs = (f', er) ->
  forall r, lookup f' r = lookup f r \/ (lookup f r = None /\ lookup f' r = Some Dir).
Proof.
  induction cs as [|c cs IH]; intros f cur f' er H r; cbn [mkdir_all] in H.
  - inversion H; left; reflexivity.
  - destruct (255 <? nlen c); [inversion H; left; reflexivity|].
    destruct (lookup f (cur ++ [c])) as [[b|]|] eqn:L.
    + inversion H; left; reflexivity.
    + eapply IH; exact H.
    + destruct (IH _ _ _ _ H r) as [E|[E1 E2]]; destruct (path_dec (cur ++ [c]) r) as [Er|Er].
      * subst r. right. split; [exact L|]. rewrite E. apply lookup_set_same. apply app_one_ne_nil.
      * left. rewrite E. apply lookup_set_other; exact Er.
      * subst r. rewrite lookup_set_same in E1 by apply app_one_ne_nil. discriminate.
      * right. split; [|exact E2]. rewrite lookup_set_other in E1 by exact Er. exact E1.
Qed.

Lemma mkdir_all_file_at cs f cur f' er q : mkdir_all f cur cs = (f', er) -> file_at f' q = file_at f q.
Proof.
  intros H. unfold file_at. destruct (mkdir_all_lookup _ _ _ _ _ H q) as [E|[E1 E2]].
  - rewrite E. reflexivity.
  - rewrite E1, E2. reflexivity.
Qed.

(* ---------- sanity: every file is reachable ---------- *)
Definition sane (f : fs) : Prop := forall p b, lookup f p = Some (File b) -> dirs_ok f [] p = None.

Lemma sane_b_sound f : sane_b f = true -> sane f.
Proof.
  unfold sane_b, sane. intros H p b L. rewrite forallb_forall in H.
  destruct p as [|c p]; [discriminate|]. unfold lookup in L. apply assoc_in in L.
  specialize (H _ L). unfold reachable_file in H. cbn [snd fst] in H.
  destruct (dirs_ok f [] (c :: p)); [discriminate|reflexivity].
Qed.

Lemma sane_mkdir cs f cur f' er : mkdir_all f cur cs = (f', er) -> sane f -> sane f'.
Proof.
  intros H Hs p b L.
  destruct (mkdir_all_lookup _ _ _ _ _ H p) as [E|[_ E2]]; [|rewrite E2 in L; discriminate].
  rewrite E in L. rewrite <- (Hs p b L). apply dirs_ok_ext. intros pre suf Ep Hp Hsf. cbn [app].
  pose proof (dirs_ok_none_prefix f p [] (Hs p b L) pre suf Ep Hp Hsf) as LD. cbn [app] in LD.
  destruct (mkdir_all_lookup _ _ _ _ _ H pre) as [E'|[E1' _]]; [exact E'|rewrite LD in E1'; discriminate].
Qed.

Lemma app_self_nil {A} (a b : list A) : a = a ++ b -> b = [].
Proof. intros H. rewrite <- (app_nil_r a) in H at 1. apply app_inv_head in H. symmetry; exact H. Qed.

Lemma sane_set f k b : sane f -> dirs_ok f [] k = None -> lookup f k <> Some Dir -> sane (set f k (File b)).
Proof.
  intros Hs Hd Hk p b' L. destruct (path_dec k p) as [E|E].
  - subst p. rewrite <- Hd. apply dirs_ok_ext. intros pre suf Ep Hp Hsf. cbn [app].
    apply lookup_set_other. intros ->. apply Hsf. eapply app_self_nil; exact Ep.
  - rewrite lookup_set_other in L by exact E. rewrite <- (Hs p b' L). apply dirs_ok_ext.
    intros pre suf Ep Hp Hsf. cbn [app]. apply lookup_set_other. intros ->. apply Hk.
    exact (dirs_ok_none_prefix f p [] (Hs p b' L) pre suf Ep Hp Hsf).
Qed.

Lemma sane_unset f k b0 : sane f -> lookup f k = Some (File b0) -> sane (unset f k).
Proof.
  intros Hs Hk p b' L.
  assert (Hne : k <> []) by (intros ->; discriminate).
  destruct (path_dec k p) as [E|E].
  - subst p. rewrite lookup_unset_same in L by exact Hne. discriminate.
  - rewrite lookup_unset_other in L by exact E. rewrite <- (Hs p b' L). apply dirs_ok_ext.
    intros pre suf Ep Hp Hsf. cbn [app]. apply lookup_unset_other. intros ->.
    pose proof (dirs_ok_none_prefix f p [] (Hs p b' L) pre suf Ep Hp Hsf) as LD. cbn [app] in LD.
    rewrite LD in Hk. discriminate.
Qed.

(* ---------- the operations on a recorded path ---------- *)
Lemma tgt_of_key r1 r2 : key r1 = key r2 -> tgt_of r1 = tgt_of r2.
Proof. unfold key, tgt_of. intros ->. reflexivity. Qed.

Lemma os_write_ok f t d f' : os_write f t d = Ok f' ->
  f' = set f (t_path t) (File d) /\ pre_err f t = None /\ lookup f (t_path t) <> Some Dir.
Proof.
  unfold os_write. destruct (pre_err f t); [discriminate|].
  destruct (lookup f (t_path t)) as [[b|]|]; destruct (t_trail t); try discriminate;
    intros H; inversion H; repeat split; discriminate.
Qed.

Lemma os_remove_ok f t f' : os_remove_file f t = Ok f' ->
  f' = unset f (t_path t) /\ exists b, lookup f (t_path t) = Some (File b).
Proof.
  unfold os_remove_file. destruct (pre_err f t); [discriminate|].
  destruct (lookup f (t_path t)) as [[b|]|]; destruct (t_trail t); try discriminate.
  intros H; inversion H. split; [reflexivity|exists b; reflexivity].
Qed.

Lemma exists_false_no_file f rel : sane f -> os_exists f (tgt_of rel) = false -> file_at f (key rel) = None.
Proof.
  intros Hs H. unfold file_at. destruct (lookup f (key rel)) as [[b|]|] eqn:L; try reflexivity. exfalso.
  unfold os_exists, pre_err in H. cbn [tgt_of t_nul t_base t_comps t_trail t_path app] in H.
  change (real_segs rel) with (key rel) in H. rewrite (Hs _ _ L), L in H. discriminate.
Qed.

Lemma read_ok_file f rel b : os_read f (tgt_of rel) = Ok b -> file_at f (key rel) = Some b.
Proof.
  unfold os_read, file_at. destruct (pre_err f (tgt_of rel)); [discriminate|].
  cbn [tgt_of t_path t_base t_comps t_trail app]. change (real_segs rel) with (key rel).
  destruct (lookup f (key rel)) as [[b'|]|]; try discriminate. intros H; inversion H; reflexivity.
Qed.

Lemma file_readable f rel b : sane f -> file_at f (key rel) = Some b -> os_read f (tgt_of rel) = Ok b.
Proof.
  intros Hs H. unfold file_at in H. destruct (lookup f (key rel)) as [[b'|]|] eqn:L; try discriminate.
  inversion H; subst b'. unfold os_read, pre_err. cbn [tgt_of t_nul t_base t_comps t_trail t_path app].
  change (real_segs rel) with (key rel). rewrite (Hs _ _ L), L. reflexivity.
Qed.

Lemma file_at_set_same f k b : k <> [] -> file_at (set f k (File b)) k = Some b.
Proof. intros H. unfold file_at. rewrite lookup_set_same by exact H. reflexivity. Qed.
Lemma file_at_set_other f k n q : k <> q -> file_at (set f k n) q = file_at f q.
Proof. intros H. unfold file_at. rewrite lookup_set_other by exact H. reflexivity. Qed.
Lemma file_at_unset_same f k : k <> [] -> file_at (unset f k) k = None.
Proof. intros H. unfold file_at. rewrite lookup_unset_same by exact H. reflexivity. Qed.
Lemma file_at_unset_other f k q : k <> q -> file_at (unset f k) q = file_at f q.
Proof. intros H. unfold file_at. rewrite lookup_unset_other by exact H. reflexivity. Qed.

Lemma not_dir_ne_nil f k : lookup f k <> Some Dir -> k <> [].
Proof. intros H ->. apply H. reflexivity. Qed.

(* one successful restore step: the recorded path holds the recorded content, no other file changes *)
Lemma apply_one_ok f e f' : apply_one f e = (f', None) -> sane f ->
  file_at f' (key (fst e)) = snd e
  /\ (forall q, q <> key (fst e) -> file_at f' q = file_at f q)
  /\ sane f'.
Proof.
  destruct e as [rel saved]. unfold apply_one. cbn [fst snd]. intros H Hs.
  destruct saved as [b|].
  - destruct (mk_parent_dirs f (tgt_of rel)) as [f1 er] eqn:Em.
    destruct er as [x|]; [inversion H|].
    destruct (os_write f1 (tgt_of rel) b) as [f2|x] eqn:Ew; inversion H; subst f2.
    unfold mk_parent_dirs in Em. cbn [tgt_of t_nul t_base t_comps] in Em.
    match type of Em with (if ?c then _ else _) = _ => destruct c end; [inversion Em|].
    destruct (os_write_ok _ _ _ _ Ew) as (E2 & Hpre & Hnd).
    cbn [tgt_of t_path t_base t_comps app] in E2, Hnd. change (real_segs rel) with (key rel) in E2, Hnd.
    unfold pre_err in Hpre. cbn [tgt_of t_nul t_base t_comps] in Hpre. change (real_segs rel) with (key rel) in Hpre.
    pose proof (not_dir_ne_nil _ _ Hnd) as Hne. subst f'. repeat split.
    + apply file_at_set_same; exact Hne.
    + intros q Hq. rewrite file_at_set_other by (intros Eq; apply Hq; symmetry; exact Eq).
      eapply mkdir_all_file_at; exact Em.
    + apply sane_set; [eapply sane_mkdir; [exact Em|exact Hs]|exact Hpre|exact Hnd].
  - destruct (os_exists f (tgt_of rel)) eqn:Ex.
    + destruct (os_remove_file f (tgt_of rel)) as [f2|x] eqn:Er; inversion H; subst f2.
      destruct (os_remove_ok _ _ _ Er) as (E2 & b0 & Lk).
      cbn [tgt_of t_path t_base t_comps app] in E2, Lk. change (real_segs rel) with (key rel) in E2, Lk.
      assert (Hne : key rel <> []) by (intros E0; rewrite E0 in Lk; discriminate).
      subst f'. repeat split.
      * apply file_at_unset_same; exact Hne.
      * intros q Hq. apply file_at_unset_other. intros Eq; apply Hq; symmetry; exact Eq.
      * eapply sane_unset; [exact Hs|exact Lk].
    + inversion H; subst f'. split; [apply exists_false_no_file; assumption|]. split; [intros q Hq; reflexivity|exact Hs].
Qed.

(* a value at a path survives the remaining steps when every remaining entry for that path records it *)
Lemma apply_all_view : forall ck f f', apply_all f ck = (f', None) -> sane f ->
  sane f' /\ forall q v, file_at f q = v -> (forall e, In e ck -> key (fst e) = q -> snd e = v) -> file_at f' q = v.
Proof.
  induction ck as [|e r IH]; intros f f' H Hs; cbn [apply_all] in H.
  - inversion H; subst f'. split; [exact Hs|]. intros q v Hq _; exact Hq.
  - destruct (apply_one f e) as [f1 er] eqn:E1. destruct er as [x|]; [inversion H|].
    destruct (apply_one_ok _ _ _ E1 Hs) as (Hk & Ho & Hs1).
    destruct (IH _ _ H Hs1) as [Hs' Hv]. split; [exact Hs'|].
    intros q v Hq Hall. apply Hv.
    + destruct (path_dec q (key (fst e))) as [Eq|Eq].
      * subst q. rewrite Hk. apply Hall; [left; reflexivity|reflexivity].
      * rewrite Ho by exact Eq. exact Hq.
    + intros e' Hin. apply Hall. right; exact Hin.
Qed.

Definition consistent (ck : list entry) : Prop :=
  forall e1 e2, In e1 ck -> In e2 ck -> key (fst e1) = key (fst e2) -> snd e1 = snd e2.

Lemma apply_all_exact : forall ck f f', apply_all f ck = (f', None) -> sane f -> consistent ck ->
  sane f' /\ (forall e, In e ck -> file_at f' (key (fst e)) = snd e)
  /\ (forall q, (forall e, In e ck -> key (fst e) <> q) -> file_at f' q = file_at f q).
Proof.
  induction ck as [|e r IH]; intros f f' H Hs Hc.
  - cbn [apply_all] in H. inversion H; subst f'. split; [exact Hs|]. split; [intros e []|intros q Hq; reflexivity].
  - pose proof H as H0. cbn [apply_all] in H. destruct (apply_one f e) as [f1 er] eqn:E1. destruct er as [x|]; [inversion H|].
    destruct (apply_one_ok _ _ _ E1 Hs) as (Hk & Ho & Hs1).
    assert (Hc' : consistent r).
    { intros a b Ha Hb. apply Hc; right; assumption. }
    destruct (IH _ _ H Hs1 Hc') as (Hs' & Hin & Hout). split; [exact Hs'|]. split.
    + intros e' [E|Hin']; [subst e'|apply Hin; exact Hin'].
      destruct (apply_all_view _ _ _ H Hs1) as [_ Hv]. apply (Hv _ _ Hk).
      intros e2 Hin2 Ek. apply Hc; [right; exact Hin2|left; reflexivity|exact Ek].
    + intros q Hq. rewrite Hout by (intros e' Hin'; apply Hq; right; exact Hin').
      apply Ho. intros Eq. apply (Hq e); [left; reflexivity|symmetry; exact Eq].
Qed.

(* ---------- create ---------- *)
Lemma map_res_in {A B} (g : A -> res B) : forall l ys, map_res g l = Ok ys ->
  forall y, In y ys -> exists x, In x l /\ g x = Ok y.
Proof.
  induction l as [|x l IH]; intros ys H y Hy; cbn [map_res] in H.
  - inversion H; subst ys. destruct Hy.
  - destruct (g x) as [y0|e] eqn:Ex; [|discriminate]. destruct (map_res g l) as [ys0|e]; [|discriminate].
    inversion H; subst ys. destruct Hy as [->|Hy].
    + exists x. split; [left; reflexivity|exact Ex].
    + destruct (IH _ eq_refl _ Hy) as (x' & Hin & Hx). exists x'. split; [right; exact Hin|exact Hx].
Qed.

Lemma save_one_spec f rel e : save_one f rel = Ok e ->
  fst e = rel /\ match snd e with
                 | Some b => os_read f (tgt_of rel) = Ok b
                 | None => os_exists f (tgt_of rel) = false
                 end.
Proof.
  unfold save_one. destruct (os_exists f (tgt_of rel)) eqn:Ex.
  - destruct (os_read f (tgt_of rel)) as [b|x] eqn:Er; [|discriminate]. intros H; inversion H. split; reflexivity.
  - intros H; inversion H. split; reflexivity.
Qed.

Lemma save_one_key f r1 r2 e1 e2 : key r1 = key r2 -> save_one f r1 = Ok e1 -> save_one f r2 = Ok e2 -> snd e1 = snd e2.
Proof.
  intros Hk. unfold save_one. rewrite (tgt_of_key _ _ Hk).
  destruct (os_exists f (tgt_of r2)); [destruct (os_read f (tgt_of r2))|]; intros H1 H2; inversion H1; inversion H2; reflexivity.
Qed.

Lemma create_entries f root raws ck : create f root raws = Ok ck ->
  forall e, In e ck -> (exists raw, In raw raws /\ to_relative root raw = Ok (fst e)) /\ save_one f (fst e) = Ok e.
Proof.
  unfold create. destruct (map_res (to_relative root) raws) as [rels|x] eqn:Er; [|discriminate].
  intros H e He. destruct (map_res_in _ _ _ H e He) as (rel & Hin & Hs).
  destruct (save_one_spec _ _ _ Hs) as [Ef _]. rewrite Ef. split; [|exact Hs].
  destruct (map_res_in _ _ _ Er rel Hin) as (raw & Hr & Ht). exists raw. split; assumption.
Qed.

Lemma create_consistent f root raws ck : create f root raws = Ok ck -> consistent ck.
Proof.
  intros H e1 e2 H1 H2 Hk.
  destruct (create_entries _ _ _ _ H e1 H1) as [_ S1]. destruct (create_entries _ _ _ _ H e2 H2) as [_ S2].
  eapply save_one_key; eassumption.
Qed.

Lemma create_refused_no_effect f root raws e :
  map_res (to_relative root) raws = Err e -> create f root raws = Err e.
Proof. unfold create. intros ->. reflexivity. Qed.

(* ---------- rewind ---------- *)
Theorem rewind_exact f root raws ck f2 f3 :
  create f root raws = Ok ck -> sane f2 -> rewind f2 ck = (f3, None) ->
  (forall rel saved, In (rel, saved) ck ->
     match saved with
     | Some b => os_read f (tgt_of rel) = Ok b /\ os_read f3 (tgt_of rel) = Ok b
     | None => os_exists f (tgt_of rel) = false /\ file_at f3 (key rel) = None
     end)
  /\ (forall q, (forall rel saved, In (rel, saved) ck -> key rel <> q) -> file_at f3 q = file_at f2 q).
Proof.
  intros Hc Hs Hr. unfold rewind in Hr.
  destruct (map_res (save_one f2) (map fst ck)) as [snap|x]; [|inversion Hr].
  destruct (apply_all f2 ck) as [f1 er] eqn:Ea. destruct er as [x|]; inversion Hr; subst f1.
  destruct (apply_all_exact _ _ _ Ea Hs (create_consistent _ _ _ _ Hc)) as (Hs3 & Hin & Hout). split.
  - intros rel saved He. pose proof (Hin _ He) as Hv. cbn [fst snd] in Hv.
    destruct (create_entries _ _ _ _ Hc _ He) as [_ Hsv]. cbn [fst] in Hsv.
    destruct (save_one_spec _ _ _ Hsv) as [_ Hsp]. cbn [snd] in Hsp.
    destruct saved as [b|]; split; try exact Hsp; [apply file_readable; assumption|exact Hv].
  - intros q Hq. apply Hout. intros [rel saved] He. cbn [fst]. apply (Hq rel saved He).
Qed.

(* a refused snapshot (a covered path is now a directory) changes nothing *)
Lemma rewind_snapshot_error f ck e :
  map_res (save_one f) (map fst ck) = Err e -> rewind f ck = (f, Some e).
Proof. unfold rewind. intros ->. reflexivity. Qed.

(* the decidable form of the hypothesis, as evaluated by the correspondence on every observed workspace *)
Theorem rewind_exact_b f root raws ck f2 f3 :
  create f root raws = Ok ck -> sane_b f2 = true -> rewind f2 ck = (f3, None) ->
  (forall rel saved, In (rel, saved) ck ->
     match saved with
     | Some b => os_read f (tgt_of rel) = Ok b /\ os_read f3 (tgt_of rel) = Ok b
     | None => os_exists f (tgt_of rel) = false /\ file_at f3 (key rel) = None
     end)
  /\ (forall q, (forall rel saved, In (rel, saved) ck -> key rel <> q) -> file_at f3 q = file_at f2 q).
Proof. intros Hc Hs. apply (rewind_exact f root raws ck f2 f3 Hc (sane_b_sound _ Hs)). Qed.

(* every requested path is covered, under the name rewind will use *)
Lemma create_covers f root raws ck : create f root raws = Ok ck ->
  forall raw, In raw raws -> exists rel saved, to_relative root raw = Ok rel /\ In (rel, saved) ck.
Proof.
  unfold create. destruct (map_res (to_relative root) raws) as [rels|x] eqn:Er; [|discriminate].
  intros H. revert rels ck Er H. induction raws as [|r0 raws IH]; intros rels ck Er H raw Hin; [destruct Hin|].
  cbn [map_res] in Er. destruct (to_relative root r0) as [rel0|x] eqn:E0; [|discriminate].
  destruct (map_res (to_relative root) raws) as [rels0|x] eqn:E1; [|discriminate]. inversion Er; subst rels.
  cbn [map_res] in H. destruct (save_one f rel0) as [e0|x] eqn:S0; [|discriminate].
  destruct (map_res (save_one f) rels0) as [es|x] eqn:S1; [|discriminate]. inversion H; subst ck.
  destruct Hin as [->|Hin].
  - destruct (save_one_spec _ _ _ S0) as [Ef _]. exists rel0, (snd e0). split; [exact E0|]. left. destruct e0; cbn in *; subst; reflexivity.
  - destruct (IH rels0 es eq_refl S1 raw Hin) as (rel & saved & Ht & Hi). exists rel, saved. split; [exact Ht|right; exact Hi].
Qed.

(* ---------- the behaviour before the repair (S10, second half), on a named witness ---------- *)
Require Import Coq.Strings.String.
Definition w_a : str := bs "a.txt"%string.
Definition w_ws : fs := [([w_a], File (bs "one"%string))].        (* the workspace: a.txt = "one" *)
Definition w_cwdfs : fs := [].                                    (* the process cwd has no a.txt *)
Definition w_ck_unfixed : list entry := [(w_a, None)].

Lemma probe_unfixed_loses_file :
  to_relative_unfixed w_root w_a = Ok w_a
  /\ save_one_unfixed w_cwdfs w_a w_a = Ok (w_a, None)
  /\ file_at w_ws (key w_a) = Some (bs "one"%string)
  /\ rewind w_ws w_ck_unfixed = ([], None).
Proof. vm_compute. repeat split. Qed.

Lemma probe_unfixed_refuted :
  exists root raw rel (f fcwd : fs) b f3,
    to_relative_unfixed root raw = Ok rel /\ save_one_unfixed fcwd raw rel = Ok (rel, None)
    /\ file_at f (key rel) = Some b /\ rewind f [(rel, None)] = (f3, None) /\ file_at f3 (key rel) = None.
Proof.
  exists w_root, w_a, w_a, w_ws, w_cwdfs, (bs "one"%string), [].
  destruct probe_unfixed_loses_file as (A & B & C & D). repeat split; assumption.
Qed.

(* non-vacuity: a create / edit / rewind round trip *)
Definition w_b : str := bs "b.txt"%string.
Definition w_later : fs := [([w_a], File (bs "two"%string)); ([w_b], File (bs "new"%string))].
Definition w_ck : list entry := [(w_a, Some (bs "one"%string)); (w_b, None)].
Definition w_dot_b : str := bs "./b.txt"%string.
Lemma ex_round_trip :
  create w_ws w_root [w_abs_in; w_dot_b] = Ok w_ck
  /\ sane_b w_later = true /\ rewind w_later w_ck = (w_ws, None).
Proof. vm_compute. repeat split. Qed.
