(* Lemmas about Model/Checkpoint.v (C14): a successful rewind re-establishes, on every covered path,
   the file content recorded by create — from ANY later state of the workspace. *)
From RipV Require Import Base.Prelude Base.Fs Model.Paths Model.Checkpoint Proofs.PathsProofs.

(* ---------- finite-map facts about Base/Fs.v ---------- *)
Lemma path_eqb_eq p q : path_eqb p q = true <-> p = q.
Proof. apply list_eqb_spec. intros; apply lN_eqb_spec. Qed.
Lemma path_eqb_refl p : path_eqb p p = true.
Proof. apply path_eqb_eq; reflexivity. Qed.
Lemma path_eqb_neq p q : p <> q -> path_eqb p q = false.
Proof. intros H. destruct (path_eqb p q) eqn:E; [apply path_eqb_eq in E; contradiction|reflexivity]. Qed.
Lemma path_dec (p q : path) : {p = q} + {p <> q}.
Proof. apply list_eq_dec. apply list_eq_dec. apply N.eq_dec. Qed.

Lemma assoc_remove_other k f q : k <> q -> assoc (remove_key k f) q = assoc f q.
Proof.
  intros H. induction f as [|[p n] f IH]; cbn [remove_key assoc]; [reflexivity|].
  destruct (path_eqb p k) eqn:E.
  - apply path_eqb_eq in E; subst p. rewrite (path_eqb_neq k q H). exact IH.
  - cbn [assoc]. destruct (path_eqb p q); [reflexivity|exact IH].
Qed.
Lemma assoc_remove_same k f : assoc (remove_key k f) k = None.
Proof.
  induction f as [|[p n] f IH]; cbn [remove_key assoc]; [reflexivity|].
  destruct (path_eqb p k) eqn:E; [exact IH|]. cbn [assoc]. rewrite E. exact IH.
Qed.
Lemma assoc_in f p n : assoc f p = Some n -> In (p, n) f.
Proof.
  induction f as [|[q m] f IH]; cbn [assoc]; [discriminate|].
  destruct (path_eqb q p) eqn:E.
  - intros H; inversion H; subst m. apply path_eqb_eq in E; subst q. left; reflexivity.
  - intros H. right. apply IH; exact H.
Qed.

Lemma lookup_set_same f k n : k <> [] -> lookup (set f k n) k = Some n.
Proof. intros H. destruct k as [|c k]; [congruence|]. unfold lookup, set. cbn [assoc]. rewrite path_eqb_refl. reflexivity. Qed.
Lemma lookup_set_other f k n q : k <> q -> lookup (set f k n) q = lookup f q.
Proof.
  intros H. destruct q as [|c q]; [reflexivity|]. unfold lookup, set. cbn [assoc].
  rewrite (path_eqb_neq _ _ H). apply assoc_remove_other; exact H.
Qed.
Lemma lookup_unset_same f k : k <> [] -> lookup (unset f k) k = None.
Proof. intros H. destruct k as [|c k]; [congruence|]. unfold lookup, unset. apply assoc_remove_same. Qed.
Lemma lookup_unset_other f k q : k <> q -> lookup (unset f k) q = lookup f q.
Proof. intros H. destruct q as [|c q]; [reflexivity|]. unfold lookup, unset. apply assoc_remove_other; exact H. Qed.

(* ---------- dirs_ok ---------- *)
Lemma dirs_ok_ext f f' : forall rest cur,
  (forall pre suf, rest = pre ++ suf -> pre <> [] -> suf <> [] -> lookup f' (cur ++ pre) = lookup f (cur ++ pre)) ->
  dirs_ok f' cur rest = dirs_ok f cur rest.
Proof.
  induction rest as [|c r IH]; intros cur H; [reflexivity|].
  destruct r as [|c2 r2]; [reflexivity|].
  change (dirs_ok f' cur (c :: c2 :: r2)) with
    (if 255 <? nlen c then Some ENAMETOOLONG else
     match lookup f' (cur ++ [c]) with
     | Some Dir => dirs_ok f' (cur ++ [c]) (c2 :: r2) | Some (File _) => Some ENOTDIR | None => Some ENOENT end).
  change (dirs_ok f cur (c :: c2 :: r2)) with
    (if 255 <? nlen c then Some ENAMETOOLONG else
     match lookup f (cur ++ [c]) with
     | Some Dir => dirs_ok f (cur ++ [c]) (c2 :: r2) | Some (File _) => Some ENOTDIR | None => Some ENOENT end).
  destruct (255 <? nlen c); [reflexivity|].
  rewrite (H [c] (c2 :: r2) eq_refl) by discriminate.
  destruct (lookup f (cur ++ [c])) as [[b|]|]; try reflexivity.
  apply IH. intros pre suf E Hp Hs. rewrite <- !app_assoc. cbn [app].
  apply (H (c :: pre) suf); [cbn [app]; rewrite E; reflexivity|discriminate|exact Hs].
Qed.

Lemma dirs_ok_none_prefix f : forall rest cur, dirs_ok f cur rest = None ->
  forall pre suf, rest = pre ++ suf -> pre <> [] -> suf <> [] -> lookup f (cur ++ pre) = Some Dir.
Proof.
  induction rest as [|c r IH]; intros cur H pre suf E Hp Hs.
  - destruct pre; [congruence|discriminate].
  - destruct pre as [|x pre]; [congruence|]. cbn [app] in E. inversion E as [[Ex Er]]. subst x.
    destruct r as [|c2 r2].
    + symmetry in Er. apply app_eq_nil in Er. destruct Er as [_ Er]. congruence.
    + change (dirs_ok f cur (c :: c2 :: r2)) with
        (if 255 <? nlen c then Some ENAMETOOLONG else
         match lookup f (cur ++ [c]) with
         | Some Dir => dirs_ok f (cur ++ [c]) (c2 :: r2) | Some (File _) => Some ENOTDIR | None => Some ENOENT end) in H.
      destruct (255 <? nlen c); [discriminate|].
      destruct (lookup f (cur ++ [c])) as [[b|]|] eqn:L; try discriminate.
      destruct pre as [|y pre]; [exact L|].
      change (cur ++ c :: y :: pre) with (cur ++ [c] ++ (y :: pre)). rewrite app_assoc.
      apply (IH (cur ++ [c]) H (y :: pre) suf); [exact Er|discriminate|exact Hs].
Qed.

(* ---------- mkdir_all ---------- *)
Lemma app_one_ne_nil {A} (l : list A) x : l ++ [x] <> [].
Proof. destruct l; discriminate. Qed.

Lemma mkdir_all_lookup : forall cs f cur f' er, mkdir_all f cur cs = (f', er) ->
  forall r, lookup f' r = lookup f r \/ (lookup f r = None /\ lookup f' r = Some Dir).
Proof.
  induction cs as [|c cs IH]; intros f cur f' er H r; cbn [mkdir_all] in H.
  - inversion H; left; reflexivity.
  - destruct (255 <? nlen c); [inversion H; left; reflexivity|].
    destruct (lookup f (cur ++ [c])) as [[b|]|] eqn:L.
    + inversion H; left; reflexivity.
    + eapply IH; exact H.
    + destruct (IH _ _ _ _ H r) as [E|[E1 E2]]; destruct (path_dec (cur ++ [c]) r) as [Er|Er].
      * subst r. right. split; [exact L|]. rewrite E. apply lookup_set_same. apply app_one_ne_nil.
      * left. rewrite E. apply lookup_set_other; exact Er.
      * subst r. rewrite lookup_set_same in E1 by apply app_one_ne_nil. discriminate.
      * right. split; [|exact E2]. rewrite lookup_set_other in E1 by exact Er. exact E1.
Qed.

Lemma mkdir_all_file_at cs f cur f' er q : mkdir_all f cur cs = (f', er) -> file_at f' q = file_at f q.
Proof.
  intros H. unfold file_at. destruct (mkdir_all_lookup _ _ _ _ _ H q) as [E|[E1 E2]].
  - rewrite E. reflexivity.
  - rewrite E1, E2. reflexivity.
Qed.

(* ---------- sanity: every file is reachable ---------- *)
Definition sane (f : fs) : Prop := forall p b, lookup f p = Some (File b) -> dirs_ok f [] p = None.

Lemma sane_b_sound f : sane_b f = true -> sane f.
Proof.
  unfold sane_b, sane. intros H p b L. rewrite forallb_forall in H.
  destruct p as [|c p]; [discriminate|]. unfold lookup in L. apply assoc_in in L.
  specialize (H _ L). unfold reachable_file in H. cbn [snd fst] in H.
  destruct (dirs_ok f [] (c :: p)); [discriminate|reflexivity].
Qed.

Lemma sane_mkdir cs f cur f' er : mkdir_all f cur cs = (f', er) -> sane f -> sane f'.
Proof.
  intros H Hs p b L.
  destruct (mkdir_all_lookup _ _ _ _ _ H p) as [E|[_ E2]]; [|rewrite E2 in L; discriminate].
  rewrite E in L. rewrite <- (Hs p b L). apply dirs_ok_ext. intros pre suf Ep Hp Hsf. cbn [app].
  pose proof (dirs_ok_none_prefix f p [] (Hs p b L) pre suf Ep Hp Hsf) as LD. cbn [app] in LD.
  destruct (mkdir_all_lookup _ _ _ _ _ H pre) as [E'|[E1' _]]; [exact E'|rewrite LD in E1'; discriminate].
Qed.

Lemma app_self_nil {A} (a b : list A) : a = a ++ b -> b = [].
Proof. intros H. rewrite <- (app_nil_r a) in H at 1. apply app_inv_head in H. symmetry; exact H. Qed.

Lemma sane_set f k b : sane f -> dirs_ok f [] k = None -> lookup f k <> Some Dir -> sane (set f k (File b)).
Proof.
  intros Hs Hd Hk p b' L. destruct (path_dec k p) as [E|E].
  - subst p. rewrite <- Hd. apply dirs_ok_ext. intros pre suf Ep Hp Hsf. cbn [app].
    apply lookup_set_other. intros ->. apply Hsf. eapply app_self_nil; exact Ep.
  - rewrite lookup_set_other in L by exact E. rewrite <- (Hs p b' L). apply dirs_ok_ext.
    intros pre suf Ep Hp Hsf. cbn [app]. apply lookup_set_other. intros ->. apply Hk.
    exact (dirs_ok_none_prefix f p [] (Hs p b' L) pre suf Ep Hp Hsf).
Qed.

Lemma sane_unset f k b0 : sane f -> lookup f k = Some (File b0) -> sane (unset f k).
Proof.
  intros Hs Hk p b' L.
  assert (Hne : k <> []) by (intros ->; discriminate).
  destruct (path_dec k p) as [E|E].
  - subst p. rewrite lookup_unset_same in L by exact Hne. discriminate.
  - rewrite lookup_unset_other in L by exact E. rewrite <- (Hs p b' L). apply dirs_ok_ext.
    intros pre suf Ep Hp Hsf. cbn [app]. apply lookup_unset_other. intros ->.
    pose proof (dirs_ok_none_prefix f p [] (Hs p b' L) pre suf Ep Hp Hsf) as LD. cbn [app] in LD.
    rewrite LD in Hk. discriminate.
Qed.

(* ---------- the operations on a recorded path ---------- *)
Lemma tgt_of_key r1 r2 : key r1 = key r2 -> tgt_of r1 = tgt_of r2.
Proof. unfold key, tgt_of. intros ->. reflexivity. Qed.

Lemma os_write_ok f t d f' : os_write f t d = Ok f' ->
  f' = set f (t_path t) (File d) /\ pre_err f t = None /\ lookup f (t_path t) <> Some Dir.
Proof.
  unfold os_write. destruct (pre_err f t); [discriminate|].
  destruct (lookup f (t_path t)) as [[b|]|]; destruct (t_trail t); try discriminate;
    intros H; inversion H; repeat split; discriminate.
Qed.

Lemma os_remove_ok f t f' : os_remove_file f t = Ok f' ->
  f' = unset f (t_path t) /\ exists b, lookup f (t_path t) = Some (File b).
Proof.
  unfold os_remove_file. destruct (pre_err f t); [discriminate|].
  destruct (lookup f (t_path t)) as [[b|]|]; destruct (t_trail t); try discriminate.
  intros H; inversion H. split; [reflexivity|exists b; reflexivity].
Qed.

Lemma exists_false_no_file f rel : sane f -> os_exists f (tgt_of rel) = false -> file_at f (key rel) = None.
Proof.
  intros Hs H. unfold file_at. destruct (lookup f (key rel)) as [[b|]|] eqn:L; try reflexivity. exfalso.
  unfold os_exists, pre_err in H. cbn [tgt_of t_nul t_base t_comps t_trail t_path app] in H.
  change (real_segs rel) with (key rel) in H. rewrite (Hs _ _ L), L in H. discriminate.
Qed.

Lemma read_ok_file f rel b : os_read f (tgt_of rel) = Ok b -> file_at f (key rel) = Some b.
Proof.
  unfold os_read, file_at. destruct (pre_err f (tgt_of rel)); [discriminate|].
  cbn [tgt_of t_path t_base t_comps t_trail app]. change (real_segs rel) with (key rel).
  destruct (lookup f (key rel)) as [[b'|]|]; try discriminate. intros H; inversion H; reflexivity.
Qed.

Lemma file_readable f rel b : sane f -> file_at f (key rel) = Some b -> os_read f (tgt_of rel) = Ok b.
Proof.
  intros Hs H. unfold file_at in H. destruct (lookup f (key rel)) as [[b'|]|] eqn:L; try discriminate.
  inversion H; subst b'. unfold os_read, pre_err. cbn [tgt_of t_nul t_base t_comps t_trail t_path app].
  change (real_segs rel) with (key rel). rewrite (Hs _ _ L), L. reflexivity.
Qed.

Lemma file_at_set_same f k b : k <> [] -> file_at (set f k (File b)) k = Some b.
Proof. intros H. unfold file_at. rewrite lookup_set_same by exact H. reflexivity. Qed.
Lemma file_at_set_other f k n q : k <> q -> file_at (set f k n) q = file_at f q.
Proof. intros H. unfold file_at. rewrite lookup_set_other by exact H. reflexivity. Qed.
Lemma file_at_unset_same f k : k <> [] -> file_at (unset f k) k = None.
Proof. intros H. unfold file_at. rewrite lookup_unset_same by exact H. reflexivity. Qed.
Lemma file_at_unset_other f k q : k <> q -> file_at (unset f k) q = file_at f q.
Proof. intros H. unfold file_at. rewrite lookup_unset_other by exact H. reflexivity. Qed.

Lemma not_dir_ne_nil f k : lookup f k <> Some Dir -> k <> [].
Proof. intros H ->. apply H. reflexivity. Qed.

(* one successful restore step: the recorded path holds the recorded content, no other file changes *)
Lemma apply_one_ok f e f' : apply_one f e = (f', None) -> sane f ->
  file_at f' (key (fst e)) = snd e
  /\ (forall q, q <> key (fst e) -> file_at f' q = file_at f q)
  /\ sane f'.
Proof.
  destruct e as [rel saved]. unfold apply_one. cbn [fst snd]. intros H Hs.
  destruct saved as [b|].
  - destruct (mk_parent_dirs f (tgt_of rel)) as [f1 er] eqn:Em.
    destruct er as [x|]; [inversion H|].
    destruct (os_write f1 (tgt_of rel) b) as [f2|x] eqn:Ew; inversion H; subst f2.
    unfold mk_parent_dirs in Em. cbn [tgt_of t_nul t_base t_comps] in Em.
    match type of Em with (if ?c then _ else _) = _ => destruct c end; [inversion Em|].
    destruct (os_write_ok _ _ _ _ Ew) as (E2 & Hpre & Hnd).
    cbn [tgt_of t_path t_base t_comps app] in E2, Hnd. change (real_segs rel) with (key rel) in E2, Hnd.
    unfold pre_err in Hpre. cbn [tgt_of t_nul t_base t_comps] in Hpre. change (real_segs rel) with (key rel) in Hpre.
    pose proof (not_dir_ne_nil _ _ Hnd) as Hne. subst f'. repeat split.
    + apply file_at_set_same; exact Hne.
    + intros q Hq. rewrite file_at_set_other by (intros Eq; apply Hq; symmetry; exact Eq).
      eapply mkdir_all_file_at; exact Em.
    + apply sane_set; [eapply sane_mkdir; [exact Em|exact Hs]|exact Hpre|exact Hnd].
  - destruct (os_exists f (tgt_of rel)) eqn:Ex.
    + destruct (os_remove_file f (tgt_of rel)) as [f2|x] eqn:Er; inversion H; subst f2.
      destruct (os_remove_ok _ _ _ Er) as (E2 & b0 & Lk).
      cbn [tgt_of t_path t_base t_comps app] in E2, Lk. change (real_segs rel) with (key rel) in E2, Lk.
      assert (Hne : key rel <> []) by (intros E0; rewrite E0 in Lk; discriminate).
      subst f'. repeat split.
      * apply file_at_unset_same; exact Hne.
      * intros q Hq. apply file_at_unset_other. intros Eq; apply Hq; symmetry; exact Eq.
      * eapply sane_unset; [exact Hs|exact Lk].
    + inversion H; subst f'. split; [apply exists_false_no_file; assumption|]. split; [intros q Hq; reflexivity|exact Hs].
Qed.

(* a value at a path survives the remaining steps when every remaining entry for that path records it *)
Lemma apply_all_view : forall ck f f', apply_all f ck = (f', None) -> sane f ->
  sane f' /\ forall q v, file_at f q = v -> (forall e, In e ck -> key (fst e) = q -> snd e = v) -> file_at f' q = v.
Proof.
  induction ck as [|e r IH]; intros f f' H Hs; cbn [apply_all] in H.
  - inversion H; subst f'. split; [exact Hs|]. intros q v Hq _; exact Hq.
  - destruct (apply_one f e) as [f1 er] eqn:E1. destruct er as [x|]; [inversion H|].
    destruct (apply_one_ok _ _ _ E1 Hs) as (Hk & Ho & Hs1).
    destruct (IH _ _ H Hs1) as [Hs' Hv]. split; [exact Hs'|].
    intros q v Hq Hall. apply Hv.
    + destruct (path_dec q (key (fst e))) as [Eq|Eq].
      * subst q. rewrite Hk. apply Hall; [left; reflexivity|reflexivity].
      * rewrite Ho by exact Eq. exact Hq.
    + intros e' Hin. apply Hall. right; exact Hin.
Qed.

Definition consistent (ck : list entry) : Prop :=
  forall e1 e2, In e1 ck -> In e2 ck -> key (fst e1) = key (fst e2) -> snd e1 = snd e2.

Lemma apply_all_exact : forall ck f f', apply_all f ck = (f', None) -> sane f -> consistent ck ->
  sane f' /\ (forall e, In e ck -> file_at f' (key (fst e)) = snd e)
  /\ (forall q, (forall e, In e ck -> key (fst e) <> q) -> file_at f' q = file_at f q).
Proof.
  induction ck as [|e r IH]; intros f f' H Hs Hc.
  - cbn [apply_all] in H. inversion H; subst f'. split; [exact Hs|]. split; [intros e []|intros q Hq; reflexivity].
  - pose proof H as H0. cbn [apply_all] in H. destruct (apply_one f e) as [f1 er] eqn:E1. destruct er as [x|]; [inversion H|].
    destruct (apply_one_ok _ _ _ E1 Hs) as (Hk & Ho & Hs1).
    assert (Hc' : consistent r).
    { intros a b Ha Hb. apply Hc; right; assumption. }
    destruct (IH _ _ H Hs1 Hc') as (Hs' & Hin & Hout). split; [exact Hs'|]. split.
    + intros e' [E|Hin']; [subst e'|apply Hin; exact Hin'].
      destruct (apply_all_view _ _ _ H Hs1) as [_ Hv]. apply (Hv _ _ Hk).
      intros e2 Hin2 Ek. apply Hc; [right; exact Hin2|left; reflexivity|exact Ek].
    + intros q Hq. rewrite Hout by (intros e' Hin'; apply Hq; right; exact Hin').
      apply Ho. intros Eq. apply (Hq e); [left; reflexivity|symmetry; exact Eq].
Qed.

(* ---------- create ---------- *)
Lemma map_res_in {A B} (g : A -> res B) : forall l ys, map_res g l = Ok ys ->
  forall y, In y ys -> exists x, In x l /\ g x = Ok y.
Proof.
  induction l as [|x l IH]; intros ys H y Hy; cbn [map_res] in H.
  - inversion H; subst ys. destruct Hy.
  - destruct (g x) as [y0|e] eqn:Ex; [|discriminate]. destruct (map_res g l) as [ys0|e]; [|discriminate].
    inversion H; subst ys. destruct Hy as [->|Hy].
    + exists x. split; [left; reflexivity|exact Ex].
    + destruct (IH _ eq_refl _ Hy) as (x' & Hin & Hx). exists x'. split; [right; exact Hin|exact Hx].
Qed.

Lemma save_one_spec f rel e : save_one f rel = Ok e ->
  fst e = rel /\ match snd e with
                 | Some b => os_read f (tgt_of rel) = Ok b
                 | None => os_exists f (tgt_of rel) = false
                 end.
Proof.
  unfold save_one. destruct (os_exists f (tgt_of rel)) eqn:Ex.
  - destruct (os_read f (tgt_of rel)) as [b|x] eqn:Er; [|discriminate]. intros H; inversion H. split; reflexivity.
  - intros H; inversion H. split; reflexivity.
Qed.

Lemma save_one_key f r1 r2 e1 e2 : key r1 = key r2 -> save_one f r1 = Ok e1 -> save_one f r2 = Ok e2 -> snd e1 = snd e2.
Proof.
  intros Hk. unfold save_one. rewrite (tgt_of_key _ _ Hk).
  destruct (os_exists f (tgt_of r2)); [destruct (os_read f (tgt_of r2))|]; intros H1 H2; inversion H1; inversion H2; reflexivity.
Qed.

Lemma create_entries f root raws ck : create f root raws = Ok ck ->
  forall e, In e ck -> (exists raw, In raw raws /\ to_relative root raw = Ok (fst e)) /\ save_one f (fst e) = Ok e.
Proof.
  unfold create. destruct (map_res (to_relative root) raws) as [rels|x] eqn:Er; [|discriminate].
  intros H e He. destruct (map_res_in _ _ _ H e He) as (rel & Hin & Hs).
  destruct (save_one_spec _ _ _ Hs) as [Ef _]. rewrite Ef. split; [|exact Hs].
  destruct (map_res_in _ _ _ Er rel Hin) as (raw & Hr & Ht). exists raw. split; assumption.
Qed.

Lemma create_consistent f root raws ck : create f root raws = Ok ck -> consistent ck.
Proof.
  intros H e1 e2 H1 H2 Hk.
  destruct (create_entries _ _ _ _ H e1 H1) as [_ S1]. destruct (create_entries _ _ _ _ H e2 H2) as [_ S2].
  eapply save_one_key; eassumption.
Qed.

Lemma create_refused_no_effect f root raws e :
  map_res (to_relative root) raws = Err e -> create f root raws = Err e.
Proof. unfold create. intros ->. reflexivity. Qed.

(* ---------- rewind ---------- *)
Theorem rewind_exact f root raws ck f2 f3 :
  create f root raws = Ok ck -> sane f2 -> rewind f2 ck = (f3, None) ->
  (forall rel saved, In (rel, saved) ck ->
     match saved with
     | Some b => os_read f (tgt_of rel) = Ok b /\ os_read f3 (tgt_of rel) = Ok b
     | None => os_exists f (tgt_of rel) = false /\ file_at f3 (key rel) = None
     end)
  /\ (forall q, (forall rel saved, In (rel, saved) ck -> key rel <> q) -> file_at f3 q = file_at f2 q).
Proof.
  intros Hc Hs Hr. unfold rewind in Hr.
  destruct (map_res (save_one f2) (map fst ck)) as [snap|x]; [|inversion Hr].
  destruct (apply_all f2 ck) as [f1 er] eqn:Ea. destruct er as [x|]; inversion Hr; subst f1.
  destruct (apply_all_exact _ _ _ Ea Hs (create_consistent _ _ _ _ Hc)) as (Hs3 & Hin & Hout). split.
  - intros rel saved He. pose proof (Hin _ He) as Hv. cbn [fst snd] in Hv.
    destruct (create_entries _ _ _ _ Hc _ He) as [_ Hsv]. cbn [fst] in Hsv.
    destruct (save_one_spec _ _ _ Hsv) as [_ Hsp]. cbn [snd] in Hsp.
    destruct saved as [b|]; split; try exact Hsp; [apply file_readable; assumption|exact Hv].
  - intros q Hq. apply Hout. intros [rel saved] He. cbn [fst]. apply (Hq rel saved He).
Qed.

(* a refused snapshot (a covered path is now a directory) changes nothing *)
Lemma rewind_snapshot_error f ck e :
  map_res (save_one f) (map fst ck) = Err e -> rewind f ck = (f, Some e).
Proof. unfold rewind. intros ->. reflexivity. Qed.


(* ====================================================================================== *)
(* a rewind that fails leaves every file of the workspace as it was                        *)
(* ====================================================================================== *)
Definition strict_prefix (r k : path) : Prop := exists suf, k = r ++ suf /\ r <> [] /\ suf <> [].
Definition dirmono (f g : fs) : Prop := forall r, lookup f r = Some Dir -> lookup g r = Some Dir.

Lemma dirs_ok_prefix f : forall pre cur suf, dirs_ok f cur (pre ++ suf) = None -> pre <> [] -> dirs_ok f cur pre = None.
Proof.
  induction pre as [|c pre IH]; intros cur suf H Hne; [congruence|].
  destruct pre as [|c2 pre'].
  - cbn [app] in H. destruct suf as [|s suf'].
    + exact H.
    + change (dirs_ok f cur (c :: s :: suf')) with
        (if 255 <? nlen c then Some ENAMETOOLONG else
         match lookup f (cur ++ [c]) with
         | Some Dir => dirs_ok f (cur ++ [c]) (s :: suf') | Some (File _) => Some ENOTDIR | None => Some ENOENT end) in H.
      cbn [dirs_ok]. destruct (255 <? nlen c); [discriminate|reflexivity].
  - change ((c :: c2 :: pre') ++ suf) with (c :: c2 :: (pre' ++ suf)) in H.
    change (dirs_ok f cur (c :: c2 :: (pre' ++ suf))) with
      (if 255 <? nlen c then Some ENAMETOOLONG else
       match lookup f (cur ++ [c]) with
       | Some Dir => dirs_ok f (cur ++ [c]) (c2 :: (pre' ++ suf)) | Some (File _) => Some ENOTDIR | None => Some ENOENT end) in H.
    change (dirs_ok f cur (c :: c2 :: pre')) with
      (if 255 <? nlen c then Some ENAMETOOLONG else
       match lookup f (cur ++ [c]) with
       | Some Dir => dirs_ok f (cur ++ [c]) (c2 :: pre') | Some (File _) => Some ENOTDIR | None => Some ENOENT end).
    destruct (255 <? nlen c); [discriminate|].
    destruct (lookup f (cur ++ [c])) as [[b|]|]; try discriminate.
    apply (IH (cur ++ [c]) suf); [exact H|discriminate].
Qed.

(* where mkdir_all creates directories *)
Lemma mkdir_all_where : forall cs f cur f' er, mkdir_all f cur cs = (f', er) ->
  forall r, lookup f' r = lookup f r
            \/ (lookup f r = None /\ lookup f' r = Some Dir /\ exists pre suf, cs = pre ++ suf /\ pre <> [] /\ r = cur ++ pre).
Proof.
  induction cs as [|c cs IH]; intros f cur f' er H r; cbn [mkdir_all] in H.
  - inversion H; left; reflexivity.
  - destruct (255 <? nlen c); [inversion H; left; reflexivity|].
    destruct (lookup f (cur ++ [c])) as [[b|]|] eqn:L.
    + inversion H; left; reflexivity.
    + destruct (IH _ _ _ _ H r) as [E|(E1 & E2 & pre & suf & Ec & Hp & Er)]; [left; exact E|].
      right. split; [exact E1|]. split; [exact E2|]. exists (c :: pre), suf. split; [cbn [app]; rewrite Ec; reflexivity|].
      split; [discriminate|]. rewrite Er, <- app_assoc. reflexivity.
    + destruct (path_dec (cur ++ [c]) r) as [Er|Er].
      * subst r. right. split; [exact L|]. split.
        -- destruct (IH _ _ _ _ H (cur ++ [c])) as [E|(E1 & _)].
           ++ rewrite E. apply lookup_set_same. apply app_one_ne_nil.
           ++ rewrite lookup_set_same in E1 by apply app_one_ne_nil. discriminate.
        -- exists [c], cs. split; [reflexivity|]. split; [discriminate|reflexivity].
      * destruct (IH _ _ _ _ H r) as [E|(E1 & E2 & pre & suf & Ec & Hp & Err)].
        -- left. rewrite E. apply lookup_set_other; exact Er.
        -- right. rewrite lookup_set_other in E1 by exact Er. split; [exact E1|]. split; [exact E2|].
           exists (c :: pre), suf. split; [cbn [app]; rewrite Ec; reflexivity|]. split; [discriminate|].
           rewrite Err, <- app_assoc. reflexivity.
Qed.

Lemma removelast_strict (k : path) pre suf : removelast k = pre ++ suf -> pre <> [] -> strict_prefix pre k.
Proof.
  intros E Hp. destruct k as [|c k]; [cbn in E; symmetry in E; apply app_eq_nil in E; destruct E; congruence|].
  assert (Hk : c :: k <> []) by discriminate.
  exists (suf ++ [last (c :: k) []]). split; [|split; [exact Hp|apply app_one_ne_nil]].
  rewrite app_assoc, <- E. apply app_removelast_last. exact Hk.
Qed.

Section Restore.
  Variable f2 : fs.
  Variable K : path -> Prop.
  Hypothesis sane2 : sane f2.

  Record Good (g : fs) : Prop := {
    g_sane : sane g;
    g_mono : dirmono f2 g;
    g_nodir : forall k, K k -> lookup g k = Some Dir -> lookup f2 k = Some Dir;
    g_out : forall q, ~ K q -> file_at g q = file_at f2 q
  }.

  (* creating the parents of k never turns a covered path into a directory *)
  Definition safe_parents (k : path) : Prop := forall r, strict_prefix r k -> K r -> lookup f2 r = Some Dir.

  Lemma good_init : Good f2.
  Proof. constructor; [exact sane2|intros r H; exact H|intros k _ H; exact H|reflexivity]. Qed.

  Lemma good_mkdir g k g1 er : Good g -> safe_parents k -> mkdir_all g [] (removelast k) = (g1, er) -> Good g1.
  Proof.
    intros G Hs H. constructor.
    - eapply sane_mkdir; [exact H|apply G].
    - intros r Hr. pose proof (g_mono _ G r Hr) as Hg.
      destruct (mkdir_all_lookup _ _ _ _ _ H r) as [E|[E1 _]]; [rewrite E; exact Hg|rewrite Hg in E1; discriminate].
    - intros k' Hk' Hd. destruct (mkdir_all_where _ _ _ _ _ H k') as [E|(E1 & E2 & pre & suf & Ec & Hp & Er)].
      + rewrite E in Hd. apply (g_nodir _ G); assumption.
      + cbn [app] in Er. subst k'. apply Hs; [eapply removelast_strict; eassumption|exact Hk'].
    - intros q Hq. rewrite (mkdir_all_file_at _ _ _ _ _ q H). apply (g_out _ G); exact Hq.
  Qed.

  Lemma good_set g k b : Good g -> K k -> dirs_ok g [] k = None -> lookup g k <> Some Dir -> Good (set g k (File b)).
  Proof.
    intros G Hk Hd Hn. constructor.
    - apply sane_set; [apply G|exact Hd|exact Hn].
    - intros r Hr. pose proof (g_mono _ G r Hr) as Hg. rewrite lookup_set_other; [exact Hg|]. intros ->. contradiction.
    - intros k' Hk' Hd'. destruct (path_dec k k') as [E|E].
      + subst k'. rewrite lookup_set_same in Hd' by (eapply not_dir_ne_nil; exact Hn). discriminate.
      + rewrite lookup_set_other in Hd' by exact E. apply (g_nodir _ G); assumption.
    - intros q Hq. rewrite file_at_set_other by (intros ->; contradiction). apply (g_out _ G); exact Hq.
  Qed.

  Lemma good_unset g k b0 : Good g -> K k -> lookup g k = Some (File b0) -> Good (unset g k).
  Proof.
    intros G Hk L. constructor.
    - eapply sane_unset; [apply G|exact L].
    - intros r Hr. pose proof (g_mono _ G r Hr) as Hg. rewrite lookup_unset_other; [exact Hg|]. intros ->. rewrite L in Hg. discriminate.
    - intros k' Hk' Hd'. destruct (path_dec k k') as [E|E].
      + subst k'. rewrite lookup_unset_same in Hd' by (intros E0; rewrite E0 in L; discriminate). discriminate.
      + rewrite lookup_unset_other in Hd' by exact E. apply (g_nodir _ G); assumption.
    - intros q Hq. rewrite file_at_unset_other by (intros ->; contradiction). apply (g_out _ G); exact Hq.
  Qed.

  Lemma good_parents g rel g1 er : Good g -> safe_parents (key rel) -> mk_parent_dirs g (tgt_of rel) = (g1, er) -> Good g1.
  Proof.
    intros G Hs H. unfold mk_parent_dirs in H. cbn [tgt_of t_nul t_base t_comps] in H.
    match type of H with (if ?c then _ else _) = _ => destruct c end.
    - inversion H; subst g1; exact G.
    - eapply good_mkdir; [exact G|exact Hs|exact H].
  Qed.

  (* one step of the restore loop, successful or not *)
  Lemma good_apply_one g e g' er : Good g -> K (key (fst e)) ->
    (forall b, snd e = Some b -> safe_parents (key (fst e))) -> apply_one g e = (g', er) -> Good g'.
  Proof.
    destruct e as [rel saved]. cbn [fst snd]. intros G Hk Hs H. unfold apply_one in H. cbn [fst snd] in H.
    destruct saved as [b|].
    - destruct (mk_parent_dirs g (tgt_of rel)) as [g1 e1] eqn:Em.
      pose proof (good_parents _ _ _ _ G (Hs b eq_refl) Em) as G1.
      destruct e1 as [x|]; [inversion H; subst g'; exact G1|].
      destruct (os_write g1 (tgt_of rel) b) as [g2|x] eqn:Ew; inversion H; subst g'; [|exact G1].
      destruct (os_write_ok _ _ _ _ Ew) as (E2 & Hpre & Hnd).
      cbn [tgt_of t_path t_base t_comps app] in E2, Hnd. change (real_segs rel) with (key rel) in E2, Hnd.
      unfold pre_err in Hpre. cbn [tgt_of t_nul t_base t_comps] in Hpre. change (real_segs rel) with (key rel) in Hpre.
      subst g2. apply good_set; assumption.
    - destruct (os_exists g (tgt_of rel)).
      + destruct (os_remove_file g (tgt_of rel)) as [g2|x] eqn:Er; inversion H; subst g'; [|exact G].
        destruct (os_remove_ok _ _ _ Er) as (E2 & b0 & Lk).
        cbn [tgt_of t_path t_base t_comps app] in E2, Lk. change (real_segs rel) with (key rel) in E2, Lk.
        subst g2. eapply good_unset; eassumption.
      + inversion H; subst g'; exact G.
  Qed.

  Lemma good_apply_all : forall ck g g' er, Good g ->
    (forall e, In e ck -> K (key (fst e)) /\ (forall b, snd e = Some b -> safe_parents (key (fst e)))) ->
    apply_all g ck = (g', er) -> Good g'.
  Proof.
    induction ck as [|e r IH]; intros g g' er G Hall H; cbn [apply_all] in H.
    - inversion H; subst g'; exact G.
    - destruct (apply_one g e) as [g1 e1] eqn:E1.
      destruct (Hall e (or_introl eq_refl)) as [Hk Hs].
      pose proof (good_apply_one _ _ _ _ G Hk Hs E1) as G1.
      destruct e1 as [x|]; [inversion H; subst g'; exact G1|].
      eapply IH; [exact G1| |exact H]. intros e' Hin. apply Hall. right; exact Hin.
  Qed.

  (* one undo step for an entry that records the state of f2 *)
  Lemma undo_one_restores g rel s : Good g -> K (key rel) -> file_at f2 (key rel) = s ->
    Good (undo_one g (rel, s))
    /\ file_at (undo_one g (rel, s)) (key rel) = s
    /\ forall q, q <> key rel -> file_at (undo_one g (rel, s)) q = file_at g q.
  Proof.
    intros G Hk Hs. unfold undo_one. cbn [fst snd]. destruct s as [b|].
    - (* the file existed in f2: its ancestors were, and still are, directories *)
      assert (L2 : lookup f2 (key rel) = Some (File b)).
      { unfold file_at in Hs. destruct (lookup f2 (key rel)) as [[b'|]|]; try discriminate. inversion Hs; reflexivity. }
      pose proof (sane2 _ _ L2) as D2.
      assert (Hsafe : safe_parents (key rel)).
      { intros r (suf & Ek & Hr & Hsuf) _. exact (dirs_ok_none_prefix f2 (key rel) [] D2 r suf Ek Hr Hsuf). }
      destruct (mk_parent_dirs g (tgt_of rel)) as [g1 e1] eqn:Em.
      pose proof (good_parents _ _ _ _ G Hsafe Em) as G1.
      assert (Hfile1 : forall q, file_at g1 q = file_at g q).
      { intros q. unfold mk_parent_dirs in Em. cbn [tgt_of t_nul t_base t_comps] in Em.
        match type of Em with (if ?c then _ else _) = _ => destruct c end.
        - inversion Em; reflexivity.
        - eapply mkdir_all_file_at; exact Em. }
      assert (Hd1 : dirs_ok g1 [] (key rel) = None).
      { rewrite <- D2. apply dirs_ok_ext. intros pre suf Ek Hp Hsuf. cbn [app].
        pose proof (dirs_ok_none_prefix f2 (key rel) [] D2 pre suf Ek Hp Hsuf) as LD. cbn [app] in LD.
        rewrite LD. apply (g_mono _ G1). exact LD. }
      assert (Hn1 : lookup g1 (key rel) <> Some Dir).
      { intros Hd. pose proof (g_nodir _ G1 _ Hk Hd) as Hd2. rewrite L2 in Hd2. discriminate. }
      assert (Ew : os_write g1 (tgt_of rel) b = Ok (set g1 (key rel) (File b))).
      { unfold os_write, pre_err. cbn [tgt_of t_nul t_base t_comps t_trail t_path app].
        change (real_segs rel) with (key rel). rewrite Hd1.
        destruct (lookup g1 (key rel)) as [[b'|]|]; try reflexivity. exfalso. apply Hn1. reflexivity. }
      rewrite Ew. pose proof (not_dir_ne_nil _ _ Hn1) as Hne. split; [apply good_set; assumption|]. split.
      + apply file_at_set_same; exact Hne.
      + intros q Hq. rewrite file_at_set_other by (intros Eq; apply Hq; symmetry; exact Eq). apply Hfile1.
    - destruct (os_remove_file g (tgt_of rel)) as [g2|x] eqn:Er.
      + destruct (os_remove_ok _ _ _ Er) as (E2 & b0 & Lk).
        cbn [tgt_of t_path t_base t_comps app] in E2, Lk. change (real_segs rel) with (key rel) in E2, Lk.
        assert (Hne : key rel <> []) by (intros E0; rewrite E0 in Lk; discriminate).
        subst g2. split; [eapply good_unset; eassumption|]. split.
        * apply file_at_unset_same; exact Hne.
        * intros q Hq. apply file_at_unset_other. intros Eq; apply Hq; symmetry; exact Eq.
      + split; [exact G|]. split; [|reflexivity].
        unfold file_at. destruct (lookup g (key rel)) as [[b|]|] eqn:L; try reflexivity. exfalso.
        unfold os_remove_file, pre_err in Er. cbn [tgt_of t_nul t_base t_comps t_trail t_path app] in Er.
        change (real_segs rel) with (key rel) in Er. rewrite (g_sane _ G _ _ L), L in Er. discriminate.
  Qed.

  Lemma undo_all_view : forall u g, Good g ->
    (forall x, In x u -> K (key (fst x)) /\ file_at f2 (key (fst x)) = snd x) ->
    Good (undo_all g u)
    /\ forall q v, file_at g q = v -> (forall x, In x u -> key (fst x) = q -> snd x = v) -> file_at (undo_all g u) q = v.
  Proof.
    induction u as [|x u IH]; intros g G Hall.
    - split; [exact G|]. intros q v Hq _; exact Hq.
    - destruct x as [rel s]. destruct (Hall _ (or_introl eq_refl)) as [Hk Hs]. cbn [fst snd] in Hk, Hs.
      destruct (undo_one_restores g rel s G Hk Hs) as (G1 & Hv & Ho).
      unfold undo_all. cbn [fold_left]. fold (undo_all (undo_one g (rel, s)) u).
      destruct (IH _ G1 (fun y Hy => Hall y (or_intror Hy))) as [G' Hview]. split; [exact G'|].
      intros q v Hq Hsame. apply Hview.
      + destruct (path_dec q (key rel)) as [E|E].
        * subst q. rewrite Hv. apply (Hsame (rel, s) (or_introl eq_refl) eq_refl).
        * rewrite Ho by exact E. exact Hq.
      + intros y Hy. apply Hsame. right; exact Hy.
  Qed.

  Lemma undo_all_covered : forall u g q, Good g ->
    (forall x, In x u -> K (key (fst x)) /\ file_at f2 (key (fst x)) = snd x) ->
    (exists x, In x u /\ key (fst x) = q) -> file_at (undo_all g u) q = file_at f2 q.
  Proof.
    induction u as [|y u IH]; intros g q G Hall (x & Hin & Hkx); [destruct Hin|].
    destruct y as [rel s]. destruct (Hall _ (or_introl eq_refl)) as [Hk Hs]. cbn [fst snd] in Hk, Hs.
    destruct (undo_one_restores g rel s G Hk Hs) as (G1 & Hv & Ho).
    unfold undo_all. cbn [fold_left]. fold (undo_all (undo_one g (rel, s)) u).
    pose proof (fun z Hz => Hall z (or_intror Hz)) as Hall'.
    destruct (path_dec (key rel) q) as [E|E].
    - destruct (undo_all_view u _ G1 Hall') as [_ Hview]. apply Hview.
      + rewrite <- E, Hv. symmetry. exact Hs.
      + intros z Hz Ekz. destruct (Hall' z Hz) as [_ Hsz]. rewrite Ekz in Hsz. symmetry. exact Hsz.
    - destruct Hin as [Ex|Hin]; [subst x; cbn [fst] in Hkx; contradiction|].
      apply IH; [exact G1|exact Hall'|exists x; split; assumption].
  Qed.
End Restore.

(* ---------- BTreeMap facts ---------- *)
Lemma bt_insert_in e l x : In x (bt_insert e l) -> x = e \/ In x l.
Proof.
  induction l as [|h r IH]; cbn [bt_insert]; [intros [->|[]]; left; reflexivity|].
  destruct (str_eqb (fst e) (fst h)); [intros [->|H]; [left; reflexivity|right; right; exact H]|].
  destruct (str_ltb (fst e) (fst h)); [intros [->|H]; [left; reflexivity|right; exact H]|].
  intros [->|H]; [right; left; reflexivity|]. destruct (IH H) as [->|H']; [left; reflexivity|right; right; exact H'].
Qed.

Lemma bt_insert_cover e l :
  In e (bt_insert e l) /\ forall y, In y l -> exists x, In x (bt_insert e l) /\ fst x = fst y.
Proof.
  induction l as [|h r [IHe IHl]]; cbn [bt_insert]; [split; [left; reflexivity|intros y []]|].
  destruct (str_eqb (fst e) (fst h)) eqn:Eq.
  - split; [left; reflexivity|]. intros y [->|Hy].
    + exists e. split; [left; reflexivity|]. apply lN_eqb_spec. exact Eq.
    + exists y. split; [right; exact Hy|reflexivity].
  - destruct (str_ltb (fst e) (fst h)).
    + split; [left; reflexivity|]. intros y Hy. exists y. split; [right; exact Hy|reflexivity].
    + split; [right; exact IHe|]. intros y [->|Hy].
      * exists y. split; [left; reflexivity|reflexivity].
      * destruct (IHl y Hy) as (x & Hx & Ex). exists x. split; [right; exact Hx|exact Ex].
Qed.

Lemma btree_fold_in : forall l acc x, In x (fold_left (fun a e => bt_insert e a) l acc) -> In x l \/ In x acc.
Proof.
  induction l as [|e l IH]; intros acc x H; cbn [fold_left] in H; [right; exact H|].
  destruct (IH _ _ H) as [H1|H1]; [left; right; exact H1|].
  destruct (bt_insert_in _ _ _ H1) as [->|H2]; [left; left; reflexivity|right; exact H2].
Qed.

Lemma btree_fold_cover : forall l acc y, In y l \/ In y acc ->
  exists x, In x (fold_left (fun a e => bt_insert e a) l acc) /\ fst x = fst y.
Proof.
  induction l as [|e l IH]; intros acc y H; cbn [fold_left].
  - destruct H as [[]|H]. exists y. split; [exact H|reflexivity].
  - destruct (bt_insert_cover e acc) as [He Hl]. destruct H as [[->|H]|H].
    + apply IH. right; exact He.
    + apply IH. left; exact H.
    + destruct (Hl y H) as (x' & Hx' & Ex'). destruct (IH (bt_insert e acc) x' (or_intror Hx')) as (x & Hx & Ex).
      exists x. split; [exact Hx|rewrite Ex; exact Ex'].
Qed.

Lemma map_res_cover {A B} (g : A -> res B) : forall l ys, map_res g l = Ok ys ->
  forall x, In x l -> exists y, In y ys /\ g x = Ok y.
Proof.
  induction l as [|x0 l IH]; intros ys H x Hx; [destruct Hx|]. cbn [map_res] in H.
  destruct (g x0) as [y0|e] eqn:E0; [|discriminate]. destruct (map_res g l) as [ys0|e]; [|discriminate].
  inversion H; subst ys. destruct Hx as [->|Hx].
  - exists y0. split; [left; reflexivity|exact E0].
  - destruct (IH _ eq_refl _ Hx) as (y & Hy & Ey). exists y. split; [right; exact Hy|exact Ey].
Qed.

(* no recorded path lies strictly above a recorded file *)
Lemma create_incompat f root raws ck : create f root raws = Ok ck -> sane f ->
  forall e1 e2 b, In e1 ck -> In e2 ck -> snd e2 = Some b -> ~ strict_prefix (key (fst e1)) (key (fst e2)).
Proof.
  intros Hc Hs e1 e2 b H1 H2 Hb (suf & Ek & Hr & Hsuf).
  destruct (create_entries _ _ _ _ Hc e2 H2) as [_ S2]. destruct (create_entries _ _ _ _ Hc e1 H1) as [_ S1].
  destruct (save_one_spec _ _ _ S2) as [_ Sp2]. rewrite Hb in Sp2.
  pose proof (read_ok_file _ _ _ Sp2) as F2. unfold file_at in F2.
  destruct (lookup f (key (fst e2))) as [[b'|]|] eqn:L2; try discriminate.
  pose proof (Hs _ _ L2) as D2. rewrite Ek in D2.
  pose proof (dirs_ok_none_prefix f _ [] D2 (key (fst e1)) suf eq_refl Hr Hsuf) as LD. cbn [app] in LD.
  pose proof (dirs_ok_prefix f _ [] suf D2 Hr) as D1.
  unfold save_one in S1.
  assert (Ex : os_exists f (tgt_of (fst e1)) = true).
  { unfold os_exists, pre_err. cbn [tgt_of t_nul t_base t_comps t_trail t_path app].
    change (real_segs (fst e1)) with (key (fst e1)). rewrite D1, LD. reflexivity. }
  assert (Er : os_read f (tgt_of (fst e1)) = Err EISDIR).
  { unfold os_read, pre_err. cbn [tgt_of t_nul t_base t_comps t_trail t_path app].
    change (real_segs (fst e1)) with (key (fst e1)). rewrite D1, LD. reflexivity. }
  rewrite Ex, Er in S1. discriminate.
Qed.

Lemma covered_dec (ck : list entry) q :
  (exists e0, In e0 ck /\ key (fst e0) = q) \/ ~ (exists e0, In e0 ck /\ key (fst e0) = q).
Proof.
  induction ck as [|e r IH]; [right; intros (e0 & [] & _)|].
  destruct (path_dec (key (fst e)) q) as [E|E]; [left; exists e; split; [left; reflexivity|exact E]|].
  destruct IH as [(e0 & Hin & Ek)|Hn]; [left; exists e0; split; [right; exact Hin|exact Ek]|].
  right. intros (e0 & [->|Hin] & Ek); [contradiction|]. apply Hn. exists e0. split; assumption.
Qed.

Theorem rewind_failure_restores f root raws ck f2 f3 e :
  create f root raws = Ok ck -> sane f -> sane f2 -> rewind f2 ck = (f3, Some e) ->
  forall q, file_at f3 q = file_at f2 q.
Proof.
  intros Hc Hs Hs2 Hr q. unfold rewind in Hr.
  destruct (map_res (save_one f2) (map fst ck)) as [snap|x] eqn:Esnap; [|inversion Hr; reflexivity].
  destruct (apply_all f2 ck) as [f1 er] eqn:Ea. destruct er as [x|]; [|inversion Hr]. inversion Hr; subst f3.
  set (K := fun k : path => exists e0, In e0 ck /\ key (fst e0) = k).
  assert (G1 : Good f2 K f1).
  { eapply good_apply_all; [apply good_init; exact Hs2| |exact Ea].
    intros e0 Hin. split; [exists e0; split; [exact Hin|reflexivity]|].
    intros b Hb r Hsp (e1 & Hin1 & Ek1). exfalso. rewrite <- Ek1 in Hsp.
    exact (create_incompat _ _ _ _ Hc Hs e1 e0 b Hin1 Hin Hb Hsp). }
  assert (Hall : forall x0, In x0 (btree snap) -> K (key (fst x0)) /\ file_at f2 (key (fst x0)) = snd x0).
  { intros x0 Hx0. destruct (btree_fold_in _ _ _ Hx0) as [Hin|[]].
    destruct (map_res_in _ _ _ Esnap _ Hin) as (rel & Hrel & Sv).
    destruct (save_one_spec _ _ _ Sv) as [Ef Sp]. rewrite Ef. split.
    - apply in_map_iff in Hrel. destruct Hrel as (e0 & Ee0 & Hin0). exists e0. split; [exact Hin0|rewrite Ee0; reflexivity].
    - destruct (snd x0) as [b|]; [apply read_ok_file; exact Sp|apply exists_false_no_file; assumption]. }
  destruct (covered_dec ck q) as [Hk|Hk].
  - apply (undo_all_covered f2 K Hs2 _ _ _ G1 Hall).
    destruct Hk as (e0 & Hin0 & Ek0).
    destruct (map_res_cover _ _ _ Esnap (fst e0) (in_map fst _ _ Hin0)) as (y & Hy & Sv).
    destruct (save_one_spec _ _ _ Sv) as [Ef _].
    destruct (btree_fold_cover snap [] y (or_introl Hy)) as (x0 & Hx0 & Ex0).
    exists x0. split; [exact Hx0|]. rewrite Ex0, Ef. exact Ek0.
  - destruct (undo_all_view f2 K Hs2 _ _ G1 Hall) as [G' _]. apply (g_out _ _ _ G'). exact Hk.
Qed.

Theorem rewind_failure_restores_b f root raws ck f2 f3 e :
  create f root raws = Ok ck -> sane_b f = true -> sane_b f2 = true -> rewind f2 ck = (f3, Some e) ->
  forall q, file_at f3 q = file_at f2 q.
Proof. intros Hc Hs Hs2. apply (rewind_failure_restores f root raws ck f2 f3 e Hc (sane_b_sound _ Hs) (sane_b_sound _ Hs2)). Qed.

(* the decidable form of the hypothesis, as evaluated by the correspondence on every observed workspace *)
Theorem rewind_exact_b f root raws ck f2 f3 :
  create f root raws = Ok ck -> sane_b f2 = true -> rewind f2 ck = (f3, None) ->
  (forall rel saved, In (rel, saved) ck ->
     match saved with
     | Some b => os_read f (tgt_of rel) = Ok b /\ os_read f3 (tgt_of rel) = Ok b
     | None => os_exists f (tgt_of rel) = false /\ file_at f3 (key rel) = None
     end)
  /\ (forall q, (forall rel saved, In (rel, saved) ck -> key rel <> q) -> file_at f3 q = file_at f2 q).
Proof. intros Hc Hs. apply (rewind_exact f root raws ck f2 f3 Hc (sane_b_sound _ Hs)). Qed.

(* every requested path is covered, under the name rewind will use *)
Lemma create_covers f root raws ck : create f root raws = Ok ck ->
  forall raw, In raw raws -> exists rel saved, to_relative root raw = Ok rel /\ In (rel, saved) ck.
Proof.
  unfold create. destruct (map_res (to_relative root) raws) as [rels|x] eqn:Er; [|discriminate].
  intros H. revert rels ck Er H. induction raws as [|r0 raws IH]; intros rels ck Er H raw Hin; [destruct Hin|].
  cbn [map_res] in Er. destruct (to_relative root r0) as [rel0|x] eqn:E0; [|discriminate].
  destruct (map_res (to_relative root) raws) as [rels0|x] eqn:E1; [|discriminate]. inversion Er; subst rels.
  cbn [map_res] in H. destruct (save_one f rel0) as [e0|x] eqn:S0; [|discriminate].
  destruct (map_res (save_one f) rels0) as [es|x] eqn:S1; [|discriminate]. inversion H; subst ck.
  destruct Hin as [->|Hin].
  - destruct (save_one_spec _ _ _ S0) as [Ef _]. exists rel0, (snd e0). split; [exact E0|]. left. destruct e0; cbn in *; subst; reflexivity.
  - destruct (IH rels0 es eq_refl S1 raw Hin) as (rel & saved & Ht & Hi). exists rel, saved. split; [exact Ht|right; exact Hi].
Qed.

(* ---------- the behaviour before the repair (S10, second half), on a named witness ---------- *)
Require Import Coq.Strings.String.
Definition w_a : str := bs "a.txt"%string.
Definition w_ws : fs := [([w_a], File (bs "one"%string))].        (* the workspace: a.txt = "one" *)
Definition w_cwdfs : fs := [].                                    (* the process cwd has no a.txt *)
Definition w_ck_unfixed : list entry := [(w_a, None)].

Lemma probe_unfixed_loses_file :
  to_relative_unfixed w_root w_a = Ok w_a
  /\ save_one_unfixed w_cwdfs w_a w_a = Ok (w_a, None)
  /\ file_at w_ws (key w_a) = Some (bs "one"%string)
  /\ rewind w_ws w_ck_unfixed = ([], None).
Proof. vm_compute. repeat split. Qed.

Lemma probe_unfixed_refuted :
  exists root raw rel (f fcwd : fs) b f3,
    to_relative_unfixed root raw = Ok rel /\ save_one_unfixed fcwd raw rel = Ok (rel, None)
    /\ file_at f (key rel) = Some b /\ rewind f [(rel, None)] = (f3, None) /\ file_at f3 (key rel) = None.
Proof.
  exists w_root, w_a, w_a, w_ws, w_cwdfs, (bs "one"%string), [].
  destruct probe_unfixed_loses_file as (A & B & C & D). repeat split; assumption.
Qed.

(* non-vacuity: a create / edit / rewind round trip *)
Definition w_b : str := bs "b.txt"%string.
Definition w_later : fs := [([w_a], File (bs "two"%string)); ([w_b], File (bs "new"%string))].
Definition w_ck : list entry := [(w_a, Some (bs "one"%string)); (w_b, None)].
Definition w_dot_b : str := bs "./b.txt"%string.
Lemma ex_round_trip :
  create w_ws w_root [w_abs_in; w_dot_b] = Ok w_ck
  /\ sane_b w_later = true /\ rewind w_later w_ck = (w_ws, None).
Proof. vm_compute. repeat split. Qed.

Definition w_later_dir : fs := [([w_a], File (bs "two"%string)); ([w_b], Dir)].
Lemma ex_failing_rewind :
  sane_b w_later_dir = true /\ exists e, rewind w_later_dir w_ck = (w_later_dir, Some e).
Proof. split; [vm_compute; reflexivity|]. exists EISDIR. vm_compute. reflexivity. Qed.
