(* C05 - proofs about Model/CrashCold.v: when every writer takes its cold-start seq from the log, a thread's stream
   stays 0,1,2,.. over every sequence of appends, mid-append crashes and restarts, the sidecar stays a prefix of the
   log and is the whole stream after every complete append; one writer that trusts the sidecar's tail breaks it. *)
From Coq Require Import List NArith Bool Arith Lia.
From RipV Require Import Base.Prelude Model.CrashCold.
Import ListNotations.
Open Scope N_scope.

Lemma iota_S n : iota (S n) = iota n ++ [N.of_nat n].
Proof. unfold iota. rewrite seq_S, map_app. reflexivity. Qed.
Lemma iota_len n : length (iota n) = n.
Proof. unfold iota. rewrite map_length, seq_length. reflexivity. Qed.
Lemma lastN_snoc l x : lastN (l ++ [x]) = Some x.
Proof. unfold lastN. rewrite rev_app_distr. reflexivity. Qed.
Lemma lastN_iota n : lastN (iota n) = match n with O => None | S m => Some (N.of_nat m) end.
Proof. destruct n as [|m]; [reflexivity|]. rewrite iota_S. apply lastN_snoc. Qed.

Lemma firstn_seq_le : forall k a n, (k <= n)%nat -> firstn k (seq a n) = seq a k.
Proof.
  induction k as [|k IH]; intros a n H; [reflexivity|].
  destruct n as [|n]; [lia|]. cbn [seq firstn]. f_equal. apply IH. lia.
Qed.

(* log = 0..n-1, sidecar = 0..k-1 with k <= n, a counter in memory is the log's length and then the sidecar is whole *)
Definition Inv (s : cs) : Prop :=
  exists n k, c_log s = iota n /\ c_side s = iota k /\ (k <= n)%nat
              /\ (forall m, c_ctr s = Some m -> m = N.of_nat n /\ k = n).

Lemma cold_log_ok s n k : c_log s = iota n -> c_side s = iota k -> (k <= n)%nat ->
  cold_log s = (iota n, N.of_nat n).
Proof.
  intros Hl Hs Hk. unfold cold_log. rewrite Hl, Hs, !lastN_iota.
  destruct n as [|n'].
  - assert (k = 0)%nat by lia. subst k. reflexivity.
  - destruct k as [|k']; cbn [optN_eqb].
    + f_equal. lia.
    + destruct (N.of_nat k' =? N.of_nat n') eqn:E.
      * apply N.eqb_eq in E. apply Nat2N.inj in E. subst k'. f_equal. lia.
      * f_equal. lia.
Qed.

Lemma resolve_ok (srcs : nat -> src) (w : nat) s n k : srcs w = FromLog ->
  c_log s = iota n -> c_side s = iota k -> (k <= n)%nat ->
  (forall m, c_ctr s = Some m -> m = N.of_nat n /\ k = n) ->
  resolve (srcs w) s = (iota n, N.of_nat n).
Proof.
  intros Hw Hl Hs Hk Hc. unfold resolve. destruct (c_ctr s) as [m|] eqn:E.
  - destruct (Hc m eq_refl) as [-> ->]. rewrite Hs. reflexivity.
  - rewrite Hw. cbn [cold]. eapply cold_log_ok; eauto.
Qed.

Lemma step_inv (srcs : nat -> src) s e : (forall w, In w (writers [e]) -> srcs w = FromLog) -> Inv s -> Inv (step srcs s e).
Proof.
  intros Hw (n & k & Hl & Hs & Hk & Hc). destruct e as [w|w|]; cbn [step].
  - rewrite (resolve_ok srcs w s n k) by (auto; apply Hw; cbn; auto). cbn [fst snd].
    exists (S n), (S n). rewrite Hl, <- iota_S. repeat split; auto.
    + cbn [c_ctr] in H. inversion H. lia.
  - rewrite (resolve_ok srcs w s n k) by (auto; apply Hw; cbn; auto). cbn [fst snd].
    exists (S n), n. rewrite Hl, <- iota_S. repeat split; auto; cbn [c_ctr] in H; discriminate.
  - exists n, k. repeat split; auto; cbn [c_ctr] in H; discriminate.
Qed.

Lemma run_inv (srcs : nat -> src) es : forall s, (forall w, In w (writers es) -> srcs w = FromLog) -> Inv s -> Inv (run srcs s es).
Proof.
  induction es as [|e r IH]; intros s Hw Hi; [exact Hi|].
  change (Inv (run srcs (step srcs s e) r)). apply IH.
  - intros w Hin. apply Hw. destruct e; cbn [writers]; auto using in_cons.
  - apply step_inv; auto. intros w Hin. apply Hw. destruct e; cbn [writers] in *.
    + destruct Hin as [->|[]]. left; reflexivity.
    + destruct Hin as [->|[]]. left; reflexivity.
    + destruct Hin.
Qed.

Lemma created_inv : Inv created.
Proof. exists 1%nat, 1%nat. repeat split; auto. cbn in H. inversion H. reflexivity. Qed.

Lemma inv_numbered s : Inv s -> numbered_b (c_log s) = true.
Proof. intros (n & k & Hl & _). unfold numbered_b. rewrite Hl, iota_len. apply lN_eqb_spec. reflexivity. Qed.

(* the theorem over ALL writers and ALL histories *)
Lemma cold_start_numbered : forall (srcs : nat -> src) (es : list ev),
  (forall w, In w (writers es) -> srcs w = FromLog) ->
  numbered_b (c_log (run srcs created es)) = true
  /\ (exists k, c_side (run srcs created es) = firstn k (c_log (run srcs created es)))
  /\ (forall m, c_ctr (run srcs created es) = Some m ->
        m = N.of_nat (length (c_log (run srcs created es))) /\ c_side (run srcs created es) = c_log (run srcs created es)).
Proof.
  intros srcs es Hw. pose proof (run_inv srcs es created Hw created_inv) as Hi.
  split; [apply inv_numbered; exact Hi|].
  destruct Hi as (n & k & Hl & Hs & Hk & Hc). split.
  - exists k. rewrite Hl, Hs. unfold iota. rewrite firstn_map. f_equal.
    symmetry. apply firstn_seq_le. exact Hk.
  - intros m Hm. destruct (Hc m Hm) as [-> ->]. rewrite Hl, Hs, iota_len. auto.
Qed.

(* over the sources certified by the extractor *)
Lemma cold_start_numbered_gen : forall (certified : list bool) (es : list ev),
  forallb (fun b => b) certified = true ->
  (forall w, In w (writers es) -> (w < length certified)%nat) ->
  numbered_b (c_log (run (srcs_of certified) created es)) = true.
Proof.
  intros certified es Hall Hlt. apply cold_start_numbered. intros w Hin. unfold srcs_of.
  rewrite forallb_forall in Hall. rewrite (Hall (nth w certified false)); [reflexivity|].
  apply nth_In. apply Hlt. exact Hin.
Qed.

(* one writer (1: the checkpoint writer of seed C05-11) trusts the sidecar's tail *)
Definition bad_srcs (w : nat) : src := match w with 1%nat => FromSideTail | _ => FromLog end.
Definition bad_hist : list ev := [EAppend 0; ECrashMid 0; EAppend 1; EAppend 0].
Lemma cold_start_side_tail_witness :
  c_log (run bad_srcs created bad_hist) = [0; 1; 2; 2; 3]
  /\ numbered_b (c_log (run bad_srcs created bad_hist)) = false
  /\ numbered_b (c_log (run (fun _ => FromLog) created bad_hist)) = true.
Proof. vm_compute. repeat split. Qed.
Lemma cold_start_side_tail_refuted : exists srcs es,
  (forall w, w <> 1%nat -> srcs w = FromLog) /\ numbered_b (c_log (run srcs created es)) = false.
Proof.
  exists bad_srcs, bad_hist. split.
  - intros w Hw. destruct w as [|[|w]]; [reflexivity|congruence|reflexivity].
  - apply cold_start_side_tail_witness.
Qed.
(* non-vacuity: a history with a mid-append crash and writers 0..10 meets the hypotheses *)
Lemma cold_start_example :
  c_log (run (fun _ => FromLog) created [EAppend 0; ECrashMid 3; EAppend 7; ERestart; EAppend 10]) = [0; 1; 2; 3; 4]
  /\ c_side (run (fun _ => FromLog) created [EAppend 0; ECrashMid 3]) = [0; 1].
Proof. vm_compute. split; reflexivity. Qed.
