(* C11 — proofs about the workspace-lock LTS (Model/WsLock.v). *)
From RipV Require Import Base.Prelude Model.WsLock.

Local Open Scope nat_scope.

(* ------------------------------------------------------------------ the invariant *)
Definition pend (h : option nat) (ds : nat -> dstate) : list (nat * N) :=
  match h with
  | Some i => match ds i with DPend k => [(i, k)] | _ => [] end
  | None => []
  end.

Record Inv (st : state) (ds : nat -> dstate) : Prop := {
  inv_acc : forall i, daccept (ds i) (code st i) = true;
  inv_hold : forall i, holder st = Some i <-> ds i <> DOut;
  inv_open : forall i, is_open (trace st) i = true <-> exists k, ds i = DOpen k;
  inv_ord : ends_a (trace st) = pend (holder st) ds ++ frames (trace st)
}.

Definition upd_ds (ds : nat -> dstate) (i : nat) (d : dstate) : nat -> dstate :=
  fun j => if Nat.eqb j i then d else ds j.

Lemma upd_ds_same ds i d : upd_ds ds i d i = d.
Proof. unfold upd_ds. now rewrite Nat.eqb_refl. Qed.

Lemma upd_ds_other ds i d j : j <> i -> upd_ds ds i d j = ds j.
Proof. intros H. unfold upd_ds. apply Nat.eqb_neq in H. now rewrite H. Qed.

Lemma inv_init f : wf_sys f -> Inv (init f) (fun _ => DOut).
Proof.
  intros W. constructor; cbn.
  - exact W.
  - intros i. split; [discriminate | congruence].
  - intros i. split; [discriminate | intros [k H]; discriminate].
  - reflexivity.
Qed.

Lemma daccept_cons d ins r :
  daccept d (ins :: r) = true -> exists d', dstep d ins = Some d' /\ daccept d' r = true.
Proof. cbn [daccept]. destruct (dstep d ins) as [d'|]; [eauto | discriminate]. Qed.

(* how one instruction moves the discipline state *)
Inductive dmove : instr -> dstate -> dstate -> Prop :=
| mv_acq : dmove IAcq DOut DIn
| mv_rel : dmove IRel DIn DOut
| mv_start k : dmove (IStart k true) DIn (DOpen k)
| mv_end_a k : dmove (IEnd k true true) (DOpen k) (DPend k)
| mv_end_n k : dmove (IEnd k true false) (DOpen k) DIn
| mv_app k : dmove (IApp k) (DPend k) DIn
| mv_start_ro k d : dmove (IStart k false) d d
| mv_end_ro k d : dmove (IEnd k false false) d d
| mv_emit k d : dmove (IEmit k) d d
| mv_spawn d : dmove ISpawn d d
| mv_runended : dmove IRunEnded DOut DOut.

Lemma dstep_dmove d ins d' : dstep d ins = Some d' -> dmove ins d d'.
Proof.
  destruct ins as [ | | k m | k m a | k | k | | ]; destruct d as [ | | k' | k']; cbn [dstep];
    try destruct m; try destruct a; try discriminate;
    try (destruct (N.eqb_spec k k'); [subst | discriminate]);
    intros E; inversion E; subst; constructor.
Qed.

Lemma is_open_cons_other i j ins tr : i <> j -> is_open ((i, ins) :: tr) j = is_open tr j.
Proof. intros H. cbn [is_open]. apply Nat.eqb_neq in H. now rewrite H. Qed.

Lemma pend_upd_other h ds i d :
  (forall j, h = Some j -> j <> i) -> pend h (upd_ds ds i d) = pend h ds.
Proof.
  intros H. unfold pend. destruct h as [j|]; [|reflexivity].
  rewrite upd_ds_other by (apply H; reflexivity). reflexivity.
Qed.

Lemma inv_step st ds i : Inv st ds -> exists ds', Inv (step st i) ds'.
Proof.
  intros I. unfold step.
  destruct (code st i) as [|ins rest] eqn:EC; [exists ds; exact I|].
  destruct (enabled (holder st) ins) eqn:EN; [|exists ds; exact I].
  pose proof (inv_acc _ _ I i) as A. rewrite EC in A.
  apply daccept_cons in A. destruct A as [d' [DS A']].
  apply dstep_dmove in DS.
  exists (upd_ds ds i d').
  pose proof (inv_hold _ _ I) as H.
  pose proof (inv_open _ _ I) as O.
  pose proof (inv_ord _ _ I) as R.
  pose proof (proj2 (H i)) as HI.
  pose proof (proj1 (H i)) as HI'.
  pose proof (O i) as Oi.
  remember (ds i) as d eqn:Ed.
  constructor; cbn [holder code trace].
  - (* accept *)
    intros j. unfold set_code, upd_ds. destruct (Nat.eqb_spec j i); [exact A' | apply (inv_acc _ _ I)].
  - (* holder *)
    intros j. destruct (Nat.eq_dec j i) as [->|NE].
    + rewrite upd_ds_same.
      destruct DS; cbn [upd_holder];
        try (assert (HH : holder st = Some i) by (apply HI; discriminate); rewrite HH);
        rewrite ?Nat.eqb_refl; split; intros; try congruence; try tauto.
    + rewrite upd_ds_other by exact NE.
      destruct DS; cbn [upd_holder]; try apply H.
      * (* acquire: permit was free, so nobody was inside *)
        cbn [enabled] in EN. destruct (holder st) as [h|] eqn:EH; [discriminate|].
        split; [intros E; inversion E; congruence|].
        intros ND. apply H in ND. discriminate.
      * (* release by the holder *)
        assert (HH : holder st = Some i) by (apply HI; discriminate).
        rewrite HH, Nat.eqb_refl. split; [discriminate|].
        intros ND. apply H in ND. congruence.
  - (* open sections *)
    intros j. destruct (Nat.eq_dec j i) as [->|NE].
    + rewrite upd_ds_same.
      destruct DS; cbn [is_open]; rewrite ?Nat.eqb_refl; try exact Oi;
        try (rewrite Oi); split; intros X; try discriminate; try (destruct X; discriminate);
        eauto.
    + rewrite upd_ds_other by exact NE. rewrite is_open_cons_other by congruence. apply O.
  - (* order of frames *)
    assert (PU : forall dd, dd = d -> pend (holder st) (upd_ds ds i dd) = pend (holder st) ds).
    { intros dd ->. unfold pend. destruct (holder st) as [h|]; [|reflexivity].
      unfold upd_ds. destruct (Nat.eqb_spec h i); [subst h; rewrite <- Ed|]; reflexivity. }
    destruct DS; cbn [ends_a frames upd_holder];
      try (rewrite (PU _ eq_refl); rewrite R; reflexivity);
      try (assert (HH : holder st = Some i) by (apply HI; discriminate));
      try (rewrite R, HH; unfold pend; rewrite ?Nat.eqb_refl, ?upd_ds_same, <- ?Ed; reflexivity).
    (* acquire *)
    unfold pend at 1. rewrite upd_ds_same. cbn [enabled] in EN.
    destruct (holder st) eqn:EH; [discriminate|]. rewrite R. reflexivity.
Qed.

Lemma inv_steps sched : forall st ds, Inv st ds -> exists ds', Inv (fold_left step sched st) ds'.
Proof.
  induction sched as [|i r IH]; intros st ds I; cbn [fold_left]; [eauto|].
  destruct (inv_step st ds i I) as [ds1 I1]. eapply IH; eauto.
Qed.

Lemma inv_run f sched : wf_sys f -> exists ds, Inv (run f sched) ds.
Proof. intros W. unfold run. eapply inv_steps. apply inv_init. exact W. Qed.

(* ------------------------------------------------------------------ mutual exclusion *)
Lemma mutex_run f sched i j :
  wf_sys f ->
  is_open (trace (run f sched)) i = true ->
  is_open (trace (run f sched)) j = true -> i = j.
Proof.
  intros W Oi Oj. destruct (inv_run f sched W) as [ds I].
  apply (inv_open _ _ I) in Oi. apply (inv_open _ _ I) in Oj.
  destruct Oi as [k Ki]. destruct Oj as [k' Kj].
  assert (Hi : holder (run f sched) = Some i) by (apply (inv_hold _ _ I); rewrite Ki; discriminate).
  assert (Hj : holder (run f sched) = Some j) by (apply (inv_hold _ _ I); rewrite Kj; discriminate).
  congruence.
Qed.

(* whoever is inside a mutating section holds the permit *)
Lemma open_holds f sched i :
  wf_sys f -> is_open (trace (run f sched)) i = true -> holder (run f sched) = Some i.
Proof.
  intros W Oi. destruct (inv_run f sched W) as [ds I].
  apply (inv_open _ _ I) in Oi. destruct Oi as [k Ki].
  apply (inv_hold _ _ I). rewrite Ki. discriminate.
Qed.

(* ------------------------------------------------------------------ frame order *)
Lemma order_run f sched :
  wf_sys f ->
  exists p, ends_a (trace (run f sched)) = p ++ frames (trace (run f sched))
            /\ length p <= 1
            /\ (holder (run f sched) = None -> p = []).
Proof.
  intros W. destruct (inv_run f sched W) as [ds I].
  exists (pend (holder (run f sched)) ds). split; [apply (inv_ord _ _ I)|]. split.
  - unfold pend. destruct (holder (run f sched)); [|cbn; lia]. destruct (ds n); cbn; lia.
  - intros E. rewrite E. reflexivity.
Qed.

(* ------------------------------------------------------------------ read-only calls never wait *)
Lemma enabled_not_acq h ins : ins <> IAcq -> enabled h ins = true.
Proof. destruct ins; cbn; congruence. Qed.

Lemma step_progress st i ins rest :
  code st i = ins :: rest -> ins <> IAcq ->
  code (step st i) i = rest /\ trace (step st i) = (i, ins) :: trace st.
Proof.
  intros EC NA. unfold step. rewrite EC, (enabled_not_acq _ _ NA). cbn.
  unfold set_code. rewrite Nat.eqb_refl. auto.
Qed.

(* ------------------------------------------------------------------ program order *)
(* the projection of the trace on actor i, in chronological order, followed by i's remaining code,
   is i's initial code *)
Lemma proj_cons_same i ins tr : proj i ((i, ins) :: tr) = ins :: proj i tr.
Proof. unfold proj. cbn [filter fst]. rewrite Nat.eqb_refl. reflexivity. Qed.

Lemma proj_cons_other i j ins tr : j <> i -> proj i ((j, ins) :: tr) = proj i tr.
Proof. intros H. unfold proj. cbn [filter fst]. apply Nat.eqb_neq in H. now rewrite H. Qed.

Lemma program_order_step st i f0 :
  (forall j, rev (proj j (trace st)) ++ code st j = f0 j) ->
  forall j, rev (proj j (trace (step st i))) ++ code (step st i) j = f0 j.
Proof.
  intros P j. unfold step.
  destruct (code st i) as [|ins rest] eqn:EC; [apply P|].
  destruct (enabled (holder st) ins); [|apply P].
  cbn [trace code]. unfold set_code.
  destruct (Nat.eqb_spec j i) as [->|NE].
  - rewrite proj_cons_same. cbn [rev]. rewrite <- app_assoc. cbn [app]. rewrite <- EC. apply P.
  - rewrite proj_cons_other by congruence. apply P.
Qed.

Lemma program_order f sched :
  forall j, rev (proj j (trace (run f sched))) ++ code (run f sched) j = f j.
Proof.
  unfold run.
  assert (G : forall sched st, (forall j, rev (proj j (trace st)) ++ code st j = f j) ->
              forall j, rev (proj j (trace (fold_left step sched st))) ++ code (fold_left step sched st) j = f j).
  { induction sched0 as [|i r IH]; intros st P; cbn [fold_left]; [exact P|].
    apply IH. apply program_order_step. exact P. }
  apply G. intros j. reflexivity.
Qed.

(* ------------------------------------------------------------------ replay is a run *)
Lemma replay_is_run : forall steps st st',
  replay st steps = Some st' -> st' = fold_left step (sched_of steps) st.
Proof.
  induction steps as [|[[a c] k] r IH]; intros st st' E; cbn [replay] in E.
  - inversion E. reflexivity.
  - destruct (code st (N.to_nat a)) as [|ins rest] eqn:EC; [discriminate|].
    unfold sched_of. cbn [filter fst snd map]. fold (sched_of r).
    destruct (N.eqb c 0) eqn:C0; cbn [negb].
    + destruct ins; try discriminate. destruct (enabled (holder st) IAcq); [discriminate|].
      apply IH. exact E.
    + destruct (N.eqb c (icode ins) && N.eqb k (icall ins) && enabled (holder st) ins); [|discriminate].
      cbn [fold_left]. apply IH. exact E.
Qed.

(* ------------------------------------------------------------------ compiled actors obey the discipline *)
Lemma drun_app d c1 c2 :
  drun d (c1 ++ c2) = match drun d c1 with Some d' => drun d' c2 | None => None end.
Proof.
  revert d. induction c1 as [|x r IH]; intros d; cbn [app drun]; [reflexivity|].
  destruct (dstep d x); [apply IH | reflexivity].
Qed.

Lemma daccept_drun d l :
  daccept d l = match drun d l with Some DOut => true | _ => false end.
Proof.
  revert d. induction l as [|x r IH]; intros d; cbn [daccept drun].
  - destruct d; reflexivity.
  - destruct (dstep d x); [apply IH | reflexivity].
Qed.

Lemma compile_op_sstep l k m a s o :
  drun (lift k s) (compile_op l k m a o) = option_map (lift k) (sstep l m a s o).
Proof.
  destruct o, s, l, m, a; cbn [compile_op drun dstep lift sstep option_map];
    rewrite ?N.eqb_refl; reflexivity.
Qed.

Lemma compile_span_srun l k m a ops : forall s,
  drun (lift k s) (flat_map (compile_op l k m a) ops) = option_map (lift k) (srun l m a s ops).
Proof.
  induction ops as [|o r IH]; intros s; cbn [flat_map srun]; [reflexivity|].
  rewrite drun_app, compile_op_sstep.
  destruct (sstep l m a s o) as [s'|]; cbn [option_map]; [apply IH | reflexivity].
Qed.

Lemma span_accepts_drun l k m s :
  span_accepts l m s = true -> drun DOut (compile_span l k m s) = Some DOut.
Proof.
  unfold span_accepts, compile_span. intros H.
  change DOut with (lift k SOut) at 1. rewrite compile_span_srun.
  destruct (srun l m (l && has_append s) SOut s) as [[ | | | ]|]; try discriminate. reflexivity.
Qed.

Record spans_ok (c : cfg) : Prop := {
  so_tool : forall l, span_accepts l true (span_tool c) = true;
  so_loop : forall l, span_accepts l true (span_loop_tool c) = true;
  so_ro : forall l, span_accepts l false (span_ro c) = true;
  so_loop_ro : forall l, span_accepts l false (span_loop_ro c) = true;
  so_ckpt : span_accepts false true (span_ckpt c) = true;
  so_task : span_accepts false true (span_task c) = true;
  so_ro_noacq : count_op OAcquire (span_ro c) = 0;
  so_loop_ro_noacq : count_op OAcquire (span_loop_ro c) = 0;
  so_tool_app : has_append (span_tool c) = true;
  so_loop_app : has_append (span_loop_tool c) = true
}.

Lemma count_has_append s : Nat.eqb (count_op OAppend s) 1 = true -> has_append s = true.
Proof.
  unfold has_append. induction s as [|x r IH]; cbn [count_op existsb]; [discriminate|].
  destruct (op_eqb OAppend x); [reflexivity|]. cbn. exact IH.
Qed.

Lemma wf_cfg_spans c : wf_cfg c = true -> spans_ok c.
Proof.
  unfold wf_cfg, wf_spans. intros H.
  repeat match goal with
         | H : _ && _ = true |- _ => apply andb_prop in H; destruct H
         end.
  assert (A1 : has_append (span_tool c) = true).
  { match goal with H : wf_locked_span true (span_tool c) = true |- _ =>
      unfold wf_locked_span in H; destruct (strip_spawned (span_tool c)) as [|[] ?] eqn:ES; try discriminate;
      destruct (last_op _) as [[]|]; try discriminate;
      repeat match goal with H : _ && _ = true |- _ => apply andb_prop in H; destruct H end end.
    assert (HA : has_append (strip_spawned (span_tool c)) = true)
      by (rewrite ES; apply count_has_append; assumption).
    unfold strip_spawned in HA. destruct (span_tool c) as [|[] ?]; exact HA || (cbn; exact HA). }
  assert (A2 : has_append (span_loop_tool c) = true).
  { match goal with H : wf_locked_span true (span_loop_tool c) = true |- _ =>
      unfold wf_locked_span in H; destruct (strip_spawned (span_loop_tool c)) as [|[] ?] eqn:ES; try discriminate;
      destruct (last_op _) as [[]|]; try discriminate;
      repeat match goal with H : _ && _ = true |- _ => apply andb_prop in H; destruct H end end.
    assert (HA : has_append (strip_spawned (span_loop_tool c)) = true)
      by (rewrite ES; apply count_has_append; assumption).
    unfold strip_spawned in HA. destruct (span_loop_tool c) as [|[] ?]; exact HA || (cbn; exact HA). }
  constructor; try (intros []; assumption); try assumption.
  - match goal with H : wf_ro_span (span_ro c) = true |- _ => unfold wf_ro_span in H;
      repeat match goal with H : _ && _ = true |- _ => apply andb_prop in H; destruct H end end.
    apply Nat.eqb_eq. assumption.
  - match goal with H : wf_ro_span (span_loop_ro c) = true |- _ => unfold wf_ro_span in H;
      repeat match goal with H : _ && _ = true |- _ => apply andb_prop in H; destruct H end end.
    apply Nat.eqb_eq. assumption.
Qed.

Lemma compile_calls_drun c l names : spans_ok c -> forall k,
  drun DOut (compile_calls c l k names) = Some DOut.
Proof.
  intros S. induction names as [|n r IH]; intros k; cbn [compile_calls]; [reflexivity|].
  rewrite drun_app.
  destruct (requires_lock c n).
  - rewrite (span_accepts_drun _ _ _ _ (so_loop _ S l)). apply IH.
  - rewrite (span_accepts_drun _ _ _ _ (so_loop_ro _ S l)). apply IH.
Qed.

Lemma compile_wf c a : wf_cfg c = true -> daccept DOut (compile_actor c a) = true.
Proof.
  intros W. apply wf_cfg_spans in W. rewrite daccept_drun.
  destruct a as [n l | ns l | l | ]; cbn [compile_actor]; rewrite ?drun_app.
  - destruct (requires_lock c n).
    + rewrite (span_accepts_drun _ _ _ _ (so_tool _ W l)). reflexivity.
    + rewrite (span_accepts_drun _ _ _ _ (so_ro _ W l)). reflexivity.
  - rewrite (compile_calls_drun _ _ _ W). reflexivity.
  - rewrite (span_accepts_drun _ _ _ _ (so_ckpt _ W)). reflexivity.
  - rewrite (span_accepts_drun _ _ _ _ (so_task _ W)). reflexivity.
Qed.

(* a system of compiled actors *)
Definition sys (c : cfg) (actors : nat -> option akind) : nat -> list instr :=
  fun i => match actors i with Some a => compile_actor c a | None => [] end.

Lemma sys_wf c actors : wf_cfg c = true -> wf_sys (sys c actors).
Proof.
  intros W i. unfold sys. destruct (actors i); [apply compile_wf; exact W | reflexivity].
Qed.

Lemma sys_of_wf c ds : wf_cfg c = true -> wf_sys (sys_of c ds).
Proof.
  intros W i. unfold sys_of. destruct (nth_error ds i); [apply compile_wf; exact W | reflexivity].
Qed.

Lemma ref_cfg_wf : wf_cfg ref_cfg = true.
Proof. vm_compute. reflexivity. Qed.

(* ------------------------------------------------------------------ one frame per logged call *)
Definition own (i : nat) (l : list (nat * N)) : list (nat * N) :=
  filter (fun p => Nat.eqb (fst p) i) l.

Lemma order_run_strong f sched :
  wf_sys f ->
  exists p, ends_a (trace (run f sched)) = p ++ frames (trace (run f sched))
            /\ (p = [] \/ exists i k, p = [(i, k)] /\ holder (run f sched) = Some i).
Proof.
  intros W. destruct (inv_run f sched W) as [ds I].
  exists (pend (holder (run f sched)) ds). split; [apply (inv_ord _ _ I)|].
  unfold pend. destruct (holder (run f sched)) as [h|]; [|left; reflexivity].
  destruct (ds h); try (left; reflexivity). right. eauto.
Qed.

Lemma own_frames_run f sched i :
  wf_sys f ->
  own i (ends_a (trace (run f sched))) = own i (frames (trace (run f sched)))
  \/ exists k, own i (ends_a (trace (run f sched))) = (i, k) :: own i (frames (trace (run f sched)))
               /\ holder (run f sched) = Some i.
Proof.
  intros W. destruct (order_run_strong f sched W) as [p [E [->|[h [k [-> H]]]]]].
  - left. rewrite E. reflexivity.
  - rewrite E. unfold own. cbn [app filter fst]. destruct (Nat.eqb_spec h i) as [->|NE].
    + right. exists k. split; [reflexivity | exact H].
    + left. reflexivity.
Qed.

(* every older part of a trace is the trace of a run *)
Lemma step_trace st i : trace (step st i) = trace st \/ exists ins, trace (step st i) = (i, ins) :: trace st.
Proof.
  unfold step. destruct (code st i) as [|ins r]; [left; reflexivity|].
  destruct (enabled (holder st) ins); [right; eexists; reflexivity | left; reflexivity].
Qed.

Lemma run_snoc f sched i : run f (sched ++ [i]) = step (run f sched) i.
Proof. unfold run. rewrite fold_left_app. reflexivity. Qed.

Lemma suffix_is_run f sched : forall l1 l2,
  trace (run f sched) = l1 ++ l2 -> exists sched2, trace (run f sched2) = l2.
Proof.
  induction sched as [|i r IH] using rev_ind; intros l1 l2 E.
  - cbn in E. symmetry in E. apply app_eq_nil in E. destruct E as [_ ->]. exists []. reflexivity.
  - rewrite run_snoc in E. destruct (step_trace (run f r) i) as [S|[ins S]]; rewrite S in E.
    + eapply IH. exact E.
    + destruct l1 as [|x l1]; cbn [app] in E.
      * exists (r ++ [i]). rewrite run_snoc, S. exact E.
      * inversion E as [[EX ET]]. eapply IH. exact ET.
Qed.

Lemma ends_a_in i k tr : In (i, k) (ends_a tr) -> In (i, IEnd k true true) tr.
Proof.
  induction tr as [|[j ins] r IH]; cbn [ends_a]; [tauto|].
  destruct ins as [ | | k0 m | k0 m a | k0 | k0 | | ]; try (intros H; right; apply IH; exact H).
  destruct m, a; try (intros H; right; apply IH; exact H).
  intros [E|H]; [inversion E; subst; left; reflexivity | right; apply IH; exact H].
Qed.

Lemma frame_after_end f sched i k :
  wf_sys f ->
  In (i, IApp k) (trace (run f sched)) ->
  happens_before (i, IEnd k true true) (i, IApp k) (trace (run f sched)).
Proof.
  intros W HI. apply in_split in HI. destruct HI as [l1 [l2 E]].
  destruct (suffix_is_run f sched l1 _ E) as [s2 E2].
  destruct (order_run_strong f s2 W) as [p [EO _]]. rewrite E2 in EO. cbn [ends_a frames] in EO.
  assert (HI : In (i, k) (ends_a l2)) by (rewrite EO; apply in_or_app; right; left; reflexivity).
  apply ends_a_in in HI. apply in_split in HI. destruct HI as [m1 [m2 EM]].
  exists l1, m1, m2. rewrite E, EM. reflexivity.
Qed.

Lemma dstep_runended d d' : dstep d IRunEnded = Some d' -> d = DOut.
Proof. destruct d; cbn; congruence. Qed.

Lemma frames_complete_at_run_end f sched i l1 l2 :
  wf_sys f ->
  trace (run f sched) = l1 ++ (i, IRunEnded) :: l2 ->
  own i (ends_a l2) = own i (frames l2).
Proof.
  intros W E.
  destruct (suffix_is_run f sched l1 _ E) as [s1 E1].
  destruct (suffix_is_run f sched (l1 ++ [(i, IRunEnded)]) l2) as [s2 E2].
  { rewrite E, <- app_assoc. reflexivity. }
  (* in the state with trace l2 the next instruction of i is IRunEnded *)
  pose proof (program_order f s1 i) as P1. pose proof (program_order f s2 i) as P2.
  rewrite E1 in P1. rewrite E2 in P2. rewrite proj_cons_same in P1. cbn [rev] in P1.
  rewrite <- app_assoc in P1. cbn [app] in P1. rewrite <- P2 in P1.
  apply app_inv_head in P1.
  destruct (inv_run f s2 W) as [ds I].
  pose proof (inv_acc _ _ I i) as A. rewrite <- P1 in A. apply daccept_cons in A.
  destruct A as [d' [DS _]]. apply dstep_runended in DS.
  destruct (own_frames_run f s2 i W) as [EQ|[k [_ H]]].
  - rewrite E2 in EQ. exact EQ.
  - apply (inv_hold _ _ I) in H. congruence.
Qed.

(* mutating tool calls of a thread-attached session are logged calls *)
Lemma compile_span_end_flag l k m s k' m' a' :
  In (IEnd k' m' a') (compile_span l k m s) -> m' = m /\ a' = (l && has_append s)%bool.
Proof.
  unfold compile_span. intros HI. apply in_flat_map in HI. destruct HI as [o [_ Hi]].
  destruct o; cbn [compile_op] in Hi.
  - destruct Hi as [E|[]]; discriminate.
  - destruct Hi as [E|[E|[]]]; [discriminate|]. inversion E. auto.
  - destruct Hi as [E|[]]; discriminate.
  - destruct l; [destruct Hi as [E|[]]; discriminate | destruct Hi].
  - destruct Hi as [E|[]]; discriminate.
  - destruct Hi as [E|[]]; discriminate.
Qed.

Lemma compile_calls_end_flag c names : spans_ok c -> forall k k' a',
  In (IEnd k' true a') (compile_calls c true k names) -> a' = true.
Proof.
  intros S. induction names as [|n r IH]; intros k k' a' HI; cbn [compile_calls] in HI; [destruct HI|].
  apply in_app_or in HI. destruct HI as [HI|HI]; [|eapply IH; exact HI].
  destruct (requires_lock c n); apply compile_span_end_flag in HI; destruct HI as [M A].
  - rewrite A, (so_loop_app _ S). reflexivity.
  - discriminate.
Qed.

Lemma attached_calls_logged c a k a' :
  wf_cfg c = true ->
  (exists n, a = AEnv n true) \/ (exists ns, a = ALoop ns true) ->
  In (IEnd k true a') (compile_actor c a) -> a' = true.
Proof.
  intros W K HI. apply wf_cfg_spans in W.
  destruct K as [[n ->]|[ns ->]]; cbn [compile_actor] in HI; apply in_app_or in HI;
    destruct HI as [HI|[E|[]]]; try discriminate.
  - destruct (requires_lock c n); apply compile_span_end_flag in HI; destruct HI as [M A].
    + rewrite A, (so_tool_app _ W). reflexivity.
    + discriminate.
  - eapply compile_calls_end_flag; eauto.
Qed.

(* ------------------------------------------------------------------ statements used by Props/C11.v *)
Definition actors_t := nat -> option akind.

Definition tr_of (c : cfg) (actors : actors_t) (sched : list nat) : list event :=
  trace (run (sys c actors) sched).

Lemma c11_mutex_proof c actors sched i j :
  wf_cfg c = true ->
  is_open (tr_of c actors sched) i = true ->
  is_open (tr_of c actors sched) j = true -> i = j.
Proof. intros W. apply mutex_run. apply sys_wf. exact W. Qed.

Lemma c11_holder_proof c actors sched i :
  wf_cfg c = true ->
  is_open (tr_of c actors sched) i = true -> holder (run (sys c actors) sched) = Some i.
Proof. intros W. apply open_holds. apply sys_wf. exact W. Qed.

Lemma c11_order_proof c actors sched :
  wf_cfg c = true ->
  exists p, ends_a (tr_of c actors sched) = p ++ frames (tr_of c actors sched)
            /\ length p <= 1
            /\ (holder (run (sys c actors) sched) = None -> p = []).
Proof. intros W. apply order_run. apply sys_wf. exact W. Qed.

(* read-only calls: no acquire in their code, and a non-acquire instruction is never disabled *)
Lemma count_op_zero_notin o s : count_op o s = 0 -> ~ In o s.
Proof.
  induction s as [|x r IH]; cbn [count_op In]; [tauto|].
  destruct (op_eqb o x) eqn:E; [discriminate|]. intros H [->|HI]; [|apply IH; assumption].
  destruct o; discriminate.
Qed.

Lemma compile_span_no_acq l k m s :
  count_op OAcquire s = 0 -> ~ In IAcq (compile_span l k m s).
Proof.
  intros C HI. unfold compile_span in HI. apply in_flat_map in HI. destruct HI as [o [Ho Hi]].
  destruct o; cbn [compile_op] in Hi.
  - apply (count_op_zero_notin _ _ C Ho).
  - destruct Hi as [E|[E|[]]]; discriminate.
  - destruct Hi as [E|[]]; discriminate.
  - destruct l; [destruct Hi as [E|[]]; discriminate | destruct Hi].
  - destruct Hi as [E|[]]; discriminate.
  - destruct Hi as [E|[]]; discriminate.
Qed.

Lemma readonly_env_no_acq c n l :
  wf_cfg c = true -> requires_lock c n = false -> ~ In IAcq (compile_actor c (AEnv n l)).
Proof.
  intros W RL HI. apply wf_cfg_spans in W. cbn [compile_actor] in HI. rewrite RL in HI.
  apply in_app_or in HI. destruct HI as [HI|[E|[]]]; [|discriminate].
  exact (compile_span_no_acq _ _ _ _ (so_ro_noacq _ W) HI).
Qed.

Lemma c11_readonly_free_proof c actors sched i n l ins rest :
  wf_cfg c = true ->
  actors i = Some (AEnv n l) -> requires_lock c n = false ->
  code (run (sys c actors) sched) i = ins :: rest ->
  ins <> IAcq
  /\ code (step (run (sys c actors) sched) i) i = rest
  /\ trace (step (run (sys c actors) sched) i) = (i, ins) :: trace (run (sys c actors) sched).
Proof.
  intros W A RL EC.
  assert (NA : ins <> IAcq).
  { intros ->. apply (readonly_env_no_acq c n l W RL).
    pose proof (program_order (sys c actors) sched i) as P. rewrite EC in P.
    unfold sys in P at 2. rewrite A in P. rewrite <- P. apply in_or_app. right. left. reflexivity. }
  split; [exact NA|]. apply step_progress; assumption.
Qed.

(* witnesses: overlap of read-only calls with each other and with a mutating call is reachable;
   a blocked acquire is reachable *)
Definition ex_actors : actors_t := fun i =>
  match i with
  | 0 => Some (AEnv s_bash true)
  | 1 => Some (AEnv s_read true)
  | 2 => Some (AEnv s_grep false)
  | 3 => Some (AEnv s_write true)
  | 4 => Some ATask
  | _ => None
  end.

Definition ex_sched_overlap : list nat := [0; 0; 1; 2].

Lemma ex_overlap :
  is_open (tr_of ref_cfg ex_actors ex_sched_overlap) 0 = true
  /\ is_open_ro (tr_of ref_cfg ex_actors ex_sched_overlap) 1 = true
  /\ is_open_ro (tr_of ref_cfg ex_actors ex_sched_overlap) 2 = true.
Proof. vm_compute. auto. Qed.

(* actor 3 (write) and the task 4 try to acquire while 0 is inside: nothing happens; 0 runs to the
   end, then 3 gets the permit, then 4 *)
Definition ex_sched_blocked : list nat := [0; 0; 3; 4; 4; 3; 0; 0; 0; 0; 0; 3; 4; 3; 3; 3; 3; 3; 3; 4; 4; 4; 4].

Lemma ex_blocked :
  frames (tr_of ref_cfg ex_actors ex_sched_blocked) = [(3, 0%N); (0, 0%N)]
  /\ ends_a (tr_of ref_cfg ex_actors ex_sched_blocked) = [(3, 0%N); (0, 0%N)]
  /\ holder (run (sys ref_cfg ex_actors) ex_sched_blocked) = None
  /\ code (run (sys ref_cfg ex_actors) ex_sched_blocked) 4 = [].
Proof. vm_compute. auto. Qed.

Lemma c11_one_frame_proof c actors sched i :
  wf_cfg c = true ->
  (own i (ends_a (tr_of c actors sched)) = own i (frames (tr_of c actors sched))
   \/ exists k, own i (ends_a (tr_of c actors sched)) = (i, k) :: own i (frames (tr_of c actors sched))
                /\ holder (run (sys c actors) sched) = Some i)
  /\ (forall k, In (i, IApp k) (tr_of c actors sched) ->
        happens_before (i, IEnd k true true) (i, IApp k) (tr_of c actors sched))
  /\ (forall l1 l2, tr_of c actors sched = l1 ++ (i, IRunEnded) :: l2 ->
        own i (ends_a l2) = own i (frames l2)).
Proof.
  intros W. pose proof (sys_wf c actors W) as WS. split; [|split].
  - apply own_frames_run. exact WS.
  - intros k. apply frame_after_end. exact WS.
  - intros l1 l2. apply frames_complete_at_run_end. exact WS.
Qed.

(* ------------------------------------------------------------------ wf_cfg is needed *)
(* the guard released before the side-effects append: frames out of order *)
Definition bad_cfg_release_early : cfg := {|
  permits := 1; shared_lock := true; stray_sites := 0; abandon_kills := true;
  class_default_lock := true; class_listed := class_listed ref_cfg;
  registered := registered ref_cfg; aliases := aliases ref_cfg;
  span_tool := [OAcquire; ORun; OEmit; ORelease; OAppend];
  span_ro := span_ro ref_cfg; span_loop_tool := span_loop_tool ref_cfg;
  span_loop_ro := span_loop_ro ref_cfg; span_ckpt := span_ckpt ref_cfg; span_task := span_task ref_cfg
|}.

(* the tool started before the guard is taken: two mutating calls in progress *)
Definition bad_cfg_acquire_late : cfg := {|
  permits := 1; shared_lock := true; stray_sites := 0; abandon_kills := true;
  class_default_lock := true; class_listed := class_listed ref_cfg;
  registered := registered ref_cfg; aliases := aliases ref_cfg;
  span_tool := [ORun; OAcquire; OEmit; OAppend; ORelease];
  span_ro := span_ro ref_cfg; span_loop_tool := span_loop_tool ref_cfg;
  span_loop_ro := span_loop_ro ref_cfg; span_ckpt := span_ckpt ref_cfg; span_task := span_task ref_cfg
|}.

Definition two_writers : actors_t := fun i =>
  match i with 0 | 1 => Some (AEnv s_write true) | _ => None end.

Definition sched_release_early : list nat := [0; 0; 0; 0; 0; 1; 1; 1; 1; 1; 1; 0].

Lemma bad_release_early :
  wf_cfg bad_cfg_release_early = false
  /\ holder (run (sys bad_cfg_release_early two_writers) sched_release_early) = None
  /\ ends_a (tr_of bad_cfg_release_early two_writers sched_release_early) = [(1, 0%N); (0, 0%N)]
  /\ frames (tr_of bad_cfg_release_early two_writers sched_release_early) = [(0, 0%N); (1, 0%N)].
Proof. vm_compute. auto. Qed.

Lemma bad_acquire_late :
  wf_cfg bad_cfg_acquire_late = false
  /\ is_open (tr_of bad_cfg_acquire_late two_writers [0; 1]) 0 = true
  /\ is_open (tr_of bad_cfg_acquire_late two_writers [0; 1]) 1 = true.
Proof. vm_compute. auto. Qed.

(* nothing but an acquire ever waits, for any actor of any system *)
Lemma only_acquire_waits f sched i ins rest :
  code (run f sched) i = ins :: rest -> ins <> IAcq ->
  code (step (run f sched) i) i = rest
  /\ trace (step (run f sched) i) = (i, ins) :: trace (run f sched).
Proof. apply step_progress. Qed.

(* the code of a read-only call (either call site, attached or not) contains no acquire *)
Lemma readonly_call_no_acq c l k :
  wf_cfg c = true ->
  ~ In IAcq (compile_span l k false (span_ro c)) /\ ~ In IAcq (compile_span l k false (span_loop_ro c)).
Proof.
  intros W. apply wf_cfg_spans in W. split.
  - apply compile_span_no_acq. apply (so_ro_noacq _ W).
  - apply compile_span_no_acq. apply (so_loop_ro_noacq _ W).
Qed.

(* an allow list that forgets the alias `shell`: the obligation fails *)
Definition bad_cfg_alias_forgotten : cfg := {|
  permits := 1; shared_lock := true; stray_sites := 0; abandon_kills := true;
  class_default_lock := false; class_listed := [s_write; s_apply_patch; s_bash];
  registered := registered ref_cfg; aliases := aliases ref_cfg;
  span_tool := span_tool ref_cfg; span_ro := span_ro ref_cfg; span_loop_tool := span_loop_tool ref_cfg;
  span_loop_ro := span_loop_ro ref_cfg; span_ckpt := span_ckpt ref_cfg; span_task := span_task ref_cfg
|}.

Definition good_cfg_allow_list : cfg := {|
  permits := 1; shared_lock := true; stray_sites := 0; abandon_kills := true;
  class_default_lock := false; class_listed := [s_write; s_apply_patch; s_bash; s_shell];
  registered := registered ref_cfg; aliases := aliases ref_cfg;
  span_tool := span_tool ref_cfg; span_ro := span_ro ref_cfg; span_loop_tool := span_loop_tool ref_cfg;
  span_loop_ro := span_loop_ro ref_cfg; span_ckpt := span_ckpt ref_cfg; span_task := span_task ref_cfg
|}.

Lemma alias_forgotten :
  wf_cfg bad_cfg_alias_forgotten = false /\ requires_lock bad_cfg_alias_forgotten s_shell = false
  /\ wf_cfg good_cfg_allow_list = true.
Proof. vm_compute. auto. Qed.

(* ------------------------------------------------------------------ S28 (fixed in /repo c594d9b) *)
(* Before the fix a bash call abandoned by its timeout left the command running: the call's
   instructions went on (emit, append, release, run end) while the End of the command came later.
   That actor does not obey the discipline, and mutual exclusion fails. *)
Definition timeout_unfixed_code : list instr :=
  [IAcq; IStart 0 true; IEmit 0; IApp 0; IRel; IRunEnded; IEnd 0 true true].

Definition timeout_unfixed_sys : nat -> list instr := fun i =>
  match i with
  | 0 => timeout_unfixed_code
  | 1 => compile_actor ref_cfg (AEnv s_write true)
  | _ => []
  end.

Lemma timeout_unfixed_refuted :
  daccept DOut timeout_unfixed_code = false
  /\ is_open (trace (run timeout_unfixed_sys [0; 0; 0; 0; 0; 1; 1])) 0 = true
  /\ is_open (trace (run timeout_unfixed_sys [0; 0; 0; 0; 0; 1; 1])) 1 = true.
Proof. vm_compute. auto. Qed.
