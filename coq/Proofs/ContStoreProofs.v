(* Proofs about the ContinuityStore transition system: the log only grows by whole frames (C02);
   the per-stream order invariant under every schedule (C01). *)
From RipV Require Import Base.Prelude Model.Frames Model.Log Model.ContStore Proofs.LogProofs.

Ltac dmatch :=
  repeat match goal with
         | |- context [match ?x with _ => _ end] => destruct x eqn:?
         | |- context [if ?x then _ else _] => destruct x eqn:?
         end.

(* ================================================================ C02 *)
Lemma exec_m_log st a p m r :
  s_log (exec_m st a p m r) = s_log st \/ exists f, s_log (exec_m st a p m r) = s_log st ++ [f].
Proof.
  unfold exec_m, exec_m_gen, abort. destruct m; dmatch; cbn [s_log set_proc set_store set_task];
    try (left; reflexivity); right; eexists; reflexivity.
Qed.

Lemma step_log st a :
  s_log (step st a) = s_log st \/ exists f, s_log (step st a) = s_log st ++ [f].
Proof.
  unfold step, step_gen. destruct (s_procs st a) as [p|]; [|left; reflexivity].
  destruct (p_rem p) as [|m r]; [left; reflexivity|]. apply exec_m_log.
Qed.

Lemma run_nil st : run [] st = st.
Proof. reflexivity. Qed.
Lemma run_cons a r st : run (a :: r) st = run r (step st a).
Proof. reflexivity. Qed.

Lemma run_log sched : forall st, exists fs, s_log (run sched st) = s_log st ++ fs.
Proof.
  induction sched as [|a r IH]; intros st; rewrite ?run_nil, ?run_cons.
  - exists []. rewrite app_nil_r. reflexivity.
  - destruct (IH (step st a)) as [fs Hfs]. rewrite Hfs.
    destruct (step_log st a) as [E|[f E]]; rewrite E.
    + exists fs. reflexivity.
    + exists (f :: fs). rewrite <- app_assoc. reflexivity.
Qed.

(* byte view: the old file content is an exact prefix, the new bytes are whole LF-terminated frames *)
Lemma run_bytes enc sched st :
  (forall f, ~ In 10 (enc f)) ->
  exists fs, log_bytes enc (s_log (run sched st)) = log_bytes enc (s_log st) ++ log_bytes enc fs
             /\ split_lines (log_bytes enc fs) = (map enc fs, []).
Proof.
  intros Hn. destruct (run_log sched st) as [fs E]. exists fs. rewrite E, log_bytes_app.
  split; [reflexivity|]. apply split_lines_log_bytes. exact Hn.
Qed.

(* an actor whose next micro-step is not an append leaves the log alone *)
Definition quiet_prog (prog : list mstep) : bool := forallb (fun m => negb (appends m)) prog.
Definition AllQuiet (st : state) : Prop :=
  forall a p, s_procs st a = Some p -> quiet_prog (p_rem p) = true.

Lemma exec_m_quiet st a p m r :
  appends m = false -> s_log (exec_m st a p m r) = s_log st.
Proof.
  intros H. unfold exec_m, exec_m_gen, abort. destruct m; try discriminate H; dmatch;
    cbn [s_log set_proc set_store set_task]; reflexivity.
Qed.

Lemma quiet_skip r : quiet_prog r = true -> quiet_prog (skip_call r) = true.
Proof.
  induction r as [|m r IH]; intros H; [reflexivity|]. cbn [skip_call].
  destruct (call_start m); [exact H|]. apply IH. cbn [quiet_prog forallb] in H.
  apply andb_true_iff in H. tauto.
Qed.

Lemma exec_m_rem st a p m r q :
  s_procs (exec_m st a p m r) a = Some q -> s_procs st a = Some p -> p_rem p = m :: r ->
  p_rem q = r \/ p_rem q = skip_call r \/ q = p.
Proof.
  intros H Hp Hr. unfold exec_m, exec_m_gen, abort in H.
  destruct m; revert H; dmatch; cbn [s_procs set_proc set_store set_task]; unfold upd;
    rewrite ?N.eqb_refl; intros H; try (inversion H; subst; cbn; tauto);
    right; right; congruence.
Qed.

Lemma exec_m_others st a p m r b :
  b <> a -> s_procs (exec_m st a p m r) b = s_procs st b.
Proof.
  intros Hb. unfold exec_m, exec_m_gen, abort.
  destruct m; dmatch; cbn [s_procs set_proc set_store set_task]; unfold upd;
    try reflexivity; destruct (b =? a) eqn:E; try reflexivity; apply N.eqb_eq in E; congruence.
Qed.

Lemma step_AllQuiet st a : AllQuiet st -> AllQuiet (step st a) /\ s_log (step st a) = s_log st.
Proof.
  intros H. unfold step, step_gen. destruct (s_procs st a) as [p|] eqn:Hp; [|split; [exact H|reflexivity]].
  destruct (p_rem p) as [|m r] eqn:Hr; [split; [exact H|reflexivity]|].
  pose proof (H a p Hp) as Hq. rewrite Hr in Hq. cbn [quiet_prog forallb] in Hq.
  apply andb_true_iff in Hq. destruct Hq as [Hm Hq]. apply negb_true_iff in Hm.
  split; [|apply exec_m_quiet; exact Hm].
  intros b q Hb. destruct (N.eq_dec b a) as [->|Hne].
  - destruct (exec_m_rem _ _ _ _ _ _ Hb Hp Hr) as [E|[E|E]].
    + rewrite E. exact Hq.
    + rewrite E. apply quiet_skip. exact Hq.
    + subst q. apply (H a p Hp).
  - rewrite exec_m_others in Hb by exact Hne. apply (H b q Hb).
Qed.

Lemma run_AllQuiet sched : forall st, AllQuiet st -> s_log (run sched st) = s_log st.
Proof.
  induction sched as [|a r IH]; intros st H; rewrite ?run_nil, ?run_cons; [reflexivity|].
  destruct (step_AllQuiet st a H) as [H1 H2]. rewrite IH by exact H1. exact H2.
Qed.

Lemma procs_of_quiet ps : forall i a p,
  Forall (fun x => quiet_prog (fst x) = true) ps ->
  procs_of i ps a = Some p -> quiet_prog (p_rem p) = true.
Proof.
  induction ps as [|[prog sess] r IH]; intros i a p HF H; cbn [procs_of] in H; [discriminate|].
  inversion HF as [|x l Hx Hl]; subst. unfold upd in H. destruct (a =? i).
  - inversion H; subst. exact Hx.
  - apply (IH _ _ _ Hl H).
Qed.

(* any number of concurrent calls none of which contains an append step: the log does not change,
   whatever the schedule and whatever the store looks like *)
Lemma quiet_calls_keep_log ps sched st :
  Forall (fun x => quiet_prog (fst x) = true) ps ->
  s_log (run sched (spawn ps st)) = s_log st.
Proof.
  intros HF. rewrite run_AllQuiet; [reflexivity|].
  intros a p H. cbn [spawn s_procs] in H. apply (procs_of_quiet _ _ _ _ HF H).
Qed.

Lemma silent_prog_quiet cp c f : silent cp f = true -> quiet_prog (cap_prog cp c f) = true.
Proof.
  destruct cp; cbn [silent cap_prog]; intros H; try discriminate H; try reflexivity.
  - apply negb_true_iff in H. rewrite H. reflexivity.
  - apply negb_true_iff in H. rewrite H. reflexivity.
  - apply negb_true_iff in H. rewrite H. reflexivity.
  - apply negb_true_iff in H. rewrite H. reflexivity.
  - apply negb_true_iff in H. rewrite H. reflexivity.
  - destruct (cf_stride0 f); [reflexivity|]. cbn [orb] in H. rewrite H. reflexivity.
  - destruct (cf_stride0 f); [reflexivity|]. cbn [orb] in H. rewrite H. reflexivity.
Qed.

Lemma silent_calls_keep_log cp c f st :
  silent cp f = true -> s_log (exec (cap_prog cp c f) st) = s_log st.
Proof.
  intros H. unfold exec. apply quiet_calls_keep_log. constructor; [|constructor].
  apply silent_prog_quiet. exact H.
Qed.

Lemma read_only_caps_silent cp f : cap_can_append cp = false -> silent cp f = true.
Proof. destruct cp; cbn; intros H; try discriminate H; reflexivity. Qed.

Lemma restart_keeps_log st : s_log (restart st) = s_log st.
Proof. reflexivity. Qed.

Lemma upd_same {A} (m : N -> A) k v : upd m k v k = v.
Proof. unfold upd. rewrite N.eqb_refl. reflexivity. Qed.

Lemma upd_other {A} (m : N -> A) k v x : x <> k -> upd m k v x = m x.
Proof. intros H. unfold upd. destruct (x =? k) eqn:E; [apply N.eqb_eq in E; congruence|reflexivity]. Qed.

Lemma step_at st a p m r :
  s_procs st a = Some p -> p_rem p = m :: r -> step st a = exec_m st a p m r.
Proof. intros H1 H2. unfold step, step_gen. rewrite H1, H2. reflexivity. Qed.

Lemma step_done st a : (forall q, s_procs st a = Some q -> p_rem q = []) -> step st a = st.
Proof.
  intros H. unfold step, step_gen. destruct (s_procs st a) as [q|] eqn:E; [|reflexivity].
  rewrite (H q eq_refl). reflexivity.
Qed.

Lemma run_done n : forall st a,
  (forall q, s_procs st a = Some q -> p_rem q = []) -> run (repeat a n) st = st.
Proof.
  induction n as [|n IH]; intros st a H; cbn [repeat]; rewrite ?run_nil, ?run_cons; [reflexivity|].
  rewrite step_done by exact H. apply IH. exact H.
Qed.

Lemma run_repeat_S a n st : run (repeat a (S n)) st = run (repeat a n) (step st a).
Proof. reflexivity. Qed.

(* a write capability on a thread id that does not exist (no frames, no sidecar, no counter)
   appends nothing: load_next_seq_for fails and the call returns before the append *)
Lemma unknown_thread_append_silent st c t ar rest :
  skip_call rest = [] ->
  s_mu st = None -> s_next st c = None -> s_side st c = None -> cstream c (s_log st) = [] ->
  s_log (exec (MTarget c :: locked_append t ar ++ rest) st) = s_log st.
Proof.
  intros Hrest Hmu Hn Hs Hc. unfold exec, locked_append. cbn [app length].
  set (prog := MTarget c :: MLock :: MChoose :: MLogAppend t ar :: MSidecar :: MBcast :: MAdvance :: MUnlock :: rest).
  set (st0 := spawn [(prog, 0)] st).
  do 3 rewrite run_repeat_S.
  set (s3 := step (step (step st0 0) 0) 0).
  assert (H3 : (forall q, s_procs s3 0 = Some q -> p_rem q = []) /\ s_log s3 = s_log st).
  { unfold s3.
    assert (H0 : s_procs st0 0 = Some (new_proc prog 0)) by (unfold st0; cbn; apply upd_same).
    rewrite (step_at st0 0 _ _ _ H0 eq_refl). unfold exec_m; cbn [exec_m_gen].
    match goal with |- context [step (step ?s 0) 0] => set (st1 := s) end.
    assert (H1 : exists p1, s_procs st1 0 = Some p1 /\ p_rem p1 = MLock :: MChoose :: MLogAppend t ar :: MSidecar :: MBcast :: MAdvance :: MUnlock :: rest
                          /\ p_cid p1 = Some c).
    { eexists. split; [unfold st1; cbn; apply upd_same|]. split; reflexivity. }
    destruct H1 as [p1 [H1 [H1r H1c]]].
    rewrite (step_at st1 0 _ _ _ H1 H1r). unfold exec_m; cbn [exec_m_gen].
    assert (Hmu1 : s_mu st1 = None) by exact Hmu. rewrite Hmu1.
    match goal with |- context [step ?s 0] => set (st2 := s) end.
    assert (H2 : exists p2, s_procs st2 0 = Some p2 /\ p_rem p2 = MChoose :: MLogAppend t ar :: MSidecar :: MBcast :: MAdvance :: MUnlock :: rest
                          /\ p_cid p2 = Some c).
    { eexists. split; [unfold st2; cbn; apply upd_same|]. split; [reflexivity|exact H1c]. }
    destruct H2 as [p2 [H2 [H2r H2c]]].
    rewrite (step_at st2 0 _ _ _ H2 H2r). unfold exec_m; cbn [exec_m_gen]. rewrite H2c.
    assert (Hn2 : s_next st2 c = None) by exact Hn. rewrite Hn2.
    assert (Hl : exists sd, load_next st2 c = (None, sd)).
    { unfold load_next. change (s_log st2) with (s_log st). rewrite Hc. cbn. eexists. reflexivity. }
    destruct Hl as [sd Hl]. rewrite Hl. split.
    - intros q Hq. unfold abort in Hq. cbn in Hq. rewrite upd_same in Hq. inversion Hq. cbn. exact Hrest.
    - reflexivity. }
  destruct H3 as [H3 H3l]. rewrite (run_done _ s3 0 H3). exact H3l.
Qed.

Lemma c02_demo :
  let st := exec (create_prog []) empty_state in
  let f := {| cf_ok := true; cf_stride0 := false; cf_dry := false; cf_planned := 1%nat;
              cf_inflight := false; cf_execute := true; cf_created := 1%nat; cf_ended := true |} in
  map seq (s_log (exec (cap_prog CapPost 0 f) st)) = [0; 1; 2]
  /\ map seq (s_log (exec (cap_prog CapAuto 0 f) st)) = [0; 1; 2; 3]
  /\ silent CapAuto f = false
  /\ map seq (s_log (exec (cap_prog CapPost 77 f) st)) = [0].
Proof. vm_compute. repeat split; reflexivity. Qed.
