(* C15 proofs about the instantiated classification (Model/SseJson.v): what a provider frame carries, with the
   JSON parser of Base/JsonParse.v inside the statement; the text deltas; the u64 arithmetic of the seq numbers. *)
From RipV Require Import Base.Prelude Base.Utf8 Base.Json Model.Sse Model.SseJson.
From RipV Require Import Proofs.Utf8Proofs Proofs.SseProofs.
From RipV Require Base.JsonParse Proofs.JsonProofs.
Import JsonParse.

(* ================= numbers of a value are JSON numbers ================= *)
(* (Json.json_ok also restricts the code points of strings; the round trip does not need that) *)
Fixpoint nums_ok (j : json) : bool :=
  match j with
  | JNum t => num_ok t
  | JArr l => forallb nums_ok l
  | JObj kvs => forallb (fun kv => nums_ok (snd kv)) kvs
  | _ => true
  end.

Lemma print_elem_ok_nums : forall j, nums_ok j = true -> JsonProofs.elem_ok print j.
Proof.
  induction j as [| b | t | s | l IH | kvs IH] using JsonProofs.json_ind'; intros Hok.
  - apply JsonProofs.scalar_null.
  - apply JsonProofs.scalar_bool.
  - apply JsonProofs.scalar_num. exact Hok.
  - apply JsonProofs.scalar_str.
  - cbn [nums_ok] in Hok. pose proof (JsonProofs.Forall_forallb_mp _ _ _ IH Hok) as Hl.
    destruct l as [|x l]; [apply JsonProofs.empty_arr_ok; reflexivity|].
    split; [reflexivity|]. intros fuel d rest Hf Hd _. rewrite JsonProofs.print_arr_app in *.
    apply JsonProofs.parse_value_arr_gen; auto using JsonProofs.all_ws_nil.
  - cbn [nums_ok] in Hok.
    assert (Hl : Forall (fun kv => JsonProofs.elem_ok print (snd kv)) kvs).
    { eapply JsonProofs.Forall_forallb_mp; [|exact Hok]. eapply Forall_impl; [|exact IH].
      intros kv H H1. auto. }
    destruct kvs as [|kv l]; [apply JsonProofs.empty_obj_ok; reflexivity|].
    split; [reflexivity|]. intros fuel d rest Hf Hd _. rewrite JsonProofs.print_obj_app in *.
    apply JsonProofs.parse_value_obj_gen; auto using JsonProofs.all_ws_nil.
Qed.

Theorem parse_print_nums : forall j, nums_ok j = true -> (json_depth j < 128)%nat -> parse (print j) = Some j.
Proof. intros j Hok Hd. apply JsonProofs.parse_of_elem_ok; [apply print_elem_ok_nums; exact Hok | exact Hd]. Qed.

(* ================= the parser only builds number tokens it has checked ================= *)
Definition kv_nums_ok (kv : str * json) : bool := nums_ok (snd kv).

Lemma forallb_rev_append {X} (p : X -> bool) a b :
  forallb p a = true -> forallb p b = true -> forallb p (rev_append a b) = true.
Proof.
  revert b. induction a as [|x a IH]; intros b Ha Hb; cbn [rev_append]; [exact Hb|].
  cbn [forallb] in Ha. apply andb_true_iff in Ha as [Hx Ha]. apply IH; [exact Ha|].
  cbn [forallb]. rewrite Hx, Hb. reflexivity.
Qed.

Lemma parse_sound fuel :
  (forall d inp j r, parse_value fuel d inp = Some (j, r) -> nums_ok j = true)
  /\ (forall d inp acc l r, parse_elems fuel d inp acc = Some (l, r) ->
        forallb nums_ok acc = true -> forallb nums_ok l = true)
  /\ (forall d inp acc l r, parse_members fuel d inp acc = Some (l, r) ->
        forallb kv_nums_ok acc = true -> forallb kv_nums_ok l = true).
Proof.
  induction fuel as [|f (IHv & IHe & IHm)]; [repeat split; intros; discriminate|].
  split; [|split].
  - intros d inp j r H. destruct inp as [|c inp']; [discriminate|].
    cbn [parse_value] in H.
    destruct (num_start c).
    { destruct (span_num (c :: inp')) as [tok r']. destruct (num_ok tok) eqn:E; [|discriminate].
      injection H as <- <-. exact E. }
    destruct (c =? 34).
    { destruct (parse_str_chars inp' []) as [[s r']|]; [|discriminate]. injection H as <- <-. reflexivity. }
    destruct (c =? cLBRK).
    { destruct (Nat.pred d) as [|d']; [discriminate|].
      destruct (empty_close cRBRK (skip_ws inp')) as [r2|].
      - injection H as <- <-. reflexivity.
      - destruct (parse_elems f (S d') (skip_ws inp') []) as [[l r2]|] eqn:E; [|discriminate].
        injection H as <- <-. cbn [nums_ok]. eapply IHe; [exact E|reflexivity]. }
    destruct (c =? cLBRC).
    { destruct (Nat.pred d) as [|d']; [discriminate|].
      destruct (empty_close cRBRC (skip_ws inp')) as [r2|].
      - injection H as <- <-. reflexivity.
      - destruct (parse_members f (S d') (skip_ws inp') []) as [[l r2]|] eqn:E; [|discriminate].
        injection H as <- <-. cbn [nums_ok]. eapply IHm; [exact E|reflexivity]. }
    destruct (c =? 110).
    { destruct (strip_prefix s_null (c :: inp')); [|discriminate]. injection H as <- <-. reflexivity. }
    destruct (c =? 116).
    { destruct (strip_prefix s_true (c :: inp')); [|discriminate]. injection H as <- <-. reflexivity. }
    destruct (c =? 102).
    { destruct (strip_prefix s_false (c :: inp')); [|discriminate]. injection H as <- <-. reflexivity. }
    discriminate.
  - intros d inp acc l r H Hacc. cbn [parse_elems] in H.
    destruct (parse_value f d inp) as [[v r1]|] eqn:E; [|discriminate].
    pose proof (IHv _ _ _ _ E) as Hv.
    destruct (sep_or_close cRBRK r1) as [[[|] r']|]; [| |discriminate].
    + eapply IHe; [exact H|]. cbn [forallb]. rewrite Hv, Hacc. reflexivity.
    + injection H as <- <-. apply forallb_rev_append; cbn [forallb]; rewrite ?Hv, ?Hacc; reflexivity.
  - intros d inp acc l r H Hacc. cbn [parse_members] in H.
    destruct (parse_key inp) as [[k r0]|]; [|discriminate].
    destruct (parse_value f d r0) as [[v r1]|] eqn:E; [|discriminate].
    pose proof (IHv _ _ _ _ E) as Hv.
    destruct (sep_or_close cRBRC r1) as [[[|] r']|]; [| |discriminate].
    + eapply IHm; [exact H|]. cbn [forallb]. change (kv_nums_ok (k, v)) with (nums_ok v). rewrite Hv, Hacc. reflexivity.
    + injection H as <- <-. apply forallb_rev_append; cbn [forallb]; change (kv_nums_ok (k, v)) with (nums_ok v);
        rewrite ?Hv, ?Hacc; reflexivity.
Qed.

Theorem parse_nums_ok txt j : parse txt = Some j -> nums_ok j = true.
Proof.
  unfold parse. intros H.
  destruct (parse_value (S (2 * length txt)) RECURSION_LIMIT (skip_ws txt)) as [[v r]|] eqn:E; [|discriminate].
  destruct (skip_ws r); [|discriminate]. injection H as <-.
  eapply (proj1 (parse_sound _)). exact E.
Qed.

(* ================= serde_json::Value from the AST ================= *)
Fixpoint canon_list (A : absfns) (l : list json) : option (list json) :=
  match l with
  | [] => Some []
  | x :: r => match canon A x with
              | None => None
              | Some x' => match canon_list A r with Some r' => Some (x' :: r') | None => None end
              end
  end.
Fixpoint canon_members (A : absfns) (kvs acc : list (str * json)) : option (list (str * json)) :=
  match kvs with
  | [] => Some acc
  | (k, v) :: r => match canon A v with
                   | None => None
                   | Some v' => canon_members A r (obj_insert k v' acc)
                   end
  end.

Lemma canon_arr A l : canon A (JArr l) = option_map JArr (canon_list A l).
Proof.
  cbn [canon].
  match goal with |- match ?G l with _ => _ end = _ => assert (E : forall l, G l = canon_list A l) end.
  { clear l. induction l as [|x l IH]; [reflexivity|]. cbn [canon_list]. rewrite <- IH. reflexivity. }
  rewrite E. destruct (canon_list A l); reflexivity.
Qed.

Lemma canon_obj A kvs : canon A (JObj kvs) = option_map JObj (canon_members A kvs []).
Proof.
  cbn [canon].
  match goal with |- match ?G kvs [] with _ => _ end = _ =>
    assert (E : forall kvs acc, G kvs acc = canon_members A kvs acc);
    [ clear kvs; induction kvs as [|[k v] kvs IH]; intros acc; [reflexivity|]; cbn [canon_members];
      change (G ((k, v) :: kvs) acc) with (match canon A v with None => None | Some v' => G kvs (obj_insert k v' acc) end);
      destruct (canon A v); [apply IH|reflexivity] | ]
  end.
  rewrite E. destruct (canon_members A kvs []); reflexivity.
Qed.

(* the abstract float printer writes JSON numbers *)
Definition fmt_ok (A : absfns) : Prop := forall t t', a_fmt_float A t = Some t' -> num_ok t' = true.

Lemma obj_insert_nums k v m :
  nums_ok v = true -> forallb kv_nums_ok m = true -> forallb kv_nums_ok (obj_insert k v m) = true.
Proof.
  intros Hv. induction m as [|[k' v'] m IH]; intros Hm; cbn [obj_insert forallb].
  - change (kv_nums_ok (k, v)) with (nums_ok v). rewrite Hv. reflexivity.
  - cbn [forallb] in Hm. apply andb_true_iff in Hm as [H1 H2].
    destruct (str_cmp k k'); cbn [forallb]; change (kv_nums_ok (k, v)) with (nums_ok v); rewrite ?Hv, ?H1, ?H2, ?IH; auto.
Qed.

Lemma canon_nums_ok A : fmt_ok A -> forall j v, nums_ok j = true -> canon A j = Some v -> nums_ok v = true.
Proof.
  intros HA. induction j as [| b | t | s | l IH | kvs IH] using JsonProofs.json_ind'; intros v Hj Hc.
  - injection Hc as <-. reflexivity.
  - injection Hc as <-. reflexivity.
  - cbn [canon] in Hc. unfold norm_num in Hc. destruct (plain_int t).
    + injection Hc as <-. exact Hj.
    + destruct (a_fmt_float A t) as [t'|] eqn:E; [|discriminate]. injection Hc as <-. exact (HA _ _ E).
  - injection Hc as <-. reflexivity.
  - rewrite canon_arr in Hc. destruct (canon_list A l) as [l'|] eqn:E; [|discriminate]. injection Hc as <-.
    cbn [nums_ok] in *. revert l' E Hj. induction IH as [|x l Hx _ IHl]; intros l' E Hj.
    + injection E as <-. reflexivity.
    + cbn [canon_list] in E. cbn [forallb] in Hj. apply andb_true_iff in Hj as [H1 H2].
      destruct (canon A x) as [x'|] eqn:Ex; [|discriminate].
      destruct (canon_list A l) as [r'|] eqn:Er; [|discriminate]. injection E as <-.
      cbn [forallb]. rewrite (Hx x' H1 eq_refl), (IHl r' eq_refl H2). reflexivity.
  - rewrite canon_obj in Hc. destruct (canon_members A kvs []) as [m|] eqn:E; [|discriminate]. injection Hc as <-.
    cbn [nums_ok] in *. change (forallb kv_nums_ok m = true).
    assert (G : forall acc m, forallb kv_nums_ok acc = true -> canon_members A kvs acc = Some m -> forallb kv_nums_ok m = true).
    { clear m E. change (forallb kv_nums_ok kvs = true) in Hj.
      induction IH as [|[k x] r Hx _ IHr]; intros acc m Hacc E.
      - injection E as <-. exact Hacc.
      - cbn [canon_members] in E. cbn [forallb] in Hj. apply andb_true_iff in Hj as [H1 H2].
        destruct (canon A x) as [x'|] eqn:Ex; [|discriminate].
        eapply (IHr H2); [|exact E]. apply obj_insert_nums; [|exact Hacc]. exact (Hx x' H1 Ex). }
    eapply G; [|exact E]. reflexivity.
Qed.

(* ================= what one classified payload is ================= *)
Lemma depth_check_false (n : nat) : (MAX_PAYLOAD_NESTING <? n)%nat = false -> (n < 128)%nat.
Proof. intros H. apply Nat.ltb_ge in H. unfold MAX_PAYLOAD_NESTING in H. lia. Qed.

(* a payload classified as an event IS the parse of the text, as a Value; its canonical print parses back to it;
   the delta is the `delta` string of a value whose `type` is "response.output_text.delta" *)
Lemma jclassify_event A ev raw v errs rerrs dl :
  fmt_ok A -> jclassify A ev raw = CEvent v errs rerrs dl ->
  (exists j, parse raw = Some j /\ canon A j = Some v)
  /\ parse (print v) = Some v
  /\ (json_depth v <= MAX_PAYLOAD_NESTING)%nat
  /\ dl = text_delta v
  /\ errs = fst (a_validate A v) ++ name_mismatch ev v
  /\ rerrs = snd (a_validate A v).
Proof.
  intros HA H. unfold jclassify, parse_value_of in H.
  destruct (parse raw) as [j|] eqn:Ep; [|discriminate].
  destruct (canon A j) as [v0|] eqn:Ec; [|discriminate].
  destruct (MAX_PAYLOAD_NESTING <? json_depth v0)%nat eqn:Ed; [discriminate|].
  destruct (a_validate A v0) as [ve re] eqn:Ev. injection H as <- <- <- <-.
  pose proof (depth_check_false _ Ed) as D.
  repeat split.
  - exists j. split; [reflexivity|exact Ec].
  - apply parse_print_nums; [|exact D]. eapply canon_nums_ok; [exact HA| |exact Ec]. eapply parse_nums_ok. exact Ep.
  - apply Nat.ltb_ge in Ed. exact Ed.
  - rewrite Ev. reflexivity.
  - rewrite Ev. reflexivity.
Qed.

(* a payload kept as text: not JSON for serde_json (does not parse / a number out of range), or nested too deep *)
Lemma jclassify_invalid A ev raw errs :
  jclassify A ev raw = CInvalid errs ->
  (parse_value_of A raw = None /\ errs = [a_json_err A raw])
  \/ (exists v, parse_value_of A raw = Some v /\ (MAX_PAYLOAD_NESTING < json_depth v)%nat /\ errs = [nest_msg (json_depth v)]).
Proof.
  unfold jclassify. intros H. destruct (parse_value_of A raw) as [v|].
  - destruct (MAX_PAYLOAD_NESTING <? json_depth v)%nat eqn:Ed.
    + right. exists v. injection H as <-. apply Nat.ltb_lt in Ed. auto.
    + destruct (a_validate A v). discriminate.
  - left. injection H as <-. auto.
Qed.
