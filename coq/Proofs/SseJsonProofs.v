(* C15 proofs about the instantiated classification (Model/SseJson.v): what a provider frame carries, with the
   JSON parser of Base/JsonParse.v inside the statement; the text deltas; the u64 arithmetic of the seq numbers. *)
From RipV Require Import Base.Prelude Base.Utf8 Base.Json Model.Sse Model.SseJson.
From RipV Require Import Proofs.Utf8Proofs Proofs.SseProofs.
From RipV Require Base.JsonParse Proofs.JsonProofs.
Import JsonParse.

(* ================= numbers of a value are JSON numbers ================= *)
(* (Json.json_ok also restricts the code points of strings; the round trip does not need that) *)
Fixpoint nums_ok (j : json) : bool :=
  match j with
  | JNum t => num_ok t
  | JArr l => forallb nums_ok l
  | JObj kvs => forallb (fun kv => nums_ok (snd kv)) kvs
  | _ => true
  end.

Lemma print_elem_ok_nums : forall j, nums_ok j = true -> JsonProofs.elem_ok print j.
Proof.
  induction j as [| b | t | s | l IH | kvs IH] using JsonProofs.json_ind'; intros Hok.
  - apply JsonProofs.scalar_null.
  - apply JsonProofs.scalar_bool.
  - apply JsonProofs.scalar_num. exact Hok.
  - apply JsonProofs.scalar_str.
  - cbn [nums_ok] in Hok. pose proof (JsonProofs.Forall_forallb_mp _ _ _ IH Hok) as Hl.
    destruct l as [|x l]; [apply JsonProofs.empty_arr_ok; reflexivity|].
    split; [reflexivity|]. intros fuel d rest Hf Hd _. rewrite JsonProofs.print_arr_app in *.
    apply JsonProofs.parse_value_arr_gen; auto using JsonProofs.all_ws_nil.
  - cbn [nums_ok] in Hok.
    assert (Hl : Forall (fun kv => JsonProofs.elem_ok print (snd kv)) kvs).
    { eapply JsonProofs.Forall_forallb_mp; [|exact Hok]. eapply Forall_impl; [|exact IH].
      intros kv H H1. auto. }
    destruct kvs as [|kv l]; [apply JsonProofs.empty_obj_ok; reflexivity|].
    split; [reflexivity|]. intros fuel d rest Hf Hd _. rewrite JsonProofs.print_obj_app in *.
    apply JsonProofs.parse_value_obj_gen; auto using JsonProofs.all_ws_nil.
Qed.

Theorem parse_print_nums : forall j, nums_ok j = true -> (json_depth j < 128)%nat -> parse (print j) = Some j.
Proof. intros j Hok Hd. apply JsonProofs.parse_of_elem_ok; [apply print_elem_ok_nums; exact Hok | exact Hd]. Qed.

(* ================= the parser only builds number tokens it has checked ================= *)
Definition kv_nums_ok (kv : str * json) : bool := nums_ok (snd kv).

Lemma forallb_rev_append {X} (p : X -> bool) a b :
  forallb p a = true -> forallb p b = true -> forallb p (rev_append a b) = true.
Proof.
  revert b. induction a as [|x a IH]; intros b Ha Hb; cbn [rev_append]; [exact Hb|].
  cbn [forallb] in Ha. apply andb_true_iff in Ha as [Hx Ha]. apply IH; [exact Ha|].
  cbn [forallb]. rewrite Hx, Hb. reflexivity.
Qed.

Lemma parse_sound fuel :
  (forall d inp j r, parse_value fuel d inp = Some (j, r) -> nums_ok j = true)
  /\ (forall d inp acc l r, parse_elems fuel d inp acc = Some (l, r) ->
        forallb nums_ok acc = true -> forallb nums_ok l = true)
  /\ (forall d inp acc l r, parse_members fuel d inp acc = Some (l, r) ->
        forallb kv_nums_ok acc = true -> forallb kv_nums_ok l = true).
Proof.
  induction fuel as [|f (IHv & IHe & IHm)]; [repeat split; intros; discriminate|].
  split; [|split].
  - intros d inp j r H. destruct inp as [|c inp']; [discriminate|].
    cbn [parse_value] in H.
    destruct (num_start c).
    { destruct (span_num (c :: inp')) as [tok r']. destruct (num_ok tok) eqn:E; [|discriminate].
      injection H as <- <-. exact E. }
    destruct (c =? 34).
    { destruct (parse_str_chars inp' []) as [[s r']|]; [|discriminate]. injection H as <- <-. reflexivity. }
    destruct (c =? cLBRK).
    { destruct (Nat.pred d) as [|d']; [discriminate|].
      destruct (empty_close cRBRK (skip_ws inp')) as [r2|].
      - injection H as <- <-. reflexivity.
      - destruct (parse_elems f (S d') (skip_ws inp') []) as [[l r2]|] eqn:E; [|discriminate].
        injection H as <- <-. cbn [nums_ok]. eapply IHe; [exact E|reflexivity]. }
    destruct (c =? cLBRC).
    { destruct (Nat.pred d) as [|d']; [discriminate|].
      destruct (empty_close cRBRC (skip_ws inp')) as [r2|].
      - injection H as <- <-. reflexivity.
      - destruct (parse_members f (S d') (skip_ws inp') []) as [[l r2]|] eqn:E; [|discriminate].
        injection H as <- <-. cbn [nums_ok]. eapply IHm; [exact E|reflexivity]. }
    destruct (c =? 110).
    { destruct (strip_prefix s_null (c :: inp')); [|discriminate]. injection H as <- <-. reflexivity. }
    destruct (c =? 116).
    { destruct (strip_prefix s_true (c :: inp')); [|discriminate]. injection H as <- <-. reflexivity. }
    destruct (c =? 102).
    { destruct (strip_prefix s_false (c :: inp')); [|discriminate]. injection H as <- <-. reflexivity. }
    discriminate.
  - intros d inp acc l r H Hacc. cbn [parse_elems] in H.
    destruct (parse_value f d inp) as [[v r1]|] eqn:E; [|discriminate].
    pose proof (IHv _ _ _ _ E) as Hv.
    destruct (sep_or_close cRBRK r1) as [[[|] r']|]; [| |discriminate].
    + eapply IHe; [exact H|]. cbn [forallb]. rewrite Hv, Hacc. reflexivity.
    + injection H as <- <-. apply forallb_rev_append; cbn [forallb]; rewrite ?Hv, ?Hacc; reflexivity.
  - intros d inp acc l r H Hacc. cbn [parse_members] in H.
    destruct (parse_key inp) as [[k r0]|]; [|discriminate].
    destruct (parse_value f d r0) as [[v r1]|] eqn:E; [|discriminate].
    pose proof (IHv _ _ _ _ E) as Hv.
    destruct (sep_or_close cRBRC r1) as [[[|] r']|]; [| |discriminate].
    + eapply IHm; [exact H|]. cbn [forallb]. change (kv_nums_ok (k, v)) with (nums_ok v). rewrite Hv, Hacc. reflexivity.
    + injection H as <- <-. apply forallb_rev_append; cbn [forallb]; change (kv_nums_ok (k, v)) with (nums_ok v);
        rewrite ?Hv, ?Hacc; reflexivity.
Qed.

Theorem parse_nums_ok txt j : parse txt = Some j -> nums_ok j = true.
Proof.
  unfold parse. intros H.
  destruct (parse_value (S (2 * length txt)) RECURSION_LIMIT (skip_ws txt)) as [[v r]|] eqn:E; [|discriminate].
  destruct (skip_ws r); [|discriminate]. injection H as <-.
  eapply (proj1 (parse_sound _)). exact E.
Qed.

(* ================= serde_json::Value from the AST ================= *)
Fixpoint canon_list (A : absfns) (l : list json) : option (list json) :=
  match l with
  | [] => Some []
  | x :: r => match canon A x with
              | None => None
              | Some x' => match canon_list A r with Some r' => Some (x' :: r') | None => None end
              end
  end.
Fixpoint canon_members (A : absfns) (kvs acc : list (str * json)) : option (list (str * json)) :=
  match kvs with
  | [] => Some acc
  | (k, v) :: r => match canon A v with
                   | None => None
                   | Some v' => canon_members A r (obj_insert k v' acc)
                   end
  end.

Lemma canon_arr A l : canon A (JArr l) = option_map JArr (canon_list A l).
Proof.
  cbn [canon].
  match goal with |- match ?G l with _ => _ end = _ => assert (E : forall l, G l = canon_list A l) end.
  { clear l. induction l as [|x l IH]; [reflexivity|]. cbn [canon_list]. rewrite <- IH. reflexivity. }
  rewrite E. destruct (canon_list A l); reflexivity.
Qed.

Lemma canon_obj A kvs : canon A (JObj kvs) = option_map JObj (canon_members A kvs []).
Proof.
  cbn [canon].
  match goal with |- match ?G kvs [] with _ => _ end = _ =>
    assert (E : forall kvs acc, G kvs acc = canon_members A kvs acc);
    [ clear kvs; induction kvs as [|[k v] kvs IH]; intros acc; [reflexivity|]; cbn [canon_members];
      change (G ((k, v) :: kvs) acc) with (match canon A v with None => None | Some v' => G kvs (obj_insert k v' acc) end);
      destruct (canon A v); [apply IH|reflexivity] | ]
  end.
  rewrite E. destruct (canon_members A kvs []); reflexivity.
Qed.

(* the abstract float printer writes JSON numbers *)
Definition fmt_ok (A : absfns) : Prop := forall t t', a_fmt_float A t = Some t' -> num_ok t' = true.

Lemma obj_insert_nums k v m :
  nums_ok v = true -> forallb kv_nums_ok m = true -> forallb kv_nums_ok (obj_insert k v m) = true.
Proof.
  intros Hv. induction m as [|[k' v'] m IH]; intros Hm; cbn [obj_insert forallb].
  - change (kv_nums_ok (k, v)) with (nums_ok v). rewrite Hv. reflexivity.
  - cbn [forallb] in Hm. apply andb_true_iff in Hm as [H1 H2].
    destruct (str_cmp k k'); cbn [forallb]; change (kv_nums_ok (k, v)) with (nums_ok v); rewrite ?Hv, ?H1, ?H2, ?IH; auto.
Qed.

Lemma canon_nums_ok A : fmt_ok A -> forall j v, nums_ok j = true -> canon A j = Some v -> nums_ok v = true.
Proof.
  intros HA. induction j as [| b | t | s | l IH | kvs IH] using JsonProofs.json_ind'; intros v Hj Hc.
  - injection Hc as <-. reflexivity.
  - injection Hc as <-. reflexivity.
  - cbn [canon] in Hc. unfold norm_num in Hc. destruct (plain_int t).
    + injection Hc as <-. exact Hj.
    + destruct (a_fmt_float A t) as [t'|] eqn:E; [|discriminate]. injection Hc as <-. exact (HA _ _ E).
  - injection Hc as <-. reflexivity.
  - rewrite canon_arr in Hc. destruct (canon_list A l) as [l'|] eqn:E; [|discriminate]. injection Hc as <-.
    cbn [nums_ok] in *. revert l' E Hj. induction IH as [|x l Hx _ IHl]; intros l' E Hj.
    + injection E as <-. reflexivity.
    + cbn [canon_list] in E. cbn [forallb] in Hj. apply andb_true_iff in Hj as [H1 H2].
      destruct (canon A x) as [x'|] eqn:Ex; [|discriminate].
      destruct (canon_list A l) as [r'|] eqn:Er; [|discriminate]. injection E as <-.
      cbn [forallb]. rewrite (Hx x' H1 eq_refl), (IHl r' eq_refl H2). reflexivity.
  - rewrite canon_obj in Hc. destruct (canon_members A kvs []) as [m|] eqn:E; [|discriminate]. injection Hc as <-.
    cbn [nums_ok] in *. change (forallb kv_nums_ok m = true).
    assert (G : forall acc m, forallb kv_nums_ok acc = true -> canon_members A kvs acc = Some m -> forallb kv_nums_ok m = true).
    { clear m E. change (forallb kv_nums_ok kvs = true) in Hj.
      induction IH as [|[k x] r Hx _ IHr]; intros acc m Hacc E.
      - injection E as <-. exact Hacc.
      - cbn [canon_members] in E. cbn [forallb] in Hj. apply andb_true_iff in Hj as [H1 H2].
        destruct (canon A x) as [x'|] eqn:Ex; [|discriminate].
        eapply (IHr H2); [|exact E]. apply obj_insert_nums; [|exact Hacc]. exact (Hx x' H1 Ex). }
    eapply G; [|exact E]. reflexivity.
Qed.

(* ================= what one classified payload is ================= *)
Lemma depth_check_false (n : nat) : (MAX_PAYLOAD_NESTING <? n)%nat = false -> (n < 128)%nat.
Proof. intros H. apply Nat.ltb_ge in H. unfold MAX_PAYLOAD_NESTING in H. lia. Qed.

(* a payload classified as an event IS the parse of the text, as a Value; its canonical print parses back to it;
   the delta is the `delta` string of a value whose `type` is "response.output_text.delta" *)
Lemma jclassify_event A ev raw v errs rerrs dl :
  fmt_ok A -> jclassify A ev raw = CEvent v errs rerrs dl ->
  (exists j, parse raw = Some j /\ canon A j = Some v)
  /\ parse (print v) = Some v
  /\ (json_depth v <= MAX_PAYLOAD_NESTING)%nat
  /\ dl = text_delta v
  /\ errs = a_vstream A (validation_data A v) ++ name_mismatch ev v
  /\ rerrs = response_errors A v.
Proof.
  intros HA H. unfold jclassify, parse_value_of in H.
  destruct (parse raw) as [j|] eqn:Ep; [|discriminate].
  destruct (canon A j) as [v0|] eqn:Ec; [|discriminate].
  destruct (MAX_PAYLOAD_NESTING <? json_depth v0)%nat eqn:Ed; [discriminate|].
  injection H as <- <- <- <-.
  pose proof (depth_check_false _ Ed) as D.
  repeat split.
  - exists j. split; [reflexivity|exact Ec].
  - apply parse_print_nums; [|exact D]. eapply canon_nums_ok; [exact HA| |exact Ec]. eapply parse_nums_ok. exact Ep.
  - apply Nat.ltb_ge in Ed. exact Ed.
Qed.

(* a payload kept as text: not JSON for serde_json (does not parse / a number out of range), or nested too deep *)
Lemma jclassify_invalid A ev raw errs :
  jclassify A ev raw = CInvalid errs ->
  (parse_value_of A raw = None /\ errs = [a_json_err A raw])
  \/ (exists v, parse_value_of A raw = Some v /\ (MAX_PAYLOAD_NESTING < json_depth v)%nat /\ errs = [nest_msg (json_depth v)]).
Proof.
  unfold jclassify. intros H. destruct (parse_value_of A raw) as [v|].
  - destruct (MAX_PAYLOAD_NESTING <? json_depth v)%nat eqn:Ed.
    + right. exists v. injection H as <-. apply Nat.ltb_lt in Ed. auto.
    + discriminate.
  - left. injection H as <-. auto.
Qed.

Lemma jclassify_delta A ev raw v errs rerrs dl : jclassify A ev raw = CEvent v errs rerrs dl -> dl = text_delta v.
Proof.
  unfold jclassify. destruct (parse_value_of A raw) as [v0|]; [|discriminate].
  destruct (MAX_PAYLOAD_NESTING <? json_depth v0)%nat; [discriminate|].
  intros H. injection H as <- _ _ <-. reflexivity.
Qed.

(* the text delta of a value: the `delta` string member of an object whose `type` member is the string
   "response.output_text.delta" (first binding = only binding: `canon` leaves no duplicate keys) *)
Lemma text_delta_spec v d :
  text_delta v = Some d <->
  exists kvs, v = JObj kvs /\ assoc S_TYPE kvs = Some (JStr S_OTD) /\ assoc S_DELTA kvs = Some (JStr d).
Proof.
  unfold text_delta, get_str. split.
  - destruct v as [| | | |l|kvs]; try discriminate.
    destruct (assoc S_TYPE kvs) as [[| | |t| |]|] eqn:Et; try discriminate.
    destruct (str_eqb t S_OTD) eqn:Eq; [|discriminate]. apply JsonProofs.str_eqb_spec in Eq. subst t.
    destruct (assoc S_DELTA kvs) as [[| | |s| |]|] eqn:Ed; try discriminate.
    intros H. injection H as <-. exists kvs. auto.
  - intros (kvs & -> & Ht & Hd). rewrite Ht.
    replace (str_eqb S_OTD S_OTD) with true by reflexivity. rewrite Hd. reflexivity.
Qed.

(* ================= every event of the stream is a classified payload ================= *)
Definition ev_wf (cl : option str -> str -> cls) (e : pev) : Prop := exists ev raw, e = parse_event cl ev raw.

Lemma line_step_wf cl s l : Forall (ev_wf cl) (snd (line_step cl s l)).
Proof.
  unfold line_step. destruct (Sse.strip_prefix S_EVENT (trim_end_cr l)); [constructor|].
  destruct (Sse.strip_prefix S_DATA (trim_end_cr l)); [constructor|].
  destruct (trim_end_cr l); [|constructor]. destruct (snd s); [constructor|].
  cbn [snd]. constructor; [|constructor]. eexists _, _. reflexivity.
Qed.

Lemma fold_lines_wf cl ls : forall s, Forall (ev_wf cl) (snd (fold_lines cl s ls)).
Proof.
  induction ls as [|l ls IH]; intros s; cbn [fold_lines]; [constructor|].
  pose proof (line_step_wf cl s l) as H1. destruct (line_step cl s l) as [s1 e1].
  specialize (IH s1). destruct (fold_lines cl s1 ls) as [s2 e2]. cbn [snd] in *.
  apply Forall_app. split; assumption.
Qed.

Lemma upto_done_Forall (P : pev -> Prop) l : Forall P l -> Forall P (upto_done l).
Proof.
  induction 1 as [|e l He _ IH]; cbn [upto_done]; [constructor|].
  destruct (is_done e); constructor; auto.
Qed.

Lemma events_wf cl text : Forall (ev_wf cl) (upto_done (events_spec cl text)).
Proof. apply upto_done_Forall. unfold events_spec. apply fold_lines_wf. Qed.

(* ================= what a provider frame carries ================= *)
(* f is the provider frame of event e: same status and event name, and
   - terminal marker: raw = the payload = "[DONE]";
   - not JSON (or JSON nested too deep for a frame): raw = the payload, the joined data lines, code point for code point;
   - JSON: data = the Value of parse(payload), and printing data gives a text that parses back to data *)
Definition carries (A : absfns) (f : frame) (e : pev) : Prop :=
  match f with
  | FDelta _ _ => False
  | FProv _ st ev raw data _ _ =>
    st = pe_kind e /\ ev = pe_event e /\
    ((st = 0 /\ raw = Some (pe_raw e) /\ data = None /\ pe_raw e = S_DONE)
     \/ (st = 1 /\ raw = Some (pe_raw e) /\ data = None /\
         (parse_value_of A (pe_raw e) = None
          \/ exists v, parse_value_of A (pe_raw e) = Some v /\ (MAX_PAYLOAD_NESTING < json_depth v)%nat))
     \/ (st = 2 /\ raw = None /\
         exists j v, parse (pe_raw e) = Some j /\ canon A j = Some v /\ data = Some v /\ parse (print v) = Some v))
  end.

Lemma carries_prov_frame A s e : fmt_ok A -> ev_wf (jclassify A) e -> carries A (prov_frame s e) e.
Proof.
  intros HA (ev & raw & ->). unfold parse_event.
  destruct (lN_eqb raw S_DONE) eqn:Ed.
  - apply lN_eqb_spec in Ed. cbn. repeat split. left. repeat split. exact Ed.
  - destruct (jclassify A ev raw) as [errs|v errs rerrs dl] eqn:Ec.
    + cbn. repeat split. right. left. repeat split.
      destruct (jclassify_invalid _ _ _ _ Ec) as [[H _]|(v & H1 & H2 & _)]; [left; exact H|right; exists v; auto].
    + cbn. repeat split. right. right. repeat split.
      destruct (jclassify_event _ _ _ _ _ _ _ HA Ec) as ((j & Hp & Hc) & Hr & _).
      exists j, v. auto.
Qed.

Lemma carries_strip A f e : carries A (strip_seq f) e -> carries A f e.
Proof. destruct f; exact (fun H => H). Qed.

Lemma Forall2_of_maps {X Y Z} (f : X -> Z) (g : Y -> Z) l1 : forall l2,
  map f l1 = map g l2 -> Forall2 (fun x y => f x = g y) l1 l2.
Proof.
  induction l1 as [|x l1 IH]; intros [|y l2] H; try discriminate; constructor.
  - cbn [map] in H. injection H as H _. exact H.
  - apply IH. cbn [map] in H. injection H as _ H. exact H.
Qed.

Lemma Forall2_with_r {X Y} (R Q : X -> Y -> Prop) (P : Y -> Prop) l1 l2 :
  Forall2 R l1 l2 -> Forall P l2 -> (forall x y, R x y -> P y -> Q x y) -> Forall2 Q l1 l2.
Proof.
  intros H. induction H as [|x y l1 l2 Hxy _ IH]; intros HP HQ; [constructor|].
  inversion HP as [|? ? Py Pl]; subst. constructor; auto.
Qed.

(* the provider frames of any chunked run, paired in order with the server-sent events of the body *)
Theorem payload_unchanged A off cs : fmt_ok A ->
  Forall2 (carries A)
    (filter is_prov (frames_of (jclassify A) FIXED off cs))
    (upto_done (events_spec (jclassify A) (lossy_text (concat cs)))).
Proof.
  intros HA. pose proof (one_frame_per_event (jclassify A) off cs) as H.
  apply Forall2_of_maps in H.
  eapply Forall2_with_r; [exact H | apply events_wf |].
  intros f e Hfe Hwf. apply carries_strip. rewrite Hfe. apply carries_prov_frame; assumption.
Qed.

(* ================= the derived text ================= *)
(* the text delta a provider frame's data holds *)
Definition data_delta (f : frame) : str :=
  match f with
  | FProv _ _ _ _ (Some v) _ _ => match text_delta v with Some d => d | None => [] end
  | _ => []
  end.

Lemma output_text_data cl s evs : forall s0, s0 = s ->
  (forall ev raw v errs rerrs dl, cl ev raw = CEvent v errs rerrs dl -> dl = text_delta v) ->
  Forall (ev_wf cl) evs ->
  output_text (frames_from s0 evs) = concat (map data_delta (filter is_prov (frames_from s0 evs))).
Proof.
  intros s0 _ Hcl H. revert s0. induction H as [|e evs (ev & raw & ->) _ IH]; intros s0; [reflexivity|].
  cbn [frames_from]. rewrite filter_app, map_app, concat_app.
  assert (E : forall a b, output_text (a ++ b) = output_text a ++ output_text b).
  { induction a as [|[|] a IHa]; intros b; cbn [app output_text]; rewrite ?IHa, ?app_assoc; reflexivity. }
  rewrite E, IH. f_equal. clear IH E.
  unfold parse_event. destruct (lN_eqb raw S_DONE); [reflexivity|].
  destruct (cl ev raw) as [errs|v errs rerrs dl] eqn:Ec; [reflexivity|].
  rewrite (Hcl _ _ _ _ _ _ Ec). unfold ev_frames, prov_frame. cbn [pe_delta pe_kind pe_data pe_event pe_err pe_rerr].
  change (2 =? 2) with true. cbv iota.
  destruct (text_delta v) as [d|] eqn:Ed; cbn [app filter is_prov map data_delta concat output_text]; rewrite ?Ed, ?app_nil_r; reflexivity.
Qed.

(* the output text of a run = the concatenation, over its provider frames in order, of the text delta each one holds *)
Theorem text_is_concat_of_data_deltas A off cs :
  output_text (frames_of (jclassify A) FIXED off cs)
  = concat (map data_delta (filter is_prov (frames_of (jclassify A) FIXED off cs))).
Proof.
  rewrite frames_of_whole. unfold frames_whole. apply (output_text_data (jclassify A) off); [reflexivity| |apply events_wf].
  intros ev raw v errs rerrs dl H. eapply jclassify_delta. exact H.
Qed.

(* ================= stream_transformers::extract_text_deltas reads the same text ================= *)
(* ... from the provider frames alone, unless a payload WITHOUT a string `type` arrives under the SSE event name
   "response.output_text.delta": the library helper then falls back to the event name, the mapper never does *)
Definition typed_or_unnamed (e : pev) : Prop :=
  match pe_data e with
  | Some v => pe_event e = Some S_OTD -> get_str S_TYPE v = None -> get_str S_DELTA v = None
  | None => True
  end.

Lemma frame_text_delta_event s ev raw v errs rerrs :
  frame_text_delta (FProv s 2 ev raw (Some v) errs rerrs) =
  match get_str S_TYPE v with
  | Some t => if str_eqb t S_OTD then get_str S_DELTA v else None
  | None => match ev with
            | Some n => if str_eqb n S_OTD then get_str S_DELTA v else None
            | None => None
            end
  end.
Proof.
  unfold frame_text_delta, frame_event_type, get_str. change (2 =? 2) with true. cbv iota.
  destruct v as [| | | |l|kvs]; try (destruct ev as [n|]; [destruct (str_eqb n S_OTD)|]; reflexivity).
  destruct (assoc S_TYPE kvs) as [[| | |t| |]|]; try (destruct ev as [n|]; [destruct (str_eqb n S_OTD)|]; reflexivity).
Qed.

Lemma extract_app a b : extract_text_deltas (a ++ b) = extract_text_deltas a ++ extract_text_deltas b.
Proof. unfold extract_text_deltas. apply flat_map_app. Qed.

Lemma extract_frames_from A evs : forall s,
  Forall (ev_wf (jclassify A)) evs -> Forall typed_or_unnamed evs ->
  concat (extract_text_deltas (frames_from s evs)) = output_text (frames_from s evs).
Proof.
  assert (E : forall a b, output_text (a ++ b) = output_text a ++ output_text b).
  { induction a as [|[|] a IHa]; intros b; cbn [app output_text]; rewrite ?IHa, ?app_assoc; reflexivity. }
  induction evs as [|e evs IH]; intros s Hwf Hty; [reflexivity|].
  inversion Hwf as [|? ? (ev & raw & He) Hwf']; subst. inversion Hty as [|? ? Hte Hty']; subst.
  cbn [frames_from]. rewrite extract_app, concat_app, E, IH by assumption. f_equal. clear IH E Hwf Hty Hwf' Hty'.
  unfold parse_event in *. destruct (lN_eqb raw S_DONE); [reflexivity|].
  destruct (jclassify A ev raw) as [errs|v errs rerrs dl] eqn:Ec; [reflexivity|].
  pose proof (jclassify_delta _ _ _ _ _ _ _ Ec) as ->.
  unfold typed_or_unnamed in Hte. cbn [pe_data pe_event] in Hte.
  unfold ev_frames, prov_frame. cbn [pe_delta pe_kind pe_data pe_event pe_err pe_rerr]. change (2 =? 2) with true. cbv iota.
  assert (F : frame_text_delta (FProv s 2 ev None (Some v) errs rerrs) = text_delta v).
  { rewrite frame_text_delta_event. unfold text_delta. destruct (get_str S_TYPE v) as [t|]; [reflexivity|].
    destruct ev as [n|]; [|reflexivity]. destruct (str_eqb n S_OTD) eqn:En; [|reflexivity].
    apply JsonProofs.str_eqb_spec in En. subst n. apply Hte; reflexivity. }
  destruct (text_delta v) as [d|] eqn:Ed; unfold extract_text_deltas; cbn [flat_map]; rewrite F; cbn; rewrite ?app_nil_r; reflexivity.
Qed.

Theorem extractor_agrees A off cs :
  Forall typed_or_unnamed (upto_done (events_spec (jclassify A) (lossy_text (concat cs)))) ->
  concat (extract_text_deltas (frames_of (jclassify A) FIXED off cs)) = output_text (frames_of (jclassify A) FIXED off cs).
Proof. intros H. rewrite frames_of_whole. apply (extract_frames_from A); [apply events_wf|exact H]. Qed.

(* ================= the u64 arithmetic of the seq numbers ================= *)
Lemma iotaN_bound n : forall s x, In x (iotaN s n) -> s <= x < s + N.of_nat n.
Proof.
  induction n as [|n IH]; intros s x H; [destruct H|].
  cbn [iotaN] in H. destruct H as [<- | H]; [lia|]. apply IH in H. lia.
Qed.

Lemma run_pipe_shape cl off cs terr :
  map fseq (fst (run_pipe cl FIXED off cs terr)) = iotaN off (length (fst (run_pipe cl FIXED off cs terr)))
  /\ snd (run_pipe cl FIXED off cs terr) = off + nlen (fst (run_pipe cl FIXED off cs terr)).
Proof.
  destruct terr as [h|]; [apply seq_contiguous_transport_error|].
  unfold run_pipe.
  assert (Pre off pipe_new []) as HP by (repeat split).
  destruct (run_chunks_spec cl off cs [] pipe_new [] HP eq_refl) as [P1 _]. cbn [app] in P1.
  destruct (run_chunks cl FIXED off [] pipe_new cs) as [[buf p] d]. cbn [fst snd] in P1.
  destruct P1 as (_ & [Ho Hm] & _ & _).
  match type of Ho with _ = frames_from _ ?X => remember X as E eqn:HE end. clear HE.
  destruct d; cbn [fst snd].
  - rewrite Ho, Hm, frames_from_length. split; [apply frames_from_seqs|reflexivity].
  - unfold pipe_finish. cbn [fx_cut FIXED]. destruct (dec_finish cl (p_dec p)) as [d2 e2].
    destruct (emit_evs_WF off (upto_done e2) (with_dec p d2) E) as [[Ho2 Hm2] _]; [split; assumption|].
    cbn [fst snd]. rewrite Ho2, Hm2, frames_from_length. split; [apply frames_from_seqs|reflexivity].
Qed.

Lemma wrap_frame_small f : fseq f < TWO64 -> wrap_frame f = f.
Proof. destruct f; cbn [fseq wrap_frame]; intros H; rewrite N.mod_small by exact H; reflexivity. Qed.

(* No-overflow hypothesis, explicit: when seq_offset + number of frames stays below 2^64 the u64 additions of the
   code never wrap (release build) and never panic (build with overflow checks): the unbounded model is exact. *)
Theorem seq_no_wrap cl off cs terr :
  off + nlen (fst (run_pipe cl FIXED off cs terr)) < TWO64 ->
  wrap_run (run_pipe cl FIXED off cs terr) = run_pipe cl FIXED off cs terr
  /\ run_overflows (run_pipe cl FIXED off cs terr) = false.
Proof.
  intros H. destruct (run_pipe_shape cl off cs terr) as [Hs He].
  destruct (run_pipe cl FIXED off cs terr) as [fs sq]. cbn [fst snd] in *. subst sq.
  unfold wrap_run, run_overflows. cbn [fst snd]. split.
  - f_equal; [|apply N.mod_small; exact H].
    rewrite <- (map_id fs) at 2. apply map_ext_in. intros f Hf. apply wrap_frame_small.
    assert (In (fseq f) (iotaN off (length fs))) as Hi by (rewrite <- Hs; apply in_map; exact Hf).
    apply iotaN_bound in Hi. unfold nlen in H. lia.
  - apply N.leb_gt. exact H.
Qed.

(* and exactly then: one frame more and `*seq += frame_count` overflows *)
Theorem seq_overflow_iff cl off cs terr :
  run_overflows (run_pipe cl FIXED off cs terr) = true <-> TWO64 <= off + nlen (fst (run_pipe cl FIXED off cs terr)).
Proof.
  destruct (run_pipe_shape cl off cs terr) as [_ He]. unfold run_overflows. rewrite He. apply N.leb_le.
Qed.

(* ================= non-vacuity: a concrete stream through the instantiated classification ================= *)
Definition demoA : absfns :=
  {| a_compat := true;
     a_json_err := fun _ => [107; 101; 121; 32; 109; 117; 115; 116; 32; 98; 101; 32; 97; 32; 115; 116; 114; 105; 110; 103; 32; 97; 116; 32; 108; 105; 110; 101; 32; 49; 32; 99; 111; 108; 117; 109; 110; 32; 50];
     a_fmt_float := fun t => if lN_eqb t [49; 46; 53; 48] || lN_eqb t [49; 46; 53] then Some [49; 46; 53] else None;
     a_vstream := fun _ => [];
     a_vresp := fun _ => [] |}.

Lemma demoA_fmt_ok : fmt_ok demoA.
Proof.
  intros t t' H. cbn [demoA a_fmt_float] in H. destruct (lN_eqb t _ || lN_eqb t _); [|discriminate]. injection H as <-. reflexivity.
Qed.

(* CRLF and LF blocks: a text delta with an escaped character, keys out of order, a duplicate key and a value spread over
   two data lines; an event whose SSE name differs from its type; a payload that is not JSON; a payload WITHOUT a type
   under the event name of a text delta; the terminal marker; an event after it:
     event: response.output_text.delta\r
     data: {"delta":"h\u00e9","type":"response.output_text.delta",\r
     data: "n":1.50,"n":2}\r
     \r
     event: x
     data: {"type":"y"}
     
     data: {oops}
     
     event: response.output_text.delta
     data: {"delta":"typeless"}
     
     data: [DONE]
     
     data: {"after":"done"}
     
      *)
Definition demo2_body : list N :=
  [101; 118; 101; 110; 116; 58; 32; 114; 101; 115; 112; 111; 110; 115; 101; 46; 111; 117; 116; 112; 117; 116; 95; 116; 101; 120; 116; 46; 100; 101;
   108; 116; 97; 13; 10; 100; 97; 116; 97; 58; 32; 123; 34; 100; 101; 108; 116; 97; 34; 58; 34; 104; 92; 117; 48; 48; 101; 57; 34; 44;
   34; 116; 121; 112; 101; 34; 58; 34; 114; 101; 115; 112; 111; 110; 115; 101; 46; 111; 117; 116; 112; 117; 116; 95; 116; 101; 120; 116; 46; 100;
   101; 108; 116; 97; 34; 44; 13; 10; 100; 97; 116; 97; 58; 32; 34; 110; 34; 58; 49; 46; 53; 48; 44; 34; 110; 34; 58; 50; 125; 13;
   10; 13; 10; 101; 118; 101; 110; 116; 58; 32; 120; 10; 100; 97; 116; 97; 58; 32; 123; 34; 116; 121; 112; 101; 34; 58; 34; 121; 34; 125;
   10; 10; 100; 97; 116; 97; 58; 32; 123; 111; 111; 112; 115; 125; 10; 10; 101; 118; 101; 110; 116; 58; 32; 114; 101; 115; 112; 111; 110; 115;
   101; 46; 111; 117; 116; 112; 117; 116; 95; 116; 101; 120; 116; 46; 100; 101; 108; 116; 97; 10; 100; 97; 116; 97; 58; 32; 123; 34; 100; 101;
   108; 116; 97; 34; 58; 34; 116; 121; 112; 101; 108; 101; 115; 115; 34; 125; 10; 10; 100; 97; 116; 97; 58; 32; 91; 68; 79; 78; 69; 93;
   10; 10; 100; 97; 116; 97; 58; 32; 123; 34; 97; 102; 116; 101; 114; 34; 58; 34; 100; 111; 110; 101; 34; 125; 10; 10].
Definition demo2_expected : list frame :=
  [FProv 5 2 (Some S_OTD) None
     (Some (JObj [(S_DELTA, JStr [104; 233]); ([110], JNum [50]); (S_TYPE, JStr S_OTD)])) [] [];
   FDelta 6 [104; 233];
   FProv 7 2 (Some [120]) None (Some (JObj [(S_TYPE, JStr [121])]))
     [M_MIS1 ++ [120] ++ M_MIS2 ++ [121] ++ M_MIS3] [];
   FProv 8 1 None (Some [123; 111; 111; 112; 115; 125]) None [a_json_err demoA []] [];
   FProv 9 2 (Some S_OTD) None (Some (JObj [(S_DELTA, JStr [116; 121; 112; 101; 108; 101; 115; 115])])) [] [];
   FProv 10 0 None (Some S_DONE) None [] []].

Lemma demo2_nontrivial :
  frames_of (jclassify demoA) FIXED 5 [demo2_body] = demo2_expected
  /\ frames_of (jclassify demoA) FIXED 5 (map (fun b => [b]) demo2_body) = demo2_expected
  /\ output_text demo2_expected = [104; 233]
  /\ Forall2 (carries demoA) (filter is_prov demo2_expected)
       (upto_done (events_spec (jclassify demoA) (lossy_text demo2_body))).
Proof.
  assert (E : frames_of (jclassify demoA) FIXED 5 [demo2_body] = demo2_expected) by (vm_compute; reflexivity).
  split; [exact E|]. split; [vm_compute; reflexivity|]. split; [reflexivity|].
  rewrite <- E. replace demo2_body with (concat [demo2_body]) at 2 by (cbn [concat]; apply app_nil_r).
  apply payload_unchanged. exact demoA_fmt_ok.
Qed.

(* without the hypothesis of extractor_agrees the two readings differ: the typeless payload above *)
Lemma extractor_agrees_unconditional_refuted :
  exists A off cs,
    concat (extract_text_deltas (frames_of (jclassify A) FIXED off cs)) <> output_text (frames_of (jclassify A) FIXED off cs).
Proof. exists demoA, 5, [demo2_body]. vm_compute. discriminate. Qed.

(* the hypothesis of seq_no_wrap is satisfiable at the very top of the range, and needed: one more overflows *)
Definition top_run (off : N) : list frame * N := run_pipe (jclassify demoA) FIXED off [demo2_body] None.
Lemma seq_top_of_range :
  nlen (fst (top_run (TWO64 - 1 - 6))) = 6
  /\ wrap_run (top_run (TWO64 - 1 - 6)) = top_run (TWO64 - 1 - 6) /\ run_overflows (top_run (TWO64 - 1 - 6)) = false
  /\ run_overflows (top_run (TWO64 - 6)) = true
  /\ wrap_run (top_run (TWO64 - 6)) <> top_run (TWO64 - 6).
Proof. vm_compute. repeat split; discriminate. Qed.

(* ================= T1: the model's line rule is the interpreter of the rule table the extractor reads ================= *)
From RipV Require Import Model.SseFacts.
Lemma line_step_is_rules cl s l : line_step cl s l = line_step_gen cl LINE_RULES CR s l.
Proof. reflexivity. Qed.

(* ================= the Value is canonical: canon is idempotent on its own output ================= *)
Lemma str_cmp_eq a : forall b, str_cmp a b = Eq <-> a = b.
Proof.
  induction a as [|x a IH]; intros [|y b]; cbn [str_cmp]; try (split; [discriminate|discriminate]); [split; reflexivity|].
  destruct (x ?= y) eqn:E.
  - apply N.compare_eq in E. subst y. rewrite IH. split; [intros ->; reflexivity|intros H; injection H as H; exact H].
  - split; [discriminate|]. intros H. injection H as H _. subst y. rewrite N.compare_refl in E. discriminate.
  - split; [discriminate|]. intros H. injection H as H _. subst y. rewrite N.compare_refl in E. discriminate.
Qed.

Lemma str_cmp_antisym a : forall b, str_cmp b a = CompOpp (str_cmp a b).
Proof.
  induction a as [|x a IH]; intros [|y b]; cbn [str_cmp]; try reflexivity.
  rewrite (N.compare_antisym x y). destruct (x ?= y); cbn [CompOpp]; [apply IH|reflexivity|reflexivity].
Qed.

Lemma str_cmp_trans a : forall b c, str_cmp a b = Lt -> str_cmp b c = Lt -> str_cmp a c = Lt.
Proof.
  induction a as [|x a IH]; intros [|y b] [|z c]; cbn [str_cmp]; try discriminate; try reflexivity.
  destruct (x ?= y) eqn:E1; destruct (y ?= z) eqn:E2; intros H1 H2; try discriminate.
  - apply N.compare_eq in E1, E2. subst. rewrite N.compare_refl. eapply IH; eassumption.
  - apply N.compare_eq in E1. subst. rewrite E2. reflexivity.
  - apply N.compare_eq in E2. subst. rewrite E1. reflexivity.
  - rewrite (N.lt_trans x y z E1 E2 : (x ?= z) = Lt). reflexivity.
Qed.

(* keys strictly ascending *)
Fixpoint keys_sorted (kvs : list (str * json)) : Prop :=
  match kvs with
  | [] => True
  | (k, _) :: r => match r with [] => True | (k', _) :: _ => str_cmp k k' = Lt end /\ keys_sorted r
  end.
Definition all_below (k : str) (kvs : list (str * json)) : Prop := Forall (fun kv => str_cmp (fst kv) k = Lt) kvs.

Lemma keys_sorted_head_below k v r : keys_sorted ((k, v) :: r) -> Forall (fun kv => str_cmp k (fst kv) = Lt) r.
Proof.
  revert k v. induction r as [|[k' v'] r IH]; intros k v H; [constructor|].
  cbn [keys_sorted] in H. destruct H as [H1 H2]. constructor; [exact H1|].
  specialize (IH k' v' H2). eapply Forall_impl; [|exact IH]. intros kv Hkv. eapply str_cmp_trans; eassumption.
Qed.

Lemma obj_insert_sorted k v m : keys_sorted m -> keys_sorted (obj_insert k v m).
Proof.
  induction m as [|[k' v'] m IH]; intros H; cbn [obj_insert]; [cbn; auto|].
  destruct (str_cmp k k') eqn:E.
  - apply str_cmp_eq in E. subst k'. cbn [keys_sorted] in *. exact H.
  - cbn [keys_sorted] in *. split; [exact E|exact H].
  - cbn [keys_sorted] in H. destruct H as [H1 H2]. specialize (IH H2).
    assert (G : str_cmp k' k = Lt) by (rewrite str_cmp_antisym, E; reflexivity).
    destruct m as [|[k2 v2] m]; cbn [obj_insert] in *.
    + cbn [keys_sorted]. auto.
    + destruct (str_cmp k k2) eqn:E2; cbn [keys_sorted] in *.
      * apply str_cmp_eq in E2. subst k2. split; [exact G|exact IH].
      * split; [exact G|exact IH].
      * split; [exact H1|exact IH].
Qed.

(* inserting a key above all present ones appends *)
Lemma obj_insert_above k v m : all_below k m -> obj_insert k v m = m ++ [(k, v)].
Proof.
  induction m as [|[k' v'] m IH]; intros H; [reflexivity|].
  inversion H as [|? ? H1 H2]; subst. cbn [fst] in H1. cbn [obj_insert app].
  rewrite str_cmp_antisym, H1. cbn [CompOpp]. rewrite IH by exact H2. reflexivity.
Qed.

Section Canonical.
Variable A : absfns.
(* the printer's output is a fixpoint of the number normalisation ("100.0" is re-spelled "100.0") *)
Definition fmt_idem : Prop := forall t t', a_fmt_float A t = Some t' -> norm_num A t' = Some t'.

Fixpoint canonical (j : json) : Prop :=
  match j with
  | JNum t => norm_num A t = Some t
  | JArr l => (fix go (l : list json) : Prop := match l with [] => True | x :: r => canonical x /\ go r end) l
  | JObj kvs => keys_sorted kvs
                /\ (fix go (l : list (str * json)) : Prop := match l with [] => True | (_, x) :: r => canonical x /\ go r end) kvs
  | _ => True
  end.
Definition all_canonical (l : list json) : Prop := Forall canonical l.
Definition vals_canonical (kvs : list (str * json)) : Prop := Forall (fun kv => canonical (snd kv)) kvs.

Lemma canonical_arr l : canonical (JArr l) <-> all_canonical l.
Proof.
  cbn [canonical]. induction l as [|x l IH]; [split; [constructor|auto]|].
  split.
  - intros [H1 H2]. constructor; [exact H1|apply IH; exact H2].
  - intros H. inversion H as [|? ? H1 H2]; subst. split; [exact H1|apply IH; exact H2].
Qed.
Lemma canonical_obj kvs : canonical (JObj kvs) <-> keys_sorted kvs /\ vals_canonical kvs.
Proof.
  cbn [canonical]. apply and_iff_compat_l. induction kvs as [|[k x] l IH]; [split; [constructor|auto]|].
  split.
  - intros [H1 H2]. constructor; [exact H1|apply IH; exact H2].
  - intros H. inversion H as [|? ? H1 H2]; subst. split; [exact H1|apply IH; exact H2].
Qed.

Lemma obj_insert_vals k v m : canonical v -> vals_canonical m -> vals_canonical (obj_insert k v m).
Proof.
  intros Hv. induction m as [|[k' v'] m IH]; intros Hm; cbn [obj_insert].
  - constructor; [exact Hv|constructor].
  - inversion Hm as [|? ? H1 H2]; subst. unfold vals_canonical in *.
    destruct (str_cmp k k'); [constructor; [exact Hv|exact H2] | constructor; [exact Hv|exact Hm] | constructor; [exact H1|exact (IH H2)]].
Qed.

Lemma canon_canonical : fmt_idem -> forall j v, canon A j = Some v -> canonical v.
Proof.
  intros HA. induction j as [| b | t | s | l IH | kvs IH] using JsonProofs.json_ind'; intros v Hc.
  - injection Hc as <-. exact I.
  - injection Hc as <-. exact I.
  - cbn [canon] in Hc. destruct (norm_num A t) as [t'|] eqn:E; [|discriminate]. injection Hc as <-.
    cbn [canonical]. unfold norm_num in E. destruct (plain_int t) eqn:P.
    + injection E as <-. unfold norm_num. rewrite P. reflexivity.
    + apply HA in E. exact E.
  - injection Hc as <-. exact I.
  - rewrite canon_arr in Hc. destruct (canon_list A l) as [l'|] eqn:E; [|discriminate]. injection Hc as <-.
    apply canonical_arr. revert l' E. induction IH as [|x l Hx _ IHl]; intros l' E.
    + injection E as <-. constructor.
    + cbn [canon_list] in E. destruct (canon A x) as [x'|] eqn:Ex; [|discriminate].
      destruct (canon_list A l) as [r'|]; [|discriminate]. injection E as <-.
      constructor; [exact (Hx x' eq_refl)|exact (IHl r' eq_refl)].
  - rewrite canon_obj in Hc. destruct (canon_members A kvs []) as [m|] eqn:E; [|discriminate]. injection Hc as <-.
    apply canonical_obj.
    assert (G : forall acc m, keys_sorted acc -> vals_canonical acc -> canon_members A kvs acc = Some m ->
                keys_sorted m /\ vals_canonical m).
    { clear m E. induction IH as [|[k x] r Hx _ IHr]; intros acc m Hs Hv E.
      - injection E as <-. auto.
      - cbn [canon_members] in E. cbn [snd] in Hx. destruct (canon A x) as [x'|] eqn:Ex; [|discriminate].
        eapply IHr; [| |exact E]; [apply obj_insert_sorted; exact Hs|apply obj_insert_vals; [exact (Hx x' eq_refl)|exact Hv]]. }
    eapply G; [| |exact E]; [exact I|constructor].
Qed.

Lemma canon_of_canonical : forall v, canonical v -> canon A v = Some v.
Proof.
  induction v as [| b | t | s | l IH | kvs IH] using JsonProofs.json_ind'; intros Hc; try reflexivity.
  - cbn [canon canonical] in *. rewrite Hc. reflexivity.
  - rewrite canon_arr. apply canonical_arr in Hc.
    assert (E : canon_list A l = Some l).
    { induction IH as [|x l Hx _ IHl]; [reflexivity|]. inversion Hc as [|? ? H1 H2]; subst.
      cbn [canon_list]. rewrite (Hx H1), (IHl H2). reflexivity. }
    rewrite E. reflexivity.
  - rewrite canon_obj. apply canonical_obj in Hc. destruct Hc as [Hs Hv].
    assert (G : forall acc, (forall kv, In kv kvs -> all_below (fst kv) acc) -> canon_members A kvs acc = Some (acc ++ kvs)).
    { clear - IH Hs Hv. induction IH as [|[k x] r Hx _ IHr]; intros acc Hb; [rewrite app_nil_r; reflexivity|].
      inversion Hv as [|? ? H1 H2]; subst. cbn [snd] in *. cbn [canon_members]. rewrite (Hx H1).
      rewrite obj_insert_above by (apply (Hb (k, x)); left; reflexivity).
      pose proof (keys_sorted_head_below _ _ _ Hs) as Hh.
      rewrite IHr.
      - rewrite <- app_assoc. reflexivity.
      - cbn [keys_sorted] in Hs. exact (proj2 Hs).
      - exact H2.
      - intros kv Hin. apply Forall_app. split; [apply Hb; right; exact Hin|].
        constructor; [|constructor]. cbn [fst]. rewrite Forall_forall in Hh. exact (Hh kv Hin). }
    rewrite (G []); [reflexivity|]. intros kv _. constructor.
Qed.

(* the data of a frame, printed and read back by serde_json, is the same Value *)
Theorem value_round_trip : fmt_ok A -> fmt_idem -> forall ev raw v errs rerrs dl,
  jclassify A ev raw = CEvent v errs rerrs dl -> parse_value_of A (print v) = Some v.
Proof.
  intros H1 H2 ev raw v errs rerrs dl Hc.
  destruct (jclassify_event _ _ _ _ _ _ _ H1 Hc) as ((j & Hp & Hcan) & Hr & _).
  unfold parse_value_of. rewrite Hr. apply canon_of_canonical. eapply canon_canonical; eassumption.
Qed.
End Canonical.

Lemma demoA_fmt_idem : fmt_idem demoA.
Proof.
  intros t t' H. cbn [demoA a_fmt_float] in H. destruct (lN_eqb t _ || lN_eqb t _); [|discriminate]. injection H as <-. reflexivity.
Qed.

(* ================= the validation mode only touches the error lists ================= *)
Lemma canon_ext A B : (forall t, a_fmt_float A t = a_fmt_float B t) -> forall j, canon A j = canon B j.
Proof.
  intros H. induction j as [| b | t | s | l IH | kvs IH] using JsonProofs.json_ind'; try reflexivity.
  - cbn [canon]. unfold norm_num. rewrite H. reflexivity.
  - rewrite !canon_arr. f_equal. induction IH as [|x l Hx _ IHl]; [reflexivity|].
    cbn [canon_list]. rewrite Hx, IHl. reflexivity.
  - rewrite !canon_obj. f_equal.
    assert (G : forall acc, canon_members A kvs acc = canon_members B kvs acc).
    { induction IH as [|[k x] r Hx _ IHr]; intros acc; [reflexivity|].
      cbn [canon_members]. cbn [snd] in Hx. rewrite Hx. destruct (canon B x); [apply IHr|reflexivity]. }
    apply G.
Qed.

Definition same_but_mode (A B : absfns) : Prop :=
  (forall r, a_json_err A r = a_json_err B r) /\ (forall t, a_fmt_float A t = a_fmt_float B t).

(* strict or compat validation: same status, same raw / data, same text delta — only errors / response_errors can differ *)
Theorem mode_only_errors A B ev raw : same_but_mode A B ->
  match jclassify A ev raw, jclassify B ev raw with
  | CInvalid e, CInvalid e' => e = e'
  | CEvent v _ _ d, CEvent v' _ _ d' => v = v' /\ d = d'
  | _, _ => False
  end.
Proof.
  intros [He Hf]. unfold jclassify, parse_value_of. destruct (JsonParse.parse raw) as [j|].
  - rewrite (canon_ext A B Hf j). destruct (canon B j) as [v|].
    + destruct (MAX_PAYLOAD_NESTING <? json_depth v)%nat; [reflexivity|split; reflexivity].
    + rewrite He. reflexivity.
  - rewrite He. reflexivity.
Qed.

(* ================= one block of field lines = at most one event, whatever the lines are ================= *)
(* the value of a `data:` line / the effect of an `event:` line, as SseDecoder::push reads them *)
Definition line_data (l : str) : list str :=
  match Sse.strip_prefix S_EVENT (trim_end_cr l) with
  | Some _ => []
  | None => match Sse.strip_prefix S_DATA (trim_end_cr l) with Some r => [trim_start r] | None => [] end
  end.
Definition line_event (ev : option str) (l : str) : option str :=
  match Sse.strip_prefix S_EVENT (trim_end_cr l) with
  | Some r => match trim r with [] => None | v => Some v end
  | None => ev
  end.
Definition block_data (block : list str) : list str := flat_map line_data block.
Definition block_event (ev0 : option str) (block : list str) : option str := fold_left line_event block ev0.
(* a line that ends a block: empty once the trailing CRs are gone *)
Definition is_blank (l : str) : bool := match trim_end_cr l with [] => true | _ => false end.

Lemma line_step_nonblank cl ev acc l : is_blank l = false ->
  line_step cl (ev, acc) l = ((line_event ev l, acc ++ line_data l), []).
Proof.
  unfold is_blank, line_step, line_event, line_data. intros H.
  destruct (trim_end_cr l) as [|c t] eqn:E; [discriminate|].
  destruct (Sse.strip_prefix S_EVENT (c :: t)) as [r|].
  - cbn [fst snd]. rewrite app_nil_r. destruct (trim r); reflexivity.
  - destruct (Sse.strip_prefix S_DATA (c :: t)) as [r|]; cbn [fst snd]; [reflexivity|rewrite app_nil_r; reflexivity].
Qed.

(* a block (no blank line inside) followed by the blank line: one event iff the block has a data line (or data was
   pending), with payload = the '\n'-join of ALL its data values in order and the last event name given; comments,
   unknown fields, CR line ends and the blanks after the colon do not matter *)
Theorem block_dispatch cl block : forall ev0 acc,
  forallb (fun l => negb (is_blank l)) block = true ->
  fold_lines cl (ev0, acc) (block ++ [[]]) =
  match acc ++ block_data block with
  | [] => ((block_event ev0 block, []), [])
  | d => ((None, []), [parse_event cl (block_event ev0 block) (join_nl d)])
  end.
Proof.
  induction block as [|l block IH]; intros ev0 acc H.
  - cbn [app fold_lines block_data flat_map block_event fold_left]. rewrite app_nil_r.
    unfold line_step. change (trim_end_cr []) with (@nil N). cbn [Sse.strip_prefix S_EVENT S_DATA fst snd].
    destruct acc; reflexivity.
  - cbn [forallb] in H. apply andb_true_iff in H as [H1 H2]. apply negb_true_iff in H1.
    cbn [app fold_lines]. rewrite (line_step_nonblank cl ev0 acc l H1).
    rewrite (IH (line_event ev0 l) (acc ++ line_data l) H2).
    cbn [block_data flat_map block_event fold_left]. rewrite <- app_assoc.
    fold (block_data block). fold (block_event (line_event ev0 l) block).
    destruct (acc ++ line_data l ++ block_data block); reflexivity.
Qed.

Definition demo_block : list str := [[58; 32; 99; 13]; [101; 118; 101; 110; 116; 58; 32; 32; 101; 32; 32]; [100; 97; 116; 97; 58; 120]; [105; 100; 58; 32; 49]; [100; 97; 116; 97; 58; 32; 32; 32; 121; 13; 13]].
Lemma demo_block_event :
  forallb (fun l => negb (is_blank l)) demo_block = true
  /\ block_data demo_block = [[120]; [121]] /\ block_event None demo_block = Some [101]
  /\ snd (fold_lines cls0 (None, []) (demo_block ++ [[]])) = [parse_event cls0 (Some [101]) [120; 10; 121]].
Proof. vm_compute. repeat split. Qed.

(* ================= lossless on valid UTF-8: the byte layer is the identity ================= *)
Theorem valid_utf8_body cl off text cs :
  forallb is_scalar text = true -> concat cs = encode text ->
  frames_of cl FIXED off cs = frames_from off (upto_done (events_spec cl text)).
Proof.
  intros Hs Hc. rewrite frames_of_whole, Hc. unfold frames_whole, lossy_text.
  fold (lossyF (encode text)). rewrite (lossy_encode text Hs). reflexivity.
Qed.
