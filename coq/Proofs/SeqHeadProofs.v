(* C01 — the head of a provider request (crates/ripd/src/session.rs stream_openresponses_request): the capture frame
   `openresponses_request` behind RIP_OPENRESPONSES_DUMP_REQUEST is one more single emit site in front of
   `openresponses_request_started`.  The head is re-read statement by statement (Gen/RequestHead.v); when it is a
   concatenation of sites (the obligation), its frames are exactly what Model/SeqCount.v's `SSite`s write, so a run with
   any number of such heads, other sites and provider pipes writes 0,1,2,.. (run_with_pipes_valid).  A head that emits
   the capture frame after request_started (seeded C01-11) or builds request_started before the capture frame (seeded
   C03-10) writes n, n, n+2: the validator rejects the stream. *)
From RipV Require Import Base.Prelude Model.Frames Model.Log Model.ContStore Model.SessGuard Model.SeqCount Model.WireRun
  Proofs.LogProofs Proofs.SeqCountProofs Proofs.RunSitesProofs.

Definition slot_ety (t : N) : etype := if t =? 0 then EOpenResponsesRequest else EOpenResponsesRequestStarted.
Definition head_kinds (capture : bool) (h : head) : list etype := map slot_ety (sites_of (head_prog capture h)).
Definition head_frames (sid c : N) (capture : bool) (h : head) : log :=
  map (fun x => mkf sid (slot_ety (fst x), snd x)) (r_out (rrun c (head_prog capture h))).

Lemma sites_as_segs ck sid ts : forall c,
  map (fun x => mkf sid (slot_ety (fst x), snd x)) (WireRun.number c ts) = run_segs ck sid c (map SSite (map slot_ety ts)).
Proof. induction ts as [|t ts IH]; intro c; [reflexivity|]. cbn [WireRun.number map run_segs fst snd]. f_equal. apply IH. Qed.

Lemma head_prog_wf capture h : wf_head h = true -> wf_run (head_prog capture h) = true.
Proof. intro H. unfold wf_head in H. apply andb_true_iff in H. destruct H as [H1 H2]. destruct capture; assumption. Qed.

Theorem head_frames_are_sites ck sid c capture h :
  wf_head h = true -> head_frames sid c capture h = run_segs ck sid c (map SSite (head_kinds capture h)).
Proof.
  intro H. unfold head_frames, head_kinds.
  destruct (run_numbered c _ (head_prog_wf capture h H)) as [A _]. rewrite A. apply sites_as_segs.
Qed.

Lemma head_kinds_ok capture h : forallb seg_ok (map SSite (head_kinds capture h)) = true.
Proof.
  unfold head_kinds. induction (sites_of (head_prog capture h)) as [|t ts IH]; [reflexivity|].
  cbn [map forallb seg_ok]. rewrite IH. unfold slot_ety. destruct (t =? 0); reflexivity.
Qed.

Theorem run_with_request_heads sid pre post h capture :
  forallb seg_ok pre = true -> forallb seg_ok post = true -> wf_head h = true ->
  Valid (run_segs CutParsed sid 0 (pre ++ map SSite (head_kinds capture h) ++ post))
  /\ (forall ck c, head_frames sid c capture h = run_segs ck sid c (map SSite (head_kinds capture h)))
  /\ (forall c, r_cnt (rrun c (head_prog capture h)) = c + nlen (head_frames sid c capture h)).
Proof.
  intros Hpre Hpost Hh. split; [|split].
  - apply run_with_pipes_valid. rewrite !forallb_app, Hpre, Hpost, head_kinds_ok. reflexivity.
  - intros ck c. apply head_frames_are_sites. exact Hh.
  - intro c. destruct (run_numbered c _ (head_prog_wf capture h Hh)) as [_ [_ B]]. rewrite B.
    unfold head_frames, nlen. rewrite map_length. reflexivity.
Qed.

(* a whole small run around a head: session_started, the head, session_ended at the counter the head hands back *)
Definition run_head_log (sid : N) (capture : bool) (h : head) : log :=
  mkf sid (ESessionStarted, 0) :: head_frames sid 1 capture h
  ++ [mkf sid (ESessionEnded, r_cnt (rrun 1 (head_prog capture h)))].

Theorem head_capture_late_refuted :
  wf_head head_capture_emitted_late = false
  /\ map seq (run_head_log 7 true head_capture_emitted_late) = [0; 1; 1; 3]
  /\ map ety (run_head_log 7 true head_capture_emitted_late) = [ESessionStarted; EOpenResponsesRequestStarted; EOpenResponsesRequest; ESessionEnded]
  /\ validate (run_head_log 7 true head_capture_emitted_late) = false
  /\ validate (run_head_log 7 false head_capture_emitted_late) = true
  /\ map seq (run_head_log 7 true head_code) = [0; 1; 2; 3]
  /\ validate (run_head_log 7 true head_code) = true.
Proof. repeat split; vm_compute; reflexivity. Qed.

Theorem head_started_early_refuted :
  wf_head head_started_built_early = false
  /\ map seq (run_head_log 7 true head_started_built_early) = [0; 1; 1; 3]
  /\ map ety (run_head_log 7 true head_started_built_early) = [ESessionStarted; EOpenResponsesRequest; EOpenResponsesRequestStarted; ESessionEnded]
  /\ validate (run_head_log 7 true head_started_built_early) = false
  /\ validate (run_head_log 7 false head_started_built_early) = true.
Proof. repeat split; vm_compute; reflexivity. Qed.

Example request_head_example :
  wf_head head_code = true /\ head_kinds true head_code = [EOpenResponsesRequest; EOpenResponsesRequestStarted]
  /\ head_kinds false head_code = [EOpenResponsesRequestStarted]
  /\ forallb seg_ok [SSite ESessionStarted] = true.
Proof. repeat split; vm_compute; reflexivity. Qed.
