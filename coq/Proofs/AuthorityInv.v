(* C18 — the invariant of the authority-lock protocol (Model/Authority.v) and its preservation by every step of
   every schedule in which a cleanup's check..rename window does not overlap another contender's exclusive create
   (resp. meta publish).  Everything is per process ("local") + distinct pids. *)
From RipV Require Import Base.Prelude Model.Authority.

Global Arguments pid_alive : simpl never.
Global Arguments grace_fires : simpl never.
Global Arguments takes : simpl never.
Global Arguments o_reach : simpl never.
Global Arguments o_grace : simpl never.
Global Arguments o_deadline : simpl never.

(* ------------------------------------------------------------------ vocabulary *)
(* the drivers of the property: the two recovery loops (and the exhausted script of a bystander authority) *)
Definition drv_ok (d : driver) : bool :=
  match d with DScript [] => true | DScript (_ :: _) => false | DServer => true | DClient => true end.

Definition at_acq_write (k : pc) : bool := match k with AcqWrite => true | _ => false end.
Definition owns (q : proc) : bool := p_guard q || at_acq_write (p_pc q).
Definition needs_guard (k : pc) : bool :=
  match k with MetaTmp | MetaRemove | MetaRename | Serving | DropMeta | DropLock => true | _ => false end.
Definition stale_arg (k : pc) : option pid :=
  match k with StExists d | StReread d | StRename d | StRdMeta d | StMetaRename d | LockExistsM d => Some d | _ => None end.
(* between the check and the rename of a lock cleanup *)
Definition lock_win (k : pc) : bool :=
  match k with StRename _ | CoExists | CoMetaExists | CoRdMeta | CoLive _ | CoRename => true | _ => false end.
Definition meta_win (k : pc) : bool := match k with StMetaRename _ => true | _ => false end.
Definition tmp_pc (k : pc) : bool := match k with MetaRemove | MetaRename => true | _ => false end.
Definition acq_pc (k : pc) : bool := match k with AcqCreate | AcqWrite | MetaTmp | MetaRemove | MetaRename => true | _ => false end.
Definition at_drop_lock (k : pc) : bool := match k with DropLock => true | _ => false end.

Definition lock_free (ps : list proc) (l : lockf) : Prop := forall p, lock_pid l = Some p -> pid_alive ps p = false.
Definition meta_free (ps : list proc) (m : metaf) : Prop := forall p, meta_pid m = Some p -> pid_alive ps p = false.

Record local (s : state) (q : proc) : Prop := mkLocal {
  L_own : owns q = true -> lock_pid (s_lock s) = Some (p_pid q);
  L_guard : needs_guard (p_pc q) = true -> p_guard q = true;
  L_dead : forall d, stale_arg (p_pc q) = Some d -> pid_alive (s_procs s) d = false;
  L_lwin : lock_win (p_pc q) = true -> lock_free (s_procs s) (s_lock s);
  L_mwin : meta_win (p_pc q) = true -> meta_free (s_procs s) (s_meta s);
  L_tmp : tmp_pc (p_pc q) = true -> s_tmp s = MRec (p_pid q);
  L_meta : meta_pid (s_meta s) = Some (p_pid q) -> p_guard q = true /\ at_drop_lock (p_pc q) = false;
  L_gpc : p_guard q = true -> needs_guard (p_pc q) = true;
  L_acq : acq_pc (p_pc q) = true -> p_drv q = DServer;
  L_drv : drv_ok (p_drv q) = true
}.

Record Inv (s : state) : Prop := mkInv {
  I_nodup : NoDup (map p_pid (s_procs s));
  I_local : forall q, In q (s_procs s) -> p_alive q = true -> local s q;
  I_tl : s_took_lock s = false;
  I_tm : s_took_meta s = false
}.

(* ------------------------------------------------------------------ the schedule hypothesis *)
Fixpoint others_in (f : pc -> bool) (ps : list proc) (i : nat) : bool :=
  match ps with
  | [] => false
  | q :: r => match i with
              | O => existsb (fun x => p_alive x && f (p_pc x)) r
              | S j => (p_alive q && f (p_pc q)) || others_in f r j
              end
  end.

(* the step does not let an exclusive create succeed (resp. publish meta.json) while ANOTHER live contender is between
   the check and the rename of a lock (resp. meta) cleanup *)
Definition no_overlap_step (s : state) (e : event) : bool :=
  match e with
  | Crash _ => true
  | Step i _ =>
      match nth_error (s_procs s) i with
      | Some q =>
          match p_pc q, s_lock s with
          | AcqCreate, LAbsent => negb (others_in lock_win (s_procs s) i)
          | MetaRename, _ => negb (others_in meta_win (s_procs s) i)
          | _, _ => true
          end
      | None => true
      end
  end.

Fixpoint no_overlap (ag : bool) (s : state) (es : list event) : bool :=
  match es with
  | [] => true
  | e :: r => no_overlap_step s e && no_overlap ag (step ag s e) r
  end.

(* ------------------------------------------------------------------ list / pid lemmas *)
Lemma pid_alive_true ps p : pid_alive ps p = true <-> exists q, In q ps /\ p_pid q = p /\ p_alive q = true.
Proof.
  unfold pid_alive. rewrite existsb_exists. split.
  - intros [q [Hin Hq]]. apply andb_true_iff in Hq. destruct Hq as [E A]. apply N.eqb_eq in E. eauto.
  - intros [q [Hin [E A]]]. exists q. split; [assumption|]. apply andb_true_iff. split; [apply N.eqb_eq|]; assumption.
Qed.

Lemma pid_alive_self ps q : In q ps -> p_alive q = true -> pid_alive ps (p_pid q) = true.
Proof. intros Hin Ha. apply pid_alive_true. eauto. Qed.

Lemma upd_nth {A} (l : list A) i x j :
  nth_error (upd l i x) j = if Nat.eqb i j then (match nth_error l i with Some _ => Some x | None => None end) else nth_error l j.
Proof.
  revert i j. induction l as [|y l IH]; intros i j.
  - cbn [upd]. destruct (Nat.eqb i j); destruct i, j; reflexivity.
  - destruct i as [|i], j as [|j]; cbn [upd nth_error Nat.eqb]; try reflexivity. apply IH.
Qed.

Lemma in_upd {A} (l : list A) i x y : In y (upd l i x) ->
  (y = x /\ exists z, nth_error l i = Some z) \/ (exists j, j <> i /\ nth_error l j = Some y).
Proof.
  intros Hin. apply In_nth_error in Hin. destruct Hin as [j Hj]. rewrite upd_nth in Hj.
  destruct (Nat.eqb i j) eqn:E.
  - apply Nat.eqb_eq in E. subst j. destruct (nth_error l i) eqn:N; [|discriminate]. left. split; [congruence|eauto].
  - apply Nat.eqb_neq in E. right. exists j. split; [congruence|assumption].
Qed.

Lemma map_upd_same {A B} (f : A -> B) (l : list A) i x y :
  nth_error l i = Some y -> f x = f y -> map f (upd l i x) = map f l.
Proof.
  revert i. induction l as [|z l IH]; intros [|i] Hn Hf; cbn in *; try discriminate.
  - inversion Hn; subst. rewrite Hf. reflexivity.
  - rewrite (IH i Hn Hf). reflexivity.
Qed.

Lemma pid_alive_upd_le ps i q x p :
  nth_error ps i = Some q -> p_pid x = p_pid q -> (p_alive x = true -> p_alive q = true) ->
  pid_alive (upd ps i x) p = true -> pid_alive ps p = true.
Proof.
  intros Hn Hp Ha H. apply pid_alive_true in H. destruct H as [y [Hin [E A]]].
  apply pid_alive_true. apply in_upd in Hin. destruct Hin as [[-> _]|[j [_ Hj]]].
  - exists q. split; [eapply nth_error_In; eassumption|]. split; [congruence|auto].
  - exists y. split; [eapply nth_error_In; eassumption|]. auto.
Qed.

Lemma nodup_pid_idx (ps : list proc) i j a b :
  NoDup (map p_pid ps) -> nth_error ps i = Some a -> nth_error ps j = Some b -> p_pid a = p_pid b -> i = j.
Proof.
  intros ND Ha Hb E.
  assert (Hi : nth_error (map p_pid ps) i = Some (p_pid a)) by (rewrite nth_error_map, Ha; reflexivity).
  assert (Hj : nth_error (map p_pid ps) j = Some (p_pid b)) by (rewrite nth_error_map, Hb; reflexivity).
  rewrite <- E in Hj.
  eapply NoDup_nth_error; try eassumption.
  - apply nth_error_Some. congruence.
  - congruence.
Qed.

Lemma others_in_false f ps i j r :
  others_in f ps i = false -> j <> i -> nth_error ps j = Some r -> p_alive r = true -> f (p_pc r) = false.
Proof.
  revert i j. induction ps as [|q ps IH]; intros i j H Hne Hn Ha.
  - destruct j; discriminate.
  - destruct i as [|i]; cbn [others_in] in H.
    + destruct j as [|j]; [congruence|]. cbn in Hn.
      destruct (f (p_pc r)) eqn:F; [|reflexivity].
      assert (existsb (fun x => p_alive x && f (p_pc x)) ps = true).
      { apply existsb_exists. exists r. split; [eapply nth_error_In; eassumption|]. rewrite Ha, F. reflexivity. }
      congruence.
    + apply orb_false_iff in H. destruct H as [H1 H2]. destruct j as [|j].
      * cbn in Hn. inversion Hn; subst. rewrite Ha in H1. exact H1.
      * cbn in Hn. eapply IH; try eassumption. congruence.
Qed.

Lemma grace_true ps o c : grace_fires true ps o c = true -> pid_alive ps c = false.
Proof.
  unfold grace_fires. intros H. apply andb_true_iff in H. destruct H as [_ H]. cbn in H.
  destruct (pid_alive ps c); [discriminate|reflexivity].
Qed.

Lemma takes_true ps me o : takes ps me o = true -> exists p, o = Some p /\ p <> me /\ pid_alive ps p = true.
Proof.
  unfold takes. destruct o as [p|]; [|discriminate]. intros H. apply andb_true_iff in H. destruct H as [H1 H2].
  exists p. split; [reflexivity|]. split; [|assumption]. intros ->. rewrite N.eqb_refl in H1. discriminate.
Qed.

Lemma takes_free_lock ps me l : lock_free ps l -> takes ps me (lock_pid l) = false.
Proof.
  intros F. destruct (takes ps me (lock_pid l)) eqn:T; [|reflexivity].
  apply takes_true in T. destruct T as [p [E [_ A]]]. rewrite (F p E) in A. discriminate.
Qed.
Lemma takes_free_meta ps me m : meta_free ps m -> takes ps me (meta_pid m) = false.
Proof.
  intros F. destruct (takes ps me (meta_pid m)) eqn:T; [|reflexivity].
  apply takes_true in T. destruct T as [p [E [_ A]]]. rewrite (F p E) in A. discriminate.
Qed.
Lemma takes_self ps me : takes ps me (Some me) = false.
Proof. unfold takes. rewrite N.eqb_refl. reflexivity. Qed.

(* ------------------------------------------------------------------ local is antitone in liveness *)
Lemma local_mono s1 s2 q :
  s_lock s2 = s_lock s1 -> s_meta s2 = s_meta s1 -> s_tmp s2 = s_tmp s1 ->
  (forall p, pid_alive (s_procs s2) p = true -> pid_alive (s_procs s1) p = true) ->
  local s1 q -> local s2 q.
Proof.
  intros El Em Et Hm [A B C D E F G H1 H2 H3].
  assert (Hd : forall p, pid_alive (s_procs s1) p = false -> pid_alive (s_procs s2) p = false).
  { intros p Hp. destruct (pid_alive (s_procs s2) p) eqn:X; [|reflexivity]. apply Hm in X. congruence. }
  constructor; rewrite ?El, ?Em, ?Et; auto.
  - intros Hw p Hp. apply Hd. apply (D Hw p Hp).
  - intros Hw p Hp. apply Hd. apply (E Hw p Hp).
Qed.

(* ------------------------------------------------------------------ micro: the stepping process itself *)
Ltac break :=
  repeat match goal with
  | |- context [match ?x with _ => _ end] => destruct x eqn:?
  | H : context [match ?x with _ => _ end] |- _ => destruct x eqn:?
  end.

Lemma micro_basic ag s o q s' q' :
  micro ag s o q = (s', q') ->
  p_pid q' = p_pid q /\ p_alive q' = p_alive q /\ s_procs s' = s_procs s.
Proof.
  unfold micro, ret, goto, set_files. intros H.
  break; inversion H; subst; cbn; auto.
Qed.

Ltac eqbs :=
  repeat match goal with
  | H : (_ =? _) = true |- _ => apply N.eqb_eq in H; subst
  | H : (_ =? _) = false |- _ => apply N.eqb_neq in H
  | H : grace_fires true _ _ _ = true |- _ => apply grace_true in H
  end.

Lemma drv_cases d : drv_ok d = true -> d = DScript [] \/ d = DServer \/ d = DClient.
Proof. destruct d as [[|c cs]| |]; cbn; intros; auto; discriminate. Qed.

Ltac prep :=
  rewrite ?orb_true_r, ?orb_false_r in *;
  repeat match goal with
  | H : forall d : pid, Some ?p = Some d -> _ |- _ => specialize (H p eq_refl)
  | H : forall d : pid, None = Some d -> _ |- _ => clear H
  | H : true = true -> _ |- _ => specialize (H eq_refl)
  | H : false = true -> _ |- _ => clear H
  | H : ?x = ?x -> _ |- _ => specialize (H eq_refl)
  end.
Ltac rw :=
  repeat match goal with
  | H : s_lock _ = _ |- _ => rewrite H in *; clear H
  | H : s_meta _ = _ |- _ => rewrite H in *; clear H
  | H : s_tmp _ = _ |- _ => rewrite H in *; clear H
  end.
Ltac fin :=
  intros; cbn in *; prep;
  try discriminate; try congruence;
  try (intuition (subst; cbn in *; try discriminate; try congruence; eauto); fail).

(* the process that steps keeps its local invariant *)
Lemma micro_self s o q s' q' :
  micro true s o q = (s', q') -> local s q -> local s' q'.
Proof.
  intros H [Lown Lguard Ldead Llwin Lmwin Ltmp Lmeta Lgpc Lacq Ldrv].
  unfold owns in *.
  apply drv_cases in Ldrv.
  unfold micro in H.
  destruct (p_pc q) eqn:Hpc; cbn in *;
  destruct Ldrv as [Hd|[Hd|Hd]]; unfold ret, goto in H; rewrite ?Hd in H; cbn in H.
  all: break; inversion H; subst; clear H; eqbs.
  all: constructor; unfold owns, set_files, lock_free, meta_free in *; cbn in *; rewrite ?Hpc, ?Hd; cbn; rw; cbn in *.
  all: try (fin; fail).
Qed.

Lemma tmp_needs_guard k : tmp_pc k = true -> needs_guard k = true.
Proof. destruct k; cbn; congruence. Qed.

(* every other live process keeps its local invariant *)
Lemma micro_other s o q s' q' r :
  micro true s o q = (s', q') -> local s q -> local s r ->
  p_pid r <> p_pid q ->
  pid_alive (s_procs s) (p_pid r) = true ->
  (p_pc q = AcqCreate -> s_lock s = LAbsent -> lock_win (p_pc r) = false) ->
  (p_pc q = MetaRename -> meta_win (p_pc r) = false) ->
  local s' r.
Proof.
  intros H [Lown Lguard Ldead Llwin Lmwin Ltmp Lmeta Lgpc Lacq Ldrv]
         [Rown Rguard Rdead Rlwin Rmwin Rtmp Rmeta Rgpc Racq Rdrv] Hne Hra Hov1 Hov2.
  assert (F1 : owns r = true -> owns q = true -> False).
  { intros A B. apply Hne. specialize (Rown A). specialize (Lown B). congruence. }
  assert (F2 : tmp_pc (p_pc r) = true -> owns r = true).
  { intros A. unfold owns. rewrite (Rguard (tmp_needs_guard _ A)). reflexivity. }
  assert (F3 : needs_guard (p_pc q) = true -> owns q = true).
  { intros A. unfold owns. rewrite (Lguard A). reflexivity. }
  assert (F4 : lock_win (p_pc q) = true -> owns r = true -> False).
  { intros A B. specialize (Rown B). specialize (Llwin A _ Rown). congruence. }
  assert (F5 : meta_pid (s_meta s) = Some (p_pid r) -> owns r = true).
  { intros A. unfold owns. destruct (Rmeta A) as [G _]. rewrite G. reflexivity. }
  clear Lown Lguard.
  apply drv_cases in Ldrv.
  unfold micro in H.
  destruct (p_pc q) eqn:Hpc; cbn in *;
  destruct Ldrv as [Hd|[Hd|Hd]]; unfold ret, goto in H; rewrite ?Hd in H; cbn in H.
  all: break; inversion H; subst; clear H; eqbs.
  all: try (constructor; assumption).
  all: constructor; unfold set_files, lock_free, meta_free in *; cbn in *; rw; cbn in *.
  all: try assumption.
  all: try (fin; fail).
Qed.

(* nothing of a live pid is renamed or removed by the step *)
Lemma micro_took s o q s' q' :
  micro true s o q = (s', q') -> local s q ->
  (forall r, In r (s_procs s) -> p_alive r = true -> p_pid r <> p_pid q -> local s r) ->
  s_took_lock s = false -> s_took_meta s = false ->
  s_took_lock s' = false /\ s_took_meta s' = false.
Proof.
  intros H [Lown Lguard Ldead Llwin Lmwin Ltmp Lmeta Lgpc Lacq Ldrv] Hoth TL TM.
  assert (G1 : needs_guard (p_pc q) = true -> takes (s_procs s) (p_pid q) (meta_pid (s_meta s)) = false).
  { intros A. destruct (takes (s_procs s) (p_pid q) (meta_pid (s_meta s))) eqn:T; [|reflexivity]. exfalso.
    apply takes_true in T. destruct T as [p [E [Hne Hal]]].
    apply pid_alive_true in Hal. destruct Hal as [r [Hin [Hp Ha]]]. subst p.
    destruct (Hoth r Hin Ha Hne) as [Rown _ _ _ _ _ Rmeta _ _ _].
    destruct (Rmeta E) as [G _]. unfold owns in *. rewrite G in Rown. rewrite (Lguard A) in Lown.
    specialize (Rown eq_refl). specialize (Lown eq_refl). congruence. }
  assert (G2 : needs_guard (p_pc q) = true -> takes (s_procs s) (p_pid q) (lock_pid (s_lock s)) = false).
  { intros A. unfold owns in Lown. rewrite (Lguard A) in Lown. rewrite (Lown eq_refl). apply takes_self. }
  assert (G3 : lock_win (p_pc q) = true -> takes (s_procs s) (p_pid q) (lock_pid (s_lock s)) = false).
  { intros A. apply takes_free_lock. auto. }
  assert (G4 : meta_win (p_pc q) = true -> takes (s_procs s) (p_pid q) (meta_pid (s_meta s)) = false).
  { intros A. apply takes_free_meta. auto. }
  clear Hoth Lown Lguard Llwin Lmwin Ldead Ltmp Lmeta Lgpc Lacq Ldrv.
  unfold micro in H.
  destruct (p_pc q) eqn:Hpc; cbn in *; unfold ret, goto in H.
  all: break; inversion H; subst; clear H; unfold set_files; cbn.
  all: rewrite ?TL, ?TM; cbn; try (split; reflexivity).
  all: repeat match goal with
       | G : true = true -> _ |- _ => specialize (G eq_refl); cbn in G; rewrite ?G
       | G : false = true -> _ |- _ => clear G
       end; split; reflexivity.
Qed.

(* ------------------------------------------------------------------ one event *)
Lemma nodup_pid_in (ps : list proc) a b :
  NoDup (map p_pid ps) -> In a ps -> In b ps -> p_pid a = p_pid b -> a = b.
Proof.
  intros ND Ha Hb E. apply In_nth_error in Ha. apply In_nth_error in Hb.
  destruct Ha as [i Hi]. destruct Hb as [j Hj].
  assert (i = j) by (eapply nodup_pid_idx; eassumption). subst j. congruence.
Qed.

Lemma step_inv s e : Inv s -> no_overlap_step s e = true -> Inv (step true s e).
Proof.
  intros [ND HL TL TM] Hov. destruct e as [i o|i]; cbn [step].
  - destruct (nth_error (s_procs s) i) as [q|] eqn:Hq; [|constructor; assumption].
    destruct (p_alive q) eqn:Ha; [|constructor; assumption].
    destruct (micro true s o q) as [s' q'] eqn:Hm.
    destruct (micro_basic _ _ _ _ _ _ Hm) as [Epid [Eal Eps]].
    assert (Hin : In q (s_procs s)) by (eapply nth_error_In; eassumption).
    assert (Lq : local s q) by auto.
    assert (Hmono : forall p, pid_alive (upd (s_procs s) i q') p = true -> pid_alive (s_procs s') p = true).
    { intros p Hp. rewrite Eps. eapply pid_alive_upd_le; try eassumption. congruence. }
    cbn [no_overlap_step] in Hov. rewrite Hq in Hov.
    constructor; cbn [with_procs s_procs s_took_lock s_took_meta].
    + rewrite (map_upd_same p_pid _ _ _ _ Hq Epid). assumption.
    + intros x Hx Hax. apply in_upd in Hx. destruct Hx as [[-> _]|[j [Hj Hxj]]].
      * apply (local_mono s'); try reflexivity; [exact Hmono|]. eapply micro_self; eassumption.
      * assert (Hxin : In x (s_procs s)) by (eapply nth_error_In; eassumption).
        apply (local_mono s'); try reflexivity; [exact Hmono|].
        eapply micro_other; try eassumption.
        -- auto.
        -- intros E. apply Hj. eapply nodup_pid_idx; eassumption.
        -- apply pid_alive_self; assumption.
        -- intros Hpc Hl. rewrite Hpc, Hl in Hov. apply negb_true_iff in Hov.
           eapply others_in_false; eassumption.
        -- intros Hpc. rewrite Hpc in Hov.
           assert (Hov' : negb (others_in meta_win (s_procs s) i) = true) by (destruct (s_lock s); exact Hov).
           apply negb_true_iff in Hov'. eapply others_in_false; eassumption.
    + eapply micro_took; try eassumption. intros; auto.
    + eapply micro_took; try eassumption. intros; auto.
  - destruct (nth_error (s_procs s) i) as [q|] eqn:Hq; [|constructor; assumption].
    assert (Hmono : forall p, pid_alive (upd (s_procs s) i (kill q)) p = true -> pid_alive (s_procs s) p = true).
    { intros p Hp. eapply pid_alive_upd_le; try eassumption; [reflexivity|]. cbn. discriminate. }
    constructor; cbn [with_procs s_procs s_took_lock s_took_meta]; try assumption.
    + rewrite (map_upd_same p_pid _ _ _ _ Hq); [assumption|reflexivity].
    + intros x Hx Hax. apply in_upd in Hx. destruct Hx as [[-> _]|[j [Hj Hxj]]].
      * cbn in Hax. discriminate.
      * apply (local_mono s); try reflexivity; [exact Hmono|]. apply HL; [eapply nth_error_In; eassumption|assumption].
Qed.

Theorem run_inv es : forall s, Inv s -> no_overlap true s es = true -> Inv (run true s es).
Proof.
  induction es as [|e es IH]; intros s HI Hov; [exact HI|].
  cbn [no_overlap] in Hov. apply andb_true_iff in Hov. destruct Hov as [H1 H2].
  cbn [run fold_left]. apply IH; [apply step_inv; assumption|assumption].
Qed.

(* ------------------------------------------------------------------ what the invariant gives *)
Lemma nodup_map_filter {A B} (f : A -> B) (g : A -> bool) l : NoDup (map f l) -> NoDup (map f (filter g l)).
Proof.
  induction l as [|x l IH]; cbn; intros ND; [constructor|].
  inversion ND as [|? ? Hnin ND']; subst. destruct (g x); cbn; [constructor|]; auto.
  intros Hin. apply Hnin. apply in_map_iff in Hin. destruct Hin as [y [E Hy]]. apply filter_In in Hy.
  apply in_map_iff. exists y. tauto.
Qed.

Lemma nodup_const_len {A} (l : list A) c : NoDup l -> (forall x, In x l -> x = c) -> (length l <= 1)%nat.
Proof.
  intros ND H. destruct l as [|a [|b l]]; cbn; try lia.
  exfalso. inversion ND as [|? ? Hnin _]; subst. apply Hnin.
  rewrite (H a) by (cbn; auto). rewrite (H b) by (cbn; auto). cbn; auto.
Qed.

Theorem inv_mutex s : Inv s ->
  (length (holders s) <= 1)%nat /\ (forall p, In p (holders s) -> lock_pid (s_lock s) = Some p).
Proof.
  intros [ND HL _ _].
  assert (H : forall p, In p (holders s) -> lock_pid (s_lock s) = Some p).
  { intros p Hp. unfold holders in Hp. apply in_map_iff in Hp. destruct Hp as [q [E Hq]].
    apply filter_In in Hq. destruct Hq as [Hin Hh]. unfold is_holder in Hh. apply andb_true_iff in Hh.
    destruct Hh as [Ha Hg]. subst p. apply (L_own _ _ (HL q Hin Ha)). unfold owns. rewrite Hg. reflexivity. }
  split; [|exact H].
  destruct (lock_pid (s_lock s)) as [c|] eqn:El.
  - apply (nodup_const_len _ c).
    + unfold holders. apply nodup_map_filter. assumption.
    + intros x Hx. specialize (H x Hx). congruence.
  - destruct (holders s) as [|x l]; cbn; [lia|]. specialize (H x (or_introl eq_refl)). discriminate.
Qed.

(* ------------------------------------------------------------------ initial states *)
Definition contender (q : proc) : Prop := q = fresh (p_pid q) DServer \/ q = fresh (p_pid q) DClient.

(* every leftover state of the property: lock / meta absent, half-written, or carrying the pid of a dead process
   (a pid that is no live process of the list), or the files of a live authority that is serving *)
Definition init_ok (l : lockf) (m : metaf) (ps : list proc) : Prop :=
  NoDup (map p_pid ps)
  /\ (forall q, In q ps -> contender q \/ (q = serving (p_pid q) /\ lock_pid l = Some (p_pid q)))
  /\ (forall p, lock_pid l = Some p -> pid_alive ps p = true -> In (serving p) ps)
  /\ (forall p, meta_pid m = Some p -> pid_alive ps p = true -> In (serving p) ps).

Lemma init_inv l m ps : init_ok l m ps -> Inv (init l m ps).
Proof.
  intros [ND [Hq [Hl Hm]]]. constructor; cbn; try assumption; try reflexivity.
  intros q Hin Ha.
  assert (Hmeta : meta_pid m = Some (p_pid q) -> q = serving (p_pid q)).
  { intros E. eapply nodup_pid_in; try eassumption; [|reflexivity]. apply Hm; [assumption|]. apply pid_alive_self; assumption. }
  destruct (Hq q Hin) as [[E|E]|[E El]].
  - constructor; unfold owns; rewrite E; cbn; try discriminate; try reflexivity.
    intros X. apply Hmeta in X. rewrite X in E. discriminate.
  - constructor; unfold owns; rewrite E; cbn; try discriminate; try reflexivity.
    intros X. apply Hmeta in X. rewrite X in E. discriminate.
  - constructor; unfold owns; rewrite E; cbn; try discriminate; try reflexivity; auto.
Qed.

Theorem mutex_serial_cleanup l m ps es :
  init_ok l m ps -> no_overlap true (init l m ps) es = true ->
  (length (holders (run true (init l m ps) es)) <= 1)%nat
  /\ (forall p, In p (holders (run true (init l m ps) es)) -> lock_pid (s_lock (run true (init l m ps) es)) = Some p).
Proof. intros H1 H2. apply inv_mutex. apply run_inv; [apply init_inv; assumption|assumption]. Qed.

Theorem live_files_never_taken l m ps es :
  init_ok l m ps -> no_overlap true (init l m ps) es = true ->
  s_took_lock (run true (init l m ps) es) = false /\ s_took_meta (run true (init l m ps) es) = false.
Proof. intros H1 H2. destruct (run_inv es _ (init_inv _ _ _ H1) H2) as [_ _ A B]. split; assumption. Qed.


(* ------------------------------------------------------------------ no dead leftovers, no crash: no cleanup ever starts *)
Definition quiet_pc (k : pc) : bool :=
  match stale_arg k with Some _ => false | None => negb (lock_win k) end.

Record qlocal (s : state) (q : proc) : Prop := mkQ {
  Q_alive : p_alive q = true;
  Q_pc : quiet_pc (p_pc q) = true;
  Q_live : forall p, (p_pc q = Live p \/ p_pc q = Ping p \/ p_pc q = LiveM p) -> pid_alive (s_procs s) p = true;
  Q_drv : drv_ok (p_drv q) = true
}.

Definition files_live (s : state) : Prop :=
  (forall p, lock_pid (s_lock s) = Some p -> pid_alive (s_procs s) p = true)
  /\ (forall p, meta_pid (s_meta s) = Some p -> pid_alive (s_procs s) p = true)
  /\ (forall p, meta_pid (s_tmp s) = Some p -> pid_alive (s_procs s) p = true).

Record Quiet (s : state) : Prop := mkQuiet {
  Q_all : forall q, In q (s_procs s) -> qlocal s q;
  Q_files : files_live s
}.

Lemma micro_quiet s o q s' q' :
  micro true s o q = (s', q') -> qlocal s q -> files_live s -> pid_alive (s_procs s) (p_pid q) = true ->
  qlocal s' q' /\ files_live s'.
Proof.
  intros H [Qa Qpc Ql Qd] [Fl [Fm Ft]] Hme.
  apply drv_cases in Qd.
  unfold micro in H.
  destruct (p_pc q) eqn:Hpc; cbn in Qpc; try discriminate;
  destruct Qd as [Hd|[Hd|Hd]]; unfold ret, goto in H; rewrite ?Hd in H; cbn in H.
  all: break; inversion H; subst; clear H; eqbs.
  all: unfold files_live, set_files; cbn; rw; cbn in *.
  all: try (match goal with H : pid_alive _ ?c = false |- _ =>
              first [ rewrite (Fl c eq_refl) in H | rewrite (Ql c (or_introl eq_refl)) in H
                    | rewrite (Ql c (or_intror (or_intror eq_refl))) in H ]; discriminate end).
  all: split; [constructor; cbn; rewrite ?Hpc, ?Hd; cbn; auto;
                intros p0 [X|[X|X]]; try discriminate; inversion X; subst; auto
              | repeat split; intros p0 X; try discriminate; try (inversion X; subst); auto ].
Qed.

Lemma pid_alive_upd_ge ps i q x p :
  nth_error ps i = Some q -> p_pid x = p_pid q -> p_alive x = p_alive q ->
  pid_alive ps p = true -> pid_alive (upd ps i x) p = true.
Proof.
  intros Hn Hp Ha H. apply pid_alive_true in H. destruct H as [y [Hin [E A]]].
  apply pid_alive_true. apply In_nth_error in Hin. destruct Hin as [j Hj].
  destruct (Nat.eqb i j) eqn:Eij.
  - apply Nat.eqb_eq in Eij. subst j. assert (y = q) by congruence. subst y.
    exists x. split; [|split; congruence].
    apply (nth_error_In _ i). rewrite upd_nth, Nat.eqb_refl, Hn. reflexivity.
  - exists y. split; [|auto]. apply (nth_error_In _ j). rewrite upd_nth, Eij. assumption.
Qed.

Lemma others_in_none f ps i : (forall q, In q ps -> f (p_pc q) = false) -> others_in f ps i = false.
Proof.
  revert i. induction ps as [|q ps IH]; intros i H; [reflexivity|].
  destruct i as [|i]; cbn [others_in].
  - destruct (existsb (fun x => p_alive x && f (p_pc x)) ps) eqn:E; [|reflexivity].
    apply existsb_exists in E. destruct E as [x [Hin Hx]]. rewrite (H x (or_intror Hin)), andb_false_r in Hx. discriminate.
  - rewrite (H q (or_introl eq_refl)), andb_false_r. cbn. apply IH. intros; apply H; right; assumption.
Qed.

Lemma quiet_pc_wins k : quiet_pc k = true -> lock_win k = false /\ meta_win k = false.
Proof. destruct k; cbn; intros; try discriminate; auto. Qed.

Definition crash_free (es : list event) : bool :=
  forallb (fun e => match e with Step _ _ => true | Crash _ => false end) es.

Lemma quiet_no_overlap s e : Quiet s -> no_overlap_step s e = true.
Proof.
  intros [QA _]. destruct e as [i o|i]; [|reflexivity]. cbn.
  destruct (nth_error (s_procs s) i) as [q|]; [|reflexivity].
  assert (L : others_in lock_win (s_procs s) i = false).
  { apply others_in_none. intros x Hx. apply quiet_pc_wins. apply (Q_pc _ _ (QA x Hx)). }
  assert (M : others_in meta_win (s_procs s) i = false).
  { apply others_in_none. intros x Hx. apply quiet_pc_wins. apply (Q_pc _ _ (QA x Hx)). }
  rewrite L, M. destruct (p_pc q); try reflexivity; destruct (s_lock s); reflexivity.
Qed.

Lemma step_quiet s i o : Quiet s -> Quiet (step true s (Step i o)).
Proof.
  intros [QA QF]. cbn [step].
  destruct (nth_error (s_procs s) i) as [q|] eqn:Hq; [|constructor; assumption].
  assert (Hin : In q (s_procs s)) by (eapply nth_error_In; eassumption).
  rewrite (Q_alive _ _ (QA q Hin)).
  destruct (micro true s o q) as [s' q'] eqn:Hm.
  destruct (micro_basic _ _ _ _ _ _ Hm) as [Epid [Eal Eps]].
  destruct (micro_quiet _ _ _ _ _ Hm (QA q Hin) QF) as [Qq' [Fl [Fm Ft]]].
  { apply pid_alive_self; [assumption|]. apply (Q_alive _ _ (QA q Hin)). }
  assert (Hge : forall p, pid_alive (s_procs s') p = true -> pid_alive (upd (s_procs s) i q') p = true).
  { intros p Hp. rewrite Eps in Hp. eapply pid_alive_upd_ge; eassumption. }
  constructor; cbn [with_procs s_procs s_lock s_meta s_tmp].
  - intros x Hx. apply in_upd in Hx. destruct Hx as [[-> _]|[j [Hj Hxj]]].
    + destruct Qq' as [A B C D]. constructor; cbn; auto.
    + destruct (QA x (nth_error_In _ _ Hxj)) as [A B C D]. constructor; cbn; auto.
      intros p Hp. apply Hge. rewrite Eps. auto.
  - unfold files_live; cbn. repeat split; intros p Hp; apply Hge; auto.
Qed.

Theorem run_quiet es : forall s, Quiet s -> crash_free es = true ->
  no_overlap true s es = true /\ Quiet (run true s es).
Proof.
  induction es as [|e es IH]; intros s HQ Hcf; [split; [reflexivity|exact HQ]|].
  cbn in Hcf. destruct e as [i o|i]; [|discriminate]. cbn in Hcf.
  destruct (IH (step true s (Step i o)) (step_quiet _ _ _ HQ) Hcf) as [A B].
  split; [|exact B]. cbn [no_overlap]. rewrite A, (quiet_no_overlap _ _ HQ). reflexivity.
Qed.

Lemma init_quiet l m ps :
  init_ok l m ps ->
  (forall p, lock_pid l = Some p -> pid_alive ps p = true) ->
  (forall p, meta_pid m = Some p -> pid_alive ps p = true) ->
  Quiet (init l m ps).
Proof.
  intros [ND [Hq _]] Hl Hm. constructor.
  - intros q Hin. cbn in Hin. destruct (Hq q Hin) as [[E|E]|[E _]]; constructor; rewrite E; cbn; try reflexivity;
      intros p [X|[X|X]]; discriminate.
  - unfold files_live; cbn. repeat split; auto. intros p X; discriminate.
Qed.

(* no dead leftovers (no files, or the files of a live serving authority), any number of contenders, ANY crash-free
   schedule: exclusive create alone gives mutual exclusion, and nothing of a live pid is ever renamed or removed *)
Theorem mutex_no_dead_leftovers l m ps es :
  init_ok l m ps ->
  (forall p, lock_pid l = Some p -> pid_alive ps p = true) ->
  (forall p, meta_pid m = Some p -> pid_alive ps p = true) ->
  crash_free es = true ->
  (length (holders (run true (init l m ps) es)) <= 1)%nat
  /\ (forall p, In p (holders (run true (init l m ps) es)) -> lock_pid (s_lock (run true (init l m ps) es)) = Some p)
  /\ s_took_lock (run true (init l m ps) es) = false /\ s_took_meta (run true (init l m ps) es) = false.
Proof.
  intros H1 H2 H3 H4.
  destruct (run_quiet es _ (init_quiet _ _ _ H1 H2 H3) H4) as [Hov _].
  destruct (mutex_serial_cleanup _ _ _ _ H1 Hov) as [A B].
  destruct (live_files_never_taken _ _ _ _ H1 Hov) as [C D]. auto.
Qed.

Definition contenders_ok (ps : list proc) : Prop :=
  NoDup (map p_pid ps) /\ (forall q, In q ps -> contender q).

Theorem mutex_no_leftovers ps es :
  contenders_ok ps -> crash_free es = true ->
  (length (holders (run true (init LAbsent MAbsent ps) es)) <= 1)%nat
  /\ (forall p, In p (holders (run true (init LAbsent MAbsent ps) es)) ->
                lock_pid (s_lock (run true (init LAbsent MAbsent ps) es)) = Some p).
Proof.
  intros [ND Hc] Hcf.
  assert (Hok : init_ok LAbsent MAbsent ps).
  { split; [assumption|]. split; [intros q Hq; left; auto|]. split; intros p X; discriminate. }
  destruct (mutex_no_dead_leftovers LAbsent MAbsent ps es Hok) as [A [B _]]; try assumption; try (intros p X; discriminate).
  split; assumption.
Qed.
