(* C05 — artifacts: the blob is on disk (temp + rename complete) BEFORE the frame that names it reaches the log, so at
   EVERY instruction boundary of EVERY history, after restart and ANY further operations, every artifact a frame of
   the log (or of the log writer's buffer) references is in the artifact store.  For every code version `v`, no
   environment hypothesis. *)
From RipV Require Import Base.Prelude Model.Crash Proofs.CrashProofs Proofs.CrashCacheProofs.

(* every frame written so far (on disk or still in the EventLog's BufWriter) names only artifacts that are complete *)
Definition AR (s : st) : Prop :=
  forall f a, In f (frames_of (truth s ++ bw_buf (tw s))) -> f_art f = Some a -> In a (arts s).

Definition wframes (i : instr) : list frame := match i with ITruthWrite cs => frames_of cs | _ => [] end.
Definition renames (i : instr) : list N := match i with IArtRename a => [a] | _ => [] end.

(* a program is artifact-safe from the set `have`: every frame it writes names an artifact in `have` or one whose
   rename precedes the write in the program *)
Fixpoint art_ok (have : list N) (is : list instr) : Prop :=
  match is with
  | [] => True
  | i :: r => (forall f a, In f (wframes i) -> f_art f = Some a -> In a have) /\ art_ok (renames i ++ have) r
  end.
Definition gain (have : list N) (is : list instr) : list N := fold_left (fun h i => renames i ++ h) is have.

Lemma art_ok_mono is : forall have have', incl have have' -> art_ok have is -> art_ok have' is.
Proof.
  induction is as [|i is IH]; intros have have' Hi H; [exact I|]. cbn [art_ok] in *. destruct H as [H1 H2]. split.
  - intros f a Hf Ha. apply Hi. exact (H1 f a Hf Ha).
  - apply (IH (renames i ++ have)); [|exact H2]. apply incl_app; [apply incl_appl, incl_refl | apply incl_appr; exact Hi].
Qed.
Lemma art_ok_app a : forall have b, art_ok have a -> art_ok (gain have a) b -> art_ok have (a ++ b).
Proof.
  induction a as [|i a IH]; intros have b Ha Hb; [exact Hb|].
  cbn [app art_ok] in *. destruct Ha as [H1 H2]. split; [exact H1|]. apply IH; [exact H2 | exact Hb].
Qed.

(* instructions that neither write a frame nor complete an artifact *)
Definition quietb (i : instr) : bool := match i with ITruthWrite _ | IArtRename _ => false | _ => true end.
Definition quiet (is : list instr) : bool := forallb quietb is.
Lemma quiet_app a b : quiet (a ++ b) = quiet a && quiet b.
Proof. apply forallb_app. Qed.
Lemma quiet_gain is : quiet is = true -> forall have, gain have is = have.
Proof.
  unfold gain. induction is as [|i is IH]; intros Hq have; [reflexivity|].
  cbn [quiet forallb] in Hq. apply andb_true_iff in Hq. destruct Hq as [Hi Hq]. cbn [fold_left].
  rewrite (IH Hq). destruct i; try discriminate Hi; reflexivity.
Qed.
Lemma quiet_ok is : quiet is = true -> forall have, art_ok have is.
Proof.
  induction is as [|i is IH]; intros Hq have; [exact I|].
  cbn [quiet forallb] in Hq. apply andb_true_iff in Hq. destruct Hq as [Hi Hq]. cbn [art_ok]. split.
  - intros f a Hf. destruct i; try discriminate Hi; contradiction Hf.
  - apply IH. exact Hq.
Qed.
Lemma ok_quiet_app a b have : quiet a = true -> art_ok have b -> art_ok have (a ++ b).
Proof. intros Hq Hb. apply art_ok_app; [apply quiet_ok; exact Hq | rewrite (quiet_gain a Hq); exact Hb]. Qed.

(* the pieces of rip's programs *)
Lemma q_side_append c f : quiet (side_append c f) = true.
Proof. reflexivity. Qed.
Lemma q_save_index : quiet save_index = true.
Proof. reflexivity. Qed.
Lemma q_rebuild c evs : quiet (rebuild c evs) = true.
Proof.
  unfold rebuild. rewrite !quiet_app. cbn [quiet forallb quietb andb]. rewrite andb_true_r.
  induction evs as [|f evs IH]; [reflexivity|]. cbn [flat_map]. rewrite quiet_app. cbn [quiet forallb quietb andb]. exact IH.
Qed.
Lemma q_rebuild_nonempty c evs : quiet (rebuild_nonempty c evs) = true.
Proof. destruct evs; [reflexivity | apply q_rebuild]. Qed.
Lemma q_replay_events s c : quiet (fst (replay_events s c)) = true.
Proof.
  unfold replay_events. destruct (try_replay s c); [reflexivity|].
  destruct (replay_validated s); [apply q_rebuild_nonempty | reflexivity].
Qed.
Lemma q_load_next_unfixed s c : quiet (fst (load_next_unfixed s c)) = true.
Proof.
  unfold load_next_unfixed. destruct (side_tail_seq s c); [reflexivity|].
  pose proof (q_replay_events s c) as H. destruct (replay_events s c) as [is [evs|]]; cbn [fst snd] in *;
    [destruct (last_opt evs)|]; exact H.
Qed.
Lemma q_load_next_fixed s c : quiet (fst (load_next_fixed s c)) = true.
Proof.
  unfold load_next_fixed. destruct (truth_last s (2 * c)); [apply q_load_next_unfixed | reflexivity |].
  destruct (match side_tail_seq s c with Some q' => q' =? q | None => false end); [reflexivity|].
  destruct (replay_validated s); [apply q_rebuild_nonempty | reflexivity].
Qed.
Lemma q_resolve v s c : quiet (fst (resolve v s c)) = true.
Proof.
  unfold resolve. destruct (get (2 * c) (nexts s)); [reflexivity|].
  destruct (fr v); [apply q_load_next_fixed | apply q_load_next_unfixed].
Qed.

(* one frame through the log writer: safe when its artifact (if any) is already complete *)
Lemma ok_truth_append_gen a b f have rest : (forall x, f_art f = Some x -> In x have) -> art_ok have rest ->
  art_ok have (truth_append_gen a b f ++ rest).
Proof.
  intros Hf Hr. unfold truth_append_gen.
  assert (Hone : forall g x, In g (frames_of [Body f; NL]) -> f_art g = Some x -> In x have)
    by (intros g x [<-|[]] Hx; exact (Hf x Hx)).
  assert (Hb : forall g x, In g (frames_of [Body f]) -> f_art g = Some x -> In x have)
    by (intros g x [<-|[]] Hx; exact (Hf x Hx)).
  destruct a, b; cbn [app art_ok wframes renames]; repeat split; try exact Hone; try exact Hb; try exact Hr;
    try (intros g x []).
Qed.
Lemma ok_write_blob a have rest : art_ok (a :: have) rest -> art_ok have (write_blob a ++ rest).
Proof. intros Hr. cbn [write_blob app art_ok wframes renames]. repeat split; try (intros g x []). exact Hr. Qed.
Lemma ok_cons i have rest : quietb i = true -> art_ok have rest -> art_ok have (i :: rest).
Proof. intros Hq Hr. exact (ok_quiet_app [i] rest have (proj2 (andb_true_iff _ _) (conj Hq eq_refl)) Hr). Qed.

Lemma ok_frame_tail v c f have tail : (forall x, f_art f = Some x -> In x have) -> quiet tail = true ->
  art_ok have (truth_append v f ++ [IPt 13] ++ side_append c f ++ tail).
Proof.
  intros Hf Ht. apply ok_truth_append_gen; [exact Hf|]. apply quiet_ok.
  rewrite !quiet_app, q_side_append, Ht. reflexivity.
Qed.

Lemma ok_locked_append v s c fid len art have : (forall x, art = Some x -> In x have) ->
  art_ok have (locked_append v s c fid len art).
Proof.
  intros Ha. unfold locked_append. apply (ok_quiet_app [IPt 11; IPt 12]); [reflexivity|].
  apply ok_quiet_app; [apply q_resolve|]. destruct (snd (resolve v s c)) as [q|]; [|exact I].
  apply ok_frame_tail; [exact Ha | reflexivity].
Qed.
Lemma ok_create v c fid len d have rest : art_ok have rest -> art_ok have (create v c fid len d ++ rest).
Proof.
  intros Hr. unfold create. rewrite <- !app_assoc. apply (ok_quiet_app [IPt 11; IPt 12]); [reflexivity|].
  apply ok_truth_append_gen; [intros x Hx; discriminate Hx|].
  apply (ok_quiet_app [IPt 13]); [reflexivity|]. apply ok_quiet_app; [apply q_side_append|].
  apply (ok_quiet_app [IPt 14; IPt 15]); [reflexivity|].
  apply (ok_quiet_app [IIdxMem (if d then Some c else None) (Some c)]); [reflexivity|].
  apply ok_quiet_app; [apply q_save_index|]. apply (ok_quiet_app [IPt 19; IPt 17; ISetNext (2 * c) 1; IPt 18]); [reflexivity|].
  exact Hr.
Qed.
Lemma ok_child v c i len0 len1 art have : (forall x, art = Some x -> In x have) ->
  art_ok have (child v c i len0 len1 [] art).
Proof.
  intros Ha. unfold child. apply ok_create. cbn [app].
  apply ok_frame_tail; [exact Ha | reflexivity].
Qed.

Lemma ok_compile v s i o : art_ok [] (compile v s i o).
Proof.
  destruct o as [c len | c len | x len | c a has_msg len | p c len0 len1 | p c a len0 len1 | c]; cbn [compile].
  - destruct (ix_default (midx s)); [apply quiet_ok; reflexivity|].
    destruct (replay_validated s) as [fs|]; [|exact I].
    destruct (latest_created fs); [apply quiet_ok; reflexivity|].
    apply ok_create. apply quiet_ok. reflexivity.
  - apply ok_locked_append. intros x Hx. discriminate Hx.
  - unfold sess_append. apply ok_truth_append_gen; [intros y Hy; discriminate Hy | apply quiet_ok; reflexivity].
  - apply ok_quiet_app; [apply q_replay_events|].
    destruct (snd (replay_events s c)) as [[|e evs]|]; try exact I. destruct has_msg; [|exact I].
    apply ok_write_blob. apply ok_locked_append. intros x Hx. injection Hx as <-. left. reflexivity.
  - apply ok_quiet_app; [apply q_replay_events|].
    destruct (snd (replay_events s p)) as [[|e evs]|]; try exact I.
    apply ok_child. intros x Hx. discriminate Hx.
  - apply ok_quiet_app; [apply q_replay_events|].
    destruct (snd (replay_events s p)) as [[|e evs]|]; try exact I.
    apply ok_write_blob. apply ok_child. intros x Hx. injection Hx as <-. left. reflexivity.
  - apply ok_cons; [reflexivity|]. apply quiet_ok. apply q_replay_events.
Qed.

(* ================================================================ semantics *)
Lemma exec_AR s i have : incl have (arts s) -> AR s ->
  (forall f a, In f (wframes i) -> f_art f = Some a -> In a have) ->
  AR (exec s i) /\ incl (renames i ++ have) (arts (exec s i)).
Proof.
  intros Hi H Hw.
  assert (Hsame : forall s', truth s' ++ bw_buf (tw s') = truth s ++ bw_buf (tw s) -> arts s' = arts s -> renames i = [] ->
            AR s' /\ incl (renames i ++ have) (arts s')).
  { intros s' Et Ea Er. split; [intros f a Hf Hfa; rewrite Et in Hf; rewrite Ea; exact (H f a Hf Hfa)|].
    rewrite Er, Ea. exact Hi. }
  destruct i; cbn [exec]; try (apply Hsame; reflexivity).
  - (* ITruthWrite *)
    destruct (bw_write_inv (truth s) (tw s) cs (clen cs)) as [Hinv _]. split; [|exact Hi].
    intros f a Hf Hfa. cbn [upd_truth truth tw arts] in *. rewrite Hinv, app_assoc, frames_of_app in Hf.
    apply in_app_or in Hf. destruct Hf as [Hf|Hf]; [exact (H f a Hf Hfa) | apply Hi; exact (Hw f a Hf Hfa)].
  - (* ITruthFlush *)
    apply Hsame; [|reflexivity|reflexivity]. cbn [upd_truth truth tw bw_flush fst snd bw_empty bw_buf]. apply app_nil_r.
  - (* IIdxRename *)
    destruct (idx_tmp s); apply Hsame; reflexivity.
  - (* IArtRename *)
    cbn [upd_arts arts renames app]. split.
    + intros f x Hf Hfx. right. exact (H f x Hf Hfx).
    + intros x [<-|Hx]; [left; reflexivity | right; apply Hi; exact Hx].
Qed.

Lemma art_sem is : forall s have, incl have (arts s) -> AR s -> art_ok have is ->
  AllPre AR s is /\ AR (run_instrs s is).
Proof.
  induction is as [|i is IH]; intros s have Hi H Hok; [split; [apply AllPre_nil|]; exact H|].
  cbn [art_ok] in Hok. destruct Hok as [Hw Hr].
  destruct (exec_AR s i have Hi H Hw) as [H1 Hi1]. destruct (IH (exec s i) _ Hi1 H1 Hr) as [A B].
  split; [apply AllPre_cons; [exact H | exact A] | exact B].
Qed.

Lemma op_AR v s i o : AR s -> AllPre AR s (compile v s i o) /\ AR (run_instrs s (compile v s i o)).
Proof. intros H. apply (art_sem _ s []); [intros x [] | exact H | apply ok_compile]. Qed.

Lemma AR_init : AR init.
Proof. intros f a []. Qed.
Lemma AR_recover s : AR s -> AR (recover s).
Proof.
  intros H f a Hf Hfa. cbn [recover truth tw arts bw_empty bw_buf] in *. rewrite app_nil_r in Hf.
  apply (H f a); [|exact Hfa]. rewrite frames_of_app. apply in_or_app. left. exact Hf.
Qed.
Lemma run_ops_AR v ops : forall s i, AR s -> AR (run_ops v s i ops).
Proof. induction ops as [|o ops IH]; intros s i H; [exact H|]. cbn [run_ops]. apply IH. apply op_AR. exact H. Qed.
Lemma run_k_AR v ops : forall k s i, AR s -> AR (run_k v k s i ops).
Proof.
  induction ops as [|o ops IH]; intros k s i H; [exact H|]. cbn [run_k].
  destruct (op_AR v s i o H) as [A B]. destruct (Nat.leb k (length (compile v s i o))).
  - apply (A (firstn k (compile v s i o)) (skipn k (compile v s i o))). symmetry. apply firstn_skipn.
  - apply IH. exact B.
Qed.

(* artifact before frame, at every crash point, after restart and any further operations *)
Theorem artifact_before_frame v hist k base more f a :
  In f (frames_of (truth (run_ops v (crash v k hist) base more))) -> f_art f = Some a ->
  In a (arts (run_ops v (crash v k hist) base more)).
Proof.
  intros Hf Ha.
  assert (H : AR (run_ops v (crash v k hist) base more)).
  { apply run_ops_AR. unfold crash. apply AR_recover. apply run_k_AR. exact AR_init. }
  apply (H f a); [|exact Ha]. rewrite frames_of_app. apply in_or_app. left. exact Hf.
Qed.

(* the store a crash inside the checkpoint's locked append leaves (artifact 7 complete, its frame in the log), and a
   crash between the blob's temp write and its rename (no frame names artifact 7 yet; the .tmp file is an orphan) *)
Definition art_hist : list op := [OEnsure 0 300; OAppend 0 10; OCheckpoint 0 7 true 100].
Lemma art_example :
  map f_art (frames_of (truth (crash fixed 1000 art_hist))) = [None; None; Some 7]
  /\ arts (crash fixed 1000 art_hist) = [7]
  /\ map f_art (frames_of (truth (crash fixed 57 art_hist))) = [None; None]
  /\ arts (crash fixed 57 art_hist) = [] /\ art_tmps (crash fixed 57 art_hist) = [7].
Proof. vm_compute. repeat split. Qed.

(* ================================================================ the snapshot file across a crash *)
(* create + ONE write + flush: whatever the payload length, a crash at ANY instruction of write_snapshot leaves the file
   as it was (only before the create), EMPTY, or COMPLETE - never a proper part of the payload; the complete run leaves
   the payload *)
Theorem snapshot_views old payload k :
  snap_crash old payload k = old \/ snap_crash old payload k = Some [] \/ snap_crash old payload k = Some payload.
Proof.
  unfold snap_crash, snap_prog.
  destruct k as [|[|[|[|[|[|k]]]]]]; cbn [firstn fold_left sexec fst snd]; try (left; reflexivity); try (right; left; reflexivity);
    rewrite bw_write_empty; destruct (clen payload <? CAP); cbn [fst snd bw_flush bw_buf bw_empty app]; rewrite ?app_nil_r, ?firstn_nil; cbn [fold_left fst];
    try (right; left; reflexivity); right; right; reflexivity.
Qed.
Theorem snapshot_complete old payload k : (5 <= k)%nat -> snap_crash old payload k = Some payload.
Proof.
  intros Hk. unfold snap_crash, snap_prog.
  destruct k as [|[|[|[|[|[|k]]]]]]; try lia; cbn [firstn fold_left sexec fst snd];
    rewrite bw_write_empty; destruct (clen payload <? CAP); cbn [fst snd bw_flush bw_buf bw_empty app]; rewrite ?app_nil_r, ?firstn_nil; reflexivity.
Qed.
(* an EMPTY file is what the create leaves until the one write reaches the disk: at the write_all for a payload of
   BufWriter capacity or more, only at the flush for a smaller one *)
Lemma snapshot_example :
  snap_crash None [Body (mkf 1 0 0 100 None)] 4 = Some []
  /\ snap_crash None [Body (mkf 1 0 0 9000 None)] 3 = Some [Body (mkf 1 0 0 9000 None)]
  /\ snap_crash (Some [NL]) [Body (mkf 1 0 0 100 None)] 0 = Some [NL].
Proof. vm_compute. repeat split. Qed.
