(* C20 — proofs about Model/Views.v (headless raw and metrics views) *)
From RipV Require Import Base.Prelude Model.Summary Model.Views.

(* a line that is a frame other than session_ended / a line that is a session_ended frame *)
Definition valid_open (l : line) : bool :=
  match l_frame l with Some f => negb (is_ended (m_kind f)) | None => false end.
Definition valid_end (l : line) : bool :=
  match l_frame l with Some f => is_ended (m_kind f) | None => false end.
Definition not_frame (l : line) : bool := match l_frame l with Some _ => false | None => true end.

Definition echo (ls : list line) : str := concat (map (fun l => l_text l ++ [10]) ls).
Definition frames_of (ls : list line) : list mframe :=
  flat_map (fun l => match l_frame l with Some f => [f] | None => [] end) ls.
Definition msteps (s : mstate) (fs : list mframe) : mstate :=
  fold_left (fun s f => fst (metrics_step s f)) fs s.

Lemma nlen_cons {A} (x : A) l : nlen (x :: l) = 1 + nlen l.
Proof. unfold nlen. cbn [length]. lia. Qed.

(* ---------- raw view ---------- *)
Lemma raw_run_stopped i pre e rest :
  forallb valid_open pre = true -> valid_end e = true ->
  raw_run i (pre ++ e :: rest) = (echo (pre ++ [e]), END_STOPPED, i + nlen pre).
Proof.
  revert i; induction pre as [|l pre IH]; intros i Hp He.
  - cbn [app raw_run]. unfold valid_end in He. destruct (l_frame e) as [f|]; [|discriminate].
    rewrite He. unfold echo; cbn [map concat]. rewrite app_nil_r. f_equal. unfold nlen; cbn; lia.
  - cbn [forallb] in Hp. apply andb_true_iff in Hp. destruct Hp as [Hl Hp].
    cbn [app raw_run]. unfold valid_open in Hl. destruct (l_frame l) as [f|]; [|discriminate].
    apply negb_true_iff in Hl. rewrite Hl. rewrite (IH (i + 1) Hp He).
    unfold echo. cbn [map concat app]. rewrite nlen_cons. f_equal. lia.
Qed.

Lemma raw_run_exhausted i ls :
  forallb valid_open ls = true -> raw_run i ls = (echo ls, END_EXHAUSTED, i + nlen ls).
Proof.
  revert i; induction ls as [|l ls IH]; intros i Hp.
  - cbn. f_equal. unfold nlen; cbn; lia.
  - cbn [forallb] in Hp. apply andb_true_iff in Hp. destruct Hp as [Hl Hp].
    cbn [raw_run]. unfold valid_open in Hl. destruct (l_frame l) as [f|]; [|discriminate].
    apply negb_true_iff in Hl. rewrite Hl. rewrite (IH (i + 1) Hp).
    unfold echo. cbn [map concat]. rewrite nlen_cons. f_equal. lia.
Qed.

Lemma raw_run_refused i pre bad rest :
  forallb valid_open pre = true -> not_frame bad = true ->
  raw_run i (pre ++ bad :: rest) = (echo pre, END_ERROR, i + nlen pre).
Proof.
  revert i; induction pre as [|l pre IH]; intros i Hp Hb.
  - cbn [app raw_run]. unfold not_frame in Hb. destruct (l_frame bad); [discriminate|].
    cbn. f_equal. unfold nlen; cbn; lia.
  - cbn [forallb] in Hp. apply andb_true_iff in Hp. destruct Hp as [Hl Hp].
    cbn [app raw_run]. unfold valid_open in Hl. destruct (l_frame l) as [f|]; [|discriminate].
    apply negb_true_iff in Hl. rewrite Hl. rewrite (IH (i + 1) Hp Hb).
    unfold echo. cbn [map concat]. rewrite nlen_cons. f_equal. lia.
Qed.

(* the raw view is the identity on frame lines: what is printed is exactly the lines received, up to and
   including the first session_ended; nothing after it, nothing of a line that is not a frame *)
Theorem raw_view_identity_until_end pre e rest :
  forallb valid_open pre = true -> valid_end e = true ->
  raw_view (pre ++ e :: rest) = (echo (pre ++ [e]), END_STOPPED, nlen pre).
Proof. intros. unfold raw_view. rewrite raw_run_stopped by assumption. f_equal. Qed.

Theorem raw_view_identity_no_end ls :
  forallb valid_open ls = true -> raw_view ls = (echo ls, END_EXHAUSTED, nlen ls).
Proof. intros. unfold raw_view. rewrite raw_run_exhausted by assumption. f_equal. Qed.

Theorem raw_view_refuses_non_frame pre bad rest :
  forallb valid_open pre = true -> not_frame bad = true ->
  raw_view (pre ++ bad :: rest) = (echo pre, END_ERROR, nlen pre).
Proof. intros. unfold raw_view. rewrite raw_run_refused by assumption. f_equal. Qed.

(* ---------- metrics view ---------- *)
Lemma metrics_step_silent s f : is_ended (m_kind f) = false -> snd (metrics_step s f) = [].
Proof. intros H. unfold metrics_step. cbn [snd]. rewrite H. reflexivity. Qed.

Lemma frames_of_app a b : frames_of (a ++ b) = frames_of a ++ frames_of b.
Proof. unfold frames_of. apply flat_map_app. Qed.

Lemma msteps_app s a b : msteps s (a ++ b) = msteps (msteps s a) b.
Proof. unfold msteps. apply fold_left_app. Qed.

Lemma metrics_run_stopped s i pre e rest :
  forallb valid_open pre = true -> valid_end e = true ->
  metrics_run s i (pre ++ e :: rest)
  = (metrics_json (msteps s (frames_of (pre ++ [e]))) ++ [10], END_STOPPED, i + nlen pre).
Proof.
  revert s i; induction pre as [|l pre IH]; intros s i Hp He.
  - cbn [app metrics_run]. unfold valid_end in He. unfold frames_of; cbn [flat_map].
    destruct (l_frame e) as [f|]; [|discriminate]. cbn [app msteps fold_left].
    unfold metrics_step at 1. rewrite He.
    unfold metrics_step. cbn [fst]. f_equal. unfold nlen; cbn; lia.
  - cbn [forallb] in Hp. apply andb_true_iff in Hp. destruct Hp as [Hl Hp].
    cbn [app metrics_run]. unfold valid_open in Hl. unfold frames_of; cbn [flat_map]. fold (frames_of (pre ++ [e])).
    destruct (l_frame l) as [f|]; [|discriminate]. apply negb_true_iff in Hl.
    pose proof (metrics_step_silent s f Hl) as Hs.
    destruct (metrics_step s f) as [s' w] eqn:Em. cbn [snd] in Hs. subst w. rewrite Hl.
    rewrite (IH s' (i + 1) Hp He). cbn [app msteps fold_left]. rewrite Em. cbn [fst].
    rewrite nlen_cons. f_equal. lia.
Qed.

Lemma metrics_run_quiet s i ls :
  forallb valid_open ls = true -> metrics_run s i ls = ([], END_EXHAUSTED, i + nlen ls).
Proof.
  revert s i; induction ls as [|l ls IH]; intros s i Hp.
  - cbn. f_equal. unfold nlen; cbn; lia.
  - cbn [forallb] in Hp. apply andb_true_iff in Hp. destruct Hp as [Hl Hp].
    cbn [metrics_run]. unfold valid_open in Hl. destruct (l_frame l) as [f|]; [|discriminate].
    apply negb_true_iff in Hl. pose proof (metrics_step_silent s f Hl) as Hs.
    destruct (metrics_step s f) as [s' w]. cbn [snd] in Hs. subst w. rewrite Hl.
    rewrite (IH s' (i + 1) Hp). rewrite nlen_cons. cbn [app]. f_equal. lia.
Qed.

Lemma metrics_run_refused s i pre bad rest :
  forallb valid_open pre = true -> not_frame bad = true ->
  metrics_run s i (pre ++ bad :: rest) = ([], END_ERROR, i + nlen pre).
Proof.
  revert s i; induction pre as [|l pre IH]; intros s i Hp Hb.
  - cbn [app metrics_run]. unfold not_frame in Hb. destruct (l_frame bad); [discriminate|].
    f_equal. unfold nlen; cbn; lia.
  - cbn [forallb] in Hp. apply andb_true_iff in Hp. destruct Hp as [Hl Hp].
    cbn [app metrics_run]. unfold valid_open in Hl. destruct (l_frame l) as [f|]; [|discriminate].
    apply negb_true_iff in Hl. pose proof (metrics_step_silent s f Hl) as Hs.
    destruct (metrics_step s f) as [s' w]. cbn [snd] in Hs. subst w. rewrite Hl.
    rewrite (IH s' (i + 1) Hp Hb). rewrite nlen_cons. cbn [app]. f_equal. lia.
Qed.

(* the metrics view prints nothing until the first session_ended and then exactly one line: the JSON of
   the fold of the frames up to and including it; frames after it never matter *)
Theorem metrics_view_is_fold_until_end pre e rest :
  forallb valid_open pre = true -> valid_end e = true ->
  metrics_view (pre ++ e :: rest)
  = (metrics_json (msteps mstate0 (frames_of (pre ++ [e]))) ++ [10], END_STOPPED, nlen pre).
Proof. intros. unfold metrics_view. rewrite metrics_run_stopped by assumption. f_equal. Qed.

Theorem metrics_view_silent_without_end ls :
  forallb valid_open ls = true -> metrics_view ls = ([], END_EXHAUSTED, nlen ls).
Proof. intros. unfold metrics_view. rewrite metrics_run_quiet by assumption. f_equal. Qed.

Theorem metrics_view_refuses_non_frame pre bad rest :
  forallb valid_open pre = true -> not_frame bad = true ->
  metrics_view (pre ++ bad :: rest) = ([], END_ERROR, nlen pre).
Proof. intros. unfold metrics_view. rewrite metrics_run_refused by assumption. f_equal. Qed.

Theorem views_refuse_non_frame pre bad rest :
  forallb valid_open pre = true -> not_frame bad = true ->
  raw_view (pre ++ bad :: rest) = (echo pre, END_ERROR, nlen pre)
  /\ metrics_view (pre ++ bad :: rest) = ([], END_ERROR, nlen pre).
Proof. intros Hp Hb. split; [apply raw_view_refuses_non_frame | apply metrics_view_refuses_non_frame]; assumption. Qed.

(* both views stop at the first session_ended: what follows it is never looked at *)
Theorem views_ignore_after_end pre e rest1 rest2 :
  forallb valid_open pre = true -> valid_end e = true ->
  raw_view (pre ++ e :: rest1) = raw_view (pre ++ e :: rest2)
  /\ metrics_view (pre ++ e :: rest1) = metrics_view (pre ++ e :: rest2).
Proof.
  intros Hp He. split.
  - rewrite !raw_view_identity_until_end by assumption. reflexivity.
  - rewrite !metrics_view_is_fold_until_end by assumption. reflexivity.
Qed.

(* the metrics view is a function of the frames alone: the text layout of the lines does not matter *)
Lemma metrics_run_frames_only s i ls1 ls2 :
  map l_frame ls1 = map l_frame ls2 -> metrics_run s i ls1 = metrics_run s i ls2.
Proof.
  revert s i ls2; induction ls1 as [|a ls1 IH]; intros s i [|b ls2] H; cbn [map] in H; try discriminate; [reflexivity|].
  inversion H as [[Ha Hr]]. cbn [metrics_run]. rewrite Ha.
  destruct (l_frame b) as [f|]; [|reflexivity].
  destruct (metrics_step s f) as [s' w]. destruct (is_ended (m_kind f)); [reflexivity|].
  rewrite (IH s' (i + 1) ls2 Hr). reflexivity.
Qed.
Theorem metrics_view_depends_on_frames_only ls1 ls2 :
  map l_frame ls1 = map l_frame ls2 -> metrics_view ls1 = metrics_view ls2.
Proof. apply metrics_run_frames_only. Qed.

(* the two views end at the same line, for every stream whatsoever *)
Lemma runs_end_together s i ls :
  snd (fst (raw_run i ls)) = snd (fst (metrics_run s i ls)) /\ snd (raw_run i ls) = snd (metrics_run s i ls).
Proof.
  revert s i; induction ls as [|l ls IH]; intros s i; cbn [raw_run metrics_run]; [auto|].
  destruct (l_frame l) as [f|]; [|auto].
  destruct (metrics_step s f) as [s' w]. destruct (is_ended (m_kind f)); [auto|].
  specialize (IH s' (i + 1)).
  destruct (raw_run (i + 1) ls) as [[w1 e1] j1]. destruct (metrics_run s' (i + 1) ls) as [[w2 e2] j2].
  exact IH.
Qed.
Theorem views_end_together ls :
  snd (fst (raw_view ls)) = snd (fst (metrics_view ls)) /\ snd (raw_view ls) = snd (metrics_view ls).
Proof. apply runs_end_together. Qed.

(* ttft / e2e as printed: differences of the first start, first output and first end times, saturating *)
Lemma delta_spec a b : delta a b = match a, b with Some s, Some e => Some (e - s) | _, _ => None end.
Proof. destruct a, b; reflexivity. Qed.

(* ---------- what the timing fields of the fold are: the time of the FIRST frame of each kind ---------- *)
Definition first_ts (p : mkind -> bool) (fs : list mframe) : option N :=
  option_map m_ts (find (fun f => p (m_kind f)) fs).
Definition is_started (k : mkind) : bool := match k with MSessionStarted => true | _ => false end.
Definition is_output (k : mkind) : bool := match k with MOutputDelta => true | _ => false end.
Definition or_first (o : option N) (x : option N) : option N := match o with Some _ => o | None => x end.

Lemma m_observe_fields m f :
  x_started (m_observe m f) = or_first (x_started m) (if is_started (m_kind f) then Some (m_ts f) else None)
  /\ x_first_out (m_observe m f) = or_first (x_first_out m) (if is_output (m_kind f) then Some (m_ts f) else None)
  /\ x_ended (m_observe m f) = or_first (x_ended m) (if is_ended (m_kind f) then Some (m_ts f) else None).
Proof.
  unfold m_observe.
  destruct (m_kind f); cbn [is_started is_output is_ended];
    repeat match goal with |- context [if ?b then _ else _] => destruct b eqn:? end;
    cbn [x_started x_first_out x_ended or_first];
    repeat match goal with H : is_none ?o = _ |- _ => destruct o; cbn [is_none] in H; try discriminate H; clear H end;
    cbn [or_first]; auto;
    repeat split; try (destruct (x_started m); reflexivity); try (destruct (x_first_out m); reflexivity);
    try (destruct (x_ended m); reflexivity).
Qed.

Lemma metrics_step_metrics s f : ms_metrics (fst (metrics_step s f)) = m_observe (ms_metrics s) f.
Proof. unfold metrics_step. cbn [fst]. destruct (m_kind f); reflexivity. Qed.

Lemma msteps_timing fs : forall s,
  let m := ms_metrics (msteps s fs) in
  x_started m = or_first (x_started (ms_metrics s)) (first_ts is_started fs)
  /\ x_first_out m = or_first (x_first_out (ms_metrics s)) (first_ts is_output fs)
  /\ x_ended m = or_first (x_ended (ms_metrics s)) (first_ts is_ended fs).
Proof.
  induction fs as [|f fs IH]; intros s; cbv zeta.
  - cbn. repeat split; match goal with |- ?o = or_first ?o None => destruct o; reflexivity end.
  - unfold msteps; cbn [fold_left]. fold (msteps (fst (metrics_step s f)) fs).
    specialize (IH (fst (metrics_step s f))). cbv zeta in IH. destruct IH as [A [B C]].
    rewrite A, B, C, metrics_step_metrics.
    destruct (m_observe_fields (ms_metrics s) f) as [A' [B' C']]. rewrite A', B', C'.
    unfold first_ts. cbn [find].
    repeat split.
    + destruct (is_started (m_kind f)); destruct (x_started (ms_metrics s)); reflexivity.
    + destruct (is_output (m_kind f)); destruct (x_first_out (ms_metrics s)); reflexivity.
    + destruct (is_ended (m_kind f)); destruct (x_ended (ms_metrics s)); reflexivity.
Qed.

(* ttft_ms and e2e_ms as printed: (first output − first start) and (first end − first start), saturating at 0,
   null when either frame was not seen — for every frame sequence *)
Theorem metrics_ttft_e2e fs :
  let m := ms_metrics (msteps mstate0 fs) in
  delta (x_started m) (x_first_out m) = delta (first_ts is_started fs) (first_ts is_output fs)
  /\ delta (x_started m) (x_ended m) = delta (first_ts is_started fs) (first_ts is_ended fs).
Proof.
  cbv zeta. destruct (msteps_timing fs mstate0) as [A [B C]]. cbv zeta in A, B, C.
  rewrite A, B, C. cbn. auto.
Qed.

(* non-vacuity *)
Definition demo_lines : list line :=
  [ {| l_text := [123; 49; 125]; l_frame := Some {| m_ts := 100; m_kind := MSessionStarted |} |};
    {| l_text := [32; 123; 50; 125]; l_frame := Some {| m_ts := 130; m_kind := MOutputDelta |} |};
    {| l_text := [123; 51; 125]; l_frame := Some {| m_ts := 90; m_kind := MSessionEnded [111; 107] |} |};
    {| l_text := [120]; l_frame := None |} ].
Definition demo_metrics_text : str := Eval vm_compute in fst (fst (metrics_view demo_lines)).
Example demo_views :
  raw_view demo_lines = ([123; 49; 125; 10; 32; 123; 50; 125; 10; 123; 51; 125; 10], END_STOPPED, 2)
  /\ metrics_view demo_lines = (demo_metrics_text, END_STOPPED, 2)
  /\ nlen demo_metrics_text = 215
  /\ firstn 12 demo_metrics_text = [123;34;101;50;101;95;109;115;34;58;48;44]   (* {"e2e_ms":0, — the end time is before the start *)
  /\ raw_view (skipn 3 demo_lines) = ([], END_ERROR, 0).
Proof. vm_compute. auto. Qed.
