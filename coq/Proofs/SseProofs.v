(* C15 proofs.  Line level: SseDecoder pushes compose over concatenation (the decoder state after any
   chunk prefix is a function of the consumed text).  Byte level: push_bytes with the carry-over
   buffer pushes exactly the lossy decoding of the consumed bytes.  Pipe level: the emitted frames
   are `frames_whole (concat chunks)`: a function of the body alone. *)
From RipV Require Import Base.Prelude Base.Utf8 Base.Json Model.Sse Proofs.Utf8Proofs.

Definition no_nl (s : str) : Prop := forallb (fun c => negb (c =? NL)) s = true.

Lemma no_nl_app a b : no_nl a -> no_nl b -> no_nl (a ++ b).
Proof. unfold no_nl. intros Ha Hb. rewrite forallb_app, Ha, Hb. reflexivity. Qed.

Lemma split_lines_nonl b : forall cur l, no_nl b -> split_lines cur (b ++ l) = split_lines (cur ++ b) l.
Proof.
  induction b as [|c b IH]; intros cur l H.
  - rewrite app_nil_r. reflexivity.
  - unfold no_nl in H. cbn [forallb] in H. apply andb_true_iff in H. destruct H as [Hc Hb].
    cbn [app split_lines]. destruct (c =? NL); [discriminate|].
    rewrite IH by exact Hb. rewrite <- app_assoc. reflexivity.
Qed.

Lemma split_lines_app a : forall cur b,
  split_lines cur (a ++ b) =
  let '(l1, t1) := split_lines cur a in let '(l2, t2) := split_lines t1 b in (l1 ++ l2, t2).
Proof.
  induction a as [|c a IH]; intros cur b; cbn [app split_lines].
  - destruct (split_lines cur b); reflexivity.
  - destruct (c =? NL).
    + rewrite IH. destruct (split_lines [] a) as [l1 t1]. destruct (split_lines t1 b); reflexivity.
    + apply IH.
Qed.

Lemma split_lines_tail_nonl l : forall cur, no_nl cur -> no_nl (snd (split_lines cur l)).
Proof.
  induction l as [|c l IH]; intros cur H; cbn [split_lines].
  - exact H.
  - destruct (c =? NL) eqn:E.
    + specialize (IH [] eq_refl). destruct (split_lines [] l); exact IH.
    + apply IH. apply no_nl_app; [exact H|]. unfold no_nl. cbn [forallb]. rewrite E. reflexivity.
Qed.

Lemma split_lines_lines_nonl l : forall cur, no_nl cur -> Forall no_nl (fst (split_lines cur l)).
Proof.
  induction l as [|c l IH]; intros cur H; cbn [split_lines].
  - constructor.
  - destruct (c =? NL) eqn:E.
    + specialize (IH [] eq_refl). destruct (split_lines [] l); cbn [fst] in *. constructor; assumption.
    + apply IH. apply no_nl_app; [exact H|]. unfold no_nl. cbn [forallb]. rewrite E. reflexivity.
Qed.

Lemma upto_done_nodone l : existsb is_done l = false -> upto_done l = l.
Proof.
  induction l as [|e l IH]; cbn [existsb upto_done]; [reflexivity|].
  intros H. apply orb_false_iff in H. destruct H as [H1 H2]. rewrite H1, IH by exact H2. reflexivity.
Qed.
Lemma upto_done_app_done a b : existsb is_done a = true -> upto_done (a ++ b) = upto_done a.
Proof.
  induction a as [|e a IH]; cbn [existsb upto_done app]; [discriminate|].
  destruct (is_done e); [reflexivity|]. cbn [orb]. intros H. rewrite IH by exact H. reflexivity.
Qed.
Lemma upto_done_app_nodone a b : existsb is_done a = false -> upto_done (a ++ b) = a ++ upto_done b.
Proof.
  induction a as [|e a IH]; cbn [existsb upto_done app]; [reflexivity|].
  intros H. apply orb_false_iff in H. destruct H as [H1 H2]. rewrite H1, IH by exact H2. reflexivity.
Qed.
Lemma upto_done_idem l : upto_done (upto_done l) = upto_done l.
Proof.
  induction l as [|e l IH]; cbn [upto_done]; [reflexivity|].
  destruct (is_done e) eqn:E; cbn [upto_done]; rewrite E; [reflexivity|]. rewrite IH. reflexivity.
Qed.

Definition nfr (evs : list pev) : N := sumN (map nframes1 evs).
Lemma nfr_app a b : nfr (a ++ b) = nfr a + nfr b.
Proof. unfold nfr. rewrite map_app, sumN_app. reflexivity. Qed.

Lemma frames_from_app a : forall s b, frames_from s (a ++ b) = frames_from s a ++ frames_from (s + nfr a) b.
Proof.
  induction a as [|e a IH]; intros s b; cbn [app frames_from].
  - unfold nfr. cbn [map sumN]. rewrite N.add_0_r. reflexivity.
  - rewrite IH, <- app_assoc. unfold nfr. cbn [map sumN]. fold (nfr a). rewrite N.add_assoc. reflexivity.
Qed.

Lemma frames_from_length s evs : nlen (frames_from s evs) = nfr evs.
Proof.
  revert s. induction evs as [|e r IH]; intros s; [reflexivity|].
  cbn [frames_from]. unfold nlen in *. rewrite app_length, Nat2N.inj_add, IH.
  unfold nfr. cbn [map sumN]. f_equal. unfold ev_frames, nframes1. destruct (pe_delta e); reflexivity.
Qed.

Lemma drop_while_len f l : (length (drop_while f l) <= length l)%nat.
Proof. induction l as [|x l IH]; cbn [drop_while length]; [lia|]. destruct (f x); cbn [length]; lia. Qed.

Lemma trim_end_cr_last l c : (c =? 13) = false -> trim_end_cr (l ++ [c]) = l ++ [c].
Proof. intros H. unfold trim_end_cr. rewrite rev_app_distr. cbn [rev app drop_while]. rewrite H. cbn [rev]. rewrite rev_involutive. reflexivity. Qed.

Lemma trim_end_cr_fixed_app a v : trim_end_cr v = v -> v <> [] -> trim_end_cr (a ++ v) = a ++ v.
Proof.
  intros H Hne. destruct (exists_last Hne) as (v' & c & ->).
  assert ((c =? 13) = false) as Hc.
  { destruct (c =? 13) eqn:E; [|reflexivity]. exfalso. unfold trim_end_cr in H.
    rewrite rev_app_distr in H. cbn [rev app drop_while] in H. rewrite E in H.
    apply (f_equal (@length N)) in H. rewrite rev_length, app_length in H. cbn [length] in H.
    pose proof (drop_while_len (fun c => c =? 13) (rev v')) as L. rewrite rev_length in L. lia. }
  rewrite app_assoc. apply trim_end_cr_last. exact Hc.
Qed.

Section Proofs.
Variable classify : option str -> str -> cls.
Variable off : N.

Notation dpush := (dec_push classify).
Notation flines := (fold_lines classify).

Lemma fold_lines_app l1 : forall s l2,
  flines s (l1 ++ l2) =
  let '(s1, e1) := flines s l1 in let '(s2, e2) := flines s1 l2 in (s2, e1 ++ e2).
Proof.
  induction l1 as [|l l1 IH]; intros s l2; cbn [app fold_lines].
  - destruct (flines s l2); reflexivity.
  - destruct (line_step classify s l) as [s1 e1]. rewrite IH.
    destruct (flines s1 l1) as [s2 e2]. destruct (flines s2 l2) as [s3 e3].
    rewrite app_assoc. reflexivity.
Qed.

Lemma dec_push_buf_nonl d a : no_nl (d_buf (fst (dpush d a))).
Proof.
  unfold dec_push. pose proof (split_lines_tail_nonl (d_buf d ++ a) [] eq_refl) as H.
  destruct (split_lines [] (d_buf d ++ a)) as [ls t]. destruct (flines (d_event d, d_data d) ls). exact H.
Qed.

(* the state after pushing a then b is the state after pushing a ++ b, and the events concatenate *)
Lemma dec_push_app d a b : no_nl (d_buf d) ->
  dpush d (a ++ b) = let '(d1, e1) := dpush d a in let '(d2, e2) := dpush d1 b in (d2, e1 ++ e2).
Proof.
  intros Hd. unfold dec_push. rewrite app_assoc, split_lines_app.
  pose proof (split_lines_tail_nonl (d_buf d ++ a) [] eq_refl) as Ht.
  destruct (split_lines [] (d_buf d ++ a)) as [l1 t1]. cbn [snd] in Ht.
  destruct (flines (d_event d, d_data d) l1) as [s1 e1] eqn:F1. cbn [d_buf d_event d_data].
  rewrite (split_lines_nonl t1 [] b Ht). cbn [app].
  destruct (split_lines t1 b) as [l2 t2]. rewrite fold_lines_app, F1.
  destruct s1 as [ev dt]. cbn [fst snd]. destruct (flines (ev, dt) l2) as [s2 e2]. reflexivity.
Qed.

Lemma dec_push_nil d : no_nl (d_buf d) -> dpush d [] = (d, []).
Proof.
  intros H. unfold dec_push. rewrite app_nil_r.
  pose proof (split_lines_nonl (d_buf d) [] [] H) as E. rewrite app_nil_r in E. rewrite E. cbn [app split_lines fold_lines fst snd].
  destruct d; reflexivity.
Qed.

Lemma dec_pushes_concat cs : forall d, no_nl (d_buf d) -> dec_pushes classify d cs = dpush d (concat cs).
Proof.
  induction cs as [|c cs IH]; intros d H; cbn [dec_pushes concat].
  - rewrite dec_push_nil by exact H. reflexivity.
  - rewrite dec_push_app by exact H. pose proof (dec_push_buf_nonl d c) as H1.
    destruct (dpush d c) as [d1 e1]. rewrite IH by exact H1. reflexivity.
Qed.

(* library-level chunking invariance (SseDecoder alone) *)
Lemma run_dec_concat cs1 cs2 : concat cs1 = concat cs2 -> run_dec classify cs1 = run_dec classify cs2.
Proof. intros H. unfold run_dec. rewrite !dec_pushes_concat by reflexivity. rewrite H. reflexivity. Qed.

(* ---------- the pipe ---------- *)
Definition WF (p : pipe) (E : list pev) : Prop := p_out p = frames_from off E /\ p_mseq p = nfr E.
Definition Pre (p : pipe) (E : list pev) : Prop := no_nl (d_buf (p_dec p)) /\ WF p E.

Lemma emit_evs_WF evs : forall p E, WF p E -> WF (emit_evs off p evs) (E ++ evs) /\ p_dec (emit_evs off p evs) = p_dec p.
Proof.
  induction evs as [|e r IH]; intros p E [Ho Hm]; cbn [emit_evs fold_left].
  - rewrite app_nil_r. split; [split; assumption|reflexivity].
  - fold (emit_evs off (emit_ev off p e) r).
    destruct (IH (emit_ev off p e) (E ++ [e])) as [W D].
    { split; cbn [emit_ev p_out p_mseq].
      - rewrite frames_from_app, Ho, Hm. cbn [frames_from]. rewrite app_nil_r. reflexivity.
      - rewrite nfr_app, Hm. unfold nfr. cbn [map sumN]. lia. }
    rewrite <- app_assoc in W. split; [exact W|]. rewrite D. reflexivity.
Qed.

(* what a run of pushes must have achieved once the text t has been handed to the decoder *)
Definition spec (p : pipe) (E : list pev) (t : str) (p' : pipe) (done : bool) : Prop :=
  done = existsb is_done (snd (dpush (p_dec p) t))
  /\ WF p' (E ++ upto_done (snd (dpush (p_dec p) t)))
  /\ (done = false -> p_dec p' = fst (dpush (p_dec p) t))
  /\ no_nl (d_buf (p_dec p')).

Notation push_str := (push_sse_str classify FIXED off).

Lemma spec_push p E s : Pre p E -> spec p E s (fst (push_str p s)) (snd (push_str p s)).
Proof.
  intros [Hn Hw]. unfold spec, push_sse_str. cbn [fx_cut FIXED].
  pose proof (dec_push_buf_nonl (p_dec p) s) as Hb.
  destruct (dpush (p_dec p) s) as [d parsed]. cbn [fst snd] in *.
  destruct (emit_evs_WF (upto_done parsed) (with_dec p d) E) as [W D].
  { destruct Hw as [Ho Hm]. split; assumption. }
  repeat split; try apply W.
  - intros _. rewrite D. reflexivity.
  - rewrite D. exact Hb.
Qed.

Lemma spec_nil p E : Pre p E -> spec p E [] p false.
Proof.
  intros [Hn Hw]. unfold spec. rewrite dec_push_nil by exact Hn. cbn [fst snd existsb upto_done].
  rewrite app_nil_r. repeat split; try apply Hw; auto.
Qed.

Lemma spec_seq_done p E s t2 p1 : Pre p E -> spec p E s p1 true -> spec p E (s ++ t2) p1 true.
Proof.
  intros [Hn Hw] (Hd & W & _ & Hb). unfold spec. rewrite dec_push_app by exact Hn.
  destruct (dpush (p_dec p) s) as [d1 e1]. cbn [fst snd] in *.
  destruct (dpush d1 t2) as [d2 e2]. cbn [fst snd].
  rewrite existsb_app, <- Hd. rewrite upto_done_app_done by (symmetry; exact Hd).
  repeat split; try apply W; try assumption. discriminate.
Qed.

Lemma spec_seq_cont p E s t2 p1 : Pre p E -> spec p E s p1 false ->
  exists E1, Pre p1 E1 /\ forall p2 d2, spec p1 E1 t2 p2 d2 -> spec p E (s ++ t2) p2 d2.
Proof.
  intros [Hn Hw] (Hd & W & Hdec & Hb).
  exists (E ++ snd (dpush (p_dec p) s)). symmetry in Hd.
  rewrite (upto_done_nodone _ Hd) in W. split; [split; assumption|].
  intros p2 d2 (Hd2 & W2 & Hdec2 & Hb2). unfold spec. rewrite dec_push_app by exact Hn.
  specialize (Hdec eq_refl). rewrite Hdec in *.
  destruct (dpush (p_dec p) s) as [d1 e1]. cbn [fst snd] in *.
  destruct (dpush d1 t2) as [d2' e2]. cbn [fst snd] in *.
  rewrite existsb_app, Hd. cbn [orb]. rewrite upto_done_app_nodone by exact Hd.
  rewrite app_assoc. repeat split; try apply W2; assumption.
Qed.

Notation pbl := (pb_loop classify FIXED off).

Lemma pb_loop_spec fuel : forall buf p E, (length buf < fuel)%nat -> Pre p E ->
  spec p E (fst (lossyF buf)) (snd (fst (pbl fuel buf p))) (snd (pbl fuel buf p))
  /\ (snd (pbl fuel buf p) = false -> fst (fst (pbl fuel buf p)) = snd (lossyF buf)).
Proof.
  induction fuel as [|fuel IH]; intros buf p E Hf HP; [lia|].
  cbn [pb_loop]. pose proof (scanF_spec buf) as S. destruct (from_utf8 buf) as [text|text valid rest elen].
  - (* Ok *)
    rewrite S. cbn [fst snd]. pose proof (spec_push p E text HP) as SP.
    destruct (push_str p text) as [p1 d1]. cbn [fst snd] in *. split; [exact SP|reflexivity].
  - destruct S as (Hr & Hv & Hz & Hs & Hl). rewrite Hl. cbn [fst snd].
    destruct valid as [|v].
    + (* valid_up_to = 0 *)
      assert (text = []) as -> by (apply Hz; reflexivity). cbn [skipn] in Hr. subst rest. cbn [app].
      destruct elen as [k|].
      * pose proof (step_invalid_len _ _ Hs) as L.
        rewrite (lossyF_unfold buf), Hs. cbn [fx_drain0 FIXED].
        replace (Nat.min k (length buf)) with k by lia.
        pose proof (spec_push p E [FFFD] HP) as SP.
        destruct (push_str p [FFFD]) as [p1 d1]. cbn [fst snd] in SP.
        specialize (IH (skipn k buf)). rewrite skipn_length in IH.
        destruct (lossyF (skipn k buf)) as [t' r'] eqn:LK. cbn [fst snd] in *.
        change (FFFD :: t') with ([FFFD] ++ t').
        destruct d1.
        -- cbn [fst snd]. split; [apply spec_seq_done; assumption|discriminate].
        -- destruct (spec_seq_cont p E [FFFD] t' p1 HP SP) as (E1 & HP1 & K).
           destruct (IH p1 E1 ltac:(lia) HP1) as [I1 I2]. split; [apply K; exact I1|exact I2].
      * rewrite (lossyF_unfold buf), Hs. cbn [fst snd]. split; [apply spec_nil; exact HP|reflexivity].
    + (* valid_up_to > 0 *)
      pose proof (spec_push p E text HP) as SP.
      destruct (push_str p text) as [p1 d1]. cbn [fst snd] in SP.
      destruct d1.
      * cbn [fst snd]. split; [apply spec_seq_done; assumption|discriminate].
      * destruct (spec_seq_cont p E text (fst (lossyF rest)) p1 HP SP) as (E1 & HP1 & K).
        destruct elen as [k|].
        -- pose proof (step_invalid_len _ _ Hs) as L.
           replace (Nat.min k (length rest)) with k by lia.
           pose proof (spec_push p1 E1 [FFFD] HP1) as SP2.
           destruct (push_str p1 [FFFD]) as [p2 d2]. cbn [fst snd] in SP2.
           specialize (IH (skipn k rest)). rewrite skipn_length in IH.
           assert (length rest <= length buf)%nat as LR by (rewrite Hr, skipn_length; lia).
           rewrite (lossyF_unfold rest), Hs in K |- *.
           destruct (lossyF (skipn k rest)) as [t' r'] eqn:LK. cbn [fst snd] in *.
           change (FFFD :: t') with ([FFFD] ++ t') in K.
           destruct d2.
           ++ cbn [fst snd]. split; [apply K; apply spec_seq_done; assumption|discriminate].
           ++ destruct (spec_seq_cont p1 E1 [FFFD] t' p2 HP1 SP2) as (E2 & HP2 & K2).
              destruct (IH p2 E2 ltac:(lia) HP2) as [I1 I2]. split; [apply K, K2; exact I1|exact I2].
        -- rewrite (lossyF_unfold rest), Hs in K |- *. cbn [fst snd] in *.
           split; [apply K; apply spec_nil; exact HP1|reflexivity].
Qed.

Notation pushb := (push_bytes classify FIXED off).
Notation runc := (run_chunks classify FIXED off).

Lemma run_chunks_spec cs : forall buf p E, Pre p E -> lossyF buf = ([], buf) ->
  spec p E (fst (lossyF (buf ++ concat cs))) (snd (fst (runc buf p cs))) (snd (runc buf p cs))
  /\ (snd (runc buf p cs) = false -> fst (fst (runc buf p cs)) = snd (lossyF (buf ++ concat cs))).
Proof.
  induction cs as [|c cs IH]; intros buf p E HP Hc; cbn [run_chunks concat].
  - rewrite app_nil_r, Hc. cbn [fst snd]. split; [apply spec_nil; exact HP|reflexivity].
  - unfold push_bytes. destruct (pb_loop_spec (S (length (buf ++ c))) (buf ++ c) p E ltac:(lia) HP) as [P1 P2].
    destruct (pbl (S (length (buf ++ c))) (buf ++ c) p) as [[buf1 p1] d1]. cbn [fst snd] in P1, P2.
    rewrite app_assoc, lossyF_app.
    destruct (lossyF (buf ++ c)) as [t1 r1] eqn:L1. cbn [fst snd] in *.
    destruct d1.
    + cbn [fst snd]. destruct (lossyF (r1 ++ concat cs)) as [t2 r2]. cbn [fst snd].
      split; [apply spec_seq_done; assumption|discriminate].
    + specialize (P2 eq_refl). subst buf1.
      destruct (spec_seq_cont p E t1 (fst (lossyF (r1 ++ concat cs))) p1 HP P1) as (E1 & HP1 & K).
      assert (lossyF r1 = ([], r1)) as Hc1.
      { pose proof (lossyF_rest_idem (buf ++ c)) as I. rewrite L1 in I. exact I. }
      destruct (IH r1 p1 E1 HP1 Hc1) as [I1 I2].
      destruct (lossyF (r1 ++ concat cs)) as [t2 r2]. cbn [fst snd] in *.
      split; [apply K; exact I1|exact I2].
Qed.

(* events of the whole text = events of one push + events of finish() on the pending tail *)
Lemma events_spec_split text :
  events_spec classify text =
  snd (dpush dinit text) ++ snd (dec_finish classify (fst (dpush dinit text))).
Proof.
  unfold events_spec, all_lines, dec_push, dec_finish. cbn [dinit d_buf d_event d_data app].
  pose proof (split_lines_tail_nonl text [] eq_refl) as Ht.
  destruct (split_lines [] text) as [ls t]. cbn [snd] in Ht.
  destruct (flines (None, []) ls) as [s e] eqn:F. cbn [fst snd d_buf d_event d_data].
  destruct t as [|c t].
  - rewrite F. cbn [snd]. rewrite app_nil_r. reflexivity.
  - unfold dec_push. cbn [d_buf d_event d_data]. rewrite fold_lines_app, F.
    change ([] ++ c :: t ++ [NL]) with ((c :: t) ++ [NL]).
    rewrite (split_lines_nonl (c :: t) [] [NL] Ht). cbn [app split_lines].
    replace (NL =? NL) with true by reflexivity.
    rewrite <- (surjective_pairing s). unfold str, lstate in *. destruct (flines s [c :: t]) as [s2 e2]. reflexivity.
Qed.

(* ---------- the main theorem ---------- *)
Theorem frames_of_whole cs :
  frames_of classify FIXED off cs = frames_whole classify off (concat cs).
Proof.
  unfold frames_of, run_pipe, frames_whole.
  assert (Pre pipe_new []) as HP by (repeat split).
  destruct (run_chunks_spec cs [] pipe_new [] HP eq_refl) as [P1 P2]. cbn [app] in P1, P2.
  destruct (runc [] pipe_new cs) as [[buf p] d]. cbn [fst snd] in P1, P2.
  unfold lossy_text. fold (lossyF (concat cs)). set (text := fst (lossyF (concat cs))) in *.
  rewrite events_spec_split. destruct P1 as (Hd & [Ho Hm] & Hdec & Hb). cbn [pipe_new p_dec app] in *.
  destruct d.
  - cbn [fst]. rewrite Ho. rewrite upto_done_app_done by (symmetry; exact Hd). reflexivity.
  - symmetry in Hd. rewrite (upto_done_nodone _ Hd) in Ho, Hm. specialize (Hdec eq_refl).
    unfold pipe_finish. cbn [fx_cut FIXED]. rewrite Hdec.
    destruct (dec_finish classify (fst (dpush dinit text))) as [d2 e2]. cbn [fst snd].
    destruct (emit_evs_WF (upto_done e2) (with_dec p d2) (snd (dpush dinit text))) as [[W _] _].
    { split; assumption. }
    rewrite W, upto_done_app_nodone by exact Hd. reflexivity.
Qed.

Theorem chunk_invariant body cs1 cs2 :
  concat cs1 = body -> concat cs2 = body ->
  frames_of classify FIXED off cs1 = frames_of classify FIXED off cs2.
Proof. intros H1 H2. rewrite !frames_of_whole. rewrite H1, H2. reflexivity. Qed.

(* ---------- shape of the frame list ---------- *)
Fixpoint iotaN (s : N) (n : nat) : list N := match n with O => [] | S k => s :: iotaN (s + 1) k end.

Lemma iotaN_app a : forall s b, iotaN s (a + b) = iotaN s a ++ iotaN (s + N.of_nat a) b.
Proof.
  induction a as [|a IH]; intros s b.
  - cbn. rewrite N.add_0_r. reflexivity.
  - cbn [Nat.add iotaN app]. rewrite IH. do 3 f_equal. lia.
Qed.

Lemma frames_from_seqs evs : forall s, map fseq (frames_from s evs) = iotaN s (length (frames_from s evs)).
Proof.
  induction evs as [|e r IH]; intros s; [reflexivity|].
  cbn [frames_from]. rewrite map_app, app_length, iotaN_app, IH. f_equal.
  - unfold ev_frames, prov_frame. destruct (pe_delta e); destruct (pe_kind e =? 2); reflexivity.
  - f_equal. unfold ev_frames, nframes1. destruct (pe_delta e); reflexivity.
Qed.

(* frames are numbered off, off+1, ... without a gap *)
Theorem seq_contiguous cs :
  map fseq (frames_of classify FIXED off cs) = iotaN off (length (frames_of classify FIXED off cs)).
Proof. rewrite frames_of_whole. apply frames_from_seqs. Qed.

(* ... also when the stream ends with a transport error: the error frame takes the next number *)
Theorem seq_contiguous_transport_error cs h :
  let fs := fst (run_pipe classify FIXED off cs (Some h)) in
  map fseq fs = iotaN off (length fs) /\ snd (run_pipe classify FIXED off cs (Some h)) = off + nlen fs.
Proof.
  unfold run_pipe.
  assert (Pre pipe_new []) as HP by (repeat split).
  destruct (run_chunks_spec cs [] pipe_new [] HP eq_refl) as [P1 _]. cbn [app] in P1.
  destruct (runc [] pipe_new cs) as [[buf p] d]. cbn [fst snd] in P1.
  destruct P1 as (_ & [Ho Hm] & _ & _).
  match type of Ho with _ = frames_from _ ?X => remember X as E eqn:HE end. clear HE.
  pose proof (frames_from_length off E) as L. unfold nlen in L.
  destruct d; cbn [fst snd].
  - rewrite Ho, Hm. unfold nlen. rewrite L. split; [apply frames_from_seqs|reflexivity].
  - rewrite map_app, app_length, iotaN_app. unfold transport_error_frame. cbn [map fseq length iotaN].
    unfold nlen. rewrite app_length, Nat2N.inj_add. cbn [length].
    rewrite Ho, frames_from_seqs, L, Hm. split; [reflexivity|lia].
Qed.

(* exactly one provider-event frame per event, in order, carrying the event's payload *)
Definition strip_seq (f : frame) : frame :=
  match f with FProv _ st ev raw data e r => FProv 0 st ev raw data e r | FDelta _ d => FDelta 0 d end.
Lemma prov_frames_from evs : forall s,
  map strip_seq (filter is_prov (frames_from s evs)) = map (prov_frame 0) evs.
Proof.
  induction evs as [|e r IH]; intros s; [reflexivity|].
  cbn [frames_from map]. rewrite filter_app, map_app, IH. f_equal.
  unfold ev_frames, prov_frame. destruct (pe_delta e); destruct (pe_kind e =? 2); reflexivity.
Qed.
Theorem one_frame_per_event cs :
  map strip_seq (filter is_prov (frames_of classify FIXED off cs))
  = map (prov_frame 0) (upto_done (events_spec classify (lossy_text (concat cs)))).
Proof. rewrite frames_of_whole. apply prov_frames_from. Qed.

Definition delta_of (e : pev) : str := match pe_delta e with Some d => d | None => [] end.
Lemma output_text_from evs : forall s, output_text (frames_from s evs) = concat (map delta_of evs).
Proof.
  induction evs as [|e r IH]; intros s; [reflexivity|].
  cbn [frames_from map concat]. unfold ev_frames, delta_of, prov_frame.
  destruct (pe_delta e); destruct (pe_kind e =? 2); cbn [app output_text]; rewrite IH; reflexivity.
Qed.
(* the derived output text is the concatenation of the events' text deltas *)
Theorem text_is_concat_of_deltas cs :
  output_text (frames_of classify FIXED off cs)
  = concat (map delta_of (upto_done (events_spec classify (lossy_text (concat cs))))).
Proof. rewrite frames_of_whole. apply output_text_from. Qed.

(* the payload of an event is the '\n'-join of its data lines, untouched: a data-only block *)
Lemma event_payload_is_joined_data (vals : list str) (ev : option str) :
  vals <> [] -> Forall (fun v => trim_start v = v /\ trim_end_cr v = v /\ no_nl v) vals ->
  snd (flines (ev, []) (map (fun v => S_DATA ++ 32 :: v) vals ++ [[]]))
  = [parse_event classify ev (join_nl vals)].
Proof.
  intros Hne HF.
  assert (G: forall acc, snd (flines (ev, acc) (map (fun v => S_DATA ++ 32 :: v) vals ++ [[]]))
             = match acc ++ vals with [] => [] | l => [parse_event classify ev (join_nl l)] end).
  { clear Hne. induction HF as [|v r [Hv1 [Hv2 Hv3]] HF IH]; intros acc.
    - cbn [map app fold_lines line_step]. rewrite app_nil_r.
      change (trim_end_cr []) with (@nil N). cbn [strip_prefix S_EVENT S_DATA snd fst].
      destruct acc; reflexivity.
    - cbn [map app fold_lines].
      assert (LS: line_step classify (ev, acc) (S_DATA ++ 32 :: v) = ((ev, acc ++ [v]), [])).
      { unfold line_step.
        assert (T: trim_end_cr (S_DATA ++ 32 :: v) = S_DATA ++ 32 :: v).
        { destruct v as [|v0 v'].
          - reflexivity.
          - change (S_DATA ++ 32 :: v0 :: v') with ((S_DATA ++ [32]) ++ v0 :: v').
            apply trim_end_cr_fixed_app; [exact Hv2|discriminate]. }
        rewrite T. cbn [S_EVENT S_DATA app strip_prefix].
        change (101 =? 100) with false. cbv iota.
        change (100 =? 100) with true. change (97 =? 97) with true. change (116 =? 116) with true. change (58 =? 58) with true.
        cbv iota. cbn [fst snd]. unfold trim_start in *. cbn [drop_while]. change (is_ws 32) with true. cbv iota.
        rewrite Hv1. reflexivity. }
      rewrite LS. specialize (IH (acc ++ [v])).
      destruct (flines (ev, acc ++ [v]) (map (fun v0 => S_DATA ++ 32 :: v0) r ++ [[]])) as [s2 e2].
      cbn [snd app] in *. rewrite IH, <- app_assoc. reflexivity. }
  rewrite (G []). cbn [app]. destruct vals; [congruence|reflexivity].
Qed.

End Proofs.

(* ---------- S11: the code before the repairs is not chunking invariant ---------- *)
Definition cls0 : option str -> str -> cls := fun _ _ => CInvalid [].
(* "data: x" E2 82 "A\n\n" : the truncated 3-byte sequence E2 82 followed by 'A' *)
Definition s11_body : list N := [100; 97; 116; 97; 58; 32; 120; 226; 130; 65; 10; 10].
Definition s11_split : list (list N) := [[100; 97; 116; 97; 58; 32; 120]; [226; 130; 65; 10; 10]].

Lemma ffd_at_buffer_start_refuted :
  exists cs1 cs2, concat cs1 = concat cs2 /\ frames_of cls0 UNFIXED 0 cs1 <> frames_of cls0 UNFIXED 0 cs2.
Proof. exists [s11_body], s11_split. split; [reflexivity|]. vm_compute. discriminate. Qed.

(* "data: [DONE]\n\ndata: x\n\n" in one chunk / in two chunks cut after the blank line *)
Definition s11_done : list N := [100; 97; 116; 97; 58; 32; 91; 68; 79; 78; 69; 93; 10; 10].
Definition s11_after : list N := [100; 97; 116; 97; 58; 32; 120; 10; 10].
Lemma after_done_refuted :
  exists cs1 cs2, concat cs1 = concat cs2 /\ frames_of cls0 UNFIXED 0 cs1 <> frames_of cls0 UNFIXED 0 cs2.
Proof. exists [s11_done ++ s11_after], [s11_done; s11_after]. split; [reflexivity|]. vm_compute. discriminate. Qed.

(* each repair alone is not enough *)
Lemma drain_only_refuted :
  exists cs1 cs2, concat cs1 = concat cs2 /\
    frames_of cls0 {| fx_drain0 := true; fx_cut := false |} 0 cs1 <> frames_of cls0 {| fx_drain0 := true; fx_cut := false |} 0 cs2.
Proof. exists [s11_done ++ s11_after], [s11_done; s11_after]. split; [reflexivity|]. vm_compute. discriminate. Qed.
Lemma cut_only_refuted :
  exists cs1 cs2, concat cs1 = concat cs2 /\
    frames_of cls0 {| fx_drain0 := false; fx_cut := true |} 0 cs1 <> frames_of cls0 {| fx_drain0 := false; fx_cut := true |} 0 cs2.
Proof. exists [s11_body], s11_split. split; [reflexivity|]. vm_compute. discriminate. Qed.

(* non-vacuity: a body with CRLF, a comment, an event name, multi-line data, a 3-byte character cut
   by the chunking, an invalid byte, [DONE] and trailing garbage gives the same 3 frames *)
Definition demo_cls : option str -> str -> cls :=
  fun ev raw => match raw with 123 :: _ => CEvent (JNum [55]) [] [] (Some [104; 105]) | _ => CInvalid [[57]] end.
(* ": c\r\nevent: e\r\ndata: {\r\ndata: \xE2\x82\xAC\xFF\r\n\r\ndata: [DONE]\n\ndata: z\n\n" *)
Definition demo_body : list N :=
  [58; 32; 99; 13; 10] ++ [101; 118; 101; 110; 116; 58; 32; 101; 13; 10] ++ [100; 97; 116; 97; 58; 32; 123; 13; 10]
  ++ [100; 97; 116; 97; 58; 32; 226; 130; 172; 255; 13; 10; 13; 10]
  ++ [100; 97; 116; 97; 58; 32; 91; 68; 79; 78; 69; 93; 10; 10] ++ [100; 97; 116; 97; 58; 32; 122; 10; 10].
Definition demo_expected : list frame :=
  [FProv 5 2 (Some [101]) None (Some (JNum [55])) [] []; FDelta 6 [104; 105]; FProv 7 0 None (Some S_DONE) None [] []].
Lemma demo_nontrivial :
  frames_whole demo_cls 5 demo_body = demo_expected
  /\ frames_of demo_cls FIXED 5 (map (fun b => [b]) demo_body) = demo_expected
  /\ frames_of demo_cls FIXED 5 [firstn 32 demo_body; skipn 32 demo_body] = demo_expected
  /\ events_spec demo_cls (lossy_text demo_body) <> upto_done (events_spec demo_cls (lossy_text demo_body)).
Proof. vm_compute. repeat split; discriminate. Qed.
