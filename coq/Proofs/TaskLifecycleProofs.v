(* C17 — proofs about Model/TaskLifecycle.v: every schedule of the waiter, the two pumps, the child and
   cancel requests produces a frame sequence of the language
     Spawned · Running? · Delta* · (CancelReq · Delta* · Cancelled)? · Status      (or the single frame
   `Status failed` of a pre-spawn failure), and nothing is emitted after the terminal frame. *)
From RipV Require Import Base.Prelude Model.TaskLifecycle.

Lemma recognise_snoc t e : recognise (t ++ [e]) = rstep (recognise t) e.
Proof. unfold recognise. rewrite fold_left_app. reflexivity. Qed.

Lemma trace_cons s e :
  recognise (rev (e :: s)) = rstep (recognise (rev s)) e.
Proof. cbn [rev]. apply recognise_snoc. Qed.

Definition pump_quiet (p : ppc) : Prop := p <> PRun.
Definition pump_started (p : ppc) : Prop := p <> PIdle.

(* what the waiter's program counter knows about the frames emitted so far and about the pumps *)
Definition Inv (s : sys) : Prop :=
  let r := recognise (rev (s_trace s)) in
  match s_main s with
  | MStart => s_trace s = [] /\ s_p0 s = PIdle /\ s_p1 s = PIdle
  | MSpawnedPc => r = RSpawned /\ s_p0 s = PIdle /\ s_p1 s = PIdle
  | MSelect => r = RRunning /\ pump_started (s_p0 s) /\ pump_started (s_p1 s)
  | MKillWait => r = RCancelReq /\ pump_started (s_p0 s) /\ pump_started (s_p1 s)
  | MJoin c _ => r = (if c then RCancelReq else RRunning) /\ pump_started (s_p0 s) /\ pump_started (s_p1 s)
  | MCancelEmit _ => r = RCancelReq /\ s_p0 s = PDone /\ s_p1 s = PDone
  | MFinal st =>
    s_p0 s = PDone /\ s_p1 s = PDone
    /\ ((r = RRunning /\ (st = 2 \/ st = 4)) \/ (r = RCancelled /\ (st = 3 \/ st = 4)))
  | MEnd =>
    pump_quiet (s_p0 s) /\ pump_quiet (s_p1 s) /\ exists st, r = RDone st
  end.

Lemma inv0 : Inv sys0.
Proof. cbn. auto. Qed.

Ltac prep :=
  repeat match goal with
  | H : _ /\ _ |- _ => destruct H
  | H : _ \/ _ |- _ => destruct H
  | H : exists _, _ |- _ => destruct H
  | H : Some _ = Some _ |- _ => inversion H; subst; clear H
  | H : None = Some _ |- _ => discriminate H
  end;
  cbn [s_main s_p0 s_p1 s_child_exited s_cancel_flag s_trace] in *; subst.

Ltac fin :=
  try rewrite trace_cons;
  try match goal with H : recognise _ = _ |- _ => rewrite H end;
  try solve [ reflexivity | assumption | discriminate | congruence
            | unfold pump_quiet, pump_started in *; congruence
            | eexists; reflexivity | left; eexists; reflexivity | right; reflexivity
            | left; split; [reflexivity| auto] | right; split; [reflexivity|auto]
            | eauto
            | repeat match goal with |- context [if ?c then _ else _] => destruct c end; reflexivity ].

Ltac crush := prep; repeat split; fin.

Lemma inv_step s a s' : Inv s -> step s a = Some s' -> Inv s'.
Proof.
  destruct s as [m p0 p1 ex fl tr]. unfold Inv, step, emit, set_main, set_pump, pump_of.
  cbn [s_main s_p0 s_p1 s_child_exited s_cancel_flag s_trace].
  intros HI HS.
  destruct a as [| | | |i|i|i| | |ok| |ok| | |].
  - destruct m; try discriminate; crush.
  - destruct m; try discriminate; crush.
  - destruct m; try discriminate; crush.
  - destruct m; try discriminate; crush.
  - (* APumpEmit *)
    destruct (i =? 0) eqn:Ei.
    + destruct p0; try discriminate. destruct m; crush;
        try solve [exfalso; unfold pump_quiet in *; congruence].
    + destruct p1; try discriminate. destruct m; crush;
        try solve [exfalso; unfold pump_quiet in *; congruence].
  - destruct (i =? 0) eqn:Ei.
    + destruct p0; try discriminate. destruct m; crush.
    + destruct p1; try discriminate. destruct m; crush.
  - destruct (i =? 0) eqn:Ei.
    + destruct p0; try discriminate. destruct m; crush.
    + destruct p1; try discriminate. destruct m; crush.
  - destruct m; try discriminate; crush.
  - crush.
  - destruct m; try discriminate. destruct (ex || negb ok); try discriminate. crush.
  - destruct m; try discriminate. destruct fl; try discriminate. crush.
  - destruct m; try discriminate. destruct (ex || negb ok); try discriminate. crush.
  - destruct m as [| | | |c ok| | |]; try discriminate. destruct p0; try discriminate. destruct p1; try discriminate.
    destruct c, ok; crush.
  - destruct m as [| | | | |ok| |]; try discriminate. destruct ok; crush.
  - destruct m as [| | | | | |st|]; try discriminate. crush.
Qed.

Lemma inv_step_skip s a : Inv s -> Inv (step_skip s a).
Proof.
  intros H. unfold step_skip. destruct (step s a) as [s'|] eqn:E; [eapply inv_step; eauto|exact H].
Qed.

Lemma inv_fold sched : forall s, Inv s -> Inv (fold_left step_skip sched s).
Proof. induction sched as [|a r IH]; intros s H; cbn [fold_left]; [exact H|apply IH, inv_step_skip, H]. Qed.

Lemma inv_run sched : Inv (run sched).
Proof. apply inv_fold, inv0. Qed.

(* ---- nothing after the terminal frame ---- *)
Lemma end_is_quiet s a : Inv s -> s_main s = MEnd -> s_trace (step_skip s a) = s_trace s /\ s_main (step_skip s a) = MEnd.
Proof.
  destruct s as [m p0 p1 ex fl tr]. unfold Inv, step_skip, step, emit, set_main, set_pump, pump_of.
  cbn [s_main s_p0 s_p1 s_child_exited s_cancel_flag s_trace].
  intros HI HM. subst m. destruct HI as (Hq0 & Hq1 & _). unfold pump_quiet in *.
  destruct a as [| | | |i|i|i| | |ok| |ok| | |]; cbn [s_trace s_main]; auto;
    destruct (i =? 0); try (destruct p0; try congruence; cbn [s_trace s_main]; auto; fail);
    destruct p1; try congruence; cbn [s_trace s_main]; auto.
Qed.

Lemma end_is_quiet_fold more : forall s, Inv s -> s_main s = MEnd ->
  s_trace (fold_left step_skip more s) = s_trace s.
Proof.
  induction more as [|a r IH]; intros s HI HM; cbn [fold_left]; [reflexivity|].
  destruct (end_is_quiet s a HI HM) as [Ht Hm]. rewrite IH; auto. apply inv_step_skip, HI.
Qed.

(* ---- the language ---- *)
Theorem lifecycle_language : forall sched : list act,
  let s := run sched in
  let t := trace s in
  r_prefix_ok (recognise t) = true /\ (s_main s = MEnd <-> r_complete (recognise t) = true).
Proof.
  intros sched s t. pose proof (inv_run sched) as HI. fold s in HI. subst t. unfold trace.
  unfold Inv in HI. destruct (s_main s) eqn:Em.
  - destruct HI as (Ht & _). rewrite Ht. cbn. split; [reflexivity|]. split; discriminate.
  - destruct HI as (Hr & _). rewrite Hr. cbn. split; [reflexivity|]. split; discriminate.
  - destruct HI as (Hr & _). rewrite Hr. cbn. split; [reflexivity|]. split; discriminate.
  - destruct HI as (Hr & _). rewrite Hr. cbn. split; [reflexivity|]. split; discriminate.
  - destruct HI as (Hr & _). rewrite Hr. destruct cancelled; cbn; (split; [reflexivity|]); split; discriminate.
  - destruct HI as (Hr & _). rewrite Hr. cbn. split; [reflexivity|]. split; discriminate.
  - destruct HI as (_ & _ & [[Hr _]|[Hr _]]); rewrite Hr; cbn; (split; [reflexivity|]); split; discriminate.
  - destruct HI as (_ & _ & [st Hr]). rewrite Hr. cbn. split; [reflexivity|]. split; reflexivity.
Qed.

Theorem terminal_is_last : forall sched more : list act,
  s_main (run sched) = MEnd -> trace (run (sched ++ more)) = trace (run sched).
Proof.
  intros sched more HM. unfold run, trace. rewrite fold_left_app. f_equal.
  apply end_is_quiet_fold; [apply inv_run|exact HM].
Qed.

(* frames are only ever appended: the trace of a prefix of the schedule is a prefix of the trace *)
Lemma step_extends s a s' : step s a = Some s' -> exists e, s_trace s' = e ++ s_trace s.
Proof.
  destruct s as [m p0 p1 ex fl tr]. unfold step, emit, set_main, set_pump, pump_of.
  cbn [s_main s_p0 s_p1 s_child_exited s_cancel_flag s_trace]. intros H.
  destruct a;
  repeat match type of H with
  | context [match ?x with _ => _ end] => destruct x; try discriminate H
  | context [if ?x then _ else _] => destruct x; try discriminate H
  end; inversion H; cbn [s_trace]; first [exists []; reflexivity | eexists [_]; reflexivity].
Qed.

Lemma step_skip_extends s a : exists e, s_trace (step_skip s a) = e ++ s_trace s.
Proof.
  unfold step_skip. destruct (step s a) as [s'|] eqn:E; [eapply step_extends; eauto|exists []; reflexivity].
Qed.

Theorem trace_monotone : forall sched more : list act,
  exists suffix, trace (run (sched ++ more)) = trace (run sched) ++ suffix.
Proof.
  intros sched more. unfold run, trace. rewrite fold_left_app.
  generalize (fold_left step_skip sched sys0) as s. induction more as [|a r IH]; intros s; cbn [fold_left].
  - exists []. rewrite app_nil_r. reflexivity.
  - destruct (IH (step_skip s a)) as [suf Hs]. destruct (step_skip_extends s a) as [e He].
    rewrite Hs, He, rev_app_distr. exists (rev e ++ suf). rewrite app_assoc. reflexivity.
Qed.

(* ---- the recogniser's language, spelled out: what an accepted sequence looks like ---- *)
Definition is_delta (e : lev) : bool := match e with LDelta _ => true | _ => false end.

Definition shape (r : rst) (t : list lev) : Prop :=
  match r with
  | R0 => t = []
  | RSpawned => t = [LSpawned]
  | RRunning => exists ds, t = LSpawned :: LRunning :: ds /\ forallb is_delta ds = true
  | RCancelReq => exists ds ds', t = LSpawned :: LRunning :: ds ++ LCancelReq :: ds'
                                 /\ forallb is_delta ds = true /\ forallb is_delta ds' = true
  | RCancelled => exists ds ds', t = LSpawned :: LRunning :: ds ++ LCancelReq :: ds' ++ [LCancelled]
                                 /\ forallb is_delta ds = true /\ forallb is_delta ds' = true
  | RDone st =>
    (st = 4 /\ t = [LSpawned; LStatus 4])
    \/ ((st = 2 \/ st = 4) /\ exists ds, t = LSpawned :: LRunning :: ds ++ [LStatus st] /\ forallb is_delta ds = true)
    \/ ((st = 3 \/ st = 4) /\ exists ds ds', t = LSpawned :: LRunning :: ds ++ LCancelReq :: ds' ++ [LCancelled; LStatus st]
                                 /\ forallb is_delta ds = true /\ forallb is_delta ds' = true)
  | RBad => True
  end.

Lemma rstep_status r st :
  rstep r (LStatus st) =
  match r with
  | RSpawned => if st =? 4 then RDone 4 else RBad
  | RRunning => if st =? 2 then RDone 2 else if st =? 4 then RDone 4 else RBad
  | RCancelled => if st =? 3 then RDone 3 else if st =? 4 then RDone 4 else RBad
  | _ => RBad
  end.
Proof.
  destruct r; try reflexivity;
    destruct st as [|[[[]|[]|]|[[]|[]|]|]]; reflexivity.
Qed.

Lemma forallb_snoc {A} (f : A -> bool) l x : forallb f (l ++ [x]) = forallb f l && f x.
Proof. rewrite forallb_app. cbn. rewrite andb_true_r. reflexivity. Qed.

Theorem recognise_shape : forall t : list lev, shape (recognise t) t.
Proof.
  intros t. induction t as [|e t IH] using rev_ind; [reflexivity|].
  rewrite recognise_snoc.
  destruct (recognise t) eqn:Er; cbn [shape] in IH.
  - subst t. destruct e; try exact I; reflexivity.
  - subst t. destruct e; try exact I.
    + cbn. exists []. split; reflexivity.
    + rewrite rstep_status. destruct (N.eqb_spec st 4) as [->|_]; [|exact I]. cbn. left. split; reflexivity.
  - destruct IH as (ds & -> & Hd). destruct e; try exact I.
    + cbn. exists (ds ++ [LDelta stream]). split; [reflexivity|]. rewrite forallb_snoc, Hd. reflexivity.
    + cbn. exists ds, []. repeat split; auto.
    + rewrite rstep_status. destruct (N.eqb_spec st 2) as [->|_].
      * cbn. right. left. split; [left; reflexivity|]. exists ds. split; [reflexivity|exact Hd].
      * destruct (N.eqb_spec st 4) as [->|_]; [|exact I].
        cbn. right. left. split; [right; reflexivity|]. exists ds. split; [reflexivity|exact Hd].
  - destruct IH as (ds & ds' & -> & Hd & Hd'). destruct e; try exact I.
    + cbn. exists ds, (ds' ++ [LDelta stream]). split; [|split; [exact Hd|rewrite forallb_snoc, Hd'; reflexivity]].
      repeat (cbn [app]; rewrite <- ?app_assoc); reflexivity.
    + cbn. exists ds, ds'. split; [|split; assumption]. repeat (cbn [app]; rewrite <- ?app_assoc); reflexivity.
  - destruct IH as (ds & ds' & -> & Hd & Hd'). destruct e; try exact I.
    rewrite rstep_status. destruct (N.eqb_spec st 3) as [->|_].
    + cbn. right. right. split; [left; reflexivity|]. exists ds, ds'. split; [|split; assumption].
      repeat (cbn [app]; rewrite <- ?app_assoc); reflexivity.
    + destruct (N.eqb_spec st 4) as [->|_]; [|exact I].
      cbn. right. right. split; [right; reflexivity|]. exists ds, ds'. split; [|split; assumption].
      repeat (cbn [app]; rewrite <- ?app_assoc); reflexivity.
  - destruct e; exact I.
  - destruct e; exact I.
Qed.

(* non-vacuity: a cancelled task with output on both streams; a spawn-less failure *)
Definition sched_cancel : list act :=
  [ASpawnFrame; AStartRunning; APumpEmit 0; ACancel; APumpEmit 1; ATakeCancel; APumpEmit 0; AChildExit;
   AKillWaitReturns true; APumpEof 0; APumpEof 1; AJoined; AEmitCancelled; AEmitFinal; APumpEmit 0; ACancel].
Example sched_cancel_trace :
  trace (run sched_cancel)
  = [LSpawned; LRunning; LDelta 0; LDelta 1; LCancelReq; LDelta 0; LCancelled; LStatus 3]
  /\ s_main (run sched_cancel) = MEnd.
Proof. vm_compute. split; reflexivity. Qed.
(* S12b, the code before the repair: a refused request produced a stream without a spawn frame, which
   the recogniser rejects *)
Definition sched_spawnless : list act := [ACancel; APrecheckFail; ASpawnFrame].
Lemma spawnless_unfixed_refuted :
  exists sched, trace (run_unfixed sched) = [LStatus 4]
                /\ r_prefix_ok (recognise (trace (run_unfixed sched))) = false.
Proof. exists sched_spawnless. vm_compute. split; reflexivity. Qed.
Example sched_refused_now :
  trace (run [ACancel; APrecheckFail; ASpawnFrame; APostSpawnFail; ASpawnFrame]) = [LSpawned; LStatus 4].
Proof. vm_compute. reflexivity. Qed.

(* ---- T1: the waiter's join discipline (Gen/PumpJoin.v: the skeleton read from run_pipes_task) ---- *)
Lemma step_j_wf j s a : join_wf j = true -> step_j j s a = step s a.
Proof.
  destruct j as [k0 k1]. unfold join_wf. cbn [j_p0 j_p1]. intros H.
  destruct k0; try discriminate H. destruct k1; try discriminate H.
  destruct a; try reflexivity.
  unfold step_j, step, pump_joined. cbn [j_p0 j_p1 join_waits negb orb].
  destruct (s_main s); try reflexivity. destruct (s_p0 s), (s_p1 s); reflexivity.
Qed.

Lemma fold_j_wf j sched : join_wf j = true ->
  forall s, fold_left (step_skip_j j) sched s = fold_left step_skip sched s.
Proof.
  intros H. induction sched as [|a r IH]; intros s; cbn [fold_left]; [reflexivity|].
  unfold step_skip_j at 2. rewrite (step_j_wf j s a H). apply IH.
Qed.

Lemma run_j_wf j sched : join_wf j = true -> run_j j sched = run sched.
Proof. intros H. unfold run_j, run. apply fold_j_wf, H. Qed.

Lemma skel_wf_join ops : skel_wf ops = true -> join_wf (join_spec_of ops) = true.
Proof. unfold skel_wf. intros H. apply andb_prop in H. exact (proj2 H). Qed.

Lemma run_w_wf ops sched : skel_wf ops = true -> run_w ops sched = run sched.
Proof. intros H. unfold run_w. apply run_j_wf, skel_wf_join, H. Qed.

Theorem lifecycle_language_skel : forall ops : list wop, skel_wf ops = true -> forall sched : list act,
  let s := run_w ops sched in
  let t := trace s in
  r_prefix_ok (recognise t) = true /\ (s_main s = MEnd <-> r_complete (recognise t) = true).
Proof. intros ops H sched. cbv zeta. rewrite (run_w_wf ops sched H). exact (lifecycle_language sched). Qed.

Theorem terminal_is_last_skel : forall ops : list wop, skel_wf ops = true -> forall sched more : list act,
  s_main (run_w ops sched) = MEnd -> trace (run_w ops (sched ++ more)) = trace (run_w ops sched).
Proof. intros ops H sched more. rewrite !(run_w_wf ops _ H). apply terminal_is_last. Qed.

(* after the terminal frame no pump is reading any more: no append to a log, no delta frame, whatever
   the process tree does — the terminal frame's byte counts are final *)
Lemma end_stays_fold more : forall s, Inv s -> s_main s = MEnd -> s_main (fold_left step_skip more s) = MEnd.
Proof.
  induction more as [|a r IH]; intros s HI HM; cbn [fold_left]; [exact HM|].
  destruct (end_is_quiet s a HI HM) as [_ Hm]. apply IH; [apply inv_step_skip, HI|exact Hm].
Qed.

Theorem no_append_after_terminal : forall (sched more : list act) (i : N),
  s_main (run sched) = MEnd ->
  step (run (sched ++ more)) (APumpEmit i) = None /\ step (run (sched ++ more)) (APumpSilent i) = None.
Proof.
  intros sched more i HM.
  pose proof (inv_run (sched ++ more)) as HI.
  assert (HE : s_main (run (sched ++ more)) = MEnd).
  { unfold run. rewrite fold_left_app. apply end_stays_fold; [apply inv_run|exact HM]. }
  unfold Inv in HI. rewrite HE in HI. destruct HI as (Hq0 & Hq1 & _). unfold pump_quiet in *.
  unfold step, pump_of. destruct (i =? 0).
  - destruct (s_p0 (run (sched ++ more))); try congruence; split; reflexivity.
  - destruct (s_p1 (run (sched ++ more))); try congruence; split; reflexivity.
Qed.

Theorem no_append_after_terminal_skel : forall ops : list wop, skel_wf ops = true ->
  forall (sched more : list act) (i : N),
  s_main (run_w ops sched) = MEnd ->
  step (run_w ops (sched ++ more)) (APumpEmit i) = None /\ step (run_w ops (sched ++ more)) (APumpSilent i) = None.
Proof. intros ops H sched more i. rewrite !(run_w_wf ops _ H). apply no_append_after_terminal. Qed.

Example waiter_canonical_wf : skel_wf waiter_canonical = true.
Proof. vm_compute. reflexivity. Qed.

(* seed C17-1 — a bounded wait for the pumps (timeout around the handle): the shell exits, the waiter
   gives up on the stdout pump, emits the terminal frame, and the descendant's late output arrives after it *)
Definition sched_late : list act :=
  [ASpawnFrame; AStartRunning; APumpEmit 0; AChildExit; AWaitReturns true; APumpEof 1; AJoined; AEmitFinal].
Definition more_late : list act := [APumpEmit 0].

Lemma bounded_join_witness :
  map wop_shape waiter_bounded = map wop_shape waiter_canonical
  /\ s_main (run_w waiter_bounded sched_late) = MEnd
  /\ trace (run_w waiter_bounded sched_late) = [LSpawned; LRunning; LDelta 0; LStatus 2]
  /\ trace (run_w waiter_bounded (sched_late ++ more_late)) = [LSpawned; LRunning; LDelta 0; LStatus 2; LDelta 0]
  /\ r_prefix_ok (recognise (trace (run_w waiter_bounded (sched_late ++ more_late)))) = false.
Proof. vm_compute. repeat split; reflexivity. Qed.

Lemma bounded_join_refuted :
  exists (ops : list wop) (sched more : list act),
    map wop_shape ops = map wop_shape waiter_canonical
    /\ s_main (run_w ops sched) = MEnd
    /\ trace (run_w ops (sched ++ more)) <> trace (run_w ops sched)
    /\ r_prefix_ok (recognise (trace (run_w ops (sched ++ more)))) = false.
Proof.
  exists waiter_bounded, sched_late, more_late.
  destruct bounded_join_witness as (H1 & H2 & H3 & H4 & H5).
  repeat split; try assumption. rewrite H3, H4. discriminate.
Qed.

(* the obligation is necessary, not only sufficient: EVERY join discipline other than "both handles awaited
   unconditionally" has a schedule in which a frame follows the terminal frame *)
Definition sched_leave (i : N) : list act :=
  [ASpawnFrame; AStartRunning; AChildExit; AWaitReturns true; APumpEof (1 - i); AJoined; AEmitFinal].

Theorem unjoined_pump_refutes : forall j : join_spec, join_wf j = false ->
  exists (sched more : list act),
    s_main (run_j j sched) = MEnd
    /\ trace (run_j j (sched ++ more)) <> trace (run_j j sched)
    /\ r_prefix_ok (recognise (trace (run_j j (sched ++ more)))) = false.
Proof.
  intros [k0 k1] H. unfold join_wf in H. cbn [j_p0 j_p1] in H.
  destruct k0.
  - destruct k1; try discriminate H;
      exists (sched_leave 1), [APumpEmit 1]; vm_compute; (split; [reflexivity|split; [discriminate|reflexivity]]).
  - exists (sched_leave 0), [APumpEmit 0]; destruct k1; vm_compute; (split; [reflexivity|split; [discriminate|reflexivity]]).
  - exists (sched_leave 0), [APumpEmit 0]; destruct k1; vm_compute; (split; [reflexivity|split; [discriminate|reflexivity]]).
Qed.

(* ---- the cancel channel as subscribed today: a request made before run_task starts is lost ---- *)
Lemma inv_step_sub s a s' : Inv s -> step_sub s a = Some s' -> Inv s'.
Proof.
  destruct a; try (exact (inv_step s _ s')).
  destruct s as [m p0 p1 ex fl tr]. unfold Inv, step_sub.
  cbn [s_main s_p0 s_p1 s_child_exited s_cancel_flag s_trace].
  intros HI HS. destruct m; try discriminate; crush.
Qed.

Lemma inv_fold_sub sched : forall s, Inv s -> Inv (fold_left step_skip_sub sched s).
Proof.
  induction sched as [|a r IH]; intros s H; cbn [fold_left]; [exact H|]. apply IH.
  unfold step_skip_sub. destruct (step_sub s a) as [s'|] eqn:E; [eapply inv_step_sub; eauto|exact H].
Qed.

Theorem lifecycle_language_sub : forall sched : list act,
  let s := run_sub sched in
  let t := trace s in
  r_prefix_ok (recognise t) = true /\ (s_main s = MEnd <-> r_complete (recognise t) = true).
Proof.
  intros sched s t. pose proof (inv_fold_sub sched sys0 inv0) as HI. fold (run_sub sched) in HI. fold s in HI.
  subst t. unfold trace. unfold Inv in HI. destruct (s_main s) eqn:Em.
  - destruct HI as (Ht & _). rewrite Ht. cbn. split; [reflexivity|]. split; discriminate.
  - destruct HI as (Hr & _). rewrite Hr. cbn. split; [reflexivity|]. split; discriminate.
  - destruct HI as (Hr & _). rewrite Hr. cbn. split; [reflexivity|]. split; discriminate.
  - destruct HI as (Hr & _). rewrite Hr. cbn. split; [reflexivity|]. split; discriminate.
  - destruct HI as (Hr & _). rewrite Hr. destruct cancelled; cbn; (split; [reflexivity|]); split; discriminate.
  - destruct HI as (Hr & _). rewrite Hr. cbn. split; [reflexivity|]. split; discriminate.
  - destruct HI as (_ & _ & [[Hr _]|[Hr _]]); rewrite Hr; cbn; (split; [reflexivity|]); split; discriminate.
  - destruct HI as (_ & _ & [st Hr]). rewrite Hr. cbn. split; [reflexivity|]. split; reflexivity.
Qed.

(* no pending request and no cancel-request frame so far: stays so as long as nobody asks again *)
Definition no_cancel (s : sys) : Prop := s_cancel_flag s = false /\ ~ In LCancelReq (s_trace s).

Lemma no_cancel_step s a s' : a <> ACancel -> no_cancel s -> step_sub s a = Some s' -> no_cancel s'.
Proof.
  destruct s as [m p0 p1 ex fl tr]. unfold no_cancel, step_sub, step, emit, set_main, set_pump, pump_of.
  cbn [s_main s_p0 s_p1 s_child_exited s_cancel_flag s_trace]. intros Ha [Hf Ht] H. subst fl.
  destruct a; try congruence;
  repeat match type of H with
  | context [match ?x with _ => _ end] => destruct x; try discriminate H
  | context [if ?x then _ else _] => destruct x; try discriminate H
  end; inversion H; subst; cbn [s_cancel_flag s_trace]; (split; [reflexivity|]);
  try exact Ht; cbn [In]; intros [E|E]; try discriminate E; exact (Ht E).
Qed.

Lemma no_cancel_fold more : (forall a, In a more -> a <> ACancel) ->
  forall s, no_cancel s -> no_cancel (fold_left step_skip_sub more s).
Proof.
  induction more as [|a r IH]; intros Hm s Hs; cbn [fold_left]; [exact Hs|].
  apply IH; [intros b Hb; apply Hm; right; exact Hb|].
  unfold step_skip_sub. destruct (step_sub s a) as [s'|] eqn:E; [|exact Hs].
  eapply no_cancel_step; eauto. apply Hm. left. reflexivity.
Qed.

(* any number of requests before run_task's first statement, then anything at all except a new request:
   no cancel-request frame ever appears (and so no cancelled status): the acknowledged request is lost *)
Theorem early_cancel_never_recorded : forall (n : nat) (more : list act),
  (forall a, In a more -> a <> ACancel) ->
  ~ In LCancelReq (trace (run_sub (repeat ACancel n ++ ASpawnFrame :: more))).
Proof.
  intros n more Hm. unfold run_sub, trace. rewrite fold_left_app. cbn [fold_left].
  assert (H0 : forall s, s_main s = MStart -> s_trace s = [] ->
               s_main (fold_left step_skip_sub (repeat ACancel n) s) = MStart
               /\ s_trace (fold_left step_skip_sub (repeat ACancel n) s) = []).
  { induction n as [|k IH]; intros s H1 H2; cbn [repeat fold_left]; [split; assumption|].
    apply IH; unfold step_skip_sub, step_sub, step; cbn [s_main s_trace]; assumption. }
  destruct (H0 sys0 eq_refl eq_refl) as [Hm0 Ht0].
  set (s1 := fold_left step_skip_sub (repeat ACancel n) sys0) in *.
  assert (Hn : no_cancel (step_skip_sub s1 ASpawnFrame)).
  { unfold step_skip_sub, step_sub. rewrite Hm0. unfold no_cancel. cbn [s_cancel_flag s_trace]. rewrite Ht0.
    split; [reflexivity|]. cbn [In]. intros [E|[]]. discriminate E. }
  pose proof (no_cancel_fold more Hm _ Hn) as [_ Hf].
  intros Hin. apply Hf. apply in_rev. exact Hin.
Qed.

(* the same request one step later (after run_task subscribed) is taken *)
Example early_cancel_example :
  trace (run_sub [ACancel; ASpawnFrame; AStartRunning; ATakeCancel; AChildExit; AWaitReturns true;
                  APumpEof 0; APumpEof 1; AJoined; AEmitFinal]) = [LSpawned; LRunning; LStatus 2]
  /\ trace (run_sub [ASpawnFrame; ACancel; AStartRunning; ATakeCancel; AChildExit; AKillWaitReturns true;
                     APumpEof 0; APumpEof 1; AJoined; AEmitCancelled; AEmitFinal])
     = [LSpawned; LRunning; LCancelReq; LCancelled; LStatus 3].
Proof. vm_compute. split; reflexivity. Qed.

(* ---- T1: the failure sites (Gen/TaskFailSites.v) ---- *)
Lemma sites_wf_nth sites k f : sites_wf sites = true -> nth_error sites k = Some f -> fail_site_wf f = true.
Proof.
  unfold sites_wf. intros H Hk. rewrite forallb_forall in H. apply H. eapply nth_error_In. exact Hk.
Qed.

Lemma step_f_wf sites s a : sites_wf sites = true -> step_f sites s a = step s (erase_f sites a).
Proof.
  intros H. destruct a as [a|k].
  - destruct a; reflexivity.
  - unfold step_f, erase_f. destruct (nth_error sites k) as [f|] eqn:Hk; [|reflexivity].
    pose proof (sites_wf_nth sites k f H Hk) as Hf. unfold fail_site_wf in Hf.
    destruct f as [w r]. cbn [fs_where fs_returns] in Hf. destruct w; try discriminate Hf. subst r.
    unfold fail_at, step. cbn [fs_where fs_returns]. destruct (s_main s); reflexivity.
Qed.

Lemma run_f_wf sites sched : sites_wf sites = true -> run_f sites sched = run (map (erase_f sites) sched).
Proof.
  intros H. unfold run_f, run. generalize sys0 as s.
  induction sched as [|a r IH]; intros s; cbn [fold_left map]; [reflexivity|].
  unfold step_skip_f at 2. rewrite (step_f_wf sites s a H). apply IH.
Qed.

Theorem lifecycle_language_sites : forall sites : list fail_site, sites_wf sites = true ->
  forall sched : list act_f,
  let s := run_f sites sched in
  let t := trace s in
  r_prefix_ok (recognise t) = true /\ (s_main s = MEnd <-> r_complete (recognise t) = true).
Proof.
  intros sites H sched. cbv zeta. rewrite (run_f_wf sites sched H). exact (lifecycle_language _).
Qed.

Theorem terminal_is_last_sites : forall sites : list fail_site, sites_wf sites = true ->
  forall sched more : list act_f,
  s_main (run_f sites sched) = MEnd -> trace (run_f sites (sched ++ more)) = trace (run_f sites sched).
Proof.
  intros sites H sched more. rewrite !(run_f_wf sites _ H), map_app. apply terminal_is_last.
Qed.

(* a task that ended without ever running was refused: its whole stream is Spawned . Status failed *)
Theorem refused_stream_shape : forall sched : list act,
  s_main (run sched) = MEnd -> ~ In LRunning (trace (run sched)) -> trace (run sched) = [LSpawned; LStatus 4].
Proof.
  intros sched HM HR. destruct (lifecycle_language sched) as [_ [Hc _]]. specialize (Hc HM).
  pose proof (recognise_shape (trace (run sched))) as Hs.
  destruct (recognise (trace (run sched))) eqn:Er; try discriminate Hc. cbn [shape] in Hs.
  destruct Hs as [[_ Ht]|[[_ (ds & Ht & _)]|[_ (ds & ds' & Ht & _)]]].
  - exact Ht.
  - exfalso. apply HR. rewrite Ht. right. left. reflexivity.
  - exfalso. apply HR. rewrite Ht. right. left. reflexivity.
Qed.

Lemma forallb_false_nth {A} (f : A -> bool) l : forallb f l = false -> exists k x, nth_error l k = Some x /\ f x = false.
Proof.
  induction l as [|x r IH]; cbn [forallb]; [discriminate|]. intros H.
  destruct (f x) eqn:Ex.
  - cbn in H. destruct (IH H) as (k & y & Hk & Hy). exists (S k), y. split; assumption.
  - exists 0%nat, x. split; [reflexivity|exact Ex].
Qed.

(* the obligation is necessary: a site list with ANY ill-placed or non-returning site has a schedule whose
   frames are not a prefix of a word of the language *)
Theorem bad_site_refutes : forall sites : list fail_site, sites_wf sites = false ->
  exists sched : list act_f, r_prefix_ok (recognise (trace (run_f sites sched))) = false.
Proof.
  intros sites H. destruct (forallb_false_nth _ _ H) as (k & [w r] & Hk & Hf).
  unfold fail_site_wf in Hf. cbn [fs_where fs_returns] in Hf.
  destruct w.
  - exists [FFail k]. unfold run_f, step_skip_f, step_f. cbn [fold_left]. rewrite Hk.
    destruct r; vm_compute; reflexivity.
  - subst r. exists [FAct ASpawnFrame; FFail k; FFail k].
    unfold run_f, step_skip_f, step_f. cbn [fold_left]. rewrite Hk. vm_compute. reflexivity.
  - destruct r.
    + exists [FAct ASpawnFrame; FAct AStartRunning; FFail k; FAct (APumpEmit 0)].
      unfold run_f, step_skip_f, step_f. cbn [fold_left]. rewrite Hk. vm_compute. reflexivity.
    + exists [FAct ASpawnFrame; FAct AStartRunning; FFail k; FFail k].
      unfold run_f, step_skip_f, step_f. cbn [fold_left]. rewrite Hk. vm_compute. reflexivity.
Qed.

Example sites_example :
  sites_wf [{| fs_where := FAfterSpawn; fs_returns := true |}; {| fs_where := FAfterSpawn; fs_returns := true |}] = true
  /\ trace (run_f [{| fs_where := FAfterSpawn; fs_returns := true |}] [FFail 0; FAct ASpawnFrame; FFail 0; FFail 0; FAct AStartRunning])
     = [LSpawned; LStatus 4].
Proof. vm_compute. split; reflexivity. Qed.
