(* C06 — proofs about Model/Subscribe.v *)
From RipV Require Import Base.Prelude Model.Subscribe.
Local Open Scope nat_scope.

(* ---------- lists ---------- *)
Lemma rest_nil o n k : n <= k -> rest o n k = [].
Proof. intros H. unfold rest. replace (n - k) with 0 by lia. reflexivity. Qed.

Lemma rest_unfold o n k : k < n -> rest o n k = frame_steps o k ++ rest o n (S k).
Proof.
  intros H. unfold rest. replace (n - k) with (S (n - S k)) by lia. reflexivity.
Qed.

Lemma seq_snoc q len : seq q len ++ [q + len] = seq q (S len).
Proof. symmetry. apply seq_S. Qed.

Lemma last_seq_seq h : last_seq (seq 0 h) = match h with 0 => None | S h' => Some h' end.
Proof.
  destruct h as [|h']; [reflexivity|]. unfold last_seq. rewrite seq_S, rev_app_distr. reflexivity.
Qed.

Lemma keep_gt_seq h k : keep FilterGtLast (last_seq (seq 0 h)) k = Nat.leb h k.
Proof. rewrite last_seq_seq. destruct h as [|h']; reflexivity. Qed.

Lemma filter_ge_seq h len : forall q,
  filter (fun k => Nat.leb h k) (seq q len) = seq (Nat.max h q) (q + len - Nat.max h q).
Proof.
  induction len as [|l IH]; intros q.
  - replace (q + 0 - Nat.max h q) with 0 by lia. reflexivity.
  - cbn [seq filter]. rewrite IH. destruct (Nat.leb_spec h q) as [Hle|Hgt].
    + replace (Nat.max h (S q)) with (S q) by lia. replace (Nat.max h q) with q by lia.
      replace (S q + l - S q) with l by lia. replace (q + S l - q) with (S l) by lia. reflexivity.
    + replace (Nat.max h (S q)) with h by lia. replace (Nat.max h q) with h by lia.
      f_equal. lia.
Qed.

Lemma drain_seq h q p : q <= p ->
  seq 0 (Nat.max h q) ++ filter (keep FilterGtLast (last_seq (seq 0 h))) (seq q (p - q)) = seq 0 (Nat.max h p).
Proof.
  intros Hq. rewrite (filter_ext _ (fun k => Nat.leb h k)) by (intros k; apply keep_gt_seq).
  rewrite filter_ge_seq. replace (q + (p - q) - Nat.max h q) with (Nat.max h p - Nat.max h q) by lia.
  replace (Nat.max h p) with (Nat.max h q + (Nat.max h p - Nat.max h q)) at 2 by lia.
  rewrite seq_app. reflexivity.
Qed.

Lemma Forall_upd_nth {A} (P : A -> Prop) f : (forall x, P x -> P (f x)) ->
  forall l i, Forall P l -> Forall P (upd_nth i f l).
Proof.
  intros Hf l. induction l as [|x l IH]; intros i H; [destruct i; constructor|].
  inversion H as [|? ? Hx Hl]; subst. destruct i as [|j]; cbn [upd_nth]; constructor; auto.
Qed.

Lemma count_pub_app a b : count_pub (a ++ b) = count_pub a + count_pub b.
Proof. induction a as [|[k|k] a IH]; cbn [count_pub app]; lia. Qed.

Lemma count_pub_rest o n : forall d k, n - k = d -> count_pub (rest o n k) = d.
Proof.
  induction d as [|d IH]; intros k H.
  - rewrite rest_nil by lia. reflexivity.
  - rewrite rest_unfold by lia. rewrite count_pub_app, (IH (S k)) by lia. destruct o; reflexivity.
Qed.

(* ---------- the invariant (record-then-publish, subscribe-then-snapshot, seq > last) ---------- *)
Definition okc : cfg := code_cfg None.

Definition PInv (n : nat) (s : st) (p r : nat) : Prop :=
  g_hist s = seq 0 r /\
  ((r = p /\ p <= n /\ g_prog s = rest RecThenPub n p) \/
   (r = S p /\ p < n /\ g_prog s = Pub p :: rest RecThenPub n (S p))).

Lemma own_app a b : own (a ++ b) = own a ++ own b.
Proof. unfold own. apply flat_map_app. Qed.

Definition SInv (p r : nat) (x : sub) : Prop :=
  (s_pc x = 0 /\ s_live x = None /\ s_hist x = None /\ s_out x = []) \/
  (s_pc x = 1 /\ exists q l, q <= p /\ s_live x = Some l /\ own l = seq q (p - q) /\ s_hist x = None /\ s_out x = []) \/
  (2 <= s_pc x /\ exists q h l, q <= p /\ h <= r /\ s_live x = Some l /\ own l = seq q (p - q) /\
                 s_hist x = Some (seq 0 h) /\ s_out x = seq 0 (Nat.max h q)).

Definition Inv (n : nat) (s : st) : Prop :=
  exists p r, PInv n s p r /\ Forall (SInv p r) (g_subs s).

Lemma SInv_rec p r x : SInv p r x -> SInv p (S r) x.
Proof.
  intros [H|[H|[Hpc (q & h & l & Hq & Hh & Hl & Ho & Hs & Hout)]]]; [left; exact H | right; left; exact H|].
  right; right. split; [exact Hpc|]. exists q, h, l. repeat split; auto.
Qed.

Lemma SInv_pub p r x : SInv p r x -> SInv (S p) r (deliver None (Some p) x).
Proof.
  intros [(Hpc & Hl & Hh & Ho)|[(Hpc & q & l & Hq & Hl & Hown & Hh & Ho)|(Hpc & q & h & l & Hq & Hh & Hl & Hown & Hs & Ho)]].
  - left. unfold deliver. rewrite Hl. auto.
  - right; left. unfold deliver. rewrite Hl. cbn [push_live s_pc s_live s_hist s_out].
    split; [exact Hpc|]. exists q, (l ++ [Some p]). repeat split; auto.
    rewrite own_app, Hown. cbn [own flat_map app]. replace (S p - q) with (S (p - q)) by lia.
    rewrite <- seq_snoc. f_equal. f_equal. lia.
  - right; right. unfold deliver. rewrite Hl. cbn [push_live s_pc s_live s_hist s_out].
    split; [exact Hpc|]. exists q, h, (l ++ [Some p]). repeat split; auto.
    rewrite own_app, Hown. cbn [own flat_map app]. replace (S p - q) with (S (p - q)) by lia.
    rewrite <- seq_snoc. f_equal. f_equal. lia.
Qed.

(* a frame of another stream on the shared channel changes nothing a subscriber of this stream will deliver *)
Lemma SInv_oth p r x : SInv p r x -> SInv p r (deliver None None x).
Proof.
  intros [(Hpc & Hl & Hh & Ho)|[(Hpc & q & l & Hq & Hl & Hown & Hh & Ho)|(Hpc & q & h & l & Hq & Hh & Hl & Hown & Hs & Ho)]].
  - left. unfold deliver. rewrite Hl. auto.
  - right; left. unfold deliver. rewrite Hl. cbn [push_live s_pc s_live s_hist s_out].
    split; [exact Hpc|]. exists q, (l ++ [None]). repeat split; auto.
    rewrite own_app, Hown. cbn [own flat_map app]. apply app_nil_r.
  - right; right. unfold deliver. rewrite Hl. cbn [push_live s_pc s_live s_hist s_out].
    split; [exact Hpc|]. exists q, h, (l ++ [None]). repeat split; auto.
    rewrite own_app, Hown. cbn [own flat_map app]. apply app_nil_r.
Qed.

Lemma SInv_sub p r x : p <= r -> SInv p r x -> SInv p r (sub_step okc (seq 0 r) x).
Proof.
  intros Hpr [(Hpc & Hl & Hh & Ho)|[(Hpc & q & l & Hq & Hl & Hown & Hh & Ho)|(Hpc & q & h & l & Hq & Hh & Hl & Hown & Hs & Ho)]];
    unfold sub_step; cbn [okc code_cfg c_s c_f].
  - rewrite Hpc. right; left. cbn [do_subscribe s_pc s_live s_hist s_out]. split; [lia|].
    exists p, []. repeat split; auto. replace (p - p) with 0 by lia. reflexivity.
  - rewrite Hpc. right; right. cbn [do_snapshot s_pc s_live s_hist s_out]. split; [lia|].
    exists q, r, l. repeat split; auto. f_equal. lia.
  - destruct (s_pc x) as [|[|k]] eqn:E; [lia|lia|].
    right; right. unfold do_drain. rewrite Hl, Hs. cbn [s_pc s_live s_hist s_out]. split; [lia|].
    exists p, h, []. repeat split; auto.
    + replace (p - p) with 0 by lia. reflexivity.
    + rewrite Ho, Hown. apply drain_seq. exact Hq.
Qed.

Lemma Inv_init n m : Inv n (init okc n m).
Proof.
  exists 0, 0. split.
  - split; [reflexivity|]. left. repeat split; lia.
  - cbn [init g_subs]. apply Forall_forall. intros x Hx. apply repeat_spec in Hx. subst x.
    left. repeat split.
Qed.

Lemma Inv_step n s a : Inv n s -> Inv n (step okc s a).
Proof.
  intros (p & r & (Hh & HP) & HS). destruct a as [|i|].
  - (* producer *)
    destruct HP as [(Hr & Hp & Hg)|(Hr & Hp & Hg)].
    + destruct (Nat.eq_dec p n) as [->|Hne].
      * exists n, r. cbn [step]. rewrite Hg, rest_nil by lia. split; [|exact HS].
        split; [exact Hh|]. left. rewrite Hg, rest_nil by lia. auto.
      * exists p, (S r). cbn [step]. rewrite Hg, rest_unfold by lia. cbn [frame_steps app g_prog g_hist g_subs].
        split.
        -- split; [rewrite Hh, Hr; apply seq_snoc|]. right. repeat split; lia.
        -- eapply Forall_impl; [|exact HS]. intros x. apply SInv_rec.
    + exists (S p), r. cbn [step]. rewrite Hg. cbn [g_prog g_hist g_subs]. split.
      * split; [exact Hh|]. left. repeat split; lia.
      * cbn [okc code_cfg c_cap]. apply Forall_map. eapply Forall_impl; [|exact HS]. intros x. apply SInv_pub.
  - (* subscriber i *)
    exists p, r. cbn [step g_prog g_hist g_subs]. split; [split; [exact Hh|exact HP]|].
    rewrite Hh. apply Forall_upd_nth; [|exact HS]. intros x. apply SInv_sub.
    destruct HP as [(Hr & _)|(Hr & _)]; lia.
  - (* another stream's frame on the shared channel *)
    exists p, r. cbn [step g_prog g_hist g_subs]. split; [split; [exact Hh|exact HP]|].
    cbn [okc code_cfg c_cap]. apply Forall_map. eapply Forall_impl; [|exact HS]. intros x. apply SInv_oth.
Qed.

Lemma Inv_run n sched : forall s, Inv n s -> Inv n (run okc sched s).
Proof.
  induction sched as [|a l IH]; intros s H; [exact H|]. cbn [run fold_left]. apply IH, Inv_step, H.
Qed.

Lemma PInv_published n s p r : PInv n s p r -> published n s = p /\ r <= n /\ p <= n /\ (g_prog s = [] -> p = n).
Proof.
  intros (_ & [(Hr & Hp & Hg)|(Hr & Hp & Hg)]); unfold published; rewrite Hg.
  - rewrite (count_pub_rest _ _ (n - p)) by reflexivity. repeat split; try lia.
    intros E. destruct (Nat.eq_dec p n); [assumption|]. rewrite rest_unfold in E by lia. discriminate.
  - cbn [count_pub]. rewrite (count_pub_rest _ _ (n - S p)) by reflexivity. repeat split; try lia.
    intros E. discriminate.
Qed.

(* the property, at every moment of every schedule, for every subscriber of any number of subscribers *)
Theorem exactly_once_okc : forall (n m : nat) (sched : list actor) (i : nat) (x : sub),
  let fin := run okc sched (init okc n m) in
  nth_error (g_subs fin) i = Some x -> attached x = true ->
  exists k, delivered okc x = seq 0 k /\ published n fin <= k /\ k <= n /\ (g_prog fin = [] -> k = n).
Proof.
  intros n m sched i x fin Hn Ha.
  destruct (Inv_run n sched _ (Inv_init n m)) as (p & r & HP & HS). fold fin in HP, HS.
  destruct (PInv_published _ _ _ _ HP) as (Hpub & Hr & Hp & Hend).
  apply nth_error_In in Hn. rewrite Forall_forall in HS. specialize (HS x Hn).
  unfold attached in Ha. apply Nat.leb_le in Ha.
  destruct HS as [(Hpc & _)|[(Hpc & _)|(Hpc & q & h & l & Hq & Hh & Hl & Hown & Hs & Ho)]]; [lia|lia|].
  exists (Nat.max h p). unfold delivered, do_drain. rewrite Hl, Hs. cbn [okc code_cfg c_f s_out].
  rewrite Ho, Hown. split; [apply drain_seq; exact Hq|]. rewrite Hpub. split; [lia|]. split; [lia|].
  intros E. specialize (Hend E). lia.
Qed.

Lemma cfg_ok_eq c : cfg_ok c = true -> c_cap c = None -> c = okc.
Proof.
  destruct c as [p s f cap]. unfold cfg_ok. cbn [c_p c_s c_f c_cap]. intros H ->.
  destruct p, s, f; try discriminate. reflexivity.
Qed.

Theorem exactly_once : forall (c : cfg), cfg_ok c = true -> c_cap c = None ->
  forall (n m : nat) (sched : list actor) (i : nat) (x : sub),
  let fin := run c sched (init c n m) in
  nth_error (g_subs fin) i = Some x -> attached x = true ->
  exists k, delivered c x = seq 0 k /\ published n fin <= k /\ k <= n /\ (g_prog fin = [] -> k = n).
Proof. intros c H1 H2. rewrite (cfg_ok_eq c H1 H2). exact exactly_once_okc. Qed.

(* what has been written to the body so far is always a gap-free, duplicate-free ascending prefix *)
Theorem out_is_prefix : forall (n m : nat) (sched : list actor) (i : nat) (x : sub),
  nth_error (g_subs (run okc sched (init okc n m))) i = Some x -> exists k, s_out x = seq 0 k /\ k <= n.
Proof.
  intros n m sched i x Hn.
  destruct (Inv_run n sched _ (Inv_init n m)) as (p & r & HP & HS).
  destruct (PInv_published _ _ _ _ HP) as (_ & Hr & Hp & _).
  apply nth_error_In in Hn. rewrite Forall_forall in HS. specialize (HS x Hn).
  destruct HS as [(_ & _ & _ & Ho)|[(_ & q & l & _ & _ & _ & _ & Ho)|(_ & q & h & l & Hq & Hh & _ & _ & _ & Ho)]].
  - exists 0. rewrite Ho. split; [reflexivity|lia].
  - exists 0. rewrite Ho. split; [reflexivity|lia].
  - exists (Nat.max h q). split; [exact Ho|lia].
Qed.

(* ---------- bounded channel: lag ---------- *)

Lemma sub_step_lag c h x : s_lag (sub_step c h x) = s_lag x.
Proof.
  unfold sub_step. destruct (s_pc x) as [|[|k]], (c_s c); try reflexivity;
    unfold do_drain; destruct (s_live x), (s_hist x); reflexivity.
Qed.

Lemma deliver_lag cap k x : s_lag x = true -> s_lag (deliver cap k x) = true.
Proof.
  intros H. unfold deliver. destruct (s_live x) as [q|]; [|exact H].
  destruct (push_live cap k q) as [q' lag]. cbn [s_lag]. rewrite H. reflexivity.
Qed.

Lemma existsb_upd_nth (f : sub -> sub) : (forall x, s_lag (f x) = s_lag x) ->
  forall l i, existsb s_lag (upd_nth i f l) = existsb s_lag l.
Proof.
  intros Hf l. induction l as [|x l IH]; intros i; [destruct i; reflexivity|].
  destruct i as [|j]; cbn [upd_nth existsb]; [rewrite Hf; reflexivity|rewrite IH; reflexivity].
Qed.

Lemma any_lag_map c k l : existsb s_lag l = true -> existsb s_lag (map (deliver (c_cap c) k) l) = true.
Proof.
  intros H. apply existsb_exists in H. destruct H as (x & Hx & Hl). apply existsb_exists.
  exists (deliver (c_cap c) k x). split; [apply in_map, Hx|apply deliver_lag, Hl].
Qed.

Lemma any_lag_step c s a : any_lag s = true -> any_lag (step c s a) = true.
Proof.
  unfold any_lag. intros H. destruct a as [|i|]; cbn [step].
  - destruct (g_prog s) as [|[k|k] r]; cbn [g_subs]; try exact H. apply any_lag_map, H.
  - cbn [g_subs]. rewrite existsb_upd_nth; [exact H|]. intros x. apply sub_step_lag.
  - cbn [g_subs]. apply any_lag_map, H.
Qed.

Lemma any_lag_run c sched : forall s, any_lag s = true -> any_lag (run c sched s) = true.
Proof.
  induction sched as [|a l IH]; intros s H; [exact H|]. cbn [run fold_left]. apply IH, any_lag_step, H.
Qed.

Lemma deliver_cap_eq cap k x : s_lag (deliver (Some cap) k x) = false -> deliver (Some cap) k x = deliver None k x.
Proof.
  unfold deliver. destruct (s_live x) as [q|]; [|reflexivity]. cbn [push_live].
  destruct (Nat.ltb (length q) cap); [reflexivity|]. cbn [s_lag]. rewrite orb_true_r. discriminate.
Qed.

Lemma map_deliver_cap_eq cap k l :
  existsb s_lag (map (deliver (Some cap) k) l) = false -> map (deliver (Some cap) k) l = map (deliver None k) l.
Proof.
  intros H. apply map_ext_in. intros x Hx. apply deliver_cap_eq.
  destruct (s_lag (deliver (Some cap) k x)) eqn:E; [|reflexivity].
  exfalso. assert (existsb s_lag (map (deliver (Some cap) k) l) = true) as Hc.
  { apply existsb_exists. exists (deliver (Some cap) k x). split; [apply in_map, Hx|exact E]. }
  rewrite Hc in H. discriminate.
Qed.

Lemma step_cap_eq c cap s a :
  any_lag (step (with_cap c (Some cap)) s a) = false -> step (with_cap c (Some cap)) s a = step (with_cap c None) s a.
Proof.
  destruct a as [|i|]; cbn [step]; [|reflexivity|].
  - destruct (g_prog s) as [|[k|k] r]; try reflexivity. unfold any_lag. cbn [g_subs with_cap mk c_cap]. intros H.
    f_equal. apply map_deliver_cap_eq, H.
  - unfold any_lag. cbn [g_subs with_cap mk c_cap]. intros H. f_equal. apply map_deliver_cap_eq, H.
Qed.

Lemma run_cons c a l s : run c (a :: l) s = run c l (step c s a).
Proof. reflexivity. Qed.

(* a run in which no receiver overflowed is a run of the unbounded model *)
Theorem nolag_run_eq c cap sched : forall s,
  any_lag (run (with_cap c (Some cap)) sched s) = false ->
  run (with_cap c (Some cap)) sched s = run (with_cap c None) sched s.
Proof.
  induction sched as [|a l IH]; intros s H; [reflexivity|]. rewrite !run_cons in *.
  assert (any_lag (step (with_cap c (Some cap)) s a) = false) as Hs.
  { destruct (any_lag (step (with_cap c (Some cap)) s a)) eqn:E; [|reflexivity].
    rewrite (any_lag_run _ l _ E) in H. discriminate. }
  rewrite <- (step_cap_eq c cap s a Hs). apply IH. exact H.
Qed.

(* a receiver never holds more than (frames of the stream) + (foreign frames on the shared channel): if that fits
   the capacity nothing lags, whatever the orders and the schedule *)
Definition LInv (b : nat) (s : st) : Prop :=
  count_pub (g_prog s) <= b /\
  Forall (fun x => s_lag x = false /\
                   match s_live x with Some q => length q + count_pub (g_prog s) <= b | None => True end) (g_subs s).

Lemma sub_step_len c h x k n :
  match s_live x with Some q => length q + k <= n | None => True end -> k <= n ->
  match s_live (sub_step c h x) with Some q => length q + k <= n | None => True end.
Proof.
  intros Hq Hk. unfold sub_step.
  destruct (s_pc x) as [|[|j]], (c_s c); cbn [do_subscribe do_snapshot s_live length]; try exact Hq; try lia.
  all: unfold do_drain; destruct (s_live x) as [q|] eqn:El; [|rewrite El; exact I];
    destruct (s_hist x); [cbn [s_live length]; lia|rewrite El; exact Hq].
Qed.

Lemma LInv_deliver cap b k kp x : b <= cap ->
  (s_lag x = false /\ match s_live x with Some q => length q + S kp <= b | None => True end) ->
  s_lag (deliver (Some cap) k x) = false /\
  match s_live (deliver (Some cap) k x) with Some q => length q + kp <= b | None => True end.
Proof.
  intros Hb (Hl & Hq). unfold deliver. destruct (s_live x) as [q|] eqn:El.
  - cbn [push_live]. destruct (Nat.ltb_spec (length q) cap) as [Hlt|Hge]; [|lia].
    cbn [s_lag s_live]. rewrite Hl. split; [reflexivity|]. rewrite app_length. cbn [length]. lia.
  - split; [exact Hl|]. rewrite El. exact I.
Qed.

Lemma LInv_weaken b s : LInv b s -> LInv (S b) s.
Proof.
  intros (Hp & HS). split; [lia|]. eapply Forall_impl; [|exact HS]. intros x (Hl & Hq). split; [exact Hl|].
  destruct (s_live x); [lia|exact I].
Qed.

(* producer and subscriber steps keep the bound; a foreign frame raises it by one *)
Lemma LInv_step c cap b s a : c_cap c = Some cap -> b + count_other [a] <= cap -> LInv b s ->
  LInv (b + count_other [a]) (step c s a).
Proof.
  intros Hc Hb (Hp & HS). destruct a as [|i|]; cbn [count_other] in *; cbn [step].
  - replace (b + 0) with b in * by lia.
    destruct (g_prog s) as [|[k|k] r] eqn:E; [split; [rewrite E; exact Hp|rewrite E; exact HS] | |].
    + cbn [count_pub] in *. split; [cbn [g_prog]; lia|]. cbn [g_prog g_subs]. apply Forall_map.
      eapply Forall_impl; [|exact HS]. intros x Hx. rewrite Hc. apply LInv_deliver; [exact Hb|exact Hx].
    + cbn [count_pub g_prog g_subs] in *. split; [exact Hp|exact HS].
  - replace (b + 0) with b in * by lia. cbn [g_prog g_subs]. split; [exact Hp|]. apply Forall_upd_nth; [|exact HS].
    intros x (Hl & Hq). rewrite sub_step_lag. split; [exact Hl|]. apply sub_step_len; assumption.
  - replace (b + 1) with (S b) in * by lia. split; [cbn [g_prog]; lia|]. cbn [g_prog g_subs]. apply Forall_map.
    eapply Forall_impl; [|exact HS]. intros x (Hl & Hq). rewrite Hc.
    apply LInv_deliver; [exact Hb|]. split; [exact Hl|]. destruct (s_live x); [lia|exact I].
Qed.

Lemma count_other_cons a l : count_other (a :: l) = count_other [a] + count_other l.
Proof. destruct a; cbn [count_other]; lia. Qed.

Lemma LInv_init c n m : LInv n (init c n m).
Proof.
  split.
  - cbn [init g_prog]. unfold producer_prog. rewrite (count_pub_rest _ _ n) by lia. lia.
  - cbn [init g_subs]. apply Forall_forall. intros x Hx. apply repeat_spec in Hx. subst x. split; [reflexivity|exact I].
Qed.

Lemma LInv_run c cap sched : c_cap c = Some cap ->
  forall b s, b + count_other sched <= cap -> LInv b s -> LInv (b + count_other sched) (run c sched s).
Proof.
  intros Hc. induction sched as [|a l IH]; intros b s Hb H.
  - cbn [count_other run fold_left]. replace (b + 0) with b by lia. exact H.
  - rewrite run_cons. rewrite count_other_cons in *. replace (b + (count_other [a] + count_other l)) with
      ((b + count_other [a]) + count_other l) by lia.
    apply IH; [lia|]. apply (LInv_step c cap); [exact Hc|lia|exact H].
Qed.

Theorem lag_bound : forall (c : cfg) (cap n m : nat) (sched : list actor),
  n + count_other sched <= cap -> any_lag (run (with_cap c (Some cap)) sched (init (with_cap c (Some cap)) n m)) = false.
Proof.
  intros c cap n m sched Hn.
  destruct (LInv_run (with_cap c (Some cap)) cap sched eq_refl n _ Hn (LInv_init (with_cap c (Some cap)) n m)) as (_ & HS).
  unfold any_lag. destruct (existsb s_lag _) eqn:E; [|reflexivity].
  apply existsb_exists in E. destruct E as (x & Hx & Hl). rewrite Forall_forall in HS.
  destruct (HS x Hx) as (Hf & _). congruence.
Qed.

Lemma init_cap c cap n m : init (with_cap c cap) n m = init c n m.
Proof. reflexivity. Qed.

Lemma delivered_cap c cap x : delivered (with_cap c cap) x = delivered c x.
Proof. reflexivity. Qed.

Lemma with_cap_id c : c_cap c = None -> with_cap c None = c.
Proof. destruct c; cbn. intros ->. reflexivity. Qed.

(* bounded channel: exactly-once under NoLag (no receiver overflowed in this run) *)
Theorem exactly_once_bounded : forall (c : cfg) (cap : nat), cfg_ok c = true ->
  forall (n m : nat) (sched : list actor) (i : nat) (x : sub),
  let cb := with_cap c (Some cap) in
  let fin := run cb sched (init cb n m) in
  any_lag fin = false ->
  nth_error (g_subs fin) i = Some x -> attached x = true ->
  exists k, delivered cb x = seq 0 k /\ published n fin <= k /\ k <= n /\ (g_prog fin = [] -> k = n).
Proof.
  intros c cap Hok n m sched i x cb fin Hlag Hn Ha. subst fin cb.
  rewrite nolag_run_eq in * by exact Hlag. rewrite init_cap in *. rewrite delivered_cap.
  rewrite <- (init_cap c None) in *. rewrite <- (delivered_cap c None).
  apply (exactly_once (with_cap c None)) with (i := i); auto.
Qed.

Corollary exactly_once_small : forall (c : cfg) (cap : nat), cfg_ok c = true ->
  forall (n m : nat) (sched : list actor) (i : nat) (x : sub), n + count_other sched <= cap ->
  let cb := with_cap c (Some cap) in
  let fin := run cb sched (init cb n m) in
  nth_error (g_subs fin) i = Some x -> attached x = true ->
  exists k, delivered cb x = seq 0 k /\ published n fin <= k /\ k <= n /\ (g_prog fin = [] -> k = n).
Proof.
  intros c cap Hok n m sched i x Hn cb fin. apply exactly_once_bounded; [exact Hok|].
  apply lag_bound. exact Hn.
Qed.

(* ---------- every hypothesis is necessary: executable witnesses ---------- *)
(* S8: send(0) < subscribe < snapshot < push(0): frame 0 is in neither history nor live *)
Definition s8_sched : list actor := [AP; AS 0; AS 0; AP].
Lemma pub_then_rec_refuted : exists n sched, Loses unfixed_cfg n sched.
Proof.
  exists 1, s8_sched. split; [reflexivity|].
  eexists. split; [vm_compute; reflexivity|]. split; [reflexivity|]. vm_compute. discriminate.
Qed.
(* the same witness, spelled out: the subscriber of the 1-frame stream receives nothing *)
Lemma s8_witness : map (delivered unfixed_cfg) (g_subs (final unfixed_cfg 1 1 s8_sched)) = [[]]
  /\ g_prog (final unfixed_cfg 1 1 s8_sched) = [] /\ g_hist (final unfixed_cfg 1 1 s8_sched) = [0].
Proof. vm_compute. repeat split. Qed.

(* ... and in a longer stream ANY frame k can be the lost one (attach inside the window of frame k) *)
Definition s8_sched_at (k : nat) : list actor := repeat AP (2 * k) ++ [AP; AS 0; AS 0].
Lemma s8_any_frame_examples :
  map (fun k => map (delivered unfixed_cfg) (g_subs (final unfixed_cfg 4 1 (s8_sched_at k ++ repeat AP 8)))) [0; 1; 2; 3]
  = [[[1; 2; 3]]; [[0; 2; 3]]; [[0; 1; 3]]; [[0; 1; 2]]].
Proof. vm_compute. reflexivity. Qed.

Lemma snap_then_sub_refuted : exists n sched, Loses (mk RecThenPub SnapThenSub FilterGtLast None) n sched.
Proof.
  exists 1, [AS 0; AP; AP; AS 0]. split; [reflexivity|].
  eexists. split; [vm_compute; reflexivity|]. split; [reflexivity|]. vm_compute. discriminate.
Qed.

(* with `>=` frame `last` comes twice, with no filter every frame recorded between subscribe and snapshot does *)
Lemma wrong_filter_refuted : forall f, f <> FilterGtLast ->
  exists n sched, Loses (mk RecThenPub SubThenSnap f None) n sched.
Proof.
  intros f Hf. exists 1, [AS 0; AP; AP; AS 0]. split; [reflexivity|].
  destruct f; [congruence| |]; (eexists; split; [vm_compute; reflexivity|]; split; [reflexivity|]; vm_compute; discriminate).
Qed.
Lemma ge_filter_duplicates :
  map (delivered (mk RecThenPub SubThenSnap FilterGeLast None))
      (g_subs (final (mk RecThenPub SubThenSnap FilterGeLast None) 1 1 [AS 0; AP; AP; AS 0])) = [[0; 0]].
Proof. vm_compute. reflexivity. Qed.

(* NoLag is necessary: capacity 1, two frames published before the receiver is read *)
Lemma lag_refuted : exists n sched, Loses (mk RecThenPub SubThenSnap FilterGtLast (Some 1)) n sched.
Proof.
  exists 2, [AS 0; AS 0; AP; AP; AP; AP]. split; [reflexivity|].
  eexists. split; [vm_compute; reflexivity|]. split; [reflexivity|]. vm_compute. discriminate.
Qed.

(* ---------- non-vacuity ---------- *)
Definition demo_sched : list actor := [AP; AS 0; AP; AS 1; AP; AS 0; AS 1; AP; AS 0; AP; AP; AS 2; AS 2].
Lemma demo_run :
  g_prog (final okc 3 3 demo_sched) = []
  /\ map (delivered okc) (g_subs (final okc 3 3 demo_sched)) = [[0; 1; 2]; [0; 1; 2]; [0; 1; 2]]
  /\ map attached (g_subs (final okc 3 3 demo_sched)) = [true; true; true].
Proof. vm_compute. repeat split. Qed.
(* mid-run: subscriber 0 attached inside the run, subscriber 2 not attached yet *)
Lemma demo_mid_run :
  g_prog (final okc 3 3 (firstn 7 demo_sched)) <> []
  /\ map attached (g_subs (final okc 3 3 (firstn 7 demo_sched))) = [true; true; false]
  /\ map (delivered okc) (g_subs (final okc 3 3 (firstn 7 demo_sched))) = [[0; 1]; [0; 1]; []].
Proof. vm_compute. repeat split. discriminate. Qed.
(* a shared channel: frames of other streams (AO) interleaved everywhere, capacity 4 *)
Definition demo_shared_sched : list actor := [AO; AP; AS 0; AO; AP; AS 1; AP; AO; AS 0; AS 1; AP; AS 0; AP; AO; AP; AS 2; AS 2].
Lemma demo_shared :
  NoLag (final (code_cfg (Some 7)) 3 3 demo_shared_sched)
  /\ g_prog (final (code_cfg (Some 7)) 3 3 demo_shared_sched) = []
  /\ map (delivered (code_cfg (Some 7))) (g_subs (final (code_cfg (Some 7)) 3 3 demo_shared_sched)) = [[0; 1; 2]; [0; 1; 2]; [0; 1; 2]]
  /\ count_other demo_shared_sched = 4.
Proof. vm_compute. repeat split. Qed.
Lemma demo_nolag :
  NoLag (final (code_cfg (Some 3)) 3 3 demo_sched)
  /\ map attached (g_subs (final (code_cfg (Some 3)) 3 3 demo_sched)) = [true; true; true].
Proof. vm_compute. repeat split. Qed.

(* ---------- the statements of Props/C06.v ---------- *)
Lemma cfg_ok_of c : c_p c = RecThenPub -> c_s c = SubThenSnap -> c_f c = FilterGtLast -> cfg_ok c = true.
Proof. unfold cfg_ok. intros -> -> ->. reflexivity. Qed.

Lemma with_cap_same c cap : c_cap c = cap -> with_cap c cap = c.
Proof. destruct c; cbn. intros ->. reflexivity. Qed.

Theorem exactly_once_thm : forall (c : cfg),
  c_p c = RecThenPub -> c_s c = SubThenSnap -> c_f c = FilterGtLast -> c_cap c = None ->
  forall (n m : nat) (sched : list actor) (i : nat) (x : sub),
  nth_error (g_subs (final c n m sched)) i = Some x -> attached x = true ->
  ExactlyOnce c n (final c n m sched) x.
Proof.
  intros c H1 H2 H3 H4 n m sched i x. exact (exactly_once c (cfg_ok_of c H1 H2 H3) H4 n m sched i x).
Qed.

Theorem exactly_once_nolag_thm : forall (c : cfg) (cap : nat),
  c_p c = RecThenPub -> c_s c = SubThenSnap -> c_f c = FilterGtLast -> c_cap c = Some cap ->
  forall (n m : nat) (sched : list actor) (i : nat) (x : sub),
  NoLag (final c n m sched) ->
  nth_error (g_subs (final c n m sched)) i = Some x -> attached x = true ->
  ExactlyOnce c n (final c n m sched) x.
Proof.
  intros c cap H1 H2 H3 H4 n m sched i x. rewrite <- (with_cap_same c (Some cap) H4).
  exact (exactly_once_bounded c cap (cfg_ok_of c H1 H2 H3) n m sched i x).
Qed.

Theorem lag_bound_thm : forall (c : cfg) (cap n m : nat) (sched : list actor),
  c_cap c = Some cap -> n + count_other sched <= cap -> NoLag (final c n m sched).
Proof.
  intros c cap n m sched H4 Hn. rewrite <- (with_cap_same c (Some cap) H4). exact (lag_bound c cap n m sched Hn).
Qed.

Theorem body_is_prefix_thm : forall (c : cfg),
  c_p c = RecThenPub -> c_s c = SubThenSnap -> c_f c = FilterGtLast -> c_cap c = None ->
  forall (n m : nat) (sched : list actor) (i : nat) (x : sub),
  nth_error (g_subs (final c n m sched)) i = Some x -> exists k, s_out x = seq 0 k /\ k <= n.
Proof.
  intros c H1 H2 H3 H4. rewrite (cfg_ok_eq c (cfg_ok_of c H1 H2 H3) H4). exact out_is_prefix.
Qed.

(* the generated stream kinds (Gen/StreamOrder.v) feed the theorems through wf_kinds *)
Lemma wf_kinds_in l k : wf_kinds l = true -> In k l -> cfg_ok (kind_cfg k None) = true.
Proof.
  unfold wf_kinds. intros H Hin. apply andb_prop in H. destruct H as (H & _). apply andb_prop in H.
  destruct H as (_ & H). rewrite forallb_forall in H. specialize (H k Hin). unfold wf_kind in H.
  apply andb_prop in H. destruct H as (H & _). apply andb_prop in H. exact (proj1 H).
Qed.

Lemma wf_kinds_span l k : wf_kinds l = true -> In k l -> k_span k = SpanEmit.
Proof.
  unfold wf_kinds. intros H Hin. apply andb_prop in H. destruct H as (H & _). apply andb_prop in H.
  destruct H as (_ & H). rewrite forallb_forall in H. specialize (H k Hin). unfold wf_kind in H.
  apply andb_prop in H. destruct H as (_ & H). destruct (k_span k); [reflexivity|discriminate].
Qed.

Theorem exactly_once_kinds : forall (l : list kind_orders), wf_kinds l = true ->
  forall (k : kind_orders), In k l ->
  forall (n m : nat) (sched : list actor) (i : nat) (x : sub),
  NoLag (final (kind_code_cfg k) n m sched) ->
  nth_error (g_subs (final (kind_code_cfg k) n m sched)) i = Some x -> attached x = true ->
  ExactlyOnce (kind_code_cfg k) n (final (kind_code_cfg k) n m sched) x.
Proof.
  intros l Hl k Hk. exact (exactly_once_bounded (kind_cfg k None) (kind_cap k) (wf_kinds_in l k Hl Hk)).
Qed.

Theorem short_stream_kinds : forall (l : list kind_orders), wf_kinds l = true ->
  forall (k : kind_orders), In k l ->
  forall (n m : nat) (sched : list actor) (i : nat) (x : sub), n + count_other sched <= kind_cap k ->
  nth_error (g_subs (final (kind_code_cfg k) n m sched)) i = Some x -> attached x = true ->
  ExactlyOnce (kind_code_cfg k) n (final (kind_code_cfg k) n m sched) x.
Proof.
  intros l Hl k Hk n m sched i x Hn.
  exact (exactly_once_small (kind_cfg k None) (kind_cap k) (wf_kinds_in l k Hl Hk) n m sched i x Hn).
Qed.

Lemma wf_kinds_names l : wf_kinds l = true -> map k_name l = [0%N; 1%N; 2%N].
Proof. unfold wf_kinds. intros H. apply andb_prop in H. apply lN_eqb_spec. exact (proj2 H). Qed.

(* ---------- S8 in general: in a stream of ANY length the unfixed order can lose ANY frame ---------- *)
Definition s8_sched_for (n k : nat) : list actor := repeat AP (2 * k) ++ [AP; AS 0; AS 0] ++ repeat AP (2 * (n - k)).

Definition ust (n k : nat) (x : sub) : st :=
  {| g_prog := rest PubThenRec n k; g_hist := seq 0 k; g_subs := [x] |}.

Lemma run_app c a b s : run c (a ++ b) s = run c b (run c a s).
Proof. unfold run. apply fold_left_app. Qed.

(* two producer steps of the unfixed order = one whole frame *)
Lemma unfixed_frame n k x : k < n ->
  run unfixed_cfg [AP; AP] (ust n k x) = ust n (S k) (deliver None (Some k) x).
Proof.
  intros H. unfold ust, run. cbn [fold_left step g_prog]. rewrite rest_unfold by lia.
  cbn [frame_steps app g_prog g_hist g_subs map unfixed_cfg mk c_cap]. f_equal. rewrite <- seq_snoc. reflexivity.
Qed.

Lemma repeat_two_S j : repeat AP (2 * S j) = [AP; AP] ++ repeat AP (2 * j).
Proof. replace (2 * S j) with (S (S (2 * j))) by lia. reflexivity. Qed.

(* frames k .. k+j-1 pass a subscriber that is not subscribed yet *)
Lemma unfixed_frames_unsub n : forall j k x, k + j <= n -> s_live x = None ->
  run unfixed_cfg (repeat AP (2 * j)) (ust n k x) = ust n (k + j) x.
Proof.
  induction j as [|j IH]; intros k x H Hl.
  - replace (k + 0) with k by lia. reflexivity.
  - rewrite repeat_two_S, run_app, unfixed_frame by lia.
    assert (deliver None (Some k) x = x) as E by (unfold deliver; rewrite Hl; reflexivity).
    rewrite E, IH by (assumption || lia). f_equal. lia.
Qed.

(* ... and are queued, in order, for a subscribed one *)
Lemma unfixed_frames_sub n : forall j k pc q h o lag, k + j <= n ->
  run unfixed_cfg (repeat AP (2 * j)) (ust n k {| s_pc := pc; s_live := Some q; s_hist := h; s_out := o; s_lag := lag |})
  = ust n (k + j) {| s_pc := pc; s_live := Some (q ++ map Some (seq k j)); s_hist := h; s_out := o; s_lag := lag |}.
Proof.
  induction j as [|j IH]; intros k pc q h o lag H.
  - replace (k + 0) with k by lia. cbn [seq map]. rewrite app_nil_r. reflexivity.
  - rewrite repeat_two_S, run_app, unfixed_frame by lia.
    unfold deliver. cbn [s_live push_live s_pc s_hist s_out s_lag orb]. rewrite orb_false_r.
    rewrite IH by lia. cbn [seq map]. rewrite <- app_assoc. cbn [app].
    replace (k + S j) with (S k + j) by lia. reflexivity.
Qed.

Lemma init_ust n : init unfixed_cfg n 1 = ust n 0 fresh.
Proof. reflexivity. Qed.

(* the subscriber attaches inside the window of frame k: it receives every frame EXCEPT k *)
Theorem pub_then_rec_loses_any_frame : forall n k, k < n ->
  g_prog (final unfixed_cfg n 1 (s8_sched_for n k)) = [] /\
  map attached (g_subs (final unfixed_cfg n 1 (s8_sched_for n k))) = [true] /\
  map (delivered unfixed_cfg) (g_subs (final unfixed_cfg n 1 (s8_sched_for n k))) = [seq 0 k ++ seq (S k) (n - S k)].
Proof.
  intros n k H. unfold final, s8_sched_for. rewrite !run_app, init_ust.
  rewrite unfixed_frames_unsub by (reflexivity || lia). cbn [Nat.add].
  (* Pub k (nobody subscribed), subscribe, snapshot *)
  assert (run unfixed_cfg [AP; AS 0; AS 0] (ust n k fresh) =
          {| g_prog := Rec k :: rest PubThenRec n (S k); g_hist := seq 0 k;
             g_subs := [{| s_pc := 2; s_live := Some []; s_hist := Some (seq 0 k); s_out := seq 0 k; s_lag := false |}] |}) as E.
  { unfold ust, run. cbn [fold_left step g_prog]. rewrite rest_unfold by lia. reflexivity. }
  rewrite E. clear E.
  (* Rec k, then the remaining whole frames, then one idle producer step *)
  replace (repeat AP (2 * (n - k))) with ([AP] ++ repeat AP (2 * (n - S k)) ++ [AP]).
  2:{ change [AP] with (repeat AP 1). rewrite <- !repeat_app. f_equal. lia. }
  rewrite !run_app.
  assert (run unfixed_cfg [AP] {| g_prog := Rec k :: rest PubThenRec n (S k); g_hist := seq 0 k;
           g_subs := [{| s_pc := 2; s_live := Some []; s_hist := Some (seq 0 k); s_out := seq 0 k; s_lag := false |}] |}
          = ust n (S k) {| s_pc := 2; s_live := Some []; s_hist := Some (seq 0 k); s_out := seq 0 k; s_lag := false |}) as E.
  { unfold ust, run. cbn [fold_left step g_prog g_hist g_subs]. f_equal. rewrite <- seq_snoc. reflexivity. }
  rewrite E. clear E.
  rewrite unfixed_frames_sub by lia. replace (S k + (n - S k)) with n by lia.
  unfold ust. rewrite rest_nil by lia. cbn [run fold_left step g_prog app g_subs map].
  cbn [attached s_pc Nat.leb]. repeat split.
  unfold delivered, do_drain. cbn [s_live s_hist s_out app unfixed_cfg mk c_f]. f_equal. f_equal.
  assert (forall l, own (map Some l) = l) as Hown.
  { induction l as [|a l IHl]; [reflexivity|]. cbn [map own flat_map app] in *. f_equal. exact IHl. }
  rewrite Hown. rewrite (filter_ext _ (fun j => Nat.leb k j)) by (intros j; apply keep_gt_seq).
  rewrite filter_ge_seq. f_equal; lia.
Qed.

(* ---------- several producers on one stream: with the seq mutex spanning the whole emit they are ONE producer ---------- *)
Lemma actives_nil_upd ps : actives ps = [] -> forall j f,
  actives (upd_nth j f ps) = match nth_error ps j with Some p => actives [f p] | None => [] end.
Proof.
  induction ps as [|p r IH]; intros H j f; [destruct j; reflexivity|].
  unfold actives in *. cbn [map filter] in H. destruct (negb (is_idle (fst p))) eqn:E; [discriminate|].
  destruct j as [|j]; cbn [upd_nth nth_error map filter].
  - rewrite H. destruct (negb (is_idle (fst (f p)))); reflexivity.
  - rewrite E. apply IH. exact H.
Qed.

Lemma actives_nth_nonidle ps : forall j ph l, nth_error ps j = Some (ph, l) -> is_idle ph = false -> In ph (actives ps).
Proof.
  induction ps as [|p r IH]; intros j ph l Hn Hi; [destruct j; discriminate|].
  unfold actives in *. cbn [map filter]. destruct j as [|j]; cbn [nth_error] in Hn.
  - inversion Hn; subst p. cbn [fst]. rewrite Hi. left. reflexivity.
  - destruct (negb (is_idle (fst p))); [right|]; eapply IH; eauto.
Qed.

Lemma actives_one_upd ps a : actives ps = [a] -> forall j l f, nth_error ps j = Some (a, l) ->
  actives (upd_nth j f ps) = actives [f (a, l)].
Proof.
  induction ps as [|p r IH]; intros H j l f Hn; [destruct j; discriminate|].
  assert (is_idle a = false) as Ha.
  { assert (In a (actives (p :: r))) as Hin by (rewrite H; left; reflexivity).
    unfold actives in Hin. apply filter_In in Hin. destruct Hin as (_ & Hb). destruct (is_idle a); [discriminate|reflexivity]. }
  unfold actives in *. cbn [map filter] in H. destruct j as [|j]; cbn [nth_error] in Hn; cbn [upd_nth map filter].
  - inversion Hn; subst p. cbn [fst] in H. rewrite Ha in H. cbn [negb] in H. inversion H as [Hr]. rewrite Hr.
    destruct (negb (is_idle (fst (f (a, l))))); reflexivity.
  - destruct (negb (is_idle (fst p))) eqn:E.
    + inversion H as [[Hp Hr]]. exfalso.
      pose proof (actives_nth_nonidle r j a l Hn Ha) as Hin. unfold actives in Hin. rewrite Hr in Hin. destruct Hin.
    + apply (IH H j l f Hn).
Qed.

Lemma actives_one_is ps a : actives ps = [a] -> forall j ph l, nth_error ps j = Some (ph, l) -> is_idle ph = false -> ph = a.
Proof.
  intros H j ph l Hn Hi. pose proof (actives_nth_nonidle ps j ph l Hn Hi) as Hin. rewrite H in Hin.
  destruct Hin as [E|[]]. symmetry. exact E.
Qed.

Lemma work_left_upd ps : forall j ph l ph' l', nth_error ps j = Some (ph, l) ->
  work_left (upd_nth j (fun _ => (ph', l')) ps) + l = work_left ps + l'.
Proof.
  induction ps as [|p r IH]; intros j ph l ph' l' Hn; [destruct j; discriminate|].
  destruct j as [|j]; cbn [nth_error] in Hn; cbn [upd_nth work_left fold_right].
  - inversion Hn; subst p. cbn [snd]. fold (work_left r). lia.
  - fold (work_left r) (work_left (upd_nth j (fun _ => (ph', l')) r)). specialize (IH j ph l ph' l' Hn). lia.
Qed.

(* the invariant of SpanEmit: at most one producer is inside its emit, and it holds the latest number *)
Definition MInv (s : mst) : Prop :=
  actives (m_prods s) = [] \/
  (exists k, actives (m_prods s) = [MChosen k] /\ m_next s = S k) \/
  (exists k, actives (m_prods s) = [MRecorded k] /\ m_next s = S k).

(* every step of the multi-producer system is a step of the one-producer model, or leaves its view unchanged *)
Lemma mstep_view c s a : c_p c = RecThenPub -> MInv s ->
  MInv (mstep c SpanEmit s a) /\
  (mview (mstep c SpanEmit s a) = mview s \/ exists a', mview (mstep c SpanEmit s a) = step c (mview s) a').
Proof.
  intros Hp HI. destruct a as [j|i|].
  - (* producer j *)
    cbn [mstep]. unfold prod_step. destruct (nth_error (m_prods s) j) as [[ph l]|] eqn:En; [|split; [exact HI|left; reflexivity]].
    destruct ph as [|k|k].
    + (* idle *)
      destruct l as [|l]; [split; [exact HI|left; reflexivity]|].
      destruct (actives (m_prods s)) as [|a0 r0] eqn:Ea; [|split; [exact HI|left; reflexivity]].
      pose proof (actives_nil_upd _ Ea j (fun _ => (MChosen (m_next s), l))) as Hu. rewrite En in Hu.
      split.
      * right; left. exists (m_next s). cbn [m_prods m_next]. rewrite Hu. split; reflexivity.
      * left. unfold mview. cbn [m_prods m_next m_hist m_subs]. rewrite Hu, Ea. cbn [actives map filter fst is_idle negb].
        pose proof (work_left_upd _ j MIdle (S l) (MChosen (m_next s)) l En) as Hw. f_equal. f_equal. lia.
    + (* chosen k: record *)
      destruct HI as [Ea|[(k0 & Ea & Hn)|(k0 & Ea & Hn)]].
      * pose proof (actives_nth_nonidle _ j _ l En eq_refl) as Hin. rewrite Ea in Hin. destruct Hin.
      * pose proof (actives_one_is _ _ Ea j _ l En eq_refl) as E. inversion E; subst k0.
        pose proof (actives_one_upd _ _ Ea j l (fun _ => (MRecorded k, l)) En) as Hu.
        split.
        -- right; right. exists k. cbn [m_prods m_next]. rewrite Hu. split; [reflexivity|exact Hn].
        -- right. exists AP. unfold mview. cbn [m_prods m_next m_hist m_subs]. rewrite Hu, Ea.
           cbn [actives map filter fst is_idle negb].
           pose proof (work_left_upd _ j (MChosen k) l (MRecorded k) l En) as Hw.
           replace (work_left (upd_nth j (fun _ => (MRecorded k, l)) (m_prods s))) with (work_left (m_prods s)) by lia.
           rewrite (rest_unfold RecThenPub _ k) by lia. cbn [frame_steps app step g_prog g_hist g_subs]. reflexivity.
      * pose proof (actives_one_is _ _ Ea j _ l En eq_refl) as E. discriminate E.
    + (* recorded k: publish *)
      destruct HI as [Ea|[(k0 & Ea & Hn)|(k0 & Ea & Hn)]].
      * pose proof (actives_nth_nonidle _ j _ l En eq_refl) as Hin. rewrite Ea in Hin. destruct Hin.
      * pose proof (actives_one_is _ _ Ea j _ l En eq_refl) as E. discriminate E.
      * pose proof (actives_one_is _ _ Ea j _ l En eq_refl) as E. inversion E; subst k0.
        pose proof (actives_one_upd _ _ Ea j l (fun _ => (MIdle, l)) En) as Hu.
        split.
        -- left. cbn [m_prods]. rewrite Hu. reflexivity.
        -- right. exists AP. unfold mview. cbn [m_prods m_next m_hist m_subs]. rewrite Hu, Ea.
           cbn [actives map filter fst is_idle negb step g_prog g_hist g_subs].
           pose proof (work_left_upd _ j (MRecorded k) l MIdle l En) as Hw.
           replace (work_left (upd_nth j (fun _ => (MIdle, l)) (m_prods s))) with (work_left (m_prods s)) by lia.
           rewrite Hn. reflexivity.
  - split; [exact HI|]. right. exists (AS i). reflexivity.
  - split; [exact HI|]. right. exists AO. reflexivity.
Qed.

Lemma mrun_view c : c_p c = RecThenPub -> forall msched s, MInv s ->
  exists sched, mview (mrun c SpanEmit msched s) = run c sched (mview s).
Proof.
  intros Hp. induction msched as [|a l IH]; intros s HI; [exists []; reflexivity|].
  destruct (mstep_view c s a Hp HI) as (HI' & Hv). destruct (IH _ HI') as (sched & E).
  unfold mrun in *. cbn [fold_left]. rewrite E. destruct Hv as [Hv|(a' & Hv)]; rewrite Hv.
  - exists sched. reflexivity.
  - exists (a' :: sched). reflexivity.
Qed.

Lemma work_left_map work : work_left (map (fun w => (MIdle, w)) work) = fold_right Nat.add 0 work.
Proof. induction work as [|w r IH]; [reflexivity|]. cbn [map work_left fold_right snd] in *. fold (work_left (map (fun w => (MIdle, w)) r)). rewrite IH. reflexivity. Qed.

Lemma actives_minit work : actives (map (fun w => (MIdle, w)) work) = [].
Proof. induction work as [|w r IH]; [reflexivity|]. unfold actives in *. cbn [map filter fst is_idle negb]. exact IH. Qed.

Lemma mview_minit c work m : c_p c = RecThenPub -> mview (minit work m) = init c (fold_right Nat.add 0 work) m.
Proof.
  intros Hp. unfold mview, minit, init. cbn [m_next m_prods m_hist m_subs]. rewrite actives_minit, work_left_map, Hp.
  reflexivity.
Qed.

(* any number of producers, any split of the frames among them, any schedule: the subscribers of the multi-producer
   system are subscribers of a one-producer stream of the same total length, so exactly-once carries over *)
Theorem multi_producer_exactly_once : forall (c : cfg),
  c_p c = RecThenPub -> c_s c = SubThenSnap -> c_f c = FilterGtLast -> c_cap c = None ->
  forall (work : list nat) (m : nat) (msched : list mactor) (i : nat) (x : sub),
  nth_error (m_subs (mfinal c SpanEmit work m msched)) i = Some x -> attached x = true ->
  ExactlyOnce c (fold_right Nat.add 0 work) (mview (mfinal c SpanEmit work m msched)) x.
Proof.
  intros c H1 H2 H3 H4 work m msched i x Hn Ha. unfold mfinal in *.
  assert (MInv (minit work m)) as HI by (left; apply actives_minit).
  destruct (mrun_view c H1 msched _ HI) as (sched & E). rewrite E, (mview_minit c work m H1).
  apply (exactly_once_thm c H1 H2 H3 H4 _ m sched i x); [|exact Ha].
  unfold final. rewrite <- (mview_minit c work m H1), <- E. exact Hn.
Qed.

(* with the mutex narrowed to the counter two producers lose a frame: A takes 0, B takes 1, B records and publishes 1,
   the subscriber attaches (history [1], last = 1), A records and publishes 0 - dropped by `seq > last` *)
Definition narrowed_sched : list mactor := [MP 0; MP 1; MP 1; MP 1; MS 0; MS 0; MP 0; MP 0].
Lemma span_counter_refuted :
  m_hist (mfinal okc SpanCounter [1; 1] 1 narrowed_sched) = [1; 0]
  /\ map attached (m_subs (mfinal okc SpanCounter [1; 1] 1 narrowed_sched)) = [true]
  /\ map (delivered okc) (m_subs (mfinal okc SpanCounter [1; 1] 1 narrowed_sched)) = [[1]]
  /\ actives (m_prods (mfinal okc SpanCounter [1; 1] 1 narrowed_sched)) = []
  /\ work_left (m_prods (mfinal okc SpanCounter [1; 1] 1 narrowed_sched)) = 0.
Proof. vm_compute. repeat split. Qed.
(* the same schedule under SpanEmit: B is blocked until A is done, nothing is lost *)
Lemma span_emit_same_schedule :
  map (delivered okc) (m_subs (mfinal okc SpanEmit [1; 1] 1 (narrowed_sched ++ [MP 1; MP 1; MP 1; MS 0]))) = [[0; 1]]
  /\ m_hist (mfinal okc SpanEmit [1; 1] 1 (narrowed_sched ++ [MP 1; MP 1; MP 1; MS 0])) = [0; 1].
Proof. vm_compute. repeat split. Qed.

(* for the stream kinds read from the source: the span is the extracted one *)
Theorem multi_producer_kinds : forall (l : list kind_orders), wf_kinds l = true ->
  forall (k : kind_orders), In k l ->
  forall (work : list nat) (m : nat) (msched : list mactor) (i : nat) (x : sub),
  nth_error (m_subs (mfinal (kind_cfg k None) (k_span k) work m msched)) i = Some x -> attached x = true ->
  ExactlyOnce (kind_cfg k None) (fold_right Nat.add 0 work) (mview (mfinal (kind_cfg k None) (k_span k) work m msched)) x.
Proof.
  intros l Hl k Hk. rewrite (wf_kinds_span l k Hl Hk). rewrite (cfg_ok_eq _ (wf_kinds_in l k Hl Hk) eq_refl).
  exact (multi_producer_exactly_once okc eq_refl eq_refl eq_refl eq_refl).
Qed.

(* ---------- the history buffer over time: monotone <-> the buffer statements only read ---------- *)
Lemma erun_app c a b s : erun c (a ++ b) s = erun c b (erun c a s).
Proof. unfold erun. apply fold_left_app. Qed.

Lemma eproj_app a b : eproj (a ++ b) = eproj a ++ eproj b.
Proof. unfold eproj. apply flat_map_app. Qed.

Lemma set_hist_same s : set_hist s (g_hist s) = s.
Proof. destruct s; reflexivity. Qed.

Lemma is_prefix_refl a : is_prefix a a.
Proof. exists []. symmetry. apply app_nil_r. Qed.

Lemma is_prefix_trans a b d : is_prefix a b -> is_prefix b d -> is_prefix a d.
Proof. intros (x & ->) (y & ->). exists (x ++ y). symmetry. apply app_assoc. Qed.

Lemma is_prefix_nil a : is_prefix a [] -> a = [].
Proof. intros (x & H). symmetry in H. apply app_eq_nil in H. exact (proj1 H). Qed.

Lemma is_prefix_firstn a k : is_prefix a (firstn k a) -> firstn k a = a.
Proof.
  intros (x & H). assert (length (firstn k a) <= length a) as Hl by (rewrite firstn_length; lia).
  rewrite H, app_length in Hl. destruct x as [|y x]; [rewrite app_nil_r in H; exact H|cbn [length] in Hl; lia].
Qed.

(* a statement under which the history stays prefix-ordered leaves it (and the moved-out frames) as they were *)
Lemma bufop_monotone_id o h : is_prefix h (fst (bufop_apply o h [])) -> bufop_apply o h [] = (h, []).
Proof.
  destruct o as [| | | |k]; cbn [bufop_apply fst]; intros H; try reflexivity.
  - rewrite (is_prefix_nil _ H). reflexivity.
  - rewrite (is_prefix_nil _ H). reflexivity.
  - rewrite (is_prefix_nil _ H). reflexivity.
  - rewrite (is_prefix_firstn _ _ H). reflexivity.
Qed.

Lemma HistMonotone_init c n m ops l a : HistMonotone c n m ops (l ++ [a]) -> HistMonotone c n m ops l.
Proof.
  intros H s1 s2 s3 E. apply (H s1 s2 (s3 ++ [a])). rewrite E, <- !app_assoc. reflexivity.
Qed.

(* a run whose history is monotone IS a run of the stream model on the same schedule (the buffer statements stutter) *)
Lemma monotone_run_eq c n m ops : forall sched, HistMonotone c n m ops sched ->
  e_st (efinal c n m ops sched) = final c n m (eproj sched) /\ e_taken (efinal c n m ops sched) = [].
Proof.
  induction sched as [|a l IH] using rev_ind; intros H; [split; reflexivity|].
  destruct (IH (HistMonotone_init _ _ _ _ _ _ H)) as (Est & Etk).
  unfold efinal in *. rewrite erun_app. cbn [erun fold_left]. rewrite eproj_app. unfold final in *. rewrite run_app.
  destruct a as [a'|]; cbn [estep eproj flat_map app run fold_left e_st e_taken].
  - rewrite Est. split; [reflexivity|exact Etk].
  - destruct (e_ops (erun c l (einit c n m ops))) as [|o r] eqn:Eo; [split; assumption|].
    cbn [e_st e_taken].
    assert (is_prefix (g_hist (e_st (erun c l (einit c n m ops))))
                      (fst (bufop_apply o (g_hist (e_st (erun c l (einit c n m ops)))) []))) as Hp.
    { specialize (H l [EB] [] eq_refl). unfold ehist, efinal in H. rewrite erun_app in H.
      cbn [erun fold_left estep] in H. rewrite Eo, Etk in H. exact H. }
    rewrite Etk. rewrite (bufop_monotone_id _ _ Hp). cbn [fst snd]. rewrite set_hist_same. split; [exact Est|reflexivity].
Qed.

Theorem end_of_run_exactly_once : forall (c : cfg),
  c_p c = RecThenPub -> c_s c = SubThenSnap -> c_f c = FilterGtLast -> c_cap c = None ->
  forall (ops : list bufop) (n m : nat) (sched : list eactor) (i : nat) (x : sub),
  HistMonotone c n m ops sched ->
  nth_error (g_subs (e_st (efinal c n m ops sched))) i = Some x -> attached x = true ->
  ExactlyOnce c n (e_st (efinal c n m ops sched)) x.
Proof.
  intros c H1 H2 H3 H4 ops n m sched i x Hm. destruct (monotone_run_eq c n m ops sched Hm) as (E & _). rewrite E.
  apply exactly_once_thm; assumption.
Qed.

(* the stream model never shrinks the history ... *)
Lemma step_hist_grows c s a : is_prefix (g_hist s) (g_hist (step c s a)).
Proof.
  destruct a as [|i|]; cbn [step]; try apply is_prefix_refl.
  destruct (g_prog s) as [|[k|k] r]; cbn [g_hist]; try apply is_prefix_refl. exists [k]. reflexivity.
Qed.

(* ... and neither do buffer statements that only read *)
Lemma estep_reads_grows c s a : buffer_ops_ok (e_ops s) = true ->
  buffer_ops_ok (e_ops (estep c s a)) = true /\ is_prefix (g_hist (e_st s)) (g_hist (e_st (estep c s a))).
Proof.
  intros Hk. destruct a as [a'|]; cbn [estep e_ops e_st].
  - split; [exact Hk|apply step_hist_grows].
  - destruct (e_ops s) as [|o r] eqn:Eo; [rewrite Eo; split; [reflexivity|apply is_prefix_refl]|].
    cbn [buffer_ops_ok forallb] in Hk. apply andb_prop in Hk. destruct Hk as (Ho & Hr).
    cbn [e_ops e_st]. split; [exact Hr|]. destruct o; try discriminate. cbn [bufop_apply fst set_hist g_hist].
    apply is_prefix_refl.
Qed.

Lemma erun_reads_grows c : forall sched s, buffer_ops_ok (e_ops s) = true ->
  buffer_ops_ok (e_ops (erun c sched s)) = true /\ is_prefix (g_hist (e_st s)) (g_hist (e_st (erun c sched s))).
Proof.
  induction sched as [|a l IH]; intros s Hk; [split; [exact Hk|apply is_prefix_refl]|].
  cbn [erun fold_left]. destruct (estep_reads_grows c s a Hk) as (Hk' & Hp). destruct (IH _ Hk') as (Hk'' & Hp').
  split; [exact Hk''|]. eapply is_prefix_trans; eassumption.
Qed.

(* c06_history_monotone: when every buffer statement of the producer's code only reads (the generated obligation), the
   recorded history is prefix-ordered over time - every configuration, every schedule, wherever the statements run *)
Theorem history_monotone : forall (ops : list bufop), buffer_ops_ok ops = true ->
  forall (c : cfg) (n m : nat) (sched : list eactor), HistMonotone c n m ops sched.
Proof.
  intros ops Hk c n m sched s1 s2 s3 _. unfold ehist, efinal. rewrite erun_app.
  apply erun_reads_grows. apply (erun_reads_grows c s1 (einit c n m ops)). exact Hk.
Qed.

Theorem end_of_run_exactly_once_reads : forall (c : cfg),
  c_p c = RecThenPub -> c_s c = SubThenSnap -> c_f c = FilterGtLast -> c_cap c = None ->
  forall (ops : list bufop), buffer_ops_ok ops = true ->
  forall (n m : nat) (sched : list eactor) (i : nat) (x : sub),
  nth_error (g_subs (e_st (efinal c n m ops sched))) i = Some x -> attached x = true ->
  ExactlyOnce c n (e_st (efinal c n m ops sched)) x.
Proof.
  intros c H1 H2 H3 H4 ops Hk n m sched i x. apply end_of_run_exactly_once; try assumption.
  apply history_monotone. exact Hk.
Qed.

Theorem end_of_run_kinds : forall (l : list kind_orders), wf_kinds l = true ->
  forall (ops : list bufop), buffer_ops_ok ops = true ->
  forall (k : kind_orders), In k l ->
  forall (n m : nat) (sched : list eactor) (i : nat) (x : sub),
  nth_error (g_subs (e_st (efinal (kind_cfg k None) n m ops sched))) i = Some x -> attached x = true ->
  ExactlyOnce (kind_cfg k None) n (e_st (efinal (kind_cfg k None) n m ops sched)) x.
Proof.
  intros l Hl ops Hk k Hin. rewrite (cfg_ok_eq _ (wf_kinds_in l k Hl Hin) eq_refl).
  exact (end_of_run_exactly_once_reads okc eq_refl eq_refl eq_refl eq_refl ops Hk).
Qed.

(* take-and-restore around the snapshot write (seed C06-4): the 3 frames are recorded and published, the buffer is moved
   out, a subscriber attaches (subscribe, snapshot: EMPTY history, nothing live any more), the buffer is put back *)
Definition take_restore_ops : list bufop := [BTake; BRead; BRestore].
Definition take_restore_sched : list eactor :=
  repeat (EA AP) 6 ++ [EB; EA (AS 0); EA (AS 0); EB; EB; EA (AS 0)].
Lemma take_restore_witness :
  g_prog (e_st (efinal okc 3 1 take_restore_ops take_restore_sched)) = []
  /\ g_hist (e_st (efinal okc 3 1 take_restore_ops take_restore_sched)) = [0; 1; 2]
  /\ e_ops (efinal okc 3 1 take_restore_ops take_restore_sched) = []
  /\ map attached (g_subs (e_st (efinal okc 3 1 take_restore_ops take_restore_sched))) = [true]
  /\ map (delivered okc) (g_subs (e_st (efinal okc 3 1 take_restore_ops take_restore_sched))) = [[]].
Proof. vm_compute. repeat split. Qed.
Lemma take_restore_not_monotone : ~ HistMonotone okc 3 1 take_restore_ops take_restore_sched.
Proof.
  intros H. specialize (H (repeat (EA AP) 6) [EB] [EA (AS 0); EA (AS 0); EB; EB; EA (AS 0)] eq_refl).
  destruct H as (ext & H). vm_compute in H. discriminate H.
Qed.
Lemma take_restore_refuted :
  ~ HistMonotone okc 3 1 take_restore_ops take_restore_sched
  /\ g_prog (e_st (efinal okc 3 1 take_restore_ops take_restore_sched)) = []
  /\ g_hist (e_st (efinal okc 3 1 take_restore_ops take_restore_sched)) = [0; 1; 2]
  /\ map attached (g_subs (e_st (efinal okc 3 1 take_restore_ops take_restore_sched))) = [true]
  /\ map (delivered okc) (g_subs (e_st (efinal okc 3 1 take_restore_ops take_restore_sched))) = [[]].
Proof.
  split; [exact take_restore_not_monotone|]. destruct take_restore_witness as (A & B & _ & D & E). repeat split; assumption.
Qed.
(* the same schedule with today's statement (read under the lock): everything arrives *)
Lemma read_only_same_schedule :
  buffer_ops_ok [BRead] = true
  /\ map (delivered okc) (g_subs (e_st (efinal okc 3 1 [BRead] take_restore_sched))) = [[0; 1; 2]].
Proof. vm_compute. split; reflexivity. Qed.
(* each of the other non-reading statements breaks it as well: clear / truncate before a late attach *)
Lemma clear_truncate_refuted :
  map (delivered okc) (g_subs (e_st (efinal okc 3 1 [BClear] (repeat (EA AP) 6 ++ [EB; EA (AS 0); EA (AS 0)])))) = [[]]
  /\ map (delivered okc) (g_subs (e_st (efinal okc 3 1 [BTruncate 1] (repeat (EA AP) 6 ++ [EB; EA (AS 0); EA (AS 0)])))) = [[0]].
Proof. vm_compute. split; reflexivity. Qed.

(* ---------- the thread kind's history source (replay_events = sidecar if try_replay accepts it, else the log) ---------- *)
Lemma sidecar_exact_seq : forall l e, sidecar_ok SeqExact e l = true -> l = seq e (length l).
Proof.
  induction l as [|k r IH]; intros e H; [reflexivity|]. cbn [sidecar_ok] in H. apply andb_prop in H. destruct H as (Hk & Hr).
  apply Nat.eqb_eq in Hk. subst k. cbn [length seq]. f_equal. apply IH, Hr.
Qed.

Lemma replay_ok_inv r : replay_ok r = true -> r_first r = 0 /\ r_cmp r = SeqExact.
Proof.
  unfold replay_ok. intros H. apply andb_prop in H. destruct H as (Hf & Hc). apply Nat.eqb_eq in Hf.
  destruct (r_cmp r); [auto|discriminate].
Qed.

(* whatever the sidecar holds: the history handed to a thread subscriber is the truth log or a gap-free run from seq 0 *)
Theorem thread_history_from_zero : forall (r : replay_check), replay_ok r = true ->
  forall (side : option (list nat)) (log : list nat),
  thread_history r side log = log \/ exists k, thread_history r side log = seq 0 k /\ side = Some (seq 0 k).
Proof.
  intros r Hr side log. destruct (replay_ok_inv r Hr) as (Hf & Hc). unfold thread_history.
  destruct side as [[|k l]|]; [left; reflexivity| |left; reflexivity].
  rewrite Hf, Hc. destruct (sidecar_ok SeqExact 0 (k :: l)) eqn:E; [|left; reflexivity].
  right. exists (length (k :: l)). rewrite <- (sidecar_exact_seq _ _ E). split; reflexivity.
Qed.

(* cache loss (deletion) at any moment j of a thread that has n frames now: the subscriber's history is the whole log *)
Theorem thread_history_after_loss : forall (r : replay_check), replay_ok r = true ->
  forall n j, j <= n -> thread_history r (sidecar_after_loss n j) (seq 0 n) = seq 0 n.
Proof.
  intros r Hr n j Hj. destruct (thread_history_from_zero r Hr (sidecar_after_loss n j) (seq 0 n)) as [E|(k & E & Hs)]; [exact E|].
  rewrite E. unfold sidecar_after_loss in Hs. destruct (Nat.ltb_spec j n) as [Hlt|Hge]; [|discriminate].
  inversion Hs as [Hq]. assert (length (seq j (n - j)) = length (seq 0 k)) as Hl by (rewrite Hq; reflexivity).
  rewrite !seq_length in Hl. subst k. destruct (n - j) as [|d] eqn:Ed; [lia|]. cbn [seq] in Hq. injection Hq as Hj0 _.
  f_equal; lia.
Qed.

(* seed C06-5: `seq < expected` accepts the truncated / holed sidecar *)
Definition weak_replay : replay_check := {| r_first := 0; r_cmp := SeqIncreasing |}.
Definition code_replay : replay_check := {| r_first := 0; r_cmp := SeqExact |}.
Lemma weak_replay_refuted :
  thread_history weak_replay (sidecar_after_loss 10 7) (seq 0 10) = [7; 8; 9]
  /\ thread_history weak_replay (Some [0; 1; 3; 4]) (seq 0 5) = [0; 1; 3; 4]
  /\ thread_history code_replay (sidecar_after_loss 10 7) (seq 0 10) = seq 0 10
  /\ thread_history code_replay (Some [0; 1; 3; 4]) (seq 0 5) = seq 0 5.
Proof. vm_compute. repeat split. Qed.

(* ---------- the repaired handlers (LagRefill): exactly-once on the bounded channel WITHOUT NoLag ---------- *)
Lemma keep_gt_seq0 o k : keep FilterGtLast (last_seq (seq 0 o)) k = Nat.leb o k.
Proof. apply keep_gt_seq. Qed.

Lemma emit_seq : forall len q o, q <= o -> emit_new (seq 0 o) (seq q len) = seq 0 (Nat.max o (q + len)).
Proof.
  induction len as [|len IH]; intros q o H.
  - cbn [seq emit_new]. f_equal. lia.
  - cbn [seq emit_new]. rewrite keep_gt_seq0. destruct (Nat.leb_spec o q) as [Hle|Hgt].
    + assert (o = q) by lia. subst o. change [q] with (seq q 1). replace q with (0 + q) at 2 by lia.
      rewrite <- seq_app. rewrite IH by lia. f_equal. lia.
    + rewrite IH by lia. f_equal. lia.
Qed.

Definition RPInv (n : nat) (s : rst) (p r : nat) : Prop :=
  r_hist s = seq 0 r /\
  ((r = p /\ p <= n /\ r_prog s = rest RecThenPub n p) \/
   (r = S p /\ p < n /\ r_prog s = Pub p :: rest RecThenPub n (S p))).

Definition RSInv (p r : nat) (x : rsub) : Prop :=
  (rs_pc x = 0 /\ rs_out x = []) \/
  (rs_pc x = 1 /\ exists q, q <= p /\ own (rs_live x) = seq q (p - q) /\ rs_out x = []) \/
  (2 <= rs_pc x /\ exists q o, q <= p /\ own (rs_live x) = seq q (p - q) /\ rs_out x = seq 0 o /\ o <= r /\
                    (rs_pend x = false -> q <= o)).

Definition RInv (n : nat) (s : rst) : Prop := exists p r, RPInv n s p r /\ Forall (RSInv p r) (r_subs s).

(* dropping the oldest pending entry keeps the own frames a contiguous run that ends at p *)
Lemma own_tl l q p : q <= p -> own l = seq q (p - q) -> exists q', q <= q' /\ q' <= p /\ own (tl l) = seq q' (p - q').
Proof.
  intros Hq H. destruct l as [|[k|] t]; cbn [tl].
  - exists q. auto.
  - cbn [own flat_map app] in H. fold (own t) in H. destruct (p - q) as [|d] eqn:Ed; [discriminate|].
    cbn [seq] in H. injection H as _ Ht. exists (S q). repeat split; try lia. rewrite Ht. f_equal. lia.
  - cbn [own flat_map app] in H. fold (own t) in H. exists q. auto.
Qed.

(* a frame arrives on the channel: frame p of this stream (p' = S p) or a frame of another stream (p' = p) *)
Lemma own_push l q p (k : option nat) p' :
  (k = Some p /\ p' = S p) \/ (k = None /\ p' = p) -> q <= p -> own l = seq q (p - q) -> own (l ++ [k]) = seq q (p' - q).
Proof.
  intros [(-> & ->)|(-> & ->)] Hq H; rewrite own_app, H; cbn [own flat_map app].
  - replace (S p - q) with (S (p - q)) by lia. rewrite <- seq_snoc. f_equal. f_equal. lia.
  - apply app_nil_r.
Qed.

Lemma RSInv_deliver cap p r x (k : option nat) p' :
  (k = Some p /\ p' = S p) \/ (k = None /\ p' = p) -> RSInv p r x -> RSInv p' r (rdeliver cap k x).
Proof.
  intros Hk H. assert (p <= p') as Hpp by (destruct Hk as [(_ & ->)|(_ & ->)]; lia).
  destruct H as [(Hpc & Ho)|[(Hpc & q & Hq & Hown & Ho)|(Hpc & q & o & Hq & Hown & Ho & Hor & Hpend)]]; unfold rdeliver.
  - rewrite Hpc. left. auto.
  - rewrite Hpc. cbn [push_live]. destruct (Nat.ltb (length (rs_live x)) cap).
    + right; left. cbn [rs_pc rs_live rs_out]. split; [first [exact Hpc | reflexivity]|]. exists q. repeat split; [lia| |exact Ho].
      apply (own_push _ _ p); assumption.
    + right; left. cbn [rs_pc rs_live rs_out]. split; [first [exact Hpc | reflexivity]|].
      destruct (own_tl _ _ _ Hq Hown) as (q' & Hq1 & Hq2 & Ht). exists q'. repeat split; [lia| |exact Ho].
      apply (own_push _ _ p); assumption.
  - destruct (rs_pc x) as [|pc] eqn:Epc; [lia|]. cbn [push_live]. destruct (Nat.ltb (length (rs_live x)) cap).
    + right; right. cbn [rs_pc rs_live rs_out rs_pend]. split; [lia|]. exists q, o. repeat split; try assumption; [lia| |].
      * apply (own_push _ _ p); assumption.
      * rewrite orb_false_r. exact Hpend.
    + right; right. cbn [rs_pc rs_live rs_out rs_pend]. split; [lia|].
      destruct (own_tl _ _ _ Hq Hown) as (q' & Hq1 & Hq2 & Ht). exists q', o. repeat split; try assumption; [lia| |].
      * apply (own_push _ _ p); assumption.
      * rewrite orb_true_r. discriminate.
Qed.

Lemma RSInv_rec p r x : RSInv p r x -> RSInv p (S r) x.
Proof.
  intros [H|[H|(Hpc & q & o & Hq & Hown & Ho & Hor & Hpend)]]; [left; exact H|right; left; exact H|].
  right; right. split; [exact Hpc|]. exists q, o. repeat split; auto.
Qed.

Lemma rdrain_spec p r x : p <= r -> 2 <= rs_pc x ->
  forall q o, q <= p -> own (rs_live x) = seq q (p - q) -> rs_out x = seq 0 o -> o <= r -> (rs_pend x = false -> q <= o) ->
  exists k, rs_out (rdrain LagRefill (seq 0 r) x) = seq 0 k /\ p <= k /\ k <= r.
Proof.
  intros Hpr Hpc q o Hq Hown Ho Hor Hpend. unfold rdrain. cbn [rs_out lag_refills]. rewrite andb_true_r, Hown, Ho.
  destruct (rs_pend x).
  - rewrite (emit_seq r 0 o) by lia. cbn [Nat.add]. replace (Nat.max o r) with r by lia.
    rewrite emit_seq by lia. exists (Nat.max r (q + (p - q))). split; [reflexivity|lia].
  - specialize (Hpend eq_refl). rewrite emit_seq by lia. exists (Nat.max o (q + (p - q))). split; [reflexivity|lia].
Qed.

Lemma RSInv_sub p r x : p <= r -> RSInv p r x -> RSInv p r (rsub_step LagRefill (seq 0 r) x).
Proof.
  intros Hpr [(Hpc & Ho)|[(Hpc & q & Hq & Hown & Ho)|(Hpc & q & o & Hq & Hown & Ho & Hor & Hpend)]]; unfold rsub_step.
  - rewrite Hpc. right; left. cbn [rs_pc rs_live rs_out]. split; [reflexivity|]. exists p. repeat split; [lia|].
    replace (p - p) with 0 by lia. reflexivity.
  - rewrite Hpc. right; right. cbn [rs_pc rs_live rs_out rs_pend]. split; [lia|]. exists q, r. repeat split; auto. intros _. lia.
  - destruct (rs_pc x) as [|[|pc]] eqn:Epc; [lia|lia|].
    destruct (rdrain_spec p r x Hpr ltac:(lia) q o Hq Hown Ho Hor Hpend) as (k & Hk & Hk1 & Hk2).
    right; right. split; [unfold rdrain; cbn [rs_pc]; lia|]. exists p, k. repeat split; try assumption; try lia.
    unfold rdrain. cbn [rs_live own flat_map]. replace (p - p) with 0 by lia. reflexivity.
Qed.

Lemma RInv_init n m : RInv n (rinit n m).
Proof.
  exists 0, 0. split.
  - split; [reflexivity|]. left. repeat split; lia.
  - cbn [rinit r_subs]. apply Forall_forall. intros x Hx. apply repeat_spec in Hx. subst x. left. split; reflexivity.
Qed.

Lemma RInv_step cap n s a : RInv n s -> RInv n (rstep LagRefill cap s a).
Proof.
  intros (p & r & (Hh & HP) & HS). destruct a as [|i|].
  - destruct HP as [(Hr & Hp & Hg)|(Hr & Hp & Hg)].
    + destruct (Nat.eq_dec p n) as [->|Hne].
      * exists n, r. cbn [rstep]. rewrite Hg, rest_nil by lia. split; [|exact HS].
        split; [exact Hh|]. left. rewrite Hg, rest_nil by lia. auto.
      * exists p, (S r). cbn [rstep]. rewrite Hg, rest_unfold by lia. cbn [frame_steps app r_prog r_hist r_subs]. split.
        -- split; [rewrite Hh, Hr; apply seq_snoc|]. right. repeat split; lia.
        -- eapply Forall_impl; [|exact HS]. intros x. apply RSInv_rec.
    + exists (S p), r. cbn [rstep]. rewrite Hg. cbn [r_prog r_hist r_subs]. split.
      * split; [exact Hh|]. left. repeat split; lia.
      * apply Forall_map. eapply Forall_impl; [|exact HS]. intros x. apply RSInv_deliver. left. auto.
  - exists p, r. cbn [rstep r_prog r_hist r_subs]. split; [split; [exact Hh|exact HP]|].
    rewrite Hh. apply Forall_upd_nth; [|exact HS]. intros x. apply RSInv_sub.
    destruct HP as [(Hr & _)|(Hr & _)]; lia.
  - exists p, r. cbn [rstep r_prog r_hist r_subs]. split; [split; [exact Hh|exact HP]|].
    apply Forall_map. eapply Forall_impl; [|exact HS]. intros x. apply RSInv_deliver. right. auto.
Qed.

Lemma RInv_run cap n sched : forall s, RInv n s -> RInv n (fold_left (rstep LagRefill cap) sched s).
Proof.
  induction sched as [|a l IH]; intros s H; [exact H|]. cbn [fold_left]. apply IH, RInv_step, H.
Qed.

Lemma RPInv_published n s p r : RPInv n s p r -> rpublished n s = p /\ p <= r /\ r <= n /\ (r_prog s = [] -> p = n).
Proof.
  intros (_ & [(Hr & Hp & Hg)|(Hr & Hp & Hg)]); unfold rpublished; rewrite Hg.
  - rewrite (count_pub_rest _ _ (n - p)) by reflexivity. repeat split; try lia.
    intros E. destruct (Nat.eq_dec p n); [assumption|]. rewrite rest_unfold in E by lia. discriminate.
  - cbn [count_pub]. rewrite (count_pub_rest _ _ (n - S p)) by reflexivity. repeat split; try lia.
    intros E. discriminate.
Qed.

(* every capacity, every stream length, every schedule, every subscriber: no NoLag hypothesis *)
Theorem exactly_once_with_refill : forall (cap n m : nat) (sched : list actor) (i : nat) (x : rsub),
  nth_error (r_subs (rfinal LagRefill cap n m sched)) i = Some x -> rattached x = true ->
  exists k, rdelivered LagRefill (rfinal LagRefill cap n m sched) x = seq 0 k
            /\ rpublished n (rfinal LagRefill cap n m sched) <= k /\ k <= n
            /\ (r_prog (rfinal LagRefill cap n m sched) = [] -> k = n).
Proof.
  intros cap n m sched i x Hn Ha. unfold rfinal in *.
  destruct (RInv_run cap n sched _ (RInv_init n m)) as (p & r & HP & HS).
  destruct (RPInv_published _ _ _ _ HP) as (Hpub & Hpr & Hrn & Hend). destruct HP as (Hh & _).
  apply nth_error_In in Hn. rewrite Forall_forall in HS. specialize (HS x Hn).
  unfold rattached in Ha. apply Nat.leb_le in Ha.
  destruct HS as [(Hpc & _)|[(Hpc & _)|(Hpc & q & o & Hq & Hown & Ho & Hor & Hpend)]]; [lia|lia|].
  unfold rdelivered. rewrite Hh.
  destruct (rdrain_spec p r x Hpr Hpc q o Hq Hown Ho Hor Hpend) as (k & Hk & Hk1 & Hk2).
  exists k. split; [exact Hk|]. rewrite Hpub. split; [lia|]. split; [lia|]. intros E. specialize (Hend E). lia.
Qed.

Theorem exactly_once_with_refill_policies : forall (pols : list lagpolicy), forallb lag_refills pols = true ->
  forall pol, In pol pols ->
  forall (cap n m : nat) (sched : list actor) (i : nat) (x : rsub),
  nth_error (r_subs (rfinal pol cap n m sched)) i = Some x -> rattached x = true ->
  exists k, rdelivered pol (rfinal pol cap n m sched) x = seq 0 k
            /\ rpublished n (rfinal pol cap n m sched) <= k /\ k <= n
            /\ (r_prog (rfinal pol cap n m sched) = [] -> k = n).
Proof.
  intros pols H pol Hin. rewrite forallb_forall in H. specialize (H pol Hin). destruct pol; [discriminate| |discriminate].
  exact exactly_once_with_refill.
Qed.

(* L1: the handlers as they were (LagSkip): capacity 1, the subscriber attaches, two frames are produced before it reads *)
Definition lag_sched : list actor := [AS 0; AS 0; AP; AP; AP; AP].
Lemma lag_skip_refuted :
  r_prog (rfinal LagSkip 1 2 1 lag_sched) = []
  /\ map rattached (r_subs (rfinal LagSkip 1 2 1 lag_sched)) = [true]
  /\ map (rdelivered LagSkip (rfinal LagSkip 1 2 1 lag_sched)) (r_subs (rfinal LagSkip 1 2 1 lag_sched)) = [[1]]
  /\ map (rdelivered LagRefill (rfinal LagRefill 1 2 1 lag_sched)) (r_subs (rfinal LagRefill 1 2 1 lag_sched)) = [[0; 1]].
Proof. vm_compute. repeat split. Qed.
(* non-vacuity: capacity 2, 6 frames, three subscribers (one lags before its snapshot, two after it),
   frames of another stream in between *)
Definition refill_demo_sched : list actor :=
  [AS 0; AP; AP; AS 1; AS 1; AP; AP; AO; AP; AP; AS 2; AS 2; AS 2; AP; AP; AO; AP; AP; AS 0; AP; AP; AS 2].
Lemma refill_demo :
  r_prog (rfinal LagRefill 2 6 3 refill_demo_sched) = []
  /\ map rs_pend (r_subs (rfinal LagRefill 2 6 3 refill_demo_sched)) = [true; true; false]
  /\ map rattached (r_subs (rfinal LagRefill 2 6 3 refill_demo_sched)) = [true; true; true]
  /\ map (rdelivered LagRefill (rfinal LagRefill 2 6 3 refill_demo_sched)) (r_subs (rfinal LagRefill 2 6 3 refill_demo_sched))
     = [[0; 1; 2; 3; 4; 5]; [0; 1; 2; 3; 4; 5]; [0; 1; 2; 3; 4; 5]]
  /\ map (rdelivered LagSkip (rfinal LagSkip 2 6 3 refill_demo_sched)) (r_subs (rfinal LagSkip 2 6 3 refill_demo_sched))
     = [[0; 1; 2; 3; 4; 5]; [0; 4; 5]; [0; 1; 2; 4; 5]].
Proof. vm_compute. repeat split. Qed.

(* ---------- the window between the history re-read and the next recv (wfinal) ---------- *)
Definition wproj (s : wst) : rst := {| r_prog := w_prog s; r_hist := w_hist s; r_subs := map w_s (w_subs s) |}.
Definition WInv (n : nat) (s : wst) : Prop :=
  exists p r, RPInv n (wproj s) p r /\ Forall (fun x => RSInv p r (w_s x)) (w_subs s).

Lemma RSInv_wrefill p r s : p <= r -> 2 <= rs_pc s -> RSInv p r s -> RSInv p r (wrefill (seq 0 r) s).
Proof.
  intros Hpr Hpc [(Hc & _)|[(Hc & _)|(_ & q & o & Hq & Hown & Ho & Hor & Hpend)]]; [lia|lia|].
  right; right. unfold wrefill. cbn [rs_pc rs_live rs_out rs_pend]. split; [exact Hpc|]. exists q, r.
  repeat split; try assumption; try lia.
  rewrite Ho, (emit_seq r 0 o) by lia. cbn [Nat.add]. f_equal. lia.
Qed.

Lemma RSInv_wplain p r s : p <= r -> 2 <= rs_pc s -> rs_pend s = false -> RSInv p r s ->
  RSInv p r (wplain s) /\ exists k, rs_out (wplain s) = seq 0 k /\ p <= k /\ k <= r.
Proof.
  intros Hpr Hpc Hnp [(Hc & _)|[(Hc & _)|(_ & q & o & Hq & Hown & Ho & Hor & Hpend)]]; [lia|lia|].
  specialize (Hpend Hnp).
  assert (rs_out (wplain s) = seq 0 (Nat.max o (q + (p - q)))) as Hout.
  { unfold wplain. cbn [rs_out]. rewrite Hown, Ho. apply emit_seq. exact Hpend. }
  split.
  - right; right. split; [unfold wplain; cbn [rs_pc]; exact Hpc|]. exists p, (Nat.max o (q + (p - q))).
    repeat split; try lia; [|exact Hout].
    unfold wplain. cbn [rs_live own flat_map]. replace (p - p) with 0 by lia. reflexivity.
  - exists (Nat.max o (q + (p - q))). split; [exact Hout|lia].
Qed.

Lemma wdrain_refill_shape hist x :
  wdrain LagRefill hist x = if rs_pend (w_s x) then {| w_s := wrefill hist (w_s x); w_win := true |}
                            else {| w_s := wplain (w_s x); w_win := false |}.
Proof. unfold wdrain. destruct (w_win x); reflexivity. Qed.

Lemma RSInv_wdrain p r x : p <= r -> 2 <= rs_pc (w_s x) -> RSInv p r (w_s x) ->
  RSInv p r (w_s (wdrain LagRefill (seq 0 r) x)) /\ 2 <= rs_pc (w_s (wdrain LagRefill (seq 0 r) x))
  /\ rs_pend (w_s (wdrain LagRefill (seq 0 r) x)) = false.
Proof.
  intros Hpr Hpc H. rewrite wdrain_refill_shape. destruct (rs_pend (w_s x)) eqn:Ep; cbn [w_s].
  - split; [apply RSInv_wrefill; assumption|]. split; [exact Hpc|reflexivity].
  - split; [apply (RSInv_wplain p r); assumption|]. split; [exact Hpc|reflexivity].
Qed.

Lemma RSInv_wsub p r x : p <= r -> RSInv p r (w_s x) -> RSInv p r (w_s (wsub_step LagRefill (seq 0 r) x)).
Proof.
  intros Hpr H. unfold wsub_step. destruct (rs_pc (w_s x)) as [|[|pc]] eqn:Epc.
  - cbn [w_s]. destruct H as [(Hc & Ho)|[(Hc & _)|(Hc & _)]]; [|lia|lia].
    unfold rsub_step. rewrite Epc. right; left. cbn [rs_pc rs_live rs_out]. split; [reflexivity|]. exists p. repeat split; [lia|].
    replace (p - p) with 0 by lia. reflexivity.
  - cbn [w_s]. destruct H as [(Hc & _)|[(Hc & q & Hq & Hown & Ho)|(Hc & _)]]; [lia| |lia].
    unfold rsub_step. rewrite Epc. right; right. cbn [rs_pc rs_live rs_out rs_pend]. split; [lia|]. exists q, r. repeat split; auto. intros _. lia.
  - apply RSInv_wdrain; [exact Hpr|lia|exact H].
Qed.

Lemma WInv_init n m : WInv n (winit n m).
Proof.
  exists 0, 0. split.
  - split; [reflexivity|]. left. repeat split; lia.
  - cbn [winit w_subs]. apply Forall_forall. intros x Hx. apply repeat_spec in Hx. subst x. left. split; reflexivity.
Qed.

Lemma WInv_step cap n s a : WInv n s -> WInv n (wstep LagRefill cap s a).
Proof.
  intros (p & r & (Hh & HP) & HS). cbn [wproj r_hist r_prog] in Hh, HP. destruct a as [|i|].
  - destruct HP as [(Hr & Hp & Hg)|(Hr & Hp & Hg)].
    + destruct (Nat.eq_dec p n) as [->|Hne].
      * exists n, r. cbn [wstep]. rewrite Hg, rest_nil by lia. split; [|exact HS].
        split; [exact Hh|]. left. cbn [wproj r_prog]. rewrite Hg, rest_nil by lia. auto.
      * exists p, (S r). cbn [wstep]. rewrite Hg, rest_unfold by lia. cbn [frame_steps app w_prog w_hist w_subs]. split.
        -- split; [cbn [wproj r_hist]; rewrite Hh, Hr; apply seq_snoc|]. right. cbn [wproj r_prog]. repeat split; lia.
        -- eapply Forall_impl; [|exact HS]. intros x. apply RSInv_rec.
    + exists (S p), r. cbn [wstep]. rewrite Hg. cbn [w_prog w_hist w_subs]. split.
      * split; [exact Hh|]. left. cbn [wproj r_prog]. repeat split; lia.
      * apply Forall_map. eapply Forall_impl; [|exact HS]. intros x. cbn [wdeliver w_s]. apply RSInv_deliver. left. auto.
  - exists p, r. cbn [wstep w_prog w_hist w_subs]. split; [split; [exact Hh|exact HP]|].
    rewrite Hh. apply Forall_upd_nth; [|exact HS]. intros x. apply RSInv_wsub.
    destruct HP as [(Hr & _)|(Hr & _)]; lia.
  - exists p, r. cbn [wstep w_prog w_hist w_subs]. split; [split; [exact Hh|exact HP]|].
    apply Forall_map. eapply Forall_impl; [|exact HS]. intros x. cbn [wdeliver w_s]. apply RSInv_deliver. right. auto.
Qed.

Lemma WInv_run cap n sched : forall s, WInv n s -> WInv n (fold_left (wstep LagRefill cap) sched s).
Proof.
  induction sched as [|a l IH]; intros s H; [exact H|]. cbn [fold_left]. apply IH, WInv_step, H.
Qed.

(* every capacity, every stream length, every schedule (the producer may move inside every window), every subscriber *)
Theorem exactly_once_with_refill_window : forall (cap n m : nat) (sched : list actor) (i : nat) (x : wsub),
  nth_error (w_subs (wfinal LagRefill cap n m sched)) i = Some x -> wattached x = true ->
  exists k, wdelivered LagRefill (wfinal LagRefill cap n m sched) x = seq 0 k
            /\ wpublished n (wfinal LagRefill cap n m sched) <= k /\ k <= n
            /\ (w_prog (wfinal LagRefill cap n m sched) = [] -> k = n).
Proof.
  intros cap n m sched i x Hn Ha. unfold wfinal in *.
  destruct (WInv_run cap n sched _ (WInv_init n m)) as (p & r & HP & HS).
  destruct (RPInv_published _ _ _ _ HP) as (Hpub & Hpr & Hrn & Hend). destruct HP as (Hh & _).
  cbn [wproj r_hist r_prog] in Hh, Hend. unfold rpublished in Hpub. cbn [wproj r_prog] in Hpub.
  apply nth_error_In in Hn. rewrite Forall_forall in HS. specialize (HS x Hn).
  unfold wattached, rattached in Ha. apply Nat.leb_le in Ha.
  unfold wdelivered, wpublished. rewrite Hh.
  destruct (RSInv_wdrain p r x Hpr Ha HS) as (H1 & Hpc1 & Hnp1).
  rewrite (wdrain_refill_shape (seq 0 r) (wdrain LagRefill (seq 0 r) x)), Hnp1. cbn [w_s].
  destruct (RSInv_wplain p r _ Hpr Hpc1 Hnp1 H1) as (_ & k & Hk & Hk1 & Hk2).
  exists k. split; [exact Hk|]. rewrite Hpub. split; [lia|]. split; [lia|]. intros E. specialize (Hend E). lia.
Qed.

Theorem exactly_once_with_refill_window_policies : forall (pols : list lagpolicy), forallb lag_refills pols = true ->
  forall pol, In pol pols ->
  forall (cap n m : nat) (sched : list actor) (i : nat) (x : wsub),
  nth_error (w_subs (wfinal pol cap n m sched)) i = Some x -> wattached x = true ->
  exists k, wdelivered pol (wfinal pol cap n m sched) x = seq 0 k
            /\ wpublished n (wfinal pol cap n m sched) <= k /\ k <= n
            /\ (w_prog (wfinal pol cap n m sched) = [] -> k = n).
Proof.
  intros pols H pol Hin. rewrite forallb_forall in H. specialize (H pol Hin). destruct pol; [discriminate| |discriminate].
  exact exactly_once_with_refill_window.
Qed.

(* seed C06-8: capacity 1; the subscriber attaches, frames 0 and 1 are produced (the receiver lags), it reads: Lagged, the
   history [0;1] is re-read; in the window frame 2 is recorded and published; the subscriber resumes - with a NEW receiver
   at the channel's tail under LagRefillResubscribe; frame 3 is produced; everything is read.  Frame 2 is in neither the
   re-read history nor the new receiver, and the running last_seq (3) hides it from every later re-read. *)
Definition resub_sched : list actor := [AS 0; AS 0; AP; AP; AP; AP; AS 0; AP; AP; AS 0; AP; AP; AS 0].
Lemma resubscribe_refuted :
  w_prog (wfinal LagRefillResubscribe 1 4 1 resub_sched) = []
  /\ map wattached (w_subs (wfinal LagRefillResubscribe 1 4 1 resub_sched)) = [true]
  /\ map (wdelivered LagRefillResubscribe (wfinal LagRefillResubscribe 1 4 1 resub_sched)) (w_subs (wfinal LagRefillResubscribe 1 4 1 resub_sched)) = [[0; 1; 3]]
  /\ map (wdelivered LagRefill (wfinal LagRefill 1 4 1 resub_sched)) (w_subs (wfinal LagRefill 1 4 1 resub_sched)) = [[0; 1; 2; 3]]
  /\ map (wdelivered LagSkip (wfinal LagSkip 1 4 1 resub_sched)) (w_subs (wfinal LagSkip 1 4 1 resub_sched)) = [[1; 2; 3]].
Proof. vm_compute. repeat split. Qed.
(* ... and with room in the channel (capacity 4, 6 frames before the read, one frame in the window, one after) *)
Definition resub_sched4 : list actor := [AS 0; AS 0] ++ repeat AP 12 ++ [AS 0; AP; AP; AS 0; AP; AP; AS 0].
Lemma resubscribe_refuted_cap4 :
  w_prog (wfinal LagRefillResubscribe 4 8 1 resub_sched4) = []
  /\ map (wdelivered LagRefillResubscribe (wfinal LagRefillResubscribe 4 8 1 resub_sched4)) (w_subs (wfinal LagRefillResubscribe 4 8 1 resub_sched4)) = [[0; 1; 2; 3; 4; 5; 7]]
  /\ map (wdelivered LagRefill (wfinal LagRefill 4 8 1 resub_sched4)) (w_subs (wfinal LagRefill 4 8 1 resub_sched4)) = [[0; 1; 2; 3; 4; 5; 6; 7]].
Proof. vm_compute. repeat split. Qed.
(* without a producer step inside the window the re-subscription loses nothing: the window is what matters *)
Lemma resubscribe_quiet_window :
  map (wdelivered LagRefillResubscribe (wfinal LagRefillResubscribe 1 4 1 [AS 0; AS 0; AP; AP; AP; AP; AS 0; AS 0; AP; AP; AP; AP; AS 0]))
      (w_subs (wfinal LagRefillResubscribe 1 4 1 [AS 0; AS 0; AP; AP; AP; AP; AS 0; AS 0; AP; AP; AP; AP; AS 0])) = [[0; 1; 2; 3]].
Proof. vm_compute. repeat split. Qed.
