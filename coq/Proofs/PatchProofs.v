(* C12 — proofs about Model/Patch.v (part 1: success semantics, malformed documents, the rollback
   defect witness).  The atomicity proof is in Proofs/PatchAtomic.v. *)
From RipV Require Import Base.Prelude Base.Fs Model.Patch.
Require Import Coq.Strings.String.
Open Scope N_scope.
Open Scope list_scope.

Ltac dmh H :=
  match type of H with
  | context [match ?x with _ => _ end] => destruct x eqn:?
  | context [if ?x then _ else _] => destruct x eqn:?
  end.

(* ---------- success = performing the operations in order ---------- *)
Lemma record_undo_fs root s raw s1 : record_undo root s raw = Ok s1 -> s_fs s1 = s_fs s.
Proof.
  unfold record_undo. intros H.
  repeat dmh H; inversion H; subst; reflexivity.
Qed.

Lemma exec_spec root s o s' :
  exec root s o = (s', None) -> spec_op root (s_fs s) o = Ok (s_fs s').
Proof.
  destruct o as [p content|p|p mv hs]; cbn [exec spec_op]; intros H.
  - destruct (os_exists (s_fs s) (tg root p)); [discriminate|].
    destruct (record_undo root s p) as [s1|e] eqn:R; [|discriminate].
    apply record_undo_fs in R. rewrite R in H.
    destruct (mk_parent_dirs (s_fs s) (tg root p)) as [f2 [e|]]; [discriminate|].
    destruct (os_write f2 (tg root p) content) as [f3|e]; [|discriminate].
    inversion H; subst. reflexivity.
  - destruct (os_exists (s_fs s) (tg root p)); cbn [negb] in *; [|discriminate].
    destruct (record_undo root s p) as [s1|e] eqn:R; [|discriminate].
    apply record_undo_fs in R. rewrite R in H.
    destruct (os_remove_file (s_fs s) (tg root p)) as [f2|e]; [|discriminate].
    inversion H; subst. reflexivity.
  - destruct (os_exists (s_fs s) (tg root p)); cbn [negb] in *; [|discriminate].
    destruct (record_undo root s p) as [s1|e] eqn:R; [|discriminate].
    apply record_undo_fs in R. rewrite R in H.
    destruct (os_read (s_fs s) (tg root p)) as [b|e]; [|discriminate].
    destruct (utf8_ok b); cbn [negb] in *; [|discriminate].
    destruct (apply_hunks_to_text b hs) as [b'|]; [|discriminate].
    destruct (os_write (s_fs s) (tg root p) b') as [f2|e]; [|discriminate].
    destruct mv as [q|]; [|inversion H; subst; reflexivity].
    destruct (os_exists f2 (tg root q)); [discriminate|].
    destruct (record_undo root (with_fs s1 f2) q) as [s3|e] eqn:R3; [|discriminate].
    apply record_undo_fs in R3. cbn [with_fs s_fs] in R3. rewrite R3 in H.
    destruct (mk_parent_dirs f2 (tg root q)) as [f4 [e|]]; [discriminate|].
    destruct (os_rename_file f4 (tg root p) (tg root q)) as [f5|e]; [|discriminate].
    inversion H; subst. reflexivity.
Qed.

Lemma run_spec root ops : forall s s',
  run root s ops = (s', None) -> spec_ops root (s_fs s) ops = Ok (s_fs s').
Proof.
  induction ops as [|o r IH]; cbn [run spec_ops]; intros s s' H.
  - inversion H; subst; reflexivity.
  - destruct (exec root s o) as [s1 [e|]] eqn:E; [discriminate|].
    apply exec_spec in E. rewrite E. apply IH. exact H.
Qed.

(* and conversely: when the plain interpreter can perform all operations, the patch applies *)
Lemma record_undo_ok root s raw :
  (os_exists (s_fs s) (tg root raw) = true -> exists b, os_read (s_fs s) (tg root raw) = Ok b) ->
  exists s1, record_undo root s raw = Ok s1 /\ s_fs s1 = s_fs s.
Proof.
  intros Hr. unfold record_undo.
  destruct (seen (s_undo s) (comps raw)); [eexists; split; reflexivity|].
  destruct (os_exists (s_fs s) (tg root raw)) eqn:E.
  - destruct (Hr eq_refl) as [b ->]. eexists; split; reflexivity.
  - eexists; split; reflexivity.
Qed.

Lemma spec_exec root s o f' :
  spec_op root (s_fs s) o = Ok f' -> exists s', exec root s o = (s', None) /\ s_fs s' = f'.
Proof.
  destruct o as [p content|p|p mv hs]; cbn [exec spec_op]; intros H.
  - destruct (os_exists (s_fs s) (tg root p)) eqn:X; [discriminate|].
    destruct (record_undo_ok root s p) as [s1 [-> F1]]; [rewrite X; discriminate|]. rewrite F1.
    destruct (mk_parent_dirs (s_fs s) (tg root p)) as [f2 [e|]]; [discriminate|].
    rewrite H. eexists; split; reflexivity.
  - destruct (os_exists (s_fs s) (tg root p)) eqn:X; cbn [negb] in *; [|discriminate].
    destruct (os_remove_file (s_fs s) (tg root p)) as [f2|e] eqn:RM; [|discriminate].
    destruct (record_undo_ok root s p) as [s1 [-> F1]].
    { intros _. unfold os_remove_file in RM. unfold os_read.
      destruct (pre_err (s_fs s) (tg root p)); [discriminate|].
      destruct (lookup (s_fs s) (t_path (tg root p))) as [[b|]|]; try discriminate.
      destruct (t_trail (tg root p)); try discriminate. eexists; reflexivity. }
    rewrite F1, RM. inversion H; subst. eexists; split; reflexivity.
  - destruct (os_exists (s_fs s) (tg root p)) eqn:X; cbn [negb] in *; [|discriminate].
    destruct (os_read (s_fs s) (tg root p)) as [b|e] eqn:RD; [|discriminate].
    destruct (record_undo_ok root s p) as [s1 [-> F1]]; [intros _; eexists; exact RD|].
    rewrite F1, RD.
    destruct (utf8_ok b); cbn [negb] in *; [|discriminate].
    destruct (apply_hunks_to_text b hs) as [b'|]; [|discriminate].
    destruct (os_write (s_fs s) (tg root p) b') as [f2|e]; [|discriminate].
    destruct mv as [q|]; [|inversion H; subst; eexists; split; reflexivity].
    destruct (os_exists f2 (tg root q)) eqn:XQ; [discriminate|].
    destruct (record_undo_ok root (with_fs s1 f2) q) as [s3 [-> F3]];
      [cbn [with_fs s_fs]; rewrite XQ; discriminate|].
    cbn [with_fs s_fs] in F3. rewrite F3.
    destruct (mk_parent_dirs f2 (tg root q)) as [f4 [e|]]; [discriminate|].
    rewrite H. eexists; split; reflexivity.
Qed.

Lemma spec_run root ops : forall s f',
  spec_ops root (s_fs s) ops = Ok f' -> exists s', run root s ops = (s', None) /\ s_fs s' = f'.
Proof.
  induction ops as [|o r IH]; cbn [run spec_ops]; intros s f' H.
  - inversion H; subst. eexists; split; reflexivity.
  - destruct (spec_op root (s_fs s) o) as [f1|e] eqn:E; [|discriminate].
    destruct (spec_exec root s o f1 E) as [s1 [-> F1]]. rewrite <- F1 in H.
    apply IH. exact H.
Qed.

Theorem success_spec fixed root f ops f' changed :
  apply_ops fixed root f ops = Applied f' changed ->
  spec_ops root f ops = Ok f' /\ changed = sort_dedup (map normalize_rel (affected_paths ops)).
Proof.
  unfold apply_ops. destruct (run root _ ops) as [s [e|]] eqn:R; [discriminate|].
  intros H; inversion H; subst. apply run_spec in R. cbn [s_fs] in R. split; [exact R|reflexivity].
Qed.

Theorem success_complete fixed root f ops f' :
  spec_ops root f ops = Ok f' -> apply_ops fixed root f ops = Applied f' (changed_files ops).
Proof.
  intros H. unfold apply_ops.
  destruct (spec_run root ops {| s_fs := f; s_undo := [] |} f' H) as [s' [-> F]]. rewrite F. reflexivity.
Qed.

Theorem fails_iff_spec_fails fixed root f ops :
  (exists g e, apply_ops fixed root f ops = Failed g e) <-> (exists e, spec_ops root f ops = Err e).
Proof.
  split.
  - intros [g [e H]]. destruct (spec_ops root f ops) as [f'|e'] eqn:S; [|eexists; reflexivity].
    rewrite (success_complete fixed _ _ _ _ S) in H. discriminate.
  - intros [e S]. destruct (apply_ops fixed root f ops) as [f' c|g e'] eqn:A; [|do 2 eexists; reflexivity].
    apply success_spec in A. destruct A as [A _]. congruence.
Qed.

(* ---------- changed files: sorted, duplicate free, exactly the named paths ---------- *)
Lemma bytes_ltb_irrefl a : bytes_ltb a a = false.
Proof. induction a as [|x a IH]; cbn [bytes_ltb]; [reflexivity|]. rewrite N.ltb_irrefl. exact IH. Qed.

Lemma bytes_ltb_total a : forall b, bytes_ltb a b = false -> bytes_ltb b a = false -> a = b.
Proof.
  induction a as [|x a IH]; intros [|y b]; cbn [bytes_ltb]; try congruence.
  destruct (x <? y) eqn:L1; [discriminate|]. destruct (y <? x) eqn:L2; [discriminate|].
  intros H1 H2. assert (x = y) by lia. subst. f_equal. apply IH; assumption.
Qed.

Lemma insert_sorted_in x l y : In y (insert_sorted x l) <-> y = x \/ In y l.
Proof.
  induction l as [|z r IH]; cbn [insert_sorted In]; [intuition|].
  destruct (bytes_ltb x z) eqn:L1; cbn [In]; [intuition|].
  destruct (bytes_ltb z x) eqn:L2; cbn [In].
  - rewrite IH. intuition.
  - assert (x = z) by (apply bytes_ltb_total; assumption). subst. intuition.
Qed.

Theorem sort_dedup_in l y : In y (sort_dedup l) <-> In y l.
Proof.
  induction l as [|x r IH]; cbn [sort_dedup fold_right In]; [reflexivity|].
  rewrite insert_sorted_in. fold (sort_dedup r). rewrite IH. intuition.
Qed.

Fixpoint strictly_sorted (l : list (list N)) : Prop :=
  match l with
  | [] => True
  | x :: r => match r with [] => True | y :: _ => bytes_ltb x y = true end /\ strictly_sorted r
  end.

Lemma bytes_ltb_trans a : forall b c, bytes_ltb a b = true -> bytes_ltb b c = true -> bytes_ltb a c = true.
Proof.
  induction a as [|x a IH]; intros [|y b] [|z c]; cbn [bytes_ltb]; try congruence.
  destruct (x <? y) eqn:L1.
  - intros _. destruct (y <? z) eqn:L2.
    + intros _. assert (x <? z = true) as -> by lia. reflexivity.
    + destruct (z <? y) eqn:L3; [discriminate|]. intros _. assert (y = z) by lia. subst. rewrite L1. reflexivity.
  - destruct (y <? x) eqn:L1'; [discriminate|]. assert (x = y) by lia. subst.
    intros H1. destruct (y <? z) eqn:L2; [reflexivity|]. destruct (z <? y); [discriminate|].
    apply IH. exact H1.
Qed.

Lemma bytes_ltb_asym a b : bytes_ltb a b = true -> bytes_ltb b a = false.
Proof.
  intros H. destruct (bytes_ltb b a) eqn:E; [|reflexivity].
  pose proof (bytes_ltb_trans _ _ _ H E) as T. rewrite bytes_ltb_irrefl in T. discriminate.
Qed.

Lemma insert_sorted_sorted x l : strictly_sorted l -> strictly_sorted (insert_sorted x l).
Proof.
  induction l as [|z r IH]; cbn [insert_sorted]; intros S; [cbn; auto|].
  destruct (bytes_ltb x z) eqn:L1; [cbn [strictly_sorted]; split; [exact L1|exact S]|].
  destruct (bytes_ltb z x) eqn:L2; [|exact S].
  destruct S as [S1 S2]. specialize (IH S2).
  cbn [strictly_sorted]. split; [|exact IH].
  destruct r as [|w r']; cbn [insert_sorted]; [exact L2|].
  destruct (bytes_ltb x w); [exact L2|]. destruct (bytes_ltb w x); exact S1.
Qed.

Theorem sort_dedup_sorted l : strictly_sorted (sort_dedup l).
Proof.
  induction l as [|x r IH]; cbn [sort_dedup fold_right]; [exact I|].
  apply insert_sorted_sorted. exact IH.
Qed.

(* ---------- malformed documents touch nothing ---------- *)
Theorem malformed_untouched fixed root f input :
  parse_patch input = None -> apply_patch fixed root f input = Failed f EINVALDATA.
Proof. unfold apply_patch. intros ->. reflexivity. Qed.

(* every path a parsed patch names is non-empty, relative and free of `..` *)
Definition safe_rel (p : list N) : Prop := p <> [] /\ starts_slash p = false /\ has_parent_dir p = false.
Definition op_safe (o : op) : Prop := forall p, In p (op_paths o) -> safe_rel p.

Lemma parse_rel_path_safe raw p : parse_rel_path raw = Some p -> safe_rel p.
Proof.
  unfold parse_rel_path. destruct (trim raw) as [|c t] eqn:T; [discriminate|].
  destruct (starts_slash (c :: t)) eqn:S; [discriminate|].
  destruct (has_parent_dir (c :: t)) eqn:P; [discriminate|].
  intros H; inversion H; subst. repeat split; [discriminate|exact S|exact P].
Qed.

Definition ops_of (s : pstate) : list op :=
  match s with
  | PTop ops | PAdd ops _ _ | PUpd0 ops _ | PUpd ops _ _ _ _ | PDone ops => ops
  | PErr => []
  end.
Definition pending_safe (s : pstate) : Prop :=
  match s with
  | PAdd _ p _ | PUpd0 _ p => safe_rel p
  | PUpd _ p mv _ _ => safe_rel p /\ match mv with Some q => safe_rel q | None => True end
  | _ => True
  end.
Definition pst_safe (s : pstate) : Prop := Forall op_safe (ops_of s) /\ pending_safe s.

Lemma step_top_safe ops l : Forall op_safe ops -> pst_safe (step_top ops l).
Proof.
  intros F. unfold step_top.
  destruct (lN_eqb l H_END); [split; [exact F|exact I]|].
  destruct (strip_prefix H_ADD l) as [r|].
  { destruct (parse_rel_path r) as [p|] eqn:P; [|split; [constructor|exact I]].
    split; [exact F|]. exact (parse_rel_path_safe _ _ P). }
  destruct (strip_prefix H_DEL l) as [r|].
  { destruct (parse_rel_path r) as [p|] eqn:P; [|split; [constructor|exact I]].
    split; [|exact I]. cbn [ops_of]. apply Forall_app. split; [exact F|].
    constructor; [|constructor]. intros q [<-|[]]. exact (parse_rel_path_safe _ _ P). }
  destruct (strip_prefix H_UPD l) as [r|].
  { destruct (parse_rel_path r) as [p|] eqn:P; [|split; [constructor|exact I]].
    split; [exact F|]. exact (parse_rel_path_safe _ _ P). }
  split; [constructor|exact I].
Qed.

Lemma step_upd_safe ops p mv hs cur l :
  Forall op_safe ops -> safe_rel p -> match mv with Some q => safe_rel q | None => True end ->
  pst_safe (step_upd ops p mv hs cur l).
Proof.
  intros F Sp Sq. unfold step_upd.
  destruct (starts_with H_STARS l).
  { destruct (flush_cur hs cur) as [|h hs']; [split; [constructor|exact I]|].
    apply step_top_safe. apply Forall_app. split; [exact F|]. constructor; [|constructor].
    intros q. destruct mv as [m|]; cbn [op_paths In]; intuition (subst; assumption). }
  destruct (starts_with [64; 64] l); [split; [exact F|split; assumption]|].
  destruct l as [|c rest]; [split; [constructor|exact I]|].
  destruct ((c =? 32) || (c =? 43) || (c =? 45)); [split; [exact F|split; assumption]|split; [constructor|exact I]].
Qed.

Lemma pstep_safe s l : pst_safe s -> pst_safe (pstep s l).
Proof.
  intros [F P]. destruct s as [ops|ops p content|ops p|ops p mv hs cur|ops|]; cbn [pstep ops_of pending_safe] in *.
  - apply step_top_safe. exact F.
  - destruct (starts_with H_STARS l).
    { apply step_top_safe. apply Forall_app. split; [exact F|]. constructor; [|constructor].
      intros q [<-|[]]. exact P. }
    destruct l as [|c rest]; [split; [constructor|exact I]|].
    destruct c as [|c]; [split; [constructor|exact I]|].
    repeat (destruct c as [c|c|]; try (split; [constructor|exact I])).
    split; [exact F|exact P].
  - destruct (strip_prefix H_MOVE l) as [d|].
    { destruct (parse_rel_path d) as [q|] eqn:Q; [|split; [constructor|exact I]].
      split; [exact F|]. split; [exact P|]. exact (parse_rel_path_safe _ _ Q). }
    apply step_upd_safe; [exact F|exact P|exact I].
  - destruct P as [P1 P2]. apply step_upd_safe; assumption.
  - split; [exact F|exact I].
  - split; [constructor|exact I].
Qed.

Lemma fold_pstep_safe ls : forall s, pst_safe s -> pst_safe (fold_left pstep ls s).
Proof. induction ls as [|l r IH]; cbn [fold_left]; intros s H; [exact H|]. apply IH. apply pstep_safe. exact H. Qed.

Theorem parse_paths_safe input ops : parse_patch input = Some ops -> Forall op_safe ops.
Proof.
  unfold parse_patch. destruct (str_lines input) as [|l0 rest]; [discriminate|].
  destruct (lN_eqb l0 H_BEGIN); [|discriminate].
  destruct (fold_left pstep rest (PTop [])) as [| | | |ops'|] eqn:E; try discriminate.
  intros H; inversion H; subst.
  pose proof (fold_pstep_safe rest (PTop []) (conj (Forall_nil _) I)) as S. rewrite E in S. exact (proj1 S).
Qed.

(* ---------- the rollback before the repair loses a file (delete a; add a/b; fail) ---------- *)
Definition nl_join (ls : list (list N)) : list N := intercalate [10] ls.
Definition wit_fs : fs := [([bs "a"], File (bs "keep"))].
Definition wit_patch : list N :=
  nl_join [bs "*** Begin Patch"; bs "*** Delete File: a"; bs "*** Add File: a/b"; bs "+new";
           bs "*** Delete File: missing"; bs "*** End Patch"].
Definition wit_after_unfixed : fs := [([bs "a"], Dir)].

Lemma wit_unfixed_run : apply_patch false [] wit_fs wit_patch = Failed wit_after_unfixed ENOENT.
Proof. vm_compute. reflexivity. Qed.
Lemma wit_fixed_run : apply_patch true [] wit_fs wit_patch = Failed wit_fs ENOENT.
Proof. vm_compute. reflexivity. Qed.

Theorem atomic_unfixed_refuted :
  exists f input g e p, apply_patch false [] f input = Failed g e /\ file_at f p <> file_at g p.
Proof.
  exists wit_fs, wit_patch, wit_after_unfixed, ENOENT, [bs "a"].
  split; [exact wit_unfixed_run|]. vm_compute. discriminate.
Qed.
