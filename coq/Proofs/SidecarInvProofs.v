(* C02: a sidecar exists only for an id that a frame in the log carries - for every schedule of
   every program, every history of calls, cache faults and restarts (Model/SidecarInv.v). *)
From RipV Require Import Base.Prelude Model.Frames Model.Log Model.ContStore Model.SidecarInv
  Proofs.LogProofs Proofs.ContStoreProofs.


Lemma names_app l x c : names l c -> names (l ++ x) c.
Proof. intros (f & Hin & Hs). exists f. split; [apply in_or_app; left; exact Hin|exact Hs]. Qed.

Lemma names_of_stream c l : cstream c l <> [] -> names l c.
Proof.
  intros H. destruct (cstream c l) as [|f r] eqn:E; [congruence|].
  assert (Hin : In f (cstream c l)) by (rewrite E; left; reflexivity).
  unfold cstream in Hin. apply stream_In in Hin. destruct Hin as (Hin & _ & Hs). exists f. tauto.
Qed.

Lemma upd_names (sd : N -> option (list sline)) l c v :
  (forall c', sd c' <> None -> names l c') -> names l c ->
  forall c', upd sd c v c' <> None -> names l c'.
Proof.
  intros H Hc c' Hu. unfold upd in Hu. destruct (c' =? c) eqn:E.
  - apply N.eqb_eq in E. subst. exact Hc.
  - apply H. exact Hu.
Qed.

Lemma load_next_side st c :
  (forall c', s_side st c' <> None -> names (s_log st) c') ->
  forall c', snd (load_next st c) c' <> None -> names (s_log st) c'.
Proof.
  intros H. unfold load_next. destruct (last_seq (cstream c (s_log st))) as [q|] eqn:E; cbn [snd]; [|exact H].
  assert (Hc : names (s_log st) c).
  { apply names_of_stream. intros Hnil. rewrite Hnil in E. discriminate. }
  destruct (side_tail c (s_side st c)) as [q'|]; [destruct (q' =? q)|]; try exact H;
    destruct (validate (s_log st)); try exact H; apply upd_names; assumption.
Qed.

Lemma replay_events_side st c :
  (forall c', s_side st c' <> None -> names (s_log st) c') ->
  forall c', snd (replay_events st c) c' <> None -> names (s_log st) c'.
Proof.
  intros H. unfold replay_events. destruct (try_replay c (s_side st c)); cbn [snd]; [exact H|].
  destruct (validate (s_log st)); cbn [snd]; [|exact H].
  destruct (cstream c (s_log st)) as [|f r] eqn:E; [exact H|].
  apply upd_names; [exact H|]. apply names_of_stream. rewrite E. discriminate.
Qed.

Lemma side_append_side (sd : N -> option (list sline)) l f :
  (forall c', sd c' <> None -> names l c') -> In f l ->
  forall c', side_append sd f c' <> None -> names l c'.
Proof.
  intros H Hin. unfold side_append. destruct (hd_error (rev _)) as [[g|]|]; try exact H;
    apply upd_names; try exact H; exists f; tauto.
Qed.

Ltac solveA HA HB Hp :=
  first
  [ exact HA
  | let c := fresh "c" in let Hc := fresh "Hc" in intros c Hc; apply names_app; apply HA; exact Hc
  | apply replay_events_side; exact HA
  | match goal with
    | H : load_next ?st ?n = (_, ?sd) |- forall c, ?sd c <> None -> _ =>
      let K := fresh in pose proof (load_next_side st n HA) as K; rewrite H in K; exact K
    end
  | match goal with
    | H : p_last ?p = Some ?f |- _ => apply side_append_side; [exact HA | exact (HB _ _ _ Hp H)]
    end ].

Ltac solveB HB Hp :=
  let b := fresh "b" in let q := fresh "q" in let f := fresh "f" in
  let Hq := fresh "Hq" in let Hl := fresh "Hl" in let E := fresh "E" in
  intros b q f Hq Hl; unfold upd in Hq;
  match type of Hq with
  | (if ?x then _ else _) = _ => destruct x eqn:E
  end;
  [ inversion Hq; subst q; cbn [p_last pop pop_same aborted] in Hl;
    match type of Hl with
    | None = _ => discriminate Hl
    | Some _ = Some _ => inversion Hl; subst; apply in_or_app; right; left; reflexivity
    | _ => try (apply in_or_app; left); exact (HB _ _ _ Hp Hl)
    end
  | try (apply in_or_app; left); exact (HB _ _ _ Hq Hl) ].

Lemma exec_m_SideInv st a p m r :
  s_procs st a = Some p -> SideInv st -> SideInv (exec_m st a p m r).
Proof.
  intros Hp [HA HB]. unfold SideInv, SideA in *. unfold exec_m, exec_m_gen, abort.
  destruct m; dmatch; try (split; assumption); split;
    cbn [s_log s_side s_procs set_proc set_store set_task];
    try solveA HA HB Hp; try solveB HB Hp.
Qed.

Lemma step_SideInv st a : SideInv st -> SideInv (step st a).
Proof.
  intros H. unfold step, step_gen. destruct (s_procs st a) as [p|] eqn:Hp; [|exact H].
  destruct (p_rem p) as [|m r]; [exact H|]. apply (exec_m_SideInv st a p m r Hp H).
Qed.

Lemma run_SideInv sched : forall st, SideInv st -> SideInv (run sched st).
Proof.
  induction sched as [|a r IH]; intros st H; rewrite ?run_nil, ?run_cons; [exact H|].
  apply IH, step_SideInv, H.
Qed.

Lemma procs_of_last ps : forall i a p, procs_of i ps a = Some p -> p_last p = None.
Proof.
  induction ps as [|[prog sess] r IH]; intros i a p H; cbn [procs_of] in H; [discriminate|].
  unfold upd in H. destruct (a =? i); [inversion H; reflexivity|apply (IH _ _ _ H)].
Qed.


Lemma spawn_SideInv ps st : SideA st -> SideInv (spawn ps st).
Proof.
  intros H. split; [exact H|]. intros a p f Hp Hl. cbn [spawn s_procs] in Hp.
  rewrite (procs_of_last _ _ _ _ Hp) in Hl. discriminate.
Qed.

Lemma exec_SideA prog st : SideA st -> SideInv (exec prog st).
Proof. intros H. unfold exec. apply run_SideInv, spawn_SideInv, H. Qed.

Lemma apply_fault_side (sd : N -> option (list sline)) x c : apply_fault sd x c <> None -> sd c <> None.
Proof.
  destruct x as [c0|c0|c0 k|c0|c0]; cbn [apply_fault].
  - unfold upd. destruct (c =? c0); [congruence|auto].
  - destruct (sd c0) eqn:E; [|auto]. unfold upd. destruct (c =? c0) eqn:E2; [|auto].
    apply N.eqb_eq in E2. subst. intros _. congruence.
  - destruct (sd c0) eqn:E; [|auto]. unfold upd. destruct (c =? c0) eqn:E2; [|auto].
    apply N.eqb_eq in E2. subst. intros _. congruence.
  - destruct (sd c0) as [[|ln ls]|] eqn:E; auto. unfold upd. destruct (c =? c0) eqn:E2; [|auto].
    apply N.eqb_eq in E2. subst. intros _. congruence.
  - destruct (sd c0) eqn:E; [|auto]. unfold upd. destruct (c =? c0) eqn:E2; [|auto].
    apply N.eqb_eq in E2. subst. intros _. congruence.
Qed.

Lemma do_call_SideInv st k : SideInv st -> SideInv (do_call st k).
Proof.
  intros [HA HB]. destruct k as [cp th f|x th|]; cbn [do_call].
  - apply exec_SideA. exact HA.
  - split; cbn [with_side set_store s_side s_log s_procs].
    + intros c Hc. apply HA. apply (apply_fault_side _ _ _ Hc).
    + exact HB.
  - split; cbn [restart s_side s_log s_procs]; [exact HA|]. intros a p f Hp. discriminate.
Qed.

Lemma run_calls_SideInv ks : forall st, SideInv st -> SideInv (snd (run_calls st ks)).
Proof.
  induction ks as [|k r IH]; intros st H; cbn [run_calls]; [exact H|].
  specialize (IH (do_call st k) (do_call_SideInv st k H)).
  destruct (run_calls (do_call st k) r) as [ns fin]. exact IH.
Qed.

Lemma empty_SideInv : SideInv empty_state.
Proof. split; [intros c H; exfalso; apply H; reflexivity|intros a p f H; discriminate]. Qed.

(* statements of Props/C02.v *)
Lemma sidecars_named_any_schedule sched st c :
  SideInv st -> s_side (run sched st) c <> None ->
  exists f, In f (s_log (run sched st)) /\ sid f = c.
Proof. intros H Hc. apply (proj1 (run_SideInv sched st H) c Hc). Qed.

Lemma sidecars_named_any_history ks c :
  s_side (snd (run_calls empty_state ks)) c <> None ->
  exists f, In f (s_log (snd (run_calls empty_state ks))) /\ sid f = c.
Proof. intros Hc. apply (proj1 (run_calls_SideInv ks empty_state empty_SideInv) c Hc). Qed.

Lemma unguarded_rebuild_refuted :
  snd (replay_events_unguarded empty_state 7) 7 <> None /\ ~ (exists f, In f (s_log empty_state) /\ sid f = 7).
Proof. split; [vm_compute; discriminate|]. intros (f & Hin & _). exact Hin. Qed.

(* non-vacuity: after a create + a read the default thread has a sidecar and is named by the log *)
Lemma sidecar_demo :
  let st := snd (run_calls empty_state [KCap CapEnsureDefault 0 fact_ok; KCap CapReplay 0 fact_ok; KCap CapReplay 99 fact_ok]) in
  s_side st 0 <> None /\ s_side st 4294967295 = None /\ map sid (s_log st) = [0].
Proof. vm_compute. split; [discriminate|split; reflexivity]. Qed.
