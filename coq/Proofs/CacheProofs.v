(* C04 — transparency of the full-sidecar fast paths (Model/Cache.v): whenever the window a bounded
   backward scan accepts is a tail of the truth stream (and a scan that reports `complete` has seen
   the whole stream), every tail-doubling query returns the truth answer — for arbitrary loop
   constants, arbitrary histories, arbitrary sidecar contents outside the accepted window. *)
From RipV Require Import Base.Prelude Model.TailLoop Model.Cache Proofs.TailLoopProofs.

(* ------------------------------------------------------------------ generic loop invariant *)
Section LoopInv.
  Context {A : Type}.
  Variable c : cfg.
  Variable l : log.
  Variable scan : N -> N -> sres frame.
  Variable acc0 : A.
  Variable pass : A -> list frame -> A.       (* one backward pass, frames given latest first *)
  Variable done : A -> bool.

  (* what a scan may return: a tail of the truth stream; `complete` only for the whole stream *)
  Definition ScanSpec : Prop :=
    forall me mb fs cpl, scan me mb = STail fs cpl ->
      (exists pre, l = pre ++ fs) /\ (cpl = true -> fs = l).

  Hypothesis Hscan : ScanSpec.
  Hypothesis Hclears : l_clears c = true.
  (* the pass stops as soon as it has everything: what follows is never looked at *)
  Hypothesis Hstop : forall a, done a = false ->
    forall x y, done (pass a x) = true -> pass a (x ++ y) = pass a x.

  Notation examine := (fun (a : A) (fs : list frame) => pass a (rev fs)).
  Notation step := (loop_step c scan acc0 examine done).
  Notation it := (iter c scan acc0 examine done).

  Definition Inv (st : lstate A) : Prop :=
    (s_scanned st = false /\ s_acc st = acc0)
    \/ (s_scanned st = true /\ done acc0 = false /\
        exists fs pre, l = pre ++ fs /\ s_acc st = pass acc0 (rev fs) /\ (s_complete st = true -> fs = l)).

  Lemma step_inv st : Inv st ->
    match step st with inl st' => Inv st' | inr fin => Inv fin end.
  Proof.
    intros HI. unfold loop_step.
    destruct ((l_max_bytes c <? s_tb st) || done (s_acc st)) eqn:E0; [exact HI|].
    apply orb_false_iff in E0. destruct E0 as [_ Hnd].
    assert (Hd0 : done acc0 = false).
    { destruct HI as [[_ Ha]|[_ [Hd _]]]; [rewrite <- Ha; exact Hnd | exact Hd]. }
    destruct (scan (l_max_events c) (s_tb st)) as [| |evs cpl] eqn:Es; [exact HI | exact HI |].
    destruct (Hscan _ _ _ _ Es) as [[pre Hpre] Hcpl].
    rewrite Hclears.
    destruct cpl.
    - right. cbn [s_scanned s_acc s_complete]. repeat split; [exact Hd0|].
      exists evs, pre. repeat split; [exact Hpre | intros _; apply Hcpl; reflexivity].
    - destruct (l_cap_break c && (l_max_bytes c <=? s_tb st)).
      + right. cbn [s_scanned s_acc s_complete]. repeat split; [exact Hd0|].
        exists evs, pre. repeat split; [exact Hpre | discriminate].
      + right. cbn [s_scanned s_acc s_complete]. repeat split; [exact Hd0|].
        exists evs, pre. repeat split; [exact Hpre | discriminate].
  Qed.

  Lemma iter_inv n : forall st fin, Inv st -> it n st = Some fin -> Inv fin.
  Proof.
    induction n as [|n IH]; intros st fin HI H; [discriminate|].
    cbn [iter] in H. pose proof (step_inv st HI) as Hs.
    destruct (step st) as [st'|f].
    - exact (IH _ _ Hs H).
    - inversion H; subst; exact Hs.
  Qed.

  Lemma run_inv fin : run_loop c scan acc0 examine done = Some fin -> Inv fin.
  Proof.
    unfold run_loop. apply iter_inv. left. split; reflexivity.
  Qed.

  (* a scanned, exhaustive (complete or saturated) accumulator is the truth answer *)
  Lemma inv_truth fin : Inv fin -> s_scanned fin = true ->
    s_complete fin = true \/ done (s_acc fin) = true ->
    s_acc fin = pass acc0 (rev l).
  Proof.
    intros [[Hs _]|[_ [Hd0 [fs [pre [Hl [Ha Hc]]]]]]] Hsc Hex; [congruence|].
    destruct Hex as [Hcpl|Hdn].
    - rewrite (Hc Hcpl) in Ha. exact Ha.
    - rewrite Ha in *. rewrite Hl, rev_app_distr. symmetry. apply Hstop; assumption.
  Qed.

  Lemma inv_unscanned fin : Inv fin -> s_scanned fin = false -> s_acc fin = acc0.
  Proof. intros [[_ Ha]|[Hs _]] H; [exact Ha | congruence]. Qed.

  (* the part of a scanned accumulator that is known: it is the pass over some tail of the truth *)
  Lemma inv_tail fin : Inv fin -> s_scanned fin = true ->
    exists fs pre, l = pre ++ fs /\ s_acc fin = pass acc0 (rev fs).
  Proof.
    intros [[Hs _]|[_ [_ [fs [pre [Hl [Ha _]]]]]]] Hsc; [congruence|]. eauto.
  Qed.
End LoopInv.

(* ------------------------------------------------------------------ the passes stop when done *)
Lemma cstat_stop maxk a : cstat_done maxk a = false ->
  forall x y, cstat_done maxk (cstat_pass maxk a x) = true ->
  cstat_pass maxk a (x ++ y) = cstat_pass maxk a x.
Proof.
  intros Hnd x. revert a Hnd. induction x as [|f x IH]; intros a Hnd y Hd.
  - cbn [cstat_pass] in Hd. congruence.
  - cbn [cstat_pass app] in *. destruct (key_of f) as [k|].
    + match goal with |- context [cstat_done maxk ?a'] => destruct (cstat_done maxk a') eqn:E end.
      * reflexivity.
      * apply IH; assumption.
    + apply IH; assumption.
Qed.

Lemma rot_stop fp fe fm a : is_some a = false ->
  forall x y, is_some (rot_pass fp fe fm a x) = true ->
  rot_pass fp fe fm a (x ++ y) = rot_pass fp fe fm a x.
Proof.
  intros Hnd x. destruct a as [k|]; [discriminate|]. clear Hnd.
  induction x as [|f x IH]; intros y Hd.
  - cbn in Hd. discriminate.
  - cbn [rot_pass app] in *. destruct (key_of f) as [k|].
    + destruct (key_matches fp fe fm k); [reflexivity | apply IH; exact Hd].
    + apply IH; exact Hd.
Qed.

Lemma sel_stop limit a : sel_done limit a = false ->
  forall x y, sel_done limit (sel_pass limit a x) = true ->
  sel_pass limit a (x ++ y) = sel_pass limit a x.
Proof.
  intros Hnd x. revert a Hnd. induction x as [|f x IH]; intros a Hnd y Hd.
  - cbn [sel_pass] in Hd. congruence.
  - cbn [sel_pass app] in *. destruct (is_selection f).
    + destruct (limit <=? nlen (a ++ [fseq f])) eqn:E; [reflexivity|].
      apply IH; [exact E | exact Hd].
    + apply IH; assumption.
Qed.

Lemma cstatus_stop a : cstatus_done a = false ->
  forall x y, cstatus_done (cstatus_pass a x) = true ->
  cstatus_pass a (x ++ y) = cstatus_pass a x.
Proof.
  intros Hnd x. revert a Hnd. induction x as [|f x IH]; intros a Hnd y Hd.
  - cbn [cstatus_pass] in Hd. congruence.
  - cbn [cstatus_pass app] in *.
    match goal with |- context [cstatus_done ?a'] => destruct (cstatus_done a') eqn:E end.
    + reflexivity.
    + apply IH; assumption.
Qed.

(* sequential composition of the passes *)
Lemma cstat_app maxk : forall x a y, cstat_done maxk a = false ->
  cstat_pass maxk a (x ++ y) =
  if cstat_done maxk (cstat_pass maxk a x) then cstat_pass maxk a x else cstat_pass maxk (cstat_pass maxk a x) y.
Proof.
  induction x as [|f x IH]; intros a y Ha.
  - cbn [app cstat_pass]. rewrite Ha. reflexivity.
  - cbn [app cstat_pass]. destruct (key_of f) as [k|].
    + match goal with |- context [cstat_done maxk ?a'] => destruct (cstat_done maxk a') eqn:E end.
      * rewrite E. reflexivity.
      * apply IH. exact E.
    + apply IH. exact Ha.
Qed.

Lemma rot_app fp fe fm : forall x a y, is_some a = false ->
  rot_pass fp fe fm a (x ++ y) =
  if is_some (rot_pass fp fe fm a x) then rot_pass fp fe fm a x else rot_pass fp fe fm (rot_pass fp fe fm a x) y.
Proof.
  intros x a y Ha. destruct a as [k|]; [discriminate|]. clear Ha.
  induction x as [|f x IH].
  - cbn [app rot_pass is_some]. reflexivity.
  - cbn [app rot_pass]. destruct (key_of f) as [k|].
    + destruct (key_matches fp fe fm k); [reflexivity | exact IH].
    + exact IH.
Qed.

Lemma cstatus_app : forall x a y, cstatus_done a = false ->
  cstatus_pass a (x ++ y) =
  if cstatus_done (cstatus_pass a x) then cstatus_pass a x else cstatus_pass (cstatus_pass a x) y.
Proof.
  induction x as [|f x IH]; intros a y Ha.
  - cbn [app cstatus_pass]. rewrite Ha. reflexivity.
  - cbn [app cstatus_pass].
    match goal with |- context [cstatus_done ?a'] => destruct (cstatus_done a') eqn:E end.
    + rewrite E. reflexivity.
    + apply IH. exact E.
Qed.

(* --- the cursor map: sorted association list, first hit wins --- *)
Fixpoint has_key (m : list (N * N)) (k : N) : bool :=
  match m with [] => false | (k', _) :: r => (k' =? k) || has_key r k end.
Fixpoint keys_sorted (m : list (N * N)) : bool :=
  match m with
  | [] => true
  | (k, _) :: r => match r with [] => true | (k', _) :: _ => (k <? k') && keys_sorted r end
  end.

Lemma has_key_put k v m k' : has_key (put_if_absent k v m) k' = (k =? k') || has_key m k'.
Proof.
  induction m as [|[k0 v0] r IH]; cbn [put_if_absent has_key]; [rewrite orb_false_r; reflexivity|].
  destruct (k <? k0) eqn:E1; [cbn [has_key]; reflexivity|].
  destruct (k =? k0) eqn:E2.
  - apply N.eqb_eq in E2. subst k0. cbn [has_key]. destruct (k =? k'); reflexivity.
  - cbn [has_key]. rewrite IH. destruct (k0 =? k'), (k =? k'); reflexivity.
Qed.

Lemma sorted_head_lt k v r k' : keys_sorted ((k, v) :: r) = true -> has_key r k' = true -> k < k'.
Proof.
  revert k v. induction r as [|[k0 v0] r IH]; intros k v Hs Hk; [discriminate|].
  cbn [keys_sorted] in Hs. apply andb_true_iff in Hs. destruct Hs as [Hlt Hs]. apply N.ltb_lt in Hlt.
  cbn [has_key] in Hk. apply orb_true_iff in Hk. destruct Hk as [Hk|Hk].
  - apply N.eqb_eq in Hk. lia.
  - specialize (IH k0 v0 Hs Hk). lia.
Qed.

Lemma put_present k v m : keys_sorted m = true -> has_key m k = true -> put_if_absent k v m = m.
Proof.
  induction m as [|[k0 v0] r IH]; intros Hs Hk; [discriminate|].
  cbn [put_if_absent]. cbn [has_key] in Hk.
  destruct (k0 =? k) eqn:E0.
  - apply N.eqb_eq in E0. subst k0. rewrite N.ltb_irrefl, N.eqb_refl. reflexivity.
  - cbn [orb] in Hk. pose proof (sorted_head_lt _ _ _ _ Hs Hk) as Hlt.
    destruct (k <? k0) eqn:E1; [apply N.ltb_lt in E1; lia|].
    destruct (k =? k0) eqn:E2; [reflexivity|].
    f_equal. apply IH; [|exact Hk].
    cbn [keys_sorted] in Hs. destruct r as [|[k1 v1] r']; [reflexivity|].
    apply andb_true_iff in Hs. tauto.
Qed.

Lemma put_sorted k v m : keys_sorted m = true -> keys_sorted (put_if_absent k v m) = true.
Proof.
  induction m as [|[k0 v0] r IH]; intros Hs; [reflexivity|].
  cbn [put_if_absent].
  destruct (k <? k0) eqn:E1; [cbn [keys_sorted]; rewrite E1; exact Hs|].
  destruct (k =? k0) eqn:E2; [exact Hs|].
  assert (Hr : keys_sorted r = true).
  { cbn [keys_sorted] in Hs. destruct r as [|[k1 v1] r']; [reflexivity|]. apply andb_true_iff in Hs. tauto. }
  specialize (IH Hr). apply N.ltb_ge in E1. apply N.eqb_neq in E2.
  cbn [keys_sorted]. destruct (put_if_absent k v r) as [|[k1 v1] r1] eqn:Ep; [reflexivity|].
  apply andb_true_iff. split; [|exact IH].
  apply N.ltb_lt.
  assert (Hk1 : has_key (put_if_absent k v r) k1 = true) by (rewrite Ep; cbn [has_key]; rewrite N.eqb_refl; reflexivity).
  rewrite has_key_put in Hk1. apply orb_true_iff in Hk1. destruct Hk1 as [Hk1|Hk1].
  - apply N.eqb_eq in Hk1. lia.
  - exact (sorted_head_lt _ _ _ _ Hs Hk1).
Qed.

(* accumulator well-formedness and "covers the keys of x" *)
Definition cstat_wf (a : cstat) : Prop :=
  keys_sorted (cs_keys a) = true /\ (cs_keys a <> [] -> cs_active a <> None).
Definition covered (a : cstat) (x : list frame) : Prop :=
  forall f k, In f x -> key_of f = Some k -> has_key (cs_keys a) k = true.

Lemma cstat0_wf : cstat_wf cstat0.
Proof. split; [reflexivity | intros H; exfalso; apply H; reflexivity]. Qed.

Lemma has_key_nonempty m k : has_key m k = true -> m <> [].
Proof. destruct m; [discriminate | discriminate]. Qed.

Lemma cstat_covered_noop maxk : forall x a, cstat_wf a -> covered a x -> cstat_done maxk a = false ->
  cstat_pass maxk a x = a.
Proof.
  induction x as [|f x IH]; intros a Hwf Hc Hnd; [reflexivity|].
  pose proof Hwf as [Hs Hact].
  cbn [cstat_pass]. destruct (key_of f) as [k|] eqn:Ek.
  - assert (Hk : has_key (cs_keys a) k = true) by (apply (Hc f k); [left; reflexivity | exact Ek]).
    rewrite (put_present _ _ _ Hs Hk).
    destruct (cs_active a) as [act|] eqn:Ea; [|exfalso; apply (Hact (has_key_nonempty _ _ Hk)); reflexivity].
    assert (Heq : {| cs_active := Some act; cs_keys := cs_keys a |} = a) by (destruct a; cbn in *; subst; reflexivity).
    rewrite Heq, Hnd. apply IH; [exact Hwf | | exact Hnd].
    intros g k' Hg. apply Hc. right; exact Hg.
  - apply IH; [exact Hwf | | exact Hnd]. intros g k' Hg. apply Hc. right; exact Hg.
Qed.

(* after a pass that did not saturate, the accumulator is well formed, keeps what it had and covers x *)
Lemma cstat_pass_covers maxk : forall x a, cstat_wf a -> cstat_done maxk (cstat_pass maxk a x) = false ->
  cstat_wf (cstat_pass maxk a x)
  /\ (forall k, has_key (cs_keys a) k = true -> has_key (cs_keys (cstat_pass maxk a x)) k = true)
  /\ covered (cstat_pass maxk a x) x.
Proof.
  induction x as [|f x IH]; intros a Hwf Hnd.
  - cbn [cstat_pass] in *. split; [exact Hwf|]. split; [auto|]. intros g k [].
  - cbn [cstat_pass] in *. destruct (key_of f) as [k|] eqn:Ek.
    + set (a' := {| cs_active := match cs_active a with Some x0 => Some x0 | None => Some (fseq f) end;
                    cs_keys := put_if_absent k (fseq f) (cs_keys a) |}) in *.
      assert (Hwf' : cstat_wf a').
      { destruct Hwf as [Hs Hact]. split; [apply put_sorted; exact Hs|].
        intros _. unfold a'. cbn [cs_active]. destruct (cs_active a); discriminate. }
      destruct (cstat_done maxk a') eqn:Ed; [congruence|].
      destruct (IH a' Hwf' Hnd) as [Hw [Hmono Hcov]].
      split; [exact Hw|]. split.
      * intros k0 Hk0. apply Hmono. unfold a'. cbn [cs_keys]. rewrite has_key_put, Hk0. apply orb_true_r.
      * intros g k0 [Hg|Hg] Hkg.
        -- subst g. rewrite Ek in Hkg. inversion Hkg; subst k0. apply Hmono. unfold a'. cbn [cs_keys].
           rewrite has_key_put, N.eqb_refl. reflexivity.
        -- exact (Hcov g k0 Hg Hkg).
    + destruct (IH a Hwf Hnd) as [Hw [Hmono Hcov]]. split; [exact Hw|]. split; [exact Hmono|].
      intros g k0 [Hg|Hg] Hkg; [subst g; congruence | exact (Hcov g k0 Hg Hkg)].
Qed.

Lemma cstat_idem maxk x y : cstat_done maxk (cstat_pass maxk cstat0 (x ++ y)) = false ->
  cstat_pass maxk (cstat_pass maxk cstat0 (x ++ y)) x = cstat_pass maxk cstat0 (x ++ y).
Proof.
  intros Hnd. destruct (cstat_pass_covers maxk (x ++ y) cstat0 cstat0_wf Hnd) as [Hw [_ Hcov]].
  apply cstat_covered_noop; [exact Hw | | exact Hnd].
  intros f k Hf. apply Hcov. apply in_or_app. left; exact Hf.
Qed.

Lemma rot_idem fp fe fm x y : is_some (rot_pass fp fe fm None (x ++ y)) = false ->
  rot_pass fp fe fm (rot_pass fp fe fm None (x ++ y)) x = rot_pass fp fe fm None (x ++ y).
Proof.
  intros Hnd. destruct (rot_pass fp fe fm None (x ++ y)) as [k|] eqn:E; [discriminate|].
  (* nothing matched in x ++ y, so nothing matches in x *)
  rewrite (rot_app fp fe fm x None y eq_refl) in E.
  destruct (rot_pass fp fe fm None x) as [k|] eqn:Ex; [cbn [is_some] in E; discriminate | reflexivity].
Qed.

(* closed form of the status pass: each field is "first hit wins" *)
Definition orelse {B} (a b : option B) : option B := match a with Some _ => a | None => b end.
Fixpoint first_seq (p : frame -> bool) (rl : list frame) : option N :=
  match rl with [] => None | f :: r => if p f then Some (fseq f) else first_seq p r end.

Lemma cstatus_pass_closed rl : forall a,
  cstatus_pass a rl = {| st_sched := orelse (st_sched a) (first_seq is_schedule rl);
                         st_job := orelse (st_job a) (first_seq is_job_outcome rl) |}.
Proof.
  induction rl as [|f r IH]; intros [s j].
  - cbn. destruct s, j; reflexivity.
  - cbn [cstatus_pass first_seq st_sched st_job].
    match goal with |- context [cstatus_done ?a'] => destruct (cstatus_done a') eqn:E end.
    + unfold cstatus_done in E. cbn [st_sched st_job] in E.
      destruct s as [s|], j as [j|]; cbn [orelse is_some andb] in *;
        destruct (is_schedule f), (is_job_outcome f); cbn [orelse is_some andb] in *;
        try discriminate; reflexivity.
    + rewrite IH. cbn [st_sched st_job].
      destruct s as [s|], j as [j|]; cbn [orelse];
        destruct (is_schedule f), (is_job_outcome f); cbn [orelse]; reflexivity.
Qed.

Lemma first_seq_app p x y : first_seq p (x ++ y) = orelse (first_seq p x) (first_seq p y).
Proof. induction x as [|f x IH]; cbn [first_seq app orelse]; [reflexivity|]. destruct (p f); [reflexivity | exact IH]. Qed.

(* filling in from the whole stream what a tail left open gives the truth answer *)
Lemma cstatus_fill pre fs :
  cstatus_pass (cstatus_pass cstatus0 (rev fs)) (rev (pre ++ fs)) = cstatus_pass cstatus0 (rev (pre ++ fs)).
Proof.
  rewrite !cstatus_pass_closed. cbn [st_sched st_job cstatus0 orelse].
  rewrite rev_app_distr, !first_seq_app.
  destruct (first_seq is_schedule (rev fs)), (first_seq is_job_outcome (rev fs)); reflexivity.
Qed.

(* ------------------------------------------------------------------ loops that carry their accumulator *)
Section LoopInvCarry.
  Context {A : Type}.
  Variable c : cfg.
  Variable l : log.
  Variable scan : N -> N -> sres frame.
  Variable acc0 : A.
  Variable pass : A -> list frame -> A.
  Variable done : A -> bool.

  Hypothesis Hscan : ScanSpec l scan.
  Hypothesis Hcarry : l_clears c = false.
  (* the pass is sequential with early exit ... *)
  Hypothesis Happ : forall a x y, done a = false ->
    pass a (x ++ y) = if done (pass a x) then pass a x else pass (pass a x) y.
  (* ... and first-hit-wins: reading again frames that were already read changes nothing *)
  Hypothesis Hidem : forall x y, done (pass acc0 (x ++ y)) = false ->
    pass (pass acc0 (x ++ y)) x = pass acc0 (x ++ y).

  Notation examine := (fun (a : A) (fs : list frame) => pass a (rev fs)).
  Notation step := (loop_step c scan acc0 examine done).
  Notation it := (iter c scan acc0 examine done).

  Lemma carry_stop a : done a = false ->
    forall x y, done (pass a x) = true -> pass a (x ++ y) = pass a x.
  Proof. intros Ha x y Hd. rewrite (Happ a x y Ha), Hd. reflexivity. Qed.

  Lemma step_inv_carry st : Inv l acc0 pass done st ->
    match step st with inl st' => Inv l acc0 pass done st' | inr fin => Inv l acc0 pass done fin end.
  Proof.
    intros HI. unfold loop_step.
    destruct ((l_max_bytes c <? s_tb st) || done (s_acc st)) eqn:E0; [exact HI|].
    apply orb_false_iff in E0. destruct E0 as [_ Hnd].
    destruct (scan (l_max_events c) (s_tb st)) as [| |evs cpl] eqn:Es; [exact HI | exact HI |].
    destruct (Hscan _ _ _ _ Es) as [[pre' Hpre'] Hcpl].
    rewrite Hcarry.
    (* the new accumulator and the tail it is the pass of *)
    assert (Hnew : done acc0 = false /\ exists fs pre, l = pre ++ fs /\ pass (s_acc st) (rev evs) = pass acc0 (rev fs)
                                       /\ (cpl = true -> fs = l)).
    { destruct HI as [[_ Ha]|[_ [Hd0 [fs [pre [Hl [Ha _]]]]]]].
      - rewrite Ha in *. split; [exact Hnd|]. exists evs, pre'. repeat split; [exact Hpre' | exact Hcpl].
      - split; [exact Hd0|].
        rewrite Hl in Hpre'. destruct (app_eq_app _ _ _ _ Hpre') as [q [[Hp Hq]|[Hp Hq]]].
        + (* the new window is the longer one: evs = q ++ fs *)
          exists evs, pre'. split; [rewrite Hl; exact Hpre'|]. split; [|exact Hcpl].
          rewrite Ha, Hq, rev_app_distr.
          assert (Hfs : pass (pass acc0 (rev fs)) (rev fs) = pass acc0 (rev fs)).
          { pose proof (Hidem (rev fs) []) as H. rewrite app_nil_r in H. apply H. rewrite <- Ha. exact Hnd. }
          rewrite (Happ (pass acc0 (rev fs)) (rev fs) (rev q)) by (rewrite <- Ha; exact Hnd).
          rewrite Hfs. rewrite (Happ acc0 (rev fs) (rev q) Hd0). reflexivity.
        + (* the old window is the longer one: fs = q ++ evs *)
          exists fs, pre. split; [exact Hl|]. split.
          * rewrite Ha, Hq, rev_app_distr. apply Hidem. rewrite <- rev_app_distr, <- Hq, <- Ha. exact Hnd.
          * intros Hc. specialize (Hcpl Hc). subst evs.
            assert (Hlen : length l = (length pre + (length q + length l))%nat).
            { rewrite Hl at 1. rewrite Hq, !app_length. reflexivity. }
            destruct q as [|x q]; [exact Hq|]. cbn [length] in Hlen. lia. }
    destruct Hnew as [Hd0 [fs [pre [Hl [Hacc Hc]]]]].
    destruct cpl.
    - right. cbn [s_scanned s_acc s_complete]. repeat split; [exact Hd0|].
      exists fs, pre. repeat split; [exact Hl | exact Hacc | intros _; apply Hc; reflexivity].
    - destruct (l_cap_break c && (l_max_bytes c <=? s_tb st)).
      + right. cbn [s_scanned s_acc s_complete]. repeat split; [exact Hd0|].
        exists fs, pre. repeat split; [exact Hl | exact Hacc | discriminate].
      + right. cbn [s_scanned s_acc s_complete]. repeat split; [exact Hd0|].
        exists fs, pre. repeat split; [exact Hl | exact Hacc | discriminate].
  Qed.

  Lemma iter_inv_carry n : forall st fin, Inv l acc0 pass done st -> it n st = Some fin -> Inv l acc0 pass done fin.
  Proof.
    induction n as [|n IH]; intros st fin HI H; [discriminate|].
    cbn [iter] in H. pose proof (step_inv_carry st HI) as Hs.
    destruct (step st) as [st'|f].
    - exact (IH _ _ Hs H).
    - inversion H; subst; exact Hs.
  Qed.

  Lemma run_inv_carry fin : run_loop c scan acc0 examine done = Some fin -> Inv l acc0 pass done fin.
  Proof. unfold run_loop. apply iter_inv_carry. left. split; reflexivity. Qed.
End LoopInvCarry.

(* ------------------------------------------------------------------ per-query transparency *)
Lemma cstatus_idem x y : cstatus_done (cstatus_pass cstatus0 (x ++ y)) = false ->
  cstatus_pass (cstatus_pass cstatus0 (x ++ y)) x = cstatus_pass cstatus0 (x ++ y).
Proof.
  intros _. rewrite !cstatus_pass_closed. cbn [st_sched st_job cstatus0 orelse]. rewrite !first_seq_app.
  destruct (first_seq is_schedule x), (first_seq is_job_outcome x); cbn [orelse];
    destruct (first_seq is_schedule y), (first_seq is_job_outcome y); reflexivity.
Qed.

Section Queries.
  Variable c : cfg.
  Variable l : log.
  Variable s : sfile.
  Hypothesis Hwf : loop_wf c = true.
  Hypothesis Hscan : ScanSpec l (scan_tail s).
  Hypothesis Hreplay : replay_fast s l = l.

  Lemma wf_parts : l_cap_break c = true /\ l_clears c = true /\ l_incomplete_fallback c = true /\ 0 < l_initial c.
  Proof.
    pose proof Hwf as H. unfold loop_wf in H.
    apply andb_true_iff in H; destruct H as [H H6].
    apply andb_true_iff in H; destruct H as [H H5].
    apply andb_true_iff in H; destruct H as [H H4].
    apply andb_true_iff in H; destruct H as [H H3].
    apply andb_true_iff in H; destruct H as [H1 H2].
    apply N.ltb_lt in H1. repeat split; assumption.
  Qed.

  (* provider_cursor_status_v1: by_key / active are carried across the scans *)
  Theorem cursor_status_transparent maxk :
    cursor_status_fast c maxk s l = Some (cursor_status_truth maxk l).
  Proof.
    destruct wf_parts as [Hc [Hcl [Hfb Hp]]].
    unfold cursor_status_fast, cursor_status_fast_with.
    destruct (run_loop_some (carry c) (scan_tail s) cstat0 (cstat_examine maxk) (cstat_done maxk) Hc Hp) as [fin Hf].
    rewrite Hf.
    pose proof (run_inv_carry (carry c) l (scan_tail s) cstat0 (cstat_pass maxk) (cstat_done maxk) Hscan eq_refl
                  (fun a x y H => cstat_app maxk x a y H) (cstat_idem maxk) fin Hf) as HI.
    rewrite Hfb, Hreplay. cbn [andb].
    destruct (s_scanned fin) eqn:Esc; cbn [negb orb]; [|reflexivity].
    destruct (s_complete fin || cstat_done maxk (s_acc fin)) eqn:Eex; cbn [negb]; [|reflexivity].
    f_equal. unfold cursor_status_truth, cstat_examine.
    apply (inv_truth l cstat0 (cstat_pass maxk) (cstat_done maxk) (cstat_stop maxk) fin HI Esc).
    apply orb_true_iff in Eex. exact Eex.
  Qed.

  (* provider_cursor_rotate_v1: target is carried (it is None whenever the loop goes round again) *)
  Theorem rotate_transparent fp fe fm :
    rotate_target_fast c fp fe fm s l = Some (rotate_target_truth fp fe fm l).
  Proof.
    destruct wf_parts as [Hc [Hcl [Hfb Hp]]].
    unfold rotate_target_fast.
    destruct (run_loop_some (carry c) (scan_tail s) None (rot_examine fp fe fm) is_some Hc Hp) as [fin Hf].
    rewrite Hf.
    pose proof (run_inv_carry (carry c) l (scan_tail s) None (rot_pass fp fe fm) is_some Hscan eq_refl
                  (fun a x y H => rot_app fp fe fm x a y H) (rot_idem fp fe fm) fin Hf) as HI.
    destruct (s_acc fin) as [k|] eqn:Ea; [|rewrite Hreplay; reflexivity].
    f_equal. unfold rotate_target_truth, rot_examine.
    destruct (s_scanned fin) eqn:Esc.
    - rewrite <- Ea.
      apply (inv_truth l None (rot_pass fp fe fm) is_some (rot_stop fp fe fm) fin HI Esc).
      right. rewrite Ea. reflexivity.
    - pose proof (inv_unscanned l None (rot_pass fp fe fm) is_some fin HI Esc). congruence.
  Qed.

  (* context_selection_status_v1: the Vec of decisions is cleared per scan (l_clears) *)
  Theorem selection_transparent limit :
    selection_fast c limit s l = Some (selection_truth limit l).
  Proof.
    destruct wf_parts as [Hc [Hcl [Hfb Hp]]].
    unfold selection_fast, selection_fast_with.
    destruct (run_loop_some c (scan_tail s) [] (sel_examine limit) (sel_done limit) Hc Hp) as [fin Hf].
    rewrite Hf.
    pose proof (run_inv c l (scan_tail s) [] (sel_pass limit) (sel_done limit) Hscan Hcl fin Hf) as HI.
    rewrite Hreplay.
    destruct (s_scanned fin) eqn:Esc; cbn [negb orb]; [|reflexivity].
    destruct (s_complete fin) eqn:Ecp; cbn [negb andb].
    - f_equal. apply (inv_truth l [] (sel_pass limit) (sel_done limit) (sel_stop limit) fin HI Esc). left; exact Ecp.
    - destruct (sel_done limit (s_acc fin)) eqn:Ed; cbn [negb]; [|reflexivity].
      f_equal. apply (inv_truth l [] (sel_pass limit) (sel_done limit) (sel_stop limit) fin HI Esc). right; exact Ed.
  Qed.

  (* compaction_status_v1: the two status options are carried, the replay fills what is missing *)
  Theorem cstatus_transparent :
    cstatus_fast c s l = Some (cstatus_truth l).
  Proof.
    destruct wf_parts as [Hc [Hcl [Hfb Hp]]].
    unfold cstatus_fast.
    destruct (run_loop_some (carry c) (scan_tail s) cstatus0 cstatus_examine cstatus_done Hc Hp) as [fin Hf].
    rewrite Hf.
    pose proof (run_inv_carry (carry c) l (scan_tail s) cstatus0 cstatus_pass cstatus_done Hscan eq_refl
                  (fun a x y H => cstatus_app x a y H) cstatus_idem fin Hf) as HI.
    rewrite Hreplay. unfold cstatus_truth, cstatus_examine.
    destruct (s_scanned fin) eqn:Esc.
    - destruct (cstatus_done (s_acc fin)) eqn:Ed.
      + f_equal. apply (inv_truth l cstatus0 cstatus_pass cstatus_done cstatus_stop fin HI Esc). right; exact Ed.
      + f_equal. destruct (inv_tail l cstatus0 cstatus_pass cstatus_done fin HI Esc) as [fs [pre [Hl Ha]]].
        rewrite Ha, Hl. apply cstatus_fill.
    - rewrite (inv_unscanned l cstatus0 cstatus_pass cstatus_done fin HI Esc).
      cbn. reflexivity.
  Qed.
End Queries.

(* ------------------------------------------------------------------ what the scanners accept *)
(* The full sidecar is faithful: the longest well-formed, seq-contiguous run at its end is a tail of
   the truth stream.  (Absent files, unparsable lines, gaps inside a window, and — since the
   scan_tail fix — files that do not begin at seq 0 are detected by the readers.)  The negation is
   class K1 of DESIGN §4: a well-formed file whose last lines are not the last frames of the truth
   stream (stale prefix, rolled back, crash between truth append and sidecar append). *)
Definition FullFaithful (l : log) (s : sfile) : Prop :=
  match s with
  | None => True
  | Some ls => exists pre, l = pre ++ good_tail ls
  end.

Lemma all_good_map ls : forall fs, all_good ls = Some fs -> ls = map LGood fs.
Proof.
  induction ls as [|x ls IH]; intros fs H; cbn [all_good] in H.
  - inversion H; reflexivity.
  - destruct x as [f|n]; [|discriminate].
    destruct (all_good ls) as [fs'|]; [|discriminate]. cbn in H. inversion H; subst.
    cbn [map]. f_equal. apply IH; reflexivity.
Qed.

Lemma all_good_of_map fs : all_good (map LGood fs) = Some fs.
Proof. induction fs as [|f fs IH]; cbn [map all_good]; [reflexivity|]. rewrite IH. reflexivity. Qed.

Lemma take_back_prefix w : forall rl b, exists rest, rl = take_back w b rl ++ rest.
Proof.
  induction rl as [|x r IH]; intros b; cbn [take_back]; [exists []; reflexivity|].
  destruct r as [|y r'].
  - destruct (b + line_len x <=? w); [exists []; reflexivity | exists [x]; reflexivity].
  - destruct (b + line_len x + 1 <=? w).
    + destruct (IH (b + line_len x)) as [rest Hr]. exists rest. cbn [app]. f_equal. exact Hr.
    + exists (x :: y :: r'). reflexivity.
Qed.

Lemma firstnN_prefix {B} : forall (l : list B) n, exists rest, l = firstnN n l ++ rest.
Proof.
  induction l as [|x r IH]; intros n; cbn [firstnN]; [exists []; reflexivity|].
  destruct (n =? 0); [exists (x :: r); reflexivity|].
  destruct (IH (n - 1)) as [rest Hr]. exists rest. cbn [app]. f_equal. exact Hr.
Qed.

Lemma contiguous_any_tail x : forall y, contiguous_any (x ++ y) = true -> contiguous_any y = true.
Proof.
  induction x as [|f x IH]; intros y H; [exact H|].
  cbn [app contiguous_any] in H. destruct (x ++ y) as [|g r] eqn:E.
  - destruct x; [cbn in E; subst; reflexivity | discriminate].
  - apply andb_true_iff in H. destruct H as [_ H]. apply IH. rewrite E. exact H.
Qed.

Lemma good_run_rev_ext : forall rl acc, exists pre, good_run_rev rl acc = pre ++ acc.
Proof.
  induction rl as [|x r IH]; intros acc; cbn [good_run_rev]; [exists []; reflexivity|].
  destruct x as [f|n]; [|exists []; reflexivity].
  destruct acc as [|g acc'].
  - destruct (IH [f]) as [pre Hp]. exists (pre ++ [f]). rewrite Hp, <- app_assoc. reflexivity.
  - destruct (fseq g =? fseq f + 1); [|exists []; reflexivity].
    destruct (IH (f :: g :: acc')) as [pre Hp]. exists (pre ++ [f]). rewrite Hp, <- app_assoc. reflexivity.
Qed.

(* a parsed, contiguous window at the end of the file lies inside the good tail *)
Lemma good_run_rev_window : forall fs_rev rest acc,
  contiguous_any (rev fs_rev ++ acc) = true ->
  exists pre, good_run_rev (map LGood fs_rev ++ rest) acc = pre ++ rev fs_rev ++ acc.
Proof.
  induction fs_rev as [|f fr IH]; intros rest acc H.
  - cbn [map app rev]. apply good_run_rev_ext.
  - cbn [map app rev good_run_rev] in *. rewrite <- app_assoc in H. cbn [app] in H.
    pose proof (contiguous_any_tail _ _ H) as Hfa.
    destruct acc as [|g acc'].
    + destruct (IH rest [f] H) as [pre Hp]. exists pre. rewrite Hp, <- app_assoc. reflexivity.
    + cbn [contiguous_any] in Hfa. apply andb_true_iff in Hfa. destruct Hfa as [Hg _]. rewrite Hg.
      destruct (IH rest (f :: g :: acc') H) as [pre Hp]. exists pre. rewrite Hp, <- app_assoc. reflexivity.
Qed.

Lemma contiguous_from_any : forall fs b, contiguous_from b fs = true -> contiguous_any fs = true.
Proof.
  induction fs as [|f r IH]; intros b H; [reflexivity|].
  cbn [contiguous_from] in H. apply andb_true_iff in H. destruct H as [Hf Hr]. apply N.eqb_eq in Hf.
  cbn [contiguous_any]. destruct r as [|g r']; [reflexivity|].
  pose proof Hr as Hr'. cbn [contiguous_from] in Hr'. apply andb_true_iff in Hr'. destruct Hr' as [Hg _].
  apply N.eqb_eq in Hg. apply andb_true_iff. split; [apply N.eqb_eq; lia | exact (IH _ Hr)].
Qed.

(* in a valid stream the frame at position n carries seq n *)
Lemma contiguous_from_nth : forall pre b f r, contiguous_from b (pre ++ f :: r) = true -> fseq f = b + nlen pre.
Proof.
  induction pre as [|p pre IH]; intros b f r H.
  - cbn [app contiguous_from] in H. apply andb_true_iff in H. destruct H as [H _]. apply N.eqb_eq in H.
    unfold nlen. cbn [length]. lia.
  - cbn [app contiguous_from] in H. apply andb_true_iff in H. destruct H as [_ H].
    rewrite (IH _ _ _ H). unfold nlen. cbn [length]. lia.
Qed.

(* a tail of a valid stream that begins with seq 0 is the whole stream *)
Lemma suffix_from_0_whole l pre fs :
  valid_log l = true -> l = pre ++ fs -> starts_at_0 fs = true -> fs = l.
Proof.
  intros Hv Hl H0. destruct fs as [|f r]; [discriminate|]. cbn [starts_at_0] in H0. apply N.eqb_eq in H0.
  unfold valid_log in Hv. rewrite Hl in Hv. pose proof (contiguous_from_nth _ _ _ _ Hv) as Hn.
  destruct pre as [|p pre]; [symmetry; exact Hl|]. unfold nlen in Hn. cbn [length] in Hn. lia.
Qed.

(* a window [fs] (oldest first) parsed from the end of [ls] *)
Lemma window_in_good_tail ls fs rest :
  rev ls = map LGood (rev fs) ++ rest -> contiguous_any fs = true ->
  exists pre, good_tail ls = pre ++ fs.
Proof.
  intros Hr Hc. unfold good_tail. rewrite Hr.
  destruct (good_run_rev_window (rev fs) rest []) as [pre Hp].
  - rewrite rev_involutive, app_nil_r. exact Hc.
  - exists pre. rewrite Hp, rev_involutive, app_nil_r. reflexivity.
Qed.

Lemma scan_back_window me mb ls fs_rev cpl :
  scan_back me mb ls = STail fs_rev cpl -> exists rest, rev ls = map LGood fs_rev ++ rest.
Proof.
  unfold scan_back. destruct ls as [|x ls'].
  - intros H; inversion H; subst. exists []. reflexivity.
  - remember (x :: ls') as ls.
    set (w := N.min (total_len ls) mb).
    destruct (all_good (firstnN me (take_back w 0 (rev ls)))) as [fr|] eqn:Eg; [|discriminate].
    intros H; inversion H; subst fr cpl.
    destruct (take_back_prefix w (rev ls) 0) as [r1 Hr1].
    destruct (firstnN_prefix (take_back w 0 (rev ls)) me) as [r2 Hr2].
    pose proof (all_good_map _ _ Eg) as Hpm.
    exists (r2 ++ r1). rewrite Hr1 at 1. rewrite Hr2 at 1. rewrite Hpm, <- app_assoc. reflexivity.
Qed.

Theorem scan_tail_spec l s :
  valid_log l = true -> FullFaithful l s -> ScanSpec l (scan_tail s).
Proof.
  intros Hv Hff me mb fs cpl H.
  unfold scan_tail, scan_tail_gen in H.
  destruct s as [ls|]; [|discriminate].
  destruct (scan_back me mb ls) as [| |fs_rev cp] eqn:Esb; try discriminate.
  cbn [andb] in H.
  destruct (cp && negb (starts_at_0 (rev fs_rev))) eqn:Est; [discriminate|].
  destruct (contiguous_any (rev fs_rev)) eqn:Ec; [|discriminate].
  inversion H; subst fs cpl. clear H.
  destruct (scan_back_window _ _ _ _ _ Esb) as [rest Hrev].
  cbn [FullFaithful] in Hff. destruct Hff as [pre0 Hpre0].
  assert (Hrev' : rev ls = map LGood (rev (rev fs_rev)) ++ rest) by (rewrite rev_involutive; exact Hrev).
  destruct (window_in_good_tail ls (rev fs_rev) rest Hrev' Ec) as [pre Hp].
  assert (Hl : l = (pre0 ++ pre) ++ rev fs_rev) by (rewrite Hpre0, Hp, app_assoc; reflexivity).
  split; [eexists; exact Hl|].
  intros Hcp. rewrite Hcp in Est. cbn [andb] in Est. apply negb_false_iff in Est.
  exact (suffix_from_0_whole l _ _ Hv Hl Est).
Qed.

Theorem replay_faithful l s : valid_log l = true -> FullFaithful l s -> replay_fast s l = l.
Proof.
  intros Hv Hff. unfold replay_fast, try_replay.
  destruct s as [ls|]; [|reflexivity].
  destruct (all_good ls) as [fs|] eqn:Eg; [|reflexivity].
  destruct (contiguous_from 0 fs) eqn:Ec; [|reflexivity].
  destruct fs as [|f fs']; [reflexivity|].
  pose proof (all_good_map _ _ Eg) as Hm.
  cbn [FullFaithful] in Hff. destruct Hff as [pre0 Hpre0].
  assert (Hrw : rev ls = map LGood (rev (f :: fs')) ++ []) by (rewrite Hm, map_rev, app_nil_r; reflexivity).
  destruct (window_in_good_tail ls (f :: fs') [] Hrw (contiguous_from_any _ _ Ec)) as [pre Hp].
  assert (Hl : l = (pre0 ++ pre) ++ f :: fs') by (rewrite Hpre0, Hp, app_assoc; reflexivity).
  apply (suffix_from_0_whole l _ _ Hv Hl).
  cbn [contiguous_from] in Ec. apply andb_true_iff in Ec. destruct Ec as [E0 _]. exact E0.
Qed.

(* ------------------------------------------------------------------ all full-sidecar queries *)
Definition consts_wf (k : consts) : Prop := forallb loop_wf (k_loops k) = true.

Lemma loop_n_wf k i : consts_wf k -> loop_wf (loop_n k i) = true.
Proof.
  intros H. unfold loop_n. unfold consts_wf in H. rewrite forallb_forall in H.
  destruct (nth_in_or_default i (k_loops k) dcfg) as [Hin|Hd]; [apply H; exact Hin | rewrite Hd; reflexivity].
Qed.

(* Every query whose fast path reads the full sidecar only returns the truth answer, for every
   history, every sidecar content that is not in class K1, and all loop constants. *)
Theorem full_sidecar_transparent k l s q a :
  consts_wf k -> valid_log l = true -> FullFaithful l s -> q <> QInflight ->
  q_fast k s l q = Some a -> a = q_truth k l q.
Proof.
  intros Hk Hv Hff Hq H.
  pose proof (scan_tail_spec l s Hv Hff) as Hsc.
  pose proof (replay_faithful l s Hv Hff) as Hrp.
  destruct q; cbn [q_fast q_truth] in *; try discriminate; inversion H; subst a; clear H.
  - rewrite Hrp. reflexivity.
  - rewrite (cursor_status_transparent _ l s (loop_n_wf k 2 Hk) Hsc Hrp). reflexivity.
  - rewrite (rotate_transparent _ l s (loop_n_wf k 3 Hk) Hsc Hrp). reflexivity.
  - rewrite (selection_transparent _ l s (loop_n_wf k 4 Hk) Hsc Hrp). reflexivity.
  - rewrite (cstatus_transparent _ l s (loop_n_wf k 1 Hk) Hsc Hrp). reflexivity.
  - congruence.
  - unfold cut_fast, cut_truth. rewrite Hrp. reflexivity.
Qed.

(* the answers never contain the HANG marker: every loop leaves *)
Theorem full_sidecar_no_hang k l s q a :
  consts_wf k -> valid_log l = true -> FullFaithful l s -> q <> QInflight ->
  q_fast k s l q = Some a -> a <> HANG \/ q_truth k l q = HANG.
Proof.
  intros Hk Hv Hff Hq H. rewrite (full_sidecar_transparent k l s q a Hk Hv Hff Hq H).
  destruct (list_eq_dec N.eq_dec (q_truth k l q) HANG); [right; assumption | left; assumption].
Qed.

(* ------------------------------------------------------------------ witnesses (small constants) *)
Definition wcfg (cap clears fb : bool) : cfg :=
  {| l_initial := 10; l_max_bytes := 40; l_max_events := 100; l_cap_break := cap; l_clears := clears;
     l_incomplete_fallback := fb |}.
Definition k_small : consts :=
  {| k_loops := [wcfg true true true; wcfg true true true; wcfg true true true; wcfg true true true; wcfg true true true];
     k_max_keys := 32; k_inflight_events := 512; k_inflight_bytes := 524288; k_ckpt_events := 100; k_ckpt_bytes := 1000 |}.
Definition wf0 : frame := {| fseq := 0; flen := 8; fb := BCreated |}.
Definition wf1 : frame := {| fseq := 1; flen := 8; fb := BSelection |}.
Definition wf2 : frame := {| fseq := 2; flen := 8; fb := BMessage |}.
Definition wf3 : frame := {| fseq := 3; flen := 8; fb := BSelection |}.
Definition wlog : log := [wf0; wf1; wf2; wf3].
Definition wside : sfile := Some (project_full wlog).

Lemma k_small_wf : consts_wf k_small.
Proof. vm_compute. reflexivity. Qed.

Lemma good_run_rev_suffix : forall fr acc,
  exists p, rev fr ++ acc = p ++ good_run_rev (map LGood fr) acc.
Proof.
  induction fr as [|f fr IH]; intros acc; cbn [rev map good_run_rev app]; [exists []; reflexivity|].
  rewrite <- app_assoc. cbn [app].
  destruct acc as [|g acc'].
  - exact (IH [f]).
  - destruct (fseq g =? fseq f + 1); [exact (IH (f :: g :: acc'))|].
    exists (rev fr ++ [f]). rewrite <- app_assoc. reflexivity.
Qed.

Lemma project_full_faithful l : FullFaithful l (Some (project_full l)).
Proof.
  cbn [FullFaithful]. unfold good_tail, project_full. rewrite <- map_rev.
  destruct (good_run_rev_suffix (rev l) []) as [p Hp]. exists p.
  rewrite rev_involutive, app_nil_r in Hp. exact Hp.
Qed.

(* non-vacuity: an intact sidecar satisfies the hypotheses and the loops really run *)
Lemma transparent_example :
  consts_wf k_small /\ valid_log wlog = true /\ FullFaithful wlog wside
  /\ q_fast k_small wside wlog (QSelection 3) = Some [2; 3; 1]
  /\ q_truth k_small wlog (QSelection 3) = [2; 3; 1].
Proof.
  split; [exact k_small_wf|]. split; [reflexivity|]. split; [apply project_full_faithful|].
  split; vm_compute; reflexivity.
Qed.

(* S2: without clearing the accumulator per scan, a decision inside the first window is reported
   once per doubling round *)
Lemma selection_dup_unfixed :
  selection_fast (wcfg true false true) 3 wside wlog = Some [3; 3; 3]
  /\ selection_truth 3 wlog = [3; 1].
Proof. split; vm_compute; reflexivity. Qed.

(* the cap break alone is not enough: without the truth fallback after a non-exhaustive scan the
   answer is the content of the last window *)
Definition wcur (s : N) (k : N) : frame := {| fseq := s; flen := 30; fb := BCursor k |}.
Definition wlog2 : log := [wf0; wcur 1 100; wcur 2 200].
Lemma cursor_no_fallback_unfixed :
  option_map enc_cstat (cursor_status_fast (wcfg true true false) 32 (Some (project_full wlog2)) wlog2) = Some [1; 2; 1; 2]
  /\ enc_cstat (cursor_status_truth 32 wlog2) = [1; 2; 2; 1; 2].
Proof. split; vm_compute; reflexivity. Qed.

(* K1: a well-formed stale prefix is accepted and changes answers *)
Definition wstale : sfile := Some [LGood wf0; LGood wf1; LGood wf2].
Lemma K1_changes_answer :
  valid_log wlog = true /\ ~ FullFaithful wlog wstale
  /\ q_fast k_small wstale wlog QReplay = Some [3; 0; 1; 2] /\ q_truth k_small wlog QReplay = [4; 0; 1; 2; 3]
  /\ q_fast k_small wstale wlog (QSelection 3) = Some [1; 1] /\ q_truth k_small wlog (QSelection 3) = [2; 3; 1].
Proof.
  split; [reflexivity|]. split.
  - intros [pre H]. apply (f_equal (@rev frame)) in H. rewrite rev_app_distr in H.
    vm_compute in H. discriminate.
  - repeat split; vm_compute; reflexivity.
Qed.

(* before the scan_tail fix: a zero-byte sidecar and a sidecar re-created by a later append were
   reported as the complete history *)
Lemma empty_sidecar_unfixed :
  FullFaithful wlog (Some [])
  /\ selection_fast_with (scan_tail_unfixed (Some [])) (wcfg true true true) 3 (Some []) wlog = Some []
  /\ selection_fast (wcfg true true true) 3 (Some []) wlog = Some [3; 1].
Proof. split; [exists wlog; vm_compute; reflexivity|]. split; vm_compute; reflexivity. Qed.

Lemma recreated_suffix_unfixed :
  FullFaithful wlog (Some [LGood wf2; LGood wf3])
  /\ selection_fast_with (scan_tail_unfixed (Some [LGood wf2; LGood wf3])) (wcfg true true true) 3 (Some [LGood wf2; LGood wf3]) wlog = Some [3]
  /\ selection_fast (wcfg true true true) 3 (Some [LGood wf2; LGood wf3]) wlog = Some [3; 1].
Proof. split; [exists [wf0; wf1]; vm_compute; reflexivity|]. split; vm_compute; reflexivity. Qed.

(* before the inflight fix: no sidecar => "no job in flight" *)
Definition wjob : log := [wf0; {| fseq := 1; flen := 8; fb := BJobSpawned 0 true |}].
Lemma inflight_absent_unfixed :
  inflight_fast_unfixed 512 524288 None = None
  /\ inflight_fast 512 524288 None wjob = Some 0
  /\ inflight_truth 512 524288 wjob = Some 0.
Proof. repeat split; vm_compute; reflexivity. Qed.

(* Why QInflight is outside [full_sidecar_transparent]: the inflight scan is ONE bounded scan whose
   answer is the content of its window; an unparsable line of another length just outside the
   window of a faithful sidecar shifts the window relative to the one over the rebuilt sidecar. *)
Definition wjob3 : log := [wf0; {| fseq := 1; flen := 8; fb := BJobSpawned 0 true |}; {| fseq := 2; flen := 8; fb := BOther |}].
Definition wshift : sfile := Some [LBad 1000; LGood {| fseq := 2; flen := 8; fb := BOther |}].
Lemma inflight_window_shift :
  valid_log wjob3 = true /\ FullFaithful wjob3 wshift
  /\ inflight_fast 512 20 wshift wjob3 = None /\ inflight_truth 512 20 wjob3 = Some 0.
Proof.
  split; [reflexivity|]. split; [exists [wf0; {| fseq := 1; flen := 8; fb := BJobSpawned 0 true |}]; vm_compute; reflexivity|].
  split; vm_compute; reflexivity.
Qed.

(* ------------------------------------------------------------------ the message ordinal index *)
(* a misaligned index stays misaligned under appends, so every later count is refused (readers
   fall back to truth).  A writer that "repairs" the alignment breaks exactly this. *)
Theorem ord_append_never_repairs recs torn seqs mr_last :
  torn <> 0 -> ord_count (fold_left ord_append seqs (OFile recs torn)) mr_last = OErr.
Proof.
  intros Ht. assert (H : fold_left ord_append seqs (OFile recs torn) = OFile recs torn).
  { induction seqs as [|x r IH]; [reflexivity|]. cbn [fold_left ord_append].
    destruct (torn =? 0) eqn:E; [apply N.eqb_eq in E; contradiction | exact IH]. }
  rewrite H. cbn [ord_count]. destruct (torn =? 0) eqn:E; [apply N.eqb_eq in E; contradiction | reflexivity].
Qed.

(* what the count reader accepts: an aligned file whose LAST record is the last message — nothing
   about the records before it (class K3) *)
Theorem ord_count_accepts f mr_last n :
  ord_count f mr_last = OSome n ->
  exists recs last, f = OFile recs 0 /\ mr_last = OSome last /\ n = nlen recs /\ hd_error (rev recs) = Some last.
Proof.
  destruct f as [| | |recs torn]; cbn [ord_count]; try discriminate.
  destruct (torn =? 0) eqn:Et; cbn [negb]; [|discriminate]. apply N.eqb_eq in Et. subst torn.
  destruct mr_last as [| |last]; try discriminate.
  destruct (rev recs) as [|r rr] eqn:Er; [discriminate|].
  destruct (r =? last) eqn:El; [|discriminate]. apply N.eqb_eq in El. subst r.
  intros H; inversion H; subst n. exists recs, last. rewrite Er. repeat split; reflexivity.
Qed.

(* the index written by the appends of an undisturbed thread is the projection ... *)
Lemma ord_appends_projection seqs : seqs <> [] ->
  fold_left ord_append seqs OAbsent = OFile seqs 0.
Proof.
  destruct seqs as [|x r]; [congruence|]. intros _. cbn [fold_left ord_append].
  assert (H : forall r acc, fold_left ord_append r (OFile acc 0) = OFile (acc ++ r) 0).
  { clear. induction r as [|y r IH]; intros acc; cbn [fold_left ord_append]; [rewrite app_nil_r; reflexivity|].
    rewrite N.eqb_refl, IH, <- app_assoc. reflexivity. }
  rewrite H. reflexivity.
Qed.

(* ... and on the projection both readers give the truth answers *)
Theorem ord_projection_transparent (msgs : list N) (last : N) :
  hd_error (rev msgs) = Some last ->
  ord_count (OFile msgs 0) (OSome last) = OSome (nlen msgs)
  /\ forall k known, (forall m, In m msgs -> known m = true) -> 0 < k ->
       ord_by_ordinal (OFile msgs 0) known k =
       match nth_error msgs (N.to_nat (k - 1)) with Some m => OSome m | None => ONone end.
Proof.
  intros Hl. split.
  - cbn [ord_count]. rewrite N.eqb_refl. cbn [negb]. destruct (rev msgs) as [|r rr]; [discriminate|].
    cbn in Hl. inversion Hl; subst r. rewrite N.eqb_refl. reflexivity.
  - intros k known Hk Hpos. cbn [ord_by_ordinal].
    destruct (k =? 0) eqn:E; [apply N.eqb_eq in E; lia|].
    destruct (nth_error msgs (N.to_nat (k - 1))) as [m|] eqn:En; [|reflexivity].
    rewrite (Hk m (nth_error_In _ _ En)). reflexivity.
Qed.

(* K3: an aligned index that lost a record in the middle passes the cross-check *)
Lemma K3_changes_answer :
  ord_count (OFile [1; 5] 0) (OSome 5) = OSome 2
  /\ ord_by_ordinal (OFile [1; 5] 0) (fun _ => true) 2 = OSome 5
  /\ nlen [1; 3; 5] = 3 /\ nth_error [1; 3; 5] 1 = Some 3.
Proof. repeat split; vm_compute; reflexivity. Qed.

(* the seeded "repair" (truncate the torn bytes, then append) is not the reference step *)
Lemma ord_repair_step_rejected :
  ord_step_ok {| os_before := OFile [1; 3] 19; os_seq := 7; os_after := OFile [1; 3; 7] 0; os_msgs := [1; 3; 5; 7] |} = false
  /\ ord_step_ok {| os_before := OFile [1; 3] 19; os_seq := 7; os_after := OFile [1; 3] 19; os_msgs := [1; 3; 5; 7] |} = true.
Proof. split; vm_compute; reflexivity. Qed.

(* ------------------------------------------------------------------ the checkpoint sidecar (class K2) *)
(* every line of a real file has at least its '\n' *)
Definition lens_pos (ls : list line) : bool := forallb (fun x => 1 <=? line_len x) ls.
Definition log_lens_pos (l : log) : bool := forallb (fun f => 1 <=? flen f) l.

Lemma firstnN_all {B} : forall (l : list B) n, nlen l <= n -> firstnN n l = l.
Proof.
  induction l as [|x r IH]; intros n H; cbn [firstnN]; [reflexivity|].
  unfold nlen in H. cbn [length] in H.
  destruct (n =? 0) eqn:E; [apply N.eqb_eq in E; lia|].
  f_equal. apply IH. unfold nlen. lia.
Qed.

Lemma total_len_pos r : lens_pos r = true -> r <> [] -> 1 <= total_len r.
Proof.
  destruct r as [|x r]; [congruence|]. intros H _. unfold lens_pos in H. cbn [forallb] in H.
  apply andb_true_iff in H. destruct H as [H _]. apply N.leb_le in H.
  unfold total_len. cbn [map sumN]. lia.
Qed.

Lemma take_back_all w : forall rl b, lens_pos rl = true -> b + total_len rl <= w -> take_back w b rl = rl.
Proof.
  induction rl as [|x r IH]; intros b Hp Hw; cbn [take_back]; [reflexivity|].
  assert (Hpr : lens_pos r = true).
  { unfold lens_pos in *. cbn [forallb] in Hp. apply andb_true_iff in Hp. tauto. }
  assert (Ht : total_len (x :: r) = line_len x + total_len r) by (unfold total_len; cbn [map sumN]; reflexivity).
  destruct r as [|y r'].
  - rewrite Ht in Hw. unfold total_len in Hw. cbn [map sumN] in Hw.
    destruct (b + line_len x <=? w) eqn:E; [reflexivity|]. apply N.leb_gt in E. lia.
  - assert (H1 : 1 <= total_len (y :: r')) by (apply total_len_pos; [exact Hpr | discriminate]).
    destruct (b + line_len x + 1 <=? w) eqn:E; [|apply N.leb_gt in E; lia].
    f_equal. apply IH; [exact Hpr | lia].
Qed.

Lemma total_len_rev ls : total_len (rev ls) = total_len ls.
Proof.
  unfold total_len. induction ls as [|x r IH]; [reflexivity|].
  cbn [rev map sumN]. rewrite map_app, sumN_app, IH. cbn [map sumN]. lia.
Qed.

Lemma lens_pos_rev ls : lens_pos ls = true -> lens_pos (rev ls) = true.
Proof. unfold lens_pos. rewrite !forallb_forall. intros H x Hx. apply H. apply in_rev. exact Hx. Qed.

(* a complete scan of an all-good file returns all of it, latest first *)
Lemma scan_back_complete me mb fs fs_rev :
  log_lens_pos fs = true -> scan_back me mb (map LGood fs) = STail fs_rev true -> fs_rev = rev fs.
Proof.
  intros Hp H. destruct fs as [|f0 fs0].
  - cbn in H. inversion H; reflexivity.
  - remember (f0 :: fs0) as fs eqn:Efs. unfold scan_back in H.
    destruct (map LGood fs) as [|x ls'] eqn:Em; [subst fs; discriminate|]. rewrite <- Em in H. clear x ls' Em.
    set (ls := map LGood fs) in *.
    destruct (all_good (firstnN me (take_back (N.min (total_len ls) mb) 0 (rev ls)))) as [fr|] eqn:Eg; [|discriminate].
    inversion H as [[Hfr Hc]]. subst fr. apply andb_true_iff in Hc. destruct Hc as [Hb He].
    apply N.leb_le in Hb, He.
    assert (Hlp : lens_pos ls = true).
    { unfold ls, lens_pos, log_lens_pos in *. rewrite forallb_forall in *. intros x Hx.
      apply in_map_iff in Hx. destruct Hx as [f [<- Hf]]. exact (Hp f Hf). }
    rewrite take_back_all in Eg; [| apply lens_pos_rev; exact Hlp | rewrite total_len_rev; lia].
    rewrite firstnN_all in Eg by (unfold nlen in *; rewrite rev_length; exact He).
    unfold ls in Eg. rewrite <- map_rev, all_good_of_map in Eg. inversion Eg; reflexivity.
Qed.

(* --- the choice of the latest checkpoint does not depend on the order of the frames --- *)
Definition ck_elig (mt : N) (f : frame) : bool := is_checkpoint f && (ck_to_seq f <=? mt).
Definition ck_step (mt : N) (b : option frame) (f : frame) : option frame :=
  if ck_elig mt f
  then match b with None => Some f | Some c => if ck_better f c then Some f else Some c end
  else b.

Lemma latest_ckpt_fold mt : forall fs b, latest_ckpt mt b fs = fold_left (ck_step mt) fs b.
Proof.
  induction fs as [|f r IH]; intros b; [reflexivity|].
  cbn [latest_ckpt fold_left]. unfold ck_step at 2. unfold ck_elig.
  destruct (is_checkpoint f && (ck_to_seq f <=? mt)); apply IH.
Qed.

Lemma better_total x y : ck_better x y = false -> ck_better y x = false -> fseq x = fseq y.
Proof.
  unfold ck_better. intros H1 H2.
  apply orb_false_iff in H1. destruct H1 as [A1 B1]. apply orb_false_iff in H2. destruct H2 as [A2 B2].
  apply N.ltb_ge in A1, A2. assert (E : ck_to_seq x = ck_to_seq y) by lia.
  rewrite E, N.eqb_refl in B1. rewrite E, N.eqb_refl in B2. cbn [andb] in *.
  apply N.ltb_ge in B1, B2. lia.
Qed.

Lemma better_asym x y : ck_better x y = true -> ck_better y x = false.
Proof.
  unfold ck_better. intros H. apply orb_true_iff in H. apply orb_false_iff.
  destruct H as [H|H].
  - apply N.ltb_lt in H. split; [apply N.ltb_ge; lia|].
    destruct (ck_to_seq y =? ck_to_seq x) eqn:E; [apply N.eqb_eq in E; lia | reflexivity].
  - apply andb_true_iff in H. destruct H as [E L]. apply N.eqb_eq in E. apply N.ltb_lt in L.
    split; [apply N.ltb_ge; lia|]. rewrite E, N.eqb_refl. cbn [andb]. apply N.ltb_ge. lia.
Qed.

Lemma better_trans x y z : ck_better x y = true -> ck_better y z = true -> ck_better x z = true.
Proof.
  unfold ck_better. intros H1 H2. apply orb_true_iff in H1. apply orb_true_iff in H2. apply orb_true_iff.
  destruct H1 as [H1|H1], H2 as [H2|H2].
  - apply N.ltb_lt in H1, H2. left. apply N.ltb_lt. lia.
  - apply N.ltb_lt in H1. apply andb_true_iff in H2. destruct H2 as [E _]. apply N.eqb_eq in E.
    left. apply N.ltb_lt. lia.
  - apply N.ltb_lt in H2. apply andb_true_iff in H1. destruct H1 as [E _]. apply N.eqb_eq in E.
    left. apply N.ltb_lt. lia.
  - apply andb_true_iff in H1. destruct H1 as [E1 L1]. apply andb_true_iff in H2. destruct H2 as [E2 L2].
    apply N.eqb_eq in E1, E2. apply N.ltb_lt in L1, L2. right.
    apply andb_true_iff. split; [apply N.eqb_eq; lia | apply N.ltb_lt; lia].
Qed.

Lemma ck_step_comm mt b x y : (fseq x = fseq y -> x = y) ->
  ck_step mt (ck_step mt b x) y = ck_step mt (ck_step mt b y) x.
Proof.
  intros Hinj. unfold ck_step.
  destruct (ck_elig mt x) eqn:Ex, (ck_elig mt y) eqn:Ey; try rewrite Ex; try rewrite Ey; try reflexivity.
  assert (Hxy : (if ck_better y x then Some y else Some x) = (if ck_better x y then Some x else Some y)).
  { destruct (ck_better y x) eqn:A.
    - rewrite (better_asym _ _ A). reflexivity.
    - destruct (ck_better x y) eqn:B; [reflexivity|]. f_equal. apply Hinj. exact (better_total _ _ B A). }
  destruct b as [c|]; [|exact Hxy].
  destruct (ck_better x c) eqn:Bx, (ck_better y c) eqn:By; try rewrite Bx; try rewrite By.
  - exact Hxy.
  - destruct (ck_better y x) eqn:A; [|reflexivity].
    (* y > x > c but y is not better than c: impossible *)
    pose proof (better_trans y x c A Bx) as H. congruence.
  - destruct (ck_better x y) eqn:A; [|reflexivity].
    pose proof (better_trans x y c A By) as H. congruence.
  - reflexivity.
Qed.

Lemma ck_fold_comm mt : forall fs b x, (forall y, In y fs -> fseq x = fseq y -> x = y) ->
  fold_left (ck_step mt) fs (ck_step mt b x) = ck_step mt (fold_left (ck_step mt) fs b) x.
Proof.
  induction fs as [|y r IH]; intros b x H; [reflexivity|].
  cbn [fold_left]. rewrite (ck_step_comm mt b x y (H y (or_introl eq_refl))).
  apply IH. intros z Hz. apply H. right; exact Hz.
Qed.

Definition seq_inj (fs : list frame) : Prop := forall a b, In a fs -> In b fs -> fseq a = fseq b -> a = b.

Lemma ck_fold_rev mt : forall fs b, seq_inj fs ->
  fold_left (ck_step mt) (rev fs) b = fold_left (ck_step mt) fs b.
Proof.
  induction fs as [|x r IH]; intros b Hi; [reflexivity|].
  cbn [rev]. rewrite fold_left_app. cbn [fold_left].
  rewrite IH by (intros a c Ha Hc; apply Hi; right; assumption).
  symmetry. apply ck_fold_comm. intros y Hy. apply Hi; [left; reflexivity | right; exact Hy].
Qed.

Lemma contiguous_from_ge : forall l b a, contiguous_from b l = true -> In a l -> b <= fseq a.
Proof.
  induction l as [|f r IH]; intros b a H Ha; [destruct Ha|].
  cbn [contiguous_from] in H. apply andb_true_iff in H. destruct H as [Hf Hr]. apply N.eqb_eq in Hf.
  destruct Ha as [<-|Ha]; [lia|]. specialize (IH _ _ Hr Ha). lia.
Qed.

Lemma valid_seq_inj l : valid_log l = true -> seq_inj l.
Proof.
  unfold valid_log. generalize 0. induction l as [|f r IH]; intros b H a c Ha Hc E; [destruct Ha|].
  cbn [contiguous_from] in H. apply andb_true_iff in H. destruct H as [Hf Hr]. apply N.eqb_eq in Hf.
  destruct Ha as [<-|Ha], Hc as [<-|Hc].
  - reflexivity.
  - pose proof (contiguous_from_ge _ _ _ Hr Hc). lia.
  - pose proof (contiguous_from_ge _ _ _ Hr Ha). lia.
  - exact (IH _ Hr a c Ha Hc E).
Qed.

Lemma latest_ckpt_filter mt : forall fs b, latest_ckpt mt b (filter is_checkpoint fs) = latest_ckpt mt b fs.
Proof.
  induction fs as [|f r IH]; intros b; [reflexivity|].
  cbn [filter latest_ckpt]. destruct (is_checkpoint f) eqn:E.
  - cbn [latest_ckpt]. rewrite E. cbn [andb]. destruct (ck_to_seq f <=? mt); apply IH.
  - cbn [andb]. apply IH.
Qed.

(* what a complete scan of the exact checkpoint projection yields *)
Lemma ckpt_projection_scan me mb mt l fs_rev :
  valid_log l = true -> log_lens_pos l = true ->
  scan_back me mb (comp_projection l) = STail fs_rev true ->
  latest_ckpt mt None fs_rev = latest_ckpt mt None l.
Proof.
  intros Hv Hp H. unfold comp_projection in H.
  assert (Hp' : log_lens_pos (filter is_checkpoint l) = true).
  { unfold log_lens_pos in *. rewrite forallb_forall in *. intros f Hf. apply Hp. apply filter_In in Hf. tauto. }
  rewrite (scan_back_complete _ _ _ _ Hp' H).
  rewrite !latest_ckpt_fold, ck_fold_rev.
  - rewrite <- !latest_ckpt_fold. apply latest_ckpt_filter.
  - intros a c Ha Hc. apply (valid_seq_inj l Hv); [apply filter_In in Ha | apply filter_In in Hc]; tauto.
Qed.

(* ¬K2: the checkpoint sidecar, when present and not zero-length, is the projection of the truth stream; when
   absent (or zero-length: the readers treat that as absent since the S4c fix), a full sidecar without an
   unparsable line is the truth stream (so what is built from it is the projection) *)
Definition CompFaithful (l : log) (comp full : sfile) : Prop :=
  match comp_seen comp with
  | Some ls => ls = comp_projection l
  | None => match full with
            | None => True
            | Some fl => forall fs, all_good fl = Some fs -> fs = l
            end
  end.

Lemma ckpt_file_fast me mb l :
  valid_log l = true -> log_lens_pos l = true ->
  match (match scan_back me mb (comp_projection l) with
         | STail fs_rev cpl => if cpl then CkSome (latest_ckpt U64MAX None fs_rev) else CkErr
         | _ => CkErr
         end) with
  | CkSome (Some f) => Some (fseq f)
  | _ => option_map fseq (latest_ckpt_truth U64MAX l)
  end = option_map fseq (latest_ckpt_truth U64MAX l).
Proof.
  intros Hv Hp. destruct (scan_back me mb (comp_projection l)) as [| |fs_rev cpl] eqn:Es; try reflexivity.
  destruct cpl; [|reflexivity].
  rewrite (ckpt_projection_scan me mb U64MAX l fs_rev Hv Hp Es).
  unfold latest_ckpt_truth. destruct (latest_ckpt U64MAX None l); reflexivity.
Qed.

Theorem status_ckpt_transparent me mb comp full l :
  valid_log l = true -> log_lens_pos l = true -> FullFaithful l full -> CompFaithful l comp full ->
  status_ckpt_fast me mb comp full l = option_map fseq (latest_ckpt_truth U64MAX l).
Proof.
  intros Hv Hp Hff Hcf. unfold status_ckpt_fast.
  rewrite (replay_faithful l full Hv Hff). fold (latest_ckpt_truth U64MAX l).
  unfold latest_ckpt_cache.
  unfold CompFaithful in Hcf. destruct (comp_seen comp) as [ls|].
  - subst ls. cbv iota beta. exact (ckpt_file_fast me mb l Hv Hp).
  - destruct full as [fl|]; [|reflexivity].
    unfold header_project. destruct (all_good fl) as [fs|] eqn:Eg; cbn [option_map]; [|reflexivity].
    rewrite (Hcf fs eq_refl).
    destruct (comp_projection l) as [|x r] eqn:Ec; [reflexivity|]. rewrite <- Ec.
    cbv iota beta. exact (ckpt_file_fast me mb l Hv Hp).
Qed.

(* K2 is not vacuous: a sidecar re-created by the append of a later checkpoint with a smaller to_seq *)
Definition wck (s t : N) : frame := {| fseq := s; flen := 8; fb := BCheckpoint true t |}.
Definition wlog3 : log := [wf0; {| fseq := 1; flen := 8; fb := BMessage |}; {| fseq := 2; flen := 8; fb := BMessage |}; wck 3 2; wck 4 1].
Lemma K2_changes_answer :
  valid_log wlog3 = true /\ log_lens_pos wlog3 = true /\ FullFaithful wlog3 (Some (project_full wlog3))
  /\ ~ CompFaithful wlog3 (Some [LGood (wck 4 1)]) (Some (project_full wlog3))
  /\ status_ckpt_fast 100 1000 (Some [LGood (wck 4 1)]) (Some (project_full wlog3)) wlog3 = Some 4
  /\ option_map fseq (latest_ckpt_truth U64MAX wlog3) = Some 3.
Proof.
  split; [reflexivity|]. split; [reflexivity|]. split; [apply project_full_faithful|]. split.
  - unfold CompFaithful, comp_seen. vm_compute. discriminate.
  - split; vm_compute; reflexivity.
Qed.

Lemma status_ckpt_example :
  CompFaithful wlog3 (Some (comp_projection wlog3)) (Some (project_full wlog3))
  /\ CompFaithful wlog3 None (Some (project_full wlog3))
  /\ status_ckpt_fast 100 1000 (Some (comp_projection wlog3)) (Some (project_full wlog3)) wlog3 = Some 3
  /\ status_ckpt_fast 100 1000 None (Some (project_full wlog3)) wlog3 = Some 3.
Proof.
  split; [reflexivity|]. split.
  - unfold CompFaithful, comp_seen. intros fs H. unfold project_full in H. rewrite all_good_of_map in H. inversion H; reflexivity.
  - split; vm_compute; reflexivity.
Qed.

Lemma latest_ckpt_rev mt fs b : seq_inj fs -> latest_ckpt mt b (rev fs) = latest_ckpt mt b fs.
Proof. intros H. rewrite !latest_ckpt_fold. apply ck_fold_rev. exact H. Qed.

(* ------------------------------------------------------------------ index.json: default-thread recovery *)
Lemma recover_from_sound ws : forall cs best id,
  recover_default_from ws best cs = Some id ->
  (exists ts, best = Some (ts, id)) \/ (exists c, In c cs /\ cr_id c = id /\ cr_ws c = ws).
Proof.
  induction cs as [|c r IH]; intros best id H; cbn [recover_default_from] in H.
  - destruct best as [[ts i]|]; [|discriminate]. cbn in H. inversion H; subst. left; eauto.
  - destruct (cr_ws c =? ws) eqn:Ew.
    + apply N.eqb_eq in Ew. apply IH in H. destruct H as [[ts Hb]|[c' [Hin [Hid Hws]]]].
      * destruct best as [[ts0 i0]|].
        -- destruct (cr_ts c <=? ts0).
           ++ inversion Hb; subst. left; eauto.
           ++ inversion Hb; subst. right. exists c. split; [left; reflexivity|]. split; [reflexivity | first [exact Ew | reflexivity]].
        -- inversion Hb; subst. right. exists c. split; [left; reflexivity|]. split; [reflexivity | first [exact Ew | reflexivity]].
      * right. exists c'. repeat split; [right; exact Hin | exact Hid | exact Hws].
    + apply IH in H. destruct H as [Hb|[c' [Hin [Hid Hws]]]]; [left; exact Hb|].
      right. exists c'. repeat split; [right; exact Hin | exact Hid | exact Hws].
Qed.

(* after the loss of index.json the recovered default is an existing thread of this workspace (none is created) *)
Theorem default_recovery_existing ws cs id :
  recover_default ws cs = Some id -> exists c, In c cs /\ cr_id c = id /\ cr_ws c = ws.
Proof.
  intros H. destruct (recover_from_sound ws cs None id H) as [[ts Hb]|Hc]; [discriminate | exact Hc].
Qed.

Lemma recover_from_none ws : forall cs best, recover_default_from ws best cs = None ->
  best = None /\ forall c, In c cs -> cr_ws c <> ws.
Proof.
  induction cs as [|c r IH]; intros best H; cbn [recover_default_from] in H.
  - destruct best as [[ts i]|]; [discriminate|]. split; [reflexivity | intros c []].
  - destruct (cr_ws c =? ws) eqn:Ew.
    + apply IH in H. destruct H as [Hb _]. destruct best as [[ts0 i0]|]; [destruct (cr_ts c <=? ts0)|]; discriminate.
    + apply N.eqb_neq in Ew. apply IH in H. destruct H as [Hb Hr]. split; [exact Hb|].
      intros c' [<-|Hin]; [exact Ew | exact (Hr c' Hin)].
Qed.

(* ... and a thread is created only when the workspace has none *)
Theorem default_recovery_none ws cs :
  recover_default ws cs = None -> forall c, In c cs -> cr_ws c <> ws.
Proof. intros H. exact (proj2 (recover_from_none ws cs None H)). Qed.

(* with a single thread in the workspace the default is recovered *)
Theorem default_recovery_single ws ts id others :
  (forall c, In c others -> cr_ws c <> ws) ->
  recover_default ws ((ts, id, ws) :: others) = Some id.
Proof.
  intros H. unfold recover_default. cbn [recover_default_from cr_ws cr_ts cr_id fst snd]. rewrite N.eqb_refl.
  induction others as [|c r IH]; [reflexivity|].
  cbn [recover_default_from]. destruct (cr_ws c =? ws) eqn:E.
  - apply N.eqb_eq in E. exfalso. exact (H c (or_introl eq_refl) E).
  - apply IH. intros c' Hc'. apply H. right; exact Hc'.
Qed.

(* S15 (fixed in /repo): before the fix the identity of the default was not recovered once the workspace had a branch /
   handoff child; the repaired scan skips children *)
Lemma default_recovery_child :
  recover_default 7 [(100, 1, 7); (105, 2, 7)] = Some 2
  /\ recover_default_fixed 7 [(100, 1, 7); (105, 2, 7)] [2] = Some 1.
Proof. split; vm_compute; reflexivity. Qed.

Lemma filter_incl_in {A} (p : A -> bool) (x : A) l : In x (filter p l) -> In x l.
Proof. intros H. apply filter_In in H. tauto. Qed.

Theorem default_recovery_existing_fixed ws cs children id :
  recover_default_fixed ws cs children = Some id -> exists c, In c cs /\ cr_id c = id /\ cr_ws c = ws.
Proof.
  unfold recover_default_fixed. destruct (recover_default ws (filter (not_child children) cs)) as [i|] eqn:E.
  - intros H. inversion H; subst i. destruct (default_recovery_existing ws _ id E) as (c & Hc & Hi & Hw).
    exists c. split; [exact (filter_incl_in _ c cs Hc)|tauto].
  - exact (default_recovery_existing ws cs id).
Qed.

Theorem default_recovery_none_fixed ws cs children :
  recover_default_fixed ws cs children = None -> forall c, In c cs -> cr_ws c <> ws.
Proof.
  unfold recover_default_fixed. destruct (recover_default ws (filter (not_child children) cs)); [discriminate|].
  exact (default_recovery_none ws cs).
Qed.

(* the default is recovered whenever it is the only thread of the workspace that is not a branch / handoff child *)
Theorem default_recovery_root ws ts id others children :
  ~ In id children ->
  (forall c, In c others -> cr_ws c <> ws \/ In (cr_id c) children) ->
  recover_default_fixed ws ((ts, id, ws) :: others) children = Some id.
Proof.
  intros Hr Ho. unfold recover_default_fixed. cbn [filter].
  assert (Nc : not_child children (ts, id, ws) = true).
  { unfold not_child. cbn [cr_id fst snd]. apply negb_true_iff. apply not_true_is_false. intros E.
    apply existsb_exists in E. destruct E as (x & Hx & Ex). apply N.eqb_eq in Ex. subst x. exact (Hr Hx). }
  rewrite Nc. rewrite default_recovery_single; [reflexivity|].
  intros c Hc. apply filter_In in Hc. destruct Hc as [Hc Hn]. destruct (Ho c Hc) as [W|C]; [exact W|].
  exfalso. unfold not_child in Hn. apply negb_true_iff in Hn.
  assert (T : existsb (N.eqb (cr_id c)) children = true) by (apply existsb_exists; exists (cr_id c); split; [exact C|apply N.eqb_refl]).
  rewrite T in Hn. discriminate.
Qed.

(* S4c (fixed in /repo): the reader before the fix took a zero-length checkpoint sidecar for a complete empty history *)
Lemma zero_length_comp_unfixed :
  latest_ckpt_cache_unfixed 100 1000 (Some []) (Some (project_full wlog3)) U64MAX = CkSome None
  /\ latest_ckpt_cache 100 1000 (Some []) (Some (project_full wlog3)) U64MAX = CkSome (Some (wck 3 2))
  /\ CompFaithful wlog3 (Some []) (Some (project_full wlog3)).
Proof.
  split; [vm_compute; reflexivity|]. split; [vm_compute; reflexivity|].
  unfold CompFaithful, comp_seen. intros fs H. unfold project_full in H. rewrite all_good_of_map in H. inversion H; reflexivity.
Qed.
Lemma zero_length_comp_is_absent me mb full mt :
  latest_ckpt_cache me mb (Some []) full mt = latest_ckpt_cache me mb None full mt.
Proof. reflexivity. Qed.

(* ------------------------------------------------------------------ cut points through the caches *)
Lemma ckpt_cache_some me mb mt comp full l r :
  valid_log l = true -> log_lens_pos l = true -> CompFaithful l comp full ->
  latest_ckpt_cache me mb comp full mt = CkSome r -> r = latest_ckpt mt None l.
Proof.
  intros Hv Hp Hcf. unfold latest_ckpt_cache.
  assert (Hfile : forall ls, ls = comp_projection l ->
            match scan_back me mb ls with
            | STail fs_rev cpl => if cpl then CkSome (latest_ckpt mt None fs_rev) else CkErr
            | _ => CkErr
            end = CkSome r -> r = latest_ckpt mt None l).
  { intros ls -> H. destruct (scan_back me mb (comp_projection l)) as [| |fs_rev cpl] eqn:Es; try discriminate.
    destruct cpl; [|discriminate]. inversion H. apply (ckpt_projection_scan me mb mt l fs_rev Hv Hp Es). }
  unfold CompFaithful in Hcf. destruct (comp_seen comp) as [ls|].
  - cbv iota beta. apply Hfile. exact Hcf.
  - destruct full as [fl|]; [|discriminate].
    unfold header_project. destruct (all_good fl) as [fs|] eqn:Eg; cbn [option_map]; [|discriminate].
    rewrite (Hcf fs eq_refl).
    destruct (comp_projection l) as [|x rr] eqn:Ec; [discriminate|]. cbv iota beta.
    apply Hfile. reflexivity.
Qed.

Lemma latest_none_of_empty_projection mt l : comp_projection l = [] -> latest_ckpt mt None l = None.
Proof.
  intros H. rewrite <- latest_ckpt_filter. unfold comp_projection in H.
  destruct (filter is_checkpoint l); [reflexivity | discriminate].
Qed.

(* "no file" is answered only when there is no checkpoint to find, or nothing to build it from *)
Lemma ckpt_cache_none mt me mb comp full l :
  CompFaithful l comp full -> latest_ckpt_cache me mb comp full mt = CkNone ->
  full = None \/ latest_ckpt mt None l = None.
Proof.
  intros Hcf. unfold latest_ckpt_cache.
  unfold CompFaithful in Hcf. destruct (comp_seen comp) as [ls|].
  - cbv iota beta. destruct (scan_back me mb ls) as [| |fs_rev cpl]; try discriminate. destruct cpl; discriminate.
  - destruct full as [fl|]; [|left; reflexivity].
    unfold header_project. destruct (all_good fl) as [fs|] eqn:Eg; cbn [option_map]; [|discriminate].
    rewrite (Hcf fs eq_refl).
    destruct (comp_projection l) as [|x rr] eqn:Ec.
    + intros _. right. apply latest_none_of_empty_projection. exact Ec.
    + cbv iota beta. destruct (scan_back me mb (x :: rr)) as [| |fs_rev cpl]; try discriminate. destruct cpl; discriminate.
Qed.

Lemma ckpt_lookup_faithful me mb comp full l rp mt :
  valid_log l = true -> log_lens_pos l = true -> FullFaithful l full -> CompFaithful l comp full ->
  fst (ckpt_lookup me mb comp full l rp mt) = latest_ckpt mt None l.
Proof.
  intros Hv Hp Hff Hcf. unfold ckpt_lookup. rewrite (replay_faithful l full Hv Hff).
  destruct (latest_ckpt_cache me mb comp full mt) as [| |r] eqn:Ec.
  - (* CkNone *)
    destruct rp; [reflexivity|].
    destruct (full_has_last full) eqn:Eh; [|reflexivity]. cbn [fst].
    destruct (ckpt_cache_none mt me mb comp full l Hcf Ec) as [Hn|Hn]; [subst full; discriminate | symmetry; exact Hn].
  - reflexivity.
  - pose proof (ckpt_cache_some me mb mt comp full l r Hv Hp Hcf Ec) as Hr.
    destruct r as [f|]; [cbn [fst]; exact Hr|].
    destruct rp; [reflexivity|].
    destruct (full_has_last full); [cbn [fst]; exact Hr | reflexivity].
Qed.

Lemma cut_point_at_mk l ordinal m :
  nth_error (messages l) (N.to_nat (ordinal - 1)) = Some m ->
  cut_point_at l ordinal = Some (mk_cut_point ordinal m (latest_ckpt (fseq m) None l)).
Proof. intros H. unfold cut_point_at. rewrite H. reflexivity. Qed.

Theorem cut_points_fast_eq_truth me mb comp full l stride limit :
  valid_log l = true -> log_lens_pos l = true -> FullFaithful l full -> CompFaithful l comp full ->
  cut_points_fast me mb comp full l stride limit = cut_points_truth l stride limit.
Proof.
  intros Hv Hp Hff Hcf. unfold cut_points_fast, cut_points_truth. f_equal.
  destruct ((nlen (messages l) / stride * stride) =? 0); [reflexivity|].
  generalize (N.to_nat (clamp_limit limit)) as n. generalize 0 as i. generalize false as rp.
  intros rp i n. revert rp i. induction n as [|n IH]; intros rp i; [reflexivity|].
  cbn [cut_points_fast_from cut_points_from].
  destruct (nlen (messages l) / stride * stride - i * stride =? 0); [reflexivity|].
  destruct (nth_error (messages l) (N.to_nat (nlen (messages l) / stride * stride - i * stride - 1))) as [m|] eqn:En.
  - rewrite (cut_point_at_mk l _ m En).
    pose proof (ckpt_lookup_faithful me mb comp full l rp (fseq m) Hv Hp Hff Hcf) as Hb.
    destruct (ckpt_lookup me mb comp full l rp (fseq m)) as [best rp']. cbn [fst] in Hb. subst best.
    f_equal. apply IH.
  - unfold cut_point_at. rewrite En. apply IH.
Qed.

(* K2 changes cut points too (S4: the probe of DESIGN §0) *)
Lemma K2_changes_cut_points :
  snd (cut_points_fast 100 1000 (Some [LGood (wck 4 1)]) (Some (project_full wlog3)) wlog3 1 2)
    = [ {| cp_ordinal := 2; cp_to_seq := 2; cp_already := false; cp_latest := None |};
        {| cp_ordinal := 1; cp_to_seq := 1; cp_already := true; cp_latest := Some 4 |} ]
  /\ snd (cut_points_truth wlog3 1 2)
    = [ {| cp_ordinal := 2; cp_to_seq := 2; cp_already := true; cp_latest := Some 3 |};
        {| cp_ordinal := 1; cp_to_seq := 1; cp_already := true; cp_latest := Some 4 |} ].
Proof. split; vm_compute; reflexivity. Qed.

(* ------------------------------------------------------------------ cut points: ordinal index + checkpoint sidecar *)
(* ¬K3: the complete records of the index are a prefix of the projection, all of it when aligned *)
Definition OrdFaithful (l : log) (ord : ofile) : Prop :=
  match ord with
  | OFile recs torn => exists rest, msg_seqs l = recs ++ rest /\ (torn = 0 -> rest = [])
  | _ => True
  end.

Lemma valid_nth_seq : forall l b p f, contiguous_from b l = true -> nth_error l p = Some f -> fseq f = b + N.of_nat p.
Proof.
  induction l as [|x r IH]; intros b p f H Hn; [destruct p; discriminate|].
  cbn [contiguous_from] in H. apply andb_true_iff in H. destruct H as [Hx Hr]. apply N.eqb_eq in Hx.
  destruct p as [|p]; cbn [nth_error] in Hn.
  - inversion Hn; subst. lia.
  - rewrite (IH _ _ _ Hr Hn). lia.
Qed.

Lemma frame_at_message l sq j m m' :
  valid_log l = true -> frame_at l sq = Some m' ->
  nth_error (messages l) j = Some m -> fseq m = sq -> m' = m.
Proof.
  intros Hv Hf Hm Hs. unfold frame_at in Hf.
  pose proof (valid_nth_seq l 0 _ _ Hv Hf) as Hseq. rewrite N2Nat.id in Hseq.
  apply (valid_seq_inj l Hv).
  - exact (nth_error_In _ _ Hf).
  - apply nth_error_In in Hm. unfold messages in Hm. apply filter_In in Hm. tauto.
  - lia.
Qed.

Lemma nth_error_prefix {B} (a rest : list B) j x : nth_error a j = Some x -> nth_error (a ++ rest) j = Some x.
Proof. intros H. rewrite nth_error_app1; [exact H | apply nth_error_Some; congruence]. Qed.

(* the message the ordinal index names is the message the truth path takes *)
Lemma by_ordinal_faithful l ord known k m' :
  valid_log l = true -> OrdFaithful l ord -> 0 < k ->
  match ord_by_ordinal ord known k with OSome sq => frame_at l sq | _ => None end = Some m' ->
  nth_error (messages l) (N.to_nat (k - 1)) = Some m'.
Proof.
  intros Hv Hof Hk H. destruct ord as [| | |recs torn]; cbn [ord_by_ordinal] in H; try discriminate.
  destruct (k =? 0) eqn:E0; [discriminate|].
  destruct (nth_error recs (N.to_nat (k - 1))) as [sq|] eqn:En; [|discriminate].
  destruct (known sq); [|discriminate].
  cbn [OrdFaithful] in Hof. destruct Hof as [rest [Hpre _]].
  pose proof (nth_error_prefix recs rest _ _ En) as Hn. rewrite <- Hpre in Hn. unfold msg_seqs in Hn.
  rewrite nth_error_map in Hn. destruct (nth_error (messages l) (N.to_nat (k - 1))) as [m|] eqn:Em; [|discriminate].
  cbn in Hn. inversion Hn as [Hs]. f_equal. symmetry. exact (frame_at_message l sq _ m m' Hv H Em Hs).
Qed.

Lemma ord_count_faithful l ord n :
  OrdFaithful l ord -> ord_count ord (mr_last_of l) = OSome n -> n = nlen (messages l).
Proof.
  intros Hof H. destruct (ord_count_accepts _ _ _ H) as [recs [last [Hf [_ [Hn _]]]]]. subst ord n.
  cbn [OrdFaithful] in Hof. destruct Hof as [rest [Hpre Hr]]. rewrite (Hr eq_refl), app_nil_r in Hpre.
  unfold nlen. rewrite <- Hpre. unfold msg_seqs. rewrite map_length. reflexivity.
Qed.

Lemma cut_points_ord_loop me mb comp full l ord known stride latest :
  valid_log l = true -> log_lens_pos l = true -> FullFaithful l full -> CompFaithful l comp full -> OrdFaithful l ord ->
  forall n rp ld i,
  cut_points_ord_from me mb comp full l ord known stride latest i rp ld n = cut_points_from l stride latest i n.
Proof.
  intros Hv Hp Hff Hcf Hof. pose proof (replay_faithful l full Hv Hff) as Hrp.
  induction n as [|n IH]; intros rp ld i; [reflexivity|].
  cbn [cut_points_ord_from cut_points_from].
  set (ordinal := latest - i * stride).
  destruct (ordinal =? 0) eqn:E0; [reflexivity|]. apply N.eqb_neq in E0.
  rewrite Hrp.
  destruct ld.
  { (* the message list of the replay is in hand: the index is not consulted *)
    destruct (nth_error (messages l) (N.to_nat (ordinal - 1))) as [m|] eqn:En.
    + rewrite (cut_point_at_mk l _ m En).
      pose proof (ckpt_lookup_faithful me mb comp full l true (fseq m) Hv Hp Hff Hcf) as Hbest.
      destruct (ckpt_lookup me mb comp full l true (fseq m)) as [best rp']. cbn [fst] in Hbest. subst best.
      f_equal. apply IH.
    + unfold cut_point_at. rewrite En. apply IH. }
  destruct (match ord_by_ordinal ord known ordinal with OSome sq => frame_at l sq | _ => None end) as [m'|] eqn:Eb.
  - assert (Hk : 0 < ordinal) by lia.
    pose proof (by_ordinal_faithful l ord known ordinal m' Hv Hof Hk Eb) as Hm.
    rewrite (cut_point_at_mk l _ m' Hm).
    pose proof (ckpt_lookup_faithful me mb comp full l rp (fseq m') Hv Hp Hff Hcf) as Hbest.
    destruct (ckpt_lookup me mb comp full l rp (fseq m')) as [best rp']. cbn [fst] in Hbest. subst best.
    f_equal. apply IH.
  - destruct (nth_error (messages l) (N.to_nat (ordinal - 1))) as [m|] eqn:En.
    + rewrite (cut_point_at_mk l _ m En).
      pose proof (ckpt_lookup_faithful me mb comp full l true (fseq m) Hv Hp Hff Hcf) as Hbest.
      destruct (ckpt_lookup me mb comp full l true (fseq m)) as [best rp']. cbn [fst] in Hbest. subst best.
      f_equal. apply IH.
    + unfold cut_point_at. rewrite En. apply IH.
Qed.

Theorem cut_points_ord_eq_truth me mb comp full l ord known stride limit :
  valid_log l = true -> log_lens_pos l = true -> FullFaithful l full -> CompFaithful l comp full -> OrdFaithful l ord ->
  cut_points_ord me mb comp full l ord known stride limit = cut_points_truth l stride limit.
Proof.
  intros Hv Hp Hff Hcf Hof. unfold cut_points_ord, cut_points_truth.
  pose proof (replay_faithful l full Hv Hff) as Hrp.
  destruct (ord_count ord (mr_last_of l)) as [| |n0] eqn:Ec.
  - rewrite Hrp. f_equal. destruct (nlen (messages l) / stride * stride =? 0); [reflexivity|].
    apply cut_points_ord_loop; assumption.
  - rewrite Hrp. f_equal. destruct (nlen (messages l) / stride * stride =? 0); [reflexivity|].
    apply cut_points_ord_loop; assumption.
  - rewrite (ord_count_faithful l ord n0 Hof Ec). f_equal.
    destruct (nlen (messages l) / stride * stride =? 0); [reflexivity|].
    apply cut_points_ord_loop; assumption.
Qed.

(* C04-F3 (fixed in /repo): an index whose count has been rejected (last record is not the last message) was still asked
   for every ordinal: messages 1,3,5,7, index [1;5] (record of message 3 lost, record of message 7 missing): the count
   falls back to the replay (4), ordinal 2 resolved to message 5 through the index; the repaired route takes message 3 *)
Definition wlog7 : log :=
  [wf0; {| fseq := 1; flen := 8; fb := BMessage |}; {| fseq := 2; flen := 8; fb := BOther |};
   {| fseq := 3; flen := 8; fb := BMessage |}; {| fseq := 4; flen := 8; fb := BOther |}; {| fseq := 5; flen := 8; fb := BMessage |};
   {| fseq := 6; flen := 8; fb := BOther |}; {| fseq := 7; flen := 8; fb := BMessage |}].
Lemma rejected_index_unfixed :
  valid_log wlog7 = true
  /\ ord_count (OFile [1; 5] 0) (mr_last_of wlog7) = OErr
  /\ map cp_to_seq (snd (cut_points_ord_unfixed 100 1000 None (Some (project_full wlog7)) wlog7 (OFile [1; 5] 0) (fun _ => true) 2 4)) = [7; 5]
  /\ map cp_to_seq (snd (cut_points_ord 100 1000 None (Some (project_full wlog7)) wlog7 (OFile [1; 5] 0) (fun _ => true) 2 4)) = [7; 3]
  /\ map cp_to_seq (snd (cut_points_truth wlog7 2 4)) = [7; 3].
Proof. repeat split; vm_compute; reflexivity. Qed.

(* once the count of the index has been rejected nothing of the index is used: the cut points are the truth answer for ANY
   content of the ordinal index that fails the count check (no OrdFaithful hypothesis) *)
Lemma cut_points_ord_loop_loaded me mb comp full l ord known stride latest :
  valid_log l = true -> log_lens_pos l = true -> FullFaithful l full -> CompFaithful l comp full ->
  forall n rp i,
  cut_points_ord_from me mb comp full l ord known stride latest i rp true n = cut_points_from l stride latest i n.
Proof.
  intros Hv Hp Hff Hcf. pose proof (replay_faithful l full Hv Hff) as Hrp.
  induction n as [|n IH]; intros rp i; [reflexivity|].
  cbn [cut_points_ord_from cut_points_from].
  set (ordinal := latest - i * stride).
  destruct (ordinal =? 0) eqn:E0; [reflexivity|].
  rewrite Hrp.
  destruct (nth_error (messages l) (N.to_nat (ordinal - 1))) as [m|] eqn:En.
  + rewrite (cut_point_at_mk l _ m En).
    pose proof (ckpt_lookup_faithful me mb comp full l true (fseq m) Hv Hp Hff Hcf) as Hbest.
    destruct (ckpt_lookup me mb comp full l true (fseq m)) as [best rp']. cbn [fst] in Hbest. subst best.
    f_equal. apply IH.
  + unfold cut_point_at. rewrite En. apply IH.
Qed.

Theorem cut_points_rejected_index_eq_truth me mb comp full l ord known stride limit :
  valid_log l = true -> log_lens_pos l = true -> FullFaithful l full -> CompFaithful l comp full ->
  (forall n, ord_count ord (mr_last_of l) <> OSome n) ->
  cut_points_ord me mb comp full l ord known stride limit = cut_points_truth l stride limit.
Proof.
  intros Hv Hp Hff Hcf Hrej. unfold cut_points_ord, cut_points_truth.
  pose proof (replay_faithful l full Hv Hff) as Hrp.
  destruct (ord_count ord (mr_last_of l)) as [| |n0] eqn:Ec; [| |exfalso; exact (Hrej n0 eq_refl)];
    rewrite Hrp; f_equal; (destruct (nlen (messages l) / stride * stride =? 0); [reflexivity|]);
    apply cut_points_ord_loop_loaded; assumption.
Qed.

(* K3 changes cut points: index [1;5] of a thread with messages 1,3,5 (last record right, middle one lost) *)
Definition wlog5 : log :=
  [wf0; {| fseq := 1; flen := 8; fb := BMessage |}; {| fseq := 2; flen := 8; fb := BOther |};
   {| fseq := 3; flen := 8; fb := BMessage |}; {| fseq := 4; flen := 8; fb := BOther |}; {| fseq := 5; flen := 8; fb := BMessage |}].
Lemma K3_changes_cut_points :
  valid_log wlog5 = true /\ ~ OrdFaithful wlog5 (OFile [1; 5] 0)
  /\ fst (cut_points_ord 100 1000 None (Some (project_full wlog5)) wlog5 (OFile [1; 5] 0) (fun _ => true) 1 4) = 2
  /\ map cp_to_seq (snd (cut_points_ord 100 1000 None (Some (project_full wlog5)) wlog5 (OFile [1; 5] 0) (fun _ => true) 1 4)) = [5; 1]
  /\ fst (cut_points_truth wlog5 1 4) = 3
  /\ map cp_to_seq (snd (cut_points_truth wlog5 1 4)) = [5; 3; 1].
Proof.
  split; [reflexivity|]. split.
  - cbn [OrdFaithful]. intros [rest [H Hr]]. rewrite (Hr eq_refl), app_nil_r in H. vm_compute in H. discriminate.
  - repeat split; vm_compute; reflexivity.
Qed.
