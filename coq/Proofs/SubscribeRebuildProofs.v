(* C06 - the thread sidecar being rebuilt while writers append and readers attach (Model/Subscribe.v, tfinal):
   exactly-once for the discipline "temporary file + rename, under the writers' mutex", refutations for the others. *)
From RipV Require Import Base.Prelude Model.Subscribe Proofs.SubscribeProofs.
Local Open Scope nat_scope.

Definition okd : rdisc := {| rd_atomic := true; rd_locked := true |}.
Lemma rdisc_ok_eq d : rdisc_ok d = true -> d = okd.
Proof. destruct d as [[|] [|]]; cbn; intros H; try discriminate H; reflexivity. Qed.

(* ---------- witnesses ---------- *)
Definition W4 : list tactor := [TW; TW; TW; TW].
(* neither (the code before the repair): frames 0,1 written; reader 0 subscribes, its read is refused, it reads the log
   [0;1] and truncates the sidecar; frame 2 is appended (log, sidecar = [2], broadcast); the rebuild writes its two lines
   over it: sidecar = [0;1]; reader 1 attaches and is served [0;1]; frame 3 arrives live: reader 1 has [0;1;3] *)
Definition in_place_unlocked : rdisc := {| rd_atomic := false; rd_locked := false |}.
Definition lost_append_sched : list tactor :=
  W4 ++ W4 ++ [TR 0; TRefuse 0; TR 0; TR 0; TR 0] ++ W4 ++ [TR 0; TR 0; TR 0; TR 0] ++ [TR 1; TR 1] ++ W4.
Lemma lost_append_witness :
  t_wk (tfinal in_place_unlocked 4 2 lost_append_sched) = 4 /\ t_log (tfinal in_place_unlocked 4 2 lost_append_sched) = [0; 1; 2; 3]
  /\ t_side (tfinal in_place_unlocked 4 2 lost_append_sched) = [0; 1; 3]
  /\ map tattached (t_subs (tfinal in_place_unlocked 4 2 lost_append_sched)) = [true; true]
  /\ map tdelivered (t_subs (tfinal in_place_unlocked 4 2 lost_append_sched)) = [[0; 1; 2; 3]; [0; 1; 3]].
Proof. vm_compute. repeat split. Qed.
(* the same schedule under the repaired discipline *)
Lemma lost_append_repaired :
  t_wk (tfinal okd 4 2 lost_append_sched) = 4 /\ t_side (tfinal okd 4 2 lost_append_sched) = [0; 1; 2; 3]
  /\ map tdelivered (t_subs (tfinal okd 4 2 lost_append_sched)) = [[0; 1; 2; 3]; [0; 1; 2; 3]].
Proof. vm_compute. repeat split. Qed.

(* ---------- the repaired discipline: invariant ---------- *)
Lemma nth_error_upd_nth {A} (f : A -> A) : forall (l : list A) i j,
  nth_error (upd_nth i f l) j = if Nat.eqb j i then option_map f (nth_error l j) else nth_error l j.
Proof.
  induction l as [|x l IH]; intros i j.
  - destruct i, j; cbn; try reflexivity; destruct (Nat.eqb j i); reflexivity.
  - destruct i as [|i], j as [|j]; cbn [upd_nth nth_error Nat.eqb option_map]; try reflexivity. apply IH.
Qed.

Lemma sidecar_ok_seq_from j len : 0 < len -> sidecar_ok SeqExact 0 (seq j len) = true -> j = 0.
Proof.
  destruct len as [|len]; [lia|]. cbn [seq sidecar_ok]. intros _ H. apply andb_true_iff in H.
  destruct H as [H _]. apply Nat.eqb_eq in H. exact H.
Qed.
Lemma side_served_seq j len : side_served (seq j len) = true -> j = 0 /\ 0 < len.
Proof.
  destruct len as [|len]; [discriminate|]. intros H. split; [|lia].
  apply (sidecar_ok_seq_from j (S len)); [lia|]. exact H.
Qed.

Definition holds (pc : nat) : Prop := pc = 3 \/ pc = 4 \/ pc = 5 \/ pc = 8.
Definition RInv (wk : nat) (log : list nat) (lock : holder) (i : nat) (x : tsub) : Prop :=
  (lock = HReader i <-> holds (t_pc x)) /\
  (t_pc x = 5 \/ t_pc x = 8 -> t_snap x = log) /\
  ((t_pc x = 0 /\ t_live x = None) \/
   ((t_pc x = 1 \/ t_pc x = 2 \/ holds (t_pc x) \/ t_pc x = 9) /\
    exists a, a <= wk /\ t_live x = Some (seq a (wk - a)) /\
      (t_pc x = 9 -> exists q, t_hist x = seq 0 q /\ a <= q /\ q <= length log))).
Definition b2 (wpc : nat) : nat := if Nat.leb 2 wpc then 1 else 0.
Definition b3 (wpc : nat) : nat := if Nat.leb 3 wpc then 1 else 0.
Definition GInv (s : tst) : Prop :=
  t_wpc s <= 3 /\ t_wk s <= t_n s /\ (t_wpc s <> 0 -> t_wk s < t_n s /\ t_lock s = HWriter) /\
  t_log s = seq 0 (t_wk s + b2 (t_wpc s)) /\
  (exists j, j <= t_wk s + b3 (t_wpc s) /\ t_side s = seq j (t_wk s + b3 (t_wpc s) - j)) /\
  forall i x, nth_error (t_subs s) i = Some x -> RInv (t_wk s) (t_log s) (t_lock s) i x.

Lemma RInv_lock wk log l l' i x : RInv wk log l i x -> l <> HReader i -> l' <> HReader i -> RInv wk log l' i x.
Proof.
  intros (H1 & H2 & H3) Hl Hl'. split; [|split; [exact H2 | exact H3]].
  split; [intros E; contradiction | intros Hh; exfalso; apply Hl, H1, Hh].
Qed.
Lemma RInv_log wk log e l i x : RInv wk log l i x -> l <> HReader i -> RInv wk (log ++ e) l i x.
Proof.
  intros (H1 & H2 & H3) Hl. split; [exact H1|]. split.
  - intros Hp. exfalso. apply Hl, H1. unfold holds. destruct Hp as [-> | ->]; auto.
  - destruct H3 as [H3 | (Hp & a & Ha & Hv & Hq)]; [left; exact H3|]. right. split; [exact Hp|].
    exists a. split; [exact Ha|]. split; [exact Hv|]. intros H9. destruct (Hq H9) as (q & Eq & Haq & Hql).
    exists q. split; [exact Eq|]. split; [exact Haq|]. rewrite app_length. lia.
Qed.
Lemma RInv_pub wk log l i x : RInv wk log l i x -> RInv (S wk) log l i (tdeliver wk x).
Proof.
  intros (H1 & H2 & H3). unfold tdeliver. destruct H3 as [[Hp Hv] | (Hp & a & Ha & Hv & Hq)].
  - rewrite Hv. split; [exact H1|]. split; [exact H2|]. left. split; assumption.
  - rewrite Hv. cbn [t_pc t_snap t_live t_hist]. split; [exact H1|]. split; [exact H2|]. right. split; [exact Hp|].
    exists a. split; [lia|]. split; [|exact Hq].
    f_equal. replace (S wk - a) with (S (wk - a)) by lia. rewrite <- seq_snoc.
    replace (a + (wk - a)) with wk by lia. reflexivity.
Qed.

Lemma GInv_init n m : GInv (tinit n m).
Proof.
  unfold GInv, tinit. cbn [t_wpc t_wk t_n t_lock t_log t_side t_subs b2 b3 Nat.leb].
  split; [lia|]. split; [lia|]. split; [intros H; contradiction|]. split; [reflexivity|].
  split; [exists 0; split; [lia | reflexivity]|].
  intros i x Hx. apply nth_error_In, repeat_spec in Hx. subst x.
  split; [split; [discriminate | intros [H|[H|[H|H]]]; discriminate H]|].
  split; [intros [H|H]; discriminate H | left; split; reflexivity].
Qed.

Lemma GInv_writer s : GInv s -> GInv (twriter s).
Proof.
  intros G. pose proof G as (Hw & Hk & Hl & Hlog & (j & Hj & Hside) & Hr). unfold twriter.
  destruct (t_wpc s) as [|[|[|w]]] eqn:Ew.
  - destruct (Nat.ltb_spec (t_wk s) (t_n s)) as [Hlt|Hge]; [|exact G].
    destruct (t_lock s) eqn:El; [|exact G|exact G].
    unfold GInv. cbn [t_wpc t_wk t_n t_lock t_log t_side t_subs].
    split; [lia|]. split; [lia|]. split; [intros _; split; [lia | reflexivity]|].
    split; [exact Hlog|]. split; [exists j; split; [exact Hj | exact Hside]|].
    intros i x Hx. apply (RInv_lock _ _ HFree); [apply Hr; exact Hx | discriminate | discriminate].
  - assert (El : t_lock s = HWriter) by (apply Hl; discriminate).
    unfold GInv. cbn [t_wpc t_wk t_n t_lock t_log t_side t_subs].
    split; [lia|]. split; [lia|]. split; [intros _; split; [apply Hl; discriminate | exact El]|].
    split; [rewrite Hlog; cbn [b2 Nat.leb]; rewrite Nat.add_0_r; replace (t_wk s + 1) with (S (t_wk s)) by lia; rewrite seq_S; reflexivity|].
    split; [exists j; split; [exact Hj | exact Hside]|].
    intros i x Hx. apply RInv_log; [apply Hr; exact Hx | rewrite El; discriminate].
  - assert (El : t_lock s = HWriter) by (apply Hl; discriminate).
    unfold GInv. cbn [t_wpc t_wk t_n t_lock t_log t_side t_subs].
    split; [lia|]. split; [lia|]. split; [intros _; split; [apply Hl; discriminate | exact El]|].
    split; [exact Hlog|]. cbn [b3 Nat.leb] in *. rewrite Nat.add_0_r in Hj, Hside.
    split; [|intros i x Hx; apply Hr; exact Hx].
    exists j. split; [lia|]. rewrite Hside. replace (t_wk s + 1 - j) with (S (t_wk s - j)) by lia.
    rewrite <- seq_snoc. replace (j + (t_wk s - j)) with (t_wk s) by lia. reflexivity.
  - assert (w = 0) by lia. subst w.
    assert (El : t_lock s = HWriter) by (apply Hl; discriminate).
    assert (Hlt : t_wk s < t_n s) by (apply Hl; discriminate).
    unfold GInv. cbn [t_wpc t_wk t_n t_lock t_log t_side t_subs b2 b3 Nat.leb] in *.
    split; [lia|]. split; [lia|]. split; [intros H; contradiction|].
    split; [rewrite Hlog; f_equal; lia|].
    split; [exists j; split; [lia | rewrite Hside; f_equal; lia]|].
    intros i x' Hx. rewrite nth_error_map in Hx. destruct (nth_error (t_subs s) i) as [x|] eqn:Ex; [|discriminate Hx].
    cbn [option_map] in Hx. injection Hx as <-.
    apply (RInv_lock _ _ HWriter); [|discriminate | discriminate].
    apply RInv_pub. rewrite <- El. apply Hr. exact Ex.
Qed.

Ltac dis_or H := repeat (destruct H as [H|H]); try discriminate H.
Lemma b3_le_b2 w : b3 w <= b2 w.
Proof. unfold b2, b3. destruct w as [|[|[|w]]]; cbn; lia. Qed.

Definition SideInv (wk wpc : nat) (side : list nat) : Prop :=
  exists j, j <= wk + b3 wpc /\ side = seq j (wk + b3 wpc - j).
Definition LockStep (i : nat) (lock lock' : holder) : Prop :=
  lock' = lock \/ (lock = HFree /\ lock' = HReader i) \/ (lock = HReader i /\ lock' = HFree).

Lemma served_hist wk wpc side log a : SideInv wk wpc side -> log = seq 0 (wk + b2 wpc) -> a <= wk ->
  side_served side = true -> exists q, side = seq 0 q /\ a <= q /\ q <= length log.
Proof.
  intros (j & Hj & Hs) Hlog Ha Hv. rewrite Hs in Hv. apply side_served_seq in Hv. destruct Hv as [-> Hpos].
  exists (wk + b3 wpc). split; [rewrite Hs; f_equal; lia|]. split; [lia|].
  rewrite Hlog, seq_length. pose proof (b3_le_b2 wpc). lia.
Qed.

Lemma treader_ok i wk wpc log side lock x x' side' lock' :
  RInv wk log lock i x -> (wpc <> 0 -> lock = HWriter) -> log = seq 0 (wk + b2 wpc) -> SideInv wk wpc side ->
  treader okd i log side lock x = (x', side', lock') ->
  RInv wk log lock' i x' /\ (wpc <> 0 -> lock' = HWriter) /\ SideInv wk wpc side' /\ LockStep i lock lock'.
Proof.
  intros R Hlk Hlog Hside E. pose proof R as (H1 & H2 & H3). unfold treader in E.
  assert (Same : (x', side', lock') = (x, side, lock) ->
    RInv wk log lock' i x' /\ (wpc <> 0 -> lock' = HWriter) /\ SideInv wk wpc side' /\ LockStep i lock lock').
  { intros Q. injection Q as -> -> ->. repeat split; try assumption; try (apply R). left. reflexivity. }
  destruct (t_pc x) as [|[|[|[|[|[|[|[|[|p]]]]]]]]] eqn:Ep.
  - (* subscribe *)
    injection E as <- <- <-. split; [|split; [exact Hlk | split; [exact Hside | left; reflexivity]]].
    assert (NL : lock <> HReader i) by (intros Q; apply H1 in Q; unfold holds in Q; dis_or Q).
    split; [split; [intros Q; contradiction | cbn [t_pc]; intros Q; unfold holds in Q; dis_or Q]|].
    split; [cbn [t_pc]; intros Q; dis_or Q|]. right. cbn [t_pc t_live t_hist]. split; [left; reflexivity|].
    exists wk. split; [lia|]. split; [rewrite Nat.sub_diag; reflexivity | intros Q; discriminate Q].
  - (* unlocked try_replay *)
    assert (NL : lock <> HReader i) by (intros Q; apply H1 in Q; unfold holds in Q; dis_or Q).
    destruct H3 as [[Q _] | (_ & a & Ha & Hv & _)]; [discriminate Q|].
    destruct (negb (t_refuse x) && side_served side) eqn:Ev.
    + apply andb_true_iff in Ev. destruct Ev as [_ Ev].
      injection E as <- <- <-. split; [|split; [exact Hlk | split; [exact Hside | left; reflexivity]]].
      unfold tsub_hist. split; [split; [intros Q; contradiction | cbn [t_pc]; intros Q; unfold holds in Q; dis_or Q]|].
      split; [cbn [t_pc]; intros Q; dis_or Q|]. right. cbn [t_pc t_live t_hist]. split; [right; right; right; reflexivity|].
      exists a. split; [exact Ha|]. split; [exact Hv|]. intros _. exact (served_hist wk wpc side log a Hside Hlog Ha Ev).
    + injection E as <- <- <-. split; [|split; [exact Hlk | split; [exact Hside | left; reflexivity]]].
      cbn [okd rd_locked]. split; [split; [intros Q; contradiction | cbn [t_pc]; intros Q; unfold holds in Q; dis_or Q]|].
      split; [cbn [t_pc]; intros Q; dis_or Q|]. right. cbn [t_pc t_live t_hist]. split; [right; left; reflexivity|].
      exists a. split; [exact Ha|]. split; [exact Hv | intros Q; discriminate Q].
  - (* waiting for the mutex *)
    destruct H3 as [[Q _] | (_ & a & Ha & Hv & _)]; [discriminate Q|].
    destruct lock eqn:El; [|apply Same; symmetry; exact E | apply Same; symmetry; exact E].
    injection E as <- <- <-. split; [|split; [intros Q; specialize (Hlk Q); discriminate Hlk | split; [exact Hside | right; left; split; reflexivity]]].
    unfold tsub_at. split; [split; [intros _; cbn [t_pc]; left; reflexivity | reflexivity]|].
    split; [cbn [t_pc]; intros Q; dis_or Q|]. right. cbn [t_pc t_live t_hist]. split; [right; right; left; left; reflexivity|].
    exists a. split; [exact Ha|]. split; [exact Hv | intros Q; discriminate Q].
  - (* try_replay under the mutex *)
    assert (HL : lock = HReader i) by (apply H1; left; reflexivity).
    assert (W0 : wpc = 0) by (destruct (Nat.eq_dec wpc 0) as [Q|Q]; [exact Q | specialize (Hlk Q); rewrite HL in Hlk; discriminate Hlk]).
    destruct H3 as [[Q _] | (_ & a & Ha & Hv & _)]; [discriminate Q|].
    destruct (side_served side) eqn:Ev.
    + injection E as <- <- <-. split; [|split; [intros Q; contradiction | split; [exact Hside | right; right; split; [exact HL | reflexivity]]]].
      unfold tsub_hist. split; [split; [intros Q; discriminate Q | cbn [t_pc]; intros Q; unfold holds in Q; dis_or Q]|].
      split; [cbn [t_pc]; intros Q; dis_or Q|]. right. cbn [t_pc t_live t_hist]. split; [right; right; right; reflexivity|].
      exists a. split; [exact Ha|]. split; [exact Hv|]. intros _. exact (served_hist wk wpc side log a Hside Hlog Ha Ev).
    + injection E as <- <- <-. split; [|split; [exact Hlk | split; [exact Hside | left; reflexivity]]].
      unfold tsub_at. split; [split; [intros _; cbn [t_pc]; right; left; reflexivity | intros _; exact HL]|].
      split; [cbn [t_pc]; intros Q; dis_or Q|]. right. cbn [t_pc t_live t_hist]. split; [right; right; left; right; left; reflexivity|].
      exists a. split; [exact Ha|]. split; [exact Hv | intros Q; discriminate Q].
  - (* log read *)
    assert (HL : lock = HReader i) by (apply H1; right; left; reflexivity).
    destruct H3 as [[Q _] | (_ & a & Ha & Hv & _)]; [discriminate Q|].
    injection E as <- <- <-. split; [|split; [exact Hlk | split; [exact Hside | left; reflexivity]]].
    split; [split; [intros _; cbn [t_pc]; right; right; left; reflexivity | intros _; exact HL]|].
    split; [cbn [t_snap]; intros _; reflexivity|]. right. cbn [t_pc t_live t_hist]. split; [right; right; left; right; right; left; reflexivity|].
    exists a. split; [exact Ha|]. split; [exact Hv | intros Q; discriminate Q].
  - (* the rename *)
    assert (HL : lock = HReader i) by (apply H1; right; right; left; reflexivity).
    assert (W0 : wpc = 0) by (destruct (Nat.eq_dec wpc 0) as [Q|Q]; [exact Q | specialize (Hlk Q); rewrite HL in Hlk; discriminate Hlk]).
    assert (Hsn : t_snap x = log) by (apply H2; left; reflexivity).
    destruct H3 as [[Q _] | (_ & a & Ha & Hv & _)]; [discriminate Q|].
    cbn [okd rd_atomic] in E. injection E as <- <- <-.
    split; [|split; [exact Hlk | split; [|left; reflexivity]]].
    + unfold tsub_at. split; [split; [intros _; cbn [t_pc]; right; right; right; reflexivity | intros _; exact HL]|].
      split; [cbn [t_snap]; intros _; exact Hsn|]. right. cbn [t_pc t_live t_hist]. split; [right; right; left; right; right; right; reflexivity|].
      exists a. split; [exact Ha|]. split; [exact Hv | intros Q; discriminate Q].
    + exists 0. split; [lia|]. rewrite Hsn, Hlog, W0. cbn [b2 b3 Nat.leb]. f_equal. lia.
  - destruct H3 as [[Q _] | (Q & _)]; [discriminate Q | unfold holds in Q; dis_or Q].
  - destruct H3 as [[Q _] | (Q & _)]; [discriminate Q | unfold holds in Q; dis_or Q].
  - (* return *)
    assert (HL : lock = HReader i) by (apply H1; right; right; right; reflexivity).
    assert (W0 : wpc = 0) by (destruct (Nat.eq_dec wpc 0) as [Q|Q]; [exact Q | specialize (Hlk Q); rewrite HL in Hlk; discriminate Hlk]).
    assert (Hsn : t_snap x = log) by (apply H2; right; reflexivity).
    destruct H3 as [[Q _] | (_ & a & Ha & Hv & _)]; [discriminate Q|].
    cbn [okd rd_locked] in E. injection E as <- <- <-.
    split; [|split; [intros Q; contradiction | split; [exact Hside | right; right; split; [exact HL | reflexivity]]]].
    unfold tsub_hist. split; [split; [intros Q; discriminate Q | cbn [t_pc]; intros Q; unfold holds in Q; dis_or Q]|].
    split; [cbn [t_pc]; intros Q; dis_or Q|]. right. cbn [t_pc t_live t_hist]. split; [right; right; right; reflexivity|].
    exists a. split; [exact Ha|]. split; [exact Hv|]. intros _.
    exists wk. split; [rewrite Hsn, Hlog, W0; cbn [b2 Nat.leb]; f_equal; lia|]. split; [exact Ha|].
    rewrite Hlog, seq_length. lia.
  - apply Same. symmetry. exact E.
Qed.

Lemma GInv_step s a : GInv s -> GInv (tstep okd s a).
Proof.
  intros G. destruct a as [|i|i|]; cbn [tstep].
  - apply GInv_writer; exact G.
  - destruct (nth_error (t_subs s) i) as [x|] eqn:Ex; [|exact G].
    destruct (treader okd i (t_log s) (t_side s) (t_lock s) x) as [[x' side'] lock'] eqn:E.
    pose proof G as (Hw & Hk & Hl & Hlog & Hside & Hr).
    assert (Hlk : t_wpc s <> 0 -> t_lock s = HWriter) by (intros Q; apply Hl; exact Q).
    destruct (treader_ok i (t_wk s) (t_wpc s) (t_log s) (t_side s) (t_lock s) x x' side' lock' (Hr i x Ex) Hlk Hlog Hside E)
      as (R' & Hlk' & Hside' & LS).
    unfold GInv. cbn [t_wpc t_wk t_n t_lock t_log t_side t_subs].
    split; [exact Hw|]. split; [exact Hk|]. split; [intros Q; split; [apply Hl; exact Q | apply Hlk'; exact Q]|].
    split; [exact Hlog|]. split; [exact Hside'|].
    intros j y Hy. rewrite nth_error_upd_nth in Hy. destruct (Nat.eqb_spec j i) as [->|Hne].
    + rewrite Ex in Hy. cbn [option_map] in Hy. injection Hy as <-. exact R'.
    + destruct LS as [Q|[[Q1 Q2]|[Q1 Q2]]].
      * rewrite Q. apply Hr. exact Hy.
      * apply (RInv_lock _ _ (t_lock s)); [apply Hr; exact Hy | rewrite Q1; discriminate | rewrite Q2; intros Q; injection Q as Q; lia].
      * apply (RInv_lock _ _ (t_lock s)); [apply Hr; exact Hy | rewrite Q1; intros Q; injection Q as Q; lia | rewrite Q2; discriminate].
  - destruct G as (Hw & Hk & Hl & Hlog & Hside & Hr).
    unfold GInv. cbn [t_wpc t_wk t_n t_lock t_log t_side t_subs].
    split; [exact Hw|]. split; [exact Hk|]. split; [exact Hl|]. split; [exact Hlog|]. split; [exact Hside|].
    intros j y Hy. rewrite nth_error_upd_nth in Hy. destruct (Nat.eqb_spec j i) as [->|Hne]; [|apply Hr; exact Hy].
    destruct (nth_error (t_subs s) i) as [x|] eqn:Ex; [|discriminate Hy]. cbn [option_map] in Hy. injection Hy as <-.
    exact (Hr i x Ex).
  - destruct G as (Hw & Hk & Hl & Hlog & Hside & Hr).
    unfold GInv. cbn [t_wpc t_wk t_n t_lock t_log t_side t_subs].
    split; [exact Hw|]. split; [exact Hk|]. split; [exact Hl|]. split; [exact Hlog|]. split; [|exact Hr].
    exists (t_wk s + b3 (t_wpc s)). split; [lia|]. rewrite Nat.sub_diag. reflexivity.
Qed.

Lemma GInv_final n m sched : GInv (tfinal okd n m sched).
Proof.
  unfold tfinal. assert (H : forall s, GInv s -> GInv (fold_left (tstep okd) sched s)).
  { induction sched as [|a l IH]; intros s G; [exact G|]. cbn [fold_left]. apply IH, GInv_step, G. }
  apply H, GInv_init.
Qed.

Lemma tstep_n d s a : t_n (tstep d s a) = t_n s.
Proof.
  destruct a as [|i|i|]; cbn [tstep]; try reflexivity.
  - unfold twriter. destruct (t_wpc s) as [|[|[|w]]]; try reflexivity.
    destruct (Nat.ltb (t_wk s) (t_n s)); [|reflexivity]. destruct (t_lock s); reflexivity.
  - destruct (nth_error (t_subs s) i); [|reflexivity].
    destruct (treader d i (t_log s) (t_side s) (t_lock s) t) as [[x' side'] lock']. reflexivity.
Qed.
Lemma tfinal_n d n m sched : t_n (tfinal d n m sched) = n.
Proof.
  unfold tfinal. assert (H : forall s, t_n (fold_left (tstep d) sched s) = t_n s).
  { induction sched as [|a l IH]; intros s; [reflexivity|]. cbn [fold_left]. rewrite IH. apply tstep_n. }
  rewrite H. reflexivity.
Qed.


Theorem rebuild_exactly_once : forall (d : rdisc), rdisc_ok d = true ->
  forall (n m : nat) (sched : list tactor) (i : nat) (x : tsub),
  nth_error (t_subs (tfinal d n m sched)) i = Some x -> tattached x = true ->
  TExactlyOnce n (tfinal d n m sched) x.
Proof.
  intros d Hd n m sched i x Hx Ha. apply rdisc_ok_eq in Hd. subst d.
  pose proof (GInv_final n m sched) as (Hw & Hk & Hl & Hlog & Hside & Hr).
  pose proof (tfinal_n okd n m sched) as Hn. set (fin := tfinal okd n m sched) in *. rewrite Hn in Hk.
  destruct (Hr i x Hx) as (_ & _ & H3). unfold tattached in Ha. apply Nat.eqb_eq in Ha.
  destruct H3 as [[Q _] | (_ & a & Hak & Hv & Hq)]; [rewrite Ha in Q; discriminate Q|].
  destruct (Hq Ha) as (q & Eh & Haq & Hql).
  assert (Hqn : q <= n).
  { rewrite Hlog, seq_length in Hql. assert (t_wk fin + b2 (t_wpc fin) <= n); [|lia].
    destruct (Nat.eq_dec (t_wpc fin) 0) as [Q|Q]; [rewrite Q; cbn; lia|].
    destruct (Hl Q) as [Hlt _]. rewrite Hn in Hlt. unfold b2. destruct (Nat.leb 2 (t_wpc fin)); lia. }
  exists (Nat.max q (t_wk fin)). unfold tdelivered. rewrite Eh, Hv.
  split; [|split; [lia | split; [lia | intros E; lia]]].
  replace (seq 0 q) with (seq 0 (Nat.max q a)) at 1 by (f_equal; lia).
  apply drain_seq. exact Hak.
Qed.

(* ---------- every other discipline loses a frame ---------- *)

Lemma lost_append_loses : TLoses in_place_unlocked 4 2 lost_append_sched.
Proof.
  split; [vm_compute; reflexivity|]. exists 1. eexists. split; [vm_compute; reflexivity|].
  split; [vm_compute; reflexivity|]. vm_compute. intros Q; discriminate Q.
Qed.

(* temporary file + rename, but NOT under the writers' mutex: the rebuilder reads the log [0;1], frame 2 is appended
   (log, sidecar [0;1;2], broadcast), the rename puts the older replay [0;1] in place; reader 1 is served [0;1] *)
Definition atomic_unlocked : rdisc := {| rd_atomic := true; rd_locked := false |}.
Definition stale_rename_sched : list tactor :=
  W4 ++ W4 ++ [TR 0; TRefuse 0; TR 0; TR 0] ++ W4 ++ [TR 0; TR 0] ++ [TR 1; TR 1] ++ W4.
Lemma stale_rename_witness :
  map tdelivered (t_subs (tfinal atomic_unlocked 4 2 stale_rename_sched)) = [[0; 1; 2; 3]; [0; 1; 3]].
Proof. vm_compute. reflexivity. Qed.
Lemma stale_rename_loses : TLoses atomic_unlocked 4 2 stale_rename_sched.
Proof.
  split; [vm_compute; reflexivity|]. exists 1. eexists. split; [vm_compute; reflexivity|].
  split; [vm_compute; reflexivity|]. vm_compute. intros Q; discriminate Q.
Qed.

(* under the mutex, but IN PLACE: the cache file is lost, reader 0 rebuilds under the mutex and has written line 0 of 2
   when reader 1 reads its history without any lock: the well-formed prefix [0] is served; nothing is published later *)
Definition in_place_locked : rdisc := {| rd_atomic := false; rd_locked := true |}.
Definition prefix_visible_sched : list tactor :=
  W4 ++ W4 ++ [TDrop; TR 0; TR 0; TR 0; TR 0; TR 0; TR 0; TR 0] ++ [TR 1; TR 1] ++ [TR 0; TR 0; TR 0].
Lemma prefix_visible_witness :
  map tdelivered (t_subs (tfinal in_place_locked 2 2 prefix_visible_sched)) = [[0; 1]; [0]].
Proof. vm_compute. reflexivity. Qed.
Lemma prefix_visible_loses : TLoses in_place_locked 2 2 prefix_visible_sched.
Proof.
  split; [vm_compute; reflexivity|]. exists 1. eexists. split; [vm_compute; reflexivity|].
  split; [vm_compute; reflexivity|]. vm_compute. intros Q; discriminate Q.
Qed.

Theorem rebuild_other_disciplines_refuted : forall d, rdisc_ok d = false -> exists n m sched, TLoses d n m sched.
Proof.
  intros [[|] [|]] H; try discriminate H.
  - exists 4, 2, stale_rename_sched. exact stale_rename_loses.
  - exists 2, 2, prefix_visible_sched. exact prefix_visible_loses.
  - exists 4, 2, lost_append_sched. exact lost_append_loses.
Qed.

(* the hypotheses of rebuild_exactly_once are met by a run in which the rebuild really happens next to appends:
   the witness schedule under the repaired discipline *)
Lemma rebuild_exactly_once_example :
  rdisc_ok okd = true /\ t_wk (tfinal okd 4 2 lost_append_sched) = 4 /\
  map tattached (t_subs (tfinal okd 4 2 lost_append_sched)) = [true; true].
Proof. vm_compute. repeat split. Qed.
(* ... and with the cache lost the rebuild runs under the mutex: the writer's next append and a second reader wait *)
Definition rebuild_under_lock_sched : list tactor :=
  W4 ++ W4 ++ [TDrop; TR 0; TR 0; TR 0; TR 0; TR 0; TW; TR 1; TR 1] ++ [TR 0; TR 0; TR 0] ++ [TR 1; TR 1; TR 1] ++ W4.
Lemma rebuild_under_lock_example :
  t_wk (tfinal okd 3 2 rebuild_under_lock_sched) = 3 /\ t_side (tfinal okd 3 2 rebuild_under_lock_sched) = [0; 1; 2] /\
  map tattached (t_subs (tfinal okd 3 2 rebuild_under_lock_sched)) = [true; true] /\
  map tdelivered (t_subs (tfinal okd 3 2 rebuild_under_lock_sched)) = [[0; 1; 2]; [0; 1; 2]].
Proof. vm_compute. repeat split. Qed.

(* through the generated obligation (Gen/StreamOrder.v: gen_ok_replay_check && rdisc_ok gen_rebuild_disc = true) *)
Theorem rebuild_exactly_once_checked : forall (found : bool) (d : rdisc), found && rdisc_ok d = true ->
  forall (n m : nat) (sched : list tactor) (i : nat) (x : tsub),
  nth_error (t_subs (tfinal d n m sched)) i = Some x -> tattached x = true ->
  TExactlyOnce n (tfinal d n m sched) x.
Proof. intros found d H. apply andb_true_iff in H. destruct H as [_ H]. exact (rebuild_exactly_once d H). Qed.
